(* C08: the square-and-multiply loop of powmod.  For EVERY exponent e >= 1 the result is congruent to P^e modulo U,
   given the two step facts that are not proved in this development (they are tied by the correspondence run):
   sqr = schoolbook square, and modin(A,U) = A modulo a multiple of U.  The reduction `mod` (= divmod) is covered by the
   proved division identity, the products by the proved Karatsuba/schoolbook theorem. *)
From Coq Require Import List Arith Lia Setoid Morphisms Ring Bool ZArith PArith.
From C08 Require Import Model Spec ProofsBasic ProofsKara ProofsDiv ProofsSqr.
Import ListNotations.

Section Pow.
Context {T : Type} (D : Dom T) (OK : FieldOK D).
Local Notation I_ := (d1 D).
Local Notation peq := (peq D).
Local Notation pmul := (pmul D).
Local Notation padd := (add D).
Local Notation psub := (sub D).
Local Notation pneg := (neg D).
Local Notation eqv := (eqv D).
Local Instance i_equiv : Equivalence eqv := eqv_equiv D.
Local Instance i_add : Proper (eqv ==> eqv ==> eqv) padd := eqv_add D OK.
Local Instance i_sub : Proper (eqv ==> eqv ==> eqv) psub := eqv_sub D OK.
Local Instance i_mul : Proper (eqv ==> eqv ==> eqv) pmul := eqv_mul D OK.
Local Instance i_neg : Proper (eqv ==> eqv) pneg := eqv_neg D OK.
Add Ring EringPow : (eqv_ring D OK) (setoid (eqv_equiv D) (eqv_ext D OK)).
Add Ring EringPowP : (eqv_ring_poly D OK) (setoid (eqv_equiv D) (eqv_ext D OK)).

(* powers of the specification: by the binary expansion (as the loop consumes it) and by iterated product *)
Fixpoint ppw (X : list T) (p : positive) : list T :=
  match p with
  | xH => X
  | xO q => ppw (pmul X X) q
  | xI q => pmul X (ppw (pmul X X) q)
  end.
Fixpoint pun (X : list T) (n : nat) : list T :=
  match n with O => [I_] | S m => pmul X (pun X m) end.

Lemma pun_add : forall X a b, eqv (pun X (a + b)) (pmul (pun X a) (pun X b)).
Proof.
  intros X a b. induction a as [|a IH]; cbn [pun plus]. ring. rewrite IH. ring.
Qed.
Lemma pun_sq : forall X n, eqv (pun (pmul X X) n) (pmul (pun X n) (pun X n)).
Proof.
  intros X n. induction n as [|n IH]; cbn [pun]. ring. rewrite IH. ring.
Qed.
Lemma ppw_pun : forall p X, eqv (ppw X p) (pun X (Pos.to_nat p)).
Proof.
  induction p as [q IH|q IH|]; intros X; cbn [ppw].
  - rewrite Pos2Nat.inj_xI. cbn [pun]. rewrite IH, pun_sq.
    replace (2 * Pos.to_nat q)%nat with (Pos.to_nat q + Pos.to_nat q)%nat by lia. rewrite pun_add. reflexivity.
  - rewrite Pos2Nat.inj_xO. rewrite IH, pun_sq.
    replace (2 * Pos.to_nat q)%nat with (Pos.to_nat q + Pos.to_nat q)%nat by lia. rewrite pun_add. reflexivity.
  - change (Pos.to_nat 1) with 1%nat. cbn [pun]. ring.
Qed.

(* congruence modulo U *)
Definition cong (U A B : list T) : Prop := exists K, eqv A (padd B (pmul K U)).
Lemma cong_of_eqv : forall U A B, eqv A B -> cong U A B.
Proof. intros U A B H. exists []. rewrite H. ring. Qed.
Lemma cong_trans : forall U A B C, cong U A B -> cong U B C -> cong U A C.
Proof. intros U A B C [K H] [L H']. exists (padd K L). rewrite H, H'. ring. Qed.
Lemma cong_mul : forall U A A' B B', cong U A A' -> cong U B B' -> cong U (pmul A B) (pmul A' B').
Proof.
  intros U A A' B B' [K H] [L H']. exists (padd (padd (pmul K B') (pmul A' L)) (pmul (pmul K L) U)).
  rewrite H, H'. ring.
Qed.
Lemma cong_ppw : forall U p X Y, cong U X Y -> cong U (ppw X p) (ppw Y p).
Proof.
  intros U. induction p as [q IH|q IH|]; intros X Y H; cbn [ppw].
  - apply cong_mul. exact H. apply IH. apply cong_mul; exact H.
  - apply IH. apply cong_mul; exact H.
  - exact H.
Qed.

Section Loop.
Variables (kthr sthr : nat) (U : list T).
Hypothesis Hk : 1 <= kthr.
(* the two step facts taken as hypotheses (correspondence-tested, not proved here) *)
Hypothesis Hsqr : forall A, eqv (sqr D kthr sthr A) (pmul A A).
Hypothesis Hmodin : forall A, cong U (modin D A U) A.

Lemma mod_cong : forall A, cong U (mod_ D kthr sthr A U) A.
Proof.
  intros A. unfold mod_. pose proof (divmod_identity D OK kthr sthr A U Hk) as H.
  destruct (divmod D kthr sthr A U) as [Q R]. cbn [fst snd] in *.
  exists (pneg Q). assert (HA : eqv A (padd (pmul U Q) R)) by (constructor; exact H).
  rewrite HA. ring.
Qed.
Lemma mulin_eqv : forall W X, eqv (mulin D kthr W X) (pmul W X).
Proof. intros. unfold mulin, assign. rewrite (setdegree_eqv D OK), (mul_eqv D OK kthr _ _ Hk). reflexivity. Qed.

Lemma powmod_pos_cong : forall p W pu, cong U (powmod_pos D kthr sthr W pu U p) (pmul W (ppw pu p)).
Proof.
  induction p as [q IH|q IH|]; intros W pu; cbn [powmod_pos ppw].
  - eapply cong_trans. apply IH.
    eapply cong_trans.
    + apply cong_mul. eapply cong_trans. apply Hmodin. apply cong_of_eqv. apply mulin_eqv.
      apply cong_ppw. eapply cong_trans. apply mod_cong. apply cong_of_eqv. apply Hsqr.
    + apply cong_of_eqv. ring.
  - eapply cong_trans. apply IH.
    apply cong_mul. apply cong_of_eqv. reflexivity.
    apply cong_ppw. eapply cong_trans. apply mod_cong. apply cong_of_eqv. apply Hsqr.
  - eapply cong_trans. apply Hmodin. apply cong_of_eqv. apply mulin_eqv.
Qed.
End Loop.

(* powmod(W,P,e,U0) for every exponent e >= 1: the loop runs on U = setdegree U0 (stripped in place) *)
Lemma powmod_cong : forall kthr sthr e0 P U0 (e : positive), 1 <= kthr ->
  (forall A, eqv (sqr D kthr sthr A) (pmul A A)) ->
  (forall A, cong (setdegree D U0) (modin D A (setdegree D U0)) A) ->
  cong (setdegree D U0) (powmod D kthr sthr e0 P (Npos e) U0) (pun P (Pos.to_nat e)).
Proof.
  intros kthr sthr e0 P U0 e Hk Hsqr Hmodin. unfold powmod.
  eapply cong_trans. { apply cong_of_eqv. apply (setdegree_eqv D OK). }
  eapply cong_trans. { apply (powmod_pos_cong kthr sthr (setdegree D U0) Hk Hsqr Hmodin). }
  eapply cong_trans.
  { apply cong_mul.
    - destruct e0. apply (mod_cong kthr sthr (setdegree D U0) Hk). apply cong_of_eqv. unfold assign. apply (setdegree_eqv D OK).
    - apply cong_ppw. apply (mod_cong kthr sthr (setdegree D U0) Hk). }
  apply cong_of_eqv. rewrite ppw_pun. ring.
Qed.

(* with the proved squaring theorem only the modin step remains a hypothesis *)
Lemma powmod_cong_sqr : forall kthr sthr e0 P U0 (e : positive), 1 <= kthr -> 1 <= sthr ->
  (forall A, cong (setdegree D U0) (modin D A (setdegree D U0)) A) ->
  cong (setdegree D U0) (powmod D kthr sthr e0 P (Npos e) U0) (pun P (Pos.to_nat e)).
Proof.
  intros kthr sthr e0 P U0 e Hk Hs Hm. apply powmod_cong; try assumption.
  intros A. constructor. apply (sqr_spec D OK); assumption.
Qed.
End Pow.
