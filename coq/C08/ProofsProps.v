(* C08: the statements of Properties.v (kept readable here) and an instance showing that the hypotheses are satisfiable. *)
From Coq Require Import List Arith Lia Setoid Morphisms Ring Bool ZArith.
From C08 Require Import Model Spec ProofsBasic ProofsKara ProofsDiv ProofsSqr ProofsNewton ProofsRev ProofsDivDeg ProofsGcd ProofsEuclid ProofsPow ProofsInvmod ProofsModin ProofsMid ProofsMisc ProofsMisc2 ProofsPdiv ProofsNormal ProofsLcm.
Import ListNotations.

Section Stmts.
Context {T : Type} (D : Dom T).
Local Notation peq := (peq D).
Local Notation pmul := (pmul D).

(* S1: the schoolbook specification (add, pmul, sub, neg) is a commutative ring up to coefficientwise equality *)
Definition SpecRing_stmt := ring_theory (R := list T) [] [d1 D] (add D) pmul (sub D) (neg D) peq.
(* S2: the schoolbook product on ranges returns exactly n coefficients, those of the specification *)
Definition StdmulRange_stmt := forall n P Q,
  length (stdmul_r D n P Q) = n /\ forall i, i < n -> coef D (stdmul_r D n P Q) i = coef D (pmul P Q) i.
(* S3: the recursive dynamic choice schoolbook/Karatsuba on ranges (truncated result, PHQH temporary) does the same,
   for every threshold >= 1, every recursion depth (fuel), every requested length n and all operands *)
Definition KaraRange_stmt := forall fuel thr n P Q, 1 <= thr ->
  length (mul_r D fuel thr n P Q) = n /\ forall i, i < n -> coef D (mul_r D fuel thr n P Q) i = coef D (pmul P Q) i.
(* S4: the public products = schoolbook, result in normal form *)
Definition Mul_stmt := forall thr P Q, 1 <= thr -> peq (mul D thr P Q) (pmul P Q) /\ normal D (mul D thr P Q).
Definition Stdmul_stmt := forall P Q, peq (stdmul D P Q) (pmul P Q).
Definition Karamul_stmt := forall thr P Q, 1 <= thr -> 2 <= length P -> 2 <= length Q -> peq (karamul D thr P Q) (pmul P Q).
(* S5: division.  Full statement (proved): for B <> 0, divmod / divmodin return (Q,R) with A = B*Q + R and deg R < deg B, and
   deg mod(A,B) < deg B - every pair of thresholds >= 1.  (The fast division: reverse, Newton inverse of rev B modulo X^l,
   truncated product, reverse; the proof reindexes the convolution sum of the reversed vectors, ProofsRev.rev_pmul.)
   DivisionIdentity_stmt keeps the identity alone without the hypothesis on the squaring threshold.  B <> 0 is a hypothesis of
   BOTH: the code dereferences the empty reversed divisor (segfault) for B = 0, which the model totalises (dinv 0); a zero divisor is
   outside the property's domain ("for every non-zero B") and outside the generators. *)
Definition Division_stmt := forall kthr sthr A B, 1 <= kthr -> 1 <= sthr -> isZero D B = false ->
  (let '(Q, R) := divmod D kthr sthr A B in peq A (add D (pmul B Q) R) /\ (degree D R < degree D B)%Z) /\
  (let '(Q, R) := divmodin D kthr sthr A B in peq A (add D (pmul B Q) R) /\ (degree D R < degree D B)%Z) /\
  (degree D (mod_ D kthr sthr A B) < degree D B)%Z.
Definition DivisionIdentity_stmt := forall kthr sthr A B, 1 <= kthr -> isZero D B = false ->
  (let '(Q, R) := divmod D kthr sthr A B in peq A (add D (pmul B Q) R)) /\
  (let '(Q, R) := divmodin D kthr sthr A B in peq A (add D (pmul B Q) R)).
(* S8: the public add(R,P,Q) / sub(R,P,Q) (as repaired: ending in setdegree) return the specification's sum/difference,
   in normal form when the operands are *)
Definition AddSub_stmt := forall P Q,
  peq (add_pub D P Q) (add D P Q) /\ peq (sub_pub D P Q) (sub D P Q) /\
  (normal D P -> normal D Q -> normal D (add_pub D P Q) /\ normal D (sub_pub D P Q)).
(* the entrywise add without the final setdegree (the code before the repair) does NOT keep normal forms *)
Definition RawAddNormal_stmt := forall P Q, normal D P -> normal D Q -> normal D (add D P Q).
(* S10: the dedicated squaring (stdsqr, sqrrec on ranges) = schoolbook square, every pair of thresholds >= 1 *)
Definition Sqr_stmt := forall kthr sthr P, 1 <= kthr -> 1 <= sthr -> peq (sqr D kthr sthr P) (pmul P P).
(* S11: Newton inversion: A * invmodpowx(A,l) = 1 mod X^l for every l and every A with A[0] <> 0 *)
Definition Newton_stmt := forall kthr sthr A l, 1 <= kthr -> 1 <= sthr -> coef D A 0 <> d0 D ->
  forall k, k < l -> coef D (pmul A (invmodpowx D kthr sthr A l)) k = coef D [d1 D] k.
(* S14: the protected squaring on ranges (dynamic choice stdsqr / sqrrec, container of cP entries for the temporary) *)
Definition SqrRange_stmt := forall fuel kthr sthr cP P, 1 <= kthr -> 1 <= sthr -> 1 <= length P -> length P <= S cP ->
  let R := sqr_r D fuel kthr sthr cP (2 * length P - 1) P in
  length R = (2 * length P - 1)%nat /\ forall i, i < 2 * length P - 1 -> coef D R i = coef D (pmul P P) i.
(* S15: extended gcd, unconditional: the loop ends within its fuel (deg R < deg B), so F divides A and B, every common divisor
   divides F, and F = S0*A + T0*B.  A, B not both zero is a hypothesis: for A = B = 0 the code inverts the leading coefficient of
   the zero polynomial, which the model totalises (dinv 0); the generators exclude it *)
Definition GcdExt_stmt := forall kthr sthr A B, 1 <= kthr -> 1 <= sthr -> isZero D A = false \/ isZero D B = false ->
  let '(F, S0, T0) := gcdext D kthr sthr A B in
  is_gcd D F A B /\ peq F (add D (pmul S0 A) (pmul T0 B)).
(* S16: gcd(G,P,Q) (plain Euclidean loop on mod) returns a greatest common divisor *)
Definition Gcd_stmt := forall kthr sthr P Q, 1 <= kthr -> 1 <= sthr -> is_gcd D (gcd D kthr sthr P Q) P Q.
(* S17: lcm (deg A, deg B >= 1) is a LEAST common multiple: a multiple of A and of B, NON-ZERO, and a divisor of every common
   multiple (new loop invariant: the determinant S0*T1 - S1*T0 of the cofactors stays a non-zero constant) *)
Definition Lcm_stmt := forall kthr sthr A B, 1 <= kthr -> 1 <= sthr -> (1 <= degree D A)%Z -> (1 <= degree D B)%Z ->
  dvd D A (lcm D kthr sthr A B) /\ dvd D B (lcm D kthr sthr A B) /\ ~ eqv D (lcm D kthr sthr A B) [] /\
  forall M, dvd D A M -> dvd D B M -> dvd D (lcm D kthr sthr A B) M.
(* S18: modular inverse: for coprime A, B of degree >= 1, invmod(A,B) * A = 1 mod B *)
Definition Invmod_stmt := forall kthr sthr A B, 1 <= kthr -> 1 <= sthr -> (1 <= degree D A)%Z -> (1 <= degree D B)%Z ->
  (forall X, dvd D X A -> dvd D X B -> dvd D X [d1 D]) ->
  cong D B (pmul (invmod D kthr sthr A B) A) [d1 D].
(* S19: the in-place remainder modin(A,B) for B in normal form (the precondition of the code), B <> 0 *)
Definition Modin_stmt := forall A B, normal D B -> B <> [] ->
  cong D B (modin D A B) A /\ (degree D (modin D A B) < degree D B)%Z.
(* S20: powmod, unconditional: EVERY exponent e >= 0, U <> 0: the result is congruent to the e-fold product modulo U and, for e <> 0
   or deg U >= 1 or the repaired initialisation `mod(W,one,U)` (e0red = true), of degree < deg U - i.e. it IS the remainder of P^e
   by U (the code as written returns 1 for e = 0 also when U is a non-zero constant: see Powmod_e0_unit_stmt) *)
Definition Powmod_stmt := forall kthr sthr e0red P U0 (e : N), 1 <= kthr -> 1 <= sthr -> isZero D U0 = false ->
  cong D (setdegree D U0) (powmod D kthr sthr e0red P e U0) (pun D P (N.to_nat e)) /\
  (e0red = true \/ e <> 0%N \/ (1 <= degree D U0)%Z -> (degree D (powmod D kthr sthr e0red P e U0) < degree D U0)%Z).
(* e0red = false is the code as written (`assign(W,one)`); the check reads which form /repo has and runs the model accordingly *)
Definition Powmod_e0_unit_stmt := forall kthr sthr P U0, isZero D U0 = false ->
  (degree D (powmod D kthr sthr false P 0%N U0) < degree D U0)%Z.
(* S21: the middle product MP(P,Q) = coefficients |Q|-1 .. |P|-1 of P*Q (precondition of the code: 1 <= |Q| <= |P|): the dispatching
   midmul, the forced schoolbook form and the forced first Karatsuba level (balanced, |P| = 2|Q|-1), for EVERY threshold *)
Definition Midmul_stmt := forall thr P Q, 1 <= length Q -> length Q <= length P ->
  (forall j, coef D (midmul D thr P Q) j = if (j <? length P - length Q + 1)%nat then coef D (pmul P Q) (length Q - 1 + j) else d0 D) /\
  (forall j, coef D (stdmidmul D P Q) j = if (j <? length P - length Q + 1)%nat then coef D (pmul P Q) (length Q - 1 + j) else d0 D) /\
  (length P = (2 * length Q - 1)%nat ->
   forall j, coef D (karamidmul D thr P Q) j = if (j <? length Q)%nat then coef D (pmul P Q) (length Q - 1 + j) else d0 D).
(* S22: pow(W,P,n) is the n-fold product, in normal form, for every n *)
Definition Pow_stmt := forall kthr P (n : N), 1 <= kthr -> eqv D (pow D kthr P n) (pun D P (N.to_nat n)) /\ normal D (pow D kthr P n).
(* S23: the fused forms axpy/axpyin/maxpy/maxpyin/axmy/axmyin with polynomial and with scalar multiplier *)
Definition Fused_stmt := forall kthr, 1 <= kthr -> forall (a x y r : list T) (s : T),
  eqv D (axpy D kthr a x y) (add D (pmul a x) y) /\ eqv D (axpyin D kthr r a x) (add D (pmul a x) r) /\
  eqv D (maxpy D kthr a x y) (sub D y (pmul a x)) /\ eqv D (maxpyin D kthr r a x) (sub D r (pmul a x)) /\
  eqv D (axmy D kthr a x y) (sub D (pmul a x) y) /\ eqv D (axmyin D kthr r a x) (sub D (pmul a x) r) /\
  eqv D (axpy_s D s x y) (add D (pmul [s] x) y) /\ eqv D (axpyin_s D r s x) (add D (pmul [s] x) r) /\
  eqv D (maxpyin_s D r s x) (sub D r (pmul [s] x)) /\
  eqv D (axmy_s D s x y) (sub D (pmul [s] x) y) /\ eqv D (axmyin_s D r s x) (sub D (pmul [s] x) r).
(* S24: the scalar forms *)
Definition Scalar_stmt := forall (P : list T) (v : T),
  eqv D (add_s D P v) (add D P [v]) /\ eqv D (addin_s D P v) (add D P [v]) /\
  eqv D (sub_s D P v) (sub D P [v]) /\ eqv D (subin_s D P v) (sub D P [v]) /\ eqv D (s_sub D v P) (sub D [v] P) /\
  eqv D (mul_s D P v) (pmul [v] P) /\ eqv D (div_s D P v) (pmul [dinv D v] P).
(* S25: evaluation = sum P[i] v^i (Horner), derivative, reversal, composition with X^b, truncated product *)
Definition EvalDiffRev_stmt := forall P v i,
  eval D P v = peval D P v /\ coef D (diff D P) i = dmul D (coef D P (S i)) (natT D (S i)) /\
  coef D (reverse D P) i = (if (i <? length P)%nat then coef D P (length P - 1 - i) else d0 D) /\
  (forall b, 1 <= b -> coef D (power_compose D P b) i = if (Nat.modulo i b =? 0)%nat then coef D P (Nat.div i b) else d0 D).
Definition MulTrunc_stmt := forall P Q v d i,
  coef D (mul_trunc D P Q v d) i = if (i <? d - v + 1)%nat then coef D (pmul P Q) (i + v) else d0 D.
(* S26: divmod returns THE quotient and remainder: any (Q',R') with A = B*Q' + R', deg R' < deg B agrees with it *)
Definition DivmodUnique_stmt := forall kthr sthr A B Q' R', 1 <= kthr -> 1 <= sthr -> isZero D B = false ->
  eqv D A (add D (pmul B Q') R') -> (degree D R' < degree D B)%Z ->
  eqv D (fst (divmod D kthr sthr A B)) Q' /\ eqv D (snd (divmod D kthr sthr A B)) R'.
(* S27: areEqual decides coefficientwise equality (operands with leading zeros included), isDivisor decides divisibility *)
Definition Decide_stmt := forall kthr sthr P Q, 1 <= kthr -> 1 <= sthr ->
  (areEqual D P Q = true <-> peq P Q) /\ (isDivisor D kthr sthr P Q = true <-> dvd D Q P).
(* S28: pseudo-division (the code as repaired by fix-4/5/6): m*A = B*Q + R, deg R < deg B, m a power of lc(B); pmod returns a
   remainder with m*A - R a multiple of B *)
Definition Pdivmod_stmt := forall A B, isZero D B = false ->
  (let '(Q, R, m) := pdivmod D A B in
   eqv D (pmul [m] A) (add D (pmul B Q) R) /\ (degree D R < degree D B)%Z /\ exists k, m = dom_pow D (leadcoef D B) k) /\
  (let '(R, m) := pmod D A B in
   (exists K, eqv D (pmul [m] A) (add D (pmul B K) R)) /\ (degree D R < degree D B)%Z /\ exists k, m = dom_pow D (leadcoef D B) k).
(* S29: SHAPE OF THE MODEL, not a property of the code by itself: the MODEL's public operations return lists without a leading zero
   coefficient.  38 of the 42 conjuncts hold simply because the model function ends in `setdegree` / `assign` (as the C++ body does);
   only gcd, gcdext, invmod and the forms that hand an operand through (maxpy, the in-place subtracting forms) need an invariant.
   That the CODE ends in setdegree at the same places is established by the correspondence on the RAW vectors and by the oracle's
   normal-form check on every case, not by this statement.  (add/sub: AddSub_stmt; pow: Pow_stmt; sqr has no final setdegree.) *)
Definition ModelResultsNormal_stmt := forall kthr sthr e0 (A B C : list T) (v : T) (e : N) (n b l i j : nat),
  normal D (mul D kthr A B) /\ normal D (stdmul D A B) /\ normal D (karamul D kthr A B) /\ normal D (mulin D kthr A B) /\
  normal D (midmul D kthr A B) /\ normal D (mul_trunc D A B i j) /\
  normal D (div D kthr sthr A B) /\ normal D (fst (divmod D kthr sthr A B)) /\ normal D (snd (divmod D kthr sthr A B)) /\
  normal D (fst (divmodin D kthr sthr A B)) /\ normal D (snd (divmodin D kthr sthr A B)) /\ normal D (mod_ D kthr sthr A B) /\
  normal D (modin D A B) /\ normal D (gcd D kthr sthr A B) /\
  (let '(F, S0, T0) := gcdext D kthr sthr A B in normal D F /\ normal D S0 /\ normal D T0) /\
  normal D (invmod D kthr sthr A B) /\ normal D (lcm D kthr sthr A B) /\ normal D (powmod D kthr sthr e0 A e B) /\
  (let '(Q, R, m) := pdivmod D A B in normal D Q /\ normal D R) /\ normal D (fst (pmod D A B)) /\
  normal D (axpy D kthr A B C) /\ normal D (axpyin D kthr C A B) /\ normal D (axmy D kthr A B C) /\ normal D (axpy_s D v B C) /\
  normal D (axmy_s D v B C) /\ (normal D C -> normal D (maxpy D kthr A B C)) /\
  (normal D C -> normal D (maxpyin D kthr C A B) /\ normal D (axmyin D kthr C A B) /\ normal D (maxpyin_s D C v B) /\ normal D (axmyin_s D C v B)) /\
  normal D (add_s D A v) /\ normal D (addin_s D A v) /\ normal D (sub_s D A v) /\ normal D (subin_s D A v) /\ normal D (s_sub D v A) /\
  normal D (mul_s D A v) /\ normal D (div_s D A v) /\ normal D (diff D A) /\ normal D (reverse D A) /\ normal D (power_compose D A b) /\
  normal D (modpowx D A l) /\ normal D (assign D A) /\ normal D (monomial D n v).
(* S30: the remaining small forms: maxpy(r,a,b,c) with a scalar a (the twelfth fused form), modpowx, div / mod with a scalar DIVIDEND
   (P in normal form, non-zero: u = P*div + mod, deg mod < deg P) *)
Definition SmallForms_stmt := forall (a u : T) (b c A P : list T) (l i : nat),
  coef D (maxpy_s D a b c) i = dsub D (coef D c i) (dmul D a (coef D b i)) /\
  coef D (modpowx D A l) i = (if (i <? l)%nat then coef D A i else d0 D) /\
  (normal D P -> P <> [] ->
   eqv D [u] (add D (pmul P (div_sp D u P)) (mod_sp D u P)) /\ (degree D (mod_sp D u P) < degree D P)%Z).
(* S7: setdegree keeps the polynomial, returns a normal form, and the zero polynomial is recognised *)
Definition Normal_stmt := forall P,
  peq (setdegree D P) P /\ normal D (setdegree D P) /\ (isZero D P = true <-> peq P []).
End Stmts.

(* ---- the statements as they appear in Properties.v (bundled: one theorem per group of operations) *)
Section Bundles.
Context {T : Type} (D : Dom T).
Definition Products_stmt := Mul_stmt D /\ Stdmul_stmt D /\ Karamul_stmt D.
Definition Squaring_stmt := Sqr_stmt D /\ SqrRange_stmt D.
Definition MidTrunc_stmt := Midmul_stmt D /\ MulTrunc_stmt D.
Definition DivisionAll_stmt := DivisionIdentity_stmt D /\ Division_stmt D /\ DivmodUnique_stmt D /\ Modin_stmt D.
Definition Euclid_stmt := GcdExt_stmt D /\ Gcd_stmt D /\ Lcm_stmt D /\ Invmod_stmt D.
Definition Powers_stmt := Pow_stmt D /\ Powmod_stmt D.
Definition Linear_stmt := AddSub_stmt D /\ Scalar_stmt D /\ Fused_stmt D /\ SmallForms_stmt D.
Definition NormalDecide_stmt := Normal_stmt D /\ Decide_stmt D /\ ModelResultsNormal_stmt D.
End Bundles.

Section Lemmas.
Context {T : Type} (D : Dom T) (OK : FieldOK D).
Lemma SpecRing_ok : SpecRing_stmt D. Proof. exact (poly_ring D OK). Qed.
Lemma StdmulRange_ok : StdmulRange_stmt D.
Proof. intros n P Q. split. apply length_stdmul_r. intros. apply (coef_stdmul_r D OK). assumption. Qed.
Lemma KaraRange_ok : KaraRange_stmt D.
Proof. intros fuel thr n P Q H. apply (mul_r_spec D OK fuel thr H n P Q). Qed.
Lemma Mul_ok : Mul_stmt D.
Proof. intros thr P Q H. split. apply (mul_spec D OK); assumption. apply (mul_normal D OK). Qed.
Lemma Stdmul_ok : Stdmul_stmt D. Proof. exact (stdmul_spec D OK). Qed.
Lemma Karamul_ok : Karamul_stmt D. Proof. exact (karamul_spec D OK). Qed.
Lemma DivisionIdentity_ok : DivisionIdentity_stmt D.
Proof.
  intros kthr sthr A B H _. split.
  - pose proof (divmod_identity D OK kthr sthr A B H) as E. destruct (divmod D kthr sthr A B). exact E.
  - pose proof (divmodin_identity D OK kthr sthr A B H) as E. destruct (divmodin D kthr sthr A B). exact E.
Qed.
Lemma AddSub_ok : AddSub_stmt D.
Proof.
  intros P Q. split. apply (add_pub_peq D OK). split. apply eqv_peq. apply (sub_pub_eqv D OK).
  intros HP HQ. split. apply (add_pub_normal D OK); assumption. apply (sub_pub_normal D OK); assumption.
Qed.
Lemma Sqr_ok : Sqr_stmt D. Proof. exact (sqr_spec D OK). Qed.
Lemma Newton_ok : Newton_stmt D.
Proof. intros kthr sthr A l Hk Hs HA. exact (invmodpowx_spec D OK kthr sthr Hk Hs A l HA). Qed.
Lemma Division_ok : Division_stmt D.
Proof.
  intros kthr sthr A B Hk Hs HZ. split; [|split].
  - pose proof (divmod_identity D OK kthr sthr A B Hk) as E. pose proof (divmod_degree D OK kthr sthr Hk Hs A B HZ) as G.
    destruct (divmod D kthr sthr A B). split; assumption.
  - pose proof (divmodin_identity D OK kthr sthr A B Hk) as E. pose proof (divmodin_degree D OK kthr sthr Hk Hs A B HZ) as G.
    destruct (divmodin D kthr sthr A B). split; assumption.
  - apply (divmod_degree D OK kthr sthr Hk Hs A B HZ).
Qed.
Lemma SqrRange_ok : SqrRange_stmt D.
Proof.
  intros fuel kthr sthr cP P Hk Hs H1 H2.
  exact (sqr_r_ok D OK fuel kthr sthr cP Hk Hs (2 * length P - 1)%nat P H1 H2 eq_refl).
Qed.
Lemma GcdExt_ok : GcdExt_stmt D.
Proof.
  intros kthr sthr A B Hk Hs _.
  pose proof (gcdext_divides D OK kthr sthr Hk Hs A B) as H1. pose proof (gcdext_bezout D OK kthr sthr A B Hk) as H2.
  destruct (gcdext D kthr sthr A B) as [[F S0] T0]. destruct H1 as [HA HB]. split; [|exact H2].
  split; [exact HA|split; [exact HB|]]. intros X HXA HXB.
  eapply dvd_eqv. constructor. exact H2. apply (dvd_add D OK); apply (dvd_mul_l D OK); assumption.
Qed.
Lemma Gcd_ok : Gcd_stmt D.
Proof. intros kthr sthr P Q Hk Hs. exact (gcd_is_gcd D OK kthr sthr Hk Hs P Q). Qed.
Lemma Lcm_ok : Lcm_stmt D.
Proof.
  intros kthr sthr A B Hk Hs HA HB. destruct (lcm_common_multiple_full D OK kthr sthr Hk Hs A B HA HB) as [H1 H2].
  destruct (lcm_least D OK kthr sthr Hk Hs A B HA HB) as [H3 H4]. repeat match goal with |- _ /\ _ => split end; assumption.
Qed.
Lemma Invmod_ok : Invmod_stmt D.
Proof. intros kthr sthr A B Hk Hs. exact (invmod_spec D OK kthr sthr Hk Hs A B). Qed.
Lemma Modin_ok : Modin_stmt D.
Proof. exact (modin_spec D OK). Qed.
Lemma Powmod_ok : Powmod_stmt D.
Proof. exact (powmod_full D OK). Qed.
Lemma Midmul_ok : Midmul_stmt D.
Proof.
  intros thr P Q HQ HP. split; [|split].
  - apply (midmul_spec D OK); assumption.
  - apply (stdmidmul_spec D OK); assumption.
  - intros E. apply (karamidmul_spec D OK); assumption.
Qed.
Lemma Pow_ok : Pow_stmt D. Proof. exact (pow_spec D OK). Qed.
Lemma Fused_ok : Fused_stmt D. Proof. exact (fused_spec D OK). Qed.
Lemma Scalar_ok : Scalar_stmt D. Proof. exact (scalar_spec D OK). Qed.
Lemma EvalDiffRev_ok : EvalDiffRev_stmt D.
Proof.
  intros P v i. split; [|split; [|split]].
  apply (eval_spec D OK). apply (diff_spec D OK). apply (reverse_spec D OK). intros b Hb. apply (power_compose_spec D OK). exact Hb.
Qed.
Lemma MulTrunc_ok : MulTrunc_stmt D. Proof. exact (mul_trunc_spec D OK). Qed.
Lemma DivmodUnique_ok : DivmodUnique_stmt D.
Proof. intros kthr sthr A B Q' R' Hk Hs. exact (divmod_unique D OK kthr sthr Hk Hs A B Q' R'). Qed.
Lemma Decide_ok : Decide_stmt D.
Proof.
  intros kthr sthr P Q Hk Hs. split. apply (areEqual_spec D OK). apply (isDivisor_spec D OK kthr sthr Hk Hs).
Qed.
Lemma Pdivmod_ok : Pdivmod_stmt D.
Proof. intros A B HZ. split. apply (pdivmod_spec D OK A B HZ). apply (pmod_spec D OK A B HZ). Qed.
Lemma ModelResultsNormal_ok : ModelResultsNormal_stmt D.
Proof.
  intros kthr sthr e0 A B C v e n b l i j.
  pose proof (divmod_n D OK kthr sthr A B) as [H1 H2]. pose proof (divmodin_n D OK kthr sthr A B) as [H3 H4].
  pose proof (fused_n D OK kthr A B C C v) as [F1 [F2 [F3 [F4 [F5 [F6 F7]]]]]].
  pose proof (misc_n D OK A v n b l) as [M1 [M2 [M3 [M4 [M5 [M6 [M7 [M8 [M9 [M10 [M11 [M12 M13]]]]]]]]]]]].
  repeat match goal with |- _ /\ _ => split end;
    first [ assumption | exact H2 | apply (mul_n D OK) | apply (stdmul_n D OK) | apply (karamul_n D OK) | apply (sd_normal D OK)
          | apply (midmul_n D OK) | apply (mul_trunc_n D OK) | apply (div_n D OK) | apply (modin_n D OK) | apply (gcd_n D OK)
          | apply (gcdext_n D OK) | apply (invmod_n D OK) | apply (lcm_n D OK) | apply (powmod_n D OK) | apply (pdivmod_n D OK)
          | apply (pmod_n D OK) ].
Qed.
Lemma Normal_ok : Normal_stmt D.
Proof.
  intros P. split. apply (setdegree_peq D OK). split. apply (setdegree_normal D OK). apply (isZero_spec D OK).
Qed.
Lemma Products_ok : Products_stmt D. Proof. split; [exact Mul_ok|split; [exact Stdmul_ok|exact Karamul_ok]]. Qed.
Lemma Squaring_ok : Squaring_stmt D. Proof. split; [exact Sqr_ok|exact SqrRange_ok]. Qed.
Lemma MidTrunc_ok : MidTrunc_stmt D. Proof. split; [exact Midmul_ok|exact MulTrunc_ok]. Qed.
Lemma DivisionAll_ok : DivisionAll_stmt D.
Proof. split; [exact DivisionIdentity_ok|split; [exact Division_ok|split; [exact DivmodUnique_ok|exact Modin_ok]]]. Qed.
Lemma Euclid_ok : Euclid_stmt D. Proof. split; [exact GcdExt_ok|split; [exact Gcd_ok|split; [exact Lcm_ok|exact Invmod_ok]]]. Qed.
Lemma Powers_ok : Powers_stmt D. Proof. split; [exact Pow_ok|exact Powmod_ok]. Qed.
Lemma SmallForms_ok : SmallForms_stmt D.
Proof.
  intros a u b c A P l i. split. apply (maxpy_s_spec D OK). split. apply (modpowx_spec D OK). intros NP HP. apply (div_mod_sp_spec D OK); assumption.
Qed.
Lemma Linear_ok : Linear_stmt D. Proof. split; [exact AddSub_ok|split; [exact Scalar_ok|split; [exact Fused_ok|exact SmallForms_ok]]]. Qed.
Lemma NormalDecide_ok : NormalDecide_stmt D. Proof. split; [exact Normal_ok|split; [exact Decide_ok|exact ModelResultsNormal_ok]]. Qed.
End Lemmas.

(* the hypotheses are satisfiable: GF(2) on bool *)
Definition GF2Dom : Dom bool := mkDom bool false true xorb xorb andb (fun a => a) (fun a => a) negb.
Lemma GF2_ok : FieldOK GF2Dom.
Proof.
  constructor; cbn; intros;
    repeat match goal with a : bool |- _ => destruct a end; try reflexivity; try (cbn; split; intros; congruence); try congruence.
Qed.
Example GF2_karatsuba_instance : KaraRange_stmt GF2Dom.
Proof. exact (KaraRange_ok GF2Dom GF2_ok). Qed.
Lemma RawAddNormal_refuted : ~ RawAddNormal_stmt GF2Dom.
Proof.
  intros H. specialize (H [true] [true]). destruct H as [H|H].
  - right. cbn. discriminate.
  - right. cbn. discriminate.
  - discriminate.
  - apply H. reflexivity.
Qed.

(* instances / witnesses: the hypotheses of the new statements are satisfiable over GF(2) *)
Example GF2_division_instance : Division_stmt GF2Dom.
Proof. exact (Division_ok GF2Dom GF2_ok). Qed.
Example GF2_division_run :      (* X^3 + X + 1 = (X + 1) * (X^2 + X) + 1 *)
  divmod GF2Dom 1 1 [true; true; false; true] [true; true] = ([false; true; true], [true]).
Proof. reflexivity. Qed.
Example GF2_gcdext_run :        (* gcd(X^2 + 1, X + 1) = X + 1 = 0 * A + 1 * B *)
  gcdext GF2Dom 1 1 [true; false; true] [true; true] = ([true; true], [], [true]).
Proof. reflexivity. Qed.
Example GF2_invmod_hyp : (1 <= degree GF2Dom [true; true; true])%Z /\ (1 <= degree GF2Dom [false; true])%Z /\
  invmod GF2Dom 1 1 [false; true] [true; true; true] = [true; true].     (* X * (X + 1) = 1 mod X^2 + X + 1 *)
Proof. repeat split; try reflexivity; cbv; discriminate. Qed.
Example GF2_modin_hyp : normal GF2Dom [true; true] /\ [true; true] <> [] /\ modin GF2Dom [true; true; false; true] [true; true] = [true].
Proof. split; [right; cbn; discriminate | split; [discriminate | reflexivity]]. Qed.
Example GF2_powmod_run :        (* X^5 mod X^2 + X + 1 = X + 1 *)
  powmod GF2Dom 1 1 false [false; true] 5%N [true; true; true] = [true; true] /\ powmod GF2Dom 1 1 true [true] 0%N [true] = [].
Proof. split; reflexivity. Qed.
(* the code returns 1 for exponent 0 also when the modulus is a non-zero constant (every remainder modulo a unit is 0) *)
Lemma Powmod_e0_unit_refuted : ~ Powmod_e0_unit_stmt GF2Dom.
Proof. intros H. specialize (H 1%nat 1%nat [true] [true] eq_refl). cbv in H. discriminate. Qed.
Example GF2_midmul_run :        (* (1 + X + X^2)(1 + X) = 1 + X^3: the middle coefficients 1..2 are 0, 0 *)
  midmul GF2Dom 1 [true; true; true] [true; true] = [] /\ stdmidmul_r GF2Dom [true; true; true] [true; true] = [false; false].
Proof. split; reflexivity. Qed.
Example GF2_midmul_instance : Midmul_stmt GF2Dom.
Proof. exact (Midmul_ok GF2Dom GF2_ok). Qed.
Example GF2_lcm_run :           (* lcm(X + 1, X^2 + 1) = X^2 + 1 in both operand orders; the degree hypotheses hold *)
  lcm GF2Dom 1 1 [true; true] [true; false; true] = [true; false; true] /\ lcm GF2Dom 1 1 [true; false; true] [true; true] = [true; false; true] /\
  (1 <= degree GF2Dom [true; true])%Z /\ (1 <= degree GF2Dom [true; false; true])%Z.
Proof. repeat split; try reflexivity; cbv; discriminate. Qed.
Example GF2_pdivmod_run : pdivmod GF2Dom [true; true; false; true] [true; true] = ([false; true; true], [true], true).
Proof. reflexivity. Qed.
Example GF2_coprime_hyp :       (* the coprimality hypothesis of Invmod_stmt is satisfiable: X and X^2 + X + 1 *)
  forall X, dvd GF2Dom X [false; true] -> dvd GF2Dom X [true; true; true] -> dvd GF2Dom X [true].
Proof.
  intros X [K1 H1] [K2 H2].
  (* 1 = (X^2 + X + 1) + (X + 1) * X *)
  exists (add GF2Dom K2 (pmul GF2Dom [true; true] K1)).
  destruct H1 as [H1]. destruct H2 as [H2]. constructor. intros i.
  rewrite (pmul_distr_l GF2Dom GF2_ok K2 (pmul GF2Dom [true; true] K1) X i), (coef_add GF2Dom GF2_ok).
  rewrite <- (H2 i), <- (pmul_assoc GF2Dom GF2_ok [true; true] K1 X i).
  rewrite (pmul_proper_r GF2Dom GF2_ok [true; true] (pmul GF2Dom K1 X) [false; true] (fun j => eq_sym (H1 j)) i).
  destruct i as [|[|[|[|i]]]]; reflexivity.
Qed.
Example GF2_sqr_range_hyp : 1 <= length [true; true] /\ length [true; true] <= S 1 /\ sqr_r GF2Dom 1 1 1 1 3 [true; true] = [true; false; true].
Proof. repeat split; cbn; lia. Qed.
Example GF2_newton_hyp : coef GF2Dom [true; true] 0 <> d0 GF2Dom /\ invmodpowx GF2Dom 1 1 [true; true] 3 = [true; true; true].
Proof. split. cbn. discriminate. reflexivity. Qed.
