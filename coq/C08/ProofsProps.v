(* C08: the statements of Properties.v (kept readable here) and an instance showing that the hypotheses are satisfiable. *)
From Coq Require Import List Arith Lia Setoid Morphisms Ring Bool ZArith.
From C08 Require Import Model Spec ProofsBasic ProofsKara ProofsDiv ProofsSqr ProofsNewton ProofsGcd ProofsPow.
Import ListNotations.

Section Stmts.
Context {T : Type} (D : Dom T).
Local Notation peq := (peq D).
Local Notation pmul := (pmul D).

(* S1: the schoolbook specification (add, pmul, sub, neg) is a commutative ring up to coefficientwise equality *)
Definition SpecRing_stmt := ring_theory (R := list T) [] [d1 D] (add D) pmul (sub D) (neg D) peq.
(* S2: the schoolbook product on ranges returns exactly n coefficients, those of the specification *)
Definition StdmulRange_stmt := forall n P Q,
  length (stdmul_r D n P Q) = n /\ forall i, i < n -> coef D (stdmul_r D n P Q) i = coef D (pmul P Q) i.
(* S3: the recursive dynamic choice schoolbook/Karatsuba on ranges (truncated result, PHQH temporary) does the same,
   for every threshold >= 1, every recursion depth (fuel), every requested length n and all operands *)
Definition KaraRange_stmt := forall fuel thr n P Q, 1 <= thr ->
  length (mul_r D fuel thr n P Q) = n /\ forall i, i < n -> coef D (mul_r D fuel thr n P Q) i = coef D (pmul P Q) i.
(* S4: the public products = schoolbook, result in normal form *)
Definition Mul_stmt := forall thr P Q, 1 <= thr -> peq (mul D thr P Q) (pmul P Q) /\ normal D (mul D thr P Q).
Definition Stdmul_stmt := forall P Q, peq (stdmul D P Q) (pmul P Q).
Definition Karamul_stmt := forall thr P Q, 1 <= thr -> 2 <= length P -> 2 <= length Q -> peq (karamul D thr P Q) (pmul P Q).
(* S5: division.  Full statement: A = B*Q + R and deg R < deg B for B <> 0.  Proved: the identity (for all A, B, also B = 0);
   the degree bound rests on the Newton inverse and stays correspondence-tested. *)
Definition Division_stmt := forall kthr sthr A B, 1 <= kthr -> isZero D B = false ->
  let '(Q, R) := divmod D kthr sthr A B in
  peq A (add D (pmul B Q) R) /\ (degree D R < degree D B)%Z.
Definition DivisionIdentity_stmt := forall kthr sthr A B, 1 <= kthr ->
  (let '(Q, R) := divmod D kthr sthr A B in peq A (add D (pmul B Q) R)) /\
  (let '(Q, R) := divmodin D kthr sthr A B in peq A (add D (pmul B Q) R)).
(* S6: Bezout: gcd(F,S0,T0,A,B) returns F = S0*A + T0*B, for all A, B *)
Definition Bezout_stmt := forall kthr sthr A B, 1 <= kthr ->
  let '(F, S0, T0) := gcdext D kthr sthr A B in peq F (add D (pmul S0 A) (pmul T0 B)).
(* S8: the public add(R,P,Q) / sub(R,P,Q) (as repaired: ending in setdegree) return the specification's sum/difference,
   in normal form when the operands are *)
Definition AddSub_stmt := forall P Q,
  peq (add_pub D P Q) (add D P Q) /\ peq (sub_pub D P Q) (sub D P Q) /\
  (normal D P -> normal D Q -> normal D (add_pub D P Q) /\ normal D (sub_pub D P Q)).
(* the entrywise add without the final setdegree (the code before the repair) does NOT keep normal forms *)
Definition RawAddNormal_stmt := forall P Q, normal D P -> normal D Q -> normal D (add D P Q).
(* S9: modular powering, exponent universally quantified.  Full statement: powmod P e U = P^e mod U.  Proved (partial): for EVERY
   e >= 1 the result is congruent to the e-fold product P*...*P modulo U (U = the stripped modulus), GIVEN the two step facts
   that are only correspondence-tested: sqr A = A*A and modin(A,U) = A up to a multiple of U.  Products and the reduction
   `mod` inside the loop are covered by the proved Karatsuba and division-identity theorems. *)
Definition PowmodCong_stmt := forall kthr sthr P U0 (e : positive), 1 <= kthr -> 1 <= sthr ->
  (forall A, cong D (setdegree D U0) (modin D A (setdegree D U0)) A) ->
  cong D (setdegree D U0) (powmod D kthr sthr P (Npos e) U0) (pun D P (Pos.to_nat e)).
(* S10: the dedicated squaring (stdsqr, sqrrec on ranges) = schoolbook square, every pair of thresholds >= 1 *)
Definition Sqr_stmt := forall kthr sthr P, 1 <= kthr -> 1 <= sthr -> peq (sqr D kthr sthr P) (pmul P P).
(* S11: Newton inversion: A * invmodpowx(A,l) = 1 mod X^l for every l and every A with A[0] <> 0 *)
Definition Newton_stmt := forall kthr sthr A l, 1 <= kthr -> 1 <= sthr -> coef D A 0 <> d0 D ->
  forall k, k < l -> coef D (pmul A (invmodpowx D kthr sthr A l)) k = coef D [d1 D] k.
(* S12: Euclid.  Full statement: the gcd divides both operands.  Proved (partial): for every run of the extended loop that has
   reached G = 0 the value it ends on divides both starting polynomials (that the fuel S (length G) suffices needs
   deg R < deg B, not proved) *)
Definition GcdDivides_stmt := forall kthr sthr fuel F G S0 S1 T0 T1, 1 <= kthr ->
  let '(F', G', _, _, _, _) := egcd_loop D kthr sthr fuel F G S0 S1 T0 T1 in
  isZero D G' = true -> dvd D F' F /\ dvd D F' G.
(* S13: lcm(F,A,B) is a common multiple of A and B (deg A, deg B >= 1; same proviso on the loop) *)
Definition LcmMultiple_stmt := forall kthr sthr A B, 1 <= kthr -> (1 <= degree D A)%Z -> (1 <= degree D B)%Z ->
  isZero D (lcm_loop_G D kthr sthr A B) = true ->
  dvd D A (lcm D kthr sthr A B) /\ dvd D B (lcm D kthr sthr A B).
(* S7: setdegree keeps the polynomial, returns a normal form, and the zero polynomial is recognised *)
Definition Normal_stmt := forall P,
  peq (setdegree D P) P /\ normal D (setdegree D P) /\ (isZero D P = true <-> peq P []).
End Stmts.

Section Lemmas.
Context {T : Type} (D : Dom T) (OK : FieldOK D).
Lemma SpecRing_ok : SpecRing_stmt D. Proof. exact (poly_ring D OK). Qed.
Lemma StdmulRange_ok : StdmulRange_stmt D.
Proof. intros n P Q. split. apply length_stdmul_r. intros. apply (coef_stdmul_r D OK). assumption. Qed.
Lemma KaraRange_ok : KaraRange_stmt D.
Proof. intros fuel thr n P Q H. apply (mul_r_spec D OK fuel thr H n P Q). Qed.
Lemma Mul_ok : Mul_stmt D.
Proof. intros thr P Q H. split. apply (mul_spec D OK); assumption. apply (mul_normal D OK). Qed.
Lemma Stdmul_ok : Stdmul_stmt D. Proof. exact (stdmul_spec D OK). Qed.
Lemma Karamul_ok : Karamul_stmt D. Proof. exact (karamul_spec D OK). Qed.
Lemma DivisionIdentity_ok : DivisionIdentity_stmt D.
Proof.
  intros kthr sthr A B H. split.
  - pose proof (divmod_identity D OK kthr sthr A B H) as E. destruct (divmod D kthr sthr A B). exact E.
  - pose proof (divmodin_identity D OK kthr sthr A B H) as E. destruct (divmodin D kthr sthr A B). exact E.
Qed.
Lemma Bezout_ok : Bezout_stmt D. Proof. exact (gcdext_bezout D OK). Qed.
Lemma AddSub_ok : AddSub_stmt D.
Proof.
  intros P Q. split. apply (add_pub_peq D OK). split. apply eqv_peq. apply (sub_pub_eqv D OK).
  intros HP HQ. split. apply (add_pub_normal D OK); assumption. apply (sub_pub_normal D OK); assumption.
Qed.
Lemma PowmodCong_ok : PowmodCong_stmt D. Proof. exact (powmod_cong_sqr D OK). Qed.
Lemma Sqr_ok : Sqr_stmt D. Proof. exact (sqr_spec D OK). Qed.
Lemma Newton_ok : Newton_stmt D.
Proof. intros kthr sthr A l Hk Hs HA. exact (invmodpowx_spec D OK kthr sthr Hk Hs A l HA). Qed.
Lemma GcdDivides_ok : GcdDivides_stmt D.
Proof. intros kthr sthr fuel F G S0 S1 T0 T1 Hk. exact (egcd_loop_dvd D OK kthr sthr Hk fuel F G S0 S1 T0 T1). Qed.
Lemma LcmMultiple_ok : LcmMultiple_stmt D. Proof. exact (lcm_common_multiple D OK). Qed.
Lemma Normal_ok : Normal_stmt D.
Proof.
  intros P. split. apply (setdegree_peq D OK). split. apply (setdegree_normal D OK). apply (isZero_spec D OK).
Qed.
End Lemmas.

(* the hypotheses are satisfiable: GF(2) on bool *)
Definition GF2Dom : Dom bool := mkDom bool false true xorb xorb andb (fun a => a) (fun a => a) negb.
Lemma GF2_ok : FieldOK GF2Dom.
Proof.
  constructor; cbn; intros;
    repeat match goal with a : bool |- _ => destruct a end; try reflexivity; try (cbn; split; intros; congruence); try congruence.
Qed.
Example GF2_karatsuba_instance : KaraRange_stmt GF2Dom.
Proof. exact (KaraRange_ok GF2Dom GF2_ok). Qed.
Lemma RawAddNormal_refuted : ~ RawAddNormal_stmt GF2Dom.
Proof.
  intros H. specialize (H [true] [true]). destruct H as [H|H].
  - right. cbn. discriminate.
  - right. cbn. discriminate.
  - discriminate.
  - apply H. reflexivity.
Qed.
