(* C08: the product of the reversed vectors is the reversed product (the reindexing of the convolution sum that the
   reverse / Newton-inverse / product / reverse division of givpoly1muldiv.inl rests on), and the characterisation of
   `degree` by vanishing coefficients. *)
From Coq Require Import List Arith Lia Setoid Morphisms Ring Bool ZArith.
From C08 Require Import Model Spec ProofsBasic ProofsSum.
Import ListNotations.

Section Rev.
Context {T : Type} (D : Dom T) (OK : FieldOK D).
Local Notation O_ := (d0 D).
Local Notation I_ := (d1 D).
Local Notation "a + b" := (dadd D a b).
Local Notation "a * b" := (dmul D a b).
Local Notation "a - b" := (dsub D a b).
Local Notation coef := (coef D).
Local Notation peq := (peq D).
Local Notation pmul := (pmul D).
Local Notation bigsum := (bigsum D).
Add Ring Tring8 : (Trt D OK).

(* ---- the convolution as a double sum over the index rectangle *)
Definition dconv (f g : nat -> T) (m n K : nat) : T :=
  bigsum (fun i => bigsum (fun j => if (i + j =? K)%nat then f i * g j else O_) n) m.

Lemma bigsum_indicator : forall (h : nat -> T) K q,
  bigsum (fun j => if (j =? K)%nat then h j else O_) q = if (K <? q)%nat then h K else O_.
Proof.
  intros h K. induction q as [|q IH]. reflexivity.
  cbn [ProofsSum.bigsum]. rewrite IH.
  destruct (Nat.eqb_spec q K) as [E|E].
  - subst q. destruct (Nat.ltb_spec K K); [lia|]. destruct (Nat.ltb_spec K (S K)); [|lia]. ring.
  - destruct (Nat.ltb_spec K q); destruct (Nat.ltb_spec K (S q)); try lia; ring.
Qed.

Lemma dconv_ext : forall f f' g g' m n K,
  (forall i, i < m -> f i = f' i) -> (forall j, j < n -> g j = g' j) -> dconv f g m n K = dconv f' g' m n K.
Proof.
  intros f f' g g' m n K Hf Hg. unfold dconv. apply bigsum_ext. intros i Hi. apply bigsum_ext. intros j Hj.
  rewrite (Hf i Hi), (Hg j Hj). reflexivity.
Qed.

Lemma coef_pmul_dconv : forall P Q K, coef (pmul P Q) K = dconv (coef P) (coef Q) (length P) (length Q) K.
Proof.
  induction P as [|a P IH]; intros Q K.
  - cbn [Spec.pmul]. rewrite coef_nil. reflexivity.
  - rewrite (coef_pmul_cons D OK). unfold dconv. cbn [length]. rewrite (bigsum_shift D OK).
    f_equal.
    + rewrite (bigsum_ext D (length Q) _ (fun j => if (j =? K)%nat then a * coef Q j else O_)).
      * rewrite bigsum_indicator. destruct (Nat.ltb_spec K (length Q)). reflexivity.
        rewrite (coef_ge D Q K) by assumption. ring.
      * intros j _. reflexivity.
    + destruct K as [|K'].
      * symmetry. apply (bigsum_zero D OK). intros i _. apply (bigsum_zero D OK). intros j _. reflexivity.
      * rewrite IH. unfold dconv. apply bigsum_ext. intros i _. apply bigsum_ext. intros j _. reflexivity.
Qed.

Lemma dconv_rev : forall f g m n k, 1 <= m -> 1 <= n -> k <= m + n - 2 ->
  dconv (fun i => f (m - 1 - i)%nat) (fun j => g (n - 1 - j)%nat) m n k = dconv f g m n (m + n - 2 - k).
Proof.
  intros f g m n k Hm Hn Hk. symmetry. unfold dconv.
  rewrite (bigsum_rev D OK m). apply bigsum_ext. intros i Hi.
  rewrite (bigsum_rev D OK n). apply bigsum_ext. intros j Hj.
  destruct (Nat.eqb_spec (m - 1 - i + (n - 1 - j)) (m + n - 2 - k)); destruct (Nat.eqb_spec (i + j) k); try lia; reflexivity.
Qed.

Lemma coef_rev : forall P i, coef (rev P) i = if (i <? length P)%nat then coef P (length P - 1 - i) else O_.
Proof.
  intros P i. destruct (Nat.ltb_spec i (length P)).
  - unfold Model.coef. rewrite rev_nth by assumption. f_equal. lia.
  - apply (coef_ge D). rewrite rev_length. assumption.
Qed.

(* rev P * rev Q = rev (P * Q), coefficientwise, for non-empty vectors *)
Lemma rev_pmul : forall P Q k, 1 <= length P -> 1 <= length Q -> k <= length P + length Q - 2 ->
  coef (pmul (rev P) (rev Q)) k = coef (pmul P Q) (length P + length Q - 2 - k).
Proof.
  intros P Q k HP HQ Hk. rewrite !coef_pmul_dconv, !rev_length.
  rewrite <- (dconv_rev (coef P) (coef Q)) by assumption.
  apply dconv_ext; intros i Hi; rewrite coef_rev; destruct (Nat.ltb_spec i (length P)); destruct (Nat.ltb_spec i (length Q)); try lia; reflexivity.
Qed.

(* ---- degree by vanishing coefficients: length (setdegree P) <= d  <->  all coefficients from d on vanish *)
Definition len (P : list T) : nat := length (setdegree D P).
Lemma degree_len : forall P, degree D P = (Z.of_nat (len P) - 1)%Z.
Proof. reflexivity. Qed.
Lemma len_le_iff : forall P d, len P <= d <-> (forall k, d <= k -> coef P k = O_).
Proof.
  unfold len. intros P d. split.
  - intros H k Hk. rewrite <- (coef_setdegree D OK). apply (coef_ge D). lia.
  - revert d. induction P as [|a P IH]; intros d H.
    + cbn. lia.
    + destruct d as [|d].
      * rewrite (setdegree_zero D OK). cbn; lia. intros i. apply H. lia.
      * assert (L : length (setdegree D P) <= d). { apply IH. intros k Hk. apply (H (S k)). lia. }
        cbn [setdegree]. destruct (setdegree D P) as [|b L']. destruct (dis0 D a); cbn [length]; lia.
        cbn [length] in *. lia.
Qed.
Lemma len_le_length : forall P, len P <= length P.
Proof. intros. apply (length_setdegree D). Qed.
Lemma len_peq : forall P Q, peq P Q -> len P = len Q.
Proof.
  intros P Q H. apply Nat.le_antisymm; apply len_le_iff; intros k Hk.
  - rewrite (H k). apply (proj1 (len_le_iff Q (len Q)) (le_n _)). assumption.
  - rewrite <- (H k). apply (proj1 (len_le_iff P (len P)) (le_n _)). assumption.
Qed.
Lemma normal_setdegree_id : forall P, normal D P -> setdegree D P = P.
Proof.
  induction P as [|a P IH]; intros H. reflexivity.
  destruct H as [H|H]. discriminate.
  cbn [setdegree]. destruct P as [|b P].
  - cbn [setdegree]. cbn [last] in H. destruct (dis0 D a) eqn:E. apply (is0_true D OK) in E. contradiction. reflexivity.
  - rewrite IH. reflexivity. right. exact H.
Qed.
Lemma setdegree_idem : forall P, setdegree D (setdegree D P) = setdegree D P.
Proof. intros. apply normal_setdegree_id. apply (setdegree_normal D OK). Qed.
Lemma isZero_false_len : forall P, isZero D P = false -> 1 <= len P.
Proof. unfold isZero, len. intros P H. destruct (setdegree D P). discriminate. cbn; lia. Qed.
Lemma last_coef : forall (L : list T) , L <> [] -> last L O_ = coef L (length L - 1).
Proof.
  induction L as [|a L IH]; intros H. contradiction.
  destruct L as [|b L]. reflexivity.
  change (last (a :: b :: L) O_) with (last (b :: L) O_). rewrite IH by discriminate.
  cbn [length]. replace (S (S (length L)) - 1)%nat with (S (S (length L) - 1)) by lia. reflexivity.
Qed.
(* the top coefficient of a non-zero polynomial is non-zero *)
Lemma top_coef_nonzero : forall P, 1 <= len P -> coef (setdegree D P) (len P - 1) <> O_.
Proof.
  unfold len. intros P H. destruct (setdegree_normal D OK P) as [E|E].
  - rewrite E in H. cbn in H. lia.
  - rewrite <- last_coef. exact E. intros E2. rewrite E2 in H. cbn in H. lia.
Qed.
End Rev.
