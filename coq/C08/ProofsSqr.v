(* C08: the dedicated squaring (stdsqr: symmetric pairing of the convolution sum; sqrrec: Pl^2 + 2 X^h Pl Ph + X^2h Ph^2
   on ranges) returns the schoolbook square, for every pair of thresholds >= 1. *)
From Coq Require Import List Arith Lia Setoid Morphisms Ring Bool.
From C08 Require Import Model Spec ProofsBasic ProofsSum ProofsKara ProofsDiv.
Import ListNotations.

Section Sqr.
Context {T : Type} (D : Dom T) (OK : FieldOK D).
Local Notation O_ := (d0 D).
Local Notation I_ := (d1 D).
Local Notation "a + b" := (dadd D a b).
Local Notation "a * b" := (dmul D a b).
Local Notation coef := (coef D).
Local Notation peq := (peq D).
Local Notation pmul := (pmul D).
Local Notation padd := (add D).
Local Notation bigsum := (bigsum D).
Local Notation bigsum_ext := (ProofsSum.bigsum_ext D).
Local Notation bigsum_shift := (ProofsSum.bigsum_shift D OK).
Local Notation bigsum_zero := (ProofsSum.bigsum_zero D OK).
Local Notation bigsum_split := (ProofsSum.bigsum_split D OK).
Local Notation bigsum_rev := (ProofsSum.bigsum_rev D OK).
Local Notation bigsum_trunc := (ProofsSum.bigsum_trunc D OK).
Local Notation bigsum_add := (ProofsSum.bigsum_add D OK).
Local Notation coef_pmul_conv := (ProofsSum.coef_pmul_conv D OK).
Add Ring Tring6 : (Trt D OK).
Add Ring Pring6 : (poly_ring D OK) (setoid (peq_equiv D) (poly_ext D OK)).

(* ---- stdsqr *)
Lemma sumprod_bigsum : forall c P lo hi,
  sumprod D P lo hi c = bigsum (fun t => coef P (lo - t)%nat * coef P (hi + t)%nat) c.
Proof.
  induction c as [|c IH]; intros P lo hi. reflexivity.
  cbn [sumprod]. rewrite bigsum_shift, IH, Nat.sub_0_r, Nat.add_0_r. f_equal.
  apply bigsum_ext. intros i _. f_equal; f_equal; lia.
Qed.
Definition odd_entry (P : list T) (k : nat) : T :=
  sumprod D P (k - 1) k (Nat.min k (length P - k)) * two D.
Definition even_entry (P : list T) (k : nat) : T :=
  sumprod D P (k - 1) (S k) (Nat.min k (length P - 1 - k)) * two D + coef P k * coef P k.

Lemma pair_odd : forall (g F : nat -> T) k,
  (forall t, t < k -> g (k - 1 - t)%nat = F t) -> (forall t, t < k -> g (k + t)%nat = F t) ->
  bigsum g (k + k) = bigsum F k * two D.
Proof.
  intros g F k H1 H2. rewrite bigsum_split, (bigsum_rev k g).
  rewrite (bigsum_ext k (fun t => g (k - 1 - t)%nat) F H1), (bigsum_ext k (fun t => g (k + t)%nat) F H2).
  unfold two. ring.
Qed.
Lemma pair_even : forall (g F : nat -> T) k c,
  (forall t, t < k -> g (k - 1 - t)%nat = F t) -> g (k + 0)%nat = c -> (forall t, t < k -> g (k + S t)%nat = F t) ->
  bigsum g (k + S k) = bigsum F k * two D + c.
Proof.
  intros g F k c H1 H0 H2. rewrite bigsum_split, (bigsum_rev k g), (bigsum_shift k (fun t => g (k + t)%nat)). cbv beta.
  rewrite (bigsum_ext k (fun t => g (k - 1 - t)%nat) F H1), (bigsum_ext k (fun i => g (k + S i)%nat) F H2), H0.
  unfold two. ring.
Qed.

Lemma odd_entry_spec : forall P k, 1 <= k -> odd_entry P k = coef (pmul P P) (2 * k - 1).
Proof.
  intros P k Hk. unfold odd_entry. rewrite sumprod_bigsum, coef_pmul_conv.
  rewrite <- (bigsum_trunc (Nat.min k (length P - k)) k
             (fun t => coef P (k - 1 - t)%nat * coef P (k + t)%nat)).
  - replace (S (2 * k - 1)) with (k + k)%nat by lia. symmetry. apply pair_odd; intros t Ht.
    + replace (2 * k - 1 - (k - 1 - t))%nat with (k + t)%nat by lia. reflexivity.
    + replace (2 * k - 1 - (k + t))%nat with (k - 1 - t)%nat by lia. ring.
  - lia.
  - intros t H1 H2. rewrite (coef_ge D P (k + t)) by lia. ring.
Qed.
Lemma even_entry_spec : forall P k, 1 <= k -> even_entry P k = coef (pmul P P) (2 * k).
Proof.
  intros P k Hk. unfold even_entry. rewrite sumprod_bigsum, coef_pmul_conv.
  rewrite <- (bigsum_trunc (Nat.min k (length P - 1 - k)) k
             (fun t => coef P (k - 1 - t)%nat * coef P (S k + t)%nat)).
  - replace (S (2 * k)) with (k + S k)%nat by lia. symmetry. apply pair_even.
    + intros t Ht. replace (2 * k - (k - 1 - t))%nat with (S k + t)%nat by lia. reflexivity.
    + replace (2 * k - (k + 0))%nat with k by lia. rewrite Nat.add_0_r. reflexivity.
    + intros t Ht. replace (2 * k - (k + S t))%nat with (k - 1 - t)%nat by lia.
      replace (k + S t)%nat with (S k + t)%nat by lia. ring.
  - lia.
  - intros t H1 H2. rewrite (coef_ge D P (S k + t)) by lia. ring.
Qed.

Lemma length_pairs : forall c P k, length (stdsqr_pairs D P k c) = (2 * c)%nat.
Proof. induction c as [|c IH]; intros P k. reflexivity. cbn [stdsqr_pairs length]. rewrite IH. lia. Qed.
Lemma coef_pairs : forall c P k t, t < c ->
  coef (stdsqr_pairs D P k c) (2 * t) = odd_entry P (k + t) /\
  coef (stdsqr_pairs D P k c) (2 * t + 1) = even_entry P (k + t).
Proof.
  induction c as [|c IH]; intros P k t Ht. lia.
  cbn [stdsqr_pairs]. destruct t as [|t].
  - rewrite Nat.add_0_r. split; reflexivity.
  - replace (2 * S t)%nat with (S (S (2 * t))) by lia. replace (S (S (2 * t)) + 1)%nat with (S (S (2 * t + 1))) by lia.
    rewrite !coef_cons_S. replace (k + S t)%nat with (S k + t)%nat by lia. apply IH. lia.
Qed.

(* what a squaring routine on ranges must deliver (its precondition: the range holds exactly 2|P|-1 entries) *)
Definition srec_ok (L : nat) (recs : nat -> list T -> list T) : Prop :=
  forall n P, 1 <= length P -> length P <= L -> n = (2 * length P - 1)%nat ->
  length (recs n P) = n /\ forall i, i < n -> coef (recs n P) i = coef (pmul P P) i.

Lemma stdsqr_ok : forall L, srec_ok L (stdsqr_r D).
Proof.
  intros L n P HP _ Hn. unfold stdsqr_r.
  assert (Ed : Nat.div2 (n - 1) = (length P - 1)%nat).
  { replace (n - 1)%nat with (2 * (length P - 1))%nat by lia. apply Nat.div2_double. }
  rewrite Ed. split.
  - cbn [length]. rewrite length_pairs. lia.
  - intros i Hi. destruct i as [|j].
    + rewrite coef_cons_0, coef_pmul_conv. cbn [ProofsSum.bigsum Nat.sub]. ring.
    + rewrite coef_cons_S. destruct (Nat.Even_or_Odd j) as [[t Ht]|[t Ht]]; subst j.
      * destruct (coef_pairs (length P - 1) P 1 t) as [E _]. lia. rewrite E, odd_entry_spec by lia.
        f_equal. lia.
      * destruct (coef_pairs (length P - 1) P 1 t) as [_ E]. lia. rewrite E, even_entry_spec by lia.
        f_equal. lia.
Qed.

(* (Pl + X^h Ph)^2, coefficientwise *)
Lemma sqr_identity : forall h Pl Ph i,
  coef (pmul (padd Pl (shiftn D h Ph)) (padd Pl (shiftn D h Ph))) i =
  coef (pmul Pl Pl) i
  + (if h <=? i then coef (pmul Pl Ph) (i - h)%nat + coef (pmul Pl Ph) (i - h)%nat else O_)
  + (if 2 * h <=? i then coef (pmul Ph Ph) (i - 2 * h)%nat else O_).
Proof.
  intros h Pl Ph i.
  set (X := shiftn D h [I_]).
  assert (E : peq (pmul (padd Pl (shiftn D h Ph)) (padd Pl (shiftn D h Ph)))
                  (padd (padd (pmul Pl Pl) (pmul X (padd (pmul Pl Ph) (pmul Pl Ph))))
                        (pmul X (pmul X (pmul Ph Ph))))).
  { transitivity (pmul (padd Pl (pmul X Ph)) (padd Pl (pmul X Ph))).
    - apply (pmul_proper D OK); apply (padd_proper D OK); try reflexivity; apply (shiftn_as_mul D OK).
    - ring. }
  rewrite (E i). unfold X.
  rewrite !(coef_add D OK).
  rewrite (pmul_shiftn D OK h [I_] _ i), (coef_shiftn D).
  rewrite (pmul_shiftn D OK h [I_] _ i), (coef_shiftn D).
  destruct (Nat.ltb_spec i h); destruct (Nat.leb_spec h i); try lia.
  - destruct (Nat.leb_spec (2 * h) i); try lia. ring.
  - rewrite (pmul_1_l D OK _ (i - h)%nat), (coef_add D OK).
    rewrite (pmul_1_l D OK _ (i - h)%nat), (pmul_shiftn D OK h [I_] _ (i - h)%nat), (coef_shiftn D).
    destruct (Nat.ltb_spec (i - h) h); destruct (Nat.leb_spec (2 * h) i); try lia.
    + ring.
    + rewrite (pmul_1_l D OK _ (i - h - h)%nat). replace (i - h - h)%nat with (i - 2 * h)%nat by lia. ring.
Qed.

Lemma sqrrec_body_ok : forall recs recm cP n P,
  srec_ok (length P - 1) recs -> rec_ok D recm -> 2 <= length P -> n = (2 * length P - 1)%nat -> length P - 1 <= cP ->
  length (sqrrec_body D recs recm cP n P) = n /\
  forall i, i < n -> coef (sqrrec_body D recs recm cP n P) i = coef (pmul P P) i.
Proof.
  intros recs recm cP n P Hs Hm HP Hn HcP. unfold sqrrec_body.
  set (half := Nat.div2 (length P)).
  set (Pl := firstn half P). set (Ph := skipn half P).
  pose proof (div2_le (length P)) as dP. pose proof (div2_ge (length P)) as eP. fold half in dP, eP.
  assert (Hh : 1 <= half) by lia.
  assert (LPl : length Pl = half) by (unfold Pl; rewrite firstn_length; lia).
  assert (LPh : length Ph = (length P - half)%nat) by (unfold Ph; apply skipn_length).
  destruct (Hs (2 * half - 1)%nat Pl) as [LX0 CX0]; [lia | lia | lia |].
  destruct (Hs (n - 2 * half)%nat Ph) as [LX2 CX2]; [lia | lia | lia |].
  set (X0 := recs (2 * half - 1)%nat Pl) in *. set (X2 := recs (n - 2 * half)%nat Ph) in *.
  set (R0 := overwrite (zeros D n) 0 X0).
  set (R1 := overwrite R0 (2 * half) X2).
  set (M := mul_s D (setdegree D (recm cP Pl Ph)) (two D)).
  assert (LR0 : length R0 = n) by (unfold R0; rewrite length_overwrite; rewrite length_zeros; lia).
  assert (LR1 : length R1 = n) by (unfold R1; rewrite length_overwrite; lia).
  set (a := coef (pmul Pl Pl)). set (b := coef (pmul Ph Ph)). set (m := coef (pmul Pl Ph)).
  assert (Hspec : forall i, coef (pmul P P) i =
            a i + (if half <=? i then m (i - half)%nat + m (i - half)%nat else O_)
            + (if 2 * half <=? i then b (i - 2 * half)%nat else O_)).
  { intros i. unfold a, b, m. rewrite <- sqr_identity. apply (pmul_proper D OK); apply (split_at D OK). }
  assert (Za : forall j, 2 * half <= S j -> a j = O_).
  { intros j Hj. unfold a. apply (coef_pmul_high D OK). lia. }
  assert (Zm : forall j, length P <= S j -> m j = O_).
  { intros j Hj. unfold m. apply (coef_pmul_high D OK). lia. }
  assert (CM : forall j, coef M j = m j + m j).
  { intros j. unfold M. rewrite (coef_mul_s D OK), (coef_setdegree D OK), (rec_ok_coef D recm Hm).
    unfold two. destruct (Nat.ltb_spec j cP). fold (m j). ring. rewrite (Zm j) by lia. ring. }
  assert (CR0 : forall i, i < n -> coef R0 i = if i <? 2 * half - 1 then a i else O_).
  { intros i Hi. unfold R0. rewrite coef_overwrite by lia. rewrite LX0, length_zeros, coef_zeros.
    destruct (Nat.ltb_spec i 0); [lia|]. destruct (Nat.ltb_spec i (2 * half - 1)).
    - destruct (Nat.ltb_spec i (0 + (2 * half - 1))); [|lia]. destruct (Nat.ltb_spec i n); [|lia]. cbn [andb].
      rewrite Nat.sub_0_r. apply CX0. assumption.
    - destruct (Nat.ltb_spec i (0 + (2 * half - 1))); [lia|]. reflexivity. }
  assert (CR1 : forall i, i < n -> coef R1 i = if i <? 2 * half then (if i <? 2 * half - 1 then a i else O_) else b (i - 2 * half)%nat).
  { intros i Hi. unfold R1. rewrite coef_overwrite by lia. rewrite LX2, LR0.
    destruct (Nat.ltb_spec i (2 * half)). apply CR0; assumption.
    destruct (Nat.ltb_spec i (2 * half + (n - 2 * half))); [|lia]. destruct (Nat.ltb_spec i n); [|lia]. cbn [andb].
    apply CX2. lia. }
  split. { rewrite length_addshift. assumption. }
  intros i Hi. rewrite coef_addshift, LR1, (CR1 i Hi), CM, Hspec.
  destruct (Nat.leb_spec half i); destruct (Nat.ltb_spec i n); try lia; cbn [andb];
    destruct (Nat.ltb_spec i (2 * half)); destruct (Nat.leb_spec (2 * half) i); try lia;
    destruct (Nat.ltb_spec i (2 * half - 1)); try lia; try ring.
  1,2: rewrite (Za i) by lia; ring.
  exact OK.
Qed.

Lemma sqr_r_ok : forall fuel kthr sthr cP, 1 <= kthr -> 1 <= sthr -> srec_ok (S cP) (sqr_r D fuel kthr sthr cP).
Proof.
  induction fuel as [|f IH]; intros kthr sthr cP Hk Hs n P HP HL Hn.
  - cbn [sqr_r]. apply (stdsqr_ok (S cP)); assumption.
  - cbn [sqr_r]. destruct (Nat.ltb_spec sthr (length P)).
    + apply sqrrec_body_ok; try assumption; try lia.
      * intros n' P' HP' HL' Hn'. apply IH; try assumption. lia.
      * apply (mul_r_spec D OK). assumption.
    + apply (stdsqr_ok (S cP)); assumption.
Qed.

(* the public sqr(R,P) *)
Lemma sqr_spec : forall kthr sthr P, 1 <= kthr -> 1 <= sthr -> peq (sqr D kthr sthr P) (pmul P P).
Proof.
  intros kthr sthr P Hk Hs. unfold sqr. destruct P as [|a P]. reflexivity.
  destruct (sqr_r_ok (length (a :: P)) kthr sthr (length (a :: P)) Hk Hs (2 * length (a :: P) - 1)%nat (a :: P)) as [L C];
    [cbn [length]; lia | lia | reflexivity |].
  eapply (peq_of_prefix D). exact L. 2: exact C.
  intros i Hi. apply (coef_pmul_high D OK). lia.
Qed.
End Sqr.
