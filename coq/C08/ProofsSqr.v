(* C08: the dedicated squaring (stdsqr: symmetric pairing of the convolution sum; sqrrec: Pl^2 + 2 X^h Pl Ph + X^2h Ph^2
   on ranges) returns the schoolbook square, for every pair of thresholds >= 1. *)
From Coq Require Import List Arith Lia Setoid Morphisms Ring Bool.
From C08 Require Import Model Spec ProofsBasic ProofsKara ProofsDiv.
Import ListNotations.

Section Sqr.
Context {T : Type} (D : Dom T) (OK : FieldOK D).
Local Notation O_ := (d0 D).
Local Notation I_ := (d1 D).
Local Notation "a + b" := (dadd D a b).
Local Notation "a * b" := (dmul D a b).
Local Notation coef := (coef D).
Local Notation peq := (peq D).
Local Notation pmul := (pmul D).
Local Notation padd := (add D).
Add Ring Tring6 : (Trt D OK).
Add Ring Pring6 : (poly_ring D OK) (setoid (peq_equiv D) (poly_ext D OK)).

(* ---- finite sums *)
Fixpoint bigsum (f : nat -> T) (n : nat) : T :=
  match n with O => O_ | S m => bigsum f m + f m end.
Lemma bigsum_ext : forall n f g, (forall i, i < n -> f i = g i) -> bigsum f n = bigsum g n.
Proof.
  induction n as [|n IH]; intros f g H. reflexivity.
  cbn [bigsum]. rewrite (IH f g), (H n) by (intros; try apply H; lia). reflexivity.
Qed.
Lemma bigsum_shift : forall n f, bigsum f (S n) = f 0%nat + bigsum (fun i => f (S i)) n.
Proof.
  induction n as [|n IH]; intros f. cbn [bigsum]. ring.
  change (bigsum f (S (S n))) with (bigsum f (S n) + f (S n)). rewrite IH. cbn [bigsum]. ring.
Qed.
Lemma bigsum_zero : forall n f, (forall i, i < n -> f i = O_) -> bigsum f n = O_.
Proof.
  induction n as [|n IH]; intros f H. reflexivity. cbn [bigsum]. rewrite IH, (H n) by (intros; try apply H; lia). ring.
Qed.
Lemma bigsum_split : forall a b f, bigsum f (a + b) = bigsum f a + bigsum (fun t => f (a + t)%nat) b.
Proof.
  intros a b f. induction b as [|b IH]. rewrite Nat.add_0_r. cbn [bigsum]. ring.
  rewrite Nat.add_succ_r. cbn [bigsum]. rewrite IH. ring.
Qed.
Lemma bigsum_rev : forall n f, bigsum f n = bigsum (fun t => f (n - 1 - t)%nat) n.
Proof.
  induction n as [|n IH]; intros f. reflexivity.
  rewrite (bigsum_shift n (fun t => f (S n - 1 - t)%nat)). cbn [bigsum].
  rewrite (IH f). replace (S n - 1 - 0)%nat with n by lia.
  rewrite (bigsum_ext n (fun i => f (S n - 1 - S i)%nat) (fun t => f (n - 1 - t)%nat)).
  ring. intros i Hi. f_equal. lia.
Qed.
Lemma bigsum_trunc : forall m n f, m <= n -> (forall t, m <= t -> t < n -> f t = O_) -> bigsum f n = bigsum f m.
Proof.
  intros m n f Hmn H. replace n with (m + (n - m))%nat by lia. rewrite bigsum_split.
  rewrite (bigsum_zero (n - m)). ring. intros i Hi. apply H; lia.
Qed.
Lemma bigsum_add : forall n f g, bigsum (fun i => f i + g i) n = bigsum f n + bigsum g n.
Proof. induction n as [|n IH]; intros f g; cbn [bigsum]. ring. rewrite IH. ring. Qed.

(* ---- the coefficient of the schoolbook product as a convolution sum *)
Lemma coef_pmul_conv : forall P Q k,
  coef (pmul P Q) k = bigsum (fun i => coef P i * coef Q (k - i)%nat) (S k).
Proof.
  induction P as [|a P IH]; intros Q k.
  - cbn [Spec.pmul]. rewrite coef_nil. symmetry. apply bigsum_zero. intros i _. rewrite coef_nil. ring.
  - rewrite (coef_pmul_cons D OK), bigsum_shift, coef_cons_0, Nat.sub_0_r.
    destruct k as [|j]. cbn [bigsum]. ring.
    rewrite IH. f_equal.
Qed.

(* ---- stdsqr *)
Lemma sumprod_bigsum : forall c P lo hi,
  sumprod D P lo hi c = bigsum (fun t => coef P (lo - t)%nat * coef P (hi + t)%nat) c.
Proof.
  induction c as [|c IH]; intros P lo hi. reflexivity.
  cbn [sumprod]. rewrite bigsum_shift, IH, Nat.sub_0_r, Nat.add_0_r. f_equal.
  apply bigsum_ext. intros i _. f_equal; f_equal; lia.
Qed.
Definition odd_entry (P : list T) (k : nat) : T :=
  sumprod D P (k - 1) k (Nat.min k (length P - k)) * two D.
Definition even_entry (P : list T) (k : nat) : T :=
  sumprod D P (k - 1) (S k) (Nat.min k (length P - 1 - k)) * two D + coef P k * coef P k.

Lemma pair_odd : forall (g F : nat -> T) k,
  (forall t, t < k -> g (k - 1 - t)%nat = F t) -> (forall t, t < k -> g (k + t)%nat = F t) ->
  bigsum g (k + k) = bigsum F k * two D.
Proof.
  intros g F k H1 H2. rewrite bigsum_split, (bigsum_rev k g).
  rewrite (bigsum_ext k (fun t => g (k - 1 - t)%nat) F H1), (bigsum_ext k (fun t => g (k + t)%nat) F H2).
  unfold two. ring.
Qed.
Lemma pair_even : forall (g F : nat -> T) k c,
  (forall t, t < k -> g (k - 1 - t)%nat = F t) -> g (k + 0)%nat = c -> (forall t, t < k -> g (k + S t)%nat = F t) ->
  bigsum g (k + S k) = bigsum F k * two D + c.
Proof.
  intros g F k c H1 H0 H2. rewrite bigsum_split, (bigsum_rev k g), (bigsum_shift k (fun t => g (k + t)%nat)). cbv beta.
  rewrite (bigsum_ext k (fun t => g (k - 1 - t)%nat) F H1), (bigsum_ext k (fun i => g (k + S i)%nat) F H2), H0.
  unfold two. ring.
Qed.

Lemma odd_entry_spec : forall P k, 1 <= k -> odd_entry P k = coef (pmul P P) (2 * k - 1).
Proof.
  intros P k Hk. unfold odd_entry. rewrite sumprod_bigsum, coef_pmul_conv.
  rewrite <- (bigsum_trunc (Nat.min k (length P - k)) k
             (fun t => coef P (k - 1 - t)%nat * coef P (k + t)%nat)).
  - replace (S (2 * k - 1)) with (k + k)%nat by lia. symmetry. apply pair_odd; intros t Ht.
    + replace (2 * k - 1 - (k - 1 - t))%nat with (k + t)%nat by lia. reflexivity.
    + replace (2 * k - 1 - (k + t))%nat with (k - 1 - t)%nat by lia. ring.
  - lia.
  - intros t H1 H2. rewrite (coef_ge D P (k + t)) by lia. ring.
Qed.
Lemma even_entry_spec : forall P k, 1 <= k -> even_entry P k = coef (pmul P P) (2 * k).
Proof.
  intros P k Hk. unfold even_entry. rewrite sumprod_bigsum, coef_pmul_conv.
  rewrite <- (bigsum_trunc (Nat.min k (length P - 1 - k)) k
             (fun t => coef P (k - 1 - t)%nat * coef P (S k + t)%nat)).
  - replace (S (2 * k)) with (k + S k)%nat by lia. symmetry. apply pair_even.
    + intros t Ht. replace (2 * k - (k - 1 - t))%nat with (S k + t)%nat by lia. reflexivity.
    + replace (2 * k - (k + 0))%nat with k by lia. rewrite Nat.add_0_r. reflexivity.
    + intros t Ht. replace (2 * k - (k + S t))%nat with (k - 1 - t)%nat by lia.
      replace (k + S t)%nat with (S k + t)%nat by lia. ring.
  - lia.
  - intros t H1 H2. rewrite (coef_ge D P (S k + t)) by lia. ring.
Qed.
End Sqr.
