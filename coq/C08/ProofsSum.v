(* C08: finite sums over the coefficient domain and the coefficient of the schoolbook product as a convolution sum. *)
From Coq Require Import List Arith Lia Setoid Morphisms Ring Bool.
From C08 Require Import Model Spec ProofsBasic.
Import ListNotations.

Section Sum.
Context {T : Type} (D : Dom T) (OK : FieldOK D).
Local Notation O_ := (d0 D).
Local Notation I_ := (d1 D).
Local Notation "a + b" := (dadd D a b).
Local Notation "a * b" := (dmul D a b).
Local Notation coef := (coef D).
Local Notation peq := (peq D).
Local Notation pmul := (pmul D).
Local Notation padd := (add D).
Add Ring TringSum : (Trt D OK).

(* ---- finite sums *)
Fixpoint bigsum (f : nat -> T) (n : nat) : T :=
  match n with O => O_ | S m => bigsum f m + f m end.
Lemma bigsum_ext : forall n f g, (forall i, i < n -> f i = g i) -> bigsum f n = bigsum g n.
Proof.
  induction n as [|n IH]; intros f g H. reflexivity.
  cbn [bigsum]. rewrite (IH f g), (H n) by (intros; try apply H; lia). reflexivity.
Qed.
Lemma bigsum_shift : forall n f, bigsum f (S n) = f 0%nat + bigsum (fun i => f (S i)) n.
Proof.
  induction n as [|n IH]; intros f. cbn [bigsum]. ring.
  change (bigsum f (S (S n))) with (bigsum f (S n) + f (S n)). rewrite IH. cbn [bigsum]. ring.
Qed.
Lemma bigsum_zero : forall n f, (forall i, i < n -> f i = O_) -> bigsum f n = O_.
Proof.
  induction n as [|n IH]; intros f H. reflexivity. cbn [bigsum]. rewrite IH, (H n) by (intros; try apply H; lia). ring.
Qed.
Lemma bigsum_split : forall a b f, bigsum f (a + b) = bigsum f a + bigsum (fun t => f (a + t)%nat) b.
Proof.
  intros a b f. induction b as [|b IH]. rewrite Nat.add_0_r. cbn [bigsum]. ring.
  rewrite Nat.add_succ_r. cbn [bigsum]. rewrite IH. ring.
Qed.
Lemma bigsum_rev : forall n f, bigsum f n = bigsum (fun t => f (n - 1 - t)%nat) n.
Proof.
  induction n as [|n IH]; intros f. reflexivity.
  rewrite (bigsum_shift n (fun t => f (S n - 1 - t)%nat)). cbn [bigsum].
  rewrite (IH f). replace (S n - 1 - 0)%nat with n by lia.
  rewrite (bigsum_ext n (fun i => f (S n - 1 - S i)%nat) (fun t => f (n - 1 - t)%nat)).
  ring. intros i Hi. f_equal. lia.
Qed.
Lemma bigsum_trunc : forall m n f, m <= n -> (forall t, m <= t -> t < n -> f t = O_) -> bigsum f n = bigsum f m.
Proof.
  intros m n f Hmn H. replace n with (m + (n - m))%nat by lia. rewrite bigsum_split.
  rewrite (bigsum_zero (n - m)). ring. intros i Hi. apply H; lia.
Qed.
Lemma bigsum_add : forall n f g, bigsum (fun i => f i + g i) n = bigsum f n + bigsum g n.
Proof. induction n as [|n IH]; intros f g; cbn [bigsum]. ring. rewrite IH. ring. Qed.

(* ---- the coefficient of the schoolbook product as a convolution sum *)
Lemma coef_pmul_conv : forall P Q k,
  coef (pmul P Q) k = bigsum (fun i => coef P i * coef Q (k - i)%nat) (S k).
Proof.
  induction P as [|a P IH]; intros Q k.
  - cbn [Spec.pmul]. rewrite coef_nil. symmetry. apply bigsum_zero. intros i _. rewrite coef_nil. ring.
  - rewrite (coef_pmul_cons D OK), bigsum_shift, coef_cons_0, Nat.sub_0_r.
    destruct k as [|j]. cbn [bigsum]. ring.
    rewrite IH. f_equal.
Qed.

End Sum.
