(* C08 theorems: statements are the *_stmt definitions of ProofsProps.v (bundled per group of operations); T is any type,
   D any record of operations satisfying the field laws FieldOK (Spec.v). *)
From Coq Require Import List.
From Coq Require Import ZArith Znumtheory.
From C08 Require Import Model Spec Fp ProofsBasic ProofsProps ProofsFp ProofsFp2.
Theorem C08_spec_ring_laws : forall T (D : Dom T), FieldOK D -> SpecRing_stmt D.
Proof. exact (@SpecRing_ok). Qed.
Print Assumptions C08_spec_ring_laws.
Theorem C08_schoolbook_on_ranges : forall T (D : Dom T), FieldOK D -> StdmulRange_stmt D.
Proof. exact (@StdmulRange_ok). Qed.
Print Assumptions C08_schoolbook_on_ranges.
Theorem C08_karatsuba_eq_schoolbook_every_threshold : forall T (D : Dom T), FieldOK D -> KaraRange_stmt D.
Proof. exact (@KaraRange_ok). Qed.
Print Assumptions C08_karatsuba_eq_schoolbook_every_threshold.
Theorem C08_public_products : forall T (D : Dom T), FieldOK D -> Products_stmt D.
Proof. exact (@Products_ok). Qed.
Print Assumptions C08_public_products.
Theorem C08_squaring : forall T (D : Dom T), FieldOK D -> Squaring_stmt D.
Proof. exact (@Squaring_ok). Qed.
Print Assumptions C08_squaring.
Theorem C08_middle_and_truncated_product : forall T (D : Dom T), FieldOK D -> MidTrunc_stmt D.
Proof. exact (@MidTrunc_ok). Qed.
Print Assumptions C08_middle_and_truncated_product.
Theorem C08_newton_inverse_mod_power_of_X : forall T (D : Dom T), FieldOK D -> Newton_stmt D.
Proof. exact (@Newton_ok). Qed.
Print Assumptions C08_newton_inverse_mod_power_of_X.
Theorem C08_division : forall T (D : Dom T), FieldOK D -> DivisionAll_stmt D.
Proof. exact (@DivisionAll_ok). Qed.
Print Assumptions C08_division.
Theorem C08_euclid_gcd_lcm_invmod : forall T (D : Dom T), FieldOK D -> Euclid_stmt D.
Proof. exact (@Euclid_ok). Qed.
Print Assumptions C08_euclid_gcd_lcm_invmod.
Theorem C08_pow_and_powmod : forall T (D : Dom T), FieldOK D -> Powers_stmt D.
Proof. exact (@Powers_ok). Qed.
Print Assumptions C08_pow_and_powmod.
Theorem C08_powmod_exponent0_unit_modulus_refuted : ~ Powmod_e0_unit_stmt GF2Dom.
Proof. exact Powmod_e0_unit_refuted. Qed.
Print Assumptions C08_powmod_exponent0_unit_modulus_refuted.
Theorem C08_add_sub_scalar_fused_forms : forall T (D : Dom T), FieldOK D -> Linear_stmt D.
Proof. exact (@Linear_ok). Qed.
Print Assumptions C08_add_sub_scalar_fused_forms.
Theorem C08_raw_add_normal_refuted : ~ RawAddNormal_stmt GF2Dom.
Proof. exact RawAddNormal_refuted. Qed.
Print Assumptions C08_raw_add_normal_refuted.
Theorem C08_eval_diff_reverse_compose : forall T (D : Dom T), FieldOK D -> EvalDiffRev_stmt D.
Proof. exact (@EvalDiffRev_ok). Qed.
Print Assumptions C08_eval_diff_reverse_compose.
Theorem C08_normal_form_zero_and_decisions : forall T (D : Dom T), FieldOK D -> NormalDecide_stmt D.
Proof. exact (@NormalDecide_ok). Qed.
Print Assumptions C08_normal_form_zero_and_decisions.
Theorem C08_pseudo_division : forall T (D : Dom T), FieldOK D -> Pdivmod_stmt D.
Proof. exact (@Pdivmod_ok). Qed.
Print Assumptions C08_pseudo_division.
(* the coefficient domain the extracted model RUNS on (canonical residues modulo a prime, a subset type) satisfies the field laws,
   so every theorem above applies to the functions of the correspondence run; end-to-end corollaries about the printed lists *)
Theorem C08_executable_instance_is_a_field : forall q, prime (Zpos q) -> FieldOK (FpDom q).
Proof. exact FpDom_ok. Qed.
Print Assumptions C08_executable_instance_is_a_field.
Theorem C08_end_to_end_extracted_mul_divmod_gcdext : EndToEnd_stmt.
Proof. exact EndToEnd_ok. Qed.
Print Assumptions C08_end_to_end_extracted_mul_divmod_gcdext.
Theorem C08_hypotheses_satisfiable : FieldOK GF2Dom.
Proof. exact GF2_ok. Qed.
Print Assumptions C08_hypotheses_satisfiable.
