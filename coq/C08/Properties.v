(* C08 theorems: statements are the *_stmt definitions of ProofsProps.v; T is any type, D any record of operations
   satisfying the field laws FieldOK (Spec.v). *)
From Coq Require Import List.
From C08 Require Import Model Spec ProofsBasic ProofsProps.
Theorem C08_spec_ring_laws : forall T (D : Dom T), FieldOK D -> SpecRing_stmt D.
Proof. exact (@SpecRing_ok). Qed.
Print Assumptions C08_spec_ring_laws.
Theorem C08_schoolbook_on_ranges : forall T (D : Dom T), FieldOK D -> StdmulRange_stmt D.
Proof. exact (@StdmulRange_ok). Qed.
Print Assumptions C08_schoolbook_on_ranges.
Theorem C08_karatsuba_eq_schoolbook_every_threshold : forall T (D : Dom T), FieldOK D -> KaraRange_stmt D.
Proof. exact (@KaraRange_ok). Qed.
Print Assumptions C08_karatsuba_eq_schoolbook_every_threshold.
Theorem C08_mul_correct_normalised : forall T (D : Dom T), FieldOK D -> Mul_stmt D.
Proof. exact (@Mul_ok). Qed.
Print Assumptions C08_mul_correct_normalised.
Theorem C08_stdmul_correct : forall T (D : Dom T), FieldOK D -> Stdmul_stmt D.
Proof. exact (@Stdmul_ok). Qed.
Print Assumptions C08_stdmul_correct.
Theorem C08_karamul_first_level_correct : forall T (D : Dom T), FieldOK D -> Karamul_stmt D.
Proof. exact (@Karamul_ok). Qed.
Print Assumptions C08_karamul_first_level_correct.
Theorem C08_division_identity_partial : forall T (D : Dom T), FieldOK D -> DivisionIdentity_stmt D.
Proof. exact (@DivisionIdentity_ok). Qed.
Print Assumptions C08_division_identity_partial.
Theorem C08_bezout : forall T (D : Dom T), FieldOK D -> Bezout_stmt D.
Proof. exact (@Bezout_ok). Qed.
Print Assumptions C08_bezout.
Theorem C08_normal_form_and_zero : forall T (D : Dom T), FieldOK D -> Normal_stmt D.
Proof. exact (@Normal_ok). Qed.
Print Assumptions C08_normal_form_and_zero.
Theorem C08_add_sub_value_and_normal_form : forall T (D : Dom T), FieldOK D -> AddSub_stmt D.
Proof. exact (@AddSub_ok). Qed.
Print Assumptions C08_add_sub_value_and_normal_form.
Theorem C08_raw_add_normal_refuted : ~ RawAddNormal_stmt GF2Dom.
Proof. exact RawAddNormal_refuted. Qed.
Print Assumptions C08_raw_add_normal_refuted.
Theorem C08_powmod_every_exponent_partial : forall T (D : Dom T), FieldOK D -> PowmodCong_stmt D.
Proof. exact (@PowmodCong_ok). Qed.
Print Assumptions C08_powmod_every_exponent_partial.
Theorem C08_sqr_eq_schoolbook_square : forall T (D : Dom T), FieldOK D -> Sqr_stmt D.
Proof. exact (@Sqr_ok). Qed.
Print Assumptions C08_sqr_eq_schoolbook_square.
Theorem C08_newton_inverse_mod_power_of_X : forall T (D : Dom T), FieldOK D -> Newton_stmt D.
Proof. exact (@Newton_ok). Qed.
Print Assumptions C08_newton_inverse_mod_power_of_X.
Theorem C08_gcd_divides_partial : forall T (D : Dom T), FieldOK D -> GcdDivides_stmt D.
Proof. exact (@GcdDivides_ok). Qed.
Print Assumptions C08_gcd_divides_partial.
Theorem C08_lcm_common_multiple_partial : forall T (D : Dom T), FieldOK D -> LcmMultiple_stmt D.
Proof. exact (@LcmMultiple_ok). Qed.
Print Assumptions C08_lcm_common_multiple_partial.
Theorem C08_hypotheses_satisfiable : FieldOK GF2Dom.
Proof. exact GF2_ok. Qed.
Print Assumptions C08_hypotheses_satisfiable.
