From Coq Require Import List.
From C08 Require Import Model.
Theorem C08_tmp : forall T (D : Dom T), setdegree D nil = nil. Proof. reflexivity. Qed.
Print Assumptions C08_tmp.
