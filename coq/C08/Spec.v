(* C08 specification side: the laws assumed of the coefficient domain (FieldOK), coefficient semantics of a
   vector, the schoolbook product `pmul`, and the commutative-ring laws of (add, pmul) up to coefficientwise
   equality `peq`.  Nothing here refers to the algorithms of the library. *)
From Coq Require Import List Arith Lia Setoid Morphisms Ring.
From C08 Require Import Model.
Import ListNotations.

Record FieldOK {T : Type} (D : Dom T) : Prop := mkFieldOK {
  f_add_0_l : forall a, dadd D (d0 D) a = a;
  f_add_comm : forall a b, dadd D a b = dadd D b a;
  f_add_assoc : forall a b c, dadd D a (dadd D b c) = dadd D (dadd D a b) c;
  f_mul_1_l : forall a, dmul D (d1 D) a = a;
  f_mul_comm : forall a b, dmul D a b = dmul D b a;
  f_mul_assoc : forall a b c, dmul D a (dmul D b c) = dmul D (dmul D a b) c;
  f_distr_l : forall a b c, dmul D (dadd D a b) c = dadd D (dmul D a c) (dmul D b c);
  f_sub_def : forall a b, dsub D a b = dadd D a (dneg D b);
  f_opp_def : forall a, dadd D a (dneg D a) = d0 D;
  f_is0 : forall a, dis0 D a = true <-> a = d0 D;
  f_inv : forall a, a <> d0 D -> dmul D a (dinv D a) = d1 D }.

Section Spec.
Context {T : Type} (D : Dom T) (OK : FieldOK D).
Local Notation O_ := (d0 D).
Local Notation I_ := (d1 D).
Local Notation "a + b" := (dadd D a b).
Local Notation "a * b" := (dmul D a b).
Local Notation "a - b" := (dsub D a b).
Local Notation "- a" := (dneg D a).
Local Notation coef := (coef D).
Local Notation padd := (add D).
Local Notation psub := (sub D).
Local Notation pneg := (neg D).

Lemma Trt : ring_theory O_ I_ (dadd D) (dmul D) (dsub D) (dneg D) eq.
Proof.
  destruct OK. constructor; auto.
Qed.
Add Ring Tring : Trt.

Definition pscale (a : T) (Q : list T) : list T := map (dmul D a) Q.
(* the schoolbook product, by rows *)
Fixpoint pmul (P Q : list T) : list T :=
  match P with
  | [] => []
  | a :: P' => padd (pscale a Q) (O_ :: pmul P' Q)
  end.
Definition peq (P Q : list T) : Prop := forall i, coef P i = coef Q i.

Global Instance peq_equiv : Equivalence peq.
Proof.
  split; red; unfold peq; intros; auto. congruence.
Qed.

Lemma coef_nil : forall i, coef [] i = O_.
Proof. intros [|i]; reflexivity. Qed.
Lemma coef_cons_0 : forall a P, coef (a :: P) 0 = a.
Proof. reflexivity. Qed.
Lemma coef_cons_S : forall a P i, coef (a :: P) (S i) = coef P i.
Proof. reflexivity. Qed.
Lemma coef_ge : forall P i, length P <= i -> coef P i = O_.
Proof. intros. unfold Model.coef. apply nth_overflow. assumption. Qed.

Lemma coef_add : forall P Q i, coef (padd P Q) i = coef P i + coef Q i.
Proof.
  induction P as [|a P IH]; intros Q i.
  - cbn [Model.add]. rewrite coef_nil. ring.
  - destruct Q as [|b Q].
    + cbn [Model.add]. rewrite coef_nil. ring.
    + cbn [Model.add]. destruct i as [|i].
      * reflexivity.
      * rewrite !coef_cons_S. apply IH.
Qed.
Lemma coef_neg : forall P i, coef (pneg P) i = - coef P i.
Proof.
  induction P as [|a P IH]; intros i.
  - cbn [Model.neg map]. rewrite coef_nil. ring.
  - destruct i; cbn [Model.neg map]. reflexivity. apply IH.
Qed.
Lemma coef_sub : forall P Q i, coef (psub P Q) i = coef P i - coef Q i.
Proof.
  induction P as [|a P IH]; intros Q i.
  - destruct Q as [|b Q]; cbn [Model.sub].
    + rewrite coef_nil. ring.
    + rewrite coef_neg, coef_nil. ring.
  - destruct Q as [|b Q]; cbn [Model.sub].
    + rewrite coef_nil. ring.
    + destruct i as [|i]. reflexivity. rewrite !coef_cons_S. apply IH.
Qed.
Lemma coef_pscale : forall a Q i, coef (pscale a Q) i = a * coef Q i.
Proof.
  induction Q as [|b Q IH]; intros i.
  - cbn [pscale map]. rewrite coef_nil. ring.
  - destruct i; cbn [pscale map]. reflexivity. apply IH.
Qed.
Lemma coef_pmul_cons : forall a P Q i,
  coef (pmul (a :: P) Q) i = a * coef Q i + match i with 0 => O_ | S j => coef (pmul P Q) j end.
Proof.
  intros. cbn [pmul]. rewrite coef_add, coef_pscale. destruct i; reflexivity.
Qed.

Global Instance padd_proper : Proper (peq ==> peq ==> peq) padd.
Proof. intros P P' HP Q Q' HQ i. rewrite !coef_add, HP, HQ. reflexivity. Qed.
Global Instance psub_proper : Proper (peq ==> peq ==> peq) psub.
Proof. intros P P' HP Q Q' HQ i. rewrite !coef_sub, HP, HQ. reflexivity. Qed.
Global Instance pneg_proper : Proper (peq ==> peq) pneg.
Proof. intros P P' HP i. rewrite !coef_neg, HP. reflexivity. Qed.

Lemma pmul_proper_r : forall P Q Q', peq Q Q' -> peq (pmul P Q) (pmul P Q').
Proof.
  induction P as [|a P IH]; intros Q Q' H i.
  - reflexivity.
  - rewrite !coef_pmul_cons, H. destruct i; cbv iota. reflexivity. rewrite (IH Q Q' H). reflexivity.
Qed.
Lemma pmul_nil_r : forall P, peq (pmul P []) [].
Proof.
  induction P as [|a P IH]; intros i. reflexivity.
  rewrite coef_pmul_cons, !coef_nil. destruct i; cbv iota. ring. rewrite IH, coef_nil. ring.
Qed.
Lemma coef_pmul_cons_r : forall P b Q i,
  coef (pmul P (b :: Q)) i = b * coef P i + match i with 0 => O_ | S j => coef (pmul P Q) j end.
Proof.
  induction P as [|a P IH]; intros b Q i.
  - cbn [pmul]. rewrite !coef_nil. destruct i; cbv iota; rewrite ?coef_nil; ring.
  - rewrite coef_pmul_cons. destruct i as [|i].
    + rewrite !coef_cons_0. ring.
    + rewrite IH, !coef_cons_S, coef_pmul_cons. destruct i; cbv iota; ring.
Qed.
Lemma pmul_comm : forall P Q, peq (pmul P Q) (pmul Q P).
Proof.
  induction P as [|a P IH]; intros Q i.
  - rewrite pmul_nil_r. reflexivity.
  - rewrite coef_pmul_cons, coef_pmul_cons_r. destruct i; cbv iota. reflexivity. rewrite IH. reflexivity.
Qed.
Global Instance pmul_proper : Proper (peq ==> peq ==> peq) pmul.
Proof.
  intros P P' HP Q Q' HQ. rewrite (pmul_proper_r P Q Q' HQ).
  rewrite (pmul_comm P Q'), (pmul_comm P' Q'). apply pmul_proper_r. assumption.
Qed.
Lemma pmul_distr_r_coef : forall P Q R i, coef (pmul P (padd Q R)) i = coef (pmul P Q) i + coef (pmul P R) i.
Proof.
  induction P as [|a P IH]; intros Q R i.
  - cbn [pmul]. rewrite coef_nil. ring.
  - rewrite !coef_pmul_cons, coef_add. destruct i; cbv iota. ring. rewrite IH. ring.
Qed.
Lemma pmul_distr_l : forall P Q R, peq (pmul (padd P Q) R) (padd (pmul P R) (pmul Q R)).
Proof.
  intros P Q R i. rewrite (pmul_comm (padd P Q) R i), pmul_distr_r_coef, coef_add.
  rewrite (pmul_comm R P i), (pmul_comm R Q i). reflexivity.
Qed.
Lemma pmul_pscale_l : forall a Q R i, coef (pmul (pscale a Q) R) i = a * coef (pmul Q R) i.
Proof.
  induction Q as [|b Q IH]; intros R i.
  - cbn [pscale map pmul]. rewrite coef_nil. ring.
  - cbn [pscale map]. fold (pscale a Q). rewrite !coef_pmul_cons. destruct i; cbv iota. ring. rewrite IH. ring.
Qed.
Lemma pmul_shift_l : forall A R i, coef (pmul (O_ :: A) R) i = match i with 0 => O_ | S j => coef (pmul A R) j end.
Proof. intros. rewrite coef_pmul_cons. destruct i; cbv iota; ring. Qed.
Lemma pmul_assoc : forall P Q R, peq (pmul P (pmul Q R)) (pmul (pmul P Q) R).
Proof.
  induction P as [|a P IH]; intros Q R i.
  - reflexivity.
  - cbn [pmul]. rewrite (pmul_distr_l _ _ R i), !coef_add, coef_pscale, pmul_pscale_l, pmul_shift_l.
    destruct i; cbv iota. reflexivity. rewrite coef_cons_S, (IH Q R i). reflexivity.
Qed.
Lemma pmul_1_l : forall P, peq (pmul [I_] P) P.
Proof. intros P i. rewrite coef_pmul_cons. destruct i; cbv iota; cbn [pmul]; rewrite ?coef_nil; ring. Qed.

(* the commutative-ring laws of the schoolbook specification *)
Lemma poly_ring : ring_theory (R := list T) [] [I_] padd pmul psub pneg peq.
Proof.
  constructor.
  - intros P i. rewrite coef_add, coef_nil. ring.
  - intros P Q i. rewrite !coef_add. ring.
  - intros P Q R i. rewrite !coef_add. ring.
  - apply pmul_1_l.
  - apply pmul_comm.
  - apply pmul_assoc.
  - apply pmul_distr_l.
  - intros P Q i. rewrite coef_sub, coef_add, coef_neg. ring.
  - intros P i. rewrite coef_add, coef_neg, coef_nil. ring.
Qed.
Lemma poly_ext : ring_eq_ext padd pmul pneg peq.
Proof. constructor; [exact padd_proper | exact pmul_proper | exact pneg_proper]. Qed.

Lemma peq_intro : forall P Q, (forall i, coef P i = coef Q i) -> peq P Q.
Proof. intros P Q H. exact H. Qed.
Lemma peq_elim : forall P Q, peq P Q -> forall i, coef P i = coef Q i.
Proof. intros P Q H. exact H. Qed.

(* length of the schoolbook product *)
Lemma coef_pmul_high : forall P Q i, length P + length Q <= S i -> coef (pmul P Q) i = O_.
Proof.
  induction P as [|a P IH]; intros Q i H.
  - apply coef_nil.
  - rewrite coef_pmul_cons. cbn [length] in H. rewrite (coef_ge Q i) by lia.
    destruct i; cbv iota. ring. rewrite IH by lia. ring.
Qed.
End Spec.
