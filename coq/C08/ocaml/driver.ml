(* C08 driver: one case per line  "<op> <p> <kthr> <sthr> <args...>"
   polynomial argument: c0,c1,...,cn  or  -  (empty vector); scalar argument: decimal integer.
   output: result tokens in the same syntax, separated by one space. *)
let zs = z_of_string
let poly_of (s : string) : Model.z list =
  if s = "-" then [] else List.map zs (String.split_on_char ',' s)
let str_of_poly (l : Model.z list) : string =
  if l = [] then "-" else String.concat "," (List.map string_of_z l)
let n_of (s : string) : Model.n =
  match zs s with Model.Z0 -> Model.N0 | Model.Zpos p -> Model.Npos p | Model.Zneg p -> Model.Npos p
let sp = str_of_poly
let sb = string_of_bool
let () = run_lines (fun toks ->
  match toks with
  | op :: ps :: ks :: ss :: args ->
    let p = zs ps in
    let k = nat_of_int (int_of_string ks) in
    let s = nat_of_int (int_of_string ss) in
    let a = Array.of_list args in
    let po i = poly_of a.(i) in
    let sc i = zs a.(i) in
    (match op with
     | "setdegree" -> sp (Model.zp_setdegree p (po 0))
     | "degree" -> string_of_z (Model.zp_degree p (po 0))
     | "leadcoef" -> string_of_z (Model.zp_leadcoef p (po 0))
     | "isZero" -> sb (Model.zp_isZero p (po 0))
     | "areEqual" -> sb (Model.zp_areEqual p (po 0) (po 1))
     | "assign" -> sp (Model.zp_assign p (po 0))
     | "monomial" -> sp (Model.zp_monomial p (nat_of_int (int_of_string a.(0))) (sc 1))
     | "eval" -> string_of_z (Model.zp_eval p (po 0) (sc 1))
     | "diff" -> sp (Model.zp_diff p (po 0))
     | "reverse" -> sp (Model.zp_reverse p (po 0))
     | "add" -> sp (Model.zp_add p (po 0) (po 1))
     | "neg" -> sp (Model.zp_neg p (po 0))
     | "sub" -> sp (Model.zp_sub p (po 0) (po 1))
     | "subin" -> sp (Model.zp_subin p (po 0) (po 1))
     | "add_s" -> sp (Model.zp_add_s p (po 0) (sc 1))
     | "addin_s" -> sp (Model.zp_addin_s p (po 0) (sc 1))
     | "sub_s" -> sp (Model.zp_sub_s p (po 0) (sc 1))
     | "subin_s" -> sp (Model.zp_subin_s p (po 0) (sc 1))
     | "s_sub" -> sp (Model.zp_s_sub p (sc 0) (po 1))
     | "mul_s" -> sp (Model.zp_mul_s p (po 0) (sc 1))
     | "div_s" -> sp (Model.zp_div_s p (po 0) (sc 1))
     | "mul" -> sp (Model.zp_mul p k (po 0) (po 1))
     | "stdmul" -> sp (Model.zp_stdmul p (po 0) (po 1))
     | "karamul" -> sp (Model.zp_karamul p k (po 0) (po 1))
     | "mulin" -> sp (Model.zp_mulin p k (po 0) (po 1))
     | "sqr" -> sp (Model.zp_sqr p k s (po 0))
     | "invmodpowx" -> sp (Model.zp_invmodpowx p k s (po 0) (nat_of_int (int_of_string a.(1))))
     | "div" -> sp (Model.zp_div p k s (po 0) (po 1))
     | "divmod" -> let (q, r) = Model.zp_divmod p k s (po 0) (po 1) in sp q ^ " " ^ sp r
     | "divmodin" -> let (q, r) = Model.zp_divmodin p k s (po 0) (po 1) in sp q ^ " " ^ sp r
     | "mod" -> sp (Model.zp_mod p k s (po 0) (po 1))
     | "modin" -> sp (Model.zp_modin p (po 0) (po 1))
     | "pdivmod" -> let ((q, r), m) = Model.zp_pdivmod p (po 0) (po 1) in sp q ^ " " ^ sp r ^ " " ^ string_of_z m
     | "pmod" -> let (r, m) = Model.zp_pmod p (po 0) (po 1) in sp r ^ " " ^ string_of_z m
     | "gcd" -> sp (Model.zp_gcd p k s (po 0) (po 1))
     | "gcdext" -> let ((f, u), v) = Model.zp_gcdext p k s (po 0) (po 1) in sp f ^ " " ^ sp u ^ " " ^ sp v
     | "invmod" -> sp (Model.zp_invmod p k s (po 0) (po 1))
     | "invmodunit" -> sp (Model.zp_invmodunit p k s (po 0) (po 1))
     | "lcm" -> sp (Model.zp_lcm p k s (po 0) (po 1))
     | "pow" -> sp (Model.zp_pow p k (po 0) (n_of a.(1)))
     | "powmod" -> sp (Model.zp_powmod p k s (Array.length a > 3 && a.(3) = "e0red") (po 0) (n_of a.(1)) (po 2))
     | "addin" -> sp (Model.zp_addin p (po 0) (po 1))
     | "isDivisor" -> sb (Model.zp_isDivisor p k s (po 0) (po 1))
     | "modpowx" -> sp (Model.zp_modpowx p (po 0) (nat_of_int (int_of_string a.(1))))
     | "div_sp" -> sp (Model.zp_div_sp p (sc 0) (po 1))
     | "mod_sp" -> sp (Model.zp_mod_sp p (sc 0) (po 1))
     | "mul_trunc" -> sp (Model.zp_mul_trunc p (po 0) (po 1) (nat_of_int (int_of_string a.(2))) (nat_of_int (int_of_string a.(3))))
     | "power_compose" -> sp (Model.zp_power_compose p (po 0) (nat_of_int (int_of_string a.(1))))
     | "interpolate" -> sp (Model.zp_interpolate p (po 0) (po 1))
     | "crt_toring" -> sp (Model.zp_crt_toring p k (po 0) (po 1))
     | "crt_torns" -> sp (Model.zp_crt_torns p (po 0) (po 1))
     | "axpy" -> sp (Model.zp_axpy p k (po 0) (po 1) (po 2))
     | "axpy_s" -> sp (Model.zp_axpy_s p (sc 0) (po 1) (po 2))
     | "axpyin" -> sp (Model.zp_axpyin p k (po 0) (po 1) (po 2))
     | "maxpy" -> sp (Model.zp_maxpy p k (po 0) (po 1) (po 2))
     | "maxpyin" -> sp (Model.zp_maxpyin p k (po 0) (po 1) (po 2))
     | "maxpyin_s" -> sp (Model.zp_maxpyin_s p (po 0) (sc 1) (po 2))
     | "axmy" -> sp (Model.zp_axmy p k (po 0) (po 1) (po 2))
     | "axmy_s" -> sp (Model.zp_axmy_s p (sc 0) (po 1) (po 2))
     | "axmyin" -> sp (Model.zp_axmyin p k (po 0) (po 1) (po 2))
     | "axmyin_s" -> sp (Model.zp_axmyin_s p (po 0) (sc 1) (po 2))
     | "shift" -> sp (Model.zp_shiftin p (po 0) (nat_of_int (int_of_string a.(1))))
     | "getEntry" -> string_of_z (Model.zp_getEntry p (po 0) (nat_of_int (int_of_string a.(1))))
     | "setEntry" -> sp (Model.zp_setEntry p (po 0) (sc 1) (nat_of_int (int_of_string a.(2))))
     | "val" -> string_of_z (Model.zp_val p (po 0))
     | "maxpy_s" -> sp (Model.zp_maxpy_s p (sc 0) (po 1) (po 2))
     | "mod_ps" -> sp (Model.zp_mod_ps p (po 0) (sc 1))
     | "midmul" -> sp (Model.zp_midmul p k (po 0) (po 1))
     | "stdmidmul" -> sp (Model.zp_stdmidmul p (po 0) (po 1))
     | "karamidmul" -> sp (Model.zp_karamidmul p k (po 0) (po 1))
     | "midmul_raw" -> sp (Model.zp_midmul_raw p k (po 0) (po 1))
     | "stdmidmul_raw" -> sp (Model.zp_stdmidmul_raw p (po 0) (po 1))
     | "karamidmul_raw" -> sp (Model.zp_karamidmul_raw p k (po 0) (po 1))
     | "mul_r" -> sp (Model.zp_mul_r p k (nat_of_int (int_of_string a.(0))) (po 1) (po 2))
     | "stdmul_r" -> sp (Model.zp_stdmul_r p (nat_of_int (int_of_string a.(0))) (po 1) (po 2))
     | "karamul_r" -> sp (Model.zp_karamul_r p k (nat_of_int (int_of_string a.(0))) (po 1) (po 2))
     | "sqr_r" -> sp (Model.zp_sqr_r p k s (po 0) (nat_of_int (int_of_string a.(1))) (nat_of_int (int_of_string a.(2))))
     | "stdsqr_r" -> sp (Model.zp_stdsqr_r p (po 0))
     | "sqrrec_r" -> sp (Model.zp_sqrrec_r p k s (po 0) (nat_of_int (int_of_string a.(1))) (nat_of_int (int_of_string a.(2))))
     | "subin_range" -> sp (Model.zp_subin_range p (po 0) (po 1))
     | "subin_grow" -> sp (Model.zp_subin_grow p (po 0) (po 1))
     | "subin_at" -> sp (Model.zp_subin_at p (po 0) (po 1) (nat_of_int (int_of_string a.(2))))
     | _ -> "UNKNOWN-OP")
  | _ -> "BAD-LINE")
