(* Extraction of the executable model for the correspondence run (ExtrOcamlBasic only). *)
From Coq Require Import ZArith List.
From Coq Require Extraction.
From Coq Require Import ExtrOcamlBasic.
From C09 Require Import Model Model2 Model3.
Extraction Language OCaml.
Cd "ocaml".
Extraction "model.ml" norm deg is_irreducible sqrfree split split1 ddf czfactor is_prim_root order
  random_irreducible creux_random_irreducible ixe_irreducible ixe_irreducible2 is_irreducible2 brute_order give_prim_root give_random_prim_root random_prim_root
  pgcd pdivmod pmul ppowmod pdiff brute_irreducible irreducible_b prime_factors
  sqrfree_rep czfactor_rep is_prim_root_L order_L factor1.
Cd "..".
