(* C09 model: polynomial factorisation, irreducibility, primitivity over GF(p), written after
   givpoly1factor.inl / givpoly1proot.inl / givpoly1sqrfree.inl / givpoly1gcd.inl / givpoly1misc.inl.
   A polynomial is the list of its coefficients, low degree first, every coefficient in [0,p) and no
   trailing zero (what Poly1Dom keeps after setdegree).  p is the characteristic (a prime in all
   theorems); MOD is the `Residu_t MOD` argument of the code (the caller passes _domain.residu()).
   Random choices of the code (GivRandom _g) are an explicit stream `s : list Z` of generator outputs;
   a function that needs more values than the stream holds returns None.  No proofs in this file. *)
From Coq Require Import ZArith List Bool.
Import ListNotations.
Local Open Scope Z_scope.

Definition poly := list Z.

(* ---------- raw operations on coefficient lists over Z (no reduction) *)
Fixpoint paddZ (a b : poly) : poly :=
  match a, b with
  | [], _ => b
  | _, [] => a
  | x :: a', y :: b' => (x + y) :: paddZ a' b'
  end.
Definition pscaleZ (c : Z) (a : poly) : poly := map (Z.mul c) a.
Fixpoint pmulZ (a b : poly) : poly :=
  match a with
  | [] => []
  | x :: a' => paddZ (pscaleZ x b) (0 :: pmulZ a' b)
  end.
Definition pshift (k : nat) (a : poly) : poly := repeat 0 k ++ a.      (* X^k * a *)

(* setdegree: strip trailing zeros *)
Fixpoint norm (a : poly) : poly :=
  match a with
  | [] => []
  | x :: r => match norm r with
              | [] => if x =? 0 then [] else [x]
              | r' => x :: r'
              end
  end.

Definition deg (a : poly) : Z := Z.of_nat (length a) - 1.        (* Degree: -1 for the zero polynomial *)
Definition lc (a : poly) : Z := last a 0.                          (* leadcoef *)
Definition Xpoly : poly := [0; 1].                                 (* init(Unit, Degree(1)) *)
Definition pone : poly := [1].
Definition monomial (n : nat) : poly := repeat 0 n ++ [1].         (* init(R, Degree n) *)

Section Fp.
Variable p : Z.

Definition red (a : poly) : poly := norm (map (fun x => x mod p) a).
Definition padd (a b : poly) : poly := red (paddZ a b).
Definition psub (a b : poly) : poly := red (paddZ a (pscaleZ (-1) b)).
Definition pscale (c : Z) (a : poly) : poly := red (pscaleZ c a).
Definition pmul (a b : poly) : poly := red (pmulZ a b).

(* inverse in Z/p by the extended Euclidean algorithm: invariant r_i = s_i * a (mod p) *)
Fixpoint egcd (fuel : nat) (r0 r1 s0 s1 : Z) : Z * Z :=
  match fuel with
  | O => (r0, s0)
  | S f => if r1 =? 0 then (r0, s0)
           else egcd f r1 (r0 mod r1) s1 (s0 - (r0 / r1) * s1)
  end.
Definition inv (a : Z) : Z := snd (egcd (S (Z.to_nat p)) p (a mod p) 0 1) mod p.

(* long division  A = B Q + R  (value of Poly1Dom::divmod; B <> 0) *)
Fixpoint divmod_loop (fuel : nat) (q r b : poly) : poly * poly :=
  match fuel with
  | O => (q, r)
  | S f => if (length r <? length b)%nat then (q, r)
           else let k := (length r - length b)%nat in
                let c := (lc r * inv (lc b)) mod p in
                divmod_loop f (padd q (pshift k [c])) (psub r (pshift k (pscaleZ c b))) b
  end.
Definition pdivmod (a b : poly) : poly * poly := divmod_loop (length a) [] a b.
Definition pdiv (a b : poly) : poly := fst (pdivmod a b).
Definition pmod (a b : poly) : poly := snd (pdivmod a b).

(* Poly1Dom::gcd(G,P,Q): Euclid's remainder sequence, NOT made monic; constants give 1 *)
Fixpoint gcd_loop (fuel : nat) (u g : poly) : poly :=
  match fuel with
  | O => g
  | S f => match pmod u g with
           | [] => g
           | r => gcd_loop f g r
           end
  end.
Definition pgcd (P Q : poly) : poly :=
  let dU := deg P in let dG := deg Q in
  if (dU <? 0) || (dG =? 0) then Q
  else if (dG <? 0) || (dU =? 0) then P
  else let G := if dU >=? dG then gcd_loop (length Q) P Q else gcd_loop (length P) Q P in
       if deg G <=? 0 then pone else G.

(* Poly1Dom::diff *)
Fixpoint diff_aux (i : Z) (a : poly) : poly :=
  match a with [] => [] | x :: r => (i * x) :: diff_aux (i + 1) r end.
Definition pdiff (a : poly) : poly := match a with [] => [] | _ :: r => red (diff_aux 1 r) end.

(* Poly1Dom::powmod: W = 1; puiss = P mod U; while n>0 { if n odd W = W*puiss mod U; puiss = puiss^2 mod U; n >>= 1 } *)
Fixpoint powmod_pos (e : positive) (W puiss U : poly) : poly :=
  match e with
  | xH => pmod (pmul W puiss) U
  | xO e' => powmod_pos e' W (pmod (pmul puiss puiss) U) U
  | xI e' => powmod_pos e' (pmod (pmul W puiss) U) (pmod (pmul puiss puiss) U) U
  end.
Definition ppowmod (P : poly) (n : Z) (U : poly) : poly :=
  match n with
  | Z0 => pone
  | Zpos e => powmod_pos e pone (pmod P U) U
  | Zneg e => powmod_pos e pone (pmod P U) U
  end.

(* ---------- irreducibility test (givpoly1factor.inl is_irreducible) *)
Fixpoint irr_loop (n : nat) (W P : poly) (MOD : Z) : bool :=      (* for dp = 1 .. dPo *)
  match n with
  | O => true
  | S n' => let W' := ppowmod W MOD P in
            let G1 := pgcd (psub W' Xpoly) P in
            if deg G1 >? 0 then false else irr_loop n' W' P MOD
  end.
Definition is_irreducible (P : poly) (MOD : Z) : bool :=
  if deg P <? 1 then false else          (* repaired behaviour (frag/C09.fix-4): zero and constants are rejected *)
  let W := pgcd (pdiff P) P in
  if deg W >? 0 then false
  else irr_loop (Z.to_nat (deg P / 2)) Xpoly P MOD.

(* ---------- square-free decomposition (givpoly1sqrfree.inl).  Returns (Nfact, Fact[0..]) *)
Fixpoint sqr_loop (rem : nat) (W Y Zp : poly) (acc : list poly) : bool * list poly * poly :=
  (* rem = Nfact + 1 - count; result (early_exit, Fact[0..count-1], W) *)
  match Zp with
  | [] => (false, acc, W)
  | _ => let F := pgcd W Zp in
         let W' := pdiv W F in
         let Y' := pdiv Zp F in
         let Z' := psub Y' (pdiff W') in
         match rem with
         | O => (true, acc ++ [F], W')                      (* unreachable: rem >= 1 on entry *)
         | S O => (true, acc ++ [F], W')                    (* ++count > Nfact : return Nfact *)
         | S rem' => sqr_loop rem' W' Y' Z' (acc ++ [F])
         end
  end.
Definition sqrfree (Nfact : Z) (P : poly) : Z * list poly :=
  if Nfact =? 0 then (0, []) else
  let A := pscale (inv (lc P)) P in     (* repaired behaviour (frag/C09.fix-1): the derivative is taken of the monic A *)
  let B := pdiff A in
  let D := pgcd A B in
  let C := pscale (inv (lc D)) D in
  if list_eq_dec Z.eq_dec C pone then (1, [A])
  else let W := pdiv A C in
       let Y := pdiv B C in
       let Z0 := psub Y (pdiff W) in
       match sqr_loop (Z.to_nat Nfact + 1) W Y Z0 [] with
       | (true, acc, _) => (Nfact, acc)
       | (false, acc, W') => (Z.of_nat (length acc) + 1, acc ++ [W'])
       end.

(* ---------- random polynomials from the generator stream (Poly1Dom::random(g, r, Degree d)) *)
Fixpoint nonzero_rand (s : list Z) : option (Z * list Z) :=
  match s with
  | [] => None
  | x :: r => if x mod p =? 0 then nonzero_rand r else Some (x mod p, r)
  end.
Fixpoint rand_coefs (n : nat) (s : list Z) (acc : poly) : option (poly * list Z) :=
  (* draws coefficients d-1, d-2, ..., 0 in this order; acc holds the higher ones *)
  match n with
  | O => Some (acc, s)
  | S n' => match s with
            | [] => None
            | x :: r => rand_coefs n' r ((x mod p) :: acc)
            end
  end.
Definition random_poly (d : nat) (s : list Z) : option (poly * list Z) :=   (* size d+1, leading coefficient <> 0 *)
  match nonzero_rand s with
  | None => None
  | Some (l, s1) => rand_coefs d s1 [l]
  end.

(* ---------- equal-degree splitting, container form (SplitFactor(L, G, d, MOD)) *)
Fixpoint split (fuel : nat) (G : poly) (d : Z) (MOD : Z) (L : list poly) (s : list Z)
  : option (list poly * list Z) :=
  match fuel with
  | O => None
  | S f =>
    let dG := deg G in
    if dG =? d then Some (L ++ [G], s)
    else match random_poly (Z.to_nat (dG - 1)) s with
         | None => None
         | Some (G2, s1) =>
           let G1 := pgcd G (norm G2) in
           let dG1 := deg G1 in
           if negb (dG1 =? dG) then
             if dG1 >? 0 then
               match split f G1 d MOD L s1 with
               | None => None
               | Some (L1, s2) => split f (pdiv G G1) d MOD L1 s2
               end
             else
               let pp := (MOD ^ d - 1) / 2 in
               let tp := ppowmod (norm G2) pp G in
               let G1' := pgcd G (psub tp pone) in
               let dG1' := deg G1' in
               if negb (dG1' =? dG) && (dG1' >? 0) then
                 match split f G1' d MOD L s1 with
                 | None => None
                 | Some (L1, s2) => split f (pdiv G G1') d MOD L1 s2
                 end
               else split f G d MOD L s1
           else split f G d MOD L s1
         end
  end.

(* SplitFactor(Rep& R, G, d, MOD): one proper factor *)
Fixpoint split1 (fuel : nat) (G : poly) (d : Z) (MOD : Z) (s : list Z) : option (poly * list Z) :=
  match fuel with
  | O => None
  | S f =>
    let dG := deg G in
    if dG =? d then Some (G, s)
    else match random_poly (Z.to_nat d) s with
         | None => None
         | Some (tmp, s1) =>
           let G1 := pgcd G (norm tmp) in
           let dG1 := deg G1 in
           if negb (dG1 =? dG) then
             if dG1 >? 0 then Some (G1, s1)
             else
               let pp := (MOD ^ d - 1) / 2 in
               let tp := ppowmod (norm tmp) pp G in
               let G2 := pgcd G (psub tp pone) in
               let dG2 := deg G2 in
               if negb (dG2 =? dG) then
                 if dG2 >? 0 then Some (G2, s1)
                 else let G3 := pgcd G (padd tp pone) in
                      let dG3 := deg G3 in
                      if negb (dG3 =? dG) && (dG3 >? 0) then Some (G3, s1)
                      else split1 f G d MOD s1
               else split1 f G d MOD s1
           else split1 f G d MOD s1
         end
  end.

(* ---------- distinct-degree factorisation (DistinctDegreeFactor(L, f, MOD)) *)
Fixpoint ddf_loop (n : nat) (dp : Z) (W P : poly) (MOD : Z) (L : list poly) (s : list Z)
  : option (poly * list poly * list Z) :=
  match n with
  | O => Some (P, L, s)
  | S n' =>
    let W' := ppowmod W MOD P in
    let G1 := pgcd (psub W' Xpoly) P in
    if deg G1 >? 0 then
      match split (length s + 2 * length G1 + 2) G1 dp MOD L s with
      | None => None
      | Some (L1, s1) => ddf_loop n' (dp + 1) W' (pdiv P G1) MOD L1 s1
      end
    else ddf_loop n' (dp + 1) W' P MOD L s
  end.
Definition ddf (f : poly) (MOD : Z) (L : list poly) (s : list Z) : option (list poly * list Z) :=
  match ddf_loop (Z.to_nat (deg f / 2)) 1 Xpoly f MOD L s with
  | None => None
  | Some (P, L1, s1) => if deg P >? 0 then Some (L1 ++ [P], s1) else Some (L1, s1)
  end.

(* ---------- Cantor-Zassenhaus driver (CZfactor(Lf, Le, P, MOD)) *)
Fixpoint cz_loop (g : list poly) (i : Z) (MOD : Z) (Lf : list poly) (Le : list Z) (s : list Z)
  : option (list poly * list Z * list Z) :=
  match g with
  | [] => Some (Lf, Le, s)
  | gi :: g' =>
    match ddf gi MOD Lf s with
    | None => None
    | Some (Lf1, s1) =>
      cz_loop g' (i + 1) MOD Lf1 (Le ++ repeat (i + 1) (length Lf1 - length Lf)) s1
    end
  end.
Definition czfactor (P : poly) (MOD : Z) (s : list Z) : option (list poly * list Z * list Z) :=
  let (nb, g) := sqrfree (deg P + 1) P in
  cz_loop (firstn (Z.to_nat nb) g) 0 MOD [] [] s.

(* ---------- prime factors of an integer (the set IntFactorDom::set returns, sorted) *)
Fixpoint strip (fuel : nat) (n d : Z) : Z :=
  match fuel with O => n | S f => if n mod d =? 0 then strip f (n / d) d else n end.
Fixpoint pf_loop (fuel : nat) (n d : Z) : list Z :=
  match fuel with
  | O => if n >? 1 then [n] else []
  | S f => if n <=? 1 then []
           else if d * d >? n then [n]
           else if n mod d =? 0 then d :: pf_loop f (strip (Z.to_nat n) n d) (d + 1)
           else pf_loop f n (d + 1)
  end.
Definition prime_factors (n : Z) : list Z := pf_loop (Z.to_nat (Z.sqrt n) + 2) n 2.

(* ---------- primitive roots (givpoly1proot.inl is_prim_root / order) *)
Fixpoint all_not_one (A F : poly) (qp : Z) (L : list Z) : bool :=
  match L with
  | [] => true
  | l :: L' => if list_eq_dec Z.eq_dec (ppowmod A (qp / l) F) pone then false else all_not_one A F qp L'
  end.
Definition is_prim_root (P F : poly) (MOD : Z) : bool :=
  let A := pmod P F in
  if deg (pgcd A F) =? 0 then
    let qp := MOD ^ (deg F) - 1 in
    all_not_one A F qp (prime_factors qp)
  else false.

(* first prime of L whose test fails, with the rest of the list from there on *)
Fixpoint first_fail (A F : poly) (qp : Z) (L : list Z) : option (list Z) :=
  match L with
  | [] => None
  | l :: L' => if list_eq_dec Z.eq_dec (ppowmod A (qp / l) F) pone then Some L else first_fail A F qp L'
  end.
Fixpoint lower (fuel : nat) (A F : poly) (g l : Z) : Z :=     (* while l | g and A^(g/l) = 1 : g /= l *)
  match fuel with
  | O => g
  | S f => if (g mod l =? 0) && (if list_eq_dec Z.eq_dec (ppowmod A (g / l) F) pone then true else false)
           then lower f A F (g / l) l else g
  end.
Definition order (P F : poly) (MOD : Z) : Z :=
  let A := pmod P F in
  if deg (pgcd A F) =? 0 then
    let qp := MOD ^ (deg F) - 1 in
    match first_fail A F qp (prime_factors qp) with
    | None => qp
    | Some [] => qp
    | Some (l0 :: L') =>
      fold_left (fun g l => lower (Z.to_nat (Z.log2 (Z.abs g)) + 1) A F g l) (l0 :: L') (qp / l0)
    end
  else 0.


(* ---------- is_irreducible2 (givpoly1proot.inl), repaired behaviour (frag/C09.fix-2): Rabin's test.
   X^(q^n) - X must vanish modulo P, and for each prime r | n  gcd(X^(q^(n/r)) - X, P) must be constant.
   (The unrepaired code compared X^(q^n) mod P with the unreduced X and tested X^(q^(n/r)) - X <> 0 without the gcd.) *)
Fixpoint irr2_loop (P : poly) (MOD : Z) (n : Z) (L : list Z) : bool :=
  match L with
  | [] => true
  | r :: L' => if deg (pgcd (psub (ppowmod Xpoly (MOD ^ (n / r)) P) Xpoly) P) >? 0 then false
               else irr2_loop P MOD n L'
  end.
Definition is_irreducible2 (P : poly) (MOD : Z) : bool :=
  if deg P <? 1 then false else
  let W := pgcd (pdiff P) P in
  if deg W >? 0 then false
  else let n := deg P in
       match pmod (psub (ppowmod Xpoly (MOD ^ n) P) Xpoly) P with
       | _ :: _ => false
       | [] => irr2_loop P MOD n (prime_factors n)
       end.

(* ---------- searches for irreducible / primitive polynomials.
   set_coef R i a  =  _domain.assign(R[i], a) *)
Fixpoint set_coef (R : poly) (i : nat) (a : Z) : poly :=
  match R, i with
  | [], _ => []
  | _ :: r, O => a :: r
  | x :: r, S i' => x :: set_coef r i' a
  end.
Definition zrange (lo hi : Z) : list Z := map (fun k => lo + Z.of_nat k) (seq 0 (Z.to_nat (hi - lo))).  (* lo .. hi-1 *)

(* first a in `as_` such that test (set_coef R 0 a); also returns the last R tried (the code leaves it in R) *)
Fixpoint try_const (test : poly -> bool) (R : poly) (as_ : list Z) : bool * poly :=
  match as_ with
  | [] => (false, R)
  | a :: r => let R' := set_coef R 0 a in if test R' then (true, R') else try_const test R' r
  end.
Definition find_irred_binomial (test : poly -> bool) (R : poly) (MOD : Z) : bool * poly :=
  try_const test R (zrange 0 MOD).

(* for b in bs: R[d] = b; for a in 1..MOD-1: R[0] = a; test *)
Fixpoint try_mid (test : poly -> bool) (R : poly) (d : nat) (bs : list Z) (MOD : Z) : bool * poly :=
  match bs with
  | [] => (false, R)
  | b :: r => match try_const test (set_coef R d b) (zrange 1 MOD) with
              | (true, R') => (true, R')
              | (false, R') => try_mid test R' d r MOD
              end
  end.
(* for d in ds: (try_mid ...); then R[d] = 0 *)
Fixpoint find_irred_trinomial (test : poly -> bool) (R : poly) (ds : list Z) (MOD : Z) : bool * poly :=
  match ds with
  | [] => (false, R)
  | d :: r => match try_mid test R (Z.to_nat d) (zrange 0 MOD) MOD with
              | (true, R') => (true, R')
              | (false, R') => find_irred_trinomial test (set_coef R' (Z.to_nat d) 0) r MOD
              end
  end.
(* find_irred_trinomial2: after the b loop the code resets R[0] instead of R[d] *)
Fixpoint find_irred_trinomial2 (test : poly -> bool) (R : poly) (ds : list Z) (MOD : Z) : bool * poly :=
  match ds with
  | [] => (false, R)
  | d :: r => match try_mid test R (Z.to_nat d) (zrange 0 MOD) MOD with
              | (true, R') => (true, R')
              | (false, R') => find_irred_trinomial2 test (set_coef R' 0 0) r MOD
              end
  end.

(* for a < NUM: random(R[0]); test *)
Fixpoint try_rand_const (test : poly -> bool) (R : poly) (n : nat) (s : list Z) : option (bool * poly * list Z) :=
  match n with
  | O => Some (false, R, s)
  | S n' => match s with
            | [] => None
            | x :: s' => let R' := set_coef R 0 (x mod p) in
                         if test R' then Some (true, R', s') else try_rand_const test R' n' s'
            end
  end.
(* do { R = random(n); R[n] = 1; for a<NUM {...} } while(1) *)
Fixpoint find_irred_randomial (fuel : nat) (test : poly -> bool) (n : nat) (NUM : Z) (s : list Z)
  : option (poly * list Z) :=
  match fuel with
  | O => None
  | S f => match random_poly n s with
           | None => None
           | Some (R0, s1) =>
             match try_rand_const test (set_coef R0 n 1) (Z.to_nat NUM) s1 with
             | None => None
             | Some (true, R, s2) => Some (R, s2)
             | Some (false, _, s2) => find_irred_randomial f test n NUM s2
             end
           end
  end.

Definition random_irreducible (n : nat) (MOD : Z) (s : list Z) : option (poly * list Z) :=
  find_irred_randomial (S (length s)) (fun R => is_irreducible (norm R) MOD) n MOD s.

Definition creux_random_irreducible (n : nat) (MOD : Z) (s : list Z) : option (poly * list Z) :=
  let test := fun R => is_irreducible (norm R) MOD in
  match find_irred_binomial test (monomial n) MOD with
  | (true, R) => Some (R, s)
  | (false, R) =>
    match find_irred_trinomial test R (zrange 1 (Z.of_nat n / 2 + 1)) MOD with
    | (true, R') => Some (R', s)
    | (false, _) => find_irred_randomial (S (length s)) test n MOD s
    end
  end.

Definition ixe_irreducible (n : nat) (MOD : Z) (s : list Z) : option (poly * list Z) :=
  let test := fun R => is_irreducible (norm R) MOD && is_prim_root Xpoly (norm R) MOD in
  match find_irred_binomial test (monomial n) MOD with
  | (true, R) => Some (R, s)
  | (false, R) =>
    match find_irred_trinomial test R (zrange 2 (Z.of_nat n / 2 + 1)) MOD with
    | (true, R') => Some (R', s)
    | (false, _) => find_irred_randomial (S (length s)) test n MOD s
    end
  end.


Definition ixe_irreducible2 (n : nat) (MOD : Z) (s : list Z) : option (poly * list Z) :=
  let test := fun R => is_irreducible2 (norm R) MOD && is_prim_root Xpoly (norm R) MOD in
  match find_irred_binomial test (monomial n) MOD with
  | (true, R) => Some (R, s)
  | (false, R) =>
    match find_irred_trinomial2 test R (zrange 2 (Z.of_nat n)) MOD with
    | (true, R') => Some (R', s)
    | (false, _) => find_irred_randomial (S (length s)) test n MOD s
    end
  end.

(* give_prim_root(R, F) *)
Fixpoint gpr_binomials (F : poly) (MOD : Z) (dis : list Z) : option poly :=
  match dis with
  | [] => None
  | di :: r => match try_const (fun R => is_prim_root (norm R) F MOD) (monomial (Z.to_nat di)) (zrange 0 MOD) with
               | (true, R) => Some R
               | (false, _) => gpr_binomials F MOD r
               end
  end.
Fixpoint gpr_mid (F : poly) (MOD : Z) (R : poly) (djs : list Z) : bool * poly :=
  (* for dj: for b in 0..MOD-1: R[dj] = b; for a in 0..MOD-1: R[0] = a; test.   R[dj] is NOT reset *)
  match djs with
  | [] => (false, R)
  | dj :: r =>
    match (fix bs (R : poly) (l : list Z) : bool * poly :=
             match l with
             | [] => (false, R)
             | b :: l' => match try_const (fun R => is_prim_root (norm R) F MOD) (set_coef R (Z.to_nat dj) b) (zrange 0 MOD) with
                          | (true, R') => (true, R')
                          | (false, R') => bs R' l'
                          end
             end) R (zrange 0 MOD) with
    | (true, R') => (true, R')
    | (false, R') => gpr_mid F MOD R' r
    end
  end.
Fixpoint gpr_trinomials (F : poly) (MOD : Z) (dis : list Z) : option poly :=
  match dis with
  | [] => None
  | di :: r => match gpr_mid F MOD (monomial (Z.to_nat di)) (zrange 1 di) with
               | (true, R) => Some R
               | (false, _) => gpr_trinomials F MOD r
               end
  end.
Fixpoint gpr_random (fuel : nat) (F : poly) (n : nat) (MOD : Z) (s : list Z) : option (poly * list Z) :=
  match fuel with
  | O => None
  | S f => match random_poly n s with
           | None => None
           | Some (R0, s1) =>
             match try_const (fun R => is_prim_root (norm R) F MOD) (set_coef R0 n 1) (zrange 0 MOD) with
             | (true, R) => Some (R, s1)
             | (false, _) => gpr_random f F n MOD s1
             end
           end
  end.
Definition give_random_prim_root (F : poly) (MOD : Z) (s : list Z) : option (poly * list Z) :=
  gpr_random (S (length s)) F (Z.to_nat (deg F)) MOD s.
Definition give_prim_root (F : poly) (MOD : Z) (s : list Z) : option (poly * list Z) :=
  let n := deg F in
  match gpr_binomials F MOD (zrange 1 n) with
  | Some R => Some (R, s)
  | None => match gpr_trinomials F MOD (zrange 2 n) with
            | Some R => Some (R, s)
            | None => give_random_prim_root F MOD s
            end
  end.
Definition random_prim_root (n : nat) (MOD : Z) (s : list Z) : option (poly * poly * list Z) :=
  match random_irreducible n MOD s with
  | None => None
  | Some (P, s1) => match give_prim_root (norm P) MOD s1 with
                    | None => None
                    | Some (R, s2) => Some (P, R, s2)
                    end
  end.

End Fp.

(* ---------- brute-force definitions used as specifications in the bounded theorems *)
(* all coefficient lists of length n over [0,p) *)
Fixpoint all_lists (p : Z) (n : nat) : list poly :=
  match n with
  | O => [[]]
  | S n' => flat_map (fun r => map (fun c => c :: r) (zrange 0 p)) (all_lists p n')
  end.
(* every coefficient list of degree exactly n over [0,p) with a non-zero leading coefficient *)
Definition canons (p : Z) (n : nat) : list poly :=
  flat_map (fun l => map (fun c => l ++ [c]) (zrange 1 p)) (all_lists p n).
Definition monics (p : Z) (n : nat) : list poly := map (fun l => l ++ [1]) (all_lists p n).   (* monic, degree n *)
(* P has a monic divisor of degree k *)
Definition has_divisor_deg (p : Z) (P : poly) (k : nat) : bool :=
  existsb (fun D => match pmod p P D with [] => true | _ => false end) (monics p k).
Definition brute_irreducible (p : Z) (P : poly) : bool :=
  (1 <=? deg P) && negb (existsb (has_divisor_deg p P) (seq 1 (length P - 2))).
(* the verified checker: degree >= 1 and no monic divisor of degree 1 .. deg/2 *)
Definition irreducible_b (p : Z) (P : poly) : bool :=
  (1 <=? deg P) && forallb (fun k => negb (has_divisor_deg p P k)) (seq 1 (Z.to_nat (deg P / 2))).
(* A^j modulo F by repeated multiplication (the definition the order checker is proved against), j >= 1 *)
Fixpoint npow (p : Z) (A F : poly) (j : nat) : poly :=
  match j with
  | O => pone
  | S O => A
  | S j' => pmod p (pmul p (npow p A F j') A) F
  end.
(* multiplicative order of A modulo F by repeated multiplication: least k in [1, bound] with A^k = 1, else 0 *)
Fixpoint brute_order_loop (p : Z) (fuel : nat) (A F cur : poly) (k : Z) : Z :=
  match fuel with
  | O => 0
  | S f => if list_eq_dec Z.eq_dec cur pone then k
           else brute_order_loop p f A F (pmod p (pmul p cur A) F) (k + 1)
  end.
Definition brute_order (p : Z) (A F : poly) (bound : Z) : Z :=
  let A' := pmod p A F in brute_order_loop p (Z.to_nat bound) A' F A' 1.
