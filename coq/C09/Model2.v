(* C09 model, part 2: Poly1Dom::sqrfree as REPAIRED by frag/C09.fix-6.diff (square-free decomposition valid in every
   characteristic: the gcd(W, C) recurrence for the multiplicities that are not multiples of p, then the p-th root of the
   p-th power that is left over, multiplicities times p) and CZfactor on top of it.  Written after the repaired C++ branch by
   branch, like Model.v; prime fields GF(p) (the p-th root of a coefficient is the coefficient).  The check ties these
   functions to the code only when /repo's givpoly1sqrfree.inl has the p-th-root branch; until then Model.sqrfree is the
   model of the code.  No proofs in this file. *)
From Coq Require Import ZArith List Bool.
From C09 Require Import Model.
Import ListNotations.
Local Open Scope Z_scope.

Section Fp.
Variable p : Z.

(* while (degree(W) > 0) { if (count >= Nfact) return Nfact; Y = gcd(W,C); Fact[count] = W/Y; W = Y; C /= Y; ++count }
   returns (early exit, Fact[0..count-1], C) *)
Fixpoint mus_loop (fuel : nat) (Nfact : Z) (W C : poly) (acc : list poly) : bool * list poly * poly :=
  match fuel with
  | O => (false, acc, C)
  | S f => if deg W >? 0 then
             if Z.of_nat (length acc) >=? Nfact then (true, acc, C)
             else let Y := pgcd p W C in
                  mus_loop f Nfact Y (pdiv p C Y) (acc ++ [pdiv p W Y])
           else (false, acc, C)
  end.

(* G[j] = C[j*p], j = 0 .. deg C / p   (over the prime field the p-th root of a coefficient is the coefficient) *)
Definition proot (C : poly) : poly :=
  map (fun j => nth (j * Z.to_nat p)%nat C 0) (seq 0 (Z.to_nat (deg C / p) + 1)).

Fixpoint set_nth (l : list poly) (i : nat) (v : poly) : list poly :=
  match l, i with
  | [], _ => []
  | _ :: r, O => v :: r
  | x :: r, S i' => x :: set_nth r i' v
  end.

(* for j < m: slot = p (j+1) - 1; if slot < count: Fact[slot] *= H[j] else pad with one up to slot, Fact[slot] = H[j] *)
Fixpoint place (H : list poly) (j : nat) (acc : list poly) : list poly :=
  match H with
  | [] => acc
  | h :: H' =>
    let slot := (Z.to_nat p * (j + 1) - 1)%nat in
    place H' (S j)
      (if (slot <? length acc)%nat then set_nth acc slot (pmul p (nth slot acc []) h)
       else acc ++ repeat pone (slot - length acc) ++ [h])
  end.

(* sqrfree(Nfact, Fact, P), repaired; fuel bounds the depth of the recursion on p-th roots (deg P + 1 is enough) *)
Fixpoint sqrfree_rep (fuel : nat) (Nfact : Z) (P : poly) : Z * list poly :=
  match fuel with
  | O => (Nfact, [])
  | S f =>
    if Nfact =? 0 then (0, []) else
    let A := pscale p (inv p (lc P)) P in
    let B := pdiff p A in
    let D := pgcd p A B in
    let C := pscale p (inv p (lc D)) D in
    if list_eq_dec Z.eq_dec C pone then (1, [A])
    else match mus_loop (length A + 1) Nfact (pdiv p A C) C [] with
         | (true, acc, _) => (Nfact, acc)
         | (false, acc, C') =>
           if deg C' >? 0 then
             let m := Nfact / p in
             if m =? 0 then (Nfact, acc)
             else let (mh, H) := sqrfree_rep f m (proot C') in
                  let acc' := place (firstn (Z.to_nat mh) H) 0 acc in
                  (Z.of_nat (length acc'), acc')
           else (Z.of_nat (length acc), acc)
         end
  end.

(* CZfactor(Lf, Le, P, MOD) on top of the repaired sqrfree *)
Definition czfactor_rep (P : poly) (MOD : Z) (s : list Z) : option (list poly * list Z * list Z) :=
  let (nb, g) := sqrfree_rep (length P + 1) (deg P + 1) P in
  cz_loop p (firstn (Z.to_nat nb) g) 0 MOD [] [] s.

End Fp.
