(* C09 model, part 3 (phase 4).
   1. is_prim_root / order with the list of prime divisors of the group order as an INPUT: Model.is_prim_root / Model.order are these
      functions applied to Model.prime_factors (MOD^deg F - 1) (ProofsM3.v, by reflexivity).  The implementation obtains that list from
      IntFactorDom<>::set (Pollard / Lenstra with a time-seeded generator); the model's trial division cannot reach q^n - 1 >= 2^31, so
      for the boundary fields the correspondence run feeds the model the factor list computed by the python oracle.
   2. Rep& Poly1FactorDom::factor(Rep& W, const Rep& P, Residu_t MOD) (givpoly1factor.inl), "one non-trivial factor of P if P is
      reducible, P otherwise", as repaired by frag/C09.fix-7 (instantiable; gcd(P',P) = P for a p-th power is not taken for a factor).
   No proofs in this file. *)
From Coq Require Import ZArith List Bool.
From C09 Require Import Model.
Import ListNotations.
Local Open Scope Z_scope.

Section Fp.
Variable p : Z.

Definition is_prim_root_L (P F : poly) (MOD : Z) (L : list Z) : bool :=
  let A := pmod p P F in
  if deg (pgcd p A F) =? 0 then
    let qp := MOD ^ (deg F) - 1 in
    all_not_one p A F qp L
  else false.

Definition order_L (P F : poly) (MOD : Z) (L : list Z) : Z :=
  let A := pmod p P F in
  if deg (pgcd p A F) =? 0 then
    let qp := MOD ^ (deg F) - 1 in
    match first_fail p A F qp L with
    | None => qp
    | Some [] => qp
    | Some (l0 :: L') =>
      fold_left (fun g l => lower p (Z.to_nat (Z.log2 (Z.abs g)) + 1) A F g l) (l0 :: L') (qp / l0)
    end
  else 0.

(* for dp = 1 .. dP/2: W = W^MOD mod P; G1 = gcd(W - X, P); if deg G1 > 0: G1 when it is a proper divisor, else SplitFactor(W,G1,dp) *)
Fixpoint factor1_loop (n : nat) (dp : Z) (W P : poly) (MOD : Z) (s : list Z) : option (poly * list Z) :=
  match n with
  | O => Some (P, s)
  | S n' => let W' := ppowmod p W MOD P in
            let G1 := pgcd p (psub p W' Xpoly) P in
            if deg G1 >? 0 then
              if deg G1 <? deg P then Some (G1, s)
              else split1 p (length s + 2 * length G1 + 4) G1 dp MOD s
            else factor1_loop n' (dp + 1) W' P MOD s
  end.
Definition factor1 (P : poly) (MOD : Z) (s : list Z) : option (poly * list Z) :=
  let W := pgcd p (pdiff p P) P in
  if (deg W >? 0) && (deg W <? deg P) then Some (W, s)
  else factor1_loop (Z.to_nat (deg P / 2)) 1 Xpoly P MOD s.

End Fp.
