(* C09 proofs, part 1: algebra of coefficient lists.
   Polynomial identities over Z are obtained through the evaluation map `ev` (a ring homomorphism that is injective on
   coefficient sequences); congruence modulo p is `eqp`.  *)
From Coq Require Import ZArith List Bool Lia Znumtheory.
From C09 Require Import Model.
Import ListNotations.
Local Open Scope Z_scope.
Ltac Zify.zify_post_hook ::= Z.div_mod_to_equations.

Fixpoint ev (a : poly) (x : Z) : Z := match a with [] => 0 | c :: r => c + x * ev r x end.

Lemma ev_paddZ a : forall b x, ev (paddZ a b) x = ev a x + ev b x.
Proof. induction a as [|c a IH]; intros [|d b] x; cbn [paddZ ev]; rewrite ?IH; lia. Qed.
Lemma ev_pscaleZ c a x : ev (pscaleZ c a) x = c * ev a x.
Proof. unfold pscaleZ. induction a as [|d a IH]; cbn [map ev]; [lia|]. rewrite IH. lia. Qed.
Lemma ev_pmulZ a : forall b x, ev (pmulZ a b) x = ev a x * ev b x.
Proof. induction a as [|c a IH]; intros b x; cbn [pmulZ ev]; [lia|]. rewrite ev_paddZ, ev_pscaleZ. cbn [ev]. rewrite IH. lia. Qed.
Lemma ev_repeat0 k x : ev (repeat 0 k) x = 0.
Proof. induction k; cbn [repeat ev]; lia. Qed.
Lemma ev_app a : forall b x, ev (a ++ b) x = ev a x + x ^ Z.of_nat (length a) * ev b x.
Proof. induction a as [|c a IH]; intros b x; cbn [app ev length]. { change (Z.of_nat 0) with 0. rewrite Z.pow_0_r. lia. }
  rewrite IH, Nat2Z.inj_succ, Z.pow_succ_r by lia. lia. Qed.
Lemma ev_pshift k a x : ev (pshift k a) x = x ^ Z.of_nat k * ev a x.
Proof. unfold pshift. rewrite ev_app, ev_repeat0, repeat_length. lia. Qed.
Lemma ev_norm a x : ev (norm a) x = ev a x.
Proof. induction a as [|c a IH]; cbn [norm ev]; [lia|]. destruct (norm a) eqn:E.
  - rewrite <- IH. cbn [ev]. destruct (Z.eqb_spec c 0); cbn [ev]; lia.
  - cbn [ev]. rewrite <- IH. cbn [ev]. lia. Qed.

(* ---- nth-level facts *)
Lemma nth_paddZ a : forall b i, nth i (paddZ a b) 0 = nth i a 0 + nth i b 0.
Proof. induction a as [|c a IH]; intros [|d b] [|i]; cbn [paddZ nth]; try lia; apply IH. Qed.
Lemma nth_pscaleZ c a : forall i, nth i (pscaleZ c a) 0 = c * nth i a 0.
Proof. unfold pscaleZ. induction a as [|d a IH]; intros [|i]; cbn [map nth]; try lia; apply IH. Qed.
Lemma length_paddZ a : forall b, length (paddZ a b) = Nat.max (length a) (length b).
Proof. induction a as [|c a IH]; intros [|d b]; cbn [paddZ length]; rewrite ?IH; lia. Qed.
Lemma length_pscaleZ c a : length (pscaleZ c a) = length a.
Proof. apply map_length. Qed.

(* ---- injectivity of ev on coefficient sequences *)
Lemma ev_zero_coeffs a : forall N, (forall x, N < x -> ev a x = 0) -> forall i, nth i a 0 = 0.
Proof. induction a as [|c a IH]; intros N H i. { destruct i; reflexivity. }
  assert (Ha : forall x, Z.max N (Z.abs c) < x -> ev a x = 0).
  { intros x Hx. specialize (H x ltac:(lia)). cbn [ev] in H. nia. }
  assert (Hc : c = 0).
  { specialize (H (Z.max N (Z.abs c) + 1) ltac:(lia)). cbn [ev] in H.
    rewrite (Ha (Z.max N (Z.abs c) + 1)) in H by lia. lia. }
  destruct i as [|i]; cbn [nth]; [exact Hc|]. exact (IH _ Ha i). Qed.

Lemma ev_inj a b : (forall x, ev a x = ev b x) -> forall i, nth i a 0 = nth i b 0.
Proof. intros H i.
  assert (E := ev_zero_coeffs (paddZ a (pscaleZ (-1) b)) 0).
  rewrite <- (Z.sub_0_r (nth i a 0)). rewrite <- (Z.add_0_r (nth i b 0)) at 1.
  specialize (E ltac:(intros x _; rewrite ev_paddZ, ev_pscaleZ, H; lia) i).
  rewrite nth_paddZ, nth_pscaleZ in E. lia. Qed.

(* ---- congruence modulo p *)
Section P.
Variable p : Z.
Hypothesis Hp : prime p.

Definition eqp (a b : poly) : Prop := exists k, forall x, ev a x = ev b x + p * ev k x.

Lemma eqp_refl a : eqp a a. Proof. exists []. intros; cbn [ev]; lia. Qed.
Lemma eqp_sym a b : eqp a b -> eqp b a.
Proof. intros [k H]. exists (pscaleZ (-1) k). intros x. rewrite ev_pscaleZ, H. lia. Qed.
Lemma eqp_trans a b c : eqp a b -> eqp b c -> eqp a c.
Proof. intros [k H] [l G]. exists (paddZ k l). intros x. rewrite ev_paddZ, H, G. lia. Qed.
Lemma eqp_ev a b : (forall x, ev a x = ev b x) -> eqp a b.
Proof. intros H. exists []. intros x. rewrite H. cbn [ev]. lia. Qed.
Lemma eqp_add a a' b b' : eqp a a' -> eqp b b' -> eqp (paddZ a b) (paddZ a' b').
Proof. intros [k H] [l G]. exists (paddZ k l). intros x. rewrite !ev_paddZ, H, G. lia. Qed.
Lemma eqp_scale c a a' : eqp a a' -> eqp (pscaleZ c a) (pscaleZ c a').
Proof. intros [k H]. exists (pscaleZ c k). intros x. rewrite !ev_pscaleZ, H. lia. Qed.
Lemma eqp_scale_c c c' a : c mod p = c' mod p -> eqp (pscaleZ c a) (pscaleZ c' a).
Proof. intros E. assert (p <> 0) by (destruct Hp; lia).
  exists (pscaleZ (c / p - c' / p) a). intros x. rewrite !ev_pscaleZ.
  rewrite (Z.div_mod c p), (Z.div_mod c' p) at 1 by assumption. rewrite E. lia. Qed.
Lemma eqp_mul a a' b b' : eqp a a' -> eqp b b' -> eqp (pmulZ a b) (pmulZ a' b').
Proof. intros [k H] [l G].
  exists (paddZ (pmulZ k b') (paddZ (pmulZ a' l) (pscaleZ p (pmulZ k l)))). intros x.
  rewrite !ev_paddZ, !ev_pscaleZ, !ev_pmulZ, H, G. lia. Qed.
Lemma eqp_shift k a a' : eqp a a' -> eqp (pshift k a) (pshift k a').
Proof. intros [l H]. exists (pshift k l). intros x. rewrite !ev_pshift, H. lia. Qed.

Lemma eqp_map_mod a : eqp (map (fun x => x mod p) a) a.
Proof. assert (p <> 0) by (destruct Hp; lia).
  exists (map (fun c => - (c / p)) a). intros x. induction a as [|c a IH]; cbn [map ev]; [lia|].
  rewrite IH. pose proof (Z.div_mod c p ltac:(assumption)). lia. Qed.
Lemma eqp_red a : eqp (red p a) a.
Proof. unfold red. eapply eqp_trans; [|apply eqp_map_mod]. apply eqp_ev. intros; apply ev_norm. Qed.
Lemma eqp_norm a : eqp (norm a) a.
Proof. apply eqp_ev. intros; apply ev_norm. Qed.

Lemma eqp_coeff a b : eqp a b -> forall i, (nth i a 0) mod p = (nth i b 0) mod p.
Proof. intros [k H] i.
  assert (E := ev_inj a (paddZ b (pscaleZ p k)) ltac:(intros x; rewrite ev_paddZ, ev_pscaleZ; apply H) i).
  rewrite nth_paddZ, nth_pscaleZ in E. rewrite E. rewrite (Z.mul_comm p). apply Z.mod_add. destruct Hp; lia. Qed.

Lemma coeff_eqp a : forall b, (forall i, (nth i a 0) mod p = (nth i b 0) mod p) -> eqp a b.
Proof. intros b H. eapply eqp_trans; [apply eqp_sym, eqp_map_mod|]. eapply eqp_trans; [|apply eqp_map_mod].
  apply eqp_ev. revert b H. induction a as [|c a IH]; intros b H.
  - induction b as [|d b IHb]; intros x; cbn [map ev]; [lia|].
    assert (d mod p = 0) by (specialize (H O); cbn [nth] in H; rewrite Z.mod_0_l in H by (destruct Hp; lia); lia).
    rewrite <- IHb. { cbn [map ev]. lia. } intros i. specialize (H (S i)). cbn [nth] in H. destruct i; cbn [nth]; exact H.
  - destruct b as [|d b]; intros x; cbn [map ev].
    + assert (c mod p = 0) by (specialize (H O); cbn [nth] in H; rewrite Z.mod_0_l in H by (destruct Hp; lia); lia).
      rewrite (IH [] ltac:(intros i; specialize (H (S i)); cbn [nth] in H; destruct i; cbn [nth]; exact H)). cbn [map ev]. lia.
    + rewrite (IH b ltac:(intros i; exact (H (S i)))). specialize (H O). cbn [nth] in H. lia. Qed.

(* ---- canonical forms *)
Definition canon (a : poly) : Prop := Forall (fun c => 0 <= c < p) a /\ last a 1 <> 0.

Lemma canon_nil : canon []. Proof. split; [constructor|cbn; lia]. Qed.

Lemma norm_last a : last (norm a) 1 <> 0.
Proof. induction a as [|c a IH]; cbn [norm]. { cbn; lia. }
  destruct (norm a) as [|d r] eqn:E.
  - destruct (Z.eqb_spec c 0); cbn; lia.
  - change (last (c :: d :: r) 1) with (last (d :: r) 1). exact IH. Qed.
Lemma norm_Forall (Q : Z -> Prop) a : Forall Q a -> Forall Q (norm a).
Proof. induction 1 as [|c a Hc Ha IH]; cbn [norm]; [constructor|].
  destruct (norm a); [destruct (c =? 0)|]; repeat constructor; auto; inversion IH; auto. Qed.
Lemma canon_red a : canon (red p a).
Proof. split; [|apply norm_last]. apply norm_Forall. apply Forall_forall. intros c Hc.
  apply in_map_iff in Hc. destruct Hc as [d [<- _]]. apply Z.mod_pos_bound. destruct Hp; lia. Qed.
Lemma length_norm a : (length (norm a) <= length a)%nat.
Proof. induction a as [|c a IH]; cbn [norm length]; [lia|]. destruct (norm a); [destruct (c =? 0)|]; cbn [length] in *; lia. Qed.
Lemma norm_id a : last a 1 <> 0 -> norm a = a.
Proof. induction a as [|c a IH]; intros H; cbn [norm]; [reflexivity|].
  destruct a as [|d r]. { cbn [norm]. cbn in H. destruct (Z.eqb_spec c 0); [lia|reflexivity]. }
  rewrite IH by exact H. reflexivity. Qed.
Lemma canon_red_id a : canon a -> red p a = a.
Proof. intros [H1 H2]. unfold red. rewrite (map_ext_in (fun x => x mod p) (fun x => x) a).
  - rewrite map_id. apply norm_id; assumption.
  - intros c Hc. rewrite Forall_forall in H1. apply Z.mod_small. auto. Qed.

Lemma nth_last (a : poly) d : a <> [] -> nth (length a - 1) a d = last a d.
Proof. induction a as [|c a IH]; intros H; [congruence|]. destruct a as [|e r]; [reflexivity|].
  change (last (c :: e :: r) d) with (last (e :: r) d). rewrite <- IH by congruence.
  cbn [length]. replace (S (S (length r)) - 1)%nat with (S (S (length r) - 1)) by lia. reflexivity. Qed.
Lemma last_default (a : poly) d d' : a <> [] -> last a d = last a d'.
Proof. induction a as [|c a IH]; intros H; [congruence|]. destruct a; [reflexivity|]. apply IH. congruence. Qed.

Lemma canon_lc a : canon a -> a <> [] -> 0 < lc a < p.
Proof. intros [H1 H2] Ha. unfold lc. rewrite (last_default a 0 1 Ha).
  assert (In (last a 1) a) by (rewrite <- nth_last by assumption; apply nth_In; destruct a; [congruence|cbn [length]; lia]).
  rewrite Forall_forall in H1. specialize (H1 _ H). lia. Qed.

(* two canonical lists congruent modulo p are equal *)
Lemma canon_unique a : forall b, canon a -> canon b -> eqp a b -> a = b.
Proof. intros b Ha Hb H. pose proof (eqp_coeff _ _ H) as E.
  assert (En : forall i, nth i a 0 = nth i b 0).
  { intros i. specialize (E i). destruct Ha as [Fa _], Hb as [Fb _]. rewrite Forall_forall in Fa, Fb.
    destruct (Nat.lt_ge_cases i (length a)); destruct (Nat.lt_ge_cases i (length b)).
    - rewrite !Z.mod_small in E; auto using nth_In.
    - rewrite (nth_overflow b) in * by lia. rewrite Z.mod_small in E by auto using nth_In. rewrite Z.mod_0_l in E by (destruct Hp; lia). lia.
    - rewrite (nth_overflow a) in * by lia. rewrite (Z.mod_small (nth i b 0)) in E by auto using nth_In. rewrite Z.mod_0_l in E by (destruct Hp; lia). lia.
    - rewrite !nth_overflow by lia. reflexivity. }
  assert (L : forall a b, canon a -> (forall i, nth i a 0 = nth i b 0) -> (length a <= length b)%nat).
  { clear. intros a b Ha En. destruct (Nat.le_gt_cases (length a) (length b)); [assumption|exfalso].
    assert (a <> []) by (destruct a; [cbn in *; lia|congruence]).
    pose proof (nth_last a 1 H0). destruct Ha as [_ Hl]. specialize (En (length a - 1)%nat).
    rewrite (nth_overflow b) in En by lia. rewrite (nth_indep a 0 1) in En by (destruct a; [congruence|cbn [length]; lia]). congruence. }
  assert (length a = length b) by (apply Nat.le_antisymm; [apply L|apply L]; auto).
  apply (nth_ext a b 0 0); auto. Qed.

Lemma canon_eqp_nil a : canon a -> eqp a [] -> a = [].
Proof. intros. apply canon_unique; auto using canon_nil. Qed.

(* ---- length and top coefficient of a product *)
Lemma length_pmulZ a : forall b, a <> [] -> b <> [] -> length (pmulZ a b) = (length a + length b - 1)%nat.
Proof. induction a as [|c a IH]; intros b Ha Hb; [congruence|]. cbn [pmulZ]. rewrite length_paddZ, length_pscaleZ. cbn [length].
  destruct a as [|d r]. { cbn [pmulZ length]. destruct b; [congruence|cbn [length]; lia]. }
  rewrite IH by congruence. cbn [length]. destruct b; [congruence|cbn [length]; lia]. Qed.

Lemma top_pmulZ a : forall b, a <> [] -> b <> [] -> nth (length a + length b - 2) (pmulZ a b) 0 = last a 0 * last b 0.
Proof. induction a as [|c a IH]; intros b Ha Hb; [congruence|]. cbn [pmulZ]. rewrite nth_paddZ, nth_pscaleZ.
  destruct a as [|d r].
  - cbn [length pmulZ]. replace (1 + length b - 2)%nat with (length b - 1)%nat by lia. rewrite nth_last by assumption.
    cbn [last]. destruct (length b - 1)%nat as [|[|n]]; cbn [nth]; lia.
  - change (last (c :: d :: r) 0) with (last (d :: r) 0). rewrite <- IH by congruence. cbn [length].
    assert (length b <> 0)%nat by (destruct b; [congruence|cbn [length]; lia]).
    replace (S (S (length r)) + length b - 2)%nat with (S (S (length r) + length b - 2)) by lia. cbn [nth].
    rewrite nth_overflow by lia. lia. Qed.

Lemma prime_no_zero_div x y : 0 < x < p -> 0 < y < p -> (x * y) mod p <> 0.
Proof. intros Hx Hy E. apply Z.mod_divide in E; [|destruct Hp; lia].
  apply prime_mult in E; [|assumption]. destruct E as [E|E]; apply Z.divide_pos_le in E; lia. Qed.

(* a canonical product a*b with a, b <> 0 is congruent to no list shorter than |a|+|b|-1 *)
Lemma mul_not_short a b r : canon a -> canon b -> a <> [] -> b <> [] -> eqp (pmulZ a b) r ->
  (length a + length b - 1 <= length r)%nat.
Proof. intros Ca Cb Ha Hb E. destruct (Nat.le_gt_cases (length a + length b - 1) (length r)); [assumption|exfalso].
  pose proof (eqp_coeff _ _ E (length a + length b - 2)%nat) as C. rewrite top_pmulZ in C by assumption.
  rewrite (nth_overflow r) in C by lia. rewrite Z.mod_0_l in C by (destruct Hp; lia).
  apply (prime_no_zero_div (lc a) (lc b)); auto using canon_lc. Qed.

Lemma length_red_le a : (length (red p a) <= length a)%nat.
Proof. unfold red. etransitivity; [apply length_norm|]. rewrite map_length. lia. Qed.

(* if the top coefficient vanishes modulo p, reduction shortens *)
Lemma norm_shorter a : a <> [] -> last a 1 = 0 -> (length (norm a) < length a)%nat.
Proof. induction a as [|c a IH]; intros Ha Hl; [congruence|]. cbn [norm]. destruct a as [|d r].
  - cbn in Hl. subst. cbn. lia.
  - change (last (c :: d :: r) 1) with (last (d :: r) 1) in Hl. specialize (IH ltac:(congruence) Hl).
    destruct (norm (d :: r)); [destruct (c =? 0)|]; cbn [length] in *; lia. Qed.
Lemma last_map (f : Z -> Z) (a : poly) d d' : a <> [] -> last (map f a) d = f (last a d').
Proof. induction a as [|c a IH]; intros H; [congruence|]. destruct a as [|e r]; [reflexivity|].
  change (last (map f (c :: e :: r)) d) with (last (map f (e :: r)) d). rewrite IH by congruence. reflexivity. Qed.
Lemma red_shorter a : a <> [] -> (last a 0) mod p = 0 -> (length (red p a) < length a)%nat.
Proof. intros Ha Hl. unfold red. rewrite <- (map_length (fun x => x mod p) a). apply norm_shorter.
  - destruct a; [congruence|cbn; congruence].
  - rewrite (last_map _ a 1 0) by assumption. assumption. Qed.

End P.
