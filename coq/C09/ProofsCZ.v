(* C09 proofs, part 6: CZfactor's multiplicity bookkeeping.  For every stream of random choices, the factors returned with
   the multiplicities returned multiply, up to a constant, to prod_j g_j^j where g_1, g_2, ... is what sqrfree delivered. *)
From Coq Require Import ZArith List Bool Lia Znumtheory.
From C09 Require Import Model ProofsAlg ProofsDiv ProofsSplit.
Import ListNotations.
Local Open Scope Z_scope.

Fixpoint pwr (a : poly) (n : nat) : poly := match n with O => [1] | S n' => pmulZ a (pwr a n') end.
(* prod_i Lf_i ^ Le_i *)
Definition wprod (Lf : list poly) (Le : list Z) : poly :=
  fold_right (fun fe acc => pmulZ (pwr (fst fe) (Z.to_nat (snd fe))) acc) [1] (combine Lf Le).
(* prod_j g_j ^ (i + 1 + j),  j = 0, 1, ... *)
Fixpoint gprod (g : list poly) (i : Z) : poly :=
  match g with [] => [1] | gi :: g' => pmulZ (pwr gi (Z.to_nat (i + 1))) (gprod g' (i + 1)) end.

Lemma ev_pwr a n x : ev (pwr a n) x = ev a x ^ Z.of_nat n.
Proof. induction n as [|n IH]; cbn [pwr]. { cbn [ev]. change (Z.of_nat 0) with 0. rewrite Z.pow_0_r. lia. } rewrite ev_pmulZ, IH, Nat2Z.inj_succ, Z.pow_succ_r by lia. ring. Qed.

Lemma ev_wprod_app A : forall EA B EB x, length A = length EA ->
  ev (wprod (A ++ B) (EA ++ EB)) x = ev (wprod A EA) x * ev (wprod B EB) x.
Proof. unfold wprod. induction A as [|a A IH]; intros [|e EA] B EB x H; try discriminate.
  - cbn [app combine fold_right ev]. ring.
  - cbn [app combine fold_right]. rewrite !ev_pmulZ. rewrite IH by (cbn in H; lia). ring. Qed.

Lemma ev_wprod_repeat N e x : ev (wprod N (repeat e (length N))) x = ev (prodl N) x ^ Z.of_nat (Z.to_nat e).
Proof. unfold wprod, prodl. induction N as [|a N IH]; cbn [length repeat combine fold_right].
  - cbn [ev]. rewrite Z.mul_0_r, Z.add_0_r. symmetry. apply Z.pow_1_l. lia.
  - rewrite !ev_pmulZ, IH, ev_pwr. cbn [fst snd]. rewrite Z.pow_mul_l. reflexivity. Qed.

Lemma len1_mul (a b : poly) : (length a <= 1)%nat -> (length b <= 1)%nat -> (length (pmulZ a b) <= 1)%nat.
Proof. intros Ha Hb. destruct a as [|x [|y a]]; cbn [length] in Ha; try lia; cbn [pmulZ].
  - cbn. lia.
  - rewrite length_paddZ, length_pscaleZ. cbn [length]. lia. Qed.
Lemma len1_pwr (a : poly) n : (length a <= 1)%nat -> (length (pwr a n) <= 1)%nat.
Proof. intros H. induction n; cbn [pwr]; [cbn; lia|]. apply len1_mul; assumption. Qed.

Section P.
Variable p : Z.
Hypothesis Hp : prime p.
Let p_gt_1 : 1 < p. Proof. destruct Hp; assumption. Qed.
Notation eqp := (eqp p).
Notation canon := (canon p).

Lemma eqp_pwr a b n : eqp a b -> eqp (pwr a n) (pwr b n).
Proof. intros H. induction n; cbn [pwr]; [apply eqp_refl|]. apply eqp_mul; assumption. Qed.

(* ---- results of the arithmetic layer are canonical, whatever the operands *)
Lemma divmod_loop_canon b : forall fuel q r, canon q -> canon r ->
  canon (fst (divmod_loop p fuel q r b)) /\ canon (snd (divmod_loop p fuel q r b)).
Proof. induction fuel as [|f IH]; intros q r Cq Cr; cbn [divmod_loop]; [auto|].
  destruct (length r <? length b)%nat; [auto|]. apply IH; apply canon_red; assumption. Qed.
Lemma pdiv_canon a b : canon a -> canon (pdiv p a b).
Proof. intros. apply divmod_loop_canon; auto using canon_nil. Qed.
Lemma pmod_canon a b : canon a -> canon (pmod p a b).
Proof. intros. apply divmod_loop_canon; auto using canon_nil. Qed.
Lemma gcd_loop_canon : forall fuel u g, canon u -> canon g -> canon (gcd_loop p fuel u g).
Proof. induction fuel as [|f IH]; intros u g Cu Cg; cbn [gcd_loop]; [assumption|].
  pose proof (pmod_canon u g Cu) as Cr. destruct (pmod p u g); [assumption|]. apply IH; assumption. Qed.
Lemma canon_pone : canon pone. Proof. split; [repeat constructor; lia|cbn; lia]. Qed.
Lemma pgcd_canon P Q : canon P -> canon Q -> canon (pgcd p P Q).
Proof. intros CP CQ. unfold pgcd. destruct ((deg P <? 0) || (deg Q =? 0)); [assumption|].
  destruct ((deg Q <? 0) || (deg P =? 0)); [assumption|].
  match goal with |- canon (if deg ?G <=? 0 then _ else _) => assert (canon G) by (destruct (deg P >=? deg Q); apply gcd_loop_canon; assumption);
    destruct (deg G <=? 0); [apply canon_pone|assumption] end. Qed.

Lemma sqr_loop_canon : forall rem W Y Zp acc, canon W -> canon Zp -> Forall canon acc ->
  Forall canon (snd (fst (sqr_loop p rem W Y Zp acc))) /\ canon (snd (sqr_loop p rem W Y Zp acc)).
Proof. induction rem as [|rem IH]; intros W Y Zp acc CW CZ Ca.
  - destruct Zp; cbn [sqr_loop fst snd]; [auto|]. split; [apply Forall_app; split; [assumption|]|].
    + constructor; [apply pgcd_canon; assumption|constructor].
    + apply pdiv_canon; assumption.
  - destruct Zp as [|z Zp]; [cbn [sqr_loop fst snd]; auto|].
    cbn [sqr_loop]. cbv zeta. set (F := pgcd p W (z :: Zp)).
    assert (CF : canon F) by (apply pgcd_canon; assumption).
    assert (Ca' : Forall canon (acc ++ [F])) by (apply Forall_app; split; [assumption|constructor; [assumption|constructor]]).
    destruct rem as [|rem'].
    + cbn [fst snd]. split; [assumption|apply pdiv_canon; assumption].
    + apply IH; [apply pdiv_canon; assumption|apply canon_red; assumption|assumption]. Qed.

Lemma sqrfree_canon Nfact P : Forall canon (snd (sqrfree p Nfact P)).
Proof. unfold sqrfree. destruct (Nfact =? 0); [constructor|]. cbv zeta.
  set (A := pscale p (inv p (lc P)) P). assert (CA : canon A) by (apply canon_red; assumption).
  set (D := pgcd p A (pdiff p A)).
  destruct (list_eq_dec Z.eq_dec (pscale p (inv p (lc D)) D) pone); [cbn [snd]; constructor; [assumption|constructor]|].
  match goal with |- context [sqr_loop p ?r ?W ?Y ?Z0 ?a] =>
    pose proof (sqr_loop_canon r W Y Z0 a ltac:(apply pdiv_canon; assumption) ltac:(apply canon_red; assumption) ltac:(constructor)) as H;
    destruct (sqr_loop p r W Y Z0 a) as [[b acc] W'] end.
  cbn [fst snd] in H. destruct H as [H1 H2]. destruct b; cbn [snd]; [assumption|].
  apply Forall_app. split; [assumption|constructor; [assumption|constructor]]. Qed.

Lemma Forall_firstn' (Q : poly -> Prop) n : forall l, Forall Q l -> Forall Q (firstn n l).
Proof. induction n as [|n IH]; intros l H; cbn [firstn]; [constructor|]. destruct H; constructor; auto. Qed.

(* ---- the loop over the square-free parts *)
Theorem cz_loop_spec : forall g i MOD Lf Le s Lf' Le' s', 0 <= i -> Forall canon g ->
  cz_loop p g i MOD Lf Le s = Some (Lf', Le', s') ->
  exists Nf Ne U, Lf' = Lf ++ Nf /\ Le' = Le ++ Ne /\ length Nf = length Ne /\ Forall canon Nf /\
    Forall (fun e => i < e) Ne /\ deg U <= 0 /\ eqp (pmulZ (wprod Nf Ne) U) (gprod g i).
Proof. induction g as [|gi g IH]; intros i MOD Lf Le s Lf' Le' s' Hi Cg H; cbn [cz_loop] in H.
  - inversion H; subst. exists [], [], [1]. rewrite !app_nil_r. repeat split; auto. { cbn. lia. } apply eqp_refl.
  - inversion Cg as [|? ? Cgi Cg']; subst.
    destruct (ddf p gi MOD Lf s) as [[Lf1 s1]|] eqn:ED; [|discriminate].
    destruct (ddf_spec p Hp gi MOD Lf s Lf1 s1 Cgi ED) as [N [u [E1 [P1 [Du F1]]]]].
    assert (EL : (length Lf1 - length Lf)%nat = length N) by (subst Lf1; rewrite app_length; lia).
    rewrite EL in H.
    destruct (IH (i + 1) MOD Lf1 _ s1 Lf' Le' s' ltac:(lia) Cg' H) as [Nf2 [Ne2 [U2 [E2 [E3 [L2 [F2 [G2 [DU2 P2]]]]]]]]].
    exists (N ++ Nf2), (repeat (i + 1) (length N) ++ Ne2), (pmulZ (pwr u (Z.to_nat (i + 1))) U2).
    split; [subst; rewrite app_assoc; reflexivity|]. split; [subst; rewrite app_assoc; reflexivity|].
    split; [rewrite !app_length, repeat_length; lia|]. split; [apply Forall_app; auto|].
    split. { apply Forall_app. split. - apply Forall_forall. intros e He. apply repeat_spec in He. lia.
             - eapply Forall_impl; [|exact G2]. cbn. intros; lia. }
    split. { unfold deg in *. pose proof (len1_mul (pwr u (Z.to_nat (i + 1))) U2 ltac:(apply len1_pwr; lia) ltac:(lia)). lia. }
    cbn [gprod].
    eapply eqp_trans; [|apply eqp_mul; [apply (eqp_pwr _ _ (Z.to_nat (i + 1)) P1)|exact P2]].
    apply eqp_ev. intros x. rewrite !ev_pmulZ, ev_wprod_app by (rewrite repeat_length; reflexivity).
    rewrite ev_wprod_repeat. repeat (rewrite ?ev_pwr, ?ev_pmulZ). rewrite ?Z.pow_mul_l. ring. Qed.

(* CZfactor: the returned factors with the returned multiplicities give, up to a constant, prod_j g_j^j *)
Theorem czfactor_spec P MOD s Lf Le s' : czfactor p P MOD s = Some (Lf, Le, s') ->
  let nb := fst (sqrfree p (deg P + 1) P) in let g := snd (sqrfree p (deg P + 1) P) in
  exists U, length Lf = length Le /\ Forall canon Lf /\ Forall (fun e => 1 <= e) Le /\ deg U <= 0 /\
    eqp (pmulZ (wprod Lf Le) U) (gprod (firstn (Z.to_nat nb) g) 0).
Proof. unfold czfactor. pose proof (sqrfree_canon (deg P + 1) P) as Cg.
  destruct (sqrfree p (deg P + 1) P) as [nb g]. cbn [fst snd] in *. intros H.
  destruct (cz_loop_spec _ 0 MOD [] [] s Lf Le s' ltac:(lia) (Forall_firstn' _ _ _ Cg) H) as [Nf [Ne [U [E1 [E2 [L [F [G [DU PP]]]]]]]]].
  cbn [app] in E1, E2. subst. exists U. repeat split; auto. eapply Forall_impl; [|exact G]. cbn. intros; lia. Qed.

End P.
