(* C09 proofs, part 2: inverse modulo p, division with remainder, uniqueness of the remainder, Euclid's gcd divides. *)
From Coq Require Import ZArith List Bool Lia Znumtheory.
From C09 Require Import Model ProofsAlg.
Import ListNotations.
Local Open Scope Z_scope.

Section P.
Variable p : Z.
Hypothesis Hp : prime p.
Let p_gt_1 : 1 < p. Proof. destruct Hp; assumption. Qed.

Notation eqp := (eqp p).
Notation canon := (canon p).
Ltac split4 := split; [|split; [|split]].

(* ---- inverse *)
Lemma egcd_spec a : forall fuel r0 r1 s0 s1, 0 <= r0 -> 0 <= r1 -> (Z.to_nat r1 < fuel)%nat ->
  (p | r0 - s0 * a) -> (p | r1 - s1 * a) ->
  fst (egcd fuel r0 r1 s0 s1) = Z.gcd r0 r1 /\ (p | fst (egcd fuel r0 r1 s0 s1) - snd (egcd fuel r0 r1 s0 s1) * a).
Proof. induction fuel as [|f IH]; intros r0 r1 s0 s1 H0 H1 Hf D0 D1; [lia|]. cbn [egcd].
  destruct (Z.eqb_spec r1 0) as [E|E].
  - subst. cbn [fst snd]. rewrite Z.gcd_0_r, Z.abs_eq by lia. auto.
  - assert (0 <= r0 mod r1 < r1) by (apply Z.mod_pos_bound; lia).
    destruct (IH r1 (r0 mod r1) s1 (s0 - r0 / r1 * s1)) as [G1 G2]; try lia; auto.
    + destruct D0 as [x Hx], D1 as [y Hy]. exists (x - r0 / r1 * y).
      rewrite Z.mod_eq by lia. nia.
    + split; [|exact G2]. rewrite G1. rewrite Z.gcd_comm. rewrite Z.gcd_mod by lia. apply Z.gcd_comm. Qed.

Lemma inv_spec a : a mod p <> 0 -> (a * inv p a) mod p = 1.
Proof. intros Ha. unfold inv.
  assert (B : 0 <= a mod p < p) by (apply Z.mod_pos_bound; lia).
  destruct (egcd_spec a (S (Z.to_nat p)) p (a mod p) 0 1) as [G1 G2]; try lia.
  - exists 1. lia.
  - exists (- (a / p)). rewrite Z.mod_eq by lia. lia.
  - set (g := fst _) in *. set (s := snd _) in *.
    assert (g = 1).
    { rewrite G1. apply Zgcd_1_rel_prime. apply rel_prime_sym. apply rel_prime_le_prime; [assumption|lia]. }
    subst g. rewrite H in G2. destruct G2 as [x Hx].
    rewrite Z.mul_mod_idemp_r by lia. replace (a * s) with (1 + (-x) * p) by lia.
    rewrite Z.mod_add by lia. apply Z.mod_small. lia. Qed.

(* ---- one step of long division cancels the leading coefficient *)
Lemma nth_pshift k (a : poly) i : nth (k + i) (pshift k a) 0 = nth i a 0.
Proof. unfold pshift. rewrite app_nth2; rewrite repeat_length; [|lia]. f_equal. lia. Qed.
Lemma length_pshift k (a : poly) : length (pshift k a) = (k + length a)%nat.
Proof. unfold pshift. rewrite app_length, repeat_length. reflexivity. Qed.

Lemma lc_nth (a : poly) : a <> [] -> lc a = nth (length a - 1) a 0.
Proof. intros. unfold lc. symmetry. apply nth_last. assumption. Qed.

Lemma step_shorter r b : canon r -> canon b -> b <> [] -> (length b <= length r)%nat ->
  let k := (length r - length b)%nat in
  let c := (lc r * inv p (lc b)) mod p in
  (length (psub p r (pshift k (pscaleZ c b))) < length r)%nat.
Proof. intros Cr Cb Hb Hl k c. unfold psub.
  assert (Hr : r <> []) by (destruct r; [destruct b; [congruence|cbn [length] in Hl; lia]|congruence]).
  set (m := paddZ r (pscaleZ (-1) (pshift k (pscaleZ c b)))).
  assert (Lm : length m = length r).
  { unfold m. rewrite length_paddZ, length_pscaleZ, length_pshift, length_pscaleZ. unfold k. lia. }
  rewrite <- Lm. apply red_shorter.
  - intro E. rewrite E in Lm. destruct r; [congruence|cbn in Lm; lia].
  - assert (Hm : m <> []) by (intro E; rewrite E in Lm; destruct r; [congruence|cbn in Lm; lia]).
    rewrite <- (nth_last m 0 Hm). rewrite Lm. unfold m. rewrite nth_paddZ, nth_pscaleZ.
    replace (length r - 1)%nat with (k + (length b - 1))%nat at 2 by (unfold k; destruct b; [congruence|cbn [length] in *; lia]).
    rewrite nth_pshift, nth_pscaleZ. rewrite <- !lc_nth by assumption.
    pose proof (canon_lc p b Cb Hb) as Lb.
    pose proof (inv_spec (lc b) ltac:(rewrite Z.mod_small by lia; lia)) as I.
    unfold c. apply Z.mod_divide; [lia|].
    set (i := inv p (lc b)) in *.
    pose proof (Z.div_mod (lc r * i) p ltac:(lia)) as E1. pose proof (Z.div_mod (lc b * i) p ltac:(lia)) as E2.
    rewrite I in E2. exists ((lc r * i / p) * lc b - lc r * (lc b * i / p)).
    set (A := lc r * i / p) in *. set (M := (lc r * i) mod p) in *. set (B := lc b * i / p) in *.
    assert (EM : M = lc r * i - p * A) by lia. rewrite EM.
    assert (E3 : lc r * i * lc b = lc r * (p * B + 1)) by (rewrite <- E2; ring).
    ring_simplify. ring_simplify in E3. lia. Qed.

(* ---- division with remainder *)
Lemma divmod_loop_spec a b : canon b -> b <> [] -> forall fuel q r, canon q -> canon r -> (length r <= fuel)%nat ->
  eqp a (paddZ (pmulZ b q) r) ->
  eqp a (paddZ (pmulZ b (fst (divmod_loop p fuel q r b))) (snd (divmod_loop p fuel q r b))) /\
  canon (fst (divmod_loop p fuel q r b)) /\ canon (snd (divmod_loop p fuel q r b)) /\
  (length (snd (divmod_loop p fuel q r b)) < length b)%nat.
Proof. intros Cb Hb. induction fuel as [|f IH]; intros q r Cq Cr Hl E; cbn [divmod_loop].
  - cbn [fst snd]. split4; auto. destruct b; [congruence|cbn [length] in *; lia].
  - destruct (Nat.ltb_spec (length r) (length b)) as [L|L]; [cbn [fst snd]; auto|].
    set (k := (length r - length b)%nat). set (c := (lc r * inv p (lc b)) mod p).
    apply IH.
    + apply canon_red; assumption.
    + apply canon_red; assumption.
    + pose proof (step_shorter r b Cr Cb Hb L). cbv zeta in H. fold k c in H. lia.
    + eapply eqp_trans; [exact E|]. apply eqp_sym.
      eapply eqp_trans.
      { apply eqp_add; [apply eqp_mul; [apply eqp_refl|apply eqp_red; assumption]|apply eqp_red; assumption]. }
      apply eqp_ev. intros x. rewrite !ev_paddZ, !ev_pmulZ, !ev_paddZ, !ev_pscaleZ, !ev_pshift, ev_pscaleZ. cbn [ev]. ring. Qed.

Lemma pdivmod_spec a b : canon a -> canon b -> b <> [] ->
  eqp a (paddZ (pmulZ b (pdiv p a b)) (pmod p a b)) /\ canon (pdiv p a b) /\ canon (pmod p a b) /\
  (length (pmod p a b) < length b)%nat.
Proof. intros Ca Cb Hb. unfold pdiv, pmod, pdivmod. apply divmod_loop_spec; auto using canon_nil.
  apply eqp_ev. intros x. rewrite ev_paddZ, ev_pmulZ. cbn [ev]. ring. Qed.

(* ---- divisibility *)
Definition divides (d g : poly) : Prop := exists q, eqp (pmulZ d q) g.

Lemma divides_refl d : divides d d.
Proof. exists [1]. apply eqp_ev. intros x. rewrite ev_pmulZ. cbn [ev]. ring. Qed.
Lemma divides_nil d : divides d [].
Proof. exists []. apply eqp_ev. intros x. rewrite ev_pmulZ. cbn [ev]. ring. Qed.
Lemma divides_eqp d g g' : divides d g -> eqp g g' -> divides d g'.
Proof. intros [q H] E. exists q. eapply eqp_trans; eassumption. Qed.
Lemma divides_lin d u v a b : divides d u -> divides d v -> divides d (paddZ (pmulZ u a) (pmulZ v b)).
Proof. intros [q H] [q' H']. exists (paddZ (pmulZ q a) (pmulZ q' b)).
  eapply eqp_trans; [|apply eqp_add; [apply eqp_mul; [exact H|apply eqp_refl]|apply eqp_mul; [exact H'|apply eqp_refl]]].
  apply eqp_ev. intros x. rewrite !ev_pmulZ, !ev_paddZ, !ev_pmulZ. ring. Qed.

(* the remainder of a multiple is zero *)
Lemma mod_zero_of_divides P D : canon P -> canon D -> D <> [] -> divides D P -> pmod p P D = [].
Proof. intros CP CD HD [Q' H]. destruct (pdivmod_spec P D CP CD HD) as [E [CQ [CR L]]].
  set (Q := pdiv p P D) in *. set (R := pmod p P D) in *.
  set (e := red p (paddZ Q' (pscaleZ (-1) Q))).
  assert (He : eqp (pmulZ D e) R).
  { eapply eqp_trans; [apply eqp_mul; [apply eqp_refl|apply eqp_red; assumption]|].
    eapply eqp_trans with (paddZ (paddZ (pmulZ D Q) R) (pscaleZ (-1) (pmulZ D Q))).
    - eapply eqp_trans with (paddZ (pmulZ D Q') (pscaleZ (-1) (pmulZ D Q))).
      + apply eqp_ev. intros x. rewrite !ev_pmulZ, !ev_paddZ, !ev_pscaleZ, !ev_pmulZ. ring.
      + apply eqp_add; [|apply eqp_refl]. eapply eqp_trans; eassumption.
    - apply eqp_ev. intros x. rewrite !ev_paddZ, !ev_pscaleZ, !ev_pmulZ. ring. }
  destruct e as [|e0 e'] eqn:Ee.
  - apply (canon_eqp_nil p Hp); auto. apply eqp_sym. eapply eqp_trans; [|exact He]. apply eqp_ev. intros x. rewrite ev_pmulZ. cbn [ev]. ring.
  - exfalso. assert (Ce : canon (e0 :: e')) by (rewrite <- Ee; apply canon_red; assumption).
    pose proof (mul_not_short p Hp D (e0 :: e') R CD Ce HD ltac:(congruence) He). cbn [length] in *. lia. Qed.

Lemma div_exact G D : canon G -> canon D -> D <> [] -> divides D G -> eqp (pmulZ D (pdiv p G D)) G /\ canon (pdiv p G D).
Proof. intros CG CD HD Hd. destruct (pdivmod_spec G D CG CD HD) as [E [CQ _]]. split; [|assumption].
  rewrite (mod_zero_of_divides G D CG CD HD Hd) in E. apply eqp_sym. eapply eqp_trans; [exact E|].
  apply eqp_ev. intros x. rewrite ev_paddZ. cbn [ev]. ring. Qed.

(* ---- Euclid *)
Lemma gcd_loop_spec : forall fuel u g, canon u -> canon g -> g <> [] -> (length g <= fuel)%nat ->
  divides (gcd_loop p fuel u g) u /\ divides (gcd_loop p fuel u g) g /\ canon (gcd_loop p fuel u g) /\ gcd_loop p fuel u g <> [].
Proof. induction fuel as [|f IH]; intros u g Cu Cg Hg Hl. { destruct g; [congruence|cbn [length] in Hl; lia]. }
  cbn [gcd_loop]. destruct (pdivmod_spec u g Cu Cg Hg) as [E [CQ [CR L]]].
  destruct (pmod p u g) as [|r0 r'] eqn:ER.
  - split4; auto using divides_refl. exists (pdiv p u g). apply eqp_sym. eapply eqp_trans; [exact E|].
    apply eqp_ev. intros x. rewrite ev_paddZ. cbn [ev]. ring.
  - destruct (IH g (r0 :: r') Cg CR ltac:(congruence) ltac:(lia)) as [D1 [D2 [C N]]]. split4; auto.
    eapply divides_eqp; [|apply eqp_sym; exact E].
    eapply divides_eqp; [apply (divides_lin _ g (r0 :: r') (pdiv p u g) [1] D1 D2)|].
    apply eqp_ev. intros x. rewrite !ev_paddZ, !ev_pmulZ. cbn [ev]. ring. Qed.

Lemma deg_pos_nonnil (a : poly) : 0 < deg a -> a <> [].
Proof. unfold deg. destruct a; cbn [length]; [lia|congruence]. Qed.

Lemma pgcd_spec P Q : canon P -> canon Q -> 0 < deg (pgcd p P Q) ->
  divides (pgcd p P Q) P /\ divides (pgcd p P Q) Q /\ canon (pgcd p P Q).
Proof. intros CP CQ. unfold pgcd.
  destruct ((deg P <? 0) || (deg Q =? 0)) eqn:E1.
  - intros H. apply orb_true_iff in E1. destruct E1 as [E1|E1]; [apply Z.ltb_lt in E1|apply Z.eqb_eq in E1; lia].
    assert (P = []) by (unfold deg in E1; destruct P; [reflexivity|cbn [length] in E1; lia]). subst.
    auto using divides_nil, divides_refl.
  - destruct ((deg Q <? 0) || (deg P =? 0)) eqn:E2.
    + intros H. apply orb_true_iff in E2. destruct E2 as [E2|E2]; [apply Z.ltb_lt in E2|apply Z.eqb_eq in E2; lia].
      assert (Q = []) by (unfold deg in E2; destruct Q; [reflexivity|cbn [length] in E2; lia]). subst.
      auto using divides_nil, divides_refl.
    + apply orb_false_iff in E1, E2. destruct E1 as [E1 E1'], E2 as [E2 E2']. apply Z.ltb_ge in E1, E2.
      assert (P <> []) by (intro; subst; cbn in E1; lia). assert (Q <> []) by (intro; subst; cbn in E2; lia).
      set (G := if deg P >=? deg Q then gcd_loop p (length Q) P Q else gcd_loop p (length P) Q P).
      destruct (deg G <=? 0) eqn:E3; [cbn; lia|]. intros _.
      unfold G. destruct (deg P >=? deg Q).
      * destruct (gcd_loop_spec (length Q) P Q) as [D1 [D2 [C _]]]; auto.
      * destruct (gcd_loop_spec (length P) Q P) as [D1 [D2 [C _]]]; auto. Qed.

End P.
