(* C09 proofs, part 10: the factors returned are IRREDUCIBLE and PAIRWISE NON-ASSOCIATE.
   Everything here is proved for every prime p, every size, every fuel and every stream of random choices.  What cannot be
   proved at this level (it needs root counting in GF(q^d): "gcd(X^(q^d) - X, P) is the product of the irreducible factors
   of P whose degree divides d") enters as an EXPLICIT hypothesis on the deterministic part of the computation:
     ddf_fact G d   : G is, up to a non-zero constant, a product of irreducible polynomials all of degree d;
     ddf_hyp f MOD  : every G1 = gcd(X^(MOD^dp) - X, P) computed by DistinctDegreeFactor at round dp satisfies
                      ddf_fact G1 dp, and the cofactor left after the last round, when not constant, is irreducible.
                      It is stated on ddf_trace, a stream-free copy of the loop (the G1's and the cofactors do not depend
                      on the random choices; ddf_loop_trace proves that the code follows it for every stream);
     sqfree_h / pairwise_cop : the parts delivered by sqrfree are square-free and pairwise coprime (swept only).
   F0  Euclid's lemma for irreducibles, irreducible divisors exist, divisors of degree d of a product of irreducibles of
       degree d are irreducible.
   F1  SplitFactor (both forms): only divisors of G of degree exactly d are produced; under ddf_fact they are irreducible.
   F2  DistinctDegreeFactor under ddf_hyp: every factor appended is canonical and irreducible.
   F3  CZfactor (repaired sqrfree) under ddf_hyp for each part: every factor returned is irreducible.
   F4  under square-free / pairwise coprime parts: the factors returned are pairwise non-associate. *)
From Coq Require Import ZArith List Bool Lia Znumtheory.
From C09 Require Import Model Model2 ProofsAlg ProofsDiv ProofsSplit ProofsIrr ProofsCZ ProofsRep ProofsSqr ProofsRep2.
Import ListNotations.
Local Open Scope Z_scope.
Ltac Zify.zify_post_hook ::= Z.div_mod_to_equations.

Ltac evring := apply eqp_ev; intros ?x;
  repeat (rewrite ?ev_pmulZ, ?ev_paddZ, ?ev_pscaleZ, ?ev_prodl_app, ?ev_prodl_cons, ?ev_prodl_nil); cbn [ev]; ring.

Lemma forallb_false_ex (A : Type) (f : A -> bool) : forall l, forallb f l = false -> exists x, In x l /\ f x = false.
Proof. induction l as [|a l IH]; intros H; cbn [forallb] in H; [discriminate|].
  destruct (f a) eqn:E.
  - destruct (IH H) as [x [Hx Fx]]. exists x. split; [right; assumption|assumption].
  - exists a. split; [left; reflexivity|assumption]. Qed.

Section P.
Variable p : Z.
Hypothesis Hp : prime p.
Let p_gt_1 : 1 < p. Proof. destruct Hp; assumption. Qed.
Notation eqp := (eqp p).
Notation canon := (canon p).
Notation divides := (divides p).
Notation irreducible_def := (irreducible_def p).
Notation coprime := (coprime p).

(* ================= F0: algebra ================= *)
(* associates: equal up to a non-zero constant *)
Definition assoc (a b : poly) : Prop := exists c, c mod p <> 0 /\ eqp a (pscaleZ c b).

Lemma assoc_refl a : assoc a a.
Proof. exists 1. split; [rewrite Z.mod_small; lia|]. evring. Qed.
Lemma assoc_sym a b : assoc a b -> assoc b a.
Proof. intros [c [Hc E]]. exists (inv p c). split; [apply (unit_inv p Hp); assumption|].
  eapply eqp_trans; [apply eqp_sym; apply (unit_scale p Hp c b Hc)|].
  eapply eqp_trans; [|apply eqp_scale; apply eqp_sym; exact E]. evring. Qed.
Lemma assoc_divides_l a b : assoc a b -> divides b a.
Proof. intros [c [Hc E]]. exists [c]. eapply eqp_trans; [|apply eqp_sym; exact E]. evring. Qed.
Lemma assoc_divides_r a b : assoc a b -> divides a b.
Proof. intros H. apply assoc_divides_l, assoc_sym, H. Qed.
Lemma assoc_length a b : canon a -> canon b -> a <> [] -> b <> [] -> assoc a b -> length a = length b.
Proof. intros Ca Cb Na Nb H. apply Nat.le_antisymm.
  - apply (divides_length_le p Hp); auto using assoc_divides_r.
  - apply (divides_length_le p Hp); auto using assoc_divides_l. Qed.

Lemma irr_nonnil h : irreducible_def h -> h <> [].
Proof. intros [H _] E. subst. cbn in H. lia. Qed.
Lemma nil_divides_nil P : canon P -> divides [] P -> P = [].
Proof. intros CP [q H]. exact (canon_mul_nil_l p Hp q P CP H). Qed.

(* g * c = h with c a unit: h divides g *)
Lemma mul_const_divides g c h : c mod p <> 0 -> eqp (pmulZ g [c]) h -> divides h g.
Proof. intros Hc E. exists [inv p c].
  eapply eqp_trans; [apply eqp_mul; [apply eqp_sym; exact E|apply eqp_refl]|].
  eapply eqp_trans; [|apply (unit_scale p Hp c g Hc)]. evring. Qed.

(* a canonical divisor of an irreducible is a constant or an associate *)
Lemma irr_divisor h g : canon h -> irreducible_def h -> canon g -> divides g h -> deg g = 0 \/ divides h g.
Proof. intros Ch [_ Ih] Cg [q Hq].
  assert (E : eqp (pmulZ g (red p q)) h).
  { eapply eqp_trans; [apply eqp_mul; [apply eqp_refl|apply eqp_red; assumption]|exact Hq]. }
  destruct (Ih g (red p q) Cg (canon_red p Hp q) E) as [H|H]; [left; assumption|right].
  destruct (canon_len1 p _ (canon_red p Hp q) (deg0_len1 _ H)) as [c [Ec Hc]]. rewrite Ec in E.
  apply (mul_const_divides g c h); [apply unit_small; assumption|exact E]. Qed.

(* an irreducible h and any canonical a: h | a or gcd(h, a) is constant *)
Lemma irr_pgcd h a : canon h -> irreducible_def h -> canon a -> divides h a \/ deg (pgcd p h a) <= 0.
Proof. intros Ch Ih Ca. pose proof (pgcd_canon p Hp h a Ch Ca) as Cg.
  destruct (pgcd_divides_always p Hp h a Ch Ca) as [D1 D2].
  destruct (irr_divisor h _ Ch Ih Cg D1) as [H|H]; [right; lia|left].
  eapply divides_trans; eassumption. Qed.

(* Euclid's lemma *)
Theorem euclid h a b : canon h -> irreducible_def h -> canon a ->
  divides h (pmulZ a b) -> divides h a \/ divides h b.
Proof. intros Ch Ih Ca H. destruct (irr_pgcd h a Ch Ih Ca) as [D|D]; [left; assumption|right].
  apply (gauss p Hp h a b Ch Ca); auto. left. apply irr_nonnil; assumption. Qed.

(* an irreducible dividing a product divides one member *)
Theorem euclid_prodl h : canon h -> irreducible_def h -> forall L, Forall canon L -> divides h (prodl L) ->
  exists g, In g L /\ divides h g.
Proof. intros Ch Ih. induction L as [|a L IH]; intros CL H.
  - exfalso. pose proof (divides_const_is_const p Hp h 1 Ch ltac:(lia) H) as L1.
    destruct Ih as [D _]. unfold deg in D. lia.
  - inversion CL as [|? ? Ca CL']; subst. change (prodl (a :: L)) with (pmulZ a (prodl L)) in H.
    destruct (euclid h a (prodl L) Ch Ih Ca H) as [D|D].
    + exists a. split; [left; reflexivity|assumption].
    + destruct (IH CL' D) as [g [Hg Dg]]. exists g. split; [right; assumption|assumption]. Qed.

(* two irreducibles, one dividing the other, are associates *)
Theorem irr_divides_assoc h g : canon h -> canon g -> irreducible_def h -> irreducible_def g -> divides h g -> assoc h g.
Proof. intros Ch Cg Ih Ig D.
  destruct (irr_divisor g h Cg Ig Ch D) as [H|H]. { destruct Ih as [H1 _]. lia. }
  apply (assoc_const p Hp h g); auto. apply (canon_not_zero p Hp); [assumption|apply irr_nonnil; assumption]. Qed.

Lemma pmod_nil_divides G D : canon G -> canon D -> D <> [] -> pmod p G D = [] -> divides D G.
Proof. intros CG CD ND E. destruct (pdivmod_spec p Hp G D CG CD ND) as [H _]. rewrite E in H.
  exists (pdiv p G D). apply eqp_sym. eapply eqp_trans; [exact H|]. evring. Qed.

(* every canonical polynomial of degree >= 1 has an irreducible canonical divisor *)
Lemma exists_irr_divisor_aux : forall n G, (length G <= n)%nat -> canon G -> 1 <= deg G ->
  exists h, canon h /\ irreducible_def h /\ divides h G.
Proof. induction n as [|n IH]; intros G Ln CG DG. { unfold deg in DG. lia. }
  destruct (irreducible_b p G) eqn:E.
  { exists G. split; [assumption|]. split; [apply (irreducible_b_sound p Hp); assumption|apply divides_refl]. }
  unfold irreducible_b in E. apply andb_false_iff in E. destruct E as [E|E]. { apply Z.leb_gt in E. lia. }
  destruct (forallb_false_ex _ _ _ E) as [k [Hk Fk]]. apply negb_false_iff in Fk. apply in_seq in Hk.
  apply (has_divisor_deg_true p Hp) in Fk. destruct Fk as [D [CD [LD [_ MD]]]].
  assert (ND : D <> []) by (destruct D; [discriminate|congruence]).
  assert (K : Z.of_nat k <= deg G / 2) by lia.
  destruct (IH D) as [h [Chh [Ih Dh]]]; [unfold deg in *; lia|assumption|unfold deg; lia|].
  exists h. split; [assumption|]. split; [assumption|].
  eapply divides_trans; [exact Dh|]. apply pmod_nil_divides; assumption. Qed.
Theorem exists_irr_divisor G : canon G -> 1 <= deg G -> exists h, canon h /\ irreducible_def h /\ divides h G.
Proof. apply (exists_irr_divisor_aux (length G)). lia. Qed.

Definition irr_deg (d : Z) (g : poly) : Prop := canon g /\ irreducible_def g /\ deg g = d.

(* a canonical divisor of degree d of a product of irreducibles all of degree d is irreducible *)
Theorem deg_d_divisor_irreducible G d L : canon G -> deg G = d -> 1 <= d -> Forall (irr_deg d) L ->
  divides G (prodl L) -> irreducible_def G.
Proof. intros CG DG Hd FL DL. split; [lia|]. intros A B CA CB E.
  assert (NG : G <> []) by (intro; subst; cbn in Hd; lia).
  assert (NA : A <> []) by (intro; subst; apply NG; exact (canon_mul_nil_l p Hp B G CG E)).
  assert (E' : eqp (pmulZ B A) G) by (eapply eqp_trans; [|exact E]; evring).
  assert (NB : B <> []) by (intro; subst; apply NG; exact (canon_mul_nil_l p Hp A G CG E')).
  pose proof (canon_mul_length p Hp A B G CA CB CG NA NB E) as LG.
  destruct (Z.eq_dec (deg A) 0) as [|NA0]; [left; assumption|right].
  assert (DA : 1 <= deg A) by (unfold deg in *; destruct A; [congruence|cbn [length] in *; lia]).
  destruct (exists_irr_divisor A CA DA) as [h [Chh [Ih Dh]]].
  assert (DhL : divides h (prodl L)).
  { eapply divides_trans; [exact Dh|]. eapply divides_trans; [|exact DL]. exists B. exact E. }
  destruct (euclid_prodl h Chh Ih L) as [g [Hg Dg]]; [|assumption|].
  { eapply Forall_impl; [|exact FL]. intros a [Ha _]. exact Ha. }
  rewrite Forall_forall in FL. destruct (FL g Hg) as [Cg [Ig Dgd]].
  pose proof (irr_divides_assoc h g Chh Cg Ih Ig Dg) as As.
  pose proof (assoc_length h g Chh Cg (irr_nonnil _ Ih) (irr_nonnil _ Ig) As) as Lh.
  pose proof (divides_length_le p Hp h A Chh CA NA Dh) as Lle.
  unfold deg in *. destruct B; [congruence|cbn [length] in *; lia]. Qed.

(* ================= F1: equal-degree splitting ================= *)
(* the distinct-degree fact: G is, up to a non-zero constant, a product of irreducibles all of degree d *)
Definition ddf_fact (G : poly) (d : Z) : Prop :=
  exists L c, c mod p <> 0 /\ Forall (irr_deg d) L /\ eqp (pscaleZ c (prodl L)) G.

Lemma ddf_fact_divides G d : ddf_fact G d -> exists L, Forall (irr_deg d) L /\ divides G (prodl L).
Proof. intros [L [c [Hc [FL E]]]]. exists L. split; [assumption|].
  apply assoc_divides_r. exists c. split; [assumption|apply eqp_sym; exact E]. Qed.

(* every polynomial SplitFactor appends is canonical, divides G and has degree exactly d -- every fuel, every stream *)
Definition split_q (d : Z) (G f : poly) : Prop := canon f /\ divides f G /\ deg f = d.

Lemma split_degs_two G D d (L L1 L2 : list poly) : canon G -> canon D -> D <> [] -> divides D G ->
  (exists N, L1 = L ++ N /\ Forall (split_q d D) N) ->
  (exists N, L2 = L1 ++ N /\ Forall (split_q d (pdiv p G D)) N) ->
  exists N, L2 = L ++ N /\ Forall (split_q d G) N.
Proof. intros CG CD ND DD [N1 [E1 F1]] [N2 [E2 F2]].
  destruct (div_exact p Hp G D CG CD ND DD) as [Ex _].
  assert (DQ : divides (pdiv p G D) G) by (eapply divides_eqp; [apply divides_factor_r|exact Ex]).
  exists (N1 ++ N2). split; [subst; rewrite app_assoc; reflexivity|]. apply Forall_app. split.
  - eapply Forall_impl; [|exact F1]. intros f [Cf [Df Ef]]. split; [assumption|]. split; [|assumption].
    eapply divides_trans; eassumption.
  - eapply Forall_impl; [|exact F2]. intros f [Cf [Df Ef]]. split; [assumption|]. split; [|assumption].
    eapply divides_trans; eassumption. Qed.

Theorem split_degs : forall fuel G d MOD L s L' s', canon G ->
  split p fuel G d MOD L s = Some (L', s') -> exists N, L' = L ++ N /\ Forall (split_q d G) N.
Proof. induction fuel as [|f IH]; intros G d MOD L s L' s' CG H; [discriminate|].
  rewrite split_eq in H. cbv zeta in H.
  destruct (Z.eqb_spec (deg G) d) as [Ed|Ed].
  { inversion H; subst. exists [G]. split; [reflexivity|]. constructor; [|constructor].
    split; [assumption|]. split; [apply divides_refl|reflexivity]. }
  destruct (random_poly p (Z.to_nat (deg G - 1)) s) as [[G2 s1]|] eqn:ER; [|discriminate].
  pose proof (random_poly_canon p Hp _ _ _ _ ER) as C2.
  set (G1 := pgcd p G (norm G2)) in *.
  destruct (negb (deg G1 =? deg G)); [|eauto].
  destruct (deg G1 >? 0) eqn:E1.
  - apply Z.gtb_lt in E1. destruct (pgcd_spec p Hp G (norm G2) CG C2 E1) as [D1 [_ C1]]. fold G1 in D1, C1.
    destruct (split p f G1 d MOD L s1) as [[L1 s2]|] eqn:S1; [|discriminate].
    apply (split_degs_two G G1 d L L1 L'); eauto using deg_pos_nonnil.
    eapply IH; [|exact H]. apply (div_exact p Hp G G1); eauto using deg_pos_nonnil.
  - set (G1' := pgcd p G (psub p (ppowmod p (norm G2) ((MOD ^ d - 1) / 2) G) pone)) in *.
    destruct (negb (deg G1' =? deg G) && (deg G1' >? 0)) eqn:E2; [|eauto].
    apply andb_true_iff in E2. destruct E2 as [_ E2]. apply Z.gtb_lt in E2.
    destruct (pgcd_spec p Hp G _ CG (canon_psub p Hp _ _) E2) as [D1 [_ C1]]. fold G1' in D1, C1.
    destruct (split p f G1' d MOD L s1) as [[L1 s2]|] eqn:S1; [|discriminate].
    apply (split_degs_two G G1' d L L1 L'); eauto using deg_pos_nonnil.
    eapply IH; [|exact H]. apply (div_exact p Hp G G1'); eauto using deg_pos_nonnil. Qed.

Lemma split_q_irr G d f : 1 <= d -> ddf_fact G d -> split_q d G f -> irr_deg d f.
Proof. intros Hd HF [Cf [Df Ef]]. destruct (ddf_fact_divides G d HF) as [L [FL DL]].
  split; [assumption|]. split; [|assumption].
  apply (deg_d_divisor_irreducible f d L); auto. eapply divides_trans; eassumption. Qed.

(* SplitFactor(L, G, d, MOD) on a product of irreducibles of degree d appends only irreducibles of degree d,
   and they multiply to G: every fuel, every stream, every MOD *)
Theorem split_irreducible fuel G d MOD L s L' s' : canon G -> 1 <= d -> ddf_fact G d ->
  split p fuel G d MOD L s = Some (L', s') ->
  exists N, L' = L ++ N /\ eqp (prodl N) G /\ Forall (irr_deg d) N.
Proof. intros CG Hd HF H. destruct (split_spec p Hp _ _ _ _ _ _ _ _ CG H) as [N [E [PN _]]].
  destruct (split_degs _ _ _ _ _ _ _ _ CG H) as [N' [E' FN]].
  assert (N' = N) by (apply (app_inv_head L); congruence). subst N'.
  exists N. split; [assumption|]. split; [assumption|].
  eapply Forall_impl; [|exact FN]. intros f Hf. exact (split_q_irr G d f Hd HF Hf). Qed.

(* SplitFactor(Rep& R, G, d, MOD): R is a canonical divisor of G; when of degree d it is irreducible *)
Theorem split1_irreducible fuel G d MOD s R s' : canon G -> 1 <= d -> ddf_fact G d ->
  split1 p fuel G d MOD s = Some (R, s') -> canon R /\ divides R G /\ (deg R = d -> irreducible_def R).
Proof. intros CG Hd HF H. destruct (split1_spec p Hp _ _ _ _ _ _ _ CG H) as [DR CR].
  split; [assumption|]. split; [assumption|]. intros ER.
  destruct (split_q_irr G d R Hd HF) as [_ [I _]]; [split; [assumption|split; assumption]|exact I]. Qed.

(* ================= F2: distinct-degree factorisation ================= *)
(* the deterministic part of ddf_loop: the (dp, G1) passed to SplitFactor and the cofactor left at the end *)
Fixpoint ddf_trace (n : nat) (dp : Z) (W P : poly) (MOD : Z) : list (Z * poly) * poly :=
  match n with
  | O => ([], P)
  | S n' =>
    let W' := ppowmod p W MOD P in
    let G1 := pgcd p (psub p W' Xpoly) P in
    if deg G1 >? 0 then
      let r := ddf_trace n' (dp + 1) W' (pdiv p P G1) MOD in ((dp, G1) :: fst r, snd r)
    else ddf_trace n' (dp + 1) W' P MOD
  end.

Definition trace_ok (T : list (Z * poly)) : Prop := Forall (fun dg => ddf_fact (snd dg) (fst dg)) T.

(* the hypothesis of F2: the distinct-degree facts along the run of DistinctDegreeFactor(L, f, MOD) *)
Definition ddf_hyp (f : poly) (MOD : Z) : Prop :=
  let r := ddf_trace (Z.to_nat (deg f / 2)) 1 Xpoly f MOD in
  trace_ok (fst r) /\ (0 < deg (snd r) -> irreducible_def (snd r)).

(* the code follows the trace for every stream; what it appends is canonical of degree >= 1 (no hypothesis) ... *)
Theorem ddf_loop_trace : forall n dp W P MOD L s P' L' s', canon P -> 1 <= dp ->
  ddf_loop p n dp W P MOD L s = Some (P', L', s') ->
  P' = snd (ddf_trace n dp W P MOD) /\ canon P' /\
  exists N, L' = L ++ N /\ Forall (fun f => canon f /\ 1 <= deg f) N /\
    (trace_ok (fst (ddf_trace n dp W P MOD)) -> Forall irreducible_def N).
Proof. induction n as [|n IH]; intros dp W P MOD L s P' L' s' CP Hdp H; cbn [ddf_loop ddf_trace] in *.
  { inversion H; subst. cbn [fst snd]. split; [reflexivity|]. split; [assumption|].
    exists []. split; [rewrite app_nil_r; reflexivity|]. split; [constructor|]. intros _. constructor. }
  cbv zeta in *. set (W' := ppowmod p W MOD P) in *. set (G1 := pgcd p (psub p W' Xpoly) P) in *.
  destruct (deg G1 >? 0) eqn:E1.
  2:{ apply (IH (dp + 1) W' P MOD L s P' L' s' CP ltac:(lia) H). }
  apply Z.gtb_lt in E1. destruct (pgcd_spec p Hp _ P (canon_psub p Hp _ _) CP E1) as [_ [D1 C1]]. fold G1 in D1, C1.
  destruct (split p (length s + 2 * length G1 + 2) G1 dp MOD L s) as [[L1 s1]|] eqn:S1; [|discriminate].
  destruct (split_degs _ _ _ _ _ _ _ _ C1 S1) as [N1 [EL1 F1]].
  destruct (div_exact p Hp P G1 CP C1 (deg_pos_nonnil _ E1) D1) as [_ CQ].
  destruct (IH (dp + 1) W' (pdiv p P G1) MOD L1 s1 P' L' s' CQ ltac:(lia) H) as [EP [CP' [N2 [EL2 [F2 I2]]]]].
  cbn [fst snd]. split; [assumption|]. split; [assumption|].
  exists (N1 ++ N2). split; [subst; rewrite app_assoc; reflexivity|]. split.
  - apply Forall_app. split; [|assumption]. eapply Forall_impl; [|exact F1]. intros f [Cf [_ Ef]]. split; [assumption|lia].
  - intros HT. inversion HT as [|? ? HG HT']; subst. cbn [fst snd] in HG. apply Forall_app. split; [|auto].
    eapply Forall_impl; [|exact F1]. intros f Hf. destruct (split_q_irr G1 dp f Hdp HG Hf) as [_ [I _]]. exact I. Qed.

(* what DistinctDegreeFactor appends is canonical of degree >= 1: every stream, no hypothesis *)
Theorem ddf_degs f MOD L s L' s' : canon f -> ddf p f MOD L s = Some (L', s') ->
  exists N, L' = L ++ N /\ Forall (fun g => canon g /\ 1 <= deg g) N /\ (ddf_hyp f MOD -> Forall irreducible_def N).
Proof. intros Cf H. unfold ddf in H.
  destruct (ddf_loop p (Z.to_nat (deg f / 2)) 1 Xpoly f MOD L s) as [[[P L1] s1]|] eqn:E; [|discriminate].
  destruct (ddf_loop_trace _ 1 _ _ _ _ _ _ _ _ Cf ltac:(lia) E) as [EP [CP [N [EL [FN IN]]]]].
  destruct (Z.gtb_spec (deg P) 0) as [G|G]; inversion H; subst L' s'.
  - exists (N ++ [P]). split; [subst L1; rewrite app_assoc; reflexivity|]. split.
    + apply Forall_app. split; [assumption|]. constructor; [|constructor]. split; [assumption|lia].
    + intros [HT HI]. apply Forall_app. split; [auto|]. constructor; [|constructor]. rewrite EP. apply HI. rewrite <- EP. assumption.
  - exists N. split; [assumption|]. split; [assumption|]. intros [HT _]. auto. Qed.

(* F2: under the distinct-degree facts every factor DistinctDegreeFactor appends is canonical and irreducible *)
Theorem ddf_irreducible f MOD L s L' s' : canon f -> ddf_hyp f MOD -> ddf p f MOD L s = Some (L', s') ->
  exists N, L' = L ++ N /\ Forall (fun g => canon g /\ irreducible_def g) N.
Proof. intros Cf HH H. destruct (ddf_degs f MOD L s L' s' Cf H) as [N [E [FN IN]]]. exists N. split; [assumption|].
  specialize (IN HH). rewrite Forall_forall in *. intros g Hg. split; [apply (FN g Hg)|apply (IN g Hg)]. Qed.

(* ================= F3: CZfactor ================= *)
Lemma cz_loop_degs : forall g i MOD Lf Le s Lf' Le' s', Forall canon g ->
  cz_loop p g i MOD Lf Le s = Some (Lf', Le', s') ->
  exists Nf, Lf' = Lf ++ Nf /\ Forall (fun f => canon f /\ 1 <= deg f) Nf /\
    (Forall (fun gi => ddf_hyp gi MOD) g -> Forall irreducible_def Nf).
Proof. induction g as [|gi g IH]; intros i MOD Lf Le s Lf' Le' s' Cg H; cbn [cz_loop] in H.
  - inversion H; subst. exists []. rewrite app_nil_r. split; [reflexivity|]. split; [constructor|]. intros _. constructor.
  - inversion Cg as [|? ? Cgi Cg']; subst.
    destruct (ddf p gi MOD Lf s) as [[Lf1 s1]|] eqn:ED; [|discriminate].
    destruct (ddf_degs gi MOD Lf s Lf1 s1 Cgi ED) as [N [E1 [F1 I1]]].
    destruct (IH _ _ _ _ _ _ _ _ Cg' H) as [Nf2 [E2 [F2 I2]]].
    exists (N ++ Nf2). split; [subst; rewrite app_assoc; reflexivity|]. split; [apply Forall_app; auto|].
    intros HH. inversion HH; subst. apply Forall_app. auto. Qed.

(* the parts the repaired sqrfree hands to the loop *)
Definition cz_parts (P : poly) : list poly :=
  firstn (Z.to_nat (fst (sqrfree_rep p (length P + 1) (deg P + 1) P))) (snd (sqrfree_rep p (length P + 1) (deg P + 1) P)).

Lemma czfactor_rep_unfold P MOD s : czfactor_rep p P MOD s = cz_loop p (cz_parts P) 0 MOD [] [] s.
Proof. unfold czfactor_rep, cz_parts. destruct (sqrfree_rep p (length P + 1) (deg P + 1) P). reflexivity. Qed.
Lemma cz_parts_canon P : Forall canon (cz_parts P).
Proof. apply Forall_firstn'. apply (sqrfree_rep_canon p Hp). Qed.

(* F3: with the distinct-degree facts for each part, every factor CZfactor returns is canonical and irreducible *)
Theorem czfactor_rep_irreducible P MOD s Lf Le s' : czfactor_rep p P MOD s = Some (Lf, Le, s') ->
  Forall (fun g => ddf_hyp g MOD) (cz_parts P) -> Forall (fun f => canon f /\ irreducible_def f) Lf.
Proof. rewrite czfactor_rep_unfold. intros H HH.
  destruct (cz_loop_degs _ _ _ _ _ _ _ _ _ (cz_parts_canon P) H) as [Nf [E [F I]]]. cbn [app] in E. subst Nf.
  specialize (I HH). rewrite Forall_forall in *. intros f Hf. split; [apply (F f Hf)|apply (I f Hf)]. Qed.

(* ================= F4: pairwise non-associate ================= *)
Definition sqfree_h (g : poly) : Prop := deg (pgcd p g (pdiff p g)) <= 0.
Fixpoint pairwise_cop (g : list poly) : Prop :=
  match g with [] => True | f :: r => Forall (fun h => deg (pgcd p f h) <= 0) r /\ pairwise_cop r end.
Definition pairwise_nonassoc (L : list poly) : Prop :=
  forall i j, (i < length L)%nat -> (j < length L)%nat -> i <> j -> ~ assoc (nth i L []) (nth j L []).
Fixpoint nonassoc_list (L : list poly) : Prop :=
  match L with [] => True | a :: r => Forall (fun b => ~ assoc a b) r /\ nonassoc_list r end.

Lemma nonassoc_list_nth : forall L, nonassoc_list L -> forall i j, (i < j < length L)%nat -> ~ assoc (nth i L []) (nth j L []).
Proof. induction L as [|a L IH]; intros H i j Hij; cbn [length] in Hij; [lia|]. destruct H as [H1 H2].
  destruct j as [|j]; [lia|]. destruct i as [|i]; cbn [nth].
  - rewrite Forall_forall in H1. apply H1. apply nth_In. lia.
  - apply IH; [assumption|lia]. Qed.
Lemma nonassoc_list_pairwise L : nonassoc_list L -> pairwise_nonassoc L.
Proof. intros H i j Hi Hj Hij A. destruct (Nat.lt_ge_cases i j).
  - exact (nonassoc_list_nth L H i j ltac:(lia) A).
  - exact (nonassoc_list_nth L H j i ltac:(lia) (assoc_sym _ _ A)). Qed.

(* a polynomial coprime to its derivative has no square factor a * b with a, b associates of positive degree *)
Lemma sq_factor_contra G a b T : coprime G (dZ G) -> canon a -> 1 <= deg a -> assoc a b ->
  eqp (pmulZ a (pmulZ b T)) G -> False.
Proof. intros [u [v B]] Ca Da As E. destruct (assoc_sym _ _ As) as [c [Hc Ec]].
  set (T' := pscaleZ c T).
  assert (EG : eqp G (pmulZ a (pmulZ a T'))).
  { apply eqp_sym. eapply eqp_trans; [|exact E]. apply eqp_mul; [apply eqp_refl|].
    eapply eqp_trans; [|apply eqp_mul; [apply eqp_sym; exact Ec|apply eqp_refl]]. unfold T'. evring. }
  assert (D1 : divides a G) by (exists (pmulZ a T'); apply eqp_sym; exact EG).
  assert (D2 : divides a (dZ G)).
  { exists (paddZ (pmulZ (dZ a) T') (dZ (pmulZ a T'))).
    eapply eqp_trans; [|apply (dZ_eqp p Hp); apply eqp_sym; exact EG].
    apply eqp_ev. intros x. rewrite !dZ_mul. repeat (rewrite ?ev_pmulZ, ?ev_paddZ, ?dZ_mul). ring. }
  assert (D3 : divides a [1]) by (eapply divides_eqp; [apply (divides_lin p a G (dZ G) u v D1 D2)|exact B]).
  pose proof (divides_const_is_const p Hp a 1 Ca ltac:(lia) D3) as L1. unfold deg in Da. lia. Qed.

Lemma square_free_nonassoc G : coprime G (dZ G) -> forall N u, eqp (pmulZ (prodl N) u) G ->
  Forall (fun f => canon f /\ 1 <= deg f) N -> nonassoc_list N.
Proof. intros HG. induction N as [|a N IH]; intros u E F; cbn [nonassoc_list]; [exact I|].
  inversion F as [|? ? [Ca Da] F']; subst. split.
  - apply Forall_forall. intros b Hb As. destruct (in_split b N Hb) as [N1 [N2 EN]].
    apply (sq_factor_contra G a b (pmulZ (pmulZ (prodl N1) (prodl N2)) u) HG Ca Da As).
    eapply eqp_trans; [|exact E]. rewrite EN. evring.
  - apply (IH (pmulZ a u)); [|assumption]. eapply eqp_trans; [|exact E]. evring. Qed.

(* square-free (model's test) gives the Bezout form *)
Lemma sqfree_coprime g : canon g -> g <> [] -> sqfree_h g -> coprime g (dZ g).
Proof. intros Cg Ng H. apply coprime_eqp_r with (pdiff p g); [apply (pdiff_dZ p Hp)|].
  apply (coprime_of_pgcd p Hp); auto using (pdiff_canon p Hp). Qed.

Lemma cop_list_of_hyps : forall g, Forall canon g -> Forall (fun f => f <> []) g -> Forall sqfree_h g -> pairwise_cop g ->
  cop_list p g.
Proof. induction g as [|b g IH]; intros Cg Ng Sg Pg; cbn [cop_list]; [exact I|].
  inversion Cg as [|? ? Cb Cg']; inversion Ng as [|? ? Nb Ng']; inversion Sg as [|? ? Sb Sg']; subst.
  destruct Pg as [P1 P2]. split; [apply sqfree_coprime; assumption|]. split; [|auto].
  intros a Ha. rewrite Forall_forall in P1, Cg'. apply (coprime_of_pgcd p Hp); auto. Qed.

Lemma cop_list_prod_sqfree g : cop_list p g -> coprime (prodl g) (dZ (prodl g)).
Proof. intros H. apply coprime_eqp_r with (wsum 1 0 g).
  - apply eqp_ev. intros x. symmetry. apply ev_dZ_prodl.
  - apply (coprime_wsum p Hp); [assumption|]. intros j _. rewrite Z.mul_0_l, Z.add_0_r, Z.mod_small; lia. Qed.

(* F4 for one square-free polynomial: what DistinctDegreeFactor appends is pairwise non-associate *)
Theorem ddf_nonassoc f MOD L s L' s' : canon f -> f <> [] -> sqfree_h f -> ddf p f MOD L s = Some (L', s') ->
  exists N, L' = L ++ N /\ pairwise_nonassoc N.
Proof. intros Cf Nf Sf H. destruct (ddf_degs f MOD L s L' s' Cf H) as [N [E [FN _]]].
  destruct (ddf_spec p Hp f MOD L s L' s' Cf H) as [N' [u [E' [PU _]]]].
  assert (N' = N) by (apply (app_inv_head L); congruence). subst N'.
  exists N. split; [assumption|]. apply nonassoc_list_pairwise.
  apply (square_free_nonassoc f (sqfree_coprime f Cf Nf Sf) N u PU FN). Qed.

(* F4 for the loop over the parts *)
Theorem cz_loop_nonassoc g i MOD Le s Lf' Le' s' : Forall canon g -> Forall (fun f => f <> []) g ->
  Forall sqfree_h g -> pairwise_cop g -> cz_loop p g i MOD [] Le s = Some (Lf', Le', s') -> pairwise_nonassoc Lf'.
Proof. intros Cg Ng Sg Pg H.
  destruct (cz_loop_degs _ _ _ _ _ _ _ _ _ Cg H) as [Nf [E [F _]]]. cbn [app] in E. subst Nf.
  destruct (cz_loop_prod p Hp _ _ _ _ _ _ _ _ _ Cg H) as [Nf [U [E [_ [PU _]]]]]. cbn [app] in E. subst Nf.
  apply nonassoc_list_pairwise.
  apply (square_free_nonassoc (prodl g) (cop_list_prod_sqfree g (cop_list_of_hyps g Cg Ng Sg Pg)) Lf' U PU F). Qed.

Lemma cz_parts_nonnil P : canon P -> P <> [] -> Forall (fun f => f <> []) (cz_parts P).
Proof. intros CP NP. apply Forall_forall. intros g Hg E. subst g. apply NP. apply (nil_divides_nil P CP).
  assert (HN : 0 < deg P + 1) by (unfold deg; destruct P; [congruence|cbn [length]; lia]).
  destruct (sqrfree_rep p (length P + 1) (deg P + 1) P) as [nb g0] eqn:ES.
  apply (sqrfree_rep_full_parts_divide p Hp _ _ P nb g0 CP NP HN
           (rep_ok_total p Hp (length P + 1) (deg P + 1) P CP NP ltac:(lia) ltac:(lia)) ES).
  unfold cz_parts in Hg. rewrite ES in Hg. cbn [fst snd] in Hg. eapply in_firstn. exact Hg. Qed.

(* F4: square-free, pairwise coprime parts => the factors CZfactor returns are pairwise non-associate *)
Theorem czfactor_rep_nonassoc P MOD s Lf Le s' : canon P -> P <> [] -> czfactor_rep p P MOD s = Some (Lf, Le, s') ->
  Forall sqfree_h (cz_parts P) -> pairwise_cop (cz_parts P) -> pairwise_nonassoc Lf.
Proof. intros CP NP H Sg Pg. rewrite czfactor_rep_unfold in H.
  exact (cz_loop_nonassoc _ 0 MOD [] s Lf Le s' (cz_parts_canon P) (cz_parts_nonnil P CP NP) Sg Pg H). Qed.

(* the boolean tests of the sweep (ProofsRep.sqrfree_rep_ok) give the two hypotheses *)
Lemma sqfree_h_of_bool g : forallb (fun f => deg (pgcd p f (pdiff p f)) <=? 0) g = true -> Forall sqfree_h g.
Proof. intros H. rewrite forallb_forall in H. apply Forall_forall. intros f Hf. apply Z.leb_le. exact (H f Hf). Qed.
Lemma pairwise_cop_of_bool : forall g, ProofsSweepSqr.pairwise_coprime p g = true -> pairwise_cop g.
Proof. induction g as [|f g IH]; intros H; cbn [ProofsSweepSqr.pairwise_coprime pairwise_cop] in *; [exact I|].
  apply andb_true_iff in H. destruct H as [H1 H2]. split; [|auto].
  rewrite forallb_forall in H1. apply Forall_forall. intros h Hh. apply Z.leb_le. exact (H1 h Hh). Qed.

(* ---- introduction rules used to show the hypotheses satisfiable on concrete data *)
Lemma irr_deg_intro d g : canon g -> irreducible_b p g = true -> deg g = d -> irr_deg d g.
Proof. intros Cg H E. split; [assumption|]. split; [apply (irreducible_b_sound p Hp); assumption|assumption]. Qed.
Lemma ddf_fact_intro G d L c : c mod p <> 0 -> Forall (irr_deg d) L -> red p (pscaleZ c (prodl L)) = G -> ddf_fact G d.
Proof. intros Hc FL E. exists L, c. split; [assumption|]. split; [assumption|]. rewrite <- E. apply eqp_sym, eqp_red. assumption. Qed.
Lemma ddf_hyp_intro f MOD T Pf : ddf_trace (Z.to_nat (deg f / 2)) 1 Xpoly f MOD = (T, Pf) -> trace_ok T ->
  (0 < deg Pf -> irreducible_def Pf) -> ddf_hyp f MOD.
Proof. intros E HT HI. unfold ddf_hyp. rewrite E. cbn [fst snd]. split; assumption. Qed.

End P.

(* ================= closed statements ================= *)
(* F0 *)
Definition Euclid_irr_stmt : Prop := forall p, prime p -> forall h a b, canon p h -> irreducible_def p h -> canon p a ->
  divides p h (pmulZ a b) -> divides p h a \/ divides p h b.
Lemma euclid_irr_thm : Euclid_irr_stmt.
Proof. exact euclid. Qed.
Definition Euclid_prodl_stmt : Prop := forall p, prime p -> forall h, canon p h -> irreducible_def p h ->
  forall L, Forall (canon p) L -> divides p h (prodl L) -> exists g, In g L /\ divides p h g.
Lemma euclid_prodl_thm : Euclid_prodl_stmt.
Proof. exact euclid_prodl. Qed.
Definition Irr_divides_assoc_stmt : Prop := forall p, prime p -> forall h g, canon p h -> canon p g ->
  irreducible_def p h -> irreducible_def p g -> divides p h g -> assoc p h g.
Lemma irr_divides_assoc_thm : Irr_divides_assoc_stmt.
Proof. exact irr_divides_assoc. Qed.
Definition Exists_irr_divisor_stmt : Prop := forall p, prime p -> forall G, canon p G -> 1 <= deg G ->
  exists h, canon p h /\ irreducible_def p h /\ divides p h G.
Lemma exists_irr_divisor_thm : Exists_irr_divisor_stmt.
Proof. exact exists_irr_divisor. Qed.
(* irr_deg p d g  =  canon p g /\ irreducible_def p g /\ deg g = d *)
Definition Deg_d_divisor_irreducible_stmt : Prop := forall p, prime p -> forall G d L, canon p G -> deg G = d -> 1 <= d ->
  Forall (irr_deg p d) L -> divides p G (prodl L) -> irreducible_def p G.
Lemma deg_d_divisor_irreducible_thm : Deg_d_divisor_irreducible_stmt.
Proof. exact deg_d_divisor_irreducible. Qed.

(* F1.  split_q p d G f  =  canon p f /\ divides p f G /\ deg f = d.   No hypothesis beyond canon G: *)
Definition Split_degs_stmt : Prop := forall p, prime p -> forall fuel G d MOD L s L' s', canon p G ->
  split p fuel G d MOD L s = Some (L', s') -> exists N, L' = L ++ N /\ Forall (split_q p d G) N.
Lemma split_degs_thm : Split_degs_stmt.
Proof. exact split_degs. Qed.
(* ddf_fact p G d  =  exists L c, c mod p <> 0 /\ Forall (irr_deg p d) L /\ eqp p (pscaleZ c (prodl L)) G *)
Definition Split_irreducible_stmt : Prop := forall p, prime p -> forall fuel G d MOD L s L' s', canon p G -> 1 <= d ->
  ddf_fact p G d -> split p fuel G d MOD L s = Some (L', s') ->
  exists N, L' = L ++ N /\ eqp p (prodl N) G /\ Forall (irr_deg p d) N.
Lemma split_irreducible_thm : Split_irreducible_stmt.
Proof. exact split_irreducible. Qed.
Definition Split1_irreducible_stmt : Prop := forall p, prime p -> forall fuel G d MOD s R s', canon p G -> 1 <= d ->
  ddf_fact p G d -> split1 p fuel G d MOD s = Some (R, s') ->
  canon p R /\ divides p R G /\ (deg R = d -> irreducible_def p R).
Lemma split1_irreducible_thm : Split1_irreducible_stmt.
Proof. exact split1_irreducible. Qed.

(* F2.  The loop follows the stream-free trace; trace_ok p T = Forall (fun dg => ddf_fact p (snd dg) (fst dg)) T *)
Definition Ddf_loop_trace_stmt : Prop := forall p, prime p -> forall n dp W P MOD L s P' L' s', canon p P -> 1 <= dp ->
  ddf_loop p n dp W P MOD L s = Some (P', L', s') ->
  P' = snd (ddf_trace p n dp W P MOD) /\ canon p P' /\
  exists N, L' = L ++ N /\ Forall (fun f => canon p f /\ 1 <= deg f) N /\
    (trace_ok p (fst (ddf_trace p n dp W P MOD)) -> Forall (irreducible_def p) N).
Lemma ddf_loop_trace_thm : Ddf_loop_trace_stmt.
Proof. exact ddf_loop_trace. Qed.
(* ddf_hyp p f MOD = let r := ddf_trace p (Z.to_nat (deg f / 2)) 1 Xpoly f MOD in
                       trace_ok p (fst r) /\ (0 < deg (snd r) -> irreducible_def p (snd r)) *)
Definition Ddf_irreducible_stmt : Prop := forall p, prime p -> forall f MOD L s L' s', canon p f -> ddf_hyp p f MOD ->
  ddf p f MOD L s = Some (L', s') -> exists N, L' = L ++ N /\ Forall (fun g => canon p g /\ irreducible_def p g) N.
Lemma ddf_irreducible_thm : Ddf_irreducible_stmt.
Proof. exact ddf_irreducible. Qed.

(* F3.  cz_parts p P = the parts the repaired sqrfree hands to the loop of CZfactor *)
Definition Czfactor_rep_irreducible_stmt : Prop := forall p, prime p -> forall P MOD s Lf Le s',
  czfactor_rep p P MOD s = Some (Lf, Le, s') -> Forall (fun g => ddf_hyp p g MOD) (cz_parts p P) ->
  Forall (fun f => canon p f /\ irreducible_def p f) Lf.
Lemma czfactor_rep_irreducible_thm : Czfactor_rep_irreducible_stmt.
Proof. exact czfactor_rep_irreducible. Qed.

(* F4.  sqfree_h p g = deg (pgcd p g (pdiff p g)) <= 0;  pairwise_cop p [g1; g2; ...] = deg (pgcd p gi gj) <= 0 for i < j;
   pairwise_nonassoc p L = forall i j < length L, i <> j -> ~ assoc p (nth i L []) (nth j L []) *)
Definition Ddf_nonassoc_stmt : Prop := forall p, prime p -> forall f MOD L s L' s', canon p f -> f <> [] -> sqfree_h p f ->
  ddf p f MOD L s = Some (L', s') -> exists N, L' = L ++ N /\ pairwise_nonassoc p N.
Lemma ddf_nonassoc_thm : Ddf_nonassoc_stmt.
Proof. exact ddf_nonassoc. Qed.
Definition Czfactor_rep_nonassoc_stmt : Prop := forall p, prime p -> forall P MOD s Lf Le s', canon p P -> P <> [] ->
  czfactor_rep p P MOD s = Some (Lf, Le, s') -> Forall (sqfree_h p) (cz_parts p P) -> pairwise_cop p (cz_parts p P) ->
  pairwise_nonassoc p Lf.
Lemma czfactor_rep_nonassoc_thm : Czfactor_rep_nonassoc_stmt.
Proof. exact czfactor_rep_nonassoc. Qed.
(* the same with the boolean tests that ProofsRep.sqrfree_rep_ok sweeps *)
Definition Czfactor_rep_nonassoc_bool_stmt : Prop := forall p, prime p -> forall P MOD s Lf Le s', canon p P -> P <> [] ->
  czfactor_rep p P MOD s = Some (Lf, Le, s') ->
  forallb (fun f => deg (pgcd p f (pdiff p f)) <=? 0) (cz_parts p P) = true ->
  ProofsSweepSqr.pairwise_coprime p (cz_parts p P) = true -> pairwise_nonassoc p Lf.
Lemma czfactor_rep_nonassoc_bool_thm : Czfactor_rep_nonassoc_bool_stmt.
Proof. intros p Hp P MOD s Lf Le s' CP NP H H1 H2.
  exact (czfactor_rep_nonassoc p Hp P MOD s Lf Le s' CP NP H (sqfree_h_of_bool p _ H1) (pairwise_cop_of_bool p _ H2)). Qed.

(* ================= the hypotheses are satisfiable ================= *)
Ltac irr_lit Hpr := apply (irr_deg_intro _ Hpr); [canon_lit|vm_compute; reflexivity|reflexivity].

(* F0: X + 1 is irreducible over GF(3) and divides (X + 1)(X + 2) *)
Example euclid_irr_example : prime 3 /\ canon 3 [1; 1] /\ irreducible_def 3 [1; 1] /\ canon 3 [2; 1] /\
  divides 3 [1; 1] (pmulZ [2; 1] [1; 1]).
Proof. split; [exact prime_3|]. split; [canon_lit|]. split; [|split; [canon_lit|apply divides_factor_r]].
  apply (irreducible_b_sound 3 prime_3); [canon_lit|vm_compute; reflexivity]. Qed.

(* F1: G = X^2 + 2 = (X + 1)(X + 2) over GF(3), d = 1: the first random polynomial drawn (X + 1, from the stream
   values 1, 1) has a non-trivial gcd with G; two values of the stream are consumed *)
Example split_irreducible_example : prime 3 /\ canon 3 [2; 0; 1] /\ 1 <= 1 /\ ddf_fact 3 [2; 0; 1] 1 /\
  split 3 10 [2; 0; 1] 1 3 [] [1; 1; 2; 0; 1; 2; 2; 1; 0; 1] = Some ([[1; 1]; [2; 1]], [2; 0; 1; 2; 2; 1; 0; 1]).
Proof. split; [exact prime_3|]. split; [canon_lit|]. split; [lia|]. split; [|vm_compute; reflexivity].
  apply (ddf_fact_intro 3 prime_3 _ _ [[1; 1]; [2; 1]] 1); [vm_compute; discriminate| |vm_compute; reflexivity].
  constructor; [irr_lit prime_3|]. constructor; [irr_lit prime_3|constructor]. Qed.
(* three linear factors over GF(5) *)
Example split_irreducible_example5 : prime 5 /\ canon 5 [1; 1; 1; 1] /\ ddf_fact 5 [1; 1; 1; 1] 1 /\
  split 5 10 [1; 1; 1; 1] 1 5 [] [1; 1; 2; 0; 1; 2; 2; 1; 0; 1; 3; 4; 2; 1] =
    Some ([[3; 4]; [1; 2]; [2; 2]], [0; 1; 3; 4; 2; 1]).
Proof. split; [exact prime_5_sqr|]. split; [canon_lit|]. split; [|vm_compute; reflexivity].
  apply (ddf_fact_intro 5 prime_5_sqr _ _ [[1; 1]; [2; 1]; [3; 1]] 1); [vm_compute; discriminate| |vm_compute; reflexivity].
  constructor; [irr_lit prime_5_sqr|]. constructor; [irr_lit prime_5_sqr|]. constructor; [irr_lit prime_5_sqr|constructor]. Qed.
Example split1_irreducible_example : prime 3 /\ canon 3 [2; 0; 1] /\ ddf_fact 3 [2; 0; 1] 1 /\
  split1 3 10 [2; 0; 1] 1 3 [1; 1; 2; 0; 1; 2; 2; 1; 0; 1] = Some ([1; 1], [2; 0; 1; 2; 2; 1; 0; 1]).
Proof. split; [exact prime_3|]. split; [canon_lit|]. split; [|vm_compute; reflexivity].
  exact (proj1 (proj2 (proj2 (proj2 split_irreducible_example)))). Qed.

(* F2: f = (X + 1)(X^2 + 1) over GF(3): round 1 finds 2 (X + 1), the cofactor 2 (X^2 + 1) is irreducible *)
Example ddf_irreducible_example : prime 3 /\ canon 3 [1; 1; 1; 1] /\ ddf_hyp 3 [1; 1; 1; 1] 3 /\
  ddf_trace 3 1 1 Xpoly [1; 1; 1; 1] 3 = ([(1, [2; 2])], [2; 0; 2]) /\
  ddf 3 [1; 1; 1; 1] 3 [] [1; 2; 0] = Some ([[2; 2]; [2; 0; 2]], [1; 2; 0]).
Proof. split; [exact prime_3|]. split; [canon_lit|]. split; [|split; vm_compute; reflexivity].
  apply (ddf_hyp_intro 3 _ _ [(1, [2; 2])] [2; 0; 2]); [vm_compute; reflexivity| |].
  - constructor; [|constructor]. cbn [fst snd].
    apply (ddf_fact_intro 3 prime_3 _ _ [[1; 1]] 2); [vm_compute; discriminate| |vm_compute; reflexivity].
    constructor; [irr_lit prime_3|constructor].
  - intros _. apply (irreducible_b_sound 3 prime_3); [canon_lit|vm_compute; reflexivity]. Qed.

(* F3 + F4: P = X (X + 2) (X + 1)^2 (X^2 + 1) over GF(3).  Parts: X (X + 2)(X^2 + 1) and X + 1.  Round 1 of the first part
   gives 2 X (X + 2), which SplitFactor splits with two values of the stream; round 2 gives 2 (X^2 + 1) *)
Example czfactor_rep_factors_example : prime 3 /\ canon 3 [0; 2; 2; 0; 0; 1; 1] /\ [0; 2; 2; 0; 0; 1; 1] <> [] /\
  cz_parts 3 [0; 2; 2; 0; 0; 1; 1] = [[0; 2; 1; 2; 1]; [1; 1]] /\
  Forall (fun g => ddf_hyp 3 g 3) (cz_parts 3 [0; 2; 2; 0; 0; 1; 1]) /\
  Forall (sqfree_h 3) (cz_parts 3 [0; 2; 2; 0; 0; 1; 1]) /\ pairwise_cop 3 (cz_parts 3 [0; 2; 2; 0; 0; 1; 1]) /\
  czfactor_rep 3 [0; 2; 2; 0; 0; 1; 1] 3 [1; 2; 1; 1; 2; 0; 1; 1; 2; 0; 2; 1] =
    Some ([[2; 1]; [0; 2]; [2; 0; 2]; [1; 1]], [1; 1; 1; 2], [1; 1; 2; 0; 1; 1; 2; 0; 2; 1]).
Proof. split; [exact prime_3|]. split; [canon_lit|]. split; [discriminate|].
  assert (E : cz_parts 3 [0; 2; 2; 0; 0; 1; 1] = [[0; 2; 1; 2; 1]; [1; 1]]) by (vm_compute; reflexivity).
  split; [exact E|]. rewrite E. split; [|split; [|split]].
  - constructor; [|constructor; [|constructor]].
    + apply (ddf_hyp_intro 3 _ _ [(1, [0; 1; 2]); (2, [2; 0; 2])] [1]); [vm_compute; reflexivity| |cbn; lia].
      constructor; [|constructor; [|constructor]]; cbn [fst snd].
      * apply (ddf_fact_intro 3 prime_3 _ _ [[0; 1]; [2; 1]] 2); [vm_compute; discriminate| |vm_compute; reflexivity].
        constructor; [irr_lit prime_3|]. constructor; [irr_lit prime_3|constructor].
      * apply (ddf_fact_intro 3 prime_3 _ _ [[1; 0; 1]] 2); [vm_compute; discriminate| |vm_compute; reflexivity].
        constructor; [irr_lit prime_3|constructor].
    + apply (ddf_hyp_intro 3 _ _ [] [1; 1]); [vm_compute; reflexivity|constructor|].
      intros _. apply (irreducible_b_sound 3 prime_3); [canon_lit|vm_compute; reflexivity].
  - apply sqfree_h_of_bool. vm_compute. reflexivity.
  - apply pairwise_cop_of_bool. vm_compute. reflexivity.
  - vm_compute. reflexivity. Qed.
