(* C09 proofs, part 4: the divisor-search irreducibility checker against the definition; the order checker against
   the definition; exit conditions of the random searches. *)
From Coq Require Import ZArith List Bool Lia Znumtheory.
From C09 Require Import Model ProofsAlg ProofsDiv.
Import ListNotations.
Local Open Scope Z_scope.

Section P.
Variable p : Z.
Hypothesis Hp : prime p.
Let p_gt_1 : 1 < p. Proof. destruct Hp; assumption. Qed.
Notation eqp := (eqp p).
Notation canon := (canon p).
Notation divides := (divides p).

(* the definition *)
Definition irreducible_def (P : poly) : Prop :=
  1 <= deg P /\ forall A B, canon A -> canon B -> eqp (pmulZ A B) P -> deg A = 0 \/ deg B = 0.

(* ---- enumeration of the monic polynomials of degree k *)
Lemma in_zrange lo hi c : In c (zrange lo hi) <-> lo <= c < hi.
Proof. unfold zrange. rewrite in_map_iff. split.
  - intros [k [<- H]]. apply in_seq in H. lia.
  - intros H. exists (Z.to_nat (c - lo)). split; [lia|]. apply in_seq. lia. Qed.
Lemma in_all_lists : forall n l, In l (all_lists p n) <-> (length l = n /\ Forall (fun c => 0 <= c < p) l).
Proof. induction n as [|n IH]; intros l; cbn [all_lists].
  - split. { intros [<-|[]]. auto. } intros [H _]. destruct l; [left; reflexivity|discriminate].
  - rewrite in_flat_map. split.
    + intros [r [Hr Hl]]. apply in_map_iff in Hl. destruct Hl as [c [<- Hc]]. apply IH in Hr. apply in_zrange in Hc.
      destruct Hr. split; [cbn [length]; lia|constructor; assumption].
    + intros [H1 H2]. destruct l as [|c r]; [discriminate|]. inversion H2; subst. exists r. split.
      * apply IH. cbn [length] in H1. split; [lia|assumption].
      * apply in_map_iff. exists c. split; [reflexivity|apply in_zrange; assumption]. Qed.

Lemma monics_spec k D : In D (monics p k) <-> (canon D /\ length D = S k /\ last D 0 = 1).
Proof. unfold monics. rewrite in_map_iff. split.
  - intros [l [<- Hl]]. apply in_all_lists in Hl. destruct Hl as [L F]. split; [split|split].
    + apply Forall_app. split; [assumption|constructor; [lia|constructor]].
    + rewrite last_last. lia.
    + rewrite app_length. cbn [length]. lia.
    + apply last_last.
  - intros [[F _] [L E]]. assert (D <> []) by (destruct D; [discriminate|congruence]).
    exists (removelast D). split.
    + rewrite <- E. symmetry. apply app_removelast_last. assumption.
    + apply in_all_lists. rewrite (app_removelast_last 0 H) in L, F. rewrite app_length in L. cbn [length] in L.
      apply Forall_app in F. split; [lia|tauto]. Qed.

Lemma has_divisor_deg_true P k : has_divisor_deg p P k = true <->
  exists D, canon D /\ length D = S k /\ last D 0 = 1 /\ pmod p P D = [].
Proof. unfold has_divisor_deg. rewrite existsb_exists. split.
  - intros [D [HD E]]. apply monics_spec in HD. exists D. destruct (pmod p P D); [tauto|discriminate].
  - intros [D [C [L [M E]]]]. exists D. split; [apply monics_spec; tauto|rewrite E; reflexivity]. Qed.

(* ---- degree of a product of canonical polynomials *)
Lemma canon_mul_length A B P : canon A -> canon B -> canon P -> A <> [] -> B <> [] -> eqp (pmulZ A B) P ->
  length P = (length A + length B - 1)%nat.
Proof. intros CA CB CP HA HB E. apply Nat.le_antisymm.
  - assert (P = red p (pmulZ A B)).
    { apply (canon_unique p Hp); auto using canon_red. eapply eqp_trans; [apply eqp_sym; exact E|apply eqp_sym, eqp_red; assumption]. }
    rewrite H. etransitivity; [apply length_red_le|]. rewrite length_pmulZ by assumption. lia.
  - eapply mul_not_short; eauto. Qed.

Lemma canon_mul_nil_l B P : canon P -> eqp (pmulZ [] B) P -> P = [].
Proof. intros CP E. apply (canon_eqp_nil p Hp); auto. apply eqp_sym. exact E. Qed.

(* ---- making a canonical polynomial monic *)
Lemma length_red_eq a : a <> [] -> (last a 0) mod p <> 0 -> length (red p a) = length a.
Proof. intros Ha Hl. unfold red. rewrite norm_id; [apply map_length|].
  rewrite (last_map _ a 1 0) by assumption. assumption. Qed.
Lemma last_red a : a <> [] -> (last a 0) mod p <> 0 -> last (red p a) 0 = (last a 0) mod p.
Proof. intros Ha Hl. unfold red. rewrite norm_id.
  - apply (last_map (fun x => x mod p) a 0 0). assumption.
  - rewrite (last_map _ a 1 0) by assumption. assumption. Qed.
Lemma last_pscaleZ c (a : poly) : a <> [] -> last (pscaleZ c a) 0 = c * last a 0.
Proof. intros. unfold pscaleZ. apply (last_map (Z.mul c) a 0 0). assumption. Qed.

Lemma monic_divisor A B P : canon A -> canon B -> canon P -> (2 <= length A)%nat -> eqp (pmulZ A B) P ->
  exists D, canon D /\ length D = length A /\ last D 0 = 1 /\ pmod p P D = [].
Proof. intros CA CB CP LA E. assert (HA : A <> []) by (destruct A; [cbn in LA; lia|congruence]).
  pose proof (canon_lc p A CA HA) as Lc. set (i := inv p (lc A)).
  assert (I : (lc A * i) mod p = 1) by (apply inv_spec; [assumption|rewrite Z.mod_small by lia; lia]).
  assert (HS : pscaleZ i A <> []) by (destruct A; [congruence|cbn; congruence]).
  assert (LS : last (pscaleZ i A) 0 mod p <> 0) by (rewrite last_pscaleZ by assumption; fold (lc A); rewrite Z.mul_comm, I; lia).
  exists (red p (pscaleZ i A)). split; [apply canon_red; assumption|]. split.
  { rewrite length_red_eq by assumption. apply length_pscaleZ. } split.
  { rewrite last_red by assumption. rewrite last_pscaleZ by assumption. fold (lc A). rewrite Z.mul_comm. exact I. }
  apply (mod_zero_of_divides p Hp); auto using canon_red.
  { intro E0. apply (f_equal (@length Z)) in E0. rewrite length_red_eq, length_pscaleZ in E0 by assumption. cbn in E0. lia. }
  exists (pscaleZ (lc A) B). eapply eqp_trans; [|exact E].
  eapply eqp_trans; [apply eqp_mul; [apply eqp_red; assumption|apply eqp_refl]|].
  eapply eqp_trans with (pscaleZ (i * lc A) (pmulZ A B)).
  { apply eqp_ev. intros x. rewrite !ev_pmulZ, !ev_pscaleZ, ev_pmulZ. ring. }
  eapply eqp_trans; [apply (eqp_scale_c p Hp _ 1)|].
  { rewrite Z.mul_comm, I. symmetry. apply Z.mod_small. lia. }
  apply eqp_ev. intros x. rewrite ev_pscaleZ. ring. Qed.

Lemma forallb_false_witness P n k : (1 <= k <= n)%nat -> has_divisor_deg p P k = true ->
  forallb (fun k => negb (has_divisor_deg p P k)) (seq 1 n) = false.
Proof. intros Hk H. destruct (forallb _ _) eqn:E; [|reflexivity]. rewrite forallb_forall in E.
  specialize (E k ltac:(apply in_seq; lia)). rewrite H in E. discriminate. Qed.

Theorem irreducible_b_sound P : canon P -> irreducible_b p P = true -> irreducible_def P.
Proof. intros CP H. unfold irreducible_b in H. apply andb_true_iff in H. destruct H as [H1 H2]. apply Z.leb_le in H1.
  split; [assumption|]. intros A B CA CB E.
  destruct (Z.eq_dec (deg A) 0) as [|NA]; [auto|]. destruct (Z.eq_dec (deg B) 0) as [|NB]; [auto|]. exfalso.
  assert (HP : P <> []) by (intro; subst; cbn in H1; lia).
  assert (HA : A <> []) by (intro; subst; apply HP; eapply canon_mul_nil_l; eauto).
  assert (E' : eqp (pmulZ B A) P) by (eapply eqp_trans; [|exact E]; apply eqp_ev; intros x; rewrite !ev_pmulZ; ring).
  assert (HB : B <> []) by (intro; subst; apply HP; eapply canon_mul_nil_l; eauto).
  pose proof (canon_mul_length A B P CA CB CP HA HB E) as L.
  assert (LA : (2 <= length A)%nat) by (unfold deg in NA; destruct A as [|? [|? ?]]; cbn [length] in *; try congruence; lia).
  assert (LB : (2 <= length B)%nat) by (unfold deg in NB; destruct B as [|? [|? ?]]; cbn [length] in *; try congruence; lia).
  unfold deg in *.
  destruct (Nat.le_gt_cases (length A) (length B)).
  - destruct (monic_divisor A B P CA CB CP LA E) as [D [CD [LD [MD ED]]]].
    rewrite (forallb_false_witness P _ (length A - 1)%nat) in H2; [discriminate| |].
    + split; [lia|]. apply Nat2Z.inj_le. rewrite Z2Nat.id by (apply Z.div_pos; lia). apply Z.div_le_lower_bound; lia.
    + apply has_divisor_deg_true. exists D. repeat split; try tauto; try lia. destruct CD; assumption. destruct CD; assumption.
  - destruct (monic_divisor B A P CB CA CP LB E') as [D [CD [LD [MD ED]]]].
    rewrite (forallb_false_witness P _ (length B - 1)%nat) in H2; [discriminate| |].
    + split; [lia|]. apply Nat2Z.inj_le. rewrite Z2Nat.id by (apply Z.div_pos; lia). apply Z.div_le_lower_bound; lia.
    + apply has_divisor_deg_true. exists D. repeat split; try tauto; try lia. destruct CD; assumption. destruct CD; assumption. Qed.

Theorem irreducible_b_complete P : canon P -> irreducible_def P -> irreducible_b p P = true.
Proof. intros CP [H1 H2]. unfold irreducible_b. apply andb_true_iff. split; [apply Z.leb_le; assumption|].
  apply forallb_forall. intros k Hk. apply in_seq in Hk. destruct (has_divisor_deg p P k) eqn:E; [exfalso|reflexivity].
  apply has_divisor_deg_true in E. destruct E as [D [CD [LD [MD ED]]]].
  assert (HD : D <> []) by (destruct D; [discriminate|congruence]).
  destruct (pdivmod_spec p Hp P D CP CD HD) as [E [CQ _]]. rewrite ED in E.
  set (Q := pdiv p P D) in *.
  assert (EQ : eqp (pmulZ D Q) P).
  { apply eqp_sym. eapply eqp_trans; [exact E|]. apply eqp_ev. intros x. rewrite ev_paddZ. cbn [ev]. ring. }
  assert (HP : P <> []) by (intro; subst; cbn in H1; lia).
  assert (HQ : Q <> []).
  { intro E0. rewrite E0 in EQ. apply HP. apply (canon_eqp_nil p Hp); auto. apply eqp_sym. eapply eqp_trans; [|exact EQ].
    apply eqp_ev. intros x. rewrite ev_pmulZ. cbn [ev]. ring. }
  pose proof (canon_mul_length D Q P CD CQ CP HD HQ EQ) as L.
  assert (Hk2 : Z.of_nat k <= deg P / 2) by lia.
  destruct (H2 D Q CD CQ EQ) as [H|H]; unfold deg in *.
  - lia.
  - assert (Z.of_nat (length P) - 1 <= (Z.of_nat (length P) - 1) / 2) by lia.
    assert (0 <= Z.of_nat (length P) - 1) by lia.
    pose proof (Z.div_le_upper_bound (Z.of_nat (length P) - 1) 2 ((Z.of_nat (length P) - 1)) ltac:(lia) ltac:(lia)).
    assert ((Z.of_nat (length P) - 1) / 2 <= 0 \/ Z.of_nat (length P) - 1 = 0) by lia. lia. Qed.

(* ---- the order checker *)
Lemma npow_S A F j : (1 <= j)%nat -> npow p A F (S j) = pmod p (pmul p (npow p A F j) A) F.
Proof. intros H. destruct j; [lia|reflexivity]. Qed.

Lemma brute_order_loop_spec A F : forall fuel j, (1 <= j)%nat ->
  (forall i, (1 <= i < j)%nat -> npow p A F i <> pone) ->
  let r := brute_order_loop p fuel A F (npow p A F j) (Z.of_nat j) in
  (r = 0 /\ forall i, (1 <= i < j + fuel)%nat -> npow p A F i <> pone) \/
  (exists m, r = Z.of_nat m /\ (j <= m)%nat /\ npow p A F m = pone /\ forall i, (1 <= i < m)%nat -> npow p A F i <> pone).
Proof. induction fuel as [|f IH]; intros j Hj Hn; cbn [brute_order_loop].
  - left. split; [reflexivity|]. intros i Hi. apply Hn. lia.
  - destruct (list_eq_dec Z.eq_dec (npow p A F j) pone) as [E|E].
    + right. exists j. auto.
    + rewrite <- npow_S by assumption. replace (Z.of_nat j + 1) with (Z.of_nat (S j)) by lia.
      destruct (IH (S j) ltac:(lia)) as [[R H]|[m [R [H1 [H2 H3]]]]].
      * intros i Hi. destruct (Nat.eq_dec i j); [subst; assumption|apply Hn; lia].
      * left. split; [assumption|]. intros i Hi. apply H. lia.
      * right. exists m. repeat split; auto. lia. Qed.

(* brute_order A F bound: the least m in [1, bound] with (A mod F)^m = 1 modulo F, or 0 when there is none *)
Theorem brute_order_spec A F bound :
  let A' := pmod p A F in
  let r := brute_order p A F bound in
  (r = 0 /\ forall i, (1 <= i <= Z.to_nat bound)%nat -> npow p A' F i <> pone) \/
  (exists m, r = Z.of_nat m /\ (1 <= m)%nat /\ npow p A' F m = pone /\ forall i, (1 <= i < m)%nat -> npow p A' F i <> pone).
Proof. intros A' r. unfold r, brute_order. fold A'.
  destruct (brute_order_loop_spec A' F (Z.to_nat bound) 1 ltac:(lia) ltac:(intros; lia)) as [[R H]|[m [R [H1 [H2 H3]]]]].
  - left. split; [exact R|]. intros i Hi. apply H. lia.
  - right. exists m. auto. Qed.

(* ---- exit condition of the random search: what it returns passed the test and has the requested shape *)
Lemma set_coef_length R : forall i a, length (set_coef R i a) = length R.
Proof. induction R as [|x R IH]; intros [|i] a; cbn [set_coef length]; auto. Qed.
Lemma try_rand_const_spec test : forall n R s R' s', try_rand_const p test R n s = Some (true, R', s') ->
  test R' = true /\ length R' = length R.
Proof. induction n as [|n IH]; intros R s R' s' H; cbn [try_rand_const] in H; [discriminate|].
  destruct s as [|x s]; [discriminate|]. destruct (test (set_coef R 0 (x mod p))) eqn:T.
  - inversion H; subst. split; [assumption|apply set_coef_length].
  - apply IH in H. rewrite set_coef_length in H. assumption. Qed.
Lemma rand_coefs_length : forall n s acc P s', rand_coefs p n s acc = Some (P, s') -> length P = (n + length acc)%nat.
Proof. induction n as [|n IH]; intros s acc P s' H; cbn [rand_coefs] in H. { inversion H; reflexivity. }
  destruct s; [discriminate|]. apply IH in H. cbn [length] in H. lia. Qed.
Theorem find_irred_randomial_spec test n NUM : forall fuel s R s',
  find_irred_randomial p fuel test n NUM s = Some (R, s') -> test R = true /\ length R = S n.
Proof. induction fuel as [|f IH]; intros s R s' H; cbn [find_irred_randomial] in H; [discriminate|].
  destruct (random_poly p n s) as [[R0 s1]|] eqn:E0; [|discriminate].
  destruct (try_rand_const p test (set_coef R0 n 1) (Z.to_nat NUM) s1) as [[[b R1] s2]|] eqn:E1; [|discriminate].
  destruct b.
  - inversion H; subst. apply try_rand_const_spec in E1. rewrite set_coef_length in E1. destruct E1 as [T L]. split; [assumption|].
    rewrite L. unfold random_poly in E0. destruct (nonzero_rand p s) as [[l s0]|]; [|discriminate].
    apply rand_coefs_length in E0. cbn [length] in E0. lia.
  - eauto. Qed.

Corollary random_irreducible_spec n MOD s R s' : random_irreducible p n MOD s = Some (R, s') ->
  is_irreducible p (norm R) MOD = true /\ length R = S n.
Proof. apply find_irred_randomial_spec. Qed.

End P.
