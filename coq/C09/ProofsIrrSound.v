(* C09 proofs, part 12: SOUNDNESS of the implemented irreducibility test (givpoly1factor.inl is_irreducible as modelled by
   Model.is_irreducible / irr_loop) for EVERY prime p and EVERY degree:  is_irreducible p P p = true  ->  P is irreducible.
   Route: a reducible P has a factor of degree <= deg P / 2, which has an irreducible divisor g of degree i <= deg P / 2
   (strong induction with the decidable divisor search irreducible_b); by Lagrange (ProofsLagrange.v) g | X^(p^i) - X; the
   loop's W after i rounds is X^(p^i) mod P (ppowmod_mul), so g | gcd(W_i - X, P) and the loop answers false at round i.
   Corollaries: what random_irreducible / creux_random_irreducible / ixe_irreducible return IS irreducible of the requested
   degree (ixe: and X generates the multiplicative group); give_prim_root / give_random_prim_root return a generator.
   Completeness of the test is NOT proved here.  Nothing is computed except in the `Example`s. *)
From Coq Require Import ZArith List Bool Lia Znumtheory.
From C09 Require Import Model ProofsAlg ProofsDiv ProofsSplit ProofsCZ ProofsIrr ProofsReq ProofsPow ProofsOrd ProofsSqr ProofsRep2
  ProofsLagrange.
Import ListNotations.
Local Open Scope Z_scope.
Ltac Zify.zify_post_hook ::= Z.div_mod_to_equations.

Lemma forallb_false_ex (A : Type) (f : A -> bool) : forall l, forallb f l = false -> exists x, In x l /\ f x = false.
Proof. induction l as [|a l IH]; cbn [forallb]; [discriminate|]. destruct (f a) eqn:E; cbn [andb].
  - intros H. destruct (IH H) as [x [Hx Fx]]. exists x. split; [right; assumption|assumption].
  - intros _. exists a. split; [left; reflexivity|assumption]. Qed.

Section P.
Variable p : Z.
Hypothesis Hp : prime p.
Let p_gt_1 : 1 < p. Proof. destruct Hp; assumption. Qed.
Notation eqp := (eqp p).
Notation canon := (canon p).
Notation cong := (cong p).
Notation divides := (divides p).

(* ---- a canonical polynomial of degree >= 1 is irreducible or has a divisor of smaller positive degree *)
Lemma pmod_nil_divides P D : canon P -> canon D -> D <> [] -> pmod p P D = [] -> divides D P.
Proof. intros CP CD ND E. destruct (pdivmod_spec p Hp P D CP CD ND) as [H _]. rewrite E in H.
  exists (pdiv p P D). apply eqp_sym. eapply eqp_trans; [exact H|]. evring. Qed.

Lemma reducible_divisor P : canon P -> 1 <= deg P -> irreducible_b p P = false ->
  exists D, canon D /\ (2 <= length D)%nat /\ (length D < length P)%nat /\ divides D P /\ 2 * deg D <= deg P.
Proof. intros CP HP H. unfold irreducible_b in H. apply andb_false_iff in H. destruct H as [H|H]; [apply Z.leb_gt in H; lia|].
  apply forallb_false_ex in H. destruct H as [k [Hk H]]. apply in_seq in Hk. apply negb_false_iff in H.
  apply (has_divisor_deg_true p Hp) in H. destruct H as [D [CD [LD [_ ED]]]].
  assert (ND : D <> []) by (destruct D; [discriminate|congruence]).
  assert (Hk2 : Z.of_nat k <= deg P / 2) by lia.
  exists D. split; [assumption|]. unfold deg in *. split; [lia|]. split; [lia|]. split; [|lia].
  apply pmod_nil_divides; assumption. Qed.

(* every canonical polynomial of degree >= 1 has an irreducible divisor *)
Lemma exists_irreducible_divisor : forall n P, (length P <= n)%nat -> canon P -> (2 <= length P)%nat ->
  exists g, canon g /\ irreducible_def p g /\ divides g P.
Proof. induction n as [|n IH]; intros P Ln CP LP; [lia|].
  destruct (irreducible_b p P) eqn:E.
  - exists P. split; [assumption|]. split; [apply (irreducible_b_sound p Hp); assumption|apply divides_refl].
  - destruct (reducible_divisor P CP ltac:(unfold deg; lia) E) as [D [CD [LD [LD' [DD _]]]]].
    destruct (IH D ltac:(lia) CD LD) as [g [Cg [Ig Dg]]]. exists g. split; [assumption|]. split; [assumption|].
    eapply divides_trans; eassumption. Qed.

(* ---- congruences modulo a divisor *)
Lemma cong_divides g P a b : divides g P -> cong P a b -> cong g a b.
Proof. intros [t Ht] [q Hq]. exists (pmulZ t q). eapply eqp_trans; [exact Hq|].
  apply eqp_add; [|apply eqp_refl]. eapply eqp_trans; [apply eqp_mul; [apply eqp_sym; exact Ht|apply eqp_refl]|]. evring. Qed.
Lemma cong_divides_sub g a b : cong g a b -> divides g (psub p a b).
Proof. intros [q Hq]. exists q. apply eqp_sym. unfold psub. eapply eqp_trans; [apply eqp_red; assumption|].
  eapply eqp_trans; [apply eqp_add; [exact Hq|apply eqp_refl]|]. evring. Qed.

(* X^(p^i) = X modulo an irreducible g of degree i, read modulo any multiple P of g *)
Lemma irreducible_divides_frob g P : canon g -> irreducible_def p g -> canon P -> (2 <= length P)%nat -> divides g P ->
  divides g (psub p (ppowmod p Xpoly (p ^ deg g) P) Xpoly).
Proof. intros Cg Ig CP LP Dg. pose proof (irreducible_len p g Ig) as Lg. pose proof (len2_nonnil g Lg) as Ng.
  pose proof (canon_Xpoly p Hp) as CX.
  assert (Hn : 0 <= p ^ deg g) by (apply Z.pow_nonneg; lia).
  destruct (ppowmod_spec p Hp Xpoly P _ CX CP LP Hn) as [H1 _].
  destruct (ppowmod_spec p Hp Xpoly g _ CX Cg Lg Hn) as [H2 _].
  rewrite (frobenius_fixed p Hp g Xpoly Cg Lg Ig CX) in H2.
  apply cong_divides_sub.
  eapply cong_trans; [apply cong_sym; apply (cong_divides g P _ _ Dg H1)|].
  eapply cong_trans; [exact H2|]. apply cong_sym. apply cong_pmod; assumption. Qed.

(* ---- the loop of is_irreducible: with W = X^(p^k) mod P on entry, answering true means that none of the next n gcds
   gcd(X^(p^(k+j)) - X, P), j = 1..n, has positive degree *)
Lemma irr_loop_true P : canon P -> (2 <= length P)%nat -> forall n k, 0 <= k ->
  irr_loop p n (ppowmod p Xpoly (p ^ k) P) P p = true ->
  forall j, 1 <= j <= Z.of_nat n -> deg (pgcd p (psub p (ppowmod p Xpoly (p ^ (k + j)) P) Xpoly) P) <= 0.
Proof. intros CP LP. pose proof (canon_Xpoly p Hp) as CX. induction n as [|n IH]; intros k Hk H j Hj; [lia|].
  cbn [irr_loop] in H. cbv zeta in H.
  rewrite <- (ppowmod_mul p Hp Xpoly P (p ^ k) p CX CP LP ltac:(apply Z.pow_nonneg; lia) ltac:(lia)) in H.
  replace (p ^ k * p) with (p ^ (k + 1)) in H by (rewrite Z.pow_add_r, Z.pow_1_r by lia; reflexivity).
  destruct (Z.gtb_spec (deg (pgcd p (psub p (ppowmod p Xpoly (p ^ (k + 1)) P) Xpoly) P)) 0) as [G|G]; [discriminate|].
  destruct (Z.eq_dec j 1) as [->|Nj]; [assumption|].
  replace (k + j) with ((k + 1) + (j - 1)) by lia. apply IH; [lia|assumption|lia]. Qed.

Lemma Xpoly_is_pow0 P : canon P -> (3 <= length P)%nat -> ppowmod p Xpoly (p ^ 0) P = Xpoly.
Proof. intros CP LP. pose proof (canon_Xpoly p Hp) as CX. rewrite Z.pow_0_r.
  apply (ppowmod_char p Hp); try assumption; [lia|lia|].
  apply cong_of_eqp. change (Z.to_nat 1) with 1%nat. cbn [pwr]. evring. Qed.

(* no factor of degree <= deg P / 2 survives the loop *)
Lemma no_small_divisor P A : canon P -> (3 <= length P)%nat ->
  irr_loop p (Z.to_nat (deg P / 2)) Xpoly P p = true ->
  canon A -> (2 <= length A)%nat -> divides A P -> 2 * deg A <= deg P -> False.
Proof. intros CP LP H CA LA DA HA.
  assert (NA : A <> []) by (apply len2_nonnil; assumption).
  assert (NP : P <> []) by (apply len2_nonnil; lia).
  destruct (exists_irreducible_divisor (length A) A (le_n _) CA LA) as [g [Cg [Ig Dg]]].
  pose proof (irreducible_len p g Ig) as Lg.
  pose proof (divides_length_le p Hp g A Cg CA NA Dg) as LgA.
  assert (DgP : divides g P) by (eapply divides_trans; eassumption).
  rewrite <- (Xpoly_is_pow0 P CP LP) in H.
  assert (Hi : 1 <= deg g <= Z.of_nat (Z.to_nat (deg P / 2))) by (unfold deg in *; lia).
  pose proof (irr_loop_true P CP ltac:(lia) _ 0 ltac:(lia) H (deg g) Hi) as G. rewrite Z.add_0_l in G.
  pose proof (irreducible_divides_frob g P Cg Ig CP ltac:(lia) DgP) as D1.
  set (S := psub p (ppowmod p Xpoly (p ^ deg g) P) Xpoly) in *.
  assert (CS : canon S) by (apply canon_red; assumption).
  pose proof (pgcd_greatest p Hp S P g CS CP Cg D1 DgP) as D2.
  pose proof (pgcd_canon p Hp S P CS CP) as CG. pose proof (pgcd_nonnil p S P (or_intror NP)) as NG.
  pose proof (divides_length_le p Hp g _ Cg CG NG D2) as L. unfold deg in G. lia. Qed.

Theorem is_irreducible_sound P : canon P -> is_irreducible p P p = true -> irreducible_def p P.
Proof. intros CP H. unfold is_irreducible in H.
  destruct (Z.ltb_spec (deg P) 1) as [|H1]; [discriminate|]. cbv zeta in H.
  destruct (deg (pgcd p (pdiff p P) P) >? 0); [discriminate|].
  split; [assumption|]. intros A B CA CB E.
  destruct (Z.eq_dec (deg A) 0) as [|NA]; [auto|]. destruct (Z.eq_dec (deg B) 0) as [|NB]; [auto|]. exfalso.
  assert (HP : P <> []) by (intro; subst; cbn in H1; lia).
  assert (HA : A <> []) by (intro; subst; apply HP; eapply (canon_mul_nil_l p Hp); eauto).
  assert (E' : eqp (pmulZ B A) P) by (eapply eqp_trans; [|exact E]; evring).
  assert (HB : B <> []) by (intro; subst; apply HP; eapply (canon_mul_nil_l p Hp); eauto).
  pose proof (canon_mul_length p Hp A B P CA CB CP HA HB E) as L.
  assert (LA : (2 <= length A)%nat) by (unfold deg in NA; destruct A as [|? [|? ?]]; cbn [length] in *; try congruence; lia).
  assert (LB : (2 <= length B)%nat) by (unfold deg in NB; destruct B as [|? [|? ?]]; cbn [length] in *; try congruence; lia).
  destruct (Nat.le_gt_cases (length A) (length B)).
  - apply (no_small_divisor P A); try assumption; [lia|exists B; assumption|unfold deg; lia].
  - apply (no_small_divisor P B); try assumption; [lia|exists A; assumption|unfold deg; lia]. Qed.

End P.

Definition Is_irreducible_sound_stmt : Prop := forall p, prime p -> forall P, canon p P ->
  is_irreducible p P p = true -> irreducible_def p P.
Lemma is_irreducible_sound_thm : Is_irreducible_sound_stmt.
Proof. exact is_irreducible_sound. Qed.

(* every canonical polynomial of degree >= 1 has a (canonical) irreducible divisor *)
Definition Irreducible_divisor_stmt : Prop := forall p, prime p -> forall P, canon p P -> (2 <= length P)%nat ->
  exists g, canon p g /\ irreducible_def p g /\ divides p g P.
Lemma irreducible_divisor_thm : Irreducible_divisor_stmt.
Proof. intros p Hp P CP LP. apply (exists_irreducible_divisor p Hp (length P)); auto. Qed.

(* ================= corollaries: the searches return irreducible polynomials / generators ================= *)
(* ---- everything a search writes into R is a reduced coefficient *)
Lemma set_coef_Forall (Q : Z -> Prop) : forall R i a, Forall Q R -> Q a -> Forall Q (set_coef R i a).
Proof. induction R as [|x R IH]; intros [|i] a H Ha; cbn [set_coef]; try assumption; inversion H; subst; constructor; auto. Qed.

Lemma try_const_Forall (Q : Z -> Prop) test : forall l R b R', Forall Q R -> (forall a, In a l -> Q a) ->
  try_const test R l = (b, R') -> Forall Q R'.
Proof. induction l as [|a l IH]; intros R b R' HR Hl H; cbn [try_const] in H.
  - inversion H; subst; assumption.
  - assert (HS : Forall Q (set_coef R 0 a)) by (apply set_coef_Forall; [assumption|apply Hl; left; reflexivity]).
    destruct (test (set_coef R 0 a)).
    + inversion H; subst; assumption.
    + eapply IH; [exact HS| |exact H]. intros; apply Hl; right; assumption. Qed.

Lemma try_mid_Forall (Q : Z -> Prop) test d MOD : forall bs R b R', Forall Q R -> (forall a, In a bs -> Q a) ->
  (forall a, In a (zrange 1 MOD) -> Q a) -> try_mid test R d bs MOD = (b, R') -> Forall Q R'.
Proof. induction bs as [|x bs IH]; intros R b R' HR Hb Hm H; cbn [try_mid] in H.
  - inversion H; subst; assumption.
  - destruct (try_const test (set_coef R d x) (zrange 1 MOD)) as [[|] R1] eqn:E;
      (apply (try_const_Forall Q) in E; [|apply set_coef_Forall; [assumption|apply Hb; left; reflexivity]|assumption]).
    + inversion H; subst; assumption.
    + eapply IH; [exact E| |assumption|exact H]. intros; apply Hb; right; assumption. Qed.

Lemma find_irred_trinomial_Forall (Q : Z -> Prop) test MOD : Q 0 -> (forall a, In a (zrange 0 MOD) -> Q a) ->
  forall ds R b R', Forall Q R -> find_irred_trinomial test R ds MOD = (b, R') -> Forall Q R'.
Proof. intros Q0 Hm.
  assert (Hm1 : forall a, In a (zrange 1 MOD) -> Q a) by (intros a Ha; apply Hm; apply in_zrange in Ha; apply in_zrange; lia).
  induction ds as [|d ds IH]; intros R b R' HR H; cbn [find_irred_trinomial] in H.
  - inversion H; subst; assumption.
  - destruct (try_mid test R (Z.to_nat d) (zrange 0 MOD) MOD) as [[|] R1] eqn:E; apply (try_mid_Forall Q) in E; try assumption.
    + inversion H; subst; assumption.
    + eapply IH; [|exact H]. apply set_coef_Forall; assumption. Qed.

Lemma try_rand_const_Forall p (Q : Z -> Prop) test : (forall x, Q (x mod p)) -> forall n R s b R' s', Forall Q R ->
  try_rand_const p test R n s = Some (b, R', s') -> Forall Q R'.
Proof. intros HQ. induction n as [|n IH]; intros R s b R' s' HR H; cbn [try_rand_const] in H. { inversion H; subst; assumption. }
  destruct s as [|x s]; [discriminate|].
  assert (HS : Forall Q (set_coef R 0 (x mod p))) by (apply set_coef_Forall; [assumption|apply HQ]).
  destruct (test (set_coef R 0 (x mod p))); [inversion H; subst; assumption|eapply IH; eassumption]. Qed.

Lemma shape_norm (R : poly) n : length R = S n -> nth n R 0 = 1 -> norm R = R.
Proof. intros L H. apply norm_id. assert (NR : R <> []) by (destruct R; discriminate).
  rewrite <- (nth_last R 1 NR). replace (length R - 1)%nat with n by lia. rewrite (nth_indep R 1 0) by lia. lia. Qed.

Section Req.
Local Ltac blia := cbv beta in *; lia.
Variable p : Z.
Hypothesis Hp : prime p.
Let p_gt_1 : 1 < p. Proof. destruct Hp; assumption. Qed.
Notation canon := (canon p).
Notation rng := (fun c : Z => 0 <= c < p).

Lemma rng_mod x : rng (x mod p).
Proof. apply Z.mod_pos_bound. blia. Qed.
Lemma rng_zrange lo a : 0 <= lo -> In a (zrange lo p) -> rng a.
Proof. intros H Ha. apply in_zrange in Ha. blia. Qed.
Lemma monomial_range n : Forall rng (monomial n).
Proof. unfold monomial. apply Forall_app. split; [|constructor; [blia|constructor]].
  apply Forall_forall. intros c Hc. apply repeat_spec in Hc. blia. Qed.
Lemma random_poly_range d s R0 s1 : random_poly p d s = Some (R0, s1) -> Forall rng R0.
Proof. unfold random_poly. destruct (nonzero_rand p s) as [[l s0]|] eqn:E; [|discriminate]. intros H.
  eapply (rand_coefs_range p Hp); [exact H|]. constructor; [|constructor]. eapply (nonzero_rand_range p Hp); eassumption. Qed.
Lemma range_canon_norm R : Forall rng R -> canon (norm R).
Proof. intros H. split; [apply norm_Forall; assumption|apply norm_last]. Qed.

Lemma find_irred_randomial_range test n NUM : forall fuel s R s',
  find_irred_randomial p fuel test n NUM s = Some (R, s') -> Forall rng R.
Proof. induction fuel as [|f IH]; intros s R s' H; cbn [find_irred_randomial] in H; [discriminate|].
  destruct (random_poly p n s) as [[R0 s1]|] eqn:E0; [|discriminate].
  destruct (try_rand_const p test (set_coef R0 n 1) (Z.to_nat NUM) s1) as [[[b R1] s2]|] eqn:E1; [|discriminate].
  destruct b; [|eauto]. inversion H; subst.
  eapply (try_rand_const_Forall p rng); [exact rng_mod| |exact E1].
  apply set_coef_Forall; [eapply random_poly_range; eassumption|blia]. Qed.

Lemma three_stage_range test n ds s R s' :
  match find_irred_binomial test (monomial n) p with
  | (true, R) => Some (R, s)
  | (false, R) => match find_irred_trinomial test R ds p with
                  | (true, R') => Some (R', s)
                  | (false, _) => find_irred_randomial p (S (length s)) test n p s
                  end
  end = Some (R, s') -> Forall rng R.
Proof. unfold find_irred_binomial. intros H.
  destruct (try_const test (monomial n) (zrange 0 p)) as [[|] R1] eqn:E1;
    (apply (try_const_Forall rng) in E1; [|apply monomial_range|intros a; apply rng_zrange; blia]).
  - inversion H; subst; assumption.
  - destruct (find_irred_trinomial test R1 ds p) as [[|] R2] eqn:E2.
    + inversion H; subst. eapply (find_irred_trinomial_Forall rng); [blia|intros a; apply rng_zrange; blia|exact E1|exact E2].
    + eapply find_irred_randomial_range; eassumption. Qed.

(* what the three irreducible-polynomial requests return *)
Lemma irreducible_shape R n : Forall rng R -> is_irreducible p (norm R) p = true -> length R = S n ->
  (1 <= n)%nat /\ irreducible_def p (norm R).
Proof. intros HR T L. pose proof (is_irreducible_sound p Hp (norm R) (range_canon_norm R HR) T) as HI. split; [|assumption].
  destruct HI as [H _]. pose proof (length_norm R). unfold deg in H. blia. Qed.

Theorem random_irreducible_correct n s R s' : random_irreducible p n p s = Some (R, s') ->
  (1 <= n)%nat /\ length R = S n /\ nth n R 0 = 1 /\ norm R = R /\ canon R /\ deg R = Z.of_nat n /\ irreducible_def p R.
Proof. intros H. pose proof (find_irred_randomial_range _ _ _ _ _ _ _ H) as HR.
  destruct (random_irreducible_spec p n p s R s' H) as [T L].
  destruct (irreducible_shape R n HR T L) as [Hn HI].
  destruct (random_irreducible_shape p n p s R s' Hn H) as [_ [_ K]].
  pose proof (shape_norm R n L K) as EN. rewrite EN in HI. pose proof (range_canon_norm R HR) as CR. rewrite EN in CR.
  repeat split; try assumption; try (apply CR); try (apply HI). unfold deg. blia. Qed.

Theorem creux_random_irreducible_correct n s R s' : (1 <= n)%nat -> creux_random_irreducible p n p s = Some (R, s') ->
  length R = S n /\ nth n R 0 = 1 /\ norm R = R /\ canon R /\ deg R = Z.of_nat n /\ irreducible_def p R.
Proof. intros Hn H. destruct (creux_random_irreducible_spec p n p s R s' Hn H) as [T [L K]].
  assert (HR : Forall rng R) by (eapply three_stage_range; exact H).
  destruct (irreducible_shape R n HR T L) as [_ HI].
  pose proof (shape_norm R n L K) as EN. rewrite EN in HI. pose proof (range_canon_norm R HR) as CR. rewrite EN in CR.
  repeat split; try assumption; try (apply CR); try (apply HI). unfold deg. blia. Qed.

(* an element accepted by is_prim_root is not divisible by F *)
Lemma is_prim_root_nonzero A F MOD : (2 <= length F)%nat -> is_prim_root p A F MOD = true -> pmod p A F <> [].
Proof. intros LF H E. unfold is_prim_root in H. rewrite E in H.
  change (pgcd p [] F) with F in H. destruct (Z.eqb_spec (deg F) 0) as [E0|_]; [unfold deg in E0; blia|discriminate]. Qed.

(* is_prim_root accepted, F irreducible: the element has multiplicative order EXACTLY p^deg F - 1 *)
Theorem prim_root_generates A F : canon A -> canon F -> irreducible_def p F -> is_prim_root p A F p = true ->
  pmod p A F <> [] /\ ppowmod p (pmod p A F) (p ^ deg F - 1) F = pone /\
  forall m, 0 < m < p ^ deg F - 1 -> ppowmod p (pmod p A F) m F <> pone.
Proof. intros CA CF HI T. pose proof (irreducible_len p F HI) as LF. pose proof (len2_nonnil F LF) as NF.
  pose proof (is_prim_root_nonzero A F p LF T) as NA. split; [assumption|]. split.
  - destruct (pdivmod_spec p Hp A F CA CF NF) as [_ [_ [CR LR]]]. apply (lagrange p Hp); assumption.
  - apply (prim_root_order_uncond p Hp A F CA CF HI NA). assumption. Qed.

Theorem ixe_irreducible_correct n s R s' : (1 <= n)%nat -> ixe_irreducible p n p s = Some (R, s') ->
  length R = S n /\ nth n R 0 = 1 /\ norm R = R /\ canon R /\ deg R = Z.of_nat n /\ irreducible_def p R /\
  pmod p Xpoly R <> [] /\ ppowmod p (pmod p Xpoly R) (p ^ Z.of_nat n - 1) R = pone /\
  forall m, 0 < m < p ^ Z.of_nat n - 1 -> ppowmod p (pmod p Xpoly R) m R <> pone.
Proof. intros Hn H. destruct (ixe_irreducible_spec p n p s R s' Hn H) as [T [T2 [L K]]].
  assert (HR : Forall rng R) by (eapply three_stage_range; exact H).
  destruct (irreducible_shape R n HR T L) as [_ HI].
  pose proof (shape_norm R n L K) as EN. rewrite EN in HI, T2. pose proof (range_canon_norm R HR) as CR. rewrite EN in CR.
  assert (ED : deg R = Z.of_nat n) by (unfold deg; blia).
  destruct (prim_root_generates Xpoly R (canon_Xpoly p Hp) CR HI T2) as [G1 [G2 G3]]. rewrite ED in G2, G3.
  repeat split; try assumption; try (apply CR); try (apply HI). Qed.

(* ---- primitive-root requests *)
Lemma gpr_binomials_range F : forall dis R, gpr_binomials p F p dis = Some R -> Forall rng R.
Proof. induction dis as [|di dis IH]; intros R H; cbn [gpr_binomials] in H; [discriminate|].
  destruct (try_const _ _ _) as [[|] R1] eqn:E; [|auto]. inversion H; subst.
  apply (try_const_Forall rng) in E; [exact E|apply monomial_range|intros a; apply rng_zrange; blia]. Qed.

Lemma gpr_mid_range F : forall djs R b R', Forall rng R -> gpr_mid p F p R djs = (b, R') -> Forall rng R'.
Proof. induction djs as [|dj djs IH]; intros R b R' HR H; cbn [gpr_mid] in H. { inversion H; subst; assumption. }
  match type of H with match ?f R ?l with _ => _ end = _ =>
    assert (Hin : forall l0 R0 b0 R0', Forall rng R0 -> (forall a, In a l0 -> rng a) -> f R0 l0 = (b0, R0') -> Forall rng R0');
    [|destruct (f R l) as [[|] R1] eqn:E] end.
  - induction l0 as [|x l0 IHl]; intros R0 b0 R0' HR0 Hl0 H0; cbn in H0. { inversion H0; subst; assumption. }
    destruct (try_const _ _ _) as [[|] R2] eqn:E2;
      (apply (try_const_Forall rng) in E2; [|apply set_coef_Forall; [assumption|apply Hl0; left; reflexivity]|intros a; apply rng_zrange; blia]).
    + inversion H0; subst. assumption.
    + eapply IHl; [exact E2| |exact H0]. intros; apply Hl0; right; assumption.
  - inversion H; subst. eapply Hin; [exact HR| |exact E]. intros a; apply rng_zrange; blia.
  - eapply IH; [|exact H]. eapply Hin; [exact HR| |exact E]. intros a; apply rng_zrange; blia. Qed.

Lemma gpr_trinomials_range F : forall dis R, gpr_trinomials p F p dis = Some R -> Forall rng R.
Proof. induction dis as [|di dis IH]; intros R H; cbn [gpr_trinomials] in H; [discriminate|].
  destruct (gpr_mid p F p (monomial (Z.to_nat di)) (zrange 1 di)) as [[|] R1] eqn:E; [|auto].
  inversion H; subst. eapply gpr_mid_range; [apply monomial_range|exact E]. Qed.

Lemma gpr_random_range F n : forall fuel s R s', gpr_random p fuel F n p s = Some (R, s') -> Forall rng R.
Proof. induction fuel as [|f IH]; intros s R s' H; cbn [gpr_random] in H; [discriminate|].
  destruct (random_poly p n s) as [[R0 s1]|] eqn:E0; [|discriminate].
  destruct (try_const _ _ _) as [[|] R1] eqn:E; [|eauto]. inversion H; subst.
  apply (try_const_Forall rng) in E; [exact E| |intros a; apply rng_zrange; blia].
  apply set_coef_Forall; [eapply random_poly_range; eassumption|blia]. Qed.

Lemma give_prim_root_range F s R s' : give_prim_root p F p s = Some (R, s') -> Forall rng R.
Proof. unfold give_prim_root. cbv zeta. destruct (gpr_binomials p F p _) as [R1|] eqn:E1.
  - intros H. inversion H; subst. eapply gpr_binomials_range; eassumption.
  - destruct (gpr_trinomials p F p _) as [R2|] eqn:E2.
    + intros H. inversion H; subst. eapply gpr_trinomials_range; eassumption.
    + apply gpr_random_range. Qed.

Theorem give_random_prim_root_correct F s R s' : canon F -> irreducible_def p F -> give_random_prim_root p F p s = Some (R, s') ->
  canon (norm R) /\ pmod p (norm R) F <> [] /\ ppowmod p (pmod p (norm R) F) (p ^ deg F - 1) F = pone /\
  forall m, 0 < m < p ^ deg F - 1 -> ppowmod p (pmod p (norm R) F) m F <> pone.
Proof. intros CF HI H. pose proof (range_canon_norm R (gpr_random_range _ _ _ _ _ _ H)) as CR. split; [assumption|].
  apply prim_root_generates; try assumption. eapply give_random_prim_root_spec; eassumption. Qed.

Theorem give_prim_root_correct F s R s' : canon F -> irreducible_def p F -> give_prim_root p F p s = Some (R, s') ->
  canon (norm R) /\ pmod p (norm R) F <> [] /\ ppowmod p (pmod p (norm R) F) (p ^ deg F - 1) F = pone /\
  forall m, 0 < m < p ^ deg F - 1 -> ppowmod p (pmod p (norm R) F) m F <> pone.
Proof. intros CF HI H. pose proof (range_canon_norm R (give_prim_root_range _ _ _ _ H)) as CR. split; [assumption|].
  apply prim_root_generates; try assumption. eapply give_prim_root_spec; eassumption. Qed.

(* random_prim_root = random_irreducible then give_prim_root *)
Theorem random_prim_root_correct n s P R s' : random_prim_root p n p s = Some (P, R, s') ->
  length P = S n /\ nth n P 0 = 1 /\ canon P /\ deg P = Z.of_nat n /\ irreducible_def p P /\
  canon (norm R) /\ pmod p (norm R) P <> [] /\ ppowmod p (pmod p (norm R) P) (p ^ Z.of_nat n - 1) P = pone /\
  forall m, 0 < m < p ^ Z.of_nat n - 1 -> ppowmod p (pmod p (norm R) P) m P <> pone.
Proof. intros H. unfold random_prim_root in H.
  destruct (random_irreducible p n p s) as [[P0 s1]|] eqn:E1; [|discriminate].
  destruct (give_prim_root p (norm P0) p s1) as [[R0 s2]|] eqn:E2; [|discriminate]. inversion H; subst.
  destruct (random_irreducible_correct _ _ _ _ E1) as [_ [L [K [EN [CP [ED HI]]]]]]. rewrite EN in E2.
  destruct (give_prim_root_correct P s1 R s' CP HI E2) as [G0 [G1 [G2 G3]]]. rewrite ED in G2, G3.
  repeat split; try assumption; try (apply CP); try (apply G0); try (apply HI). Qed.

End Req.

(* ================= closed statements ================= *)
Definition Random_irreducible_correct_stmt : Prop := forall p, prime p -> forall n s R s',
  random_irreducible p n p s = Some (R, s') ->
  (1 <= n)%nat /\ length R = S n /\ nth n R 0 = 1 /\ norm R = R /\ canon p R /\ deg R = Z.of_nat n /\ irreducible_def p R.
Lemma random_irreducible_correct_thm : Random_irreducible_correct_stmt.
Proof. exact random_irreducible_correct. Qed.

Definition Creux_random_irreducible_correct_stmt : Prop := forall p, prime p -> forall n s R s', (1 <= n)%nat ->
  creux_random_irreducible p n p s = Some (R, s') ->
  length R = S n /\ nth n R 0 = 1 /\ norm R = R /\ canon p R /\ deg R = Z.of_nat n /\ irreducible_def p R.
Lemma creux_random_irreducible_correct_thm : Creux_random_irreducible_correct_stmt.
Proof. exact creux_random_irreducible_correct. Qed.

(* ixe_irreducible: R monic irreducible of degree n AND X has multiplicative order exactly p^n - 1 modulo R *)
Definition Ixe_irreducible_correct_stmt : Prop := forall p, prime p -> forall n s R s', (1 <= n)%nat ->
  ixe_irreducible p n p s = Some (R, s') ->
  length R = S n /\ nth n R 0 = 1 /\ norm R = R /\ canon p R /\ deg R = Z.of_nat n /\ irreducible_def p R /\
  pmod p Xpoly R <> [] /\ ppowmod p (pmod p Xpoly R) (p ^ Z.of_nat n - 1) R = pone /\
  forall m, 0 < m < p ^ Z.of_nat n - 1 -> ppowmod p (pmod p Xpoly R) m R <> pone.
Lemma ixe_irreducible_correct_thm : Ixe_irreducible_correct_stmt.
Proof. exact ixe_irreducible_correct. Qed.

(* is_prim_root accepted modulo an irreducible F: the element generates (GF(p)[X]/F)^* *)
Definition Prim_root_generates_stmt : Prop := forall p, prime p -> forall A F, canon p A -> canon p F -> irreducible_def p F ->
  is_prim_root p A F p = true ->
  pmod p A F <> [] /\ ppowmod p (pmod p A F) (p ^ deg F - 1) F = pone /\
  forall m, 0 < m < p ^ deg F - 1 -> ppowmod p (pmod p A F) m F <> pone.
Lemma prim_root_generates_thm : Prim_root_generates_stmt.
Proof. exact prim_root_generates. Qed.

Definition Give_prim_root_correct_stmt : Prop := forall p, prime p -> forall F s R s', canon p F -> irreducible_def p F ->
  give_prim_root p F p s = Some (R, s') ->
  canon p (norm R) /\ pmod p (norm R) F <> [] /\ ppowmod p (pmod p (norm R) F) (p ^ deg F - 1) F = pone /\
  forall m, 0 < m < p ^ deg F - 1 -> ppowmod p (pmod p (norm R) F) m F <> pone.
Lemma give_prim_root_correct_thm : Give_prim_root_correct_stmt.
Proof. exact give_prim_root_correct. Qed.

Definition Give_random_prim_root_correct_stmt : Prop := forall p, prime p -> forall F s R s', canon p F -> irreducible_def p F ->
  give_random_prim_root p F p s = Some (R, s') ->
  canon p (norm R) /\ pmod p (norm R) F <> [] /\ ppowmod p (pmod p (norm R) F) (p ^ deg F - 1) F = pone /\
  forall m, 0 < m < p ^ deg F - 1 -> ppowmod p (pmod p (norm R) F) m F <> pone.
Lemma give_random_prim_root_correct_thm : Give_random_prim_root_correct_stmt.
Proof. exact give_random_prim_root_correct. Qed.

Definition Random_prim_root_correct_stmt : Prop := forall p, prime p -> forall n s P R s',
  random_prim_root p n p s = Some (P, R, s') ->
  length P = S n /\ nth n P 0 = 1 /\ canon p P /\ deg P = Z.of_nat n /\ irreducible_def p P /\
  canon p (norm R) /\ pmod p (norm R) P <> [] /\ ppowmod p (pmod p (norm R) P) (p ^ Z.of_nat n - 1) P = pone /\
  forall m, 0 < m < p ^ Z.of_nat n - 1 -> ppowmod p (pmod p (norm R) P) m P <> pone.
Lemma random_prim_root_correct_thm : Random_prim_root_correct_stmt.
Proof. exact random_prim_root_correct. Qed.

(* ================= the hypotheses are satisfiable ================= *)
(* GF(3): X^2 + 1 passes the test; GF(2): X^3 + X + 1 passes the test *)
Example is_irreducible_sound_example : prime 3 /\ canon 3 [1; 0; 1] /\ is_irreducible 3 [1; 0; 1] 3 = true /\
  prime 2 /\ canon 2 [1; 1; 0; 1] /\ is_irreducible 2 [1; 1; 0; 1] 2 = true.
Proof. split; [exact prime_3_lag|]. split; [split; [repeat constructor; lia|cbn; lia]|]. split; [vm_compute; reflexivity|].
  split; [exact prime_2|]. split; [split; [repeat constructor; lia|cbn; lia]|]. vm_compute; reflexivity. Qed.
Example irreducible_divisor_example : prime 3 /\ canon 3 [2; 0; 1] /\ (2 <= length [2; 0; 1])%nat /\
  canon 3 [1; 1] /\ divides 3 [1; 1] [2; 0; 1].
Proof. split; [exact prime_3_lag|]. split; [split; [repeat constructor; lia|cbn; lia]|]. split; [cbn; lia|].
  split; [split; [repeat constructor; lia|cbn; lia]|]. exists [2; 1]. exists [0; 1]. intros x. cbn [pmulZ pscaleZ map paddZ ev]. ring. Qed.
(* the requests do return something on suitable streams *)
Example random_irreducible_example : prime 2 /\ random_irreducible 2 3 2 [1; 0; 1; 1; 0; 1; 1; 1] = Some ([1; 1; 0; 1], [1; 1]) /\
  prime 3 /\ random_irreducible 3 2 3 [1; 0; 1; 1; 1; 1; 1; 1] = Some ([1; 0; 1], [1; 1; 1; 1]).
Proof. split; [exact prime_2|]. split; [vm_compute; reflexivity|]. split; [exact prime_3_lag|]. vm_compute; reflexivity. Qed.
Example creux_random_irreducible_example : prime 3 /\ (1 <= 2)%nat /\ creux_random_irreducible 3 2 3 [] = Some ([1; 0; 1], []) /\
  prime 2 /\ (1 <= 3)%nat /\ creux_random_irreducible 2 3 2 [] = Some ([1; 1; 0; 1], []).
Proof. split; [exact prime_3_lag|]. split; [lia|]. split; [vm_compute; reflexivity|]. split; [exact prime_2|]. split; [lia|].
  vm_compute; reflexivity. Qed.
(* GF(9): X^2 + X + 2 is primitive; GF(8): X^3 + X + 1 is primitive *)
Example ixe_irreducible_example : prime 3 /\ (1 <= 2)%nat /\ ixe_irreducible 3 2 3 [1; 1; 2; 2; 2; 2] = Some ([2; 1; 1], [2; 2]) /\
  prime 2 /\ (1 <= 3)%nat /\ ixe_irreducible 2 3 2 [1; 0; 1; 1; 1; 1] = Some ([1; 1; 0; 1], [1]).
Proof. split; [exact prime_3_lag|]. split; [lia|]. split; [vm_compute; reflexivity|]. split; [exact prime_2|]. split; [lia|].
  vm_compute; reflexivity. Qed.
(* GF(9) = GF(3)[X]/(X^2+1): X + 1 and X^2 + X generate *)
Example give_prim_root_example : prime 3 /\ canon 3 [1; 0; 1] /\ irreducible_def 3 [1; 0; 1] /\
  give_prim_root 3 [1; 0; 1] 3 [] = Some ([1; 1], []) /\
  give_random_prim_root 3 [1; 0; 1] 3 [1; 1; 1; 2; 1] = Some ([0; 1; 1], [2; 1]) /\
  is_prim_root 3 [1; 1] [1; 0; 1] 3 = true.
Proof. split; [exact prime_3_lag|]. split; [split; [repeat constructor; lia|cbn; lia]|]. split; [exact irr_3_101|].
  split; [vm_compute; reflexivity|]. split; vm_compute; reflexivity. Qed.
Example random_prim_root_example : prime 2 /\
  random_prim_root 2 3 2 [1; 0; 1; 1; 1; 1; 1; 1] = Some ([1; 1; 0; 1], [0; 1], [1; 1; 1]).
Proof. split; [exact prime_2|]. vm_compute; reflexivity. Qed.
