(* C09 proofs, part 11: Lagrange's theorem in the unit group of GF(p)[X]/(F), F irreducible, for EVERY prime p and EVERY
   degree: every non-zero residue A satisfies A^(p^deg F - 1) = 1 modulo F, as computed by Poly1Dom::powmod (Model.ppowmod).
   Elementary proof: multiplication by A permutes the list R of all non-zero residues (no zero divisors, cancellation by the
   inverse of A), the product of a list of residues is invariant under permutation, so  prod R = A^|R| prod R  and prod R is
   a unit.  |R| = p^deg F - 1 by counting.  Consequences: B^(p^n) = B modulo F for every B (zero included), and the
   theorems of ProofsOrd.v about is_prim_root / order WITHOUT their group-theoretic hypothesis.
   Nothing is computed except in the `Example`s. *)
From Coq Require Import ZArith List Bool Lia Znumtheory Permutation.
From C09 Require Import Model ProofsAlg ProofsDiv ProofsSplit ProofsCZ ProofsIrr ProofsPow ProofsOrd ProofsSqr ProofsRep2.
Import ListNotations.
Local Open Scope Z_scope.

(* ================= lists: NoDup / length of the enumerations ================= *)
Lemma NoDup_map_inj_in (A B : Type) (f : A -> B) (l : list A) :
  NoDup l -> (forall x y, In x l -> In y l -> f x = f y -> x = y) -> NoDup (map f l).
Proof. induction 1 as [|a l Ha Hl IH]; intros Hinj; cbn [map]; constructor.
  - intros H. apply in_map_iff in H. destruct H as [y [E Hy]]. apply Ha.
    rewrite (Hinj a y); [assumption|left; reflexivity|right; assumption|symmetry; assumption].
  - apply IH. intros x y Hx Hy. apply Hinj; right; assumption. Qed.

Lemma NoDup_app_disj (A : Type) (l1 l2 : list A) :
  NoDup l1 -> NoDup l2 -> (forall x, In x l1 -> ~ In x l2) -> NoDup (l1 ++ l2).
Proof. induction 1 as [|a l Ha Hl IH]; intros H2 Hd; cbn [app]; [assumption|]. constructor.
  - rewrite in_app_iff. intros [H|H]; [contradiction|]. apply (Hd a); [left; reflexivity|assumption].
  - apply IH; [assumption|]. intros y Hy. apply Hd. right; assumption. Qed.

Lemma zrange_NoDup lo hi : NoDup (zrange lo hi).
Proof. unfold zrange. apply NoDup_map_inj_in; [apply seq_NoDup|]. intros x y _ _ E. lia. Qed.
Lemma zrange_length lo hi : length (zrange lo hi) = Z.to_nat (hi - lo).
Proof. unfold zrange. rewrite map_length, seq_length. reflexivity. Qed.

Lemma NoDup_flat_map_cons (cs : list Z) : NoDup cs -> forall l : list poly, NoDup l ->
  NoDup (flat_map (fun r => map (fun c => c :: r) cs) l).
Proof. intros Hc. induction 1 as [|r l Hr Hl IH]; cbn [flat_map]; [constructor|]. apply NoDup_app_disj.
  - apply NoDup_map_inj_in; [assumption|]. intros x y _ _ E. injection E. auto.
  - exact IH.
  - intros x Hx Hx'. apply in_map_iff in Hx. destruct Hx as [c [<- Hc']].
    apply in_flat_map in Hx'. destruct Hx' as [r' [Hr' Hx']]. apply in_map_iff in Hx'. destruct Hx' as [c' [E _]].
    injection E. intros E1 _. subst r'. contradiction. Qed.
Lemma length_flat_map_cons (cs : list Z) : forall l : list poly,
  length (flat_map (fun r => map (fun c => c :: r) cs) l) = (length cs * length l)%nat.
Proof. induction l as [|r l IH]; cbn [flat_map length]; [lia|]. rewrite app_length, map_length, IH. lia. Qed.

Lemma all_lists_NoDup p : forall n, NoDup (all_lists p n).
Proof. induction n as [|n IH]; cbn [all_lists].
  - constructor; [intros []|constructor].
  - apply NoDup_flat_map_cons; [apply zrange_NoDup|exact IH]. Qed.
Lemma length_all_lists p n : 0 <= p -> Z.of_nat (length (all_lists p n)) = p ^ Z.of_nat n.
Proof. intros Hp. induction n as [|n IH]; cbn [all_lists].
  - reflexivity.
  - rewrite length_flat_map_cons, Nat2Z.inj_mul, IH, zrange_length, Nat2Z.inj_succ, Z.pow_succ_r by lia.
    rewrite Z2Nat.id by lia. f_equal. lia. Qed.

(* ---- setdegree on padded lists *)
Lemma norm_repeat0 k : norm (repeat 0 k) = [].
Proof. induction k as [|k IH]; cbn [repeat norm]; [reflexivity|]. rewrite IH. reflexivity. Qed.
Lemma norm_app_zeros a k : norm (a ++ repeat 0 k) = norm a.
Proof. induction a as [|c a IH]; cbn [app norm]; [apply norm_repeat0|]. rewrite IH. reflexivity. Qed.
Lemma norm_inj_len a b : length a = length b -> norm a = norm b -> a = b.
Proof. intros L E. apply (nth_ext a b 0 0 L). intros i _. rewrite <- (nth_norm a), <- (nth_norm b), E. reflexivity. Qed.

(* ---- the list of all non-zero canonical polynomials with at most n coefficients *)
Definition nonnil (x : poly) : bool := match x with [] => false | _ => true end.
Definition residues (p : Z) (n : nat) : list poly := filter nonnil (map norm (all_lists p n)).

Lemma nonnil_true x : nonnil x = true <-> x <> [].
Proof. destruct x; cbn [nonnil]; split; congruence. Qed.

Lemma residues_spec p n x : 0 < p -> (In x (residues p n) <-> canon p x /\ x <> [] /\ (length x <= n)%nat).
Proof. intros Hp. unfold residues. rewrite filter_In, nonnil_true, in_map_iff. split.
  - intros [[l [<- Hl]] Hx]. apply in_all_lists in Hl. destruct Hl as [L Fl]. split; [|split; [assumption|]].
    + split; [apply norm_Forall; assumption|apply norm_last].
    + rewrite <- L. apply length_norm.
  - intros [[Fx Lx] [Hx Ln]]. split; [|assumption]. exists (x ++ repeat 0 (n - length x)). split.
    + rewrite norm_app_zeros. apply norm_id. assumption.
    + apply in_all_lists. split; [rewrite app_length, repeat_length; lia|].
      apply Forall_app. split; [assumption|]. apply Forall_forall. intros c Hc. apply repeat_spec in Hc. lia. Qed.

Lemma residues_NoDup p n : NoDup (residues p n).
Proof. unfold residues. apply NoDup_filter. apply NoDup_map_inj_in; [apply all_lists_NoDup|].
  intros x y Hx Hy E. apply in_all_lists in Hx, Hy. apply norm_inj_len; [|assumption]. destruct Hx, Hy. congruence. Qed.

Lemma filter_nonnil_all (l : list poly) : ~ In [] l -> filter nonnil l = l.
Proof. induction l as [|a l IH]; intros H; cbn [filter]; [reflexivity|].
  destruct a as [|c a]. { exfalso. apply H. left. reflexivity. }
  cbn [nonnil]. rewrite IH; [reflexivity|]. intros H'. apply H. right. assumption. Qed.
Lemma filter_nonnil_length (l : list poly) : NoDup l -> In [] l -> S (length (filter nonnil l)) = length l.
Proof. induction 1 as [|a l Ha Hl IH]; intros H; [contradiction|]. cbn [filter].
  destruct a as [|c a].
  - cbn [nonnil length]. rewrite filter_nonnil_all by assumption. reflexivity.
  - cbn [nonnil length]. rewrite IH; [reflexivity|]. destruct H as [H|H]; [discriminate|assumption]. Qed.

Lemma residues_length p n : 0 < p -> Z.of_nat (length (residues p n)) = p ^ Z.of_nat n - 1.
Proof. intros Hp. rewrite <- length_all_lists by lia. rewrite <- (map_length norm (all_lists p n)).
  unfold residues. rewrite <- (filter_nonnil_length (map norm (all_lists p n))); [lia| |].
  - apply NoDup_map_inj_in; [apply all_lists_NoDup|].
    intros x y Hx Hy E. apply in_all_lists in Hx, Hy. apply norm_inj_len; [|assumption]. destruct Hx, Hy. congruence.
  - apply in_map_iff. exists (repeat 0 n). split; [apply norm_repeat0|]. apply in_all_lists.
    split; [apply repeat_length|]. apply Forall_forall. intros c Hc. apply repeat_spec in Hc. lia. Qed.

(* ================= multiplication and products modulo F ================= *)
Definition mulmod (p : Z) (F x y : poly) : poly := pmod p (pmul p x y) F.
Definition prodmod (p : Z) (F : poly) (L : list poly) : poly := fold_right (mulmod p F) pone L.

Ltac evring := apply eqp_ev; intros ?x; repeat (rewrite ?ev_paddZ, ?ev_pmulZ, ?ev_pscaleZ, ?ev_pone); cbn [ev]; ring.

Section Lag.
Variable p : Z.
Hypothesis Hp : prime p.
Variable F : poly.
Hypothesis CF : canon p F.
Hypothesis LF : (2 <= length F)%nat.
Let p_pos : 0 < p. Proof. destruct Hp; lia. Qed.
Let HF : F <> []. Proof. apply len2_nonnil. exact LF. Qed.
Notation eqp := (eqp p).
Notation canon := (canon p).
Notation cong := (cong p).
Notation mulF := (mulmod p F).
Notation prodF := (prodmod p F).

(* residues: canonical, degree < deg F *)
Definition Res (x : poly) : Prop := canon x /\ (length x < length F)%nat.

Lemma Res_pone : Res pone.
Proof. split; [apply canon_pone; assumption|cbn [pone length]; lia]. Qed.
Lemma Res_nil : Res [].
Proof. split; [apply canon_nil|cbn [length]; lia]. Qed.
Lemma res_eq r r' : Res r -> Res r' -> cong F r r' -> r = r'.
Proof. intros [C L] [C' L'] H. apply (cong_unique p Hp F); assumption. Qed.

Lemma mulF_cong x y : cong F (mulF x y) (pmulZ x y).
Proof. apply (mulmod_spec p Hp F x y CF HF). Qed.
Lemma mulF_res x y : Res (mulF x y).
Proof. destruct (mulmod_spec p Hp F x y CF HF) as [_ [C L]]. split; assumption. Qed.
Lemma mulF_cong2 x y a b : cong F x a -> cong F y b -> cong F (mulF x y) (pmulZ a b).
Proof. intros H G. eapply cong_trans; [apply mulF_cong|]. apply cong_mul; assumption. Qed.

Lemma mulF_comm x y : mulF x y = mulF y x.
Proof. apply res_eq; try apply mulF_res. eapply cong_trans; [apply mulF_cong|]. apply cong_sym.
  eapply cong_eqp_r; [apply mulF_cong|]. evring. Qed.
Lemma mulF_lcomm x y z : mulF x (mulF y z) = mulF y (mulF x z).
Proof. apply res_eq; try apply mulF_res.
  eapply cong_trans; [apply (mulF_cong2 _ _ x (pmulZ y z)); [apply cong_refl|apply mulF_cong]|]. apply cong_sym.
  eapply cong_eqp_r; [apply (mulF_cong2 _ _ y (pmulZ x z)); [apply cong_refl|apply mulF_cong]|]. evring. Qed.
Lemma mulF_one_l x : Res x -> mulF pone x = x.
Proof. intros Hx. apply res_eq; [apply mulF_res|assumption|]. eapply cong_eqp_r; [apply mulF_cong|]. evring. Qed.

Lemma prodF_res L : Res (prodF L).
Proof. destruct L as [|a L]; cbn [prodmod fold_right]; [apply Res_pone|apply mulF_res]. Qed.
Lemma prodF_perm L L' : Permutation L L' -> prodF L = prodF L'.
Proof. induction 1 as [|a L L' H IH|a b L|L L' L'' H1 IH1 H2 IH2]; unfold prodmod in *; cbn [fold_right].
  - reflexivity.
  - rewrite IH. reflexivity.
  - apply mulF_lcomm.
  - congruence. Qed.

(* prod (A x_1, ..., A x_k) = A^k prod (x_1, ..., x_k) modulo F *)
Lemma prodF_map A : forall L, cong F (prodF (map (mulF A) L)) (pmulZ (pwr A (length L)) (prodF L)).
Proof. induction L as [|x L IH]; unfold prodmod in *; cbn [map fold_right length pwr].
  - apply cong_of_eqp. evring.
  - eapply cong_trans; [apply (mulF_cong2 _ _ _ _ (mulF_cong A x) IH)|]. apply cong_sym.
    eapply cong_eqp_r; [apply cong_mul; [apply cong_refl|apply mulF_cong]|]. evring. Qed.

(* ---- units *)
Definition unitF (A : poly) : Prop := exists A', cong F (pmulZ A A') pone.

Lemma unit_absorb A A' x : cong F (pmulZ A A') pone -> cong F (pmulZ A' (pmulZ A x)) x.
Proof. intros H. apply cong_eqp_l with (pmulZ (pmulZ A A') x); [evring|].
  eapply cong_eqp_r; [apply cong_mul; [exact H|apply cong_refl]|]. evring. Qed.
Lemma unit_cancel A x y : unitF A -> Res x -> Res y -> cong F (pmulZ A x) (pmulZ A y) -> x = y.
Proof. intros [A' HA] Hx Hy H. apply res_eq; try assumption.
  eapply cong_trans; [apply cong_sym, (unit_absorb A A' x HA)|].
  eapply cong_trans; [apply cong_mul; [apply cong_refl|exact H]|]. apply (unit_absorb A A' y HA). Qed.
Lemma mulF_inj A x y : unitF A -> Res x -> Res y -> mulF A x = mulF A y -> x = y.
Proof. intros HA Hx Hy E. apply (unit_cancel A); try assumption.
  eapply cong_trans; [apply cong_sym, mulF_cong|]. rewrite E. apply mulF_cong. Qed.
Lemma mulF_nonzero A x : unitF A -> Res x -> x <> [] -> mulF A x <> [].
Proof. intros HA Hx Nx E. apply Nx. apply (unit_cancel A); [assumption|assumption|apply Res_nil|].
  eapply cong_trans; [apply cong_sym, mulF_cong|]. rewrite E. apply cong_of_eqp. evring. Qed.

(* ---- every non-zero residue is a unit: the hypothesis under which Lagrange is proved (true when F is irreducible) *)
Hypothesis Hunit : forall A, canon A -> A <> [] -> (length A < length F)%nat -> unitF A.

Definition allres : list poly := residues p (length F - 1).

Lemma allres_spec x : In x allres <-> canon x /\ x <> [] /\ (length x < length F)%nat.
Proof. unfold allres. rewrite (residues_spec p _ x p_pos). split; intros [C [N L]]; (split; [assumption|split; [assumption|lia]]). Qed.
Lemma allres_length : Z.of_nat (length allres) = p ^ deg F - 1.
Proof. unfold allres. rewrite (residues_length p _ p_pos). unfold deg. do 2 f_equal. lia. Qed.

Lemma prodF_nonzero : forall L, (forall x, In x L -> In x allres) -> prodF L <> [].
Proof. induction L as [|a L IH]; intros H; unfold prodmod in *; cbn [fold_right]; [discriminate|].
  destruct (proj1 (allres_spec a) (H a ltac:(left; reflexivity))) as [C [N Ln]].
  apply mulF_nonzero; [apply Hunit; assumption|apply (prodF_res L)|].
  apply IH. intros x Hx. apply H. right. assumption. Qed.

Lemma mul_permutes A : canon A -> A <> [] -> (length A < length F)%nat -> Permutation (map (mulF A) allres) allres.
Proof. intros CA NA LA. pose proof (Hunit A CA NA LA) as UA. apply NoDup_Permutation_bis.
  - apply NoDup_map_inj_in; [apply residues_NoDup|]. intros x y Hx Hy E.
    apply allres_spec in Hx, Hy. destruct Hx as [Cx [_ Lx]], Hy as [Cy [_ Ly]].
    apply (mulF_inj A); [assumption|split; assumption|split; assumption|assumption].
  - rewrite map_length. lia.
  - intros y Hy. apply in_map_iff in Hy. destruct Hy as [x [<- Hx]]. apply allres_spec in Hx. destruct Hx as [Cx [Nx Lx]].
    apply allres_spec. destruct (mulF_res A x) as [C L]. split; [assumption|]. split; [|assumption].
    apply mulF_nonzero; [assumption|split; assumption|assumption]. Qed.

(* Lagrange with the exponent |allres| *)
Lemma lagrange_len A : canon A -> A <> [] -> (length A < length F)%nat ->
  ppowmod p A (Z.of_nat (length allres)) F = pone.
Proof. intros CA NA LA. set (P := prodF allres).
  assert (RP : Res P) by apply prodF_res.
  assert (NP : P <> []) by (apply prodF_nonzero; auto).
  destruct RP as [CP LP]. destruct (Hunit P CP NP LP) as [Q HQ].
  pose proof (prodF_map A allres) as H. rewrite (prodF_perm _ _ (mul_permutes A CA NA LA)) in H. fold P in H.
  destruct Res_pone as [C1 L1].
  apply (ppowmod_char p Hp); try assumption; [lia|]. rewrite Nat2Z.id.
  eapply cong_trans; [apply cong_sym; exact HQ|].
  eapply cong_trans; [apply cong_mul; [exact H|apply cong_refl]|].
  apply cong_eqp_l with (pmulZ (pwr A (length allres)) (pmulZ P Q)); [evring|].
  eapply cong_eqp_r; [apply cong_mul; [apply cong_refl|exact HQ]|]. evring. Qed.

Theorem lagrange_unit A : canon A -> A <> [] -> (length A < length F)%nat -> ppowmod p A (p ^ deg F - 1) F = pone.
Proof. intros CA NA LA. rewrite <- allres_length. apply lagrange_len; assumption. Qed.

End Lag.

(* ================= irreducible F: every non-zero residue is coprime to F, hence a unit ================= *)
Section Irr.
Variable p : Z.
Hypothesis Hp : prime p.
Notation eqp := (eqp p).
Notation canon := (canon p).
Notation cong := (cong p).
Notation divides := (divides p).

Lemma irreducible_len F : irreducible_def p F -> (2 <= length F)%nat.
Proof. intros [H _]. unfold deg in H. lia. Qed.

(* the value of Poly1Dom::gcd on (A, F) is a non-zero constant *)
Lemma irreducible_gcd_const F A : canon F -> irreducible_def p F -> canon A -> A <> [] -> (length A < length F)%nat ->
  deg (pgcd p A F) = 0.
Proof. intros CF HI CA NA LA. pose proof (irreducible_len F HI) as LF. destruct HI as [_ HI].
  pose proof (pgcd_canon p Hp A F CA CF) as CG. pose proof (pgcd_nonnil p A F (or_introl NA)) as NG.
  destruct (pgcd_divides_always p Hp A F CA CF) as [DA [q Hq]].
  pose proof (divides_length_le p Hp _ A CG CA NA DA) as LG.
  assert (Hq' : eqp (pmulZ (pgcd p A F) (red p q)) F).
  { eapply eqp_trans; [apply eqp_mul; [apply eqp_refl|apply eqp_red; assumption]|exact Hq]. }
  assert (Cq : canon (red p q)) by (apply canon_red; assumption).
  destruct (HI _ _ CG Cq Hq') as [H|H]; [assumption|exfalso].
  assert (Nq : red p q <> []) by (intro E; rewrite E in H; cbn in H; lia).
  pose proof (canon_mul_length p Hp _ _ _ CG Cq CF NG Nq Hq') as L. unfold deg in H. lia. Qed.

Theorem irreducible_unit F A : canon F -> irreducible_def p F -> canon A -> A <> [] -> (length A < length F)%nat ->
  unitF p F A.
Proof. intros CF HI CA NA LA. pose proof (irreducible_gcd_const F A CF HI CA NA LA) as HG.
  destruct (coprime_of_pgcd p Hp A F CA CF (or_introl NA) ltac:(lia)) as [u [v H]].
  exists u. exists (pscaleZ (-1) v). eapply eqp_trans; [|apply eqp_add; [apply eqp_refl|exact H]].
  apply eqp_ev. intros x. repeat (rewrite ?ev_paddZ, ?ev_pmulZ, ?ev_pscaleZ). ring. Qed.

(* Lagrange *)
Theorem lagrange F A : canon F -> (2 <= length F)%nat -> irreducible_def p F -> canon A -> A <> [] -> (length A < length F)%nat ->
  ppowmod p A (p ^ deg F - 1) F = pone.
Proof. intros CF LF HI CA NA LA. apply (lagrange_unit p Hp F CF LF); try assumption.
  intros B CB NB LB. apply irreducible_unit; assumption. Qed.

(* ---- powmod only depends on the residue of the base *)
Lemma ppowmod_pmod_base B F n : canon B -> canon F -> (2 <= length F)%nat -> 0 <= n ->
  ppowmod p (pmod p B F) n F = ppowmod p B n F.
Proof. intros CB CF LF Hn. pose proof (len2_nonnil F LF) as NF.
  destruct (ppowmod_spec p Hp B F n CB CF LF Hn) as [H [C L]].
  apply (ppowmod_char p Hp); try assumption; [apply pmod_canon; assumption|].
  apply cong_sym. eapply cong_trans; [|exact H]. apply cong_pwr. apply cong_sym. apply cong_pmod; assumption. Qed.
Lemma ppowmod_1 B F : canon B -> canon F -> (2 <= length F)%nat -> ppowmod p B 1 F = pmod p B F.
Proof. intros CB CF LF. pose proof (len2_nonnil F LF) as NF.
  destruct (pdivmod_spec p Hp B F CB CF NF) as [_ [_ [CR LR]]].
  apply (ppowmod_char p Hp); try assumption; [lia|]. apply cong_sym. change (Z.to_nat 1) with 1%nat. cbn [pwr].
  apply cong_eqp_l with B; [evring|]. apply cong_pmod; assumption. Qed.
Lemma ppowmod_zero_base B F n : canon B -> canon F -> (2 <= length F)%nat -> 0 < n -> pmod p B F = [] -> ppowmod p B n F = [].
Proof. intros CB CF LF Hn E. pose proof (len2_nonnil F LF) as NF.
  apply (ppowmod_char p Hp); try assumption; [lia|apply canon_nil|cbn [length]; lia|].
  apply cong_sym. pose proof (cong_pmod p Hp F B CB CF NF) as H. rewrite E in H.
  destruct (Z.to_nat n) as [|k] eqn:Ek; [lia|]. cbn [pwr].
  eapply cong_eqp_r; [apply cong_mul; [exact H|apply cong_refl]|]. evring. Qed.

(* B^(p^n) = B modulo an irreducible F of degree n, for EVERY B *)
Theorem frobenius_fixed F B : canon F -> (2 <= length F)%nat -> irreducible_def p F -> canon B ->
  ppowmod p B (p ^ deg F) F = pmod p B F.
Proof. intros CF LF HI CB. pose proof (len2_nonnil F LF) as NF.
  assert (p_gt_1 : 1 < p) by (destruct Hp; assumption).
  assert (Hd : 0 <= deg F) by (unfold deg; lia).
  assert (Hq : 1 <= p ^ deg F) by (pose proof (Z.pow_pos_nonneg p (deg F) ltac:(lia) Hd); lia).
  destruct (pdivmod_spec p Hp B F CB CF NF) as [_ [_ [CR LR]]].
  destruct (list_eq_dec Z.eq_dec (pmod p B F) []) as [E|E].
  - rewrite E. apply ppowmod_zero_base; try assumption. lia.
  - rewrite <- ppowmod_pmod_base by (assumption || lia). set (B' := pmod p B F) in *.
    replace (p ^ deg F) with ((p ^ deg F - 1) + 1) by lia.
    rewrite (ppowmod_add_one p Hp B' F) by (try assumption; try lia; apply lagrange; assumption).
    rewrite ppowmod_1 by assumption. unfold B'. rewrite <- (ppowmod_1 (pmod p B F)) by assumption.
    rewrite ppowmod_pmod_base by (assumption || lia). apply ppowmod_1; assumption. Qed.

(* ---- is_prim_root / order without the group-theoretic hypothesis *)
Theorem prim_root_order_uncond A F : canon A -> canon F -> irreducible_def p F -> pmod p A F <> [] ->
  (is_prim_root p A F p = true <-> forall m, 0 < m < p ^ deg F - 1 -> ppowmod p (pmod p A F) m F <> pone).
Proof. intros CA CF HI NA. pose proof (irreducible_len F HI) as LF. pose proof (len2_nonnil F LF) as NF.
  destruct (pdivmod_spec p Hp A F CA CF NF) as [_ [_ [CR LR]]].
  apply (prim_root_order p Hp A F p CA CF LF).
  - apply irreducible_gcd_const; assumption.
  - apply lagrange; assumption. Qed.

Theorem order_uncond A F : canon A -> canon F -> irreducible_def p F -> pmod p A F <> [] ->
  0 < order p A F p /\ (order p A F p | p ^ deg F - 1) /\ ppowmod p (pmod p A F) (order p A F p) F = pone /\
  forall m, 0 < m < order p A F p -> ppowmod p (pmod p A F) m F <> pone.
Proof. intros CA CF HI NA. pose proof (irreducible_len F HI) as LF. pose proof (len2_nonnil F LF) as NF.
  destruct (pdivmod_spec p Hp A F CA CF NF) as [_ [_ [CR LR]]].
  assert (p_gt_1 : 1 < p) by (destruct Hp; assumption).
  apply (order_spec p Hp A F p CA CF LF).
  - apply irreducible_gcd_const; assumption.
  - assert (Hd : 1 <= deg F) by (unfold deg; lia).
    pose proof (Z.pow_le_mono_r p 1 (deg F) ltac:(lia) Hd). rewrite Z.pow_1_r in H. lia.
  - apply lagrange; assumption. Qed.

End Irr.

(* ================= closed statements ================= *)
(* Lagrange under the weaker hypothesis actually used: every non-zero residue is invertible modulo F *)
Definition Lagrange_units_stmt : Prop := forall p, prime p -> forall F, canon p F -> (2 <= length F)%nat ->
  (forall B, canon p B -> B <> [] -> (length B < length F)%nat -> exists B', cong p F (pmulZ B B') pone) ->
  forall A, canon p A -> A <> [] -> (length A < length F)%nat -> ppowmod p A (p ^ deg F - 1) F = pone.
Lemma lagrange_units_thm : Lagrange_units_stmt.
Proof. intros p Hp F CF LF HU A CA NA LA. apply (lagrange_unit p Hp F CF LF HU); assumption. Qed.

(* for irreducible F every non-zero residue is invertible modulo F, and Poly1Dom::gcd(A, F) is a constant *)
Definition Irreducible_unit_stmt : Prop := forall p, prime p -> forall F A, canon p F -> irreducible_def p F ->
  canon p A -> A <> [] -> (length A < length F)%nat ->
  deg (pgcd p A F) = 0 /\ exists A', cong p F (pmulZ A A') pone.
Lemma irreducible_unit_thm : Irreducible_unit_stmt.
Proof. intros p Hp F A CF HI CA NA LA. split; [apply irreducible_gcd_const; assumption|apply irreducible_unit; assumption]. Qed.

(* Lagrange in (GF(p)[X]/F)^*, F irreducible of any degree, as computed by powmod *)
Definition Lagrange_stmt : Prop := forall p, prime p -> forall F A, canon p F -> (2 <= length F)%nat -> irreducible_def p F ->
  canon p A -> A <> [] -> (length A < length F)%nat -> ppowmod p A (p ^ deg F - 1) F = pone.
Lemma lagrange_thm : Lagrange_stmt.
Proof. exact lagrange. Qed.

(* B^(p^n) = B modulo F (n = deg F), zero residue included; in particular X^(p^n) = X modulo F *)
Definition X_pow_stmt : Prop := forall p, prime p -> forall F B, canon p F -> (2 <= length F)%nat -> irreducible_def p F ->
  canon p B -> ppowmod p B (p ^ deg F) F = pmod p B F.
Lemma X_pow_thm : X_pow_stmt.
Proof. exact frobenius_fixed. Qed.

Lemma canon_Xpoly p : prime p -> canon p Xpoly.
Proof. intros [H _]. split; [repeat constructor; lia|cbn; lia]. Qed.
Definition X_pow_X_stmt : Prop := forall p, prime p -> forall F, canon p F -> irreducible_def p F ->
  ppowmod p Xpoly (p ^ deg F) F = pmod p Xpoly F.
Lemma X_pow_X_thm : X_pow_X_stmt.
Proof. intros p Hp F CF HI. apply frobenius_fixed; auto using canon_Xpoly. apply irreducible_len with p. assumption. Qed.

(* Prim_root_order_stmt of ProofsOrd.v with MOD = p, F irreducible, and the hypotheses  deg gcd(A', F) = 0  and
   A'^(p^n - 1) = 1  REMOVED: is_prim_root <-> the multiplicative order of A' = A mod F is exactly p^n - 1 *)
Definition Prim_root_order_uncond_stmt : Prop := forall p, prime p -> forall A F,
  canon p A -> canon p F -> irreducible_def p F ->
  let A' := pmod p A F in let qp := p ^ deg F - 1 in
  A' <> [] ->
  (is_prim_root p A F p = true <-> forall m, 0 < m < qp -> ppowmod p A' m F <> pone).
Lemma prim_root_order_uncond_thm : Prim_root_order_uncond_stmt.
Proof. intros p Hp A F CA CF HI A' qp NA. apply prim_root_order_uncond; assumption. Qed.

(* Order_stmt of ProofsOrd.v likewise: `order` returns the least positive exponent of A', and it divides p^n - 1 *)
Definition Order_uncond_stmt : Prop := forall p, prime p -> forall A F,
  canon p A -> canon p F -> irreducible_def p F ->
  let A' := pmod p A F in let qp := p ^ deg F - 1 in let r := order p A F p in
  A' <> [] ->
  0 < r /\ (r | qp) /\ ppowmod p A' r F = pone /\ forall m, 0 < m < r -> ppowmod p A' m F <> pone.
Lemma order_uncond_thm : Order_uncond_stmt.
Proof. intros p Hp A F CA CF HI A' qp r NA. apply order_uncond; assumption. Qed.

(* ---- the hypotheses are satisfiable *)
Lemma prime_3_lag : prime 3.
Proof. apply prime_intro; [lia|]. intros n Hn.
  assert (n = 1 \/ n = 2) as [|] by lia; subst; apply Zgcd_1_rel_prime; reflexivity. Qed.
Lemma canon_small p l : Forall (fun c => 0 <= c < p) l -> last l 1 <> 0 -> canon p l.
Proof. intros; split; assumption. Qed.

(* GF(4) = GF(2)[X]/(X^2+X+1) : irreducible (by the verified checker irreducible_b), A = X+1 : (X+1)^3 = 1 *)
Lemma irr_2_111 : irreducible_def 2 [1; 1; 1].
Proof. apply (irreducible_b_sound 2 prime_2); [split; [repeat constructor; lia|cbn; lia]|vm_compute; reflexivity]. Qed.
Lemma irr_3_101 : irreducible_def 3 [1; 0; 1].
Proof. apply (irreducible_b_sound 3 prime_3_lag); [split; [repeat constructor; lia|cbn; lia]|vm_compute; reflexivity]. Qed.

Example lagrange_example : prime 2 /\ canon 2 [1; 1; 1] /\ (2 <= length [1; 1; 1])%nat /\ irreducible_def 2 [1; 1; 1] /\
  canon 2 [1; 1] /\ [1; 1] <> [] /\ (length [1; 1] < length [1; 1; 1])%nat /\
  ppowmod 2 [1; 1] (2 ^ deg [1; 1; 1] - 1) [1; 1; 1] = pone.
Proof. split; [exact prime_2|]. split; [split; [repeat constructor; lia|cbn; lia]|]. split; [cbn; lia|].
  split; [exact irr_2_111|]. split; [split; [repeat constructor; lia|cbn; lia]|]. split; [discriminate|].
  split; [cbn; lia|]. vm_compute. reflexivity. Qed.

(* GF(9) = GF(3)[X]/(X^2+1), B = X^3 + 2 (not reduced): B^9 = B mod F = 2X + 2 *)
Example X_pow_example : prime 3 /\ canon 3 [1; 0; 1] /\ (2 <= length [1; 0; 1])%nat /\ irreducible_def 3 [1; 0; 1] /\
  canon 3 [2; 0; 0; 1] /\ ppowmod 3 [2; 0; 0; 1] (3 ^ deg [1; 0; 1]) [1; 0; 1] = [2; 2] /\ pmod 3 [2; 0; 0; 1] [1; 0; 1] = [2; 2].
Proof. split; [exact prime_3_lag|]. split; [split; [repeat constructor; lia|cbn; lia]|]. split; [cbn; lia|].
  split; [exact irr_3_101|]. split; [split; [repeat constructor; lia|cbn; lia]|]. split; vm_compute; reflexivity. Qed.

(* GF(9) = GF(3)[X]/(X^2+1): X has order 4 (not primitive), X+1 has order 8 (primitive) *)
Example prim_root_order_uncond_example : prime 3 /\ canon 3 [1; 1] /\ canon 3 [1; 0; 1] /\ irreducible_def 3 [1; 0; 1] /\
  pmod 3 [1; 1] [1; 0; 1] <> [] /\ is_prim_root 3 [1; 1] [1; 0; 1] 3 = true /\ is_prim_root 3 [0; 1] [1; 0; 1] 3 = false.
Proof. split; [exact prime_3_lag|]. split; [split; [repeat constructor; lia|cbn; lia]|].
  split; [split; [repeat constructor; lia|cbn; lia]|]. split; [exact irr_3_101|].
  split; [vm_compute; discriminate|]. split; vm_compute; reflexivity. Qed.
Example order_uncond_example : prime 3 /\ canon 3 [0; 1] /\ canon 3 [1; 0; 1] /\ irreducible_def 3 [1; 0; 1] /\
  pmod 3 [0; 1] [1; 0; 1] <> [] /\ order 3 [0; 1] [1; 0; 1] 3 = 4 /\ order 3 [1; 1] [1; 0; 1] 3 = 8.
Proof. split; [exact prime_3_lag|]. split; [split; [repeat constructor; lia|cbn; lia]|].
  split; [split; [repeat constructor; lia|cbn; lia]|]. split; [exact irr_3_101|].
  split; [vm_compute; discriminate|]. split; vm_compute; reflexivity. Qed.
