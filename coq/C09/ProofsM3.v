(* C09 proofs, part 10 (phase 4): the functions of Model3.v.
   * is_prim_root / order are is_prim_root_L / order_L at the model's own factor list (so every theorem about them transfers, and the
     correspondence run may supply the list);
   * factor(W, P, MOD) (single factor form), every input, every MOD, every stream: what it returns divides P and is canonical. *)
From Coq Require Import ZArith List Bool Lia Znumtheory.
From C09 Require Import Model Model3 ProofsAlg ProofsDiv ProofsSplit ProofsIrr ProofsCZ ProofsSqr.
Import ListNotations.
Local Open Scope Z_scope.

Lemma is_prim_root_L_eq p P F MOD : is_prim_root p P F MOD = is_prim_root_L p P F MOD (prime_factors (MOD ^ deg F - 1)).
Proof. reflexivity. Qed.
Lemma order_L_eq p P F MOD : order p P F MOD = order_L p P F MOD (prime_factors (MOD ^ deg F - 1)).
Proof. reflexivity. Qed.

Section P.
Variable p : Z.
Hypothesis Hp : prime p.
Notation eqp := (eqp p).
Notation canon := (canon p).
Notation divides := (divides p).

Lemma divides_trans3 a b c : divides a b -> divides b c -> divides a c.
Proof. intros [q H] [q' H']. exists (pmulZ q q'). eapply eqp_trans; [|exact H'].
  eapply eqp_trans; [|apply eqp_mul; [exact H|apply eqp_refl]]. apply eqp_ev. intros x. rewrite !ev_pmulZ. ring. Qed.

Lemma factor1_loop_spec : forall n dp W P MOD s R s', canon P ->
  factor1_loop p n dp W P MOD s = Some (R, s') -> divides R P /\ canon R.
Proof. induction n as [|n IH]; intros dp W P MOD s R s' CP H; cbn [factor1_loop] in H.
  - inversion H; subst. split; [apply divides_refl|assumption].
  - cbv zeta in H. set (G1 := pgcd p (psub p (ppowmod p W MOD P) Xpoly) P) in *.
    assert (CG : canon G1) by (apply pgcd_canon; [assumption|apply canon_red; assumption|assumption]).
    assert (DG : divides G1 P) by (apply (pgcd_divides_always p Hp); [apply canon_red; assumption|assumption]).
    destruct (deg G1 >? 0).
    + destruct (deg G1 <? deg P).
      * inversion H; subst. split; assumption.
      * destruct (split1_spec p Hp _ G1 dp MOD s R s' CG H) as [D C]. split; [eapply divides_trans3; eassumption|assumption].
    + eapply IH; eassumption. Qed.

Theorem factor1_spec P MOD s R s' : canon P -> factor1 p P MOD s = Some (R, s') -> divides R P /\ canon R.
Proof. intros CP. unfold factor1. cbv zeta. set (W := pgcd p (pdiff p P) P).
  destruct ((deg W >? 0) && (deg W <? deg P)).
  - intros H. inversion H; subst. split.
    + apply (pgcd_divides_always p Hp); [apply (pdiff_canon p Hp)|assumption].
    + apply pgcd_canon; [assumption|apply (pdiff_canon p Hp)|assumption].
  - apply factor1_loop_spec; assumption. Qed.

End P.

Definition Factor1_stmt : Prop := forall p, prime p -> forall P MOD s R s', canon p P -> factor1 p P MOD s = Some (R, s') ->
  divides p R P /\ canon p R.
Lemma factor1_thm : Factor1_stmt.
Proof. exact factor1_spec. Qed.
(* (X+1)^2 over GF(2): P' = 0, gcd(P',P) = P is not taken for a factor; the distinct-degree stage returns X+1 *)
Example factor1_example : factor1 2 [1; 0; 1] 2 [] = Some ([1; 1], []).
Proof. vm_compute. reflexivity. Qed.
Definition Prim_root_L_stmt : Prop := forall p P F MOD,
  is_prim_root p P F MOD = is_prim_root_L p P F MOD (prime_factors (MOD ^ deg F - 1)) /\
  order p P F MOD = order_L p P F MOD (prime_factors (MOD ^ deg F - 1)).
Lemma prim_root_L_thm : Prim_root_L_stmt.
Proof. intros. split; reflexivity. Qed.
