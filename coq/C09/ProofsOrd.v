(* C09 proofs, part 8: is_prim_root / order (givpoly1proot.inl as modelled) against the definition of the multiplicative
   order, for EVERY prime p, every modulus F of degree >= 1 and every element A.
   Nothing is assumed about F except the finite-group fact  A'^qp = 1  (qp = MOD^deg F - 1, A' = A mod F), which is a
   hypothesis of the theorems (it holds when F is irreducible over GF(p), MOD = p and A' <> 0: Lagrange in GF(p)[X]/F).
   The list of prime factors is NOT a hypothesis: Model.prime_factors (trial division with fuel sqrt n + 2) is proved to
   return exactly the prime divisors of n for every n >= 1 (prime_factors_spec). *)
From Coq Require Import ZArith List Bool Lia Znumtheory.
From C09 Require Import Model ProofsAlg ProofsDiv ProofsSplit ProofsCZ ProofsIrr ProofsPow.
Import ListNotations.
Local Open Scope Z_scope.

(* ---- B1: trial division returns exactly the prime divisors *)
Lemma divide_mod0 n d : d <> 0 -> ((d | n) <-> n mod d = 0).
Proof. intros H. split; [apply Z.mod_divide; assumption|]. intros E. apply Z.mod_divide; assumption. Qed.

Lemma divide_cofactor n k : 0 < n -> 1 < k < n -> (k | n) -> exists m, n = k * m /\ 1 < m < n.
Proof. intros Hn Hk [m E]. exists m. split; [lia|]. nia. Qed.

(* no divisor in (1, d) and d*d > n : n is prime *)
Lemma prime_of_no_small_divisor n d : 1 < n -> n < d * d -> 0 <= d -> (forall k, 1 < k < d -> ~ (k | n)) -> prime n.
Proof. intros Hn Hd H0 Hno. apply prime_alt. split; [assumption|]. intros k Hk Hdiv.
  destruct (divide_cofactor n k ltac:(lia) Hk Hdiv) as [m [E Hm]].
  destruct (Z_lt_le_dec k d) as [L|L]. { apply (Hno k); [lia|assumption]. }
  destruct (Z_lt_le_dec m d) as [L'|L']. { apply (Hno m); [lia|]. exists k. lia. }
  nia. Qed.

Lemma prime_divides_pow l d : prime l -> forall j : nat, (l | d ^ Z.of_nat j) -> (l | d).
Proof. intros Hl. induction j as [|j IH]; intros H.
  - change (Z.of_nat 0) with 0 in H. rewrite Z.pow_0_r in H. destruct Hl as [Hl _].
    apply Z.divide_1_r_nonneg in H; lia.
  - rewrite Nat2Z.inj_succ, Z.pow_succ_r in H by lia. apply prime_mult in H; [|assumption]. tauto. Qed.

Lemma strip_spec d : 2 <= d -> forall fuel n, 1 <= n -> n <= Z.of_nat fuel ->
  exists j : nat, n = strip fuel n d * d ^ Z.of_nat j /\ 1 <= strip fuel n d /\ (strip fuel n d) mod d <> 0.
Proof. intros Hd. induction fuel as [|f IH]; intros n Hn Hf; [lia|]. cbn [strip].
  destruct (Z.eqb_spec (n mod d) 0) as [E|E].
  - assert (En : n = d * (n / d)) by (apply Z_div_exact_full_2; lia).
    assert (1 <= n / d) by nia. assert (n / d < n) by nia.
    destruct (IH (n / d) ltac:(lia) ltac:(lia)) as [j [E1 [E2 E3]]]. exists (S j). split; [|split; assumption].
    rewrite Nat2Z.inj_succ, Z.pow_succ_r by lia. rewrite En at 1. rewrite E1 at 1. ring.
  - exists O. change (Z.of_nat 0) with 0. rewrite Z.pow_0_r. split; [lia|split; [lia|assumption]]. Qed.

Lemma sqrt_lt_sq n d : 0 <= n -> Z.sqrt n + 1 <= d -> n < d * d.
Proof. intros Hn Hd. pose proof (Z.sqrt_spec n Hn) as [_ H]. unfold Z.succ in H.
  pose proof (Z.sqrt_nonneg n) as S0.
  pose proof (Z.mul_le_mono_nonneg (Z.sqrt n + 1) d (Z.sqrt n + 1) d ltac:(lia) Hd ltac:(lia) Hd). lia. Qed.

Lemma pf_loop_spec : forall fuel n d, 1 <= n -> 2 <= d -> (forall k, 1 < k < d -> ~ (k | n)) ->
  Z.sqrt n + 2 <= Z.of_nat fuel + d ->
  forall l, In l (pf_loop fuel n d) <-> (prime l /\ (l | n)).
Proof. induction fuel as [|f IH]; intros n d Hn Hd Hno Hf l.
  - cbn [pf_loop]. assert (Hdd : n < d * d) by (apply sqrt_lt_sq; lia).
    destruct (Z.gtb_spec n 1) as [G|G].
    + pose proof (prime_of_no_small_divisor n d G Hdd ltac:(lia) Hno) as Pn. cbn [In]. split.
      * intros [<-|[]]. split; [assumption|apply Z.divide_refl].
      * intros [Pl Dl]. left. symmetry. apply prime_div_prime; assumption.
    + assert (n = 1) by lia. subst n. cbn [In]. split; [tauto|]. intros [Pl Dl]. destruct Pl as [Pl _].
      apply Z.divide_1_r_nonneg in Dl; lia.
  - cbn [pf_loop]. destruct (Z.leb_spec n 1) as [G|G].
    { assert (n = 1) by lia. subst n. cbn [In]. split; [tauto|]. intros [Pl Dl]. destruct Pl as [Pl _].
      apply Z.divide_1_r_nonneg in Dl; lia. }
    destruct (Z.gtb_spec (d * d) n) as [G2|G2].
    { pose proof (prime_of_no_small_divisor n d G G2 ltac:(lia) Hno) as Pn. cbn [In]. split.
      * intros [<-|[]]. split; [assumption|apply Z.divide_refl].
      * intros [Pl Dl]. left. symmetry. apply prime_div_prime; assumption. }
    destruct (Z.eqb_spec (n mod d) 0) as [E|E].
    + assert (Dn : (d | n)) by (apply divide_mod0; [lia|assumption]).
      assert (Pd : prime d).
      { apply prime_alt. split; [lia|]. intros k Hk Hkd. apply (Hno k Hk). eapply Z.divide_trans; eassumption. }
      destruct (strip_spec d Hd (Z.to_nat n) n Hn ltac:(lia)) as [j [E1 [E2 E3]]].
      set (n' := strip (Z.to_nat n) n d) in *.
      assert (Dn' : (n' | n)) by (exists (d ^ Z.of_nat j); lia).
      assert (Ln' : n' <= n) by (apply Z.divide_pos_le; [lia|assumption]).
      assert (Hno' : forall k, 1 < k < d + 1 -> ~ (k | n')).
      { intros k Hk Hkn. destruct (Z.eq_dec k d) as [->|Nk].
        - apply E3. apply divide_mod0; [lia|assumption].
        - apply (Hno k ltac:(lia)). eapply Z.divide_trans; eassumption. }
      assert (Hf' : Z.sqrt n' + 2 <= Z.of_nat f + (d + 1)).
      { pose proof (Z.sqrt_le_mono n' n Ln'). lia. }
      specialize (IH n' (d + 1) E2 ltac:(lia) Hno' Hf' l). cbn [In]. rewrite IH. split.
      * intros [<-|[Pl Dl]]; [split; assumption|]. split; [assumption|]. eapply Z.divide_trans; eassumption.
      * intros [Pl Dl]. rewrite E1 in Dl. apply prime_mult in Dl; [|assumption]. destruct Dl as [Dl|Dl]; [right; split; assumption|].
        left. apply prime_divides_pow in Dl; [|assumption]. symmetry. apply prime_div_prime; assumption.
    + apply IH; [assumption|lia| |lia]. intros k Hk Hkn. destruct (Z.eq_dec k d) as [->|Nk].
      * apply E. apply divide_mod0; [lia|assumption].
      * apply (Hno k ltac:(lia) Hkn). Qed.

Theorem prime_factors_spec n : 1 <= n -> forall l, In l (prime_factors n) <-> (prime l /\ (l | n)).
Proof. intros Hn. unfold prime_factors. apply pf_loop_spec; [assumption|lia|intros k Hk; lia|].
  pose proof (Z.sqrt_nonneg n). lia. Qed.

Lemma prime_factors_small n : n <= 1 -> prime_factors n = [].
Proof. intros H. unfold prime_factors. rewrite Nat.add_comm. cbn [Nat.add pf_loop].
  destruct (Z.leb_spec n 1); [reflexivity|lia]. Qed.

(* every integer >= 2 has a prime divisor *)
Lemma exists_prime_divisor : forall n, 2 <= n -> exists l, prime l /\ (l | n).
Proof. intros n Hn. assert (H0 : 0 <= n) by lia. revert Hn. pattern n. apply (Zlt_0_ind _ ) with (2 := H0). clear n H0.
  intros n IH _ Hn. destruct (prime_dec n) as [P|NP]. { exists n. split; [assumption|apply Z.divide_refl]. }
  destruct (not_prime_divide n ltac:(lia) NP) as [k [Hk Dk]].
  destruct (IH k ltac:(lia) ltac:(lia)) as [l [Pl Dl]]. exists l. split; [assumption|]. eapply Z.divide_trans; eassumption. Qed.

Section P.
Variable p : Z.
Hypothesis Hp : prime p.
Notation canon := (canon p).

(* ---- order theory of a fixed element B modulo F, in terms of powmod only *)
Section Elt.
Variables B F : poly.
Hypothesis CB : canon B.
Hypothesis CF : canon F.
Hypothesis LF : (2 <= length F)%nat.
Notation pw e := (ppowmod p B e F).

Lemma pw_mul_one a k : 0 <= a -> 0 <= k -> pw a = pone -> pw (a * k) = pone.
Proof. intros. apply (ppowmod_one_pow p Hp); assumption. Qed.

Lemma pw_mod_one a b : 0 <= a -> 0 < b -> pw a = pone -> pw b = pone -> pw (a mod b) = pone.
Proof. intros Ha Hb Ea Eb. pose proof (Z.mod_pos_bound a b Hb) as Hm.
  assert (Hq : 0 <= a / b) by (apply Z.div_pos; lia).
  rewrite <- (ppowmod_add_one p Hp B F (b * (a / b)) (a mod b) CB CF LF ltac:(nia) ltac:(lia)).
  - rewrite <- Z.div_mod by lia. exact Ea.
  - apply pw_mul_one; [lia|assumption|assumption]. Qed.

Lemma pw_gcd_one : forall b, 0 <= b -> forall a, 0 <= a -> pw a = pone -> pw b = pone -> pw (Z.gcd a b) = pone.
Proof. intros b Hb. pattern b. apply (Zlt_0_ind _) with (2 := Hb). clear b Hb.
  intros b IH Hb a Ha Ea Eb. destruct (Z.eq_dec b 0) as [->|Nb].
  - rewrite Z.gcd_0_r, Z.abs_eq by assumption. exact Ea.
  - pose proof (Z.mod_pos_bound a b ltac:(lia)) as Hm.
    rewrite Z.gcd_comm, <- Z.gcd_mod by assumption. rewrite Z.gcd_comm.
    apply IH; [lia|lia|assumption|]. apply pw_mod_one; [assumption|lia|assumption|assumption]. Qed.

(* if r is an exponent of B and no r/l (l prime, l | r) is one, then r is the least positive exponent *)
Lemma order_char r : 1 <= r -> pw r = pone -> (forall l, prime l -> (l | r) -> pw (r / l) <> pone) ->
  forall m, 0 < m < r -> pw m <> pone.
Proof. intros Hr Er Hl m Hm Em.
  pose proof (pw_gcd_one r ltac:(lia) m ltac:(lia) Em Er) as Eg.
  pose proof (Z.gcd_divide_l m r) as D1. pose proof (Z.gcd_divide_r m r) as D2.
  pose proof (Z.gcd_nonneg m r) as G0. set (g := Z.gcd m r) in *.
  assert (G1 : 1 <= g). { destruct D2 as [c Ec]. assert (g <> 0) by (intro; subst g; lia). lia. }
  assert (G2 : g <= m) by (apply Z.divide_pos_le; [lia|assumption]).
  destruct D2 as [c Ec]. assert (Hc : 2 <= c) by nia.
  destruct (exists_prime_divisor c Hc) as [l [Pl [c' Ec']]].
  assert (L2 : 2 <= l) by (destruct Pl; lia).
  apply (Hl l Pl).
  - exists (c' * g). rewrite Ec, Ec'. ring.
  - assert (E : r / l = g * c'). { symmetry. apply Z.div_unique_exact; [lia|]. rewrite Ec, Ec'. ring. }
    rewrite E. apply pw_mul_one; [lia|nia|assumption]. Qed.

(* ---- the loops of is_prim_root / order *)
Lemma all_not_one_spec qp : forall L, all_not_one p B F qp L = true <-> (forall l, In l L -> pw (qp / l) <> pone).
Proof. induction L as [|l L IH]; cbn [all_not_one].
  - split; [intros _ l []|reflexivity].
  - destruct (list_eq_dec Z.eq_dec (pw (qp / l)) pone) as [E|E].
    + split; [discriminate|]. intros H. exfalso. apply (H l); [left; reflexivity|assumption].
    + rewrite IH. split.
      * intros H l' [<-|Hl]; [assumption|apply H; assumption].
      * intros H l' Hl. apply H. right. assumption. Qed.

Lemma first_fail_spec qp : forall L,
  match first_fail p B F qp L with
  | None => forall l, In l L -> pw (qp / l) <> pone
  | Some R => exists pre l0 L', R = l0 :: L' /\ L = pre ++ l0 :: L' /\
                (forall l, In l pre -> pw (qp / l) <> pone) /\ pw (qp / l0) = pone
  end.
Proof. induction L as [|l L IH]; cbn [first_fail]; [intros l []|].
  destruct (list_eq_dec Z.eq_dec (pw (qp / l)) pone) as [E|E].
  - exists [], l, L. split; [reflexivity|]. split; [reflexivity|]. split; [intros l' []|assumption].
  - destruct (first_fail p B F qp L) as [R|].
    + destruct IH as [pre [l0 [L' [E1 [E2 [E3 E4]]]]]]. exists (l :: pre), l0, L'.
      split; [assumption|]. split; [rewrite E2; reflexivity|]. split; [|assumption].
      intros l' [<-|Hl]; [assumption|apply E3; assumption].
    + intros l' [<-|Hl]; [assumption|apply IH; assumption]. Qed.

(* l is "done" for g: one cannot divide g by l and keep an exponent *)
Definition okl (g l : Z) : Prop := ~ ((l | g) /\ pw (g / l) = pone).

Lemma okl_reduce g g' c l : 1 <= l -> 0 <= c -> 1 <= g' -> g = g' * c -> okl g l -> okl g' l.
Proof. intros Hl Hc Hg' E H [D1 D2]. apply H. split.
  - rewrite E. apply Z.divide_mul_l. assumption.
  - assert (E2 : g / l = c * (g' / l)).
    { rewrite E, (Z.mul_comm g' c). apply Z.divide_div_mul_exact; [lia|assumption]. }
    rewrite E2, Z.mul_comm. apply pw_mul_one; [|assumption|assumption].
    apply Z.div_pos; lia. Qed.

Lemma lower_spec l : 2 <= l -> forall fuel g, 1 <= g -> g < 2 ^ Z.of_nat fuel -> pw g = pone ->
  1 <= lower p fuel B F g l /\ (exists c, 0 <= c /\ g = lower p fuel B F g l * c) /\
  pw (lower p fuel B F g l) = pone /\ okl (lower p fuel B F g l) l.
Proof. intros Hl. induction fuel as [|f IH]; intros g Hg Hf Eg.
  { change (Z.of_nat 0) with 0 in Hf. rewrite Z.pow_0_r in Hf. lia. }
  cbn [lower]. destruct (Z.eqb_spec (g mod l) 0) as [E|E]; cbn [andb].
  - destruct (list_eq_dec Z.eq_dec (pw (g / l)) pone) as [E1|E1].
    + assert (En : g = l * (g / l)) by (apply Z_div_exact_full_2; lia).
      assert (H1 : 1 <= g / l) by nia.
      rewrite Nat2Z.inj_succ, Z.pow_succ_r in Hf by lia.
      assert (H2 : g / l < 2 ^ Z.of_nat f) by nia.
      destruct (IH (g / l) H1 H2 E1) as [I1 [[c [Hc Ec]] [I3 I4]]].
      split; [assumption|]. split; [|split; assumption].
      exists (c * l). split; [nia|]. rewrite En at 1. rewrite Ec at 1. ring.
    + split; [assumption|]. split; [exists 1; lia|]. split; [assumption|]. intros [_ D2]. contradiction.
  - split; [assumption|]. split; [exists 1; lia|]. split; [assumption|]. intros [D1 _]. apply E.
    apply divide_mod0; [lia|assumption]. Qed.

Definition lower_step (g l : Z) : Z := lower p (Z.to_nat (Z.log2 (Z.abs g)) + 1) B F g l.

Lemma lower_step_spec l g : 2 <= l -> 1 <= g -> pw g = pone ->
  1 <= lower_step g l /\ (exists c, 0 <= c /\ g = lower_step g l * c) /\
  pw (lower_step g l) = pone /\ okl (lower_step g l) l.
Proof. intros Hl Hg Eg. apply lower_spec; [assumption|assumption| |assumption].
  rewrite Z.abs_eq by lia. pose proof (Z.log2_nonneg g). pose proof (Z.log2_spec g ltac:(lia)) as [_ H2].
  replace (Z.of_nat (Z.to_nat (Z.log2 g) + 1)) with (Z.succ (Z.log2 g)) by lia. assumption. Qed.

Lemma fold_lower_spec : forall L g, (forall l, In l L -> 2 <= l) -> 1 <= g -> pw g = pone ->
  1 <= fold_left lower_step L g /\ (exists c, 0 <= c /\ g = fold_left lower_step L g * c) /\
  pw (fold_left lower_step L g) = pone /\ (forall l, In l L -> okl (fold_left lower_step L g) l) /\
  (forall l, 1 <= l -> okl g l -> okl (fold_left lower_step L g) l).
Proof. induction L as [|l0 L IH]; intros g HL Hg Eg; cbn [fold_left].
  - split; [assumption|]. split; [exists 1; lia|]. split; [assumption|]. split; [intros l []|auto].
  - destruct (lower_step_spec l0 g (HL l0 ltac:(left; reflexivity)) Hg Eg) as [S1 [[c1 [Hc1 Ec1]] [S3 S4]]].
    destruct (IH (lower_step g l0) ltac:(intros l Hl; apply HL; right; assumption) S1 S3)
      as [I1 [[c [Hc Ec]] [I3 [I4 I5]]]].
    set (r := fold_left lower_step L (lower_step g l0)) in *.
    split; [assumption|]. split; [|split; [assumption|split]].
    + exists (c * c1). split; [nia|]. rewrite Ec1 at 1. rewrite Ec at 1. ring.
    + intros l [<-|Hl]; [|apply I4; assumption]. apply I5; [specialize (HL l0 ltac:(left; reflexivity)); lia|assumption].
    + intros l Hl H. apply I5; [assumption|]. apply (okl_reduce g _ c1 l); assumption. Qed.

End Elt.

(* ---- B2..B4: is_prim_root and order of the code, for an arbitrary element A and modulus F *)
Section Main.
Variables (A F : poly) (MOD : Z).
Hypothesis CA : canon A.
Hypothesis CF : canon F.
Hypothesis LF : (2 <= length F)%nat.
Notation A' := (pmod p A F).
Notation qp := (MOD ^ deg F - 1).
Notation pw e := (ppowmod p (pmod p A F) e F).

Lemma pmod_elt_canon : canon A'.
Proof. apply pmod_canon; assumption. Qed.

(* B2: what is_prim_root tests *)
Theorem is_prim_root_iff : deg (pgcd p A' F) = 0 ->
  (is_prim_root p A F MOD = true <-> forall l, In l (prime_factors qp) -> pw (qp / l) <> pone).
Proof. intros Hg. unfold is_prim_root. rewrite Hg. cbn [Z.eqb]. apply all_not_one_spec. Qed.

Theorem is_prim_root_iff_full :
  is_prim_root p A F MOD = true <->
  (deg (pgcd p A' F) = 0 /\ forall l, In l (prime_factors qp) -> pw (qp / l) <> pone).
Proof. destruct (Z.eq_dec (deg (pgcd p A' F)) 0) as [Hg|Hg].
  - rewrite (is_prim_root_iff Hg). tauto.
  - unfold is_prim_root. destruct (Z.eqb_spec (deg (pgcd p A' F)) 0); [contradiction|]. split; [discriminate|tauto]. Qed.

(* B3: given A'^qp = 1, is_prim_root holds exactly when qp is the least positive exponent of A' *)
Theorem prim_root_order : deg (pgcd p A' F) = 0 -> pw qp = pone ->
  (is_prim_root p A F MOD = true <-> forall m, 0 < m < qp -> pw m <> pone).
Proof. intros Hg Hone. rewrite (is_prim_root_iff Hg). destruct (Z_lt_le_dec qp 1) as [Hq|Hq].
  { rewrite prime_factors_small by lia. split; [intros _ m Hm; lia|intros _ l []]. }
  pose proof (prime_factors_spec qp Hq) as PF. split.
  - intros H. apply (order_char A' F pmod_elt_canon CF LF qp Hq Hone). intros l Pl Dl. apply H. apply PF. split; assumption.
  - intros H l Hl. apply PF in Hl. destruct Hl as [Pl [c Ec]]. assert (2 <= l) by (destruct Pl; lia).
    assert (E : qp / l = c) by (symmetry; apply Z.div_unique_exact; lia).
    rewrite E. apply H. nia. Qed.

(* the two exits of `order` *)
Lemma order_cases : deg (pgcd p A' F) = 0 ->
  (order p A F MOD = qp /\ forall l, In l (prime_factors qp) -> pw (qp / l) <> pone) \/
  (exists pre l0 L', prime_factors qp = pre ++ l0 :: L' /\ (forall l, In l pre -> pw (qp / l) <> pone) /\
     pw (qp / l0) = pone /\ order p A F MOD = fold_left (lower_step A' F) (l0 :: L') (qp / l0)).
Proof. intros Hg. unfold order. rewrite Hg. cbn [Z.eqb].
  pose proof (first_fail_spec A' F qp (prime_factors qp)) as FF.
  destruct (first_fail p A' F qp (prime_factors qp)) as [R|].
  - right. destruct FF as [pre [l0 [L' [-> [EL [Hpre E0]]]]]]. exists pre, l0, L'. repeat split; assumption || reflexivity.
  - left. split; [reflexivity|assumption]. Qed.

(* B4: given A'^qp = 1, `order` returns the multiplicative order of A' *)
Theorem order_spec : deg (pgcd p A' F) = 0 -> 1 <= qp -> pw qp = pone ->
  0 < order p A F MOD /\ (order p A F MOD | qp) /\ pw (order p A F MOD) = pone /\
  forall m, 0 < m < order p A F MOD -> pw m <> pone.
Proof. intros Hg Hq Hone. pose proof (prime_factors_spec qp Hq) as PF.
  destruct (order_cases Hg) as [[-> H]|[pre [l0 [L' [EL [Hpre [E0 ->]]]]]]].
  - split; [lia|]. split; [apply Z.divide_refl|]. split; [assumption|].
    apply (order_char A' F pmod_elt_canon CF LF qp Hq Hone). intros l Pl Dl. apply H. apply PF. split; assumption.
  - assert (In0 : In l0 (prime_factors qp)) by (rewrite EL; apply in_or_app; right; left; reflexivity).
    apply PF in In0. destruct In0 as [P0 [g0 Eg0]]. assert (L0 : 2 <= l0) by (destruct P0; lia).
    assert (E : qp / l0 = g0) by (symmetry; apply Z.div_unique_exact; lia).
    rewrite E in *. assert (G0 : 1 <= g0) by nia.
    assert (HL : forall l, In l (l0 :: L') -> 2 <= l).
    { intros l Hl. assert (Il : In l (prime_factors qp)) by (rewrite EL; apply in_or_app; right; assumption).
      apply PF in Il. destruct Il as [[Pl _] _]. lia. }
    destruct (fold_lower_spec A' F pmod_elt_canon CF LF (l0 :: L') g0 HL G0 E0) as [I1 [[c [Hc Ec]] [I3 [I4 I5]]]].
    set (r := fold_left (lower_step A' F) (l0 :: L') g0) in *.
    split; [lia|]. split; [exists (c * l0); rewrite Eg0, Ec; ring|]. split; [assumption|].
    apply (order_char A' F pmod_elt_canon CF LF r I1 I3). intros l Pl Dl E1.
    assert (L1 : 1 <= l) by (destruct Pl; lia).
    assert (Il : In l (prime_factors qp)).
    { apply PF. split; [assumption|]. destruct Dl as [t Et]. exists (c * l0 * t). rewrite Eg0, Ec, Et. ring. }
    rewrite EL in Il. apply in_app_or in Il. destruct Il as [Il|Il].
    + apply (I5 l L1); [|split; assumption].
      apply (okl_reduce A' F pmod_elt_canon CF LF qp g0 l0 l); [assumption|lia|assumption|lia|].
      intros [_ D2]. apply (Hpre l Il). assumption.
    + apply (I4 l Il). split; assumption. Qed.

End Main.
End P.

(* ---- closed statements *)
(* Model.prime_factors (trial division, fuel sqrt n + 2) returns exactly the prime divisors of n *)
Definition Prime_factors_stmt : Prop := forall n, 1 <= n -> forall l, In l (prime_factors n) <-> (prime l /\ (l | n)).
Lemma prime_factors_thm : Prime_factors_stmt.
Proof. exact prime_factors_spec. Qed.

(* what is_prim_root tests, in terms of powmod: A' = A mod F is prime to F and A'^(qp/l) <> 1 for every prime l | qp *)
Definition Is_prim_root_tests_stmt : Prop := forall p, prime p -> forall A F MOD,
  let A' := pmod p A F in let qp := MOD ^ deg F - 1 in
  is_prim_root p A F MOD = true <->
  (deg (pgcd p A' F) = 0 /\ forall l, In l (prime_factors qp) -> ppowmod p A' (qp / l) F <> pone).
Lemma is_prim_root_tests_thm : Is_prim_root_tests_stmt.
Proof. intros p Hp A F MOD A' qp. apply is_prim_root_iff_full. Qed.

(* given the group fact A'^qp = 1: is_prim_root <-> the multiplicative order of A' modulo F is exactly qp *)
Definition Prim_root_order_stmt : Prop := forall p, prime p -> forall A F MOD,
  canon p A -> canon p F -> (2 <= length F)%nat ->
  let A' := pmod p A F in let qp := MOD ^ deg F - 1 in
  deg (pgcd p A' F) = 0 -> ppowmod p A' qp F = pone ->
  (is_prim_root p A F MOD = true <-> forall m, 0 < m < qp -> ppowmod p A' m F <> pone).
Lemma prim_root_order_thm : Prim_root_order_stmt.
Proof. intros p Hp A F MOD CA CF LF A' qp Hg Hone. apply prim_root_order; assumption. Qed.

(* given the group fact A'^qp = 1: `order` returns the least positive exponent of A' modulo F, and it divides qp *)
Definition Order_stmt : Prop := forall p, prime p -> forall A F MOD,
  canon p A -> canon p F -> (2 <= length F)%nat ->
  let A' := pmod p A F in let qp := MOD ^ deg F - 1 in let r := order p A F MOD in
  deg (pgcd p A' F) = 0 -> 1 <= qp -> ppowmod p A' qp F = pone ->
  0 < r /\ (r | qp) /\ ppowmod p A' r F = pone /\ forall m, 0 < m < r -> ppowmod p A' m F <> pone.
Lemma order_thm : Order_stmt.
Proof. intros p Hp A F MOD CA CF LF A' qp r Hg Hq Hone. apply order_spec; assumption. Qed.

(* the hypotheses are satisfiable: GF(4) = GF(2)[X]/(X^2+X+1), A = X, MOD = 2: qp = 3, X^3 = 1, order 3, primitive *)
Example order_example : prime 2 /\ canon 2 [0; 1] /\ canon 2 [1; 1; 1] /\ (2 <= length [1; 1; 1])%nat /\
  deg (pgcd 2 (pmod 2 [0; 1] [1; 1; 1]) [1; 1; 1]) = 0 /\ 1 <= 2 ^ deg [1; 1; 1] - 1 /\
  ppowmod 2 (pmod 2 [0; 1] [1; 1; 1]) (2 ^ deg [1; 1; 1] - 1) [1; 1; 1] = pone /\
  order 2 [0; 1] [1; 1; 1] 2 = 3 /\ is_prim_root 2 [0; 1] [1; 1; 1] 2 = true.
Proof. split; [exact prime_2|]. split; [split; [repeat constructor; lia|cbn; lia]|].
  split; [split; [repeat constructor; lia|cbn; lia]|]. split; [cbn; lia|].
  split; [vm_compute; reflexivity|]. split; [vm_compute; discriminate|]. repeat split; vm_compute; reflexivity. Qed.
