(* C09 proofs, part 13: the parts delivered by the REPAIRED square-free decomposition (Model2.sqrfree_rep) are SQUARE-FREE
   and PAIRWISE COPRIME, for every prime p and every canonical non-zero input, through the recursion on p-th roots.
   These were the last two hypotheses of "CZfactor returns irreducible, pairwise non-associate factors"
   (ProofsFactors.czfactor_rep_nonassoc, ProofsRoots.czfactor_rep_irreducible_squarefree); the final statement
   Czfactor_rep_total_stmt has no hypothesis left but `canon p P`, `P <> []` and MOD = p.
   Everything is proved by induction / loop invariants; nothing is computed except in the `Example`s.
   Notation: A = sq_A p P (P made monic), C0 = sq_C p P (monic gcd(A, A')), W0 = A / C0; nosq g = no square of an
   irreducible divides g.
   P1  nosq g <-> sqfree_h p g (the model's test deg gcd(g, g') <= 0), for canonical g <> 0;
       no common irreducible divisor -> deg gcd <= 0; nosq (a b) from nosq a, nosq b, no common irreducible divisor
   P2  W0 is square-free, every characteristic: h^2 | W0 gives h^k | C0 for every k (Leibniz + pgcd_greatest)
   P3  a third invariant of the gcd(W, C) loop: (product of the parts appended) * Wf | W on entry, the leftover divides C,
       and a common divisor of W and of the leftover divides the final cofactor Wf (a constant)
   P4  place multiplies the plain products: prodl (place H j acc) = prodl acc * prodl H
   P5  nosq (prodl Fact) for the list sqrfree_rep returns, by induction over the recursion on p-th roots
   P6  (S) + (C) for the parts, and the unconditional statement about CZfactor *)
From Coq Require Import ZArith List Bool Lia Znumtheory.
From C09 Require Import Model Model2 ProofsAlg ProofsDiv ProofsSplit ProofsCZ ProofsIrr ProofsSqr ProofsRep ProofsRep2
  ProofsFactors ProofsLagrange ProofsRoots.
Import ListNotations.
Local Open Scope Z_scope.
Ltac Zify.zify_post_hook ::= Z.div_mod_to_equations.

Ltac evq := apply eqp_ev; intros ?x;
  repeat (rewrite ?ev_pmulZ, ?ev_paddZ, ?ev_pscaleZ, ?ev_prodl_app, ?ev_prodl_cons, ?ev_prodl_nil); cbn [ev]; ring.

Lemma ev_prodl_ones m x : ev (prodl (repeat pone m)) x = 1.
Proof. induction m as [|m IH]; cbn [repeat]; [apply ev_prodl_nil|]. rewrite ev_prodl_cons, IH. unfold pone. cbn [ev]. ring. Qed.

Section P.
Variable p : Z.
Hypothesis Hp : prime p.
Let p_gt_1 : 1 < p. Proof. destruct Hp; assumption. Qed.
Notation eqp := (eqp p).
Notation canon := (canon p).
Notation divides := (divides p).
Notation irreducible_def := (irreducible_def p).

(* no square of an irreducible divides g *)
Definition nosq (g : poly) : Prop := forall h, canon h -> irreducible_def h -> ~ divides (pmulZ h h) g.
(* no irreducible divides both *)
Definition nocommon (a b : poly) : Prop := forall h, canon h -> irreducible_def h -> divides h a -> divides h b -> False.

(* ================= P1: algebra ================= *)
Lemma divides_mul_both a a' b b' : divides a a' -> divides b b' -> divides (pmulZ a b) (pmulZ a' b').
Proof. intros [q1 H1] [q2 H2]. exists (pmulZ q1 q2). eapply eqp_trans; [|apply eqp_mul; [exact H1|exact H2]]. evq. Qed.

(* Euclid's lemma, no canonicity asked of the members *)
Lemma euclid' h a b : canon h -> irreducible_def h -> divides h (pmulZ a b) -> divides h a \/ divides h b.
Proof. intros Ch Ih D. destruct (euclid p Hp h (red p a) b Ch Ih (canon_red p Hp a)) as [H|H].
  - eapply divides_eqp; [exact D|]. apply eqp_mul; [apply eqp_sym, eqp_red; assumption|apply eqp_refl].
  - left. eapply divides_eqp; [exact H|apply eqp_red; assumption].
  - right. assumption. Qed.

(* an irreducible does not divide its derivative *)
Lemma irr_not_div_deriv h : canon h -> irreducible_def h -> ~ divides h (pdiff p h).
Proof. intros Ch Ih D. pose proof (irr_pdiff_coprime p Hp h Ch Ih) as K. pose proof (pdiff_canon p Hp h) as Cd.
  pose proof (pgcd_greatest p Hp (pdiff p h) h h Cd Ch Ch D (divides_refl p h)) as G.
  pose proof (pgcd_canon p Hp _ _ Cd Ch) as CG.
  assert (NG : pgcd p (pdiff p h) h <> []) by (apply pgcd_nonnil; right; apply (irr_nonnil p); assumption).
  pose proof (divides_length_le p Hp h _ Ch CG NG G) as L. pose proof (irreducible_len p h Ih). unfold deg in K. lia. Qed.

(* an irreducible dividing g and g' divides g twice *)
Lemma irr_div_deriv_sq h g : canon h -> irreducible_def h -> divides h g -> divides h (dZ g) -> divides (pmulZ h h) g.
Proof. intros Ch Ih [q Hq] D2.
  assert (E : eqp (dZ g) (paddZ (pmulZ (dZ h) q) (pmulZ h (dZ q)))).
  { eapply eqp_trans; [apply (dZ_eqp p Hp); apply eqp_sym; exact Hq|]. apply eqp_ev. intros x. rewrite dZ_mul, ev_paddZ, !ev_pmulZ. ring. }
  assert (D3 : divides h (pmulZ (pdiff p h) q)).
  { eapply divides_eqp; [apply (divides_lin p h (dZ g) h [1] (pscaleZ (-1) (dZ q)) D2 (divides_refl p h))|].
    eapply eqp_trans; [apply eqp_add; [apply eqp_mul; [exact E|apply eqp_refl]|apply eqp_refl]|].
    eapply eqp_trans; [|apply eqp_mul; [apply eqp_sym, (pdiff_dZ p Hp)|apply eqp_refl]]. evq. }
  destruct (euclid p Hp h (pdiff p h) q Ch Ih (pdiff_canon p Hp h) D3) as [K|[q2 K]].
  - exfalso. exact (irr_not_div_deriv h Ch Ih K).
  - exists q2. eapply eqp_trans; [|exact Hq]. eapply eqp_trans; [|apply eqp_mul; [apply eqp_refl|exact K]]. evq. Qed.

(* no square divisor => the model's square-free test holds (the converse is ProofsRoots.sqfree_no_square) *)
Theorem nosq_sqfree g : canon g -> g <> [] -> nosq g -> sqfree_h p g.
Proof. intros Cg Ng H. unfold sqfree_h. destruct (Z.le_gt_cases (deg (pgcd p g (pdiff p g))) 0) as [|G]; [assumption|exfalso].
  pose proof (pdiff_canon p Hp g) as Cd. pose proof (pgcd_canon p Hp g _ Cg Cd) as CG.
  destruct (pgcd_divides_always p Hp g _ Cg Cd) as [D1 D2].
  destruct (exists_irr_divisor p Hp _ CG ltac:(lia)) as [h [Ch [Ih Dh]]].
  apply (H h Ch Ih). apply irr_div_deriv_sq; auto.
  - eapply divides_trans; eassumption.
  - eapply divides_eqp; [eapply divides_trans; eassumption|apply (pdiff_dZ p Hp)]. Qed.

Lemma nocommon_cop a b : canon a -> canon b -> a <> [] -> nocommon a b -> deg (pgcd p a b) <= 0.
Proof. intros Ca Cb Na H. destruct (Z.le_gt_cases (deg (pgcd p a b)) 0) as [|G]; [assumption|exfalso].
  pose proof (pgcd_canon p Hp a b Ca Cb) as CG. destruct (pgcd_divides_always p Hp a b Ca Cb) as [D1 D2].
  destruct (exists_irr_divisor p Hp _ CG ltac:(lia)) as [h [Ch [Ih Dh]]].
  apply (H h Ch Ih); eapply divides_trans; eassumption. Qed.

Lemma nosq_eqp g g' : eqp g g' -> nosq g -> nosq g'.
Proof. intros E H h Ch Ih D. apply (H h Ch Ih). eapply divides_eqp; [exact D|apply eqp_sym; exact E]. Qed.
Lemma nosq_divides d g : divides d g -> nosq g -> nosq d.
Proof. intros Dd H h Ch Ih D. apply (H h Ch Ih). eapply divides_trans; eassumption. Qed.

(* the product of two square-free polynomials without a common irreducible divisor is square-free *)
Lemma nosq_mul a b : nosq a -> nosq b -> nocommon a b -> nosq (pmulZ a b).
Proof. intros Ha Hb Hc h Ch Ih [t Ht].
  assert (Zh : ~ eqp h []) by (apply (canon_not_zero p Hp); [assumption|apply (irr_nonnil p); assumption]).
  assert (D : divides h (pmulZ a b)) by (exists (pmulZ h t); eapply eqp_trans; [|exact Ht]; evq).
  destruct (euclid' h a b Ch Ih D) as [[a1 K]|[b1 K]].
  - assert (D' : divides h (pmulZ a1 b)).
    { exists t. apply (eqp_cancel p Hp h); [assumption|]. apply eqp_trans with (pmulZ (pmulZ h h) t); [evq|].
      eapply eqp_trans; [exact Ht|]. eapply eqp_trans; [apply eqp_mul; [apply eqp_sym; exact K|apply eqp_refl]|]. evq. }
    destruct (euclid' h a1 b Ch Ih D') as [[a2 K2]|Db].
    + apply (Ha h Ch Ih). exists a2. eapply eqp_trans; [|exact K]. eapply eqp_trans; [|apply eqp_mul; [apply eqp_refl|exact K2]]. evq.
    + apply (Hc h Ch Ih); [exists a1; exact K|exact Db].
  - assert (D' : divides h (pmulZ a b1)).
    { exists t. apply (eqp_cancel p Hp h); [assumption|]. apply eqp_trans with (pmulZ (pmulZ h h) t); [evq|].
      eapply eqp_trans; [exact Ht|]. eapply eqp_trans; [apply eqp_mul; [apply eqp_refl|apply eqp_sym; exact K]|]. evq. }
    destruct (euclid' h a b1 Ch Ih D') as [Da|[b2 K2]].
    + apply (Hc h Ch Ih); [exact Da|exists b1; exact K].
    + apply (Hb h Ch Ih). exists b2. eapply eqp_trans; [|exact K]. eapply eqp_trans; [|apply eqp_mul; [apply eqp_refl|exact K2]]. evq. Qed.

(* a list whose product is square-free: every member is square-free, any two are coprime (the model's tests) *)
Theorem nosq_prodl_parts : forall L, Forall canon L -> Forall (fun g => g <> []) L -> nosq (prodl L) ->
  Forall (sqfree_h p) L /\ pairwise_cop p L.
Proof. induction L as [|a L IH]; intros CL NL H; [split; [constructor|exact I]|].
  inversion CL as [|? ? Ca CL']; inversion NL as [|? ? Na NL']; subst.
  change (prodl (a :: L)) with (pmulZ a (prodl L)) in H.
  destruct (IH CL' NL' (nosq_divides _ _ (divides_factor_r p a (prodl L)) H)) as [S1 S2].
  split.
  - constructor; [|assumption]. apply nosq_sqfree; auto. exact (nosq_divides _ _ (divides_factor_l p a (prodl L)) H).
  - cbn [pairwise_cop]. split; [|assumption]. apply Forall_forall. intros b Hb.
    rewrite Forall_forall in CL'. apply nocommon_cop; auto.
    intros h Ch Ih Da Db. apply (H h Ch Ih). apply divides_mul_both; [assumption|].
    eapply divides_trans; [exact Db|]. apply in_divides_prodl. assumption. Qed.

(* ================= P2: W0 = A / gcd(A, A') is square-free ================= *)
Lemma pwr_in_C0 P h : canon P -> P <> [] -> canon h -> irreducible_def h ->
  divides (pmulZ h h) (pdiv p (sq_A p P) (sq_C p P)) -> forall k, divides (pwr h k) (sq_C p P).
Proof. intros CP NP Ch Ih [t Ht]. destruct (sq_A_facts p Hp P CP NP) as [CA [NA _]].
  destruct (sq_C_facts p Hp P CP NP) as [CC [NC [DC [DB DG]]]]. destruct (div_exact p Hp _ _ CA CC NC DC) as [Ex _].
  set (A := sq_A p P) in *. set (C := sq_C p P) in *. set (W := pdiv p A C) in *.
  induction k as [|k IH]; [apply (pone_divides p Hp)|]. destruct IH as [q Hq]. set (T := pmulZ q t).
  assert (EA : eqp A (pmulZ (pwr h (S (S k))) T)).
  { apply eqp_sym. eapply eqp_trans; [|exact Ex]. eapply eqp_trans; [|apply eqp_mul; [exact Hq|exact Ht]]. cbn [pwr]. unfold T. evq. }
  assert (D1 : divides (pwr h (S k)) A).
  { exists (pmulZ h T). eapply eqp_trans; [|apply eqp_sym; exact EA]. cbn [pwr]. evq. }
  assert (D2 : divides (pwr h (S k)) (pdiff p A)).
  { exists (paddZ (pscaleZ (Z.of_nat (S (S k))) (pmulZ (dZ h) T)) (pmulZ h (dZ T))).
    eapply eqp_trans; [|apply eqp_sym; eapply eqp_trans; [apply (pdiff_dZ p Hp)|apply (dZ_eqp p Hp); exact EA]].
    apply eqp_ev. intros x. rewrite dZ_mul, ev_dZ_pwr. change (pwr h (S (S k))) with (pmulZ h (pwr h (S k))).
    repeat (rewrite ?ev_pmulZ, ?ev_paddZ, ?ev_pscaleZ). ring. }
  set (R := red p (pwr h (S k))). assert (CR : canon R) by (apply canon_red; assumption).
  assert (ER : eqp (pwr h (S k)) R) by (apply eqp_sym, eqp_red; assumption).
  pose proof (pgcd_greatest p Hp A (pdiff p A) R CA (pdiff_canon p Hp A) CR
                (divides_eqp_l p _ _ _ ER D1) (divides_eqp_l p _ _ _ ER D2)) as G.
  apply (divides_eqp_l p R); [apply eqp_sym; exact ER|]. eapply divides_trans; [exact G|exact DG]. Qed.

Theorem W0_nosq P : canon P -> P <> [] -> nosq (pdiv p (sq_A p P) (sq_C p P)).
Proof. intros CP NP h Ch Ih D. destruct (sq_C_facts p Hp P CP NP) as [CC [NC _]].
  pose proof (pwr_in_C0 P h CP NP Ch Ih D (length (sq_C p P))) as K.
  apply (pwr_divides_len p Hp h _ _ Ch (irr_nonnil p h Ih) CC NC) in K. pose proof (irreducible_len p h Ih). nia. Qed.

(* ================= P3: a third invariant of the gcd(W, C) loop ================= *)
Lemma mus_inv2 : forall fuel Nfact W C acc, canon W -> canon C -> W <> [] -> C <> [] ->
  exists N Wf, snd (fst (mus_loop p fuel Nfact W C acc)) = acc ++ N /\ canon Wf /\ Wf <> [] /\
    divides (pmulZ (prodl N) Wf) W /\
    divides (snd (mus_loop p fuel Nfact W C acc)) C /\
    (forall h, canon h -> divides h W -> divides h (snd (mus_loop p fuel Nfact W C acc)) -> divides h Wf) /\
    (fst (fst (mus_loop p fuel Nfact W C acc)) = false -> (length C <= fuel)%nat \/ deg W <= 0 -> deg Wf <= 0).
Proof. induction fuel as [|f IH]; intros Nfact W C acc CW CC NW NC.
  - cbn [mus_loop fst snd]. exists [], W. rewrite app_nil_r. split; [reflexivity|]. split; [assumption|]. split; [assumption|].
    split; [exists [1]; evq|]. split; [apply divides_refl|]. split; [intros; assumption|].
    intros _ [H|H]; [destruct C; [congruence|cbn [length] in H; lia]|assumption].
  - cbn [mus_loop]. destruct (Z.gtb_spec (deg W) 0) as [HW|HW].
    2:{ cbn [fst snd]. exists [], W. rewrite app_nil_r. split; [reflexivity|]. split; [assumption|]. split; [assumption|].
        split; [exists [1]; evq|]. split; [apply divides_refl|]. split; [intros; assumption|]. intros _ _; assumption. }
    destruct (Z.geb_spec (Z.of_nat (length acc)) Nfact) as [HN|HN].
    { cbn [fst snd]. exists [], W. rewrite app_nil_r. split; [reflexivity|]. split; [assumption|]. split; [assumption|].
      split; [exists [1]; evq|]. split; [apply divides_refl|]. split; [intros; assumption|]. discriminate. }
    cbv zeta. set (Y := pgcd p W C).
    assert (CY : canon Y) by (apply pgcd_canon; assumption).
    assert (NY : Y <> []) by (apply pgcd_nonnil; left; assumption).
    destruct (pgcd_divides_always p Hp W C CW CC) as [DW DC]. fold Y in DW, DC.
    destruct (div_exact p Hp W Y CW CY NY DW) as [ExW CF]. destruct (div_exact p Hp C Y CC CY NY DC) as [ExC CC'].
    assert (NC' : pdiv p C Y <> []).
    { intros E. rewrite E in ExC. apply NC. apply (canon_eqp_nil p Hp); [assumption|]. apply eqp_sym. eapply eqp_trans; [|exact ExC]. evq. }
    destruct (IH Nfact Y (pdiv p C Y) (acc ++ [pdiv p W Y]) CY CC' NY NC') as [N [Wf [E1 [CWf [NWf [DP [DL [HH E3]]]]]]]].
    assert (DCC : divides (pdiv p C Y) C) by (eapply divides_eqp; [apply divides_factor_r|exact ExC]).
    exists (pdiv p W Y :: N), Wf. rewrite <- app_assoc in E1. cbn [app] in E1.
    split; [exact E1|]. split; [assumption|]. split; [assumption|]. split; [|split; [|split]].
    + eapply divides_eqp; [|exact ExW]. apply (divides_eqp_l p (pmulZ (pmulZ (prodl N) Wf) (pdiv p W Y))); [evq|].
      apply divides_mul_both; [exact DP|apply divides_refl].
    + eapply divides_trans; [exact DL|exact DCC].
    + intros h Ch D1 D2. apply (HH h Ch); [|exact D2]. fold Y.
      apply (pgcd_greatest p Hp W C h CW CC Ch D1). eapply divides_trans; [exact D2|]. eapply divides_trans; [exact DL|exact DCC].
    + intros Hb Hf. apply (E3 Hb). destruct Hf as [Hf|Hf]; [|lia].
      destruct (Z.le_gt_cases (deg Y) 0) as [HY|HY]; [right; assumption|left].
      pose proof (canon_mul_length p Hp Y _ C CY CC' CC NY NC' ExC) as L. unfold deg in HY. lia. Qed.

(* ================= P4: `place` multiplies the plain products ================= *)
Lemma prodl_set_nth acc s h : (s < length acc)%nat ->
  eqp (prodl (set_nth acc s (pmul p (nth s acc []) h))) (pmulZ (prodl acc) h).
Proof. intros Hs. destruct (nth_split acc [] Hs) as [l1 [l2 [E L]]]. set (a := nth s acc []) in *. clearbody a. subst acc s.
  rewrite set_nth_app. apply eqp_trans with (pmulZ (prodl l1) (pmulZ (pmulZ a h) (prodl l2))); [|evq].
  apply eqp_trans with (pmulZ (prodl l1) (pmulZ (pmul p a h) (prodl l2))); [evq|].
  apply eqp_mul; [apply eqp_refl|]. apply eqp_mul; [apply eqp_red; assumption|apply eqp_refl]. Qed.

Lemma place_prodl : forall H j acc, eqp (prodl (place p H j acc)) (pmulZ (prodl acc) (prodl H)).
Proof. induction H as [|h H IH]; intros j acc; cbn [place]; [evq|]. cbv zeta.
  match goal with |- context [place p H (S j) ?a1] => set (acc1 := a1) end.
  assert (E1 : eqp (prodl acc1) (pmulZ (prodl acc) h)).
  { unfold acc1. destruct (Nat.ltb_spec (Z.to_nat p * (j + 1) - 1) (length acc)) as [L|L].
    - exact (prodl_set_nth acc _ h L).
    - apply eqp_ev. intros x. rewrite !ev_prodl_app, ev_prodl_ones, ev_pmulZ, ev_prodl_cons, ev_prodl_nil. ring. }
  eapply eqp_trans; [apply IH|]. eapply eqp_trans; [apply eqp_mul; [exact E1|apply eqp_refl]|]. evq. Qed.

Lemma prodl_divides_gprod : forall L k, divides (prodl L) (gprod L (Z.of_nat k)).
Proof. induction L as [|b L IH]; intros k; [apply divides_refl|]. rewrite gprod_cons.
  change (prodl (b :: L)) with (pmulZ b (prodl L)). apply divides_mul_both; [|apply IH]. cbn [pwr]. apply divides_factor_l. Qed.

(* ================= P5: the product of the parts returned is square-free ================= *)
Theorem sqrfree_rep_nosq : forall fuel Nfact P m Fact, canon P -> P <> [] -> 0 < Nfact -> rep_ok p fuel Nfact P ->
  sqrfree_rep p fuel Nfact P = (m, Fact) -> nosq (prodl Fact).
Proof. induction fuel as [|f IH]; intros Nfact P m Fact CP NP HN OK H; [destruct OK|].
  pose proof (W0_nosq P CP NP) as NS. destruct (sq_A_facts p Hp P CP NP) as [CA [NA _]].
  destruct (sq_C_facts p Hp P CP NP) as [CC0 [NC0 [DC0 _]]]. destruct (div_exact p Hp _ _ CA CC0 NC0 DC0) as [Ex _].
  rewrite (sqrfree_rep_unfold p) in H. destruct (Z.eqb_spec Nfact 0) as [|_]; [lia|].
  destruct (list_eq_dec Z.eq_dec (sq_C p P) pone) as [EC|NC1].
  - inversion H; subst m Fact. apply (nosq_eqp (pdiv p (sq_A p P) (sq_C p P))); [|exact NS].
    apply eqp_trans with (pmulZ (sq_C p P) (pdiv p (sq_A p P) (sq_C p P))).
    + rewrite EC at 2. unfold pone. evq.
    + eapply eqp_trans; [exact Ex|]. evq.
  - cbn [rep_ok] in OK. destruct OK as [OK|[He OK]]; [contradiction|].
    unfold sq_early, sq_left in He, OK. destruct (sq_loop_res p Nfact P) as [[b acc] C'] eqn:EL. cbn [fst snd] in He, OK. subst b.
    unfold sq_loop_res in EL. destruct (entry_facts p Hp P CP NP) as [CW [CC [NW [NC LC]]]].
    destruct (mus_inv2 (length (sq_A p P) + 1) Nfact _ _ [] CW CC NW NC) as [N [Wf [E1 [CWf [NWf [DP [DL [HH E3]]]]]]]].
    rewrite EL in E1, DL, HH, E3. cbn [fst snd app] in E1, DL, HH, E3. subst N.
    assert (DA : divides (prodl acc) (pdiv p (sq_A p P) (sq_C p P))) by (eapply divides_trans; [apply divides_factor_l|exact DP]).
    assert (NSacc : nosq (prodl acc)) by exact (nosq_divides _ _ DA NS).
    destruct (Z.gtb_spec (deg C') 0) as [HC|HC]; [|inversion H; subst; exact NSacc].
    destruct (Z.eqb_spec (Nfact / p) 0) as [Hm0|Hm0]; [inversion H; subst; exact NSacc|].
    destruct OK as [OK|[_ OK]]; [lia|].
    destruct (mus_loop_left_deriv p Hp Nfact P acc C' CP NP EL) as [CC' [NC' DC']].
    pose proof (pdiff_nil_in_Xp p Hp C' CC' DC') as HX. destruct (proot_canon p Hp C' CC' NC' HX) as [CG NG].
    pose proof (proot_pow p Hp C' HX) as EP. set (G := proot p C') in *.
    assert (Hm' : 0 < Nfact / p) by (pose proof p_gt_1 as G1; pose proof (Z.div_pos Nfact p ltac:(lia) ltac:(lia)); lia).
    destruct (sqrfree_rep p f (Nfact / p) G) as [mh Hh] eqn:ER.
    pose proof (IH (Nfact / p) G mh Hh CG NG Hm' OK ER) as NSh.
    destruct (sqrfree_rep_full p Hp f (Nfact / p) G mh Hh CG NG Hm' OK ER) as [Em [u' [_ [_ E2]]]].
    subst mh. rewrite Nat2Z.id, firstn_all in H, E2. inversion H; subst m Fact.
    apply (nosq_eqp (pmulZ (prodl acc) (prodl Hh))); [apply eqp_sym, place_prodl|].
    apply nosq_mul; [exact NSacc|exact NSh|]. intros h Ch Ih Da Db.
    assert (DW : divides h (pdiv p (sq_A p P) (sq_C p P))) by (eapply divides_trans; [exact Da|exact DA]).
    assert (DG : divides h G).
    { eapply divides_trans; [exact Db|]. eapply divides_trans; [apply (prodl_divides_gprod Hh 0)|]. change (Z.of_nat 0) with 0.
      eapply divides_trans; [|apply (sq_A_facts p Hp G CG NG)]. eapply divides_eqp; [apply divides_factor_l|exact E2]. }
    assert (DC : divides h C').
    { eapply divides_trans; [exact DG|]. assert (En : Z.to_nat p = S (Z.to_nat p - 1)) by lia. rewrite En in EP. cbn [pwr] in EP.
      exists (pwr G (Z.to_nat p - 1)). exact EP. }
    pose proof (HH h Ch DW DC) as DWf. specialize (E3 eq_refl (or_introl LC)).
    assert (D0 : deg Wf = 0) by (unfold deg in *; destruct Wf; [congruence|cbn [length] in *; lia]).
    exact (const_no_irr_divisor p Hp Wf h CWf D0 Ch Ih DWf). Qed.

(* ================= P6: (S) and (C), and CZfactor ================= *)
Theorem sqrfree_rep_parts_sqfree fuel Nfact P m Fact : canon P -> P <> [] -> 0 < Nfact -> deg P <= Nfact -> (length P <= fuel)%nat ->
  sqrfree_rep p fuel Nfact P = (m, Fact) ->
  m = Z.of_nat (length Fact) /\ Forall (sqfree_h p) Fact /\ pairwise_cop p Fact.
Proof. intros CP NP H0 HN HF H. pose proof (rep_ok_total p Hp fuel Nfact P CP NP HN HF) as OK.
  destruct (sqrfree_rep_full p Hp fuel Nfact P m Fact CP NP H0 OK H) as [Em _]. split; [assumption|].
  apply nosq_prodl_parts.
  - pose proof (sqrfree_rep_canon p Hp fuel Nfact P) as X. rewrite H in X. exact X.
  - apply Forall_forall. intros g Hg E. subst g. apply NP. apply (nil_divides_nil p Hp P CP).
    exact (sqrfree_rep_full_parts_divide p Hp fuel Nfact P m Fact CP NP H0 OK H [] Hg).
  - exact (sqrfree_rep_nosq fuel Nfact P m Fact CP NP H0 OK H). Qed.

Theorem cz_parts_sqfree_cop P : canon P -> P <> [] -> Forall (sqfree_h p) (cz_parts p P) /\ pairwise_cop p (cz_parts p P).
Proof. intros CP NP. assert (HN : 0 < deg P + 1) by (unfold deg; destruct P; [congruence|cbn [length]; lia]).
  unfold cz_parts. destruct (sqrfree_rep p (length P + 1) (deg P + 1) P) as [nb g] eqn:ES. cbn [fst snd].
  destruct (sqrfree_rep_parts_sqfree (length P + 1)%nat (deg P + 1) P nb g CP NP HN ltac:(lia) ltac:(lia) ES) as [Em R].
  rewrite Em, Nat2Z.id, firstn_all. exact R. Qed.

Theorem czfactor_rep_total P s Lf Le s' : canon P -> P <> [] -> czfactor_rep p P p s = Some (Lf, Le, s') ->
  Forall (fun f => canon f /\ irreducible_def f) Lf /\ pairwise_nonassoc p Lf /\ length Lf = length Le /\
  Forall (fun e => 1 <= e) Le /\ exists U, deg U <= 0 /\ ~ eqp U [] /\ eqp (pmulZ (wprod Lf Le) U) P.
Proof. intros CP NP H. destruct (cz_parts_sqfree_cop P CP NP) as [HS HC].
  destruct (czfactor_rep_correct p Hp P p s Lf Le s' CP NP H) as [_ [L1 [L2 EU]]].
  split; [exact (czfactor_rep_irreducible_squarefree p Hp P s Lf Le s' CP NP H HS)|].
  split; [exact (czfactor_rep_nonassoc p Hp P p s Lf Le s' CP NP H HS HC)|]. auto. Qed.

(* the non-associate half needs no link between MOD and p *)
Theorem czfactor_rep_nonassoc_total P MOD s Lf Le s' : canon P -> P <> [] -> czfactor_rep p P MOD s = Some (Lf, Le, s') ->
  pairwise_nonassoc p Lf.
Proof. intros CP NP H. destruct (cz_parts_sqfree_cop P CP NP) as [HS HC].
  exact (czfactor_rep_nonassoc p Hp P MOD s Lf Le s' CP NP H HS HC). Qed.

End P.

(* ================= closed statements ================= *)
(* P1.  nosq p g = no square of a canonical irreducible divides g.  It is exactly the model's square-free test
   sqfree_h p g = deg (pgcd p g (pdiff p g)) <= 0, for canonical g <> 0 (<- is ProofsRoots.sqfree_no_square) *)
Definition Nosq_sqfree_stmt : Prop := forall p, prime p -> forall g, canon p g -> g <> [] -> (nosq p g <-> sqfree_h p g).
Lemma nosq_sqfree_thm : Nosq_sqfree_stmt.
Proof. intros p Hp g Cg Ng. split; [apply (nosq_sqfree p Hp); assumption|].
  intros S h Ch Ih D. exact (sqfree_no_square p Hp g h Cg Ng S Ch Ih D). Qed.

(* P1.  a list of canonical non-zero polynomials whose plain product has no square irreducible divisor passes both tests
   of the model: every member square-free, any two coprime *)
Definition Nosq_prodl_parts_stmt : Prop := forall p, prime p -> forall L, Forall (canon p) L -> Forall (fun g => g <> []) L ->
  nosq p (prodl L) -> Forall (sqfree_h p) L /\ pairwise_cop p L.
Lemma nosq_prodl_parts_thm : Nosq_prodl_parts_stmt.
Proof. exact nosq_prodl_parts. Qed.

(* P2.  W0 = A / gcd(A, A') is square-free in EVERY characteristic (A = P made monic) *)
Definition W0_squarefree_stmt : Prop := forall p, prime p -> forall P, canon p P -> P <> [] ->
  nosq p (pdiv p (sq_A p P) (sq_C p P)) /\ sqfree_h p (pdiv p (sq_A p P) (sq_C p P)).
Lemma W0_squarefree_thm : W0_squarefree_stmt.
Proof. intros p Hp P CP NP. pose proof (W0_nosq p Hp P CP NP) as H. split; [exact H|].
  destruct (entry_facts p Hp P CP NP) as [CW [_ [NW _]]]. apply (nosq_sqfree p Hp); assumption. Qed.

(* P3.  third invariant of the gcd(W, C) loop, every input, every fuel, every way to end: the parts appended N and a final
   cofactor Wf satisfy  prodl N * Wf | W,  leftover | C,  every common divisor of W and of the leftover divides Wf,
   and Wf is a constant when the loop was not left early and the fuel is at least length C *)
Definition Mus_loop_parts_stmt : Prop := forall p, prime p -> forall fuel Nfact W C acc,
  canon p W -> canon p C -> W <> [] -> C <> [] ->
  exists N Wf, snd (fst (mus_loop p fuel Nfact W C acc)) = acc ++ N /\ canon p Wf /\ Wf <> [] /\
    divides p (pmulZ (prodl N) Wf) W /\
    divides p (snd (mus_loop p fuel Nfact W C acc)) C /\
    (forall h, canon p h -> divides p h W -> divides p h (snd (mus_loop p fuel Nfact W C acc)) -> divides p h Wf) /\
    (fst (fst (mus_loop p fuel Nfact W C acc)) = false -> (length C <= fuel)%nat \/ deg W <= 0 -> deg Wf <= 0).
Lemma mus_loop_parts_thm : Mus_loop_parts_stmt.
Proof. exact mus_inv2. Qed.

(* P4.  what `place` does to the plain product of the list *)
Definition Place_prodl_stmt : Prop := forall p, prime p -> forall H j acc,
  eqp p (prodl (place p H j acc)) (pmulZ (prodl acc) (prodl H)).
Lemma place_prodl_thm : Place_prodl_stmt.
Proof. exact place_prodl. Qed.

(* P5 + P6.  (S) and (C) for the repaired decomposition: every prime p, every canonical P <> 0, Nfact >= deg P, fuel >= length P,
   through the recursion on p-th roots: all the parts stored are delivered (m = length Fact), each is square-free and
   any two are coprime (the tests the kernel sweep ProofsRep.sqrfree_rep_ok runs, here for all inputs) *)
Definition Sqrfree_rep_parts_stmt : Prop := forall p, prime p -> forall fuel Nfact P m Fact,
  canon p P -> P <> [] -> 0 < Nfact -> deg P <= Nfact -> (length P <= fuel)%nat -> sqrfree_rep p fuel Nfact P = (m, Fact) ->
  m = Z.of_nat (length Fact) /\ nosq p (prodl Fact) /\ Forall (sqfree_h p) Fact /\ pairwise_cop p Fact.
Lemma sqrfree_rep_parts_thm : Sqrfree_rep_parts_stmt.
Proof. intros p Hp fuel Nfact P m Fact CP NP H0 HN HF H.
  destruct (sqrfree_rep_parts_sqfree p Hp fuel Nfact P m Fact CP NP H0 HN HF H) as [E [S C]].
  split; [assumption|]. split; [|split; assumption].
  exact (sqrfree_rep_nosq p Hp fuel Nfact P m Fact CP NP H0 (rep_ok_total p Hp fuel Nfact P CP NP HN HF) H). Qed.

(* the two hypotheses of ProofsFactors.czfactor_rep_nonassoc / ProofsRoots.czfactor_rep_irreducible_squarefree *)
Definition Cz_parts_squarefree_coprime_stmt : Prop := forall p, prime p -> forall P, canon p P -> P <> [] ->
  Forall (sqfree_h p) (cz_parts p P) /\ pairwise_cop p (cz_parts p P).
Lemma cz_parts_squarefree_coprime_thm : Cz_parts_squarefree_coprime_stmt.
Proof. exact cz_parts_sqfree_cop. Qed.

(* CZfactor over the repaired decomposition, UNCONDITIONALLY (MOD = p, the characteristic: what the caller passes for a
   prime field; needed only by the irreducibility half, which rests on X^(p^d) - X): every prime p, every canonical
   P <> 0, every stream of random choices on which the run ends: the factors returned are canonical and irreducible,
   pairwise non-associate, the multiplicities are >= 1 and factors^multiplicities = P up to a non-zero constant *)
Definition Czfactor_rep_total_stmt : Prop := forall p, prime p -> forall P s Lf Le s', canon p P -> P <> [] ->
  czfactor_rep p P p s = Some (Lf, Le, s') ->
  Forall (fun f => canon p f /\ irreducible_def p f) Lf /\ pairwise_nonassoc p Lf /\ length Lf = length Le /\
  Forall (fun e => 1 <= e) Le /\ exists U, deg U <= 0 /\ ~ eqp p U [] /\ eqp p (pmulZ (wprod Lf Le) U) P.
Lemma czfactor_rep_total_thm : Czfactor_rep_total_stmt.
Proof. exact czfactor_rep_total. Qed.

(* the non-associate half and the multiply-back hold for EVERY MOD *)
Definition Czfactor_rep_nonassoc_total_stmt : Prop := forall p, prime p -> forall P MOD s Lf Le s', canon p P -> P <> [] ->
  czfactor_rep p P MOD s = Some (Lf, Le, s') -> pairwise_nonassoc p Lf.
Lemma czfactor_rep_nonassoc_total_thm : Czfactor_rep_nonassoc_total_stmt.
Proof. exact czfactor_rep_nonassoc_total. Qed.

(* ================= the hypotheses are satisfiable ================= *)
(* X + 1 over GF(2) is canonical, non-zero and passes the test *)
Example nosq_sqfree_example : prime 2 /\ canon 2 [1; 1] /\ [1; 1] <> [] /\ sqfree_h 2 [1; 1].
Proof. split; [exact prime_2|]. split; [canon_lit|]. split; [discriminate|]. vm_compute. discriminate. Qed.
Example nosq_prodl_parts_example : prime 3 /\ Forall (canon 3) [[1; 2]; [2; 0; 2]; [0; 1; 1]] /\
  Forall (fun g : poly => g <> []) [[1; 2]; [2; 0; 2]; [0; 1; 1]] /\
  Forall (sqfree_h 3) [[1; 2]; [2; 0; 2]; [0; 1; 1]] /\ pairwise_cop 3 [[1; 2]; [2; 0; 2]; [0; 1; 1]].
Proof. split; [exact prime_3|]. split; [repeat (apply Forall_cons; [canon_lit|]); constructor|].
  split; [repeat (apply Forall_cons; [discriminate|]); constructor|].
  split; [apply sqfree_h_of_bool; vm_compute; reflexivity|apply pairwise_cop_of_bool; vm_compute; reflexivity]. Qed.
(* P = X^2 (X+1)^3 over GF(2): A' = X^2 (X+1)^2, C0 = X^2 (X+1)^2, W0 = X + 1 (X itself, of multiplicity 2 = p, is not in W0) *)
Example W0_squarefree_example : prime 2 /\ canon 2 [0; 0; 1; 1; 1; 1] /\ [0; 0; 1; 1; 1; 1] <> [] /\
  sq_C 2 [0; 0; 1; 1; 1; 1] = [0; 0; 1; 0; 1] /\ pdiv 2 (sq_A 2 [0; 0; 1; 1; 1; 1]) (sq_C 2 [0; 0; 1; 1; 1; 1]) = [1; 1].
Proof. split; [exact prime_2|]. split; [canon_lit|]. split; [discriminate|]. split; vm_compute; reflexivity. Qed.
(* the loop on a canonical pair W, C over GF(3) (fuel 12, Nfact 11): three parts appended, leftover of degree 4 *)
Example mus_loop_parts_example : prime 3 /\ canon 3 [0; 1; 0; 0; 1] /\ canon 3 [0; 0; 1; 2; 1; 2; 1] /\
  mus_loop 3 12 11 [0; 1; 0; 0; 1] [0; 0; 1; 2; 1; 2; 1] [] = (false, [[1; 0; 0; 1]; [1]; [0; 1]], [1; 2; 1; 2; 1]).
Proof. split; [exact prime_3|]. split; [canon_lit|]. split; [canon_lit|]. vm_compute. reflexivity. Qed.
Example place_prodl_example : prime 2 /\ place 2 [[0; 1]] 0 [[1]; [1]; [1; 1]] = [[1]; [0; 1]; [1; 1]].
Proof. split; [exact prime_2|]. vm_compute. reflexivity. Qed.
(* P = X^3 (X+1)^3 (X+2) (X^2+1)^2 over GF(3): the loop delivers 2 (X+2) and 2 (X^2+1) and leaves (X^2+X)^3, whose root
   X^2 + X goes through the recursion into slot 2 *)
Example sqrfree_rep_parts_example : prime 3 /\ canon 3 [0; 0; 0; 2; 1; 1; 1; 0; 2; 2; 2; 1] /\ 0 < 11 /\
  deg [0; 0; 0; 2; 1; 1; 1; 0; 2; 2; 2; 1] <= 11 /\ (length [0; 0; 0; 2; 1; 1; 1; 0; 2; 2; 2; 1] <= 12)%nat /\
  sqrfree_rep 3 12 11 [0; 0; 0; 2; 1; 1; 1; 0; 2; 2; 2; 1] = (3, [[1; 2]; [2; 0; 2]; [0; 1; 1]]) /\
  deg (sq_left 3 11 [0; 0; 0; 2; 1; 1; 1; 0; 2; 2; 2; 1]) = 6.
Proof. split; [exact prime_3|]. split; [canon_lit|]. split; [lia|]. split; [cbn; lia|]. split; [cbn; lia|].
  split; vm_compute; reflexivity. Qed.
Example cz_parts_example : prime 2 /\ canon 2 [0; 0; 1; 1; 1; 1] /\ [0; 0; 1; 1; 1; 1] <> [] /\
  cz_parts 2 [0; 0; 1; 1; 1; 1] = [[1]; [0; 1]; [1; 1]].
Proof. split; [exact prime_2|]. split; [canon_lit|]. split; [discriminate|]. vm_compute. reflexivity. Qed.
(* the same P over GF(3), MOD = 3: four irreducible factors X+2, X^2+1, X+1, X (up to constants), multiplicities 1, 2, 3, 3 *)
Example czfactor_rep_total_example : prime 3 /\ canon 3 [0; 0; 0; 2; 1; 1; 1; 0; 2; 2; 2; 1] /\
  [0; 0; 0; 2; 1; 1; 1; 0; 2; 2; 2; 1] <> [] /\
  czfactor_rep 3 [0; 0; 0; 2; 1; 1; 1; 0; 2; 2; 2; 1] 3 [1; 2; 1; 1; 2; 0; 1; 1; 2; 0; 2; 1; 1; 1; 2; 2; 0; 1] =
    Some ([[1; 2]; [2; 0; 2]; [1; 1]; [0; 1]], [1; 2; 3; 3], [1; 1; 2; 0; 1; 1; 2; 0; 2; 1; 1; 1; 2; 2; 0; 1]).
Proof. split; [exact prime_3|]. split; [canon_lit|]. split; [discriminate|]. vm_compute. reflexivity. Qed.
(* MOD different from p (MOD = 9 over GF(3)): the run on X (X + 1) still ends, and the factors are non-associate *)
Example czfactor_rep_nonassoc_total_example : prime 3 /\ canon 3 [0; 1; 1] /\ [0; 1; 1] <> [] /\
  exists r, czfactor_rep 3 [0; 1; 1] 9 [1; 2; 1; 1; 2; 0; 1; 1; 2; 0; 2; 1] = Some r.
Proof. split; [exact prime_3|]. split; [canon_lit|]. split; [discriminate|]. eexists. vm_compute. reflexivity. Qed.
