(* C09 proofs, part 7: Poly1Dom::powmod as modelled (Model.ppowmod / powmod_pos) computes the remainder of the power,
   for every prime p, every base, every modulus of degree >= 1 and every exponent n >= 0.
   Uniqueness of the remainder, congruence modulo a polynomial, the square-and-multiply loop invariant, the main
   theorem and the exponent laws that follow from it.  Everything is proved by induction / through the evaluation
   homomorphism `ev`; nothing is computed. *)
From Coq Require Import ZArith List Bool Lia Znumtheory.
From C09 Require Import Model ProofsAlg ProofsDiv ProofsSplit ProofsCZ ProofsIrr.
Import ListNotations.
Local Open Scope Z_scope.

(* ---- powers under the evaluation map *)
Lemma ev_pwr_add a n m x : ev (pwr a (n + m)) x = ev (pwr a n) x * ev (pwr a m) x.
Proof. rewrite !ev_pwr, Nat2Z.inj_add, Z.pow_add_r by lia. reflexivity. Qed.
Lemma ev_pwr_mul a n m x : ev (pwr (pwr a n) m) x = ev (pwr a (n * m)) x.
Proof. rewrite !ev_pwr, Nat2Z.inj_mul, Z.pow_mul_r by lia. reflexivity. Qed.
Lemma ev_pwr_pone n x : ev (pwr pone n) x = 1.
Proof. rewrite ev_pwr. unfold pone. cbn [ev]. rewrite Z.mul_0_r, Z.add_0_r. apply Z.pow_1_l. lia. Qed.
Lemma ev_pone x : ev pone x = 1.
Proof. unfold pone. cbn [ev]. lia. Qed.
Lemma pow_sq_double a n : 0 <= n -> (a * a) ^ n = a ^ (2 * n).
Proof. intros H. rewrite Z.pow_mul_r, Z.pow_2_r by lia. reflexivity. Qed.

(* the arithmetic behind "congruences multiply" *)
Lemma cong_mul_arith (P U A A' q b k q' b' k' : Z) : A = U * q + b + P * k -> A' = U * q' + b' + P * k' ->
  A * A' = U * (q * A' + b * q') + b * b' + P * (b * k' + k * A').
Proof. intros -> ->. ring. Qed.

Section P.
Variable p : Z.
Hypothesis Hp : prime p.
Notation eqp := (eqp p).
Notation canon := (canon p).

(* ---- A1: the remainder is unique *)
Lemma pmod_unique A B Q R : canon A -> canon B -> B <> [] -> canon R -> (length R < length B)%nat ->
  eqp A (paddZ (pmulZ B Q) R) -> pmod p A B = R.
Proof. intros CA CB HB CR LR H.
  destruct (pdivmod_spec p Hp A B CA CB HB) as [E [CQ0 [CR0 L0]]].
  set (Q0 := pdiv p A B) in *. set (R0 := pmod p A B) in *.
  set (e := red p (paddZ Q (pscaleZ (-1) Q0))).
  assert (He : eqp (pmulZ B e) (paddZ R0 (pscaleZ (-1) R))).
  { eapply eqp_trans; [apply eqp_mul; [apply eqp_refl|apply eqp_red; assumption]|].
    destruct H as [k Hk], E as [k0 Hk0]. exists (paddZ k0 (pscaleZ (-1) k)). intros x.
    specialize (Hk x). specialize (Hk0 x). rewrite ev_paddZ, ev_pmulZ in Hk, Hk0.
    rewrite !ev_pmulZ, !ev_paddZ, !ev_pscaleZ. lia. }
  destruct e as [|e0 e'] eqn:Ee.
  - apply (canon_unique p Hp); auto.
    apply eqp_trans with (paddZ (paddZ R0 (pscaleZ (-1) R)) R).
    + apply eqp_ev. intros x. rewrite !ev_paddZ, ev_pscaleZ. ring.
    + apply eqp_trans with (paddZ (pmulZ B []) R).
      * apply eqp_add; [apply eqp_sym; exact He|apply eqp_refl].
      * apply eqp_ev. intros x. rewrite ev_paddZ, ev_pmulZ. cbn [ev]. ring.
  - exfalso. assert (Ce : canon (e0 :: e')) by (rewrite <- Ee; apply canon_red; assumption).
    pose proof (mul_not_short p Hp B (e0 :: e') _ CB Ce HB ltac:(congruence) He) as M.
    rewrite length_paddZ, length_pscaleZ in M. cbn [length] in M. lia. Qed.

(* ---- A2: congruence modulo the polynomial U (and modulo p) *)
Definition cong (U a b : poly) : Prop := exists q, eqp a (paddZ (pmulZ U q) b).

Lemma cong_ev U a b : cong U a b <-> exists q k, forall x, ev a x = ev U x * ev q x + ev b x + p * ev k x.
Proof. split; intros [q [k H]]; exists q; exists k; intros x; specialize (H x);
  rewrite ?ev_paddZ, ?ev_pmulZ in *; lia. Qed.

Lemma cong_of_eqp U a b : eqp a b -> cong U a b.
Proof. intros [k H]. apply cong_ev. exists [], k. intros x. rewrite H. cbn [ev]. lia. Qed.
Lemma cong_refl U a : cong U a a.
Proof. apply cong_of_eqp, eqp_refl. Qed.
Lemma cong_sym U a b : cong U a b -> cong U b a.
Proof. intros H. apply cong_ev in H. destruct H as [q [k H]]. apply cong_ev.
  exists (pscaleZ (-1) q), (pscaleZ (-1) k). intros x. specialize (H x). rewrite !ev_pscaleZ. lia. Qed.
Lemma cong_trans U a b c : cong U a b -> cong U b c -> cong U a c.
Proof. intros H G. apply cong_ev in H, G. destruct H as [q [k H]], G as [q' [k' G]]. apply cong_ev.
  exists (paddZ q q'), (paddZ k k'). intros x. specialize (H x). specialize (G x). rewrite !ev_paddZ. lia. Qed.
Lemma cong_eqp_l U a a' b : eqp a a' -> cong U a' b -> cong U a b.
Proof. intros H G. eapply cong_trans; [apply cong_of_eqp; exact H|exact G]. Qed.
Lemma cong_eqp_r U a b b' : cong U a b -> eqp b b' -> cong U a b'.
Proof. intros G H. eapply cong_trans; [exact G|apply cong_of_eqp; exact H]. Qed.
Lemma cong_mul U a a' b b' : cong U a b -> cong U a' b' -> cong U (pmulZ a a') (pmulZ b b').
Proof. intros H G. apply cong_ev in H, G. destruct H as [q [k H]], G as [q' [k' G]]. apply cong_ev.
  exists (paddZ (pmulZ q a') (pmulZ b q')), (paddZ (pmulZ b k') (pmulZ k a')). intros x.
  rewrite !ev_paddZ, !ev_pmulZ. apply cong_mul_arith; [apply H|apply G]. Qed.
Lemma cong_pwr U a b n : cong U a b -> cong U (pwr a n) (pwr b n).
Proof. intros H. induction n as [|n IH]; cbn [pwr]; [apply cong_refl|]. apply cong_mul; assumption. Qed.

(* a canonical polynomial is congruent to its remainder *)
Lemma cong_pmod U a : canon a -> canon U -> U <> [] -> cong U a (pmod p a U).
Proof. intros Ca CU HU. exists (pdiv p a U). apply (pdivmod_spec p Hp a U Ca CU HU). Qed.

(* two canonical polynomials shorter than U and congruent modulo U are equal *)
Lemma cong_unique U r r' : canon U -> U <> [] -> canon r -> canon r' ->
  (length r < length U)%nat -> (length r' < length U)%nat -> cong U r r' -> r = r'.
Proof. intros CU HU Cr Cr' L L' [q H].
  rewrite <- (pmod_unique r U q r' Cr CU HU Cr' L' H).
  symmetry. apply (pmod_unique r U [] r Cr CU HU Cr L).
  apply eqp_ev. intros x. rewrite ev_paddZ, ev_pmulZ. cbn [ev]. ring. Qed.

(* W * Y mod U *)
Lemma mulmod_spec U X Y : canon U -> U <> [] ->
  cong U (pmod p (pmul p X Y) U) (pmulZ X Y) /\ canon (pmod p (pmul p X Y) U) /\
  (length (pmod p (pmul p X Y) U) < length U)%nat.
Proof. intros CU HU. assert (C : canon (pmul p X Y)) by (apply canon_red; assumption).
  destruct (pdivmod_spec p Hp _ U C CU HU) as [E [_ [CR L]]]. split; [|split; assumption].
  apply cong_sym. apply cong_eqp_l with (pmul p X Y); [apply eqp_sym, eqp_red; assumption|].
  exists (pdiv p (pmul p X Y) U). exact E. Qed.

(* ---- A3: the invariant of the square-and-multiply loop: the result is W * puiss^e modulo U *)
Lemma powmod_pos_spec U : canon U -> U <> [] -> forall e W puiss,
  cong U (powmod_pos p e W puiss U) (pmulZ W (pwr puiss (Pos.to_nat e))) /\
  canon (powmod_pos p e W puiss U) /\ (length (powmod_pos p e W puiss U) < length U)%nat.
Proof. intros CU HU. induction e as [e IH|e IH|]; intros W puiss; cbn [powmod_pos].
  - destruct (IH (pmod p (pmul p W puiss) U) (pmod p (pmul p puiss puiss) U)) as [H [C L]].
    split; [|split; assumption]. eapply cong_trans; [exact H|].
    destruct (mulmod_spec U W puiss CU HU) as [H1 _]. destruct (mulmod_spec U puiss puiss CU HU) as [H2 _].
    eapply cong_eqp_r; [apply cong_mul; [exact H1|apply cong_pwr; exact H2]|].
    apply eqp_ev. intros x. rewrite !ev_pmulZ, !ev_pwr, ev_pmulZ. rewrite Pos2Nat.inj_xI.
    replace (Z.of_nat (S (2 * Pos.to_nat e))) with (2 * Z.of_nat (Pos.to_nat e) + 1) by lia.
    rewrite Z.pow_add_r, Z.pow_1_r, pow_sq_double by lia. ring.
  - destruct (IH W (pmod p (pmul p puiss puiss) U)) as [H [C L]].
    split; [|split; assumption]. eapply cong_trans; [exact H|].
    destruct (mulmod_spec U puiss puiss CU HU) as [H2 _].
    eapply cong_eqp_r; [apply cong_mul; [apply cong_refl|apply cong_pwr; exact H2]|].
    apply eqp_ev. intros x. rewrite !ev_pmulZ, !ev_pwr, ev_pmulZ. rewrite Pos2Nat.inj_xO.
    replace (Z.of_nat (2 * Pos.to_nat e)) with (2 * Z.of_nat (Pos.to_nat e)) by lia.
    rewrite pow_sq_double by lia. ring.
  - destruct (mulmod_spec U W puiss CU HU) as [H [C L]]. split; [|split; assumption].
    eapply cong_eqp_r; [exact H|]. apply eqp_ev. intros x. rewrite !ev_pmulZ, ev_pwr.
    rewrite Pos2Nat.inj_1. change (Z.of_nat 1) with 1. rewrite Z.pow_1_r. reflexivity. Qed.

Lemma len2_nonnil (U : poly) : (2 <= length U)%nat -> U <> [].
Proof. destruct U; cbn [length]; [lia|congruence]. Qed.

(* ---- A4: powmod returns the canonical remainder of P^n modulo U *)
Theorem ppowmod_spec P U n : canon P -> canon U -> (2 <= length U)%nat -> 0 <= n ->
  cong U (pwr P (Z.to_nat n)) (ppowmod p P n U) /\ canon (ppowmod p P n U) /\
  (length (ppowmod p P n U) < length U)%nat.
Proof. intros CP CU LU Hn. pose proof (len2_nonnil U LU) as HU. destruct n as [|e|e]; [| |lia].
  - cbn [ppowmod]. split; [apply cong_refl|]. split; [apply canon_pone; assumption|]. cbn [pone length]. lia.
  - cbn [ppowmod]. destruct (powmod_pos_spec U CU HU e pone (pmod p P U)) as [H [C L]].
    split; [|split; assumption]. apply cong_sym. eapply cong_trans; [exact H|]. rewrite Z2Nat.inj_pos.
    apply cong_eqp_l with (pwr (pmod p P U) (Pos.to_nat e)).
    + apply eqp_ev. intros x. rewrite ev_pmulZ, ev_pone. ring.
    + apply cong_pwr. apply cong_sym. apply cong_pmod; assumption. Qed.

Corollary ppowmod_is_remainder P U n : canon P -> canon U -> (2 <= length U)%nat -> 0 <= n ->
  ppowmod p P n U = pmod p (red p (pwr P (Z.to_nat n))) U.
Proof. intros CP CU LU Hn. destruct (ppowmod_spec P U n CP CU LU Hn) as [[q H] [C L]]. symmetry.
  apply (pmod_unique _ U q); auto using len2_nonnil. { apply canon_red; assumption. }
  eapply eqp_trans; [apply eqp_red; assumption|exact H]. Qed.

(* characterisation used below: anything canonical, short and congruent to the power IS the value of powmod *)
Lemma ppowmod_char P U n R : canon P -> canon U -> (2 <= length U)%nat -> 0 <= n ->
  canon R -> (length R < length U)%nat -> cong U R (pwr P (Z.to_nat n)) -> ppowmod p P n U = R.
Proof. intros CP CU LU Hn CR LR H. destruct (ppowmod_spec P U n CP CU LU Hn) as [H1 [C L]].
  apply (cong_unique U); auto using len2_nonnil. apply cong_sym. eapply cong_trans; eassumption. Qed.

(* ---- exponent laws *)
Theorem ppowmod_add P U a b : canon P -> canon U -> (2 <= length U)%nat -> 0 <= a -> 0 <= b ->
  ppowmod p P (a + b) U = pmod p (pmul p (ppowmod p P a U) (ppowmod p P b U)) U.
Proof. intros CP CU LU Ha Hb. pose proof (len2_nonnil U LU) as HU.
  destruct (mulmod_spec U (ppowmod p P a U) (ppowmod p P b U) CU HU) as [H [C L]].
  apply ppowmod_char; [assumption|assumption|assumption|lia|assumption|assumption|]. eapply cong_trans; [exact H|].
  destruct (ppowmod_spec P U a CP CU LU Ha) as [H1 _]. destruct (ppowmod_spec P U b CP CU LU Hb) as [H2 _].
  eapply cong_eqp_r; [apply cong_mul; apply cong_sym; [exact H1|exact H2]|].
  apply eqp_ev. intros x. rewrite Z2Nat.inj_add by lia. rewrite ev_pmulZ, ev_pwr_add. reflexivity. Qed.

Theorem ppowmod_mul P U a b : canon P -> canon U -> (2 <= length U)%nat -> 0 <= a -> 0 <= b ->
  ppowmod p P (a * b) U = ppowmod p (ppowmod p P a U) b U.
Proof. intros CP CU LU Ha Hb.
  destruct (ppowmod_spec P U a CP CU LU Ha) as [H1 [C1 L1]].
  destruct (ppowmod_spec (ppowmod p P a U) U b C1 CU LU Hb) as [H2 [C2 L2]].
  apply ppowmod_char; [assumption|assumption|assumption|lia|assumption|assumption|]. apply cong_sym. eapply cong_trans; [|exact H2].
  apply cong_eqp_l with (pwr (pwr P (Z.to_nat a)) (Z.to_nat b)).
  - apply eqp_ev. intros x. rewrite Z2Nat.inj_mul by lia. symmetry. apply ev_pwr_mul.
  - apply cong_pwr. exact H1. Qed.

Lemma ppowmod_pone U k : canon U -> (2 <= length U)%nat -> 0 <= k -> ppowmod p pone k U = pone.
Proof. intros CU LU Hk. assert (C1 : canon pone) by (apply canon_pone; assumption).
  apply ppowmod_char; [assumption|assumption|assumption|assumption|assumption|cbn [pone length]; lia|].
  apply cong_of_eqp. apply eqp_ev. intros x. rewrite ev_pwr_pone, ev_pone. reflexivity. Qed.

Theorem ppowmod_one_pow P U a k : canon P -> canon U -> (2 <= length U)%nat -> 0 <= a -> 0 <= k ->
  ppowmod p P a U = pone -> ppowmod p P (a * k) U = pone.
Proof. intros CP CU LU Ha Hk E. rewrite ppowmod_mul, E by assumption. apply ppowmod_pone; assumption. Qed.

(* multiplying by an exponent whose power is one changes nothing *)
Lemma ppowmod_add_one P U a b : canon P -> canon U -> (2 <= length U)%nat -> 0 <= a -> 0 <= b ->
  ppowmod p P a U = pone -> ppowmod p P (a + b) U = ppowmod p P b U.
Proof. intros CP CU LU Ha Hb E. pose proof (len2_nonnil U LU) as HU.
  destruct (ppowmod_spec P U b CP CU LU Hb) as [H2 [C2 L2]].
  rewrite ppowmod_add, E by assumption.
  apply (pmod_unique _ U []); auto. { apply canon_red; assumption. }
  eapply eqp_trans; [apply eqp_red; assumption|]. apply eqp_ev. intros x.
  rewrite ev_paddZ, !ev_pmulZ, ev_pone. cbn [ev]. ring. Qed.

End P.

(* ---- closed statements *)
(* the remainder of the division is unique *)
Definition Pmod_unique_stmt : Prop := forall p, prime p -> forall A B Q R,
  canon p A -> canon p B -> B <> [] -> canon p R -> (length R < length B)%nat ->
  eqp p A (paddZ (pmulZ B Q) R) -> pmod p A B = R.
Lemma pmod_unique_thm : Pmod_unique_stmt.
Proof. exact pmod_unique. Qed.

(* the loop invariant of powmod: whatever W and puiss, the loop returns (W * puiss^e) mod U *)
Definition Powmod_pos_stmt : Prop := forall p, prime p -> forall U, canon p U -> U <> [] -> forall e W puiss,
  (exists q, eqp p (powmod_pos p e W puiss U) (paddZ (pmulZ U q) (pmulZ W (pwr puiss (Pos.to_nat e))))) /\
  canon p (powmod_pos p e W puiss U) /\ (length (powmod_pos p e W puiss U) < length U)%nat.
Lemma powmod_pos_thm : Powmod_pos_stmt.
Proof. exact powmod_pos_spec. Qed.

(* powmod: P^n = U * q + powmod(P, n, U) modulo p, with powmod(P, n, U) canonical of degree < deg U *)
Definition Ppowmod_stmt : Prop := forall p, prime p -> forall P U n,
  canon p P -> canon p U -> (2 <= length U)%nat -> 0 <= n ->
  (exists q, eqp p (pwr P (Z.to_nat n)) (paddZ (pmulZ U q) (ppowmod p P n U))) /\
  canon p (ppowmod p P n U) /\ (length (ppowmod p P n U) < length U)%nat.
Lemma ppowmod_thm : Ppowmod_stmt.
Proof. exact ppowmod_spec. Qed.

(* ... hence it is the remainder Poly1Dom::mod computes of the (reduced) n-th power *)
Definition Ppowmod_remainder_stmt : Prop := forall p, prime p -> forall P U n,
  canon p P -> canon p U -> (2 <= length U)%nat -> 0 <= n ->
  ppowmod p P n U = pmod p (red p (pwr P (Z.to_nat n))) U.
Lemma ppowmod_remainder_thm : Ppowmod_remainder_stmt.
Proof. exact ppowmod_is_remainder. Qed.

Definition Ppowmod_add_stmt : Prop := forall p, prime p -> forall P U a b,
  canon p P -> canon p U -> (2 <= length U)%nat -> 0 <= a -> 0 <= b ->
  ppowmod p P (a + b) U = pmod p (pmul p (ppowmod p P a U) (ppowmod p P b U)) U.
Lemma ppowmod_add_thm : Ppowmod_add_stmt.
Proof. exact ppowmod_add. Qed.

Definition Ppowmod_mul_stmt : Prop := forall p, prime p -> forall P U a b,
  canon p P -> canon p U -> (2 <= length U)%nat -> 0 <= a -> 0 <= b ->
  ppowmod p P (a * b) U = ppowmod p (ppowmod p P a U) b U.
Lemma ppowmod_mul_thm : Ppowmod_mul_stmt.
Proof. exact ppowmod_mul. Qed.

Definition Ppowmod_one_pow_stmt : Prop := forall p, prime p -> forall P U a k,
  canon p P -> canon p U -> (2 <= length U)%nat -> 0 <= a -> 0 <= k ->
  ppowmod p P a U = pone -> ppowmod p P (a * k) U = pone.
Lemma ppowmod_one_pow_thm : Ppowmod_one_pow_stmt.
Proof. exact ppowmod_one_pow. Qed.

(* the hypotheses are satisfiable: p = 5, P = X + 2, U = X^2 + 1, n = 3 : (X+2)^3 = X + 2 modulo (5, X^2 + 1) *)
Lemma prime_5_pow : prime 5.
Proof. apply prime_intro; [lia|]. intros n Hn.
  assert (n = 1 \/ n = 2 \/ n = 3 \/ n = 4) as [|[|[|]]] by lia; subst; apply Zgcd_1_rel_prime; reflexivity. Qed.
Example ppowmod_example : prime 5 /\ canon 5 [2; 1] /\ canon 5 [1; 0; 1] /\ (2 <= length [1; 0; 1])%nat /\ 0 <= 3 /\
  ppowmod 5 [2; 1] 3 [1; 0; 1] = [2; 1].
Proof. split; [exact prime_5_pow|]. split; [split; [repeat constructor; lia|cbn; lia]|].
  split; [split; [repeat constructor; lia|cbn; lia]|]. split; [cbn; lia|]. split; [lia|]. vm_compute. reflexivity. Qed.
