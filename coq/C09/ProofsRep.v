(* C09 proofs, part 8: the square-free decomposition as REPAIRED by frag/C09.fix-6 (Model2.sqrfree_rep) and CZfactor on top of it.
   1. every part it delivers is canonical, for every input (induction over the recursion on p-th roots);
   2. CZfactor's multiplicity bookkeeping over the repaired decomposition, for every stream (from cz_loop_spec);
   3. complete kernel sweeps INCLUDING characteristic <= degree: the parts multiply back with their multiplicities, are
      square-free and pairwise coprime -- the statement Sqrfree_all that is refuted for the unrepaired code. *)
From Coq Require Import ZArith List Bool Lia Znumtheory.
From C09 Require Import Model Model2 ProofsAlg ProofsDiv ProofsSplit ProofsIrr ProofsCZ ProofsSweepSqr.
Import ListNotations.
Local Open Scope Z_scope.

Section P.
Variable p : Z.
Hypothesis Hp : prime p.
Notation eqp := (eqp p).
Notation canon := (canon p).

Lemma mus_loop_canon : forall fuel Nfact W C acc, canon W -> canon C -> Forall canon acc ->
  Forall canon (snd (fst (mus_loop p fuel Nfact W C acc))) /\ canon (snd (mus_loop p fuel Nfact W C acc)).
Proof. induction fuel as [|f IH]; intros Nfact W C acc CW CC Ca; cbn [mus_loop]; [cbn [fst snd]; auto|].
  destruct (deg W >? 0); [|cbn [fst snd]; auto].
  destruct (Z.of_nat (length acc) >=? Nfact); [cbn [fst snd]; auto|]. cbv zeta.
  apply IH; [apply pgcd_canon; assumption|apply pdiv_canon; assumption|].
  apply Forall_app. split; [assumption|]. constructor; [apply pdiv_canon; assumption|constructor]. Qed.

Lemma set_nth_Forall (Q : poly -> Prop) v : forall l i, Forall Q l -> Q v -> Forall Q (set_nth l i v).
Proof. induction l as [|x l IH]; intros i Hl Hv; cbn [set_nth]; [constructor|].
  inversion Hl; subst. destruct i; constructor; auto. Qed.

Lemma place_canon : forall H j acc, Forall canon H -> Forall canon acc -> Forall canon (place p H j acc).
Proof. induction H as [|h H IH]; intros j acc CH Ca; cbn [place]; [assumption|].
  inversion CH; subst. apply IH; [assumption|]. cbv zeta.
  destruct (Z.to_nat p * (j + 1) - 1 <? length acc)%nat.
  - apply set_nth_Forall; [assumption|]. unfold pmul. apply canon_red; assumption.
  - apply Forall_app. split; [assumption|]. apply Forall_app. split.
    + apply Forall_forall. intros x Hx. apply repeat_spec in Hx. subst. apply canon_pone; assumption.
    + constructor; [assumption|constructor]. Qed.

Lemma sqrfree_rep_canon : forall fuel Nfact P, Forall canon (snd (sqrfree_rep p fuel Nfact P)).
Proof. induction fuel as [|f IH]; intros Nfact P; cbn [sqrfree_rep]; [constructor|].
  destruct (Nfact =? 0); [constructor|]. cbv zeta.
  set (A := pscale p (inv p (lc P)) P). assert (CA : canon A) by (apply canon_red; assumption).
  set (D := pgcd p A (pdiff p A)). set (C := pscale p (inv p (lc D)) D).
  assert (CC : canon C) by (apply canon_red; assumption).
  destruct (list_eq_dec Z.eq_dec C pone); [cbn [snd]; constructor; [assumption|constructor]|].
  pose proof (mus_loop_canon (length A + 1) Nfact (pdiv p A C) C [] ltac:(apply pdiv_canon; assumption) CC ltac:(constructor)) as H.
  destruct (mus_loop p (length A + 1) Nfact (pdiv p A C) C []) as [[b acc] C']. cbn [fst snd] in H. destruct H as [H1 H2].
  destruct b; [cbn [snd]; assumption|].
  destruct (deg C' >? 0); [|cbn [snd]; assumption].
  destruct (Nfact / p =? 0); [cbn [snd]; assumption|].
  pose proof (IH (Nfact / p) (proot p C')) as IH'.
  destruct (sqrfree_rep p f (Nfact / p) (proot p C')) as [mh H]. cbn [snd] in *.
  apply place_canon; [apply Forall_firstn'; assumption|assumption]. Qed.

(* CZfactor over the repaired decomposition: same bookkeeping statement as czfactor_spec *)
Theorem czfactor_rep_spec P MOD s Lf Le s' : czfactor_rep p P MOD s = Some (Lf, Le, s') ->
  let nb := fst (sqrfree_rep p (length P + 1) (deg P + 1) P) in let g := snd (sqrfree_rep p (length P + 1) (deg P + 1) P) in
  exists U, length Lf = length Le /\ Forall canon Lf /\ Forall (fun e => 1 <= e) Le /\ deg U <= 0 /\
    eqp (pmulZ (wprod Lf Le) U) (gprod (firstn (Z.to_nat nb) g) 0).
Proof. unfold czfactor_rep. pose proof (sqrfree_rep_canon (length P + 1) (deg P + 1) P) as Cg.
  destruct (sqrfree_rep p (length P + 1) (deg P + 1) P) as [nb g]. cbn [fst snd] in *. intros H.
  destruct (cz_loop_spec p Hp _ 0 MOD [] [] s Lf Le s' ltac:(lia) (Forall_firstn' _ _ _ Cg) H) as [Nf [Ne [U [E1 [E2 [L [F [G [DU PP]]]]]]]]].
  cbn [app] in E1, E2. subst. exists U. repeat split; auto. eapply Forall_impl; [|exact G]. cbn. intros; lia. Qed.

End P.

(* ---- complete sweeps, every characteristic (p <= degree included) *)
Definition sqrfree_rep_ok (p : Z) (P : poly) : bool :=
  let (nb, g0) := sqrfree_rep p (length P + 1) (deg P + 1) P in
  let g := firstn (Z.to_nat nb) g0 in
  (nb =? Z.of_nat (length g)) &&
  (let R := sqr_prod p 1 g in      (* equal up to a non-zero constant: both sides made monic *)
   if list_eq_dec Z.eq_dec (pscale p (inv p (lc R)) R) (pscale p (inv p (lc P)) P) then true else false) &&
  forallb (fun f => deg (pgcd p f (pdiff p f)) <=? 0) g && pairwise_coprime p g.
Definition sqrfree_rep_sweep (p : Z) (d : nat) : bool := forallb (fun n => forallb (sqrfree_rep_ok p) (canons p n)) (seq 0 (S d)).
Definition sqrfree_rep_bounds : list (Z * nat) := [(2, 8%nat); (3, 6%nat); (5, 5%nat); (7, 3%nat); (11, 2%nat)].
Lemma sqrfree_rep_sweep_all : forallb (fun pd => sqrfree_rep_sweep (fst pd) (snd pd)) sqrfree_rep_bounds = true.
Proof. vm_cast_no_check (eq_refl true). Qed.
Definition Sqrfree_rep_bounded : Prop := forall p d n P, In (p, d) sqrfree_rep_bounds -> (n <= d)%nat -> In P (canons p n) ->
  sqrfree_rep_ok p P = true.
Lemma sqrfree_rep_bounded : Sqrfree_rep_bounded.
Proof. intros p d n P Hb Hn HP. pose proof sqrfree_rep_sweep_all as S. rewrite forallb_forall in S. specialize (S _ Hb). cbn [fst snd] in S.
  unfold sqrfree_rep_sweep in S. rewrite forallb_forall in S. specialize (S n ltac:(apply in_seq; lia)).
  rewrite forallb_forall in S. exact (S P HP). Qed.
(* the input on which the unrepaired code fails (X^2 over GF(2)) is decomposed correctly: [1; X] *)
Example sqrfree_rep_X2 : sqrfree_rep 2 4 3 [0; 0; 1] = (2, [[1]; [0; 1]]).
Proof. vm_compute. reflexivity. Qed.

Definition Czfactor_rep_stmt : Prop := forall p, prime p -> forall P MOD s Lf Le s', czfactor_rep p P MOD s = Some (Lf, Le, s') ->
  let nb := fst (sqrfree_rep p (length P + 1) (deg P + 1) P) in let g := snd (sqrfree_rep p (length P + 1) (deg P + 1) P) in
  exists U, length Lf = length Le /\ Forall (canon p) Lf /\ Forall (fun e => 1 <= e) Le /\ deg U <= 0 /\
    eqp p (pmulZ (wprod Lf Le) U) (gprod (firstn (Z.to_nat nb) g) 0).
Lemma czfactor_rep_thm : Czfactor_rep_stmt.
Proof. exact czfactor_rep_spec. Qed.
