(* C09 proofs, part 9: the REPAIRED square-free decomposition (Model2.sqrfree_rep) and CZfactor on top of it multiply back
   to their input, for EVERY canonical non-zero input, EVERY characteristic, every stream of random choices.
   Everything is proved by induction / loop invariants through the evaluation homomorphism `ev`; nothing is computed
   except in the `Example`s (which only show that the hypotheses are satisfiable).
   Notation of the comments: A = sq_A p P (P made monic), C0 = sq_C p P (monic gcd(A, A')), W0 = A / C0.
   R1  mus_loop_inv, mus_loop_spec(_gen) : invariant of the gcd(W,C) loop:  parts^multiplicities * W^(count+1) * C is kept;
       the fuel length A + 1 suffices; a second invariant  C | W * C'  (Bezout/Gauss) gives: the leftover has derivative 0
   R1' sqrfree_rep_multiplies_back       : one level multiplies back to A up to a constant (leftover constant)
   R2  sqrfree_rep_parts_divide, czfactor_rep_factors_divide(_full) : no part / factor is invented
   R3  frobenius_add (freshman's dream, from Pascal's triangle + derivative of (1+X)^p), fermat, frobenius, proot_pow
   R4  place_gprod, sqrfree_rep_full     : multiply-back through the recursion on p-th roots under rep_ok
   R5  rep_ok_total, sqrfree_rep_correct, czfactor_rep_correct : rep_ok always holds for Nfact >= deg P, fuel >= length P;
       hence the unconditional statements *)
From Coq Require Import ZArith List Bool Lia Znumtheory.
From C09 Require Import Model Model2 ProofsAlg ProofsDiv ProofsSplit ProofsIrr ProofsCZ ProofsRep ProofsSqr.
Import ListNotations.
Local Open Scope Z_scope.
Ltac Zify.zify_post_hook ::= Z.div_mod_to_equations.

(* ================= weighted products ================= *)
(* appending a part: it gets the next multiplicity *)
Lemma ev_gprod_snoc acc : forall k F x,
  ev (gprod (acc ++ [F]) (Z.of_nat k)) x = ev (gprod acc (Z.of_nat k)) x * ev F x ^ Z.of_nat (k + length acc + 1).
Proof. induction acc as [|a acc IH]; intros k F x.
  - cbn [app length]. rewrite gprod_cons. cbn [gprod]. rewrite ev_pmulZ, ev_pwr. cbn [ev].
    replace (k + 0 + 1)%nat with (S k) by lia. ring.
  - cbn [app length]. rewrite !gprod_cons, !ev_pmulZ, IH.
    replace (S k + length acc + 1)%nat with (k + S (length acc) + 1)%nat by lia. ring. Qed.
Lemma ev_gprod_snoc0 acc F x : ev (gprod (acc ++ [F]) 0) x = ev (gprod acc 0) x * ev F x ^ Z.of_nat (length acc + 1).
Proof. exact (ev_gprod_snoc acc 0 F x). Qed.
Lemma ev_gprod_app a : forall b k x,
  ev (gprod (a ++ b) (Z.of_nat k)) x = ev (gprod a (Z.of_nat k)) x * ev (gprod b (Z.of_nat (k + length a))) x.
Proof. induction a as [|c a IH]; intros b k x.
  - cbn [app length gprod ev]. replace (k + 0)%nat with k by lia. ring.
  - cbn [app length]. rewrite !gprod_cons, !ev_pmulZ, IH. replace (S k + length a)%nat with (k + S (length a))%nat by lia. ring. Qed.

Lemma pwr_nonnil (a : poly) n : a <> [] -> pwr a n <> [].
Proof. intros Ha. induction n as [|n IH]; cbn [pwr]; [discriminate|].
  intros E. apply (f_equal (@length Z)) in E. rewrite length_pmulZ in E by assumption.
  destruct a; [congruence|]. destruct (pwr (z :: a) n); [congruence|]. cbn [length] in E. lia. Qed.

(* the quantity the loop preserves: (parts, part i to the power i+1) * W^(count+1) * C *)
Definition wt (acc : list poly) (W C : poly) : poly := pmulZ (pmulZ (gprod acc 0) (pwr W (length acc + 1))) C.

(* the loop of sqrfree_rep on its entry state, and its three results *)
Definition sq_loop_res (p Nfact : Z) (P : poly) : bool * list poly * poly :=
  mus_loop p (length (sq_A p P) + 1) Nfact (pdiv p (sq_A p P) (sq_C p P)) (sq_C p P) [].
Definition sq_early (p Nfact : Z) (P : poly) : bool := fst (fst (sq_loop_res p Nfact P)).   (* left by `count >= Nfact` *)
Definition sq_left (p Nfact : Z) (P : poly) : poly := snd (sq_loop_res p Nfact P).            (* what is left of C *)

Section P.
Variable p : Z.
Hypothesis Hp : prime p.
Let p_gt_1 : 1 < p. Proof. destruct Hp; assumption. Qed.
Notation eqp := (eqp p).
Notation canon := (canon p).
Notation divides := (divides p).

Lemma in_divides_gprod b : forall L k, In b L -> divides b (gprod L (Z.of_nat k)).
Proof. induction L as [|a L IH]; intros k H; [contradiction|]. rewrite gprod_cons. destruct H as [->|H].
  - cbn [pwr]. apply divides_mul_r. apply divides_mul_r. apply divides_refl.
  - apply divides_mul_l. apply IH. exact H. Qed.

(* a canonical divisor of a non-zero canonical polynomial is not longer *)
Lemma divides_length_le D G : canon D -> canon G -> G <> [] -> divides D G -> (length D <= length G)%nat.
Proof. intros CD CG NG HD. destruct D as [|d D']; [cbn [length]; lia|]. set (D := d :: D') in *.
  assert (ND : D <> []) by discriminate.
  destruct (div_exact p Hp G D CG CD ND HD) as [Ex CQ].
  assert (NQ : pdiv p G D <> []).
  { intros E. rewrite E in Ex. apply NG. apply (canon_eqp_nil p Hp); [assumption|]. apply eqp_sym. eapply eqp_trans; [|exact Ex].
    apply eqp_ev. intros x. rewrite ev_pmulZ. cbn [ev]. ring. }
  pose proof (canon_mul_length p Hp D _ G CD CQ CG ND NQ Ex) as L.
  destruct (pdiv p G D); [congruence|cbn [length] in L; lia]. Qed.

(* ================= R1: the invariant of the gcd(W, C) loop ================= *)
(* one round: Y = gcd(W,C), F = W/Y, W' = Y, C' = C/Y *)
Lemma wt_step acc W C Y F C' : eqp (pmulZ Y F) W -> eqp (pmulZ Y C') C -> eqp (wt (acc ++ [F]) Y C') (wt acc W C).
Proof. intros EW EC. unfold wt.
  apply eqp_trans with (pmulZ (pmulZ (gprod acc 0) (pwr (pmulZ Y F) (length acc + 1))) (pmulZ Y C')).
  - apply eqp_ev. intros x. rewrite app_length. cbn [length]. replace (length acc + 1 + 1)%nat with (S (length acc + 1)) by lia.
    cbn [pwr]. rewrite !ev_pmulZ, ev_gprod_snoc0, !ev_pwr, ev_pmulZ, Z.pow_mul_l. ring.
  - apply eqp_mul; [apply eqp_mul; [apply eqp_refl|apply eqp_pwr; assumption]|assumption]. Qed.

(* EVERY way the loop can end (W constant, early exit count >= Nfact, fuel exhausted), every input with W, C <> 0:
   the parts appended N, a final cofactor Wf and the leftover C' returned satisfy
      gprod (acc ++ N) * Wf^(count+1) * C'  =  gprod acc * W^(count_entry+1) * C      (mod p);
   when the loop did not leave by the early exit and the fuel is at least length C, Wf is a constant. *)
(* a second invariant, on derivatives:  C | W * C'.  One round keeps it, because W/Y and C/Y are coprime (Bezout) *)
Lemma deriv_inv_step W C F D : canon W -> canon C -> W <> [] ->
  eqp (pmulZ (pgcd p W C) F) W -> eqp (pmulZ (pgcd p W C) D) C ->
  divides C (pmulZ W (dZ C)) -> divides D (pmulZ (pgcd p W C) (dZ D)).
Proof. intros CW CC NW EW EC [q Hq]. set (Y := pgcd p W C) in *.
  assert (CY : canon Y) by (apply pgcd_canon; assumption).
  assert (NY : Y <> []) by (apply pgcd_nonnil; left; assumption).
  pose proof (canon_not_zero p Hp Y CY NY) as ZY.
  assert (Cop : coprime p D F).
  { destruct (bezout p Hp W C CW CC) as [u [v B]]. fold Y in B. exists v, u. apply (eqp_cancel p Hp Y); [assumption|].
    apply eqp_trans with (paddZ (pmulZ (pmulZ Y F) u) (pmulZ (pmulZ Y D) v)).
    { apply eqp_ev. intros x. repeat (rewrite ?ev_pmulZ, ?ev_paddZ). ring. }
    eapply eqp_trans; [apply eqp_add; (apply eqp_mul; [eassumption|apply eqp_refl])|].
    eapply eqp_trans; [exact B|]. apply eqp_ev. intros x. rewrite ev_pmulZ. cbn [ev]. ring. }
  apply (coprime_gauss p D F); [exact Cop|].
  exists (paddZ q (pscaleZ (-1) (pmulZ F (dZ Y)))). apply (eqp_cancel p Hp Y); [assumption|].
  apply eqp_trans with (paddZ (pmulZ (pmulZ Y D) q) (pscaleZ (-1) (pmulZ (pmulZ (pmulZ Y F) (dZ Y)) D))).
  { apply eqp_ev. intros x. repeat (rewrite ?ev_pmulZ, ?ev_paddZ, ?ev_pscaleZ). ring. }
  apply eqp_trans with (paddZ (pmulZ W (dZ C)) (pscaleZ (-1) (pmulZ (pmulZ W (dZ Y)) D))).
  { apply eqp_add; [eapply eqp_trans; [apply eqp_mul; [exact EC|apply eqp_refl]|exact Hq]|].
    apply eqp_scale. apply eqp_mul; [apply eqp_mul; [exact EW|apply eqp_refl]|apply eqp_refl]. }
  apply eqp_trans with (paddZ (pmulZ W (dZ (pmulZ Y D))) (pscaleZ (-1) (pmulZ (pmulZ W (dZ Y)) D))).
  { apply eqp_add; [|apply eqp_refl]. apply eqp_mul; [apply eqp_refl|]. apply (dZ_eqp p Hp). apply eqp_sym. exact EC. }
  apply eqp_trans with (pmulZ (pmulZ Y F) (pmulZ Y (dZ D))).
  - eapply eqp_trans; [|apply eqp_mul; [apply eqp_sym; exact EW|apply eqp_refl]].
    apply eqp_ev. intros x. repeat (rewrite ?ev_pmulZ, ?ev_paddZ, ?ev_pscaleZ, ?dZ_mul). ring.
  - apply eqp_ev. intros x. repeat (rewrite ?ev_pmulZ). ring. Qed.

Ltac stop_here := split; [reflexivity|]; split; [assumption|]; split; [assumption|]; split; [assumption|];
  split; [apply eqp_refl|]; split; [|split; [|intros J; exact J]].
Lemma mus_loop_inv : forall fuel Nfact W C acc, canon W -> canon C -> W <> [] -> C <> [] ->
  exists N Wf, snd (fst (mus_loop p fuel Nfact W C acc)) = acc ++ N /\ canon Wf /\ Wf <> [] /\
    snd (mus_loop p fuel Nfact W C acc) <> [] /\
    eqp (wt (acc ++ N) Wf (snd (mus_loop p fuel Nfact W C acc))) (wt acc W C) /\
    (fst (fst (mus_loop p fuel Nfact W C acc)) = false -> (length C <= fuel)%nat \/ deg W <= 0 -> deg Wf <= 0) /\
    (fst (fst (mus_loop p fuel Nfact W C acc)) = true -> Nfact <= Z.of_nat (length (acc ++ N)) /\ 0 < deg Wf) /\
    (divides C (pmulZ W (dZ C)) ->
     divides (snd (mus_loop p fuel Nfact W C acc)) (pmulZ Wf (dZ (snd (mus_loop p fuel Nfact W C acc))))).
Proof. induction fuel as [|f IH]; intros Nfact W C acc CW CC NW NC.
  - cbn [mus_loop fst snd]. exists [], W. rewrite app_nil_r. stop_here; [|discriminate].
    intros _ [H|H]; [destruct C; [congruence|cbn [length] in H; lia]|assumption].
  - cbn [mus_loop]. destruct (Z.gtb_spec (deg W) 0) as [HW|HW].
    2:{ cbn [fst snd]. exists [], W. rewrite app_nil_r. stop_here; [intros _ _; assumption|discriminate]. }
    destruct (Z.geb_spec (Z.of_nat (length acc)) Nfact) as [HN|HN].
    { cbn [fst snd]. exists [], W. rewrite app_nil_r. stop_here; [discriminate|intros _; split; lia]. }
    cbv zeta. set (Y := pgcd p W C).
    assert (CY : canon Y) by (apply pgcd_canon; assumption).
    assert (NY : Y <> []) by (apply pgcd_nonnil; left; assumption).
    destruct (pgcd_divides_always p Hp W C CW CC) as [DW DC]. fold Y in DW, DC.
    destruct (div_exact p Hp W Y CW CY NY DW) as [ExW CF]. destruct (div_exact p Hp C Y CC CY NY DC) as [ExC CC'].
    assert (NC' : pdiv p C Y <> []).
    { intros E. rewrite E in ExC. apply NC. apply (canon_eqp_nil p Hp); [assumption|]. apply eqp_sym. eapply eqp_trans; [|exact ExC].
      apply eqp_ev. intros x. rewrite ev_pmulZ. cbn [ev]. ring. }
    destruct (IH Nfact Y (pdiv p C Y) (acc ++ [pdiv p W Y]) CY CC' NY NC') as [N [Wf [E1 [CWf [NWf [NL [E2 [E3 [E4 E6]]]]]]]]].
    exists (pdiv p W Y :: N), Wf. rewrite <- app_assoc in E1, E2, E4. cbn [app] in E1, E2, E4.
    split; [exact E1|]. split; [assumption|]. split; [assumption|]. split; [assumption|]. split.
    { eapply eqp_trans; [exact E2|]. apply wt_step; assumption. }
    split; [|split; [exact E4|]].
    + intros Hb Hf. apply (E3 Hb). destruct Hf as [Hf|Hf]; [|lia].
      destruct (Z.le_gt_cases (deg Y) 0) as [HY|HY]; [right; assumption|left].
      pose proof (canon_mul_length p Hp Y _ C CY CC' CC NY NC' ExC) as L. unfold deg in HY. lia.
    + intros J. apply E6. exact (deriv_inv_step W C _ _ CW CC NW ExW ExC J). Qed.

(* the state on entry of the loop in sqrfree_rep gives back A *)
Lemma wt_entry P : canon P -> P <> [] -> eqp (wt [] (pdiv p (sq_A p P) (sq_C p P)) (sq_C p P)) (sq_A p P).
Proof. intros CP NP. destruct (sq_A_facts p Hp P CP NP) as [CA [NA _]]. destruct (sq_C_facts p Hp P CP NP) as [CC [NC [DC _]]].
  destruct (div_exact p Hp _ _ CA CC NC DC) as [Ex _]. eapply eqp_trans; [|exact Ex].
  apply eqp_ev. intros x. unfold wt. cbn [length gprod]. change (0 + 1)%nat with 1%nat. cbn [pwr]. rewrite !ev_pmulZ. cbn [ev]. ring. Qed.

Lemma entry_facts P : canon P -> P <> [] ->
  canon (pdiv p (sq_A p P) (sq_C p P)) /\ canon (sq_C p P) /\ pdiv p (sq_A p P) (sq_C p P) <> [] /\ sq_C p P <> [] /\
  (length (sq_C p P) <= length (sq_A p P) + 1)%nat.
Proof. intros CP NP. destruct (sq_A_facts p Hp P CP NP) as [CA [NA _]]. destruct (sq_C_facts p Hp P CP NP) as [CC [NC [DC _]]].
  destruct (div_exact p Hp _ _ CA CC NC DC) as [Ex CW]. split; [assumption|]. split; [assumption|]. split; [|split; [assumption|]].
  - intros E. rewrite E in Ex. apply NA. apply (canon_eqp_nil p Hp); [assumption|]. apply eqp_sym. eapply eqp_trans; [|exact Ex].
    apply eqp_ev. intros x. rewrite ev_pmulZ. cbn [ev]. ring.
  - pose proof (divides_length_le _ _ CC CA NA DC). lia. Qed.

(* the derivative invariant holds on entry:  C0 | A' = W0' C0 + W0 C0' *)
Lemma deriv_entry P : canon P -> P <> [] ->
  divides (sq_C p P) (pmulZ (pdiv p (sq_A p P) (sq_C p P)) (dZ (sq_C p P))).
Proof. intros CP NP. destruct (sq_A_facts p Hp P CP NP) as [CA [NA _]]. destruct (sq_C_facts p Hp P CP NP) as [CC [NC [DC [DB _]]]].
  destruct (div_exact p Hp _ _ CA CC NC DC) as [Ex _]. set (A := sq_A p P) in *. set (C := sq_C p P) in *. set (W := pdiv p A C) in *.
  assert (DA : divides C (dZ A)) by (eapply divides_eqp; [exact DB|apply (pdiff_dZ p Hp)]).
  eapply divides_eqp; [apply (divides_lin p C (dZ A) C [1] (pscaleZ (-1) (dZ W)) DA (divides_refl p C))|].
  apply eqp_trans with (paddZ (pmulZ (dZ (pmulZ C W)) [1]) (pmulZ C (pscaleZ (-1) (dZ W)))).
  - apply eqp_add; [|apply eqp_refl]. apply eqp_mul; [|apply eqp_refl]. apply (dZ_eqp p Hp). apply eqp_sym. exact Ex.
  - apply eqp_ev. intros x. repeat (rewrite ?ev_pmulZ, ?ev_paddZ, ?ev_pscaleZ, ?dZ_mul). cbn [ev]. ring. Qed.

Lemma length_diff_aux a : forall i, length (diff_aux i a) = length a.
Proof. induction a as [|c a IH]; intros i; cbn [diff_aux length]; [reflexivity|]. rewrite IH. reflexivity. Qed.
Lemma length_pdiff_lt (a : poly) : a <> [] -> (length (pdiff p a) < length a)%nat.
Proof. intros Ha. destruct a as [|c r]; [congruence|]. unfold pdiff. pose proof (length_red_le p (diff_aux 1 r)) as L.
  rewrite length_diff_aux in L. cbn [length]. lia. Qed.

(* general form, whichever way the loop ends: exists the final cofactor Wf *)
Theorem mus_loop_spec_gen Nfact P b acc C' : canon P -> P <> [] ->
  mus_loop p (length (sq_A p P) + 1) Nfact (pdiv p (sq_A p P) (sq_C p P)) (sq_C p P) [] = (b, acc, C') ->
  exists Wf, canon Wf /\ Wf <> [] /\ C' <> [] /\ (b = false -> deg Wf <= 0) /\ (b = true -> Nfact <= Z.of_nat (length acc) /\ 0 < deg Wf) /\
    eqp (pmulZ (pmulZ (gprod acc 0) (pwr Wf (length acc + 1))) C') (sq_A p P) /\ divides C' (pmulZ Wf (dZ C')).
Proof. intros CP NP H. destruct (entry_facts P CP NP) as [CW [CC [NW [NC LC]]]].
  destruct (mus_loop_inv (length (sq_A p P) + 1) Nfact _ _ [] CW CC NW NC) as [N [Wf [E1 [CWf [NWf [NL [E2 [E3 [E4 E6]]]]]]]]].
  rewrite H in *. cbn [fst snd app] in *. subst N. exists Wf. split; [assumption|]. split; [assumption|]. split; [assumption|].
  split; [intros ->; apply E3; [reflexivity|left; assumption]|]. split; [intros ->; apply E4; reflexivity|].
  split; [eapply eqp_trans; [exact E2|]; apply wt_entry; assumption|]. apply E6. apply deriv_entry; assumption. Qed.

(* consequently, when the loop ends because W became constant, the derivative of the leftover C' vanishes:
   C' | c * C'' with c a non-zero constant and deg C'' < deg C'.  (So C' is a polynomial in X^p: see pdiff_nil_in_Xp.) *)
Theorem mus_loop_left_deriv Nfact P acc C' : canon P -> P <> [] ->
  mus_loop p (length (sq_A p P) + 1) Nfact (pdiv p (sq_A p P) (sq_C p P)) (sq_C p P) [] = (false, acc, C') ->
  canon C' /\ C' <> [] /\ pdiff p C' = [].
Proof. intros CP NP H. destruct (mus_loop_spec_gen Nfact P false acc C' CP NP H) as [Wf [CWf [NWf [NC' [D [_ [_ J]]]]]]].
  specialize (D eq_refl).
  assert (CC' : canon C').
  { destruct (entry_facts P CP NP) as [CW [CC _]].
    pose proof (mus_loop_canon p Hp (length (sq_A p P) + 1) Nfact _ _ [] CW CC ltac:(constructor)) as X. rewrite H in X. apply X. }
  split; [assumption|]. split; [assumption|].
  assert (LW : length Wf = 1%nat) by (unfold deg in D; destruct Wf; [congruence|cbn [length] in *; lia]).
  destruct (canon_len1 p Wf CWf LW) as [c [-> Hc]].
  assert (J2 : divides C' (pdiff p C')).
  { eapply divides_eqp; [apply (divides_mul_r p C' _ [inv p c] J)|].
    eapply eqp_trans; [|apply eqp_sym, (pdiff_dZ p Hp)].
    eapply eqp_trans; [|apply (unit_scale p Hp c (dZ C')); rewrite Z.mod_small; lia].
    apply eqp_ev. intros x. rewrite !ev_pmulZ, ev_pscaleZ. cbn [ev]. ring. }
  destruct (pdiff p C') as [|d0 D0] eqn:ED; [reflexivity|exfalso].
  pose proof (divides_length_le C' (d0 :: D0) CC' ltac:(rewrite <- ED; apply (pdiff_canon p Hp)) ltac:(discriminate) J2) as L.
  pose proof (length_pdiff_lt C' NC') as L2. rewrite ED in L2. lia. Qed.

(* R1: when the loop ended because W became constant (the fuel length A + 1 always suffices), the parts with their
   multiplicities, times the leftover C', times a non-zero constant u, give back A *)
Theorem mus_loop_spec Nfact P acc C' : canon P -> P <> [] ->
  mus_loop p (length (sq_A p P) + 1) Nfact (pdiv p (sq_A p P) (sq_C p P)) (sq_C p P) [] = (false, acc, C') ->
  exists u, deg u <= 0 /\ ~ eqp u [] /\ eqp (pmulZ (pmulZ (gprod acc 0) C') u) (sq_A p P).
Proof. intros CP NP H. destruct (mus_loop_spec_gen Nfact P false acc C' CP NP H) as [Wf [CWf [NWf [NC' [D [_ [E _]]]]]]].
  specialize (D eq_refl). destruct (sq_A_facts p Hp P CP NP) as [CA [NA _]].
  assert (E' : eqp (pmulZ (pmulZ (gprod acc 0) C') (pwr Wf (length acc + 1))) (sq_A p P)).
  { eapply eqp_trans; [|exact E]. apply eqp_ev. intros x. rewrite !ev_pmulZ. ring. }
  exists (pwr Wf (length acc + 1)). split; [|split; [|exact E']].
  - unfold deg in *. pose proof (len1_pwr Wf (length acc + 1) ltac:(lia)). lia.
  - intros Z0. apply NA. apply (canon_eqp_nil p Hp); [assumption|]. eapply eqp_trans; [apply eqp_sym; exact E'|].
    eapply eqp_trans; [apply eqp_mul; [apply eqp_refl|exact Z0]|]. apply eqp_ev. intros x. rewrite ev_pmulZ. cbn [ev]. ring. Qed.


(* ================= R1': sqrfree_rep multiplies back ================= *)
Lemma sqrfree_rep_unfold f Nfact P : sqrfree_rep p (S f) Nfact P =
  if Nfact =? 0 then (0, []) else
  if list_eq_dec Z.eq_dec (sq_C p P) pone then (1, [sq_A p P]) else
  match sq_loop_res p Nfact P with
  | (true, acc, _) => (Nfact, acc)
  | (false, acc, C') =>
    if deg C' >? 0 then
      if Nfact / p =? 0 then (Nfact, acc)
      else let (mh, H) := sqrfree_rep p f (Nfact / p) (proot p C') in
           (Z.of_nat (length (place p (firstn (Z.to_nat mh) H) 0 acc)), place p (firstn (Z.to_nat mh) H) 0 acc)
    else (Z.of_nat (length acc), acc)
  end.
Proof. reflexivity. Qed.

Lemma nonzero_factor X u A : canon A -> A <> [] -> eqp (pmulZ X u) A -> ~ eqp u [].
Proof. intros CA NA E Z0. apply NA. apply (canon_eqp_nil p Hp); [assumption|]. eapply eqp_trans; [apply eqp_sym; exact E|].
  eapply eqp_trans; [apply eqp_mul; [apply eqp_refl|exact Z0]|]. apply eqp_ev. intros x. rewrite ev_pmulZ. cbn [ev]. ring. Qed.

(* When the loop was not left by the early exit and the leftover is a constant (so that the p-th-root branch is not taken),
   or when C0 = 1 (the branch returning (1, [A])): n is the number of parts stored and the parts with their
   multiplicities multiply back to A = P / lc P up to a non-zero constant.  Every characteristic. *)
Theorem sqrfree_rep_multiplies_back f Nfact P n Fact : canon P -> P <> [] -> 0 < Nfact ->
  sqrfree_rep p (S f) Nfact P = (n, Fact) ->
  (sq_C p P <> pone -> sq_early p Nfact P = false /\ deg (sq_left p Nfact P) <= 0) ->
  n = Z.of_nat (length Fact) /\
  exists u, deg u <= 0 /\ ~ eqp u [] /\ eqp (pmulZ (gprod (firstn (Z.to_nat n) Fact) 0) u) (sq_A p P).
Proof. intros CP NP HN H Hyp. rewrite sqrfree_rep_unfold in H. destruct (sq_A_facts p Hp P CP NP) as [CA [NA _]].
  destruct (Z.eqb_spec Nfact 0) as [|_]; [lia|].
  destruct (list_eq_dec Z.eq_dec (sq_C p P) pone) as [EC|NC1].
  - inversion H; subst. split; [reflexivity|].
    assert (E : eqp (pmulZ (gprod (firstn (Z.to_nat 1) [sq_A p P]) 0) [1]) (sq_A p P)).
    { change (Z.to_nat 1) with 1%nat. cbn [firstn gprod]. change (Z.to_nat (0 + 1)) with 1%nat. cbn [pwr].
      apply eqp_ev. intros x. rewrite !ev_pmulZ. cbn [ev]. ring. }
    exists [1]. split; [cbn; lia|]. split; [exact (nonzero_factor _ _ _ CA NA E)|exact E].
  - destruct (Hyp NC1) as [He Hl]. unfold sq_early, sq_left in He, Hl.
    destruct (sq_loop_res p Nfact P) as [[b acc] C'] eqn:EL. cbn [fst snd] in He, Hl. subst b.
    destruct (Z.gtb_spec (deg C') 0) as [|_]; [lia|]. inversion H; subst. split; [reflexivity|].
    unfold sq_loop_res in EL. destruct (mus_loop_spec Nfact P Fact C' CP NP EL) as [u0 [D0 [_ E0]]].
    rewrite Nat2Z.id, firstn_all.
    assert (E : eqp (pmulZ (gprod Fact 0) (pmulZ C' u0)) (sq_A p P)).
    { eapply eqp_trans; [|exact E0]. apply eqp_ev. intros x. rewrite !ev_pmulZ. ring. }
    exists (pmulZ C' u0). split; [|split; [exact (nonzero_factor _ _ _ CA NA E)|exact E]].
    unfold deg in *. pose proof (len1_mul C' u0 ltac:(lia) ltac:(lia)). lia. Qed.

(* ================= R2: no part, hence no factor, is invented ================= *)
(* Every part stored by sqrfree_rep divides P, whichever way the loop ends (early exit included), PROVIDED the p-th-root
   branch is not taken at the top level (the leftover is constant, or Nfact / p = 0).  The parts that come from the
   recursion on the p-th root G of the leftover C' need G^p = C' (Frobenius): see sqrfree_rep_parts_divide_full below. *)
Theorem sqrfree_rep_parts_divide fuel Nfact P : canon P ->
  (sq_C p P <> pone -> sq_early p Nfact P = false -> deg (sq_left p Nfact P) <= 0 \/ Nfact / p = 0) ->
  forall g, In g (snd (sqrfree_rep p fuel Nfact P)) -> divides g P.
Proof. intros CP Hyp g Hg. destruct P as [|c0 P0]; [apply divides_nil|]. set (P := c0 :: P0) in *.
  assert (NP : P <> []) by discriminate. destruct (sq_A_facts p Hp P CP NP) as [CA [NA [DA _]]].
  destruct fuel as [|f]; [contradiction|]. rewrite sqrfree_rep_unfold in Hg.
  destruct (Nfact =? 0); [contradiction|].
  destruct (list_eq_dec Z.eq_dec (sq_C p P) pone) as [EC|NC1].
  { cbn [snd] in Hg. destruct Hg as [<-|[]]. exact DA. }
  specialize (Hyp NC1). unfold sq_early, sq_left in Hyp.
  destruct (sq_loop_res p Nfact P) as [[b acc] C'] eqn:EL. cbn [fst snd] in Hyp. unfold sq_loop_res in EL.
  destruct (mus_loop_spec_gen Nfact P b acc C' CP NP EL) as [Wf [_ [_ [_ [_ [_ [E _]]]]]]].
  assert (X : In g acc).
  { destruct b; [exact Hg|]. destruct (Z.gtb_spec (deg C') 0) as [HC|HC]; [|exact Hg].
    destruct (Hyp eq_refl) as [HH|HH]; [lia|]. rewrite HH in Hg. exact Hg. }
  eapply divides_trans; [|exact DA]. eapply divides_eqp; [|exact E].
  apply divides_mul_r. apply divides_mul_r. exact (in_divides_gprod g acc 0%nat X). Qed.

(* CZfactor over the repaired decomposition returns only divisors of P: every stream, every MOD, every characteristic;
   hypothesis: the p-th-root branch is not taken at the top level *)
Theorem czfactor_rep_factors_divide P MOD s Lf Le s' : canon P ->
  (sq_C p P <> pone -> sq_early p (deg P + 1) P = false -> deg (sq_left p (deg P + 1) P) <= 0 \/ (deg P + 1) / p = 0) ->
  czfactor_rep p P MOD s = Some (Lf, Le, s') -> forall f, In f Lf -> divides f P.
Proof. intros CP Hyp H f Hf. unfold czfactor_rep in H. pose proof (sqrfree_rep_canon p Hp (length P + 1) (deg P + 1) P) as Cg.
  pose proof (sqrfree_rep_parts_divide (length P + 1) (deg P + 1) P CP Hyp) as DV.
  destruct (sqrfree_rep p (length P + 1) (deg P + 1) P) as [nb g]. cbn [snd] in Cg, DV.
  destruct (cz_loop_prod p Hp _ 0 MOD [] [] s Lf Le s' (Forall_firstn' _ _ _ Cg) H) as [Nf [U [E1 [_ [_ G]]]]].
  cbn [app] in E1. subst Nf. rewrite Forall_forall in G. destruct (G f Hf) as [gi [Hi Di]].
  eapply divides_trans; [exact Di|]. apply DV. eapply in_firstn. exact Hi. Qed.

End P.

(* ================= R3: Frobenius ================= *)
(* homogeneous evaluation: hev [c_0; ...; c_n] u v = sum_k c_k u^k v^(n-k) *)
Fixpoint hev (c : list Z) (u v : Z) : Z :=
  match c with [] => 0 | x :: r => x * v ^ Z.of_nat (length r) + u * hev r u v end.
Lemma hev_add a : forall b u v, length a = length b -> hev (paddZ a b) u v = hev a u v + hev b u v.
Proof. induction a as [|x a IH]; intros [|y b] u v H; try discriminate; cbn [paddZ hev]; [lia|].
  injection H as H. rewrite IH by assumption. rewrite length_paddZ, H, Nat.max_id. ring. Qed.
Lemma hev_snoc0 r u v : hev (r ++ [0]) u v = v * hev r u v.
Proof. induction r as [|x r IH]; cbn [app hev length]; [ring|]. rewrite IH, app_length. cbn [length].
  replace (length r + 1)%nat with (S (length r)) by lia. rewrite Nat2Z.inj_succ, Z.pow_succ_r by lia. ring. Qed.
(* row n of Pascal's triangle *)
Fixpoint brow (n : nat) : list Z := match n with O => [1] | S n' => paddZ (brow n' ++ [0]) (0 :: brow n') end.
Lemma brow_length n : length (brow n) = S n.
Proof. induction n as [|n IH]; cbn [brow]; [reflexivity|]. rewrite length_paddZ, app_length. cbn [length]. lia. Qed.
(* the binomial theorem *)
Lemma hev_brow n u v : hev (brow n) u v = (u + v) ^ Z.of_nat n.
Proof. induction n as [|n IH]. { cbn [brow hev length]. change (Z.of_nat 0) with 0. rewrite !Z.pow_0_r. ring. }
  cbn [brow]. rewrite hev_add by (rewrite app_length; cbn [length]; lia). rewrite hev_snoc0. cbn [hev]. rewrite IH.
  rewrite Nat2Z.inj_succ, Z.pow_succ_r by lia. ring. Qed.
Lemma ev_brow n x : ev (brow n) x = (1 + x) ^ Z.of_nat n.
Proof. induction n as [|n IH]. { cbn [brow ev]. change (Z.of_nat 0) with 0. rewrite Z.pow_0_r. ring. }
  cbn [brow]. rewrite ev_paddZ, ev_app. cbn [ev]. rewrite IH, Nat2Z.inj_succ, Z.pow_succ_r by lia. ring. Qed.
Lemma nth0_ev (a : poly) : nth 0 a 0 = ev a 0.
Proof. destruct a; cbn [nth ev]; ring. Qed.
Lemma brow_first n : nth 0 (brow n) 0 = 1.
Proof. rewrite nth0_ev, ev_brow. replace (1 + 0) with 1 by ring. apply Z.pow_1_l. lia. Qed.
Lemma brow_last n : nth n (brow n) 0 = 1.
Proof. induction n as [|n IH]; [reflexivity|]. cbn [brow]. rewrite nth_paddZ. cbn [nth]. rewrite IH.
  rewrite app_nth2 by (rewrite brow_length; lia). rewrite brow_length. replace (S n - S n)%nat with 0%nat by lia. reflexivity. Qed.
(* (k+1) C(m+1, k+1) = (m+1) C(m, k), read off the derivative of (1+X)^(m+1) *)
Lemma brow_deriv m k : (Z.of_nat k + 1) * nth (S k) (brow (S m)) 0 = Z.of_nat (S m) * nth k (brow m) 0.
Proof.
  assert (E1 : forall n i, nth i (brow n) 0 = nth i (pwr [1; 1] n) 0).
  { intros n. apply ev_inj. intros x. rewrite ev_brow, ev_pwr. cbn [ev]. f_equal. ring. }
  rewrite !E1, <- nth_dZ, <- nth_pscaleZ. apply ev_inj. intros x. rewrite ev_dZ_pwr, ev_pscaleZ. cbn [dZ diff_aux ev]. ring. Qed.

(* the same homogeneous form evaluated on polynomials *)
Fixpoint hevP (c : list Z) (a b : poly) : poly :=
  match c with [] => [] | x :: r => paddZ (pscaleZ x (pwr b (length r))) (pmulZ a (hevP r a b)) end.
Lemma ev_hevP c a b x : ev (hevP c a b) x = hev c (ev a x) (ev b x).
Proof. induction c as [|y c IH]; cbn [hevP hev]; [reflexivity|]. rewrite ev_paddZ, ev_pscaleZ, ev_pwr, ev_pmulZ, IH. reflexivity. Qed.
Lemma hev_monomial m u v : hev (repeat 0 m ++ [1]) u v = u ^ Z.of_nat m.
Proof. induction m as [|m IH]. { cbn [repeat app hev length]. change (Z.of_nat 0) with 0. rewrite !Z.pow_0_r. ring. }
  cbn [repeat app hev]. rewrite IH, Nat2Z.inj_succ, Z.pow_succ_r by lia. ring. Qed.

Lemma nth_map_lt (f : nat -> Z) : forall l j d, (j < length l)%nat -> nth j (map f l) 0 = f (nth j l d).
Proof. induction l as [|a l IH]; intros j d H; cbn [length] in H; [lia|]. destruct j; cbn [map nth]; [reflexivity|]. apply IH. lia. Qed.

(* g(X^p) *)
Fixpoint spread (p : Z) (g : poly) : poly :=
  match g with [] => [] | c :: r => paddZ [c] (pshift (Z.to_nat p) (spread p r)) end.
(* C is a polynomial in X^p: every coefficient whose index is not a multiple of p is 0 *)
Definition in_Xp (p : Z) (C : poly) : Prop := forall i, (i mod Z.to_nat p <> 0)%nat -> nth i C 0 = 0.
Definition in_Xp_b (p : Z) (C : poly) : bool :=
  forallb (fun i => (i mod Z.to_nat p =? 0)%nat || (nth i C 0 =? 0)) (seq 0 (length C)).
Lemma in_Xp_b_true p C : in_Xp_b p C = true -> in_Xp p C.
Proof. intros H i Hi. destruct (Nat.lt_ge_cases i (length C)) as [L|L]; [|apply nth_overflow; assumption].
  unfold in_Xp_b in H. rewrite forallb_forall in H. specialize (H i ltac:(apply in_seq; lia)).
  apply orb_true_iff in H. destruct H as [H|H]; [apply Nat.eqb_eq in H; contradiction|apply Z.eqb_eq; assumption]. Qed.

(* the hypothesis of the full multiply-back theorem, level by level along the recursion on p-th roots: the loop is not left
   by the early exit `count >= Nfact`, and the leftover C' is either a constant or Nfact / p <> 0 and its p-th root again
   qualifies (with one unit of fuel less).  rep_ok_total below shows it ALWAYS holds when deg P <= Nfact, length P <= fuel. *)
Fixpoint rep_ok (p : Z) (fuel : nat) (Nfact : Z) (P : poly) : Prop :=
  match fuel with
  | O => False
  | S f => sq_C p P = pone \/
           (sq_early p Nfact P = false /\
            (deg (sq_left p Nfact P) <= 0 \/
             (Nfact / p <> 0 /\ rep_ok p f (Nfact / p) (proot p (sq_left p Nfact P)))))
  end.

Lemma ev_gprod_ones m : forall j x, ev (gprod (repeat pone m) (Z.of_nat j)) x = 1.
Proof. induction m as [|m IH]; intros j x; cbn [repeat]. { cbn [gprod ev]. ring. }
  rewrite gprod_cons, ev_pmulZ, IH, ev_pwr. unfold pone. cbn [ev]. replace (1 + x * 0) with 1 by ring. rewrite Z.pow_1_l by lia. ring. Qed.
Lemma set_nth_app (l1 : list poly) a l2 v : set_nth (l1 ++ a :: l2) (length l1) v = l1 ++ v :: l2.
Proof. induction l1 as [|b l1 IH]; cbn [app length set_nth]; [reflexivity|]. rewrite IH. reflexivity. Qed.

Section Q.
Variable p : Z.
Hypothesis Hp : prime p.
Let p_gt_1 : 1 < p. Proof. destruct Hp; assumption. Qed.
Notation eqp := (eqp p).
Notation canon := (canon p).
Notation divides := (divides p).
Notation n := (Z.to_nat p).

(* two forms of the same length whose coefficients are congruent differ by p times a form *)
Lemma hev_cong : forall c c', length c = length c' -> (forall k, (p | nth k c 0 - nth k c' 0)) ->
  exists d, length d = length c /\ forall u v, hev c u v = hev c' u v + p * hev d u v.
Proof. induction c as [|x c IH]; intros [|y c'] L H; try discriminate.
  - exists []. split; [reflexivity|]. intros; cbn [hev]; ring.
  - injection L as L. destruct (IH c' L ltac:(intros k; exact (H (S k)))) as [d [Ld Hd]].
    destruct (H O) as [q Hq]. cbn [nth] in Hq.
    exists (q :: d). split; [cbn [length]; lia|]. intros u v.
    cbn [hev]. rewrite Hd, Ld, <- L. replace x with (y + q * p) by lia. ring. Qed.

(* p divides the inner binomial coefficients C(p, k), 0 < k < p *)
Lemma brow_p_inner k : (0 < k < n)%nat -> (p | nth k (brow n) 0).
Proof. intros Hk. assert (En : n = S (n - 1)) by lia. destruct k as [|k]; [lia|].
  pose proof (brow_deriv (n - 1) k) as D. rewrite <- En in D.
  assert (Pn : Z.of_nat n = p) by lia. rewrite Pn in D.
  apply Gauss with (Z.of_nat k + 1).
  - exists (nth k (brow (n - 1)) 0). lia.
  - apply rel_prime_sym. apply rel_prime_le_prime; [assumption|lia]. Qed.

(* the freshman's dream over Z:  (u + v)^p = u^p + v^p + p * (a form of degree p in u, v) *)
Lemma dream_form : exists d, forall u v, (u + v) ^ p = u ^ p + v ^ p + p * hev d u v.
Proof. assert (Pn : Z.of_nat n = p) by lia.
  destruct (hev_cong (brow n) (1 :: repeat 0 (n - 1) ++ [1])) as [d [_ Hd]].
  - rewrite brow_length. cbn [length]. rewrite app_length, repeat_length. cbn [length]. lia.
  - intros k. destruct (Nat.eq_dec k 0) as [->|K0]. { rewrite brow_first. cbn [nth]. exists 0. ring. }
    destruct k as [|k]; [congruence|]. cbn [nth].
    destruct (Nat.lt_ge_cases k (n - 1)) as [K1|K1].
    + rewrite app_nth1 by (rewrite repeat_length; lia). rewrite nth_repeat. rewrite Z.sub_0_r. apply brow_p_inner. lia.
    + rewrite app_nth2 by (rewrite repeat_length; lia). rewrite repeat_length.
      destruct (Nat.eq_dec k (n - 1)) as [->|K2].
      * replace (S (n - 1)) with n by lia. rewrite brow_last. replace (n - 1 - (n - 1))%nat with 0%nat by lia. cbn [nth]. exists 0. ring.
      * rewrite nth_overflow by (rewrite brow_length; lia). rewrite (nth_overflow [1]) by (cbn [length]; lia). exists 0. ring.
  - exists d. intros u v. rewrite <- Pn at 1. rewrite <- hev_brow, Hd. cbn [hev]. rewrite hev_monomial, app_length, repeat_length. cbn [length].
    replace (n - 1 + 1)%nat with n by lia. rewrite Pn.
    assert (X : u ^ p = u * u ^ Z.of_nat (n - 1)) by (rewrite <- Z.pow_succ_r by lia; f_equal; lia).
    rewrite X. ring. Qed.

(* the freshman's dream in GF(p)[X]: (a + b)^p = a^p + b^p *)
Theorem frobenius_add a b : eqp (pwr (paddZ a b) n) (paddZ (pwr a n) (pwr b n)).
Proof. assert (Pn : Z.of_nat n = p) by lia. destruct dream_form as [d Hd].
  exists (hevP d a b). intros x. rewrite ev_paddZ, !ev_pwr, ev_paddZ, ev_hevP, Pn. apply Hd. Qed.

(* Fermat: c^p = c (mod p), first for c >= 0 by induction from the dream, then for every c *)
Lemma fermat_nat (c : nat) : (Z.of_nat c) ^ p mod p = Z.of_nat c mod p.
Proof. destruct dream_form as [d Hd]. induction c as [|c IH].
  - change (Z.of_nat 0) with 0. rewrite Z.pow_0_l by lia. reflexivity.
  - rewrite Nat2Z.inj_succ. unfold Z.succ. rewrite Hd, Z.pow_1_l by lia.
    rewrite (Z.mul_comm p), Z.mod_add by lia. rewrite Z.add_mod, IH, <- Z.add_mod by lia. reflexivity. Qed.
Lemma pow_mod_nat c m : c ^ Z.of_nat m mod p = (c mod p) ^ Z.of_nat m mod p.
Proof. induction m as [|m IH]; [reflexivity|].
  rewrite Nat2Z.inj_succ, !Z.pow_succ_r by lia. rewrite Z.mul_mod, IH, Z.mul_mod_idemp_r by lia. reflexivity. Qed.
Lemma fermat c : c ^ p mod p = c mod p.
Proof. pose proof (Z.mod_pos_bound c p ltac:(lia)) as B.
  assert (Pn : Z.of_nat n = p) by lia.
  pose proof (pow_mod_nat c n) as E. rewrite Pn in E.
  rewrite E. rewrite <- (Z2Nat.id (c mod p)) by lia. rewrite fermat_nat. rewrite Z2Nat.id by lia. apply Z.mod_mod. lia. Qed.
Lemma frobenius_const c : eqp (pwr [c] n) [c].
Proof. assert (Pn : Z.of_nat n = p) by lia. pose proof (fermat c) as F.
  exists [(c ^ p - c) / p]. intros x. rewrite ev_pwr, Pn. cbn [ev]. replace (c + x * 0) with c by ring.
  assert ((c ^ p - c) mod p = 0) by (rewrite Zminus_mod, F, Z.sub_diag; apply Z.mod_0_l; lia).
  pose proof (Z.div_mod (c ^ p - c) p ltac:(lia)). lia. Qed.

Lemma ev_spread g x : ev (spread p g) x = ev g (x ^ p).
Proof. assert (Pn : Z.of_nat n = p) by lia.
  induction g as [|c r IH]; cbn [spread ev]; [reflexivity|]. rewrite ev_paddZ, ev_pshift, IH, Pn. cbn [ev]. ring. Qed.

(* Frobenius: g(X)^p = g(X^p) in GF(p)[X], every coefficient list g *)
Theorem frobenius g : eqp (pwr g n) (spread p g).
Proof. assert (En : n = S (n - 1)) by lia. induction g as [|c r IH].
  - rewrite En. cbn [pwr pmulZ spread]. apply eqp_refl.
  - cbn [spread]. apply eqp_trans with (pwr (paddZ [c] (0 :: r)) n).
    { apply eqp_pwr. apply eqp_ev. intros x. rewrite ev_paddZ. cbn [ev]. ring. }
    eapply eqp_trans; [apply frobenius_add|]. apply eqp_add; [apply frobenius_const|].
    apply eqp_trans with (pshift n (pwr r n)); [|apply eqp_shift; exact IH].
    apply eqp_ev. intros x. rewrite ev_pshift, !ev_pwr. cbn [ev]. rewrite <- Z.pow_mul_l. f_equal; ring. Qed.

Lemma nth_spread g : forall i, nth i (spread p g) 0 = if (i mod n =? 0)%nat then nth (i / n) g 0 else 0.
Proof. assert (Hn : (2 <= n)%nat) by lia. induction g as [|c r IH]; intros i.
  - cbn [spread]. destruct (i mod n =? 0)%nat; [|destruct i; reflexivity]. destruct (i / n)%nat; destruct i; reflexivity.
  - cbn [spread]. rewrite nth_paddZ. destruct (Nat.lt_ge_cases i n) as [L|L].
    + unfold pshift. rewrite app_nth1 by (rewrite repeat_length; assumption). rewrite nth_repeat.
      rewrite Nat.mod_small, Nat.div_small by assumption. destruct i as [|i]; [cbn [Nat.eqb nth]; ring|].
      cbn [Nat.eqb nth]. destruct i; ring.
    + replace i with (n + (i - n))%nat at 2 by lia. rewrite nth_pshift, IH.
      rewrite (nth_overflow [c]) by (cbn [length]; lia).
      assert (E1 : (i mod n = (i - n) mod n)%nat).
      { replace i with ((i - n) + 1 * n)%nat at 1 by lia. apply Nat.mod_add. lia. }
      assert (E2 : (i / n = S ((i - n) / n))%nat).
      { replace i with ((i - n) + 1 * n)%nat at 1 by lia. rewrite Nat.div_add by lia. lia. }
      rewrite E1, E2. cbn [nth]. destruct ((i - n) mod n =? 0)%nat; ring. Qed.


Lemma nth_proot C j : nth j (proot p C) 0 = if (j <? Z.to_nat (deg C / p) + 1)%nat then nth (j * n) C 0 else 0.
Proof. unfold proot. fold n. set (len := (Z.to_nat (deg C / p) + 1)%nat). destruct (Nat.ltb_spec j len) as [L|L].
  - rewrite (nth_map_lt _ _ _ 0%nat) by (rewrite seq_length; assumption). rewrite seq_nth by assumption. reflexivity.
  - apply nth_overflow. rewrite map_length, seq_length. assumption. Qed.

Lemma spread_proot C : in_Xp p C -> forall i, nth i (spread p (proot p C)) 0 = nth i C 0.
Proof. intros HC i. assert (Hn : (2 <= n)%nat) by lia. assert (Pn : Z.of_nat n = p) by lia.
  rewrite nth_spread. destruct (Nat.eqb_spec (i mod n) 0) as [E|E]; [|symmetry; apply HC; assumption].
  rewrite nth_proot. pose proof (Nat.div_mod i n ltac:(lia)) as DM. rewrite E, Nat.add_0_r in DM.
  destruct (Nat.ltb_spec (i / n) (Z.to_nat (deg C / p) + 1)) as [L|L]; [f_equal; lia|].
  symmetry. apply nth_overflow. unfold deg in L.
  assert (Z.of_nat (length C) - 1 < p * ((Z.of_nat (length C) - 1) / p + 1)) by (pose proof (Z.div_mod (Z.of_nat (length C) - 1) p ltac:(lia)); pose proof (Z.mod_pos_bound (Z.of_nat (length C) - 1) p ltac:(lia)); lia).
  apply Nat2Z.inj_le. rewrite DM, Nat2Z.inj_mul, Pn.
  destruct (Z.le_gt_cases 0 ((Z.of_nat (length C) - 1) / p)) as [G|G]; nia. Qed.

(* R3: the p-th root taken by Model2.proot is a p-th root:  proot(C)^p = C  when C is a polynomial in X^p *)
Theorem proot_pow C : in_Xp p C -> eqp (pwr (proot p C) n) C.
Proof. intros HC. eapply eqp_trans; [apply frobenius|]. apply (coeff_eqp p Hp). intros i. rewrite spread_proot by assumption. reflexivity. Qed.

(* ---- a canonical polynomial whose derivative vanishes is a polynomial in X^p *)
Lemma pdiff_nil_in_Xp C : canon C -> pdiff p C = [] -> in_Xp p C.
Proof. intros CC HD i Hi. assert (Pn : Z.of_nat n = p) by lia. destruct i as [|i]; [rewrite Nat.mod_0_l in Hi by lia; congruence|].
  pose proof (pdiff_coeff p C i) as E. rewrite HD in E. replace (nth i [] 0) with 0 in E by (destruct i; reflexivity).
  assert (G : 0 <= nth (S i) C 0 < p).
  { destruct (Nat.lt_ge_cases (S i) (length C)); [|rewrite nth_overflow by assumption; lia].
    destruct CC as [F _]. rewrite Forall_forall in F. apply F. apply nth_In. assumption. }
  symmetry in E. apply Z.mod_divide in E; [|lia]. apply Gauss in E.
  - destruct E as [k Hk]. assert (k = 0) by nia. subst k. lia.
  - apply prime_rel_prime; [assumption|]. intros D.
    apply Hi. apply Nat2Z.inj. rewrite Nat2Z.inj_mod, Pn. apply Z.mod_divide in D; [|lia].
    replace (Z.of_nat (S i)) with (Z.of_nat i + 1) by lia. exact D. Qed.
(* the degree of a non-zero canonical polynomial in X^p is a multiple of p *)
Lemma in_Xp_deg C : canon C -> C <> [] -> in_Xp p C -> ((length C - 1) mod n = 0)%nat.
Proof. intros CC NC HX. pose proof (canon_lc p C CC NC) as LC. rewrite lc_nth in LC by assumption.
  destruct (Nat.eq_dec ((length C - 1) mod n) 0) as [E|E]; [assumption|]. rewrite (HX _ E) in LC. lia. Qed.

(* ---- the p-th root of a canonical non-zero polynomial in X^p is canonical and non-zero *)
Lemma proot_canon C : canon C -> C <> [] -> in_Xp p C -> canon (proot p C) /\ proot p C <> [].
Proof. intros CC NC HX. assert (Pn : Z.of_nat n = p) by lia. assert (Hn : (2 <= n)%nat) by lia.
  pose proof (canon_lc p C CC NC) as LC. rewrite lc_nth in LC by assumption.
  pose proof (in_Xp_deg C CC NC HX) as M.
  pose proof (Nat.div_mod (length C - 1) n ltac:(lia)) as DM. rewrite M, Nat.add_0_r in DM.
  set (q := ((length C - 1) / n)%nat) in *.
  assert (K : Z.to_nat (deg C / p) = q).
  { unfold deg. replace (Z.of_nat (length C) - 1) with (Z.of_nat q * p) by (destruct C; [congruence|cbn [length] in *; nia]).
    rewrite Z.div_mul by lia. lia. }
  unfold proot. rewrite K, Nat.add_1_r, seq_S, map_app. cbn [map Nat.add]. split.
  - split.
    + apply Forall_forall. intros x Hx. apply in_app_or in Hx. rewrite in_map_iff in Hx.
      assert (G : forall j, 0 <= nth j C 0 < p).
      { intros j. destruct (Nat.lt_ge_cases j (length C)); [|rewrite nth_overflow by assumption; lia].
        destruct CC as [F _]. rewrite Forall_forall in F. apply F. apply nth_In. assumption. }
      destruct Hx as [[j [<- _]]|[<-|[]]]; apply G.
    + rewrite last_last. replace (q * n)%nat with (length C - 1)%nat by lia. lia.
  - intros E. apply app_eq_nil in E. destruct E; discriminate. Qed.

(* ---- what `place` does to the weighted product *)
Lemma gprod_Forall2 : forall L L', Forall2 eqp L L' -> forall k, eqp (gprod L k) (gprod L' k).
Proof. induction 1 as [|a b L L' Hab _ IH]; intros k; cbn [gprod]; [apply eqp_refl|].
  apply eqp_mul; [apply eqp_pwr; assumption|apply IH]. Qed.
Lemma Forall2_eqp_refl L : Forall2 eqp L L.
Proof. induction L; constructor; auto using eqp_refl. Qed.

(* slot < count:  Fact[slot] *= h  multiplies the weighted product by h^(slot+1) *)
Lemma gprod_set_nth acc s h k : (s < length acc)%nat ->
  eqp (gprod (set_nth acc s (pmul p (nth s acc []) h)) (Z.of_nat k)) (pmulZ (gprod acc (Z.of_nat k)) (pwr h (k + s + 1))).
Proof. intros Hs. destruct (nth_split acc [] Hs) as [l1 [l2 [E L]]]. set (a := nth s acc []) in *. clearbody a. subst acc s.
  rewrite set_nth_app.
  apply eqp_trans with (gprod (l1 ++ pmulZ a h :: l2) (Z.of_nat k)).
  - apply gprod_Forall2. apply Forall2_app; [apply Forall2_eqp_refl|]. constructor; [|apply Forall2_eqp_refl].
    apply eqp_red; assumption.
  - apply eqp_ev. intros x. rewrite ev_pmulZ, !ev_gprod_app, !gprod_cons, !ev_pmulZ, !ev_pwr, ev_pmulZ, Z.pow_mul_l.
    replace (S (k + length l1)) with (k + length l1 + 1)%nat by lia. ring. Qed.
(* slot >= count:  pad with ones up to slot and store h there *)
Lemma ev_gprod_pad acc m h k x :
  ev (gprod (acc ++ repeat pone m ++ [h]) (Z.of_nat k)) x = ev (gprod acc (Z.of_nat k)) x * ev h x ^ Z.of_nat (k + length acc + m + 1).
Proof. rewrite ev_gprod_app, ev_gprod_snoc, ev_gprod_ones, repeat_length. ring. Qed.

Lemma place_gprod : forall H j acc,
  eqp (gprod (place p H j acc) (Z.of_nat 0)) (pmulZ (gprod acc (Z.of_nat 0)) (pwr (gprod H (Z.of_nat j)) n)).
Proof. assert (Hn : (2 <= n)%nat) by lia. induction H as [|h H IH]; intros j acc; cbn [place].
  - apply eqp_ev. intros x. rewrite ev_pmulZ, ev_pwr. cbn [gprod ev]. replace (1 + x * 0) with 1 by ring. rewrite Z.pow_1_l by lia. ring.
  - cbv zeta. set (slot := (n * (j + 1) - 1)%nat). assert (Es : (slot + 1 = (j + 1) * n)%nat) by (unfold slot; nia).
    match goal with |- context [place p H (S j) ?a1] => set (acc1 := a1) end.
    assert (E1 : eqp (gprod acc1 (Z.of_nat 0)) (pmulZ (gprod acc (Z.of_nat 0)) (pwr h ((j + 1) * n)))).
    { unfold acc1. destruct (Nat.ltb_spec slot (length acc)) as [L|L].
      - rewrite <- Es. exact (gprod_set_nth acc slot h 0 L).
      - apply eqp_ev. intros x. rewrite ev_gprod_pad, ev_pmulZ, ev_pwr. do 2 f_equal. lia. }
    eapply eqp_trans; [apply IH|]. eapply eqp_trans; [apply eqp_mul; [exact E1|apply eqp_refl]|].
    apply eqp_ev. intros x. rewrite gprod_cons. rewrite !ev_pmulZ, !ev_pwr, !ev_pmulZ, ev_pwr, Z.pow_mul_l.
    rewrite Nat2Z.inj_mul, Z.pow_mul_r by lia. replace (S j) with (j + 1)%nat by lia. ring. Qed.

(* making monic and back: lc(G) * (G / lc G) = G *)
Lemma sq_A_scale G : canon G -> G <> [] -> eqp (pmulZ [lc G] (sq_A p G)) G.
Proof. intros CG NG. pose proof (canon_lc p G CG NG) as L.
  eapply eqp_trans; [apply eqp_mul; [apply eqp_refl|apply eqp_red; assumption]|].
  eapply eqp_trans; [|apply (unit_scale p Hp (lc G) G); rewrite Z.mod_small; lia].
  apply eqp_ev. intros x. rewrite ev_pmulZ, !ev_pscaleZ. cbn [ev]. ring. Qed.

(* ================= R4: the decomposition multiplies back through the recursion on p-th roots ================= *)
Theorem sqrfree_rep_full : forall fuel Nfact P m Fact, canon P -> P <> [] -> 0 < Nfact -> rep_ok p fuel Nfact P ->
  sqrfree_rep p fuel Nfact P = (m, Fact) ->
  m = Z.of_nat (length Fact) /\
  exists u, deg u <= 0 /\ ~ eqp u [] /\ eqp (pmulZ (gprod (firstn (Z.to_nat m) Fact) 0) u) (sq_A p P).
Proof. induction fuel as [|f IH]; intros Nfact P m Fact CP NP HN OK H; [destruct OK|].
  cbn [rep_ok] in OK.
  assert (Simple : (sq_C p P <> pone -> sq_early p Nfact P = false /\ deg (sq_left p Nfact P) <= 0) ->
    m = Z.of_nat (length Fact) /\ exists u, deg u <= 0 /\ ~ eqp u [] /\ eqp (pmulZ (gprod (firstn (Z.to_nat m) Fact) 0) u) (sq_A p P))
    by (apply (sqrfree_rep_multiplies_back p Hp f Nfact P m Fact CP NP HN H)).
  destruct OK as [OK|[He [OK|[Hm OK]]]]; [apply Simple; intros; contradiction|apply Simple; auto|].
  destruct (Z.le_gt_cases (deg (sq_left p Nfact P)) 0) as [Hd|Hd]; [apply Simple; auto|].
  destruct (list_eq_dec Z.eq_dec (sq_C p P) pone) as [EC|NC1]; [apply Simple; intros; contradiction|]. clear Simple.
  rewrite (sqrfree_rep_unfold p) in H. destruct (Z.eqb_spec Nfact 0) as [|_]; [lia|].
  destruct (list_eq_dec Z.eq_dec (sq_C p P) pone) as [|_]; [contradiction|].
  destruct (sq_A_facts p Hp P CP NP) as [CA [NA _]].
  unfold sq_early, sq_left in He, Hd, OK.
  destruct (sq_loop_res p Nfact P) as [[b acc] C'] eqn:EL. cbn [fst snd] in He, Hd, OK. subst b.
  unfold sq_loop_res in EL.
  destruct (mus_loop_left_deriv p Hp Nfact P acc C' CP NP EL) as [CC' [NC' DC']].
  pose proof (pdiff_nil_in_Xp C' CC' DC') as HX.
  destruct (mus_loop_spec p Hp Nfact P acc C' CP NP EL) as [u0 [D0 [_ E5]]].
  destruct (Z.gtb_spec (deg C') 0) as [_|]; [|lia]. destruct (Z.eqb_spec (Nfact / p) 0) as [|_]; [contradiction|].
  destruct (proot_canon C' CC' NC' HX) as [CG NG]. set (G := proot p C') in *.
  assert (Hm' : 0 < Nfact / p) by (pose proof (Z.div_pos Nfact p ltac:(lia) ltac:(lia)); lia).
  destruct (sqrfree_rep p f (Nfact / p) G) as [mh Hh] eqn:ER.
  destruct (IH (Nfact / p) G mh Hh CG NG Hm' OK ER) as [_ [u' [D' [_ E2]]]].
  set (H' := firstn (Z.to_nat mh) Hh) in *. inversion H; subst m Fact. split; [reflexivity|].
  rewrite Nat2Z.id, firstn_all.
  pose proof (place_gprod H' 0 acc) as E1. change (Z.of_nat 0) with 0 in E1.
  set (u := pmulZ (pmulZ (pwr u' n) (pwr [lc G] n)) u0).
  assert (E : eqp (pmulZ (gprod (place p H' 0 acc) 0) u) (sq_A p P)).
  { apply eqp_trans with (pmulZ (pmulZ (gprod acc 0) (pwr (pmulZ [lc G] (pmulZ (gprod H' 0) u')) n)) u0).
    - eapply eqp_trans; [apply eqp_mul; [exact E1|apply eqp_refl]|].
      apply eqp_ev. intros x. unfold u. rewrite !ev_pmulZ, !ev_pwr, !ev_pmulZ, !Z.pow_mul_l. ring.
    - eapply eqp_trans; [|exact E5]. apply eqp_mul; [|apply eqp_refl]. apply eqp_mul; [apply eqp_refl|].
      eapply eqp_trans; [|apply proot_pow; exact HX]. apply eqp_pwr.
      eapply eqp_trans; [apply eqp_mul; [apply eqp_refl|exact E2]|]. apply sq_A_scale; assumption. }
  exists u. split; [|split; [exact (nonzero_factor p Hp _ _ _ CA NA E)|exact E]].
  unfold deg in *. unfold u.
  pose proof (len1_mul _ u0 (len1_mul _ _ (len1_pwr u' n ltac:(lia)) (len1_pwr [lc G] n ltac:(cbn [length]; lia))) ltac:(lia)). lia. Qed.

(* under the same hypothesis every part stored divides P: through the p-th-root branch too *)
Theorem sqrfree_rep_full_parts_divide fuel Nfact P m Fact : canon P -> P <> [] -> 0 < Nfact -> rep_ok p fuel Nfact P ->
  sqrfree_rep p fuel Nfact P = (m, Fact) -> forall g, In g Fact -> divides g P.
Proof. intros CP NP HN OK H g Hg. destruct (sqrfree_rep_full fuel Nfact P m Fact CP NP HN OK H) as [Em [u [_ [_ E]]]].
  rewrite Em, Nat2Z.id, firstn_all in E. destruct (sq_A_facts p Hp P CP NP) as [_ [_ [DA _]]].
  eapply divides_trans; [|exact DA]. eapply divides_eqp; [|exact E]. apply divides_mul_r.
  exact (in_divides_gprod p g Fact 0%nat Hg). Qed.

(* R2 in full: CZfactor over the repaired decomposition invents no factor, through the p-th-root recursion too *)
Theorem czfactor_rep_factors_divide_full P MOD s Lf Le s' : canon P -> rep_ok p (length P + 1) (deg P + 1) P ->
  czfactor_rep p P MOD s = Some (Lf, Le, s') -> forall f, In f Lf -> divides f P.
Proof. intros CP OK H f Hf. destruct P as [|c0 P0]; [apply divides_nil|]. set (P := c0 :: P0) in *.
  assert (NP : P <> []) by discriminate. assert (HN : 0 < deg P + 1) by (unfold deg, P; cbn [length]; lia).
  unfold czfactor_rep in H. pose proof (sqrfree_rep_canon p Hp (length P + 1) (deg P + 1) P) as Cg.
  destruct (sqrfree_rep p (length P + 1) (deg P + 1) P) as [nb g] eqn:ES. cbn [snd] in Cg.
  pose proof (sqrfree_rep_full_parts_divide _ _ P nb g CP NP HN OK ES) as DV.
  destruct (cz_loop_prod p Hp _ 0 MOD [] [] s Lf Le s' (Forall_firstn' _ _ _ Cg) H) as [Nf [U [E1 [_ [_ G]]]]].
  cbn [app] in E1. subst Nf. rewrite Forall_forall in G. destruct (G f Hf) as [gi [Hi Di]].
  eapply divides_trans; [exact Di|]. apply DV. eapply in_firstn. exact Hi. Qed.


(* ================= the hypothesis rep_ok always holds: no early exit, enough fuel, Nfact / p <> 0 ================= *)
Lemma pwr_red_length W m : canon W -> W <> [] ->
  length (red p (pwr W m)) = (m * (length W - 1) + 1)%nat.
Proof. intros CW NW. induction m as [|m IH].
  - cbn [pwr]. change [1] with pone. rewrite (canon_red_id p pone (canon_pone p Hp)). reflexivity.
  - assert (NR : red p (pwr W m) <> []) by (intros E; rewrite E in IH; cbn [length] in IH; nia).
    assert (E : eqp (pmulZ W (red p (pwr W m))) (red p (pwr W (S m)))).
    { cbn [pwr]. eapply eqp_trans; [apply eqp_mul; [apply eqp_refl|apply eqp_red; assumption]|]. apply eqp_sym, eqp_red; assumption. }
    rewrite (canon_mul_length p Hp W _ _ CW (canon_red p Hp _) (canon_red p Hp _) NW NR E), IH.
    destruct W; [congruence|cbn [length]; lia]. Qed.
(* W^m | A  bounds  m * deg W  by deg A *)
Lemma pwr_divides_len W m A : canon W -> W <> [] -> canon A -> A <> [] -> divides (pwr W m) A ->
  (m * (length W - 1) + 1 <= length A)%nat.
Proof. intros CW NW CA NA D. rewrite <- (pwr_red_length W m CW NW).
  apply (divides_length_le p Hp); auto using canon_red.
  apply (divides_eqp_l p (pwr W m)); [apply eqp_sym, eqp_red; assumption|assumption]. Qed.
Lemma sq_A_length P : canon P -> P <> [] -> length (sq_A p P) = length P.
Proof. intros CP NP. destruct (sq_A_facts p Hp P CP NP) as [CA [NA [D1 D2]]].
  pose proof (divides_length_le p Hp _ _ CA CP NP D1). pose proof (divides_length_le p Hp _ _ CP CA NA D2). lia. Qed.

Theorem rep_ok_total : forall fuel Nfact P, canon P -> P <> [] -> deg P <= Nfact -> (length P <= fuel)%nat ->
  rep_ok p fuel Nfact P.
Proof. assert (Pn : Z.of_nat n = p) by lia. induction fuel as [|f IH]; intros Nfact P CP NP HN HF.
  { destruct P; [congruence|cbn [length] in HF; lia]. }
  cbn [rep_ok]. destruct (list_eq_dec Z.eq_dec (sq_C p P) pone) as [EC|NC1]; [left; assumption|right].
  destruct (sq_A_facts p Hp P CP NP) as [CA [NA _]]. pose proof (sq_A_length P CP NP) as LA.
  unfold sq_early, sq_left. destruct (sq_loop_res p Nfact P) as [[b acc] C'] eqn:EL. cbn [fst snd]. unfold sq_loop_res in EL.
  destruct (mus_loop_spec_gen p Hp Nfact P b acc C' CP NP EL) as [Wf [CWf [NWf [NC' [_ [Eb [E _]]]]]]].
  assert (Hb : b = false).
  { destruct b; [exfalso|reflexivity]. destruct (Eb eq_refl) as [B1 B2].
    assert (D : divides (pwr Wf (length acc + 1)) (sq_A p P)).
    { eapply divides_eqp; [|exact E]. apply divides_mul_r. apply divides_mul_l. apply divides_refl. }
    pose proof (pwr_divides_len Wf _ _ CWf NWf CA NA D) as L. unfold deg in *. nia. }
  subst b. split; [reflexivity|].
  destruct (Z.le_gt_cases (deg C') 0) as [Hd|Hd]; [left; assumption|right].
  destruct (mus_loop_left_deriv p Hp Nfact P acc C' CP NP EL) as [CC' [_ DC']].
  pose proof (pdiff_nil_in_Xp C' CC' DC') as HX.
  assert (LC : (length C' <= length P)%nat).
  { rewrite <- LA. apply (divides_length_le p Hp); auto. eapply divides_eqp; [|exact E]. apply divides_factor_r. }
  pose proof (in_Xp_deg C' CC' NC' HX) as M.
  pose proof (Nat.div_mod (length C' - 1) n ltac:(lia)) as DM. rewrite M, Nat.add_0_r in DM.
  set (q := ((length C' - 1) / n)%nat) in *.
  assert (Q1 : (1 <= q)%nat) by (unfold deg in Hd; destruct q; lia).
  assert (K : deg C' / p = Z.of_nat q).
  { unfold deg. replace (Z.of_nat (length C') - 1) with (Z.of_nat q * p) by nia. apply Z.div_mul. lia. }
  assert (HNp : Z.of_nat q <= Nfact / p).
  { rewrite <- K. apply Z.div_le_mono; [lia|]. unfold deg in *. lia. }
  destruct (proot_canon C' CC' NC' HX) as [CG NG].
  assert (LG : length (proot p C') = (q + 1)%nat) by (unfold proot; rewrite map_length, seq_length, K; lia).
  split; [lia|]. apply IH; auto.
  - unfold deg. rewrite LG. lia.
  - rewrite LG. assert (2 <= n)%nat by lia. nia. Qed.

(* ================= unconditional results ================= *)
(* the repaired square-free decomposition multiplies back to the input, EVERY canonical non-zero P, EVERY characteristic *)
Theorem sqrfree_rep_correct fuel Nfact P m Fact : canon P -> P <> [] -> 0 < Nfact -> deg P <= Nfact -> (length P <= fuel)%nat ->
  sqrfree_rep p fuel Nfact P = (m, Fact) ->
  m = Z.of_nat (length Fact) /\
  exists u, deg u <= 0 /\ ~ eqp u [] /\ eqp (pmulZ (gprod (firstn (Z.to_nat m) Fact) 0) u) (sq_A p P).
Proof. intros CP NP H0 HN HF H. exact (sqrfree_rep_full fuel Nfact P m Fact CP NP H0 (rep_ok_total fuel Nfact P CP NP HN HF) H). Qed.

(* CZfactor over it: every factor returned divides P, and the factors with the multiplicities returned multiply back to P
   up to a non-zero constant -- every stream, every MOD, every characteristic *)
Theorem czfactor_rep_correct P MOD s Lf Le s' : canon P -> P <> [] -> czfactor_rep p P MOD s = Some (Lf, Le, s') ->
  (forall f, In f Lf -> divides f P) /\ length Lf = length Le /\ Forall (fun e => 1 <= e) Le /\
  exists U, deg U <= 0 /\ ~ eqp U [] /\ eqp (pmulZ (wprod Lf Le) U) P.
Proof. intros CP NP H.
  assert (HN : 0 < deg P + 1) by (unfold deg; destruct P; [congruence|cbn [length]; lia]).
  pose proof (rep_ok_total (length P + 1) (deg P + 1) P CP NP ltac:(lia) ltac:(lia)) as OK.
  split; [exact (czfactor_rep_factors_divide_full P MOD s Lf Le s' CP OK H)|].
  destruct (czfactor_rep_spec p Hp P MOD s Lf Le s' H) as [U1 [L1 [_ [L2 [D1 E1]]]]].
  split; [assumption|]. split; [assumption|].
  destruct (sqrfree_rep p (length P + 1) (deg P + 1) P) as [nb g] eqn:ES. cbn [fst snd] in E1.
  destruct (sqrfree_rep_full _ _ P nb g CP NP HN OK ES) as [_ [u [D2 [_ E2]]]].
  set (U := pmulZ (pmulZ U1 u) [lc P]).
  assert (E : eqp (pmulZ (wprod Lf Le) U) P).
  { eapply eqp_trans; [|apply (sq_A_scale P CP NP)].
    apply eqp_trans with (pmulZ [lc P] (pmulZ (pmulZ (wprod Lf Le) U1) u)).
    - apply eqp_ev. intros x. unfold U. rewrite !ev_pmulZ. ring.
    - apply eqp_mul; [apply eqp_refl|]. eapply eqp_trans; [apply eqp_mul; [exact E1|apply eqp_refl]|exact E2]. }
  exists U. split; [|split; [exact (nonzero_factor p Hp _ _ _ CP NP E)|exact E]].
  unfold deg in *. unfold U. pose proof (len1_mul _ [lc P] (len1_mul U1 u ltac:(lia) ltac:(lia)) ltac:(cbn [length]; lia)). lia. Qed.

End Q.

(* ================= closed statements ================= *)
(* R1 (general form): the invariant of the gcd(W, C) loop, every input, every fuel, every way to end.  wt acc W C =
   gprod acc 0 * W^(length acc + 1) * C.  Last clause: the derivative invariant  C | W * C'  is kept as well. *)
Definition Mus_loop_inv_stmt : Prop := forall p, prime p -> forall fuel Nfact W C acc,
  canon p W -> canon p C -> W <> [] -> C <> [] ->
  exists N Wf, snd (fst (mus_loop p fuel Nfact W C acc)) = acc ++ N /\ canon p Wf /\ Wf <> [] /\
    snd (mus_loop p fuel Nfact W C acc) <> [] /\
    eqp p (wt (acc ++ N) Wf (snd (mus_loop p fuel Nfact W C acc))) (wt acc W C) /\
    (fst (fst (mus_loop p fuel Nfact W C acc)) = false -> (length C <= fuel)%nat \/ deg W <= 0 -> deg Wf <= 0) /\
    (fst (fst (mus_loop p fuel Nfact W C acc)) = true -> Nfact <= Z.of_nat (length (acc ++ N)) /\ 0 < deg Wf) /\
    (divides p C (pmulZ W (dZ C)) ->
     divides p (snd (mus_loop p fuel Nfact W C acc)) (pmulZ Wf (dZ (snd (mus_loop p fuel Nfact W C acc))))).
Lemma mus_loop_inv_thm : Mus_loop_inv_stmt.
Proof. exact mus_loop_inv. Qed.

(* R1 on the entry state of sqrfree_rep, whichever way the loop ends (b = true: early exit `count >= Nfact`) *)
Definition Mus_loop_any_exit_stmt : Prop := forall p, prime p -> forall Nfact P b acc C', canon p P -> P <> [] ->
  mus_loop p (length (sq_A p P) + 1) Nfact (pdiv p (sq_A p P) (sq_C p P)) (sq_C p P) [] = (b, acc, C') ->
  exists Wf, canon p Wf /\ Wf <> [] /\ C' <> [] /\ (b = false -> deg Wf <= 0) /\
    (b = true -> Nfact <= Z.of_nat (length acc) /\ 0 < deg Wf) /\
    eqp p (pmulZ (pmulZ (gprod acc 0) (pwr Wf (length acc + 1))) C') (sq_A p P) /\ divides p C' (pmulZ Wf (dZ C')).
Lemma mus_loop_any_exit_thm : Mus_loop_any_exit_stmt.
Proof. exact mus_loop_spec_gen. Qed.

(* R1 (conclusion): the loop of sqrfree_rep, when not left by the early exit, ended because W became constant (the fuel
   length A + 1 always suffices); then parts^multiplicities * leftover * non-zero constant = A, and the leftover C' is
   canonical, non-zero, has derivative zero and is a polynomial in X^p *)
Definition Mus_loop_stmt : Prop := forall p, prime p -> forall Nfact P acc C', canon p P -> P <> [] ->
  mus_loop p (length (sq_A p P) + 1) Nfact (pdiv p (sq_A p P) (sq_C p P)) (sq_C p P) [] = (false, acc, C') ->
  (exists u, deg u <= 0 /\ ~ eqp p u [] /\ eqp p (pmulZ (pmulZ (gprod acc 0) C') u) (sq_A p P)) /\
  canon p C' /\ C' <> [] /\ pdiff p C' = [] /\ in_Xp p C'.
Lemma mus_loop_thm : Mus_loop_stmt.
Proof. intros p Hp Nfact P acc C' CP NP H. split; [exact (mus_loop_spec p Hp Nfact P acc C' CP NP H)|].
  destruct (mus_loop_left_deriv p Hp Nfact P acc C' CP NP H) as [C1 [C2 C3]].
  split; [assumption|]. split; [assumption|]. split; [assumption|]. apply (pdiff_nil_in_Xp p Hp); assumption. Qed.

(* R1': one level of sqrfree_rep multiplies back when the p-th-root branch is not entered *)
Definition Sqrfree_rep_back_stmt : Prop := forall p, prime p -> forall f Nfact P n Fact, canon p P -> P <> [] -> 0 < Nfact ->
  sqrfree_rep p (S f) Nfact P = (n, Fact) ->
  (sq_C p P <> pone -> sq_early p Nfact P = false /\ deg (sq_left p Nfact P) <= 0) ->
  n = Z.of_nat (length Fact) /\
  exists u, deg u <= 0 /\ ~ eqp p u [] /\ eqp p (pmulZ (gprod (firstn (Z.to_nat n) Fact) 0) u) (sq_A p P).
Lemma sqrfree_rep_back_thm : Sqrfree_rep_back_stmt.
Proof. exact sqrfree_rep_multiplies_back. Qed.

(* R2 (restricted form): every part stored divides P whichever way the loop ends, the p-th-root branch not entered *)
Definition Sqrfree_rep_divides_stmt : Prop := forall p, prime p -> forall fuel Nfact P, canon p P ->
  (sq_C p P <> pone -> sq_early p Nfact P = false -> deg (sq_left p Nfact P) <= 0 \/ Nfact / p = 0) ->
  forall g, In g (snd (sqrfree_rep p fuel Nfact P)) -> divides p g P.
Lemma sqrfree_rep_divides_thm : Sqrfree_rep_divides_stmt.
Proof. exact sqrfree_rep_parts_divide. Qed.
Definition Czfactor_rep_divides_stmt : Prop := forall p, prime p -> forall P MOD s Lf Le s', canon p P ->
  (sq_C p P <> pone -> sq_early p (deg P + 1) P = false -> deg (sq_left p (deg P + 1) P) <= 0 \/ (deg P + 1) / p = 0) ->
  czfactor_rep p P MOD s = Some (Lf, Le, s') -> forall f, In f Lf -> divides p f P.
Lemma czfactor_rep_divides_thm : Czfactor_rep_divides_stmt.
Proof. exact czfactor_rep_factors_divide. Qed.

(* R3: the freshman's dream, Fermat, Frobenius g(X)^p = g(X^p), and proot is a p-th root on polynomials in X^p *)
Definition Frobenius_add_stmt : Prop := forall p, prime p -> forall a b,
  eqp p (pwr (paddZ a b) (Z.to_nat p)) (paddZ (pwr a (Z.to_nat p)) (pwr b (Z.to_nat p))).
Lemma frobenius_add_thm : Frobenius_add_stmt.
Proof. exact frobenius_add. Qed.
Definition Fermat_stmt : Prop := forall p, prime p -> forall c, c ^ p mod p = c mod p.
Lemma fermat_thm : Fermat_stmt.
Proof. exact fermat. Qed.
Definition Frobenius_stmt : Prop := forall p, prime p -> forall g, eqp p (pwr g (Z.to_nat p)) (spread p g).
Lemma frobenius_thm : Frobenius_stmt.
Proof. exact frobenius. Qed.
Definition Proot_pow_stmt : Prop := forall p, prime p -> forall C, in_Xp p C ->
  eqp p (pwr (proot p C) (Z.to_nat p)) C /\ (canon p C -> C <> [] -> canon p (proot p C) /\ proot p C <> []).
Lemma proot_pow_thm : Proot_pow_stmt.
Proof. intros p Hp C HX. split; [exact (proot_pow p Hp C HX)|]. intros CC NC. exact (proot_canon p Hp C CC NC HX). Qed.

(* R4: multiply-back through the recursion on p-th roots, under rep_ok (no early exit at any level, fuel and Nfact / p
   sufficient).  No hypothesis that the leftovers are p-th powers: that is proved (Mus_loop_stmt). *)
Definition Sqrfree_rep_full_stmt : Prop := forall p, prime p -> forall fuel Nfact P m Fact,
  canon p P -> P <> [] -> 0 < Nfact -> rep_ok p fuel Nfact P -> sqrfree_rep p fuel Nfact P = (m, Fact) ->
  m = Z.of_nat (length Fact) /\
  (exists u, deg u <= 0 /\ ~ eqp p u [] /\ eqp p (pmulZ (gprod (firstn (Z.to_nat m) Fact) 0) u) (sq_A p P)) /\
  (forall g, In g Fact -> divides p g P).
Lemma sqrfree_rep_full_thm : Sqrfree_rep_full_stmt.
Proof. intros p Hp fuel Nfact P m Fact CP NP HN OK H.
  destruct (sqrfree_rep_full p Hp fuel Nfact P m Fact CP NP HN OK H) as [E1 E2]. split; [assumption|]. split; [assumption|].
  exact (sqrfree_rep_full_parts_divide p Hp fuel Nfact P m Fact CP NP HN OK H). Qed.

(* ... and rep_ok always holds when Nfact >= deg P and fuel >= length P (what CZfactor passes: deg P + 1, length P + 1) *)
Definition Rep_ok_total_stmt : Prop := forall p, prime p -> forall fuel Nfact P,
  canon p P -> P <> [] -> deg P <= Nfact -> (length P <= fuel)%nat -> rep_ok p fuel Nfact P.
Lemma rep_ok_total_thm : Rep_ok_total_stmt.
Proof. exact rep_ok_total. Qed.

(* hence, unconditionally: the repaired decomposition multiplies back, every canonical non-zero P, every characteristic *)
Definition Sqrfree_rep_correct_stmt : Prop := forall p, prime p -> forall fuel Nfact P m Fact,
  canon p P -> P <> [] -> 0 < Nfact -> deg P <= Nfact -> (length P <= fuel)%nat -> sqrfree_rep p fuel Nfact P = (m, Fact) ->
  m = Z.of_nat (length Fact) /\
  exists u, deg u <= 0 /\ ~ eqp p u [] /\ eqp p (pmulZ (gprod (firstn (Z.to_nat m) Fact) 0) u) (sq_A p P).
Lemma sqrfree_rep_correct_thm : Sqrfree_rep_correct_stmt.
Proof. exact sqrfree_rep_correct. Qed.

(* R2 in full and more: CZfactor over the repaired decomposition, every canonical non-zero P, every MOD, every stream,
   every characteristic: each factor divides P, and the factors with the multiplicities returned multiply back to P up
   to a non-zero constant U *)
Definition Czfactor_rep_correct_stmt : Prop := forall p, prime p -> forall P MOD s Lf Le s', canon p P -> P <> [] ->
  czfactor_rep p P MOD s = Some (Lf, Le, s') ->
  (forall f, In f Lf -> divides p f P) /\ length Lf = length Le /\ Forall (fun e => 1 <= e) Le /\
  exists U, deg U <= 0 /\ ~ eqp p U [] /\ eqp p (pmulZ (wprod Lf Le) U) P.
Lemma czfactor_rep_correct_thm : Czfactor_rep_correct_stmt.
Proof. exact czfactor_rep_correct. Qed.

(* ================= the hypotheses are satisfiable ================= *)
(* P = X (X+1)^2 (X+2)^3 over GF(5): three rounds of the loop, leftover 1 *)
Example mus_loop_example : prime 5 /\ canon 5 [0; 3; 3; 3; 0; 3; 1] /\ [0; 3; 3; 3; 0; 3; 1] <> [] /\
  mus_loop 5 (length (sq_A 5 [0; 3; 3; 3; 0; 3; 1]) + 1) 7 (pdiv 5 (sq_A 5 [0; 3; 3; 3; 0; 3; 1]) (sq_C 5 [0; 3; 3; 3; 0; 3; 1]))
    (sq_C 5 [0; 3; 3; 3; 0; 3; 1]) [] = (false, [[0; 2]; [4; 4]; [4; 2]], [1]).
Proof. split; [exact prime_5_sqr|]. split; [canon_lit|]. split; [discriminate|]. vm_compute. reflexivity. Qed.
Example sqrfree_rep_back_example : prime 5 /\ canon 5 [0; 3; 3; 3; 0; 3; 1] /\ 0 < 7 /\
  sqrfree_rep 5 8 7 [0; 3; 3; 3; 0; 3; 1] = (3, [[0; 2]; [4; 4]; [4; 2]]) /\ sq_C 5 [0; 3; 3; 3; 0; 3; 1] = [4; 3; 0; 1] /\
  sq_early 5 7 [0; 3; 3; 3; 0; 3; 1] = false /\ deg (sq_left 5 7 [0; 3; 3; 3; 0; 3; 1]) <= 0.
Proof. split; [exact prime_5_sqr|]. split; [canon_lit|]. split; [lia|]. split; [vm_compute; reflexivity|].
  split; [vm_compute; reflexivity|]. split; [vm_compute; reflexivity|]. vm_compute. discriminate. Qed.
(* P = X^2 + X over GF(2) is square-free: the branch C0 = 1 returning (1, [A]) *)
Example sqrfree_rep_back_example_char2 : prime 2 /\ canon 2 [0; 1; 1] /\ 0 < 3 /\
  sqrfree_rep 2 4 3 [0; 1; 1] = (1, [[0; 1; 1]]) /\ sq_C 2 [0; 1; 1] = pone.
Proof. split; [exact prime_2|]. split; [canon_lit|]. split; [lia|]. split; vm_compute; reflexivity. Qed.
(* the early exit: Nfact = 1 on X (X+1)^2 (X+2)^3 stops after one part, W still of degree 2; the part still divides P *)
Example sqrfree_rep_divides_example : prime 5 /\ canon 5 [0; 3; 3; 3; 0; 3; 1] /\
  sq_early 5 1 [0; 3; 3; 3; 0; 3; 1] = true /\ sqrfree_rep 5 8 1 [0; 3; 3; 3; 0; 3; 1] = (1, [[0; 2]]).
Proof. split; [exact prime_5_sqr|]. split; [canon_lit|]. split; vm_compute; reflexivity. Qed.
(* 1 + 2 X^3 + X^6 = (1 + 2 X + X^2)(X^3) over GF(3) *)
Example proot_pow_example : prime 3 /\ canon 3 [1; 0; 0; 2; 0; 0; 1] /\ in_Xp 3 [1; 0; 0; 2; 0; 0; 1] /\
  proot 3 [1; 0; 0; 2; 0; 0; 1] = [1; 2; 1] /\ spread 3 [1; 2; 1] = [1; 0; 0; 2; 0; 0; 1; 0; 0].
Proof. split; [exact prime_3|]. split; [canon_lit|]. split; [apply in_Xp_b_true; vm_compute; reflexivity|]. split; vm_compute; reflexivity. Qed.
(* P = X^2 (X+1)^3 over GF(2): the loop delivers [1; 1; X+1] and leaves X^2 = (X)^2; the root X is merged into slot 1 *)
Example sqrfree_rep_full_example : prime 2 /\ canon 2 [0; 0; 1; 1; 1; 1] /\ 0 < 6 /\ rep_ok 2 7 6 [0; 0; 1; 1; 1; 1] /\
  sq_left 2 6 [0; 0; 1; 1; 1; 1] = [0; 0; 1] /\ sqrfree_rep 2 7 6 [0; 0; 1; 1; 1; 1] = (3, [[1]; [0; 1]; [1; 1]]).
Proof. split; [exact prime_2|]. split; [canon_lit|]. split; [lia|]. split; [|split; vm_compute; reflexivity].
  cbn [rep_ok]. right. split; [vm_compute; reflexivity|]. right. split; [vm_compute; discriminate|].
  replace (proot 2 (sq_left 2 6 [0; 0; 1; 1; 1; 1])) with [0; 1] by (vm_compute; reflexivity). left. vm_compute. reflexivity. Qed.
(* two levels of recursion: X^8 + X^4 = (X^2 + X)^4 over GF(2) *)
Example sqrfree_rep_correct_example : prime 2 /\ canon 2 [0; 0; 0; 0; 1; 0; 0; 0; 1] /\ 0 < 9 /\ deg [0; 0; 0; 0; 1; 0; 0; 0; 1] <= 9 /\
  (length [0; 0; 0; 0; 1; 0; 0; 0; 1] <= 10)%nat /\ sqrfree_rep 2 10 9 [0; 0; 0; 0; 1; 0; 0; 0; 1] = (4, [[1]; [1]; [1]; [0; 1; 1]]).
Proof. split; [exact prime_2|]. split; [canon_lit|]. split; [lia|]. split; [cbn; lia|]. split; [cbn; lia|]. vm_compute. reflexivity. Qed.
Example czfactor_rep_correct_example : prime 2 /\ canon 2 [0; 0; 1; 1; 1; 1] /\
  czfactor_rep 2 [0; 0; 1; 1; 1; 1] 2 [1; 0; 1; 1; 0; 1; 1; 1; 0; 1; 0; 0; 1] =
    Some ([[0; 1]; [1; 1]], [2; 3], [1; 0; 1; 1; 0; 1; 1; 1; 0; 1; 0; 0; 1]).
Proof. split; [exact prime_2|]. split; [canon_lit|]. vm_compute. reflexivity. Qed.
Example czfactor_rep_correct_example_char3 : prime 3 /\ canon 3 [0; 0; 0; 2; 2] /\
  czfactor_rep 3 [0; 0; 0; 2; 2] 3 [1; 2; 1; 1; 2; 0; 1] = Some ([[1; 1]; [0; 1]], [1; 3], [1; 2; 1; 1; 2; 0; 1]).
Proof. split; [exact prime_3|]. split; [canon_lit|]. vm_compute. reflexivity. Qed.
