(* C09 proofs, part 7: exit conditions of the searches.  Whatever a request returns (for every stream) passed the test
   the search is built on and has exactly the requested shape: n+1 coefficients, leading coefficient 1. *)
From Coq Require Import ZArith List Bool Lia.
From C09 Require Import Model ProofsIrr.
Import ListNotations.
Local Open Scope Z_scope.

Lemma nth_set_coef_other R : forall i k a, k <> i -> nth k (set_coef R i a) 0 = nth k R 0.
Proof. induction R as [|x R IH]; intros [|i] [|k] a H; cbn [set_coef nth]; try reflexivity; try lia. apply IH. lia. Qed.
Lemma nth_set_coef_same R : forall i a, (i < length R)%nat -> nth i (set_coef R i a) 0 = a.
Proof. induction R as [|x R IH]; intros [|i] a H; cbn [set_coef nth length] in *; try lia; try reflexivity. apply IH. lia. Qed.
Lemma monomial_length n : length (monomial n) = S n.
Proof. unfold monomial. rewrite app_length, repeat_length. cbn [length]. lia. Qed.
Lemma monomial_top n : nth n (monomial n) 0 = 1.
Proof. unfold monomial. rewrite app_nth2; rewrite repeat_length; [|lia]. rewrite Nat.sub_diag. reflexivity. Qed.

(* shape kept by a search: same length, coefficients outside the set `touched` unchanged *)
Definition keeps (touched : nat -> Prop) (R R' : poly) : Prop :=
  length R' = length R /\ forall k, ~ touched k -> nth k R' 0 = nth k R 0.
Lemma keeps_refl (t : nat -> Prop) R : keeps t R R. Proof. split; auto. Qed.
Lemma keeps_trans (t : nat -> Prop) R1 R2 R3 : keeps t R1 R2 -> keeps t R2 R3 -> keeps t R1 R3.
Proof. intros [L1 H1] [L2 H2]. split; [congruence|]. intros k Hk. rewrite H2, H1; auto. Qed.
Lemma keeps_set (t : nat -> Prop) R i a : t i -> keeps t R (set_coef R i a).
Proof. intros Hi. split; [apply set_coef_length|]. intros k Hk. apply nth_set_coef_other. intro; subst; auto. Qed.
Lemma keeps_weaken (t t' : nat -> Prop) R R' : (forall k, t k -> t' k) -> keeps t R R' -> keeps t' R R'.
Proof. intros W [L H]. split; [assumption|]. intros k Hk. apply H. auto. Qed.

Section S.
Variable p : Z.
Variable test : poly -> bool.

Lemma try_const_spec : forall l R b R', try_const test R l = (b, R') ->
  (b = true -> test R' = true) /\ keeps (fun k => k = O) R R'.
Proof. induction l as [|a l IH]; intros R b R' H; cbn [try_const] in H.
  - inversion H; subst. split; [discriminate|apply keeps_refl].
  - destruct (test (set_coef R 0 a)) eqn:T.
    + inversion H; subst. split; [auto|apply keeps_set; reflexivity].
    + apply IH in H. destruct H as [H1 H2]. split; [assumption|]. eapply keeps_trans; [apply keeps_set; reflexivity|exact H2]. Qed.

Lemma try_mid_spec d MOD : forall bs R b R', try_mid test R d bs MOD = (b, R') ->
  (b = true -> test R' = true) /\ keeps (fun k => k = O \/ k = d) R R'.
Proof. induction bs as [|x bs IH]; intros R b R' H; cbn [try_mid] in H.
  - inversion H; subst. split; [discriminate|apply keeps_refl].
  - destruct (try_const test (set_coef R d x) (zrange 1 MOD)) as [[|] R1] eqn:E; apply try_const_spec in E; destruct E as [E1 E2].
    + inversion H; subst. split; [auto|]. eapply keeps_trans; [apply keeps_set; right; reflexivity|].
      eapply keeps_weaken; [|exact E2]. cbn; auto.
    + apply IH in H. destruct H as [H1 H2]. split; [assumption|].
      eapply keeps_trans; [apply keeps_set; right; reflexivity|]. eapply keeps_trans; [|exact H2].
      eapply keeps_weaken; [|exact E2]. cbn; auto. Qed.

Lemma find_irred_trinomial_spec MOD : forall ds R b R', find_irred_trinomial test R ds MOD = (b, R') ->
  (b = true -> test R' = true) /\ keeps (fun k => k = O \/ In k (map Z.to_nat ds)) R R'.
Proof. induction ds as [|d ds IH]; intros R b R' H; cbn [find_irred_trinomial] in H.
  - inversion H; subst. split; [discriminate|apply keeps_refl].
  - destruct (try_mid test R (Z.to_nat d) (zrange 0 MOD) MOD) as [[|] R1] eqn:E; apply try_mid_spec in E; destruct E as [E1 E2].
    + inversion H; subst. split; [auto|]. eapply keeps_weaken; [|exact E2]. cbn [map In]. intros k [|]; auto.
    + apply IH in H. destruct H as [H1 H2]. split; [assumption|].
      eapply keeps_trans; [eapply keeps_weaken; [|exact E2]; cbn [map In]; intros k [|]; auto|].
      eapply keeps_trans; [apply keeps_set; cbn [map In]; auto|]. eapply keeps_weaken; [|exact H2]. cbn [map In]. intros k [|]; auto. Qed.

Lemma find_irred_trinomial2_spec MOD : forall ds R b R', find_irred_trinomial2 test R ds MOD = (b, R') ->
  (b = true -> test R' = true) /\ keeps (fun k => k = O \/ In k (map Z.to_nat ds)) R R'.
Proof. induction ds as [|d ds IH]; intros R b R' H; cbn [find_irred_trinomial2] in H.
  - inversion H; subst. split; [discriminate|apply keeps_refl].
  - destruct (try_mid test R (Z.to_nat d) (zrange 0 MOD) MOD) as [[|] R1] eqn:E; apply try_mid_spec in E; destruct E as [E1 E2].
    + inversion H; subst. split; [auto|]. eapply keeps_weaken; [|exact E2]. cbn [map In]. intros k [|]; auto.
    + apply IH in H. destruct H as [H1 H2]. split; [assumption|].
      eapply keeps_trans; [eapply keeps_weaken; [|exact E2]; cbn [map In]; intros k [|]; auto|].
      eapply keeps_trans; [apply (keeps_set _ R1 0%nat 0); left; reflexivity|]. eapply keeps_weaken; [|exact H2]. cbn [map In]. intros k [|]; auto. Qed.

(* the random search: n+1 coefficients, leading coefficient 1, test passed *)
Lemma try_rand_const_keeps : forall n R s R' s' b, try_rand_const p test R n s = Some (b, R', s') -> keeps (fun k => k = O) R R'.
Proof. induction n as [|n IH]; intros R s R' s' b H; cbn [try_rand_const] in H. { inversion H; subst. apply keeps_refl. }
  destruct s as [|x s]; [discriminate|]. destruct (test (set_coef R 0 (x mod p))).
  - inversion H; subst. apply keeps_set. reflexivity.
  - eapply keeps_trans; [apply keeps_set; reflexivity|]. eapply IH. exact H. Qed.

Lemma find_irred_randomial_shape n NUM : forall fuel s R s', (1 <= n)%nat ->
  find_irred_randomial p fuel test n NUM s = Some (R, s') -> test R = true /\ length R = S n /\ nth n R 0 = 1.
Proof. intros fuel s R s' Hn H. destruct (find_irred_randomial_spec p test n NUM fuel s R s' H) as [T L]. split; [assumption|]. split; [assumption|].
  revert s R s' H T L. induction fuel as [|f IH]; intros s R s' H T L; cbn [find_irred_randomial] in H; [discriminate|].
  destruct (random_poly p n s) as [[R0 s1]|] eqn:E0; [|discriminate].
  destruct (try_rand_const p test (set_coef R0 n 1) (Z.to_nat NUM) s1) as [[[b R1] s2]|] eqn:E1; [|discriminate].
  destruct b; [|eauto]. inversion H; subst. apply try_rand_const_keeps in E1. destruct E1 as [L1 K1].
  rewrite K1 by lia. apply nth_set_coef_same. rewrite set_coef_length in L1. lia. Qed.

End S.

Lemma zrange_bound lo hi d : In d (zrange lo hi) -> lo <= d < hi.
Proof. unfold zrange. intros H. apply in_map_iff in H. destruct H as [k [<- Hk]]. apply in_seq in Hk. lia. Qed.

Section Req.
Variable p : Z.

(* binomial, then trinomial, then random: common shape of creux_random_irreducible / ixe_irreducible / ixe_irreducible2 *)
Lemma three_stage_shape test n MOD ds s R s' (tri : (poly -> bool) -> poly -> list Z -> Z -> bool * poly) :
  (forall R0 b R', tri test R0 ds MOD = (b, R') -> (b = true -> test R' = true) /\ keeps (fun k => k = O \/ In k (map Z.to_nat ds)) R0 R') ->
  (1 <= n)%nat -> (forall d, In d ds -> 0 <= d < Z.of_nat n) ->
  match find_irred_binomial test (monomial n) MOD with
  | (true, R) => Some (R, s)
  | (false, R) => match tri test R ds MOD with
                  | (true, R') => Some (R', s)
                  | (false, _) => find_irred_randomial p (S (length s)) test n MOD s
                  end
  end = Some (R, s') -> test R = true /\ length R = S n /\ nth n R 0 = 1.
Proof. intros Htri Hn Hds H. unfold find_irred_binomial in H.
  destruct (try_const test (monomial n) (zrange 0 MOD)) as [[|] R1] eqn:E1; apply try_const_spec in E1; destruct E1 as [T1 [L1 K1]].
  - inversion H; subst. split; [auto|]. split; [rewrite L1; apply monomial_length|]. rewrite K1 by lia. apply monomial_top.
  - destruct (tri test R1 ds MOD) as [[|] R2] eqn:E2.
    + apply Htri in E2. destruct E2 as [T2 [L2 K2]]. inversion H; subst. split; [auto|]. split; [rewrite L2, L1; apply monomial_length|].
      rewrite K2, K1; [apply monomial_top|lia|]. intros [E|E]; [lia|]. apply in_map_iff in E. destruct E as [d [E Hd]].
      apply Hds in Hd. lia.
    + eapply find_irred_randomial_shape; eassumption. Qed.

Theorem creux_random_irreducible_spec n MOD s R s' : (1 <= n)%nat -> creux_random_irreducible p n MOD s = Some (R, s') ->
  is_irreducible p (norm R) MOD = true /\ length R = S n /\ nth n R 0 = 1.
Proof. intros Hn H. unfold creux_random_irreducible in H.
  eapply (three_stage_shape (fun R => is_irreducible p (norm R) MOD) n MOD (zrange 1 (Z.of_nat n / 2 + 1)) s R s' find_irred_trinomial); try eassumption.
  - intros R0 b R' H0. exact (find_irred_trinomial_spec _ _ _ _ _ _ H0).
  - intros d Hd. apply zrange_bound in Hd. assert (Z.of_nat n / 2 < Z.of_nat n) by (apply Z.div_lt; lia). lia. Qed.

Theorem ixe_irreducible_spec n MOD s R s' : (1 <= n)%nat -> ixe_irreducible p n MOD s = Some (R, s') ->
  is_irreducible p (norm R) MOD = true /\ is_prim_root p Xpoly (norm R) MOD = true /\ length R = S n /\ nth n R 0 = 1.
Proof. intros Hn H. unfold ixe_irreducible in H.
  destruct (three_stage_shape (fun R => is_irreducible p (norm R) MOD && is_prim_root p Xpoly (norm R) MOD) n MOD
              (zrange 2 (Z.of_nat n / 2 + 1)) s R s' find_irred_trinomial) as [T [L K]]; try eassumption.
  - intros R0 b R' H0. exact (find_irred_trinomial_spec _ _ _ _ _ _ H0).
  - intros d Hd. apply zrange_bound in Hd. assert (Z.of_nat n / 2 < Z.of_nat n) by (apply Z.div_lt; lia). lia.
  - apply andb_true_iff in T. tauto. Qed.

Theorem ixe_irreducible2_spec n MOD s R s' : (1 <= n)%nat -> ixe_irreducible2 p n MOD s = Some (R, s') ->
  is_irreducible2 p (norm R) MOD = true /\ is_prim_root p Xpoly (norm R) MOD = true /\ length R = S n /\ nth n R 0 = 1.
Proof. intros Hn H. unfold ixe_irreducible2 in H.
  destruct (three_stage_shape (fun R => is_irreducible2 p (norm R) MOD && is_prim_root p Xpoly (norm R) MOD) n MOD
              (zrange 2 (Z.of_nat n)) s R s' find_irred_trinomial2) as [T [L K]]; try eassumption.
  - intros R0 b R' H0. exact (find_irred_trinomial2_spec _ _ _ _ _ _ H0).
  - intros d Hd. apply zrange_bound in Hd. lia.
  - apply andb_true_iff in T. tauto. Qed.

Theorem random_irreducible_shape n MOD s R s' : (1 <= n)%nat -> random_irreducible p n MOD s = Some (R, s') ->
  is_irreducible p (norm R) MOD = true /\ length R = S n /\ nth n R 0 = 1.
Proof. intros Hn H. exact (find_irred_randomial_shape p (fun R => is_irreducible p (norm R) MOD) n MOD _ _ _ _ Hn H). Qed.

(* ---- primitive-root requests: the element returned passed is_prim_root *)
Lemma gpr_binomials_spec F MOD : forall dis R, gpr_binomials p F MOD dis = Some R -> is_prim_root p (norm R) F MOD = true.
Proof. induction dis as [|di dis IH]; intros R H; cbn [gpr_binomials] in H; [discriminate|].
  destruct (try_const _ _ _) as [[|] R1] eqn:E; [|auto]. inversion H; subst.
  apply (try_const_spec (fun R => is_prim_root p (norm R) F MOD)) in E. tauto. Qed.

Lemma gpr_mid_spec F MOD : forall djs R b R', gpr_mid p F MOD R djs = (b, R') -> b = true -> is_prim_root p (norm R') F MOD = true.
Proof. induction djs as [|dj djs IH]; intros R b R' H Hb; cbn [gpr_mid] in H. { inversion H; subst; discriminate. }
  match type of H with match ?f R ?l with _ => _ end = _ =>
    assert (Hin : forall l0 R0 b0 R0', f R0 l0 = (b0, R0') -> b0 = true -> is_prim_root p (norm R0') F MOD = true);
    [|destruct (f R l) as [[|] R1] eqn:E] end.
  - induction l0 as [|x l0 IHl]; intros R0 b0 R0' H0 Hb0; cbn in H0. { inversion H0; subst; discriminate. }
    destruct (try_const _ _ _) as [[|] R2] eqn:E2.
    + inversion H0; subst. apply (try_const_spec (fun R => is_prim_root p (norm R) F MOD)) in E2. tauto.
    + eapply IHl; eassumption.
  - inversion H; subst. eapply Hin; [exact E|reflexivity].
  - eapply IH; eassumption. Qed.

Lemma gpr_trinomials_spec F MOD : forall dis R, gpr_trinomials p F MOD dis = Some R -> is_prim_root p (norm R) F MOD = true.
Proof. induction dis as [|di dis IH]; intros R H; cbn [gpr_trinomials] in H; [discriminate|].
  destruct (gpr_mid p F MOD (monomial (Z.to_nat di)) (zrange 1 di)) as [[|] R1] eqn:E; [|auto].
  inversion H; subst. eapply gpr_mid_spec; [exact E|reflexivity]. Qed.

Lemma gpr_random_spec F n MOD : forall fuel s R s', gpr_random p fuel F n MOD s = Some (R, s') -> is_prim_root p (norm R) F MOD = true.
Proof. induction fuel as [|f IH]; intros s R s' H; cbn [gpr_random] in H; [discriminate|].
  destruct (random_poly p n s) as [[R0 s1]|]; [|discriminate].
  destruct (try_const _ _ _) as [[|] R1] eqn:E; [|eauto]. inversion H; subst.
  apply (try_const_spec (fun R => is_prim_root p (norm R) F MOD)) in E. tauto. Qed.

Theorem give_random_prim_root_spec F MOD s R s' : give_random_prim_root p F MOD s = Some (R, s') -> is_prim_root p (norm R) F MOD = true.
Proof. apply gpr_random_spec. Qed.

Theorem give_prim_root_spec F MOD s R s' : give_prim_root p F MOD s = Some (R, s') -> is_prim_root p (norm R) F MOD = true.
Proof. unfold give_prim_root. cbv zeta. destruct (gpr_binomials p F MOD _) as [R1|] eqn:E1.
  - intros H. inversion H; subst. eapply gpr_binomials_spec; eassumption.
  - destruct (gpr_trinomials p F MOD _) as [R2|] eqn:E2.
    + intros H. inversion H; subst. eapply gpr_trinomials_spec; eassumption.
    + apply give_random_prim_root_spec. Qed.

Theorem random_prim_root_spec n MOD s P R s' : (1 <= n)%nat -> random_prim_root p n MOD s = Some (P, R, s') ->
  is_irreducible p (norm P) MOD = true /\ length P = S n /\ nth n P 0 = 1 /\ is_prim_root p (norm R) (norm P) MOD = true.
Proof. intros Hn H. unfold random_prim_root in H.
  destruct (random_irreducible p n MOD s) as [[P0 s1]|] eqn:E1; [|discriminate].
  destruct (give_prim_root p (norm P0) MOD s1) as [[R0 s2]|] eqn:E2; [|discriminate]. inversion H; subst.
  destruct (random_irreducible_shape _ _ _ _ _ Hn E1) as [A [B C]]. repeat split; auto. eapply give_prim_root_spec; eassumption. Qed.

End Req.
