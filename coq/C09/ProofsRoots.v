(* C09 proofs, part 13: ROOT COUNTING in GF(p)[X]/(F), F irreducible, and what follows from it, for EVERY prime p and EVERY
   degree.  Nothing is computed except in the `Example`s.
   R1  a polynomial of degree m in T with coefficients in the domain K = GF(p)[X]/(F) has at most m roots in K (factor theorem
       by synthetic division + Euclid's lemma for the irreducible F); specialised to T^(p^i) - T: at most p^i residues satisfy
       a^(p^i) = a (i >= 1; for i = 0 the bound is false: every residue is fixed by a |-> a^1).
   R2  an irreducible g with X^(p^d) = X modulo g (d >= 1) has degree <= d: by Frobenius B^(p^d) = B(X^(p^d)) = B modulo g for
       every residue B, so all p^(deg g) residues are fixed points and R1 applies.
   R3  COMPLETENESS of the implemented test: P irreducible -> is_irreducible p P p = true; with ProofsIrrSound.v the test
       decides irreducibility.
   R4  the distinct-degree fact: if no irreducible divisor of P has degree < d then gcd(X^(p^d) - X mod P, P) is, up to a
       constant, a product of irreducibles of degree exactly d (ddf_fact of ProofsFactors.v), and it collects every
       irreducible divisor of degree d of P.
   R5  hence the explicit hypothesis ddf_hyp of ProofsFactors.v holds for EVERY non-zero square-free polynomial (invariant of
       ddf_trace: W = X^(p^(dp-1)) mod P, P | f, no irreducible divisor of P of degree < dp; the last cofactor is
       irreducible by a degree count): DistinctDegreeFactor on a square-free input appends only irreducibles. *)
From Coq Require Import ZArith List Bool Lia Znumtheory.
From C09 Require Import Model Model2 ProofsAlg ProofsDiv ProofsSplit ProofsCZ ProofsIrr ProofsReq ProofsPow ProofsOrd ProofsSqr
  ProofsRep ProofsRep2 ProofsFactors ProofsLagrange ProofsIrrSound.
Import ListNotations.
Local Open Scope Z_scope.
Ltac Zify.zify_post_hook ::= Z.div_mod_to_equations.

Ltac evr := apply eqp_ev; intros ?x;
  repeat (rewrite ?ev_paddZ, ?ev_pmulZ, ?ev_pscaleZ, ?ev_pone, ?ev_prodl_cons, ?ev_prodl_nil); cbn [ev]; ring.

(* ================= polynomials in T with polynomial coefficients: evaluation and synthetic division ================= *)
(* f = [c_0; c_1; ...] stands for c_0 + c_1 T + ...; evaluation at T := a by Horner, WITHOUT any reduction: the result is an
   element of Z[X]; "a is a root modulo (p, F)" is  cong p F (evT f a) [] *)
Fixpoint evT (f : list poly) (a : poly) : poly :=
  match f with [] => [] | c :: f' => paddZ c (pmulZ a (evT f' a)) end.
(* the quotient of f by (T - a) *)
Fixpoint syn (f : list poly) (a : poly) : list poly :=
  match f with [] => [] | c :: f' => match f' with [] => [] | _ => evT f' a :: syn f' a end end.

Lemma ev_evT_cons c f a x : ev (evT (c :: f) a) x = ev c x + ev a x * ev (evT f a) x.
Proof. cbn [evT]. rewrite ev_paddZ, ev_pmulZ. reflexivity. Qed.

(* f(b) = (b - a) q(b) + f(a) *)
Lemma syn_identity a b x : forall f,
  ev (evT f b) x = (ev b x - ev a x) * ev (evT (syn f a) b) x + ev (evT f a) x.
Proof. induction f as [|c f IH]. { cbn [syn evT ev]. ring. }
  destruct f as [|d f'].
  - cbn [syn]. rewrite !ev_evT_cons. cbn [evT ev]. ring.
  - change (syn (c :: d :: f') a) with (evT (d :: f') a :: syn (d :: f') a). set (g := d :: f') in *.
    rewrite !ev_evT_cons, IH. ring. Qed.

Lemma syn_length a : forall f, length (syn f a) = pred (length f).
Proof. induction f as [|c f IH]; [reflexivity|]. destruct f as [|d f']; [reflexivity|].
  change (syn (c :: d :: f') a) with (evT (d :: f') a :: syn (d :: f') a). cbn [length] in *. rewrite IH. reflexivity. Qed.

(* the quotient has the leading coefficient of f *)
Lemma syn_last a x : forall f, (2 <= length f)%nat -> ev (last (syn f a) []) x = ev (last f []) x.
Proof. induction f as [|c f IH]; intros L; [cbn [length] in L; lia|].
  destruct f as [|d f']; [cbn [length] in L; lia|].
  change (syn (c :: d :: f') a) with (evT (d :: f') a :: syn (d :: f') a).
  destruct f' as [|e f''].
  - cbn [syn last evT]. rewrite ev_paddZ, ev_pmulZ. cbn [ev]. ring.
  - change (last (c :: d :: e :: f'') []) with (last (d :: e :: f'') []). rewrite <- IH by (cbn [length]; lia).
    change (syn (d :: e :: f'') a) with (evT (e :: f'') a :: syn (e :: f'') a). reflexivity. Qed.

Lemma ev_evT_shift a x g : forall k, ev (evT (repeat [] k ++ g) a) x = ev a x ^ Z.of_nat k * ev (evT g a) x.
Proof. induction k as [|k IH]. { cbn [repeat app]. change (Z.of_nat 0) with 0. rewrite Z.pow_0_r. ring. }
  cbn [repeat app]. rewrite ev_evT_cons, IH, Nat2Z.inj_succ, Z.pow_succ_r by lia. cbn [ev]. ring. Qed.

(* T^m - T, m >= 2 *)
Definition fixpoly (m : nat) : list poly := [] :: [-1] :: repeat [] (m - 2) ++ [[1]].

Lemma ev_fixpoly k a x : ev (evT (fixpoly (S (S k))) a) x = ev (pwr a (S (S k))) x - ev a x.
Proof. unfold fixpoly. replace (S (S k) - 2)%nat with k by lia. rewrite !ev_evT_cons, ev_evT_shift, ev_evT_cons, ev_pwr.
  rewrite !Nat2Z.inj_succ, !Z.pow_succ_r by lia. cbn [evT ev]. ring. Qed.
Lemma fixpoly_length m : (2 <= m)%nat -> length (fixpoly m) = S m.
Proof. intros H. unfold fixpoly. cbn [length]. rewrite app_length, repeat_length. cbn [length]. lia. Qed.
Lemma fixpoly_last m : last (fixpoly m) [] = [1].
Proof. unfold fixpoly. rewrite !app_comm_cons. apply last_last. Qed.

(* g(Y): composition, again without reduction *)
Fixpoint comp (g : poly) (Y : poly) : poly :=
  match g with [] => [] | c :: r => paddZ [c] (pmulZ Y (comp r Y)) end.
Lemma ev_comp Y x : forall g, ev (comp g Y) x = ev g (ev Y x).
Proof. induction g as [|c r IH]; cbn [comp ev]; [reflexivity|]. rewrite ev_paddZ, ev_pmulZ, IH. cbn [ev]. ring. Qed.

Section P.
Variable p : Z.
Hypothesis Hp : prime p.
Let p_gt_1 : 1 < p. Proof. destruct Hp; assumption. Qed.
Notation eqp := (eqp p).
Notation canon := (canon p).
Notation cong := (cong p).
Notation divides := (divides p).
Notation irreducible_def := (irreducible_def p).

(* ---- small facts on congruences *)
Lemma cong_nil_divides U a : cong U a [] <-> divides U a.
Proof. split; intros [q H]; exists q.
  - apply eqp_sym. eapply eqp_trans; [exact H|]. evr.
  - apply eqp_sym. eapply eqp_trans; [|exact H]. evr. Qed.
Lemma cong_add U a a' b b' : cong U a b -> cong U a' b' -> cong U (paddZ a a') (paddZ b b').
Proof. intros H G. apply cong_ev in H, G. destruct H as [q [k H]], G as [q' [k' G]]. apply cong_ev.
  exists (paddZ q q'), (paddZ k k'). intros x. specialize (H x). specialize (G x). rewrite !ev_paddZ. lia. Qed.
Lemma cong_sub_nil U a b : cong U a b -> cong U (paddZ a (pscaleZ (-1) b)) [].
Proof. intros H. apply cong_ev in H. destruct H as [q [k H]]. apply cong_ev.
  exists q, k. intros x. specialize (H x). rewrite ev_paddZ, ev_pscaleZ. cbn [ev]. lia. Qed.
Lemma cong_of_sub_nil U a b : cong U (paddZ a (pscaleZ (-1) b)) [] -> cong U a b.
Proof. intros H. apply cong_ev in H. destruct H as [q [k H]]. apply cong_ev.
  exists q, k. intros x. specialize (H x). rewrite ev_paddZ, ev_pscaleZ in H. cbn [ev] in H. lia. Qed.
Lemma cong_comp U g : forall Y Y', cong U Y Y' -> cong U (comp g Y) (comp g Y').
Proof. intros Y Y' H. induction g as [|c r IH]; cbn [comp]; [apply cong_refl|].
  apply cong_add; [apply cong_refl|apply cong_mul; assumption]. Qed.

(* a short canonical polynomial is its own remainder *)
Lemma pmod_short a U : canon a -> canon U -> (length a < length U)%nat -> pmod p a U = a.
Proof. intros Ca CU L. assert (NU : U <> []) by (destruct U; [cbn [length] in L; lia|discriminate]).
  apply (pmod_unique p Hp a U []); try assumption. evr. Qed.

Lemma length_psub_lt a b n : (length a < n)%nat -> (length b < n)%nat -> (length (psub p a b) < n)%nat.
Proof. intros La Lb. unfold psub. pose proof (length_red_le p (paddZ a (pscaleZ (-1) b))) as H.
  rewrite length_paddZ, length_pscaleZ in H. lia. Qed.

(* a multiple of U shorter than U is zero *)
Lemma short_multiple_nil U a : canon U -> canon a -> (length a < length U)%nat -> divides U a -> a = [].
Proof. intros CU Ca L D. destruct a as [|c a']; [reflexivity|exfalso].
  pose proof (divides_length_le p Hp U (c :: a') CU Ca ltac:(discriminate) D). lia. Qed.

Lemma psub_nil_eq a b : canon a -> canon b -> psub p a b = [] -> a = b.
Proof. intros Ca Cb E. apply (canon_unique p Hp); try assumption.
  apply eqp_trans with (paddZ (psub p a b) b).
  - unfold psub. eapply eqp_trans; [|apply eqp_add; [apply eqp_sym, eqp_red; assumption|apply eqp_refl]]. evr.
  - rewrite E. evr. Qed.

(* ================= R1: at most m roots ================= *)
Section Roots.
Variable F : poly.
Hypothesis CF : canon F.
Hypothesis IF : irreducible_def F.

Theorem roots_bound : forall m (f : list poly), length f = S m -> ~ cong F (last f []) [] ->
  forall L, NoDup L -> (forall a, In a L -> canon a /\ (length a < length F)%nat /\ cong F (evT f a) []) ->
  (length L <= m)%nat.
Proof. induction m as [|m IH]; intros f Lf Hl L ND HL.
  - destruct L as [|a L]; [cbn [length]; lia|exfalso].
    destruct f as [|c [|d f']]; try discriminate. destruct (HL a (or_introl eq_refl)) as [_ [_ H]].
    apply Hl. cbn [last]. eapply cong_eqp_l; [|exact H]. apply eqp_ev. intros x. rewrite ev_evT_cons. cbn [evT ev]. ring.
  - destruct L as [|a L]; [cbn [length]; lia|]. cbn [length]. apply le_n_S.
    destruct (HL a (or_introl eq_refl)) as [Ca [La Ra]]. inversion ND as [|? ? Na ND']; subst.
    apply (IH (syn f a)).
    + rewrite syn_length, Lf. reflexivity.
    + intros H. apply Hl. eapply cong_eqp_l; [|exact H]. apply eqp_ev. intros x. symmetry. apply syn_last. lia.
    + assumption.
    + intros b Hb. destruct (HL b (or_intror Hb)) as [Cb [Lb Rb]]. split; [assumption|]. split; [assumption|].
      assert (D : divides F (pmulZ (psub p b a) (evT (syn f a) b))).
      { apply cong_nil_divides.
        apply cong_eqp_l with (paddZ (evT f b) (pscaleZ (-1) (evT f a))).
        - eapply eqp_trans; [apply eqp_mul; [apply eqp_red; assumption|apply eqp_refl]|].
          apply eqp_ev. intros x. rewrite ev_pmulZ, !ev_paddZ, !ev_pscaleZ, (syn_identity a b x f). ring.
        - apply cong_sub_nil. eapply cong_trans; [exact Rb|apply cong_sym; exact Ra]. }
      destruct (euclid p Hp F _ _ CF IF (canon_psub p Hp b a) D) as [D1|D1].
      * exfalso. apply Na.
        pose proof (short_multiple_nil F _ CF (canon_psub p Hp b a) (length_psub_lt b a _ Lb La) D1) as E.
        rewrite <- (psub_nil_eq b a Cb Ca E). assumption.
      * apply cong_nil_divides. assumption. Qed.

Lemma one_not_zero : ~ cong F [1] [].
Proof. intros H. apply cong_nil_divides in H.
  pose proof (divides_const_is_const p Hp F 1 CF ltac:(lia) H) as L. destruct IF as [D _]. unfold deg in D. lia. Qed.

(* at most p^i residues are fixed by a |-> a^(p^i), i >= 1 *)
Theorem fixed_points_bound i L : 1 <= i -> NoDup L ->
  (forall a, In a L -> canon a /\ (length a < length F)%nat /\ ppowmod p a (p ^ i) F = pmod p a F) ->
  Z.of_nat (length L) <= p ^ i.
Proof. intros Hi ND HL. pose proof (irreducible_len p F IF) as LF. pose proof (len2_nonnil F LF) as NF.
  assert (Hq : 2 <= p ^ i).
  { pose proof (Z.pow_le_mono_r p 1 i ltac:(lia) Hi) as H. rewrite Z.pow_1_r in H. lia. }
  destruct (Z.to_nat (p ^ i)) as [|[|k]] eqn:Em; [lia|lia|].
  enough (length L <= S (S k))%nat by lia.
  apply (roots_bound (S (S k)) (fixpoly (S (S k)))).
  - apply fixpoly_length. lia.
  - rewrite fixpoly_last. apply one_not_zero.
  - assumption.
  - intros a Ha. destruct (HL a Ha) as [Ca [La Ea]]. split; [assumption|]. split; [assumption|].
    apply cong_eqp_l with (paddZ (pwr a (S (S k))) (pscaleZ (-1) a)).
    { apply eqp_ev. intros x. rewrite ev_fixpoly, ev_paddZ, ev_pscaleZ. ring. }
    apply cong_sub_nil.
    destruct (ppowmod_spec p Hp a F (p ^ i) Ca CF LF ltac:(lia)) as [H _]. rewrite Em, Ea in H.
    eapply cong_trans; [exact H|]. apply cong_sym. apply cong_pmod; assumption. Qed.

End Roots.

(* ================= R2: an irreducible divisor of X^(p^d) - X has degree <= d ================= *)
Notation np := (Z.to_nat p).

Lemma ev_Xpoly x : ev Xpoly x = x.
Proof. unfold Xpoly. cbn [ev]. ring. Qed.

(* Frobenius iterated: B^(p^d) = B(X^(p^d)) in GF(p)[X] *)
Lemma frobenius_iter B : forall d, eqp (pwr B (np ^ d)) (comp B (pwr Xpoly (np ^ d))).
Proof. induction d as [|d IH].
  - apply eqp_ev. intros x. rewrite ev_comp, !ev_pwr, ev_Xpoly. cbn [Nat.pow]. change (Z.of_nat 1) with 1.
    rewrite !Z.pow_1_r. reflexivity.
  - apply eqp_trans with (pwr (pwr B (np ^ d)) np).
    { apply eqp_ev. intros x. rewrite ev_pwr_mul. replace (np ^ d * np)%nat with (np ^ S d)%nat by (cbn [Nat.pow]; lia).
      reflexivity. }
    eapply eqp_trans; [apply eqp_pwr; exact IH|]. eapply eqp_trans; [apply (frobenius p Hp)|].
    apply eqp_ev. intros x. rewrite ev_spread by assumption. rewrite !ev_comp, !ev_pwr, !ev_Xpoly.
    rewrite <- Z.pow_mul_r by lia. f_equal. f_equal. cbn [Nat.pow]. rewrite Nat2Z.inj_mul, Z2Nat.id by lia. reflexivity. Qed.

(* if X^q = X modulo g (q = p^d) then B^q = B modulo g for EVERY B *)
Lemma Xq_fixes_all g d : cong g (pwr Xpoly (np ^ d)) Xpoly -> forall B, cong g (pwr B (np ^ d)) B.
Proof. intros HX B. apply cong_eqp_l with (comp B (pwr Xpoly (np ^ d))); [apply frobenius_iter|].
  apply cong_eqp_r with (comp B Xpoly); [apply cong_comp; exact HX|].
  apply eqp_ev. intros x. rewrite ev_comp, ev_Xpoly. reflexivity. Qed.

Theorem irr_divides_Xq_degree g d : canon g -> irreducible_def g -> 1 <= d ->
  ppowmod p Xpoly (p ^ d) g = pmod p Xpoly g -> deg g <= d.
Proof. intros Cg Ig Hd H. pose proof (irreducible_len p g Ig) as Lg. pose proof (len2_nonnil g Lg) as Ng.
  pose proof (canon_Xpoly p Hp) as CX.
  assert (Hq : 0 <= p ^ d) by (apply Z.pow_nonneg; lia).
  assert (Eq : Z.to_nat (p ^ d) = (np ^ Z.to_nat d)%nat).
  { apply Nat2Z.inj. rewrite Nat2Z.inj_pow, !Z2Nat.id by lia. reflexivity. }
  assert (HX : cong g (pwr Xpoly (np ^ Z.to_nat d)) Xpoly).
  { destruct (ppowmod_spec p Hp Xpoly g (p ^ d) CX Cg Lg Hq) as [H1 _]. rewrite Eq, H in H1.
    eapply cong_trans; [exact H1|]. apply cong_sym. apply cong_pmod; assumption. }
  assert (HB : forall B, canon B -> ppowmod p B (p ^ d) g = pmod p B g).
  { intros B CB. destruct (pdivmod_spec p Hp B g CB Cg Ng) as [_ [_ [CR LR]]].
    apply (ppowmod_char p Hp); try assumption. rewrite Eq. apply cong_sym.
    eapply cong_trans; [apply (Xq_fixes_all g _ HX B)|]. apply cong_pmod; assumption. }
  set (L := [] :: residues p (length g - 1)).
  assert (ND : NoDup L).
  { constructor; [|apply residues_NoDup]. intros HI. apply (residues_spec p _ [] ltac:(lia)) in HI. destruct HI as [_ [HI _]]. congruence. }
  assert (HL : forall a, In a L -> canon a /\ (length a < length g)%nat /\ ppowmod p a (p ^ d) g = pmod p a g).
  { intros a [<-|Ha].
    - split; [apply canon_nil|]. split; [cbn [length]; lia|]. apply HB. apply canon_nil.
    - apply (residues_spec p _ a ltac:(lia)) in Ha. destruct Ha as [Ca [_ La]]. split; [assumption|]. split; [lia|]. apply HB. assumption. }
  pose proof (fixed_points_bound g Cg Ig d L Hd ND HL) as B.
  unfold L in B. cbn [length] in B. rewrite Nat2Z.inj_succ in B. pose proof (residues_length p (length g - 1) ltac:(lia)) as RL.
  assert (E : p ^ deg g <= p ^ d) by (unfold deg; replace (Z.of_nat (length g) - 1) with (Z.of_nat (length g - 1)) by lia; lia).
  destruct (Z.le_gt_cases (deg g) d) as [|G]; [assumption|exfalso].
  pose proof (Z.pow_lt_mono_r p d (deg g) ltac:(lia) ltac:(unfold deg; lia) G). lia. Qed.

(* ================= R3: completeness of is_irreducible ================= *)
(* an irreducible polynomial is coprime to its derivative (as computed by Poly1Dom::gcd) *)
Lemma irr_pdiff_coprime P : canon P -> irreducible_def P -> deg (pgcd p (pdiff p P) P) <= 0.
Proof. intros CP IP. pose proof (irreducible_len p P IP) as LP. pose proof (len2_nonnil P LP) as NP.
  pose proof (pdiff_canon p Hp P) as CD.
  pose proof (pgcd_canon p Hp (pdiff p P) P CD CP) as CG.
  destruct (pgcd_divides_always p Hp (pdiff p P) P CD CP) as [D1 D2].
  destruct (irr_divisor p Hp P _ CP IP CG D2) as [H|H]; [lia|exfalso].
  assert (DP : divides P (pdiff p P)) by (eapply divides_trans; eassumption).
  pose proof (short_multiple_nil P _ CP CD (length_pdiff_lt p P NP) DP) as E.
  pose proof (pdiff_nil_in_Xp p Hp P CP E) as HX.
  destruct (proot_canon p Hp P CP NP HX) as [CR NR]. pose proof (proot_pow p Hp P HX) as EP.
  set (R := proot p P) in *.
  assert (K : deg R = 0 -> False).
  { intros H0. pose proof (len1_pwr R np ltac:(unfold deg in H0; lia)) as L1.
    assert (EP' : P = red p (pwr R np)).
    { apply (canon_unique p Hp); [assumption|apply canon_red; assumption|].
      eapply eqp_trans; [apply eqp_sym; exact EP|apply eqp_sym, eqp_red; assumption]. }
    pose proof (length_red_le p (pwr R np)). rewrite <- EP' in *. lia. }
  destruct np as [|[|k]] eqn:En; [lia|lia|].
  set (B := red p (pmulZ R (pwr R k))).
  assert (CB : canon B) by (apply canon_red; assumption).
  assert (E1 : eqp (pmulZ R B) P).
  { eapply eqp_trans; [apply eqp_mul; [apply eqp_refl|apply eqp_red; assumption]|]. exact EP. }
  destruct IP as [_ HI]. destruct (HI R B CR CB E1) as [H0|H0]; [exact (K H0)|].
  assert (NB : B <> []) by (intro E0; rewrite E0 in H0; cbn in H0; lia).
  assert (DR : divides R B) by (exists (pwr R k); apply eqp_sym, eqp_red; assumption).
  pose proof (divides_length_le p Hp R B CR CB NB DR) as LR.
  apply K. unfold deg in *. destruct R; [congruence|cbn [length] in *; lia]. Qed.

Lemma divides_psub_cong U a b : divides U (psub p a b) -> cong U a b.
Proof. intros D. apply cong_of_sub_nil. apply cong_nil_divides. eapply divides_eqp; [exact D|]. apply eqp_red; assumption. Qed.

(* the loop answers true when none of the gcds it computes has positive degree *)
Lemma irr_loop_complete P : canon P -> (2 <= length P)%nat -> forall m k, 0 <= k ->
  (forall j, 1 <= j <= Z.of_nat m -> deg (pgcd p (psub p (ppowmod p Xpoly (p ^ (k + j)) P) Xpoly) P) <= 0) ->
  irr_loop p m (ppowmod p Xpoly (p ^ k) P) P p = true.
Proof. intros CP LP. pose proof (canon_Xpoly p Hp) as CX. induction m as [|m IH]; intros k Hk H; [reflexivity|].
  cbn [irr_loop]. cbv zeta.
  rewrite <- (ppowmod_mul p Hp Xpoly P (p ^ k) p CX CP LP ltac:(apply Z.pow_nonneg; lia) ltac:(lia)).
  replace (p ^ k * p) with (p ^ (k + 1)) by (rewrite Z.pow_add_r, Z.pow_1_r by lia; reflexivity).
  destruct (Z.gtb_spec (deg (pgcd p (psub p (ppowmod p Xpoly (p ^ (k + 1)) P) Xpoly) P)) 0) as [G|G].
  - specialize (H 1 ltac:(lia)). lia.
  - apply IH; [lia|]. intros j Hj. replace (k + 1 + j) with (k + (j + 1)) by lia. apply H. lia. Qed.

(* round j of the loop on an irreducible P, 1 <= j < deg P: the gcd is constant *)
Lemma irr_round_const P j : canon P -> irreducible_def P -> 1 <= j < deg P ->
  deg (pgcd p (psub p (ppowmod p Xpoly (p ^ j) P) Xpoly) P) <= 0.
Proof. intros CP IP Hj. pose proof (irreducible_len p P IP) as LP. pose proof (len2_nonnil P LP) as NP.
  pose proof (canon_Xpoly p Hp) as CX.
  destruct (ppowmod_spec p Hp Xpoly P (p ^ j) CX CP LP ltac:(apply Z.pow_nonneg; lia)) as [_ [CW LW]].
  set (W := ppowmod p Xpoly (p ^ j) P) in *.
  pose proof (canon_psub p Hp W Xpoly) as CS.
  pose proof (pgcd_canon p Hp _ P CS CP) as CG.
  destruct (pgcd_divides_always p Hp _ P CS CP) as [D1 D2].
  destruct (irr_divisor p Hp P _ CP IP CG D2) as [H|H]; [lia|exfalso].
  assert (DP : divides P (psub p W Xpoly)) by (eapply divides_trans; eassumption).
  apply divides_psub_cong in DP.
  destruct (pdivmod_spec p Hp Xpoly P CX CP NP) as [_ [_ [CR LR]]].
  assert (E : W = pmod p Xpoly P).
  { apply (cong_unique p Hp P); try assumption. eapply cong_trans; [exact DP|]. apply cong_pmod; assumption. }
  pose proof (irr_divides_Xq_degree P j CP IP ltac:(lia) E). lia. Qed.

Theorem is_irreducible_complete P : canon P -> irreducible_def P -> is_irreducible p P p = true.
Proof. intros CP IP. pose proof (irreducible_len p P IP) as LP. unfold is_irreducible.
  destruct (Z.ltb_spec (deg P) 1) as [H|_]; [destruct IP; lia|]. cbv zeta.
  destruct (Z.gtb_spec (deg (pgcd p (pdiff p P) P)) 0) as [H|_]; [pose proof (irr_pdiff_coprime P CP IP); lia|].
  destruct (Nat.eq_dec (length P) 2) as [E2|N2].
  - replace (Z.to_nat (deg P / 2)) with 0%nat by (unfold deg; lia). reflexivity.
  - rewrite <- (Xpoly_is_pow0 p Hp P CP ltac:(lia)). apply irr_loop_complete; [assumption|assumption|lia|].
    intros j Hj. rewrite Z.add_0_l. apply irr_round_const; [assumption|assumption|]. unfold deg in *. lia. Qed.

Theorem is_irreducible_decides P : canon P -> (is_irreducible p P p = true <-> irreducible_def P).
Proof. intros CP. split; [apply (is_irreducible_sound p Hp); assumption|apply is_irreducible_complete; assumption]. Qed.

(* ================= R4: the distinct-degree fact ================= *)
(* a non-zero canonical polynomial all of whose irreducible divisors have degree d is, up to a constant, a product of
   irreducibles of degree d *)
Lemma factor_same_degree d : forall m G, (length G <= m)%nat -> canon G -> G <> [] ->
  (forall h, canon h -> irreducible_def h -> divides h G -> deg h = d) -> ddf_fact p G d.
Proof. induction m as [|m IH]; intros G Lm CG NG H. { destruct G; [congruence|cbn [length] in Lm; lia]. }
  destruct (Z.le_gt_cases 1 (deg G)) as [D|D].
  - destruct (exists_irr_divisor p Hp G CG D) as [h [Ch [Ih Dh]]].
    pose proof (irreducible_len p h Ih) as Lh. pose proof (len2_nonnil h Lh) as Nh.
    destruct (div_exact p Hp G h CG Ch Nh Dh) as [Ex CQ]. set (Q := pdiv p G h) in *.
    assert (NQ : Q <> []).
    { intro E0. rewrite E0 in Ex. apply NG. apply (canon_eqp_nil p Hp); [assumption|]. apply eqp_sym. eapply eqp_trans; [|exact Ex]. evr. }
    pose proof (canon_mul_length p Hp h Q G Ch CQ CG Nh NQ Ex) as LG.
    assert (DQ : divides Q G) by (exists h; eapply eqp_trans; [|exact Ex]; evr).
    destruct (IH Q ltac:(lia) CQ NQ) as [L [c [Hc [FL E]]]].
    { intros h' Ch' Ih' Dh'. apply H; try assumption. eapply divides_trans; eassumption. }
    exists (h :: L), c. split; [assumption|]. split.
    + constructor; [|assumption]. split; [assumption|]. split; [assumption|]. apply H; assumption.
    + apply eqp_trans with (pmulZ h (pscaleZ c (prodl L))); [evr|].
      eapply eqp_trans; [apply eqp_mul; [apply eqp_refl|exact E]|exact Ex].
  - assert (L1 : length G = 1%nat) by (unfold deg in D; destruct G; [congruence|cbn [length] in *; lia]).
    destruct (canon_len1 p G CG L1) as [c [-> Hc]]. exists [], c. split; [rewrite Z.mod_small; lia|]. split; [constructor|]. evr. Qed.

Section Round.
Variable P : poly.
Hypothesis CP : canon P.
Hypothesis LP : (2 <= length P)%nat.
Variable d : Z.
Hypothesis Hd : 1 <= d.
Let G1 := pgcd p (psub p (ppowmod p Xpoly (p ^ d) P) Xpoly) P.

(* every irreducible divisor of gcd(X^(p^d) - X mod P, P) has degree <= d *)
Lemma round_divisor_le h : canon h -> irreducible_def h -> divides h G1 -> divides h P /\ deg h <= d.
Proof. intros Ch Ih Dh. pose proof (irreducible_len p h Ih) as Lh. pose proof (len2_nonnil h Lh) as Nh.
  pose proof (canon_Xpoly p Hp) as CX.
  assert (Hq : 0 <= p ^ d) by (apply Z.pow_nonneg; lia).
  destruct (ppowmod_spec p Hp Xpoly P (p ^ d) CX CP LP Hq) as [HW [CW LW]].
  set (W := ppowmod p Xpoly (p ^ d) P) in *.
  pose proof (canon_psub p Hp W Xpoly) as CS.
  destruct (pgcd_divides_always p Hp _ P CS CP) as [D1 D2]. fold G1 in D1, D2.
  assert (DhP : divides h P) by exact (divides_trans p h G1 P Dh D2). split; [assumption|].
  assert (DhS : divides h (psub p W Xpoly)) by exact (divides_trans p h G1 _ Dh D1).
  apply divides_psub_cong in DhS.
  destruct (pdivmod_spec p Hp Xpoly h CX Ch Nh) as [_ [_ [CR LR]]].
  apply (irr_divides_Xq_degree h d Ch Ih Hd).
  apply (ppowmod_char p Hp); try assumption. apply cong_sym.
  eapply cong_trans; [apply (cong_divides p h P _ _ DhP HW)|].
  eapply cong_trans; [exact DhS|]. apply cong_pmod; assumption. Qed.

(* every irreducible divisor of degree d of P divides it *)
Lemma round_collects h : canon h -> irreducible_def h -> divides h P -> deg h = d -> divides h G1.
Proof. intros Ch Ih Dh Eh. pose proof (irreducible_divides_frob p Hp h P Ch Ih CP LP Dh) as D1. rewrite Eh in D1.
  apply (pgcd_greatest p Hp); try assumption. apply canon_psub; assumption. Qed.

Lemma round_G1_canon : canon G1 /\ G1 <> [] /\ divides G1 P.
Proof. pose proof (canon_psub p Hp (ppowmod p Xpoly (p ^ d) P) Xpoly) as CS. split; [apply pgcd_canon; assumption|].
  split; [apply pgcd_nonnil; right; apply len2_nonnil; assumption|]. apply (pgcd_divides_always p Hp _ P CS CP). Qed.

(* the distinct-degree fact for one round *)
Theorem round_fact : (forall h, canon h -> irreducible_def h -> divides h P -> d <= deg h) -> ddf_fact p G1 d.
Proof. intros H. destruct round_G1_canon as [CG [NG _]].
  apply (factor_same_degree d (length G1)); try assumption; [lia|].
  intros h Ch Ih Dh. destruct (round_divisor_le h Ch Ih Dh) as [DhP Le]. pose proof (H h Ch Ih DhP). lia. Qed.

End Round.

(* ================= R5: the hypothesis ddf_hyp of ProofsFactors.v holds for every square-free polynomial ================= *)
(* a square-free polynomial is not divisible by the square of an irreducible *)
Lemma sqfree_no_square f h : canon f -> f <> [] -> sqfree_h p f -> canon h -> irreducible_def h ->
  divides (pmulZ h h) f -> False.
Proof. intros Cf Nf Sf Ch Ih [t Ht]. pose proof (irreducible_len p h Ih) as Lh.
  assert (E : eqp f (pmulZ h (pmulZ h t))) by (apply eqp_sym; eapply eqp_trans; [|exact Ht]; evr).
  pose proof (pdiff_mul_gen p Hp f h (pmulZ h t) E) as E'.
  assert (D1 : divides h f) by (exists (pmulZ h t); apply eqp_sym; exact E).
  assert (D2 : divides h (pdiff p f)).
  { exists (paddZ (pmulZ (pdiff p h) t) (pdiff p (pmulZ h t))). eapply eqp_trans; [|apply eqp_sym; exact E']. evr. }
  pose proof (pdiff_canon p Hp f) as Cd.
  pose proof (pgcd_greatest p Hp f (pdiff p f) h Cf Cd Ch D1 D2) as D.
  pose proof (pgcd_canon p Hp f (pdiff p f) Cf Cd) as CG. pose proof (pgcd_nonnil p f (pdiff p f) (or_introl Nf)) as NG.
  pose proof (divides_length_le p Hp h _ Ch CG NG D) as L. unfold sqfree_h, deg in Sf. lia. Qed.

Lemma pgcd_const_r S P : deg P = 0 -> pgcd p S P = P.
Proof. intros H. unfold pgcd. cbv zeta. rewrite H. rewrite Z.eqb_refl, orb_true_r. reflexivity. Qed.
Lemma ddf_trace_const P MOD : deg P = 0 -> forall m dp W, ddf_trace p m dp W P MOD = ([], P).
Proof. intros H. induction m as [|m IH]; intros dp W; cbn [ddf_trace]; [reflexivity|]. cbv zeta.
  rewrite pgcd_const_r by assumption. rewrite H. change (0 >? 0) with false. cbv iota. apply IH. Qed.

Lemma const_no_irr_divisor P h : canon P -> deg P = 0 -> canon h -> irreducible_def h -> divides h P -> False.
Proof. intros CP H Ch Ih D. destruct (canon_len1 p P CP (deg0_len1 P H)) as [c [-> Hc]].
  pose proof (divides_const_is_const p Hp h c Ch Hc D) as L. pose proof (irreducible_len p h Ih). lia. Qed.

Section Trace.
Variable f : poly.
Hypothesis Cf : canon f.
Hypothesis Nf : f <> [].
Hypothesis Sf : sqfree_h p f.

Lemma ddf_trace_ok : forall m dp W P, 1 <= dp -> canon P -> P <> [] -> divides P f -> canon W ->
  cong P W (pwr Xpoly (Z.to_nat (p ^ (dp - 1)))) ->
  (forall h, canon h -> irreducible_def h -> divides h P -> dp <= deg h) ->
  trace_ok p (fst (ddf_trace p m dp W P p)) /\ canon (snd (ddf_trace p m dp W P p)) /\
  snd (ddf_trace p m dp W P p) <> [] /\ divides (snd (ddf_trace p m dp W P p)) f /\
  (forall h, canon h -> irreducible_def h -> divides h (snd (ddf_trace p m dp W P p)) -> dp + Z.of_nat m <= deg h).
Proof. pose proof (canon_Xpoly p Hp) as CX.
  induction m as [|m IH]; intros dp W P Hdp CP NP DP CW HW HP.
  { cbn [ddf_trace fst snd]. split; [constructor|]. split; [assumption|]. split; [assumption|]. split; [assumption|].
    intros h Ch Ih Dh. pose proof (HP h Ch Ih Dh). lia. }
  destruct (Nat.eq_dec (length P) 1) as [E1|N1].
  { assert (H0 : deg P = 0) by (unfold deg; lia). rewrite (ddf_trace_const P p H0). cbn [fst snd].
    split; [constructor|]. split; [assumption|]. split; [assumption|]. split; [assumption|].
    intros h Ch Ih Dh. exfalso. exact (const_no_irr_divisor P h CP H0 Ch Ih Dh). }
  assert (LP : (2 <= length P)%nat) by (destruct P; [congruence|cbn [length] in *; lia]).
  assert (Hq : 0 <= p ^ dp) by (apply Z.pow_nonneg; lia).
  assert (Ea : Z.to_nat (p ^ dp) = (Z.to_nat (p ^ (dp - 1)) * np)%nat).
  { replace (p ^ dp) with (p * p ^ (dp - 1)) by (rewrite <- Z.pow_succ_r by lia; f_equal; lia).
    rewrite Z2Nat.inj_mul; [apply Nat.mul_comm|lia|apply Z.pow_nonneg; lia]. }
  assert (EW : ppowmod p W p P = ppowmod p Xpoly (p ^ dp) P).
  { destruct (ppowmod_spec p Hp W P p CW CP LP ltac:(lia)) as [H1 [C1 L1]]. symmetry.
    apply (ppowmod_char p Hp); try assumption. apply cong_sym. eapply cong_trans; [|exact H1].
    apply cong_eqp_l with (pwr (pwr Xpoly (Z.to_nat (p ^ (dp - 1)))) np).
    { apply eqp_ev. intros x. rewrite Ea. symmetry. apply ev_pwr_mul. }
    apply cong_pwr. apply cong_sym. exact HW. }
  cbn [ddf_trace]. cbv zeta. rewrite EW.
  destruct (ppowmod_spec p Hp Xpoly P (p ^ dp) CX CP LP Hq) as [HW' [CW' LW']].
  set (W' := ppowmod p Xpoly (p ^ dp) P) in *.
  destruct (round_G1_canon P CP LP dp) as [CG [NG DG]].
  pose proof (round_fact P CP LP dp Hdp HP) as FG.
  pose proof (round_collects P CP LP dp) as Coll.
  set (G1 := pgcd p (psub p W' Xpoly) P) in *.
  assert (HW2 : forall Q, divides Q P -> cong Q W' (pwr Xpoly (Z.to_nat (p ^ (dp + 1 - 1))))).
  { intros Q DQ. replace (dp + 1 - 1) with dp by lia. apply cong_sym. apply (cong_divides p Q P _ _ DQ HW'). }
  destruct (Z.gtb_spec (deg G1) 0) as [G|G].
  - destruct (div_exact p Hp P G1 CP CG NG DG) as [Ex CQ]. set (Q := pdiv p P G1) in *.
    assert (NQ : Q <> []).
    { intro E0. rewrite E0 in Ex. apply NP. apply (canon_eqp_nil p Hp); [assumption|]. apply eqp_sym. eapply eqp_trans; [|exact Ex]. evr. }
    assert (DQ : divides Q P) by (exists G1; eapply eqp_trans; [|exact Ex]; evr).
    destruct (IH (dp + 1) W' Q ltac:(lia) CQ NQ (divides_trans p Q P f DQ DP) CW' (HW2 Q DQ)) as [T [C [N [D H]]]].
    { intros h Ch Ih Dh. pose proof (HP h Ch Ih (divides_trans p h Q P Dh DQ)) as Ge.
      destruct (Z.eq_dec (deg h) dp) as [Eh|Nh]; [exfalso|lia].
      pose proof (Coll h Ch Ih (divides_trans p h Q P Dh DQ) Eh) as [u Hu]. destruct Dh as [v Hv].
      apply (sqfree_no_square f h Cf Nf Sf Ch Ih). eapply divides_trans; [|exact DP].
      exists (pmulZ u v). eapply eqp_trans; [|exact Ex].
      eapply eqp_trans; [|apply eqp_mul; [exact Hu|exact Hv]]. evr. }
    cbn [fst snd]. split; [constructor; [exact FG|exact T]|]. split; [assumption|]. split; [assumption|]. split; [assumption|].
    intros h Ch Ih Dh. pose proof (H h Ch Ih Dh). lia.
  - destruct (IH (dp + 1) W' P ltac:(lia) CP NP DP CW' (HW2 P (divides_refl p P))) as [T [C [N [D H]]]].
    { intros h Ch Ih Dh. pose proof (HP h Ch Ih Dh) as Ge.
      destruct (Z.eq_dec (deg h) dp) as [Eh|Nh]; [exfalso|lia].
      pose proof (Coll h Ch Ih Dh Eh) as Dg. pose proof (divides_length_le p Hp h G1 Ch CG NG Dg).
      pose proof (irreducible_len p h Ih). unfold deg in G. lia. }
    split; [assumption|]. split; [assumption|]. split; [assumption|]. split; [assumption|].
    intros h Ch Ih Dh. pose proof (H h Ch Ih Dh). lia. Qed.

Theorem ddf_hyp_squarefree : ddf_hyp p f p.
Proof. pose proof (canon_Xpoly p Hp) as CX. unfold ddf_hyp. cbv zeta.
  set (m := Z.to_nat (deg f / 2)).
  destruct (ddf_trace_ok m 1 Xpoly f ltac:(lia) Cf Nf (divides_refl p f) CX) as [T [CR [NR [DR HR]]]].
  { change (1 - 1) with 0. rewrite Z.pow_0_r. change (Z.to_nat 1) with 1%nat. cbn [pwr]. apply cong_of_eqp. evr. }
  { intros h Ch [Ih _] _. exact Ih. }
  split; [exact T|]. set (R := snd (ddf_trace p m 1 Xpoly f p)) in *. intros HdR.
  split; [lia|]. intros A B CA CB E.
  destruct (Z.eq_dec (deg A) 0) as [|NA0]; [left; assumption|]. destruct (Z.eq_dec (deg B) 0) as [|NB0]; [right; assumption|]. exfalso.
  assert (NA : A <> []) by (intro; subst; apply NR; exact (canon_mul_nil_l p Hp B R CR E)).
  assert (E' : eqp (pmulZ B A) R) by (eapply eqp_trans; [|exact E]; evr).
  assert (NB : B <> []) by (intro; subst; apply NR; exact (canon_mul_nil_l p Hp A R CR E')).
  pose proof (canon_mul_length p Hp A B R CA CB CR NA NB E) as LR.
  assert (DA : 1 <= deg A) by (unfold deg in *; destruct A; [congruence|cbn [length] in *; lia]).
  assert (DB : 1 <= deg B) by (unfold deg in *; destruct B; [congruence|cbn [length] in *; lia]).
  destruct (exists_irr_divisor p Hp A CA DA) as [hA [ChA [IhA DhA]]].
  destruct (exists_irr_divisor p Hp B CB DB) as [hB [ChB [IhB DhB]]].
  pose proof (HR hA ChA IhA (divides_trans p hA A R DhA (ex_intro _ B E))) as GA.
  pose proof (HR hB ChB IhB (divides_trans p hB B R DhB (ex_intro _ A E'))) as GB.
  pose proof (divides_length_le p Hp hA A ChA CA NA DhA) as LA.
  pose proof (divides_length_le p Hp hB B ChB CB NB DhB) as LB.
  pose proof (divides_length_le p Hp R f CR Cf Nf DR) as LRf.
  assert (0 <= deg f) by (unfold deg; destruct f; [congruence|cbn [length]; lia]).
  unfold m, deg in *. lia. Qed.

End Trace.

(* ---- consequences for the factorisation code: on a square-free input every factor DistinctDegreeFactor appends is
   irreducible (no hypothesis left), and CZfactor returns only irreducibles as soon as the parts of sqrfree are square-free *)
Theorem ddf_irreducible_squarefree f L s L' s' : canon f -> f <> [] -> sqfree_h p f -> ddf p f p L s = Some (L', s') ->
  exists N, L' = L ++ N /\ Forall (fun g => canon g /\ irreducible_def g) N /\ pairwise_nonassoc p N.
Proof. intros Cf Nf Sf H.
  destruct (ddf_irreducible p Hp f p L s L' s' Cf (ddf_hyp_squarefree f Cf Nf Sf) H) as [N [E FN]].
  destruct (ddf_nonassoc p Hp f p L s L' s' Cf Nf Sf H) as [N' [E' PN]].
  assert (N' = N) by (apply (app_inv_head L); congruence). subst N'. exists N. auto. Qed.

Theorem czfactor_rep_irreducible_squarefree P s Lf Le s' : canon P -> P <> [] ->
  czfactor_rep p P p s = Some (Lf, Le, s') -> Forall (sqfree_h p) (cz_parts p P) ->
  Forall (fun f => canon f /\ irreducible_def f) Lf.
Proof. intros CP NP H HS. apply (czfactor_rep_irreducible p Hp P p s Lf Le s' H).
  pose proof (cz_parts_canon p Hp P) as HC. pose proof (cz_parts_nonnil p Hp P CP NP) as HN.
  rewrite Forall_forall in *. intros g Hg. apply ddf_hyp_squarefree; auto. Qed.

End P.

(* ================= closed statements ================= *)
(* R1, general form.  f = [c_0; ...; c_m] : list poly is c_0 + c_1 T + ... + c_m T^m;  evT f a  is its value at T := a
   computed by Horner in Z[X] (no reduction); a is a root when the value vanishes modulo (p, F).  A polynomial of degree m
   whose leading coefficient does not vanish modulo (p, F) has at most m distinct roots among the residues modulo F. *)
Definition Roots_bound_stmt : Prop := forall p, prime p -> forall F, canon p F -> irreducible_def p F ->
  forall m (f : list poly), length f = S m -> ~ cong p F (last f []) [] ->
  forall L, NoDup L -> (forall a, In a L -> canon p a /\ (length a < length F)%nat /\ cong p F (evT f a) []) ->
  (length L <= m)%nat.
Lemma roots_bound_thm : Roots_bound_stmt.
Proof. intros p Hp F CF IF. exact (roots_bound p Hp F CF IF). Qed.

(* R1 for T^(p^i) - T, through Poly1Dom::powmod.  The exponent must satisfy 1 <= i: for i = 0 the map is the identity and
   all p^deg F residues are fixed (see fixed_points_bound_i0_refuted). *)
Definition Fixed_points_bound_stmt : Prop := forall p, prime p -> forall F i, canon p F -> (2 <= length F)%nat ->
  irreducible_def p F -> 1 <= i -> forall L, NoDup L ->
  (forall a, In a L -> canon p a /\ (length a < length F)%nat /\ ppowmod p a (p ^ i) F = pmod p a F) ->
  Z.of_nat (length L) <= p ^ i.
Lemma fixed_points_bound_thm : Fixed_points_bound_stmt.
Proof. intros p Hp F i CF _ IF Hi L ND HL. exact (fixed_points_bound p Hp F CF IF i L Hi ND HL). Qed.

(* Frobenius iterated:  B^(p^d) = B(X^(p^d))  in GF(p)[X]  (comp B Y = B(Y) by Horner, no reduction) *)
Definition Frobenius_iter_stmt : Prop := forall p, prime p -> forall B d,
  eqp p (pwr B (Z.to_nat p ^ d)) (comp B (pwr Xpoly (Z.to_nat p ^ d))).
Lemma frobenius_iter_thm : Frobenius_iter_stmt.
Proof. exact frobenius_iter. Qed.

(* R2: an irreducible g dividing X^(p^d) - X has degree <= d  (1 <= d; for d = 0 the hypothesis always holds) *)
Definition Irr_divides_Xq_degree_stmt : Prop := forall p, prime p -> forall g d, canon p g -> irreducible_def p g -> 1 <= d ->
  ppowmod p Xpoly (p ^ d) g = pmod p Xpoly g -> deg g <= d.
Lemma irr_divides_Xq_degree_thm : Irr_divides_Xq_degree_stmt.
Proof. exact irr_divides_Xq_degree. Qed.

(* R3: the implemented test accepts every irreducible polynomial, hence (with ProofsIrrSound.v) decides irreducibility *)
Definition Is_irreducible_complete_stmt : Prop := forall p, prime p -> forall P, canon p P -> irreducible_def p P ->
  is_irreducible p P p = true.
Lemma is_irreducible_complete_thm : Is_irreducible_complete_stmt.
Proof. exact is_irreducible_complete. Qed.
Definition Is_irreducible_decides_stmt : Prop := forall p, prime p -> forall P, canon p P ->
  (is_irreducible p P p = true <-> irreducible_def p P).
Lemma is_irreducible_decides_thm : Is_irreducible_decides_stmt.
Proof. exact is_irreducible_decides. Qed.
(* an irreducible polynomial is coprime to its derivative, as Poly1Dom::gcd computes it *)
Definition Irr_pdiff_coprime_stmt : Prop := forall p, prime p -> forall P, canon p P -> irreducible_def p P ->
  deg (pgcd p (pdiff p P) P) <= 0.
Lemma irr_pdiff_coprime_thm : Irr_pdiff_coprime_stmt.
Proof. exact irr_pdiff_coprime. Qed.

(* R4: a non-zero polynomial all of whose irreducible divisors have degree d is c * (product of irreducibles of degree d) *)
Definition Factor_same_degree_stmt : Prop := forall p, prime p -> forall d G, canon p G -> G <> [] ->
  (forall h, canon p h -> irreducible_def p h -> divides p h G -> deg h = d) -> ddf_fact p G d.
Lemma factor_same_degree_thm : Factor_same_degree_stmt.
Proof. intros p Hp d G CG NG H. exact (factor_same_degree p Hp d (length G) G (le_n _) CG NG H). Qed.

(* R4: one round of DistinctDegreeFactor.  G1 = gcd(X^(p^d) - X mod P, P).  If no irreducible divisor of P has degree < d
   then G1 is, up to a constant, a product of irreducibles of degree exactly d; and (without that hypothesis) G1 collects
   every irreducible divisor of degree d of P, and each irreducible divisor of G1 has degree <= d. *)
Definition Ddf_round_stmt : Prop := forall p, prime p -> forall P d, canon p P -> (2 <= length P)%nat -> 1 <= d ->
  let G1 := pgcd p (psub p (ppowmod p Xpoly (p ^ d) P) Xpoly) P in
  ((forall h, canon p h -> irreducible_def p h -> divides p h P -> d <= deg h) -> ddf_fact p G1 d) /\
  (forall h, canon p h -> irreducible_def p h -> divides p h P -> deg h = d -> divides p h G1) /\
  (forall h, canon p h -> irreducible_def p h -> divides p h G1 -> divides p h P /\ deg h <= d).
Lemma ddf_round_thm : Ddf_round_stmt.
Proof. intros p Hp P d CP LP Hd G1. split; [|split].
  - exact (round_fact p Hp P CP LP d Hd).
  - exact (round_collects p Hp P CP LP d).
  - exact (round_divisor_le p Hp P CP LP d Hd). Qed.

(* R5: the explicit hypothesis ddf_hyp of ProofsFactors.v (F2/F3) holds for EVERY non-zero square-free polynomial:
   sqfree_h p f = deg (pgcd p f (pdiff p f)) <= 0 *)
Definition Ddf_hyp_squarefree_stmt : Prop := forall p, prime p -> forall f, canon p f -> f <> [] -> sqfree_h p f ->
  ddf_hyp p f p.
Lemma ddf_hyp_squarefree_thm : Ddf_hyp_squarefree_stmt.
Proof. exact ddf_hyp_squarefree. Qed.

(* ... so DistinctDegreeFactor on a square-free input appends only irreducible, pairwise non-associate factors, for every
   stream of random choices; and CZfactor (repaired sqrfree) returns only irreducibles when the parts are square-free *)
Definition Ddf_irreducible_squarefree_stmt : Prop := forall p, prime p -> forall f L s L' s', canon p f -> f <> [] ->
  sqfree_h p f -> ddf p f p L s = Some (L', s') ->
  exists N, L' = L ++ N /\ Forall (fun g => canon p g /\ irreducible_def p g) N /\ pairwise_nonassoc p N.
Lemma ddf_irreducible_squarefree_thm : Ddf_irreducible_squarefree_stmt.
Proof. exact ddf_irreducible_squarefree. Qed.
Definition Czfactor_rep_irreducible_squarefree_stmt : Prop := forall p, prime p -> forall P s Lf Le s', canon p P -> P <> [] ->
  czfactor_rep p P p s = Some (Lf, Le, s') -> Forall (sqfree_h p) (cz_parts p P) ->
  Forall (fun f => canon p f /\ irreducible_def p f) Lf.
Lemma czfactor_rep_irreducible_squarefree_thm : Czfactor_rep_irreducible_squarefree_stmt.
Proof. exact czfactor_rep_irreducible_squarefree. Qed.

(* ================= the hypotheses are satisfiable; the excluded exponents really fail ================= *)
Lemma canon_2_1 : canon 2 [1]. Proof. canon_lit. Qed.
Lemma canon_2_111 : canon 2 [1; 1; 1]. Proof. canon_lit. Qed.

(* GF(4) = GF(2)[X]/(X^2+X+1): the roots of T^2 - T are 0 and 1 *)
Example roots_bound_example : prime 2 /\ canon 2 [1; 1; 1] /\ irreducible_def 2 [1; 1; 1] /\
  length (fixpoly 2) = 3%nat /\ ~ cong 2 [1; 1; 1] (last (fixpoly 2) []) [] /\ NoDup [[]; [1]] /\
  (forall a, In a [[]; [1]] -> canon 2 a /\ (length a < length [1; 1; 1])%nat /\ cong 2 [1; 1; 1] (evT (fixpoly 2) a) []).
Proof. split; [exact prime_2|]. split; [exact canon_2_111|]. split; [exact irr_2_111|]. split; [reflexivity|].
  split; [rewrite fixpoly_last; apply (one_not_zero 2 prime_2 _ canon_2_111 irr_2_111)|].
  split; [repeat constructor; cbn [In]; intuition discriminate|].
  intros a [<-|[<-|[]]]; (split; [first [apply canon_nil|exact canon_2_1]|]); (split; [cbn [length]; lia|]);
    apply cong_of_eqp; apply eqp_ev; intros x; cbn [fixpoly Nat.sub repeat app evT paddZ pmulZ pscaleZ map ev]; ring. Qed.

(* squaring in GF(4) fixes exactly 0 and 1: 2 <= 2^1 *)
Example fixed_points_bound_example : prime 2 /\ canon 2 [1; 1; 1] /\ (2 <= length [1; 1; 1])%nat /\
  irreducible_def 2 [1; 1; 1] /\ 1 <= 1 /\ NoDup [[]; [1]] /\
  (forall a, In a [[]; [1]] -> canon 2 a /\ (length a < length [1; 1; 1])%nat /\
     ppowmod 2 a (2 ^ 1) [1; 1; 1] = pmod 2 a [1; 1; 1]) /\
  ppowmod 2 [0; 1] (2 ^ 1) [1; 1; 1] <> pmod 2 [0; 1] [1; 1; 1].
Proof. split; [exact prime_2|]. split; [exact canon_2_111|]. split; [cbn; lia|]. split; [exact irr_2_111|]. split; [lia|].
  split; [repeat constructor; cbn [In]; intuition discriminate|]. split; [|vm_compute; discriminate].
  intros a [<-|[<-|[]]]; (split; [first [apply canon_nil|exact canon_2_1]|]); (split; [cbn [length]; lia|]); vm_compute; reflexivity. Qed.

(* with 0 <= i instead of 1 <= i the bound is FALSE: i = 0, GF(4), the two residues 0 and 1 (all four are fixed) *)
Lemma fixed_points_bound_i0_refuted : ~ (forall p, prime p -> forall F i, canon p F -> (2 <= length F)%nat ->
  irreducible_def p F -> 0 <= i -> forall L, NoDup L ->
  (forall a, In a L -> canon p a /\ (length a < length F)%nat /\ ppowmod p a (p ^ i) F = pmod p a F) ->
  Z.of_nat (length L) <= p ^ i).
Proof. intros H.
  specialize (H 2 prime_2 [1; 1; 1] 0 canon_2_111 ltac:(cbn; lia) irr_2_111 ltac:(lia) [[]; [1]]).
  assert (ND : NoDup [[]; [1]]) by (repeat constructor; cbn [In]; intuition discriminate).
  specialize (H ND). cbn [length] in H. change (2 ^ 0) with 1 in H. enough (Z.of_nat 2 <= 1) by lia. apply H.
  intros a [<-|[<-|[]]]; (split; [first [apply canon_nil|exact canon_2_1]|]); (split; [cbn [length]; lia|]); vm_compute; reflexivity. Qed.

(* X^2 + X + 1 over GF(2) divides X^4 - X: degree 2 <= 2; it does not divide X^2 - X *)
Example irr_divides_Xq_degree_example : prime 2 /\ canon 2 [1; 1; 1] /\ irreducible_def 2 [1; 1; 1] /\ 1 <= 2 /\
  ppowmod 2 Xpoly (2 ^ 2) [1; 1; 1] = pmod 2 Xpoly [1; 1; 1] /\ deg [1; 1; 1] = 2 /\
  ppowmod 2 Xpoly (2 ^ 1) [1; 1; 1] <> pmod 2 Xpoly [1; 1; 1].
Proof. split; [exact prime_2|]. split; [exact canon_2_111|]. split; [exact irr_2_111|]. split; [lia|].
  split; [vm_compute; reflexivity|]. split; [reflexivity|vm_compute; discriminate]. Qed.
(* with 0 <= d the statement is FALSE: X^(p^0) = X modulo anything *)
Lemma irr_divides_Xq_degree_d0_refuted : ~ (forall p, prime p -> forall g d, canon p g -> irreducible_def p g -> 0 <= d ->
  ppowmod p Xpoly (p ^ d) g = pmod p Xpoly g -> deg g <= d).
Proof. intros H. specialize (H 2 prime_2 [1; 1; 1] 0 canon_2_111 irr_2_111 ltac:(lia) ltac:(vm_compute; reflexivity)).
  change (deg [1; 1; 1]) with 2 in H. lia. Qed.

(* X^2 + 1 is irreducible over GF(3) and accepted; X^2 + 2 = (X+1)(X+2) is rejected *)
Example is_irreducible_complete_example : prime 3 /\ canon 3 [1; 0; 1] /\ irreducible_def 3 [1; 0; 1] /\
  is_irreducible 3 [1; 0; 1] 3 = true /\ canon 3 [2; 0; 1] /\ is_irreducible 3 [2; 0; 1] 3 = false /\
  deg (pgcd 3 (pdiff 3 [1; 0; 1]) [1; 0; 1]) = 0.
Proof. split; [exact prime_3_lag|]. split; [canon_lit|]. split; [exact irr_3_101|]. split; [vm_compute; reflexivity|].
  split; [canon_lit|]. split; vm_compute; reflexivity. Qed.

(* f = (X + 1)(X^2 + 1) over GF(3): square-free; round d = 1 extracts 2 (X + 1) *)
Example ddf_round_example : prime 3 /\ canon 3 [1; 1; 1; 1] /\ (2 <= length [1; 1; 1; 1])%nat /\ 1 <= 1 /\
  (forall h, canon 3 h -> irreducible_def 3 h -> divides 3 h [1; 1; 1; 1] -> 1 <= deg h) /\
  pgcd 3 (psub 3 (ppowmod 3 Xpoly (3 ^ 1) [1; 1; 1; 1]) Xpoly) [1; 1; 1; 1] = [2; 2].
Proof. split; [exact prime_3_lag|]. split; [canon_lit|]. split; [cbn; lia|]. split; [lia|].
  split; [intros h _ [H _] _; exact H|vm_compute; reflexivity]. Qed.
Example factor_same_degree_example : prime 3 /\ canon 3 [2; 2] /\ [2; 2] <> [] /\ ddf_fact 3 [2; 2] 1.
Proof. split; [exact prime_3_lag|]. split; [canon_lit|]. split; [discriminate|].
  apply (ddf_fact_intro 3 prime_3_lag _ _ [[1; 1]] 2); [vm_compute; discriminate| |vm_compute; reflexivity].
  constructor; [|constructor]. apply (irr_deg_intro 3 prime_3_lag); [canon_lit|vm_compute; reflexivity|reflexivity]. Qed.

Example ddf_hyp_squarefree_example : prime 3 /\ canon 3 [1; 1; 1; 1] /\ [1; 1; 1; 1] <> [] /\ sqfree_h 3 [1; 1; 1; 1] /\
  ddf_trace 3 1 1 Xpoly [1; 1; 1; 1] 3 = ([(1, [2; 2])], [2; 0; 2]) /\
  ddf 3 [1; 1; 1; 1] 3 [] [1; 2; 0] = Some ([[2; 2]; [2; 0; 2]], [1; 2; 0]).
Proof. split; [exact prime_3_lag|]. split; [canon_lit|]. split; [discriminate|].
  split; [unfold sqfree_h; vm_compute; discriminate|]. split; vm_compute; reflexivity. Qed.

(* P = X (X + 2) (X + 1)^2 (X^2 + 1) over GF(3): the parts X (X + 2)(X^2 + 1) and X + 1 are square-free *)
Example czfactor_rep_irreducible_squarefree_example : prime 3 /\ canon 3 [0; 2; 2; 0; 0; 1; 1] /\ [0; 2; 2; 0; 0; 1; 1] <> [] /\
  Forall (sqfree_h 3) (cz_parts 3 [0; 2; 2; 0; 0; 1; 1]) /\
  czfactor_rep 3 [0; 2; 2; 0; 0; 1; 1] 3 [1; 2; 1; 1; 2; 0; 1; 1; 2; 0; 2; 1] =
    Some ([[2; 1]; [0; 2]; [2; 0; 2]; [1; 1]], [1; 1; 1; 2], [1; 1; 2; 0; 1; 1; 2; 0; 2; 1]).
Proof. split; [exact prime_3_lag|]. split; [canon_lit|]. split; [discriminate|].
  split; [apply sqfree_h_of_bool; vm_compute; reflexivity|vm_compute; reflexivity]. Qed.
