(* C09 proofs, part 3: every splitting step preserves the product, for every stream of random choices. *)
From Coq Require Import ZArith List Bool Lia Znumtheory.
From C09 Require Import Model ProofsAlg ProofsDiv.
Import ListNotations.
Local Open Scope Z_scope.

Definition prodl (L : list poly) : poly := fold_right pmulZ [1] L.

Lemma ev_prodl_app a b x : ev (prodl (a ++ b)) x = ev (prodl a) x * ev (prodl b) x.
Proof. unfold prodl. induction a as [|c a IH]; cbn [app fold_right]. { cbn [ev]. ring. }
  rewrite !ev_pmulZ, IH. ring. Qed.

Section P.
Variable p : Z.
Hypothesis Hp : prime p.
Notation eqp := (eqp p).
Notation canon := (canon p).
Notation divides := (divides p).

(* ---- random polynomials are canonical after setdegree *)
Lemma nonzero_rand_range : forall s l s1, nonzero_rand p s = Some (l, s1) -> 0 <= l < p.
Proof. induction s as [|x s IH]; intros l s1 H; cbn [nonzero_rand] in H; [discriminate|].
  destruct (x mod p =? 0); [eauto|]. inversion H; subst. apply Z.mod_pos_bound. destruct Hp; lia. Qed.
Lemma rand_coefs_range : forall n s acc P s', rand_coefs p n s acc = Some (P, s') ->
  Forall (fun c => 0 <= c < p) acc -> Forall (fun c => 0 <= c < p) P.
Proof. induction n as [|n IH]; intros s acc P s' H Ha; cbn [rand_coefs] in H. { inversion H; subst; assumption. }
  destruct s as [|x s]; [discriminate|]. eapply IH; [exact H|]. constructor; [|assumption].
  apply Z.mod_pos_bound. destruct Hp; lia. Qed.
Lemma random_poly_canon d s G2 s1 : random_poly p d s = Some (G2, s1) -> canon (norm G2).
Proof. unfold random_poly. destruct (nonzero_rand p s) as [[l s0]|] eqn:E; [|discriminate]. intros H.
  split; [|apply norm_last]. apply norm_Forall. eapply rand_coefs_range; [exact H|].
  constructor; [|constructor]. eapply nonzero_rand_range; eassumption. Qed.

Lemma canon_psub a b : canon (psub p a b). Proof. apply canon_red; assumption. Qed.

(* ---- the two recursive calls on (D, G/D) *)
Definition split_ok (G : poly) (L L' : list poly) : Prop :=
  exists N, L' = L ++ N /\ eqp (prodl N) G /\ Forall canon N.

Lemma split_ok_two G D L L1 L2 : canon G -> canon D -> D <> [] -> divides D G ->
  split_ok D L L1 -> split_ok (pdiv p G D) L1 L2 -> split_ok G L L2.
Proof. intros CG CD HD Hd [N1 [E1 [P1 F1]]] [N2 [E2 [P2 F2]]].
  exists (N1 ++ N2). split; [subst; rewrite app_assoc; reflexivity|]. split; [|apply Forall_app; auto].
  destruct (div_exact p Hp G D CG CD HD Hd) as [Ex _].
  eapply eqp_trans; [|exact Ex]. eapply eqp_trans; [|apply eqp_mul; [exact P1|exact P2]].
  apply eqp_ev. intros x. rewrite ev_prodl_app, ev_pmulZ. reflexivity. Qed.

Lemma split_eq f G d MOD L s : split p (S f) G d MOD L s =
    let dG := deg G in
    if dG =? d then Some (L ++ [G], s)
    else match random_poly p (Z.to_nat (dG - 1)) s with
         | None => None
         | Some (G2, s1) =>
           let G1 := pgcd p G (norm G2) in
           let dG1 := deg G1 in
           if negb (dG1 =? dG) then
             if dG1 >? 0 then
               match split p f G1 d MOD L s1 with
               | None => None
               | Some (L1, s2) => split p f (pdiv p G G1) d MOD L1 s2
               end
             else
               let pp := (MOD ^ d - 1) / 2 in
               let tp := ppowmod p (norm G2) pp G in
               let G1' := pgcd p G (psub p tp pone) in
               let dG1' := deg G1' in
               if negb (dG1' =? dG) && (dG1' >? 0) then
                 match split p f G1' d MOD L s1 with
                 | None => None
                 | Some (L1, s2) => split p f (pdiv p G G1') d MOD L1 s2
                 end
               else split p f G d MOD L s1
           else split p f G d MOD L s1
         end.
Proof. reflexivity. Qed.

Theorem split_spec : forall fuel G d MOD L s L' s', canon G ->
  split p fuel G d MOD L s = Some (L', s') -> split_ok G L L'.
Proof. induction fuel as [|f IH]; intros G d MOD L s L' s' CG H; [discriminate|].
  rewrite split_eq in H. cbv zeta in H.
  destruct (deg G =? d).
  { inversion H; subst. exists [G]. split; [reflexivity|]. split; [|constructor; [assumption|constructor]].
    apply eqp_ev. intros x. unfold prodl. cbn [fold_right]. rewrite ev_pmulZ. cbn [ev]. ring. }
  destruct (random_poly p (Z.to_nat (deg G - 1)) s) as [[G2 s1]|] eqn:ER; [|discriminate].
  pose proof (random_poly_canon _ _ _ _ ER) as C2.
  set (G1 := pgcd p G (norm G2)) in *.
  destruct (negb (deg G1 =? deg G)); [|eauto].
  destruct (deg G1 >? 0) eqn:E1.
  - apply Z.gtb_lt in E1. destruct (pgcd_spec p Hp G (norm G2) CG C2 E1) as [D1 [_ C1]]. fold G1 in D1, C1.
    destruct (split p f G1 d MOD L s1) as [[L1 s2]|] eqn:S1; [|discriminate].
    eapply (split_ok_two G G1 L L1 L'); eauto using deg_pos_nonnil.
    eapply IH; [|exact H]. apply (div_exact p Hp G G1); eauto using deg_pos_nonnil.
  - set (G1' := pgcd p G (psub p (ppowmod p (norm G2) ((MOD ^ d - 1) / 2) G) pone)) in *.
    destruct (negb (deg G1' =? deg G) && (deg G1' >? 0)) eqn:E2; [|eauto].
    apply andb_true_iff in E2. destruct E2 as [_ E2]. apply Z.gtb_lt in E2.
    destruct (pgcd_spec p Hp G _ CG (canon_psub _ _) E2) as [D1 [_ C1]]. fold G1' in D1, C1.
    destruct (split p f G1' d MOD L s1) as [[L1 s2]|] eqn:S1; [|discriminate].
    eapply (split_ok_two G G1' L L1 L'); eauto using deg_pos_nonnil.
    eapply IH; [|exact H]. apply (div_exact p Hp G G1'); eauto using deg_pos_nonnil. Qed.

(* ---- SplitFactor(Rep&, ...): the returned polynomial divides G *)
Theorem split1_spec : forall fuel G d MOD s R s', canon G ->
  split1 p fuel G d MOD s = Some (R, s') -> divides R G /\ canon R.
Proof. induction fuel as [|f IH]; intros G d MOD s R s' CG H; [discriminate|].
  cbn [split1] in H. cbv zeta in H.
  destruct (deg G =? d). { inversion H; subst. split; [apply divides_refl|assumption]. }
  destruct (random_poly p (Z.to_nat d) s) as [[tmp s1]|] eqn:ER; [|discriminate].
  pose proof (random_poly_canon _ _ _ _ ER) as C2.
  destruct (negb (deg (pgcd p G (norm tmp)) =? deg G)); [|eauto].
  destruct (deg (pgcd p G (norm tmp)) >? 0) eqn:E1.
  { apply Z.gtb_lt in E1. inversion H; subst. destruct (pgcd_spec p Hp G (norm tmp) CG C2 E1) as [D1 [_ C1]]. auto. }
  match type of H with context [pgcd p G (psub p ?t pone)] => set (tp := t) in * end.
  destruct (negb (deg (pgcd p G (psub p tp pone)) =? deg G)); [|eauto].
  destruct (deg (pgcd p G (psub p tp pone)) >? 0) eqn:E2.
  { apply Z.gtb_lt in E2. inversion H; subst. destruct (pgcd_spec p Hp G _ CG (canon_psub _ _) E2) as [D1 [_ C1]]. auto. }
  destruct (negb (deg (pgcd p G (padd p tp pone)) =? deg G) && (deg (pgcd p G (padd p tp pone)) >? 0)) eqn:E3; [|eauto].
  apply andb_true_iff in E3. destruct E3 as [_ E3]. apply Z.gtb_lt in E3. inversion H; subst.
  destruct (pgcd_spec p Hp G (padd p tp pone) CG ltac:(apply canon_red; assumption) E3) as [D1 [_ C1]]. auto. Qed.

(* ---- distinct-degree loop: appended factors times the remaining cofactor give back the polynomial *)
Theorem ddf_loop_spec : forall n dp W P MOD L s P' L' s', canon P ->
  ddf_loop p n dp W P MOD L s = Some (P', L', s') ->
  exists N, L' = L ++ N /\ eqp (pmulZ (prodl N) P') P /\ Forall canon N /\ canon P'.
Proof. induction n as [|n IH]; intros dp W P MOD L s P' L' s' CP H; cbn [ddf_loop] in H.
  { inversion H; subst. exists []. split; [rewrite app_nil_r; reflexivity|]. split; [|auto].
    apply eqp_ev. intros x. rewrite ev_pmulZ. unfold prodl. cbn [fold_right ev]. ring. }
  cbv zeta in H. set (W' := ppowmod p W MOD P) in *. set (G1 := pgcd p (psub p W' Xpoly) P) in *.
  destruct (deg G1 >? 0) eqn:E1; [|eauto].
  apply Z.gtb_lt in E1. destruct (pgcd_spec p Hp _ P (canon_psub _ _) CP E1) as [_ [D1 C1]]. fold G1 in D1, C1.
  destruct (split p (length s + 2 * length G1 + 2) G1 dp MOD L s) as [[L1 s1]|] eqn:S1; [|discriminate].
  destruct (split_spec _ _ _ _ _ _ _ _ C1 S1) as [N1 [E [P1 F1]]].
  destruct (div_exact p Hp P G1 CP C1 (deg_pos_nonnil _ E1) D1) as [Ex CQ].
  destruct (IH _ _ _ _ _ _ _ _ _ CQ H) as [N2 [E' [P2 [F2 CP']]]].
  exists (N1 ++ N2). split; [subst; rewrite app_assoc; reflexivity|]. split; [|split; [apply Forall_app; auto|assumption]].
  eapply eqp_trans; [|exact Ex]. eapply eqp_trans; [|apply eqp_mul; [exact P1|exact P2]].
  apply eqp_ev. intros x. rewrite !ev_pmulZ, ev_prodl_app. ring. Qed.

(* DistinctDegreeFactor: the appended factors multiply to f up to a constant cofactor u (deg u <= 0) *)
Theorem ddf_spec f MOD L s L' s' : canon f -> ddf p f MOD L s = Some (L', s') ->
  exists N u, L' = L ++ N /\ eqp (pmulZ (prodl N) u) f /\ deg u <= 0 /\ Forall canon N.
Proof. intros Cf H. unfold ddf in H.
  destruct (ddf_loop p (Z.to_nat (deg f / 2)) 1 Xpoly f MOD L s) as [[[P L1] s1]|] eqn:E; [|discriminate].
  destruct (ddf_loop_spec _ _ _ _ _ _ _ _ _ _ Cf E) as [N [E1 [P1 [F1 CP]]]].
  destruct (deg P >? 0) eqn:E2; inversion H; subst.
  - exists (N ++ [P]), [1]. split; [rewrite app_assoc; reflexivity|]. split; [|split; [cbn; lia|apply Forall_app; auto]].
    eapply eqp_trans; [|exact P1]. apply eqp_ev. intros x. rewrite !ev_pmulZ, ev_prodl_app. unfold prodl. cbn [fold_right].
    rewrite ev_pmulZ. cbn [ev]. ring.
  - exists N, P. split; [reflexivity|]. split; [assumption|]. split; [|assumption].
    destruct (Z.gtb_spec (deg P) 0); [discriminate|lia]. Qed.

End P.
