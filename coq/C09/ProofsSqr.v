(* C09 proofs, part 8: Euclid's gcd is the GREATEST common divisor and always divides; the derivative (coefficients,
   Leibniz rule); the square-free decomposition loses and invents nothing, in every characteristic; CZfactor returns only
   divisors of its input, for every random stream; Bezout and Gauss.
   Everything is proved for all inputs by induction / loop invariants / the evaluation homomorphism `ev`; nothing is computed
   (except in the `Example`s, which only show that hypotheses are satisfiable). *)
From Coq Require Import ZArith List Bool Lia Znumtheory.
From C09 Require Import Model ProofsAlg ProofsDiv ProofsSplit ProofsCZ ProofsIrr.
Import ListNotations.
Local Open Scope Z_scope.
Ltac Zify.zify_post_hook ::= Z.div_mod_to_equations.

(* ================= the derivative over Z[X] (no reduction) ================= *)
(* raw derivative: coefficient i of dZ a is (i+1) * a_{i+1} *)
Definition dZ (a : poly) : poly := match a with [] => [] | _ :: r => diff_aux 1 r end.

Lemma nth_diff_aux a : forall i k, nth k (diff_aux i a) 0 = (i + Z.of_nat k) * nth k a 0.
Proof. induction a as [|c a IH]; intros i k; cbn [diff_aux].
  - destruct k; cbn [nth]; lia.
  - destruct k as [|k]; cbn [nth]. { change (Z.of_nat 0) with 0. rewrite Z.add_0_r. reflexivity. }
    rewrite IH, Nat2Z.inj_succ. f_equal. lia. Qed.
Lemma nth_dZ a k : nth k (dZ a) 0 = (Z.of_nat k + 1) * nth (S k) a 0.
Proof. destruct a as [|c a]; cbn [dZ nth]. { destruct k; cbn [nth]; lia. } rewrite nth_diff_aux. f_equal. lia. Qed.

Lemma ev_diff_aux_succ a : forall i x, ev (diff_aux (i + 1) a) x = ev a x + ev (diff_aux i a) x.
Proof. induction a as [|c a IH]; intros i x; cbn [diff_aux ev]; [lia|]. rewrite (IH (i + 1)). ring. Qed.
Lemma ev_diff_aux_0 a x : ev (diff_aux 0 a) x = x * ev (dZ a) x.
Proof. destruct a as [|c a]; cbn [diff_aux dZ ev]; [lia|]. change (0 + 1) with 1. ring. Qed.
(* (c + X a)' = a + X a' *)
Lemma ev_dZ_cons c a x : ev (dZ (c :: a)) x = ev a x + x * ev (dZ a) x.
Proof. cbn [dZ]. replace (diff_aux 1 a) with (diff_aux (0 + 1) a) by reflexivity.
  rewrite ev_diff_aux_succ, ev_diff_aux_0. reflexivity. Qed.
Lemma ev_diff_aux_add a : forall b i x, ev (diff_aux i (paddZ a b)) x = ev (diff_aux i a) x + ev (diff_aux i b) x.
Proof. induction a as [|c a IH]; intros [|d b] i x; cbn [paddZ diff_aux ev]; rewrite ?IH; ring. Qed.
Lemma ev_diff_aux_scale c a : forall i x, ev (diff_aux i (pscaleZ c a)) x = c * ev (diff_aux i a) x.
Proof. unfold pscaleZ. induction a as [|d a IH]; intros i x; cbn [map diff_aux ev]; rewrite ?IH; ring. Qed.
Lemma ev_dZ_add a b x : ev (dZ (paddZ a b)) x = ev (dZ a) x + ev (dZ b) x.
Proof. destruct a as [|c a], b as [|d b]; cbn [paddZ dZ ev]; try ring. apply ev_diff_aux_add. Qed.
Lemma ev_dZ_scale c a x : ev (dZ (pscaleZ c a)) x = c * ev (dZ a) x.
Proof. destruct a as [|d a]; cbn [pscaleZ map dZ ev]; [ring|]. apply (ev_diff_aux_scale c a). Qed.

(* Leibniz rule over Z[X] *)
Theorem dZ_mul a : forall b x, ev (dZ (pmulZ a b)) x = ev (dZ a) x * ev b x + ev a x * ev (dZ b) x.
Proof. induction a as [|c a IH]; intros b x. { cbn [pmulZ dZ ev]. ring. }
  cbn [pmulZ]. rewrite ev_dZ_add, ev_dZ_scale, !ev_dZ_cons, IH, ev_pmulZ. cbn [ev]. ring. Qed.

Lemma ev_prodl1 f x : ev (prodl [f]) x = ev f x.
Proof. unfold prodl. cbn [fold_right]. rewrite ev_pmulZ. cbn [ev]. ring. Qed.
Lemma ev_prodl_cons f L x : ev (prodl (f :: L)) x = ev f x * ev (prodl L) x.
Proof. unfold prodl. cbn [fold_right]. apply ev_pmulZ. Qed.
Lemma ev_prodl_nil x : ev (prodl []) x = 1.
Proof. unfold prodl. cbn [fold_right ev]. ring. Qed.

Lemma deg_neg_nil (a : poly) : deg a < 0 -> a = [].
Proof. unfold deg. destruct a; cbn [length]; [reflexivity|lia]. Qed.
Lemma deg0_len1 (a : poly) : deg a = 0 -> length a = 1%nat.
Proof. unfold deg. lia. Qed.
Lemma in_firstn (A : Type) n : forall (l : list A) x, In x (firstn n l) -> In x l.
Proof. intros l x H. rewrite <- (firstn_skipn n l). apply in_or_app. left. exact H. Qed.

(* the two normalisations sqrfree performs: A = P made monic, C = gcd(A, A') made monic *)
Definition sq_A (p : Z) (P : poly) : poly := pscale p (inv p (lc P)) P.
Definition sq_C (p : Z) (P : poly) : poly :=
  let D := pgcd p (sq_A p P) (pdiff p (sq_A p P)) in pscale p (inv p (lc D)) D.

Section P.
Variable p : Z.
Hypothesis Hp : prime p.
Let p_gt_1 : 1 < p. Proof. destruct Hp; assumption. Qed.
Notation eqp := (eqp p).
Notation canon := (canon p).
Notation divides := (divides p).

(* ================= S2: Poly1Dom::diff ================= *)
Lemma nth_norm a : forall i, nth i (norm a) 0 = nth i a 0.
Proof. induction a as [|c a IH]; intros i; cbn [norm]; [reflexivity|].
  destruct (norm a) as [|d r] eqn:E; [destruct (Z.eqb_spec c 0) as [->|Hc]|];
    (destruct i as [|i]; cbn [nth]; [reflexivity|]; rewrite <- IH; destruct i; reflexivity). Qed.
Lemma nth_map_mod a : forall i, nth i (map (fun x => x mod p) a) 0 = (nth i a 0) mod p.
Proof. induction a as [|c a IH]; intros [|i]; cbn [map nth]; rewrite ?Zmod_0_l; auto. Qed.
Lemma nth_red a i : nth i (red p a) 0 = (nth i a 0) mod p.
Proof. unfold red. rewrite nth_norm. apply nth_map_mod. Qed.

Lemma pdiff_red a : pdiff p a = red p (dZ a).
Proof. destruct a; reflexivity. Qed.
Lemma pdiff_canon a : canon (pdiff p a).
Proof. rewrite pdiff_red. apply canon_red; assumption. Qed.
(* coefficient i of the derivative is (i+1) * a_{i+1} reduced; no hypothesis on a *)
Theorem pdiff_coeff a i : nth i (pdiff p a) 0 = ((Z.of_nat i + 1) * nth (S i) a 0) mod p.
Proof. rewrite pdiff_red, nth_red, nth_dZ. reflexivity. Qed.
Theorem pdiff_dZ a : eqp (pdiff p a) (dZ a).
Proof. rewrite pdiff_red. apply eqp_red; assumption. Qed.
(* the derivative is compatible with congruence modulo p *)
Theorem dZ_eqp a b : eqp a b -> eqp (dZ a) (dZ b).
Proof. intros H. apply (coeff_eqp p Hp). intros i. rewrite !nth_dZ.
  pose proof (eqp_coeff p Hp _ _ H (S i)) as E.
  rewrite <- (Z.mul_mod_idemp_r _ (nth (S i) a 0)), E, Z.mul_mod_idemp_r by lia. reflexivity. Qed.
Lemma pdiff_eqp a b : eqp a b -> eqp (pdiff p a) (pdiff p b).
Proof. intros H. eapply eqp_trans; [apply pdiff_dZ|]. eapply eqp_trans; [apply dZ_eqp; exact H|]. apply eqp_sym, pdiff_dZ. Qed.
(* Leibniz rule in GF(p)[X] *)
Theorem pdiff_mul_gen W a b : eqp W (pmulZ a b) ->
  eqp (pdiff p W) (paddZ (pmulZ (pdiff p a) b) (pmulZ a (pdiff p b))).
Proof. intros H. eapply eqp_trans; [apply pdiff_dZ|]. eapply eqp_trans; [apply dZ_eqp; exact H|].
  apply eqp_trans with (paddZ (pmulZ (dZ a) b) (pmulZ a (dZ b))).
  - apply eqp_ev. intros x. rewrite dZ_mul, ev_paddZ, !ev_pmulZ. reflexivity.
  - apply eqp_add; apply eqp_mul; first [apply eqp_refl|apply eqp_sym, pdiff_dZ]. Qed.
Corollary pdiff_mul a b : eqp (pdiff p (pmul p a b)) (paddZ (pmulZ (pdiff p a) b) (pmulZ a (pdiff p b))).
Proof. apply pdiff_mul_gen. apply eqp_red; assumption. Qed.

(* ================= divisibility: small facts ================= *)
Lemma divides_trans a b c : divides a b -> divides b c -> divides a c.
Proof. intros [q H] [r G]. exists (pmulZ q r). eapply eqp_trans; [|exact G].
  eapply eqp_trans; [|apply eqp_mul; [exact H|apply eqp_refl]]. apply eqp_ev. intros x. rewrite !ev_pmulZ. ring. Qed.
Lemma divides_factor_l a b : divides a (pmulZ a b).
Proof. exists b. apply eqp_refl. Qed.
Lemma divides_factor_r a b : divides b (pmulZ a b).
Proof. exists a. apply eqp_ev. intros x. rewrite !ev_pmulZ. ring. Qed.
Lemma divides_mul_r d a b : divides d a -> divides d (pmulZ a b).
Proof. intros H. eapply divides_trans; [exact H|apply divides_factor_l]. Qed.
Lemma divides_mul_l d a b : divides d b -> divides d (pmulZ a b).
Proof. intros H. eapply divides_trans; [exact H|apply divides_factor_r]. Qed.
Lemma divides_eqp_l d d' g : eqp d d' -> divides d g -> divides d' g.
Proof. intros E [q H]. exists q. eapply eqp_trans; [apply eqp_mul; [apply eqp_sym; exact E|apply eqp_refl]|exact H]. Qed.
Lemma in_divides_prodl g : forall L, In g L -> divides g (prodl L).
Proof. induction L as [|a L IH]; intros H; [contradiction|]. change (prodl (a :: L)) with (pmulZ a (prodl L)).
  destruct H as [->|H]; [apply divides_factor_l|apply divides_mul_l, IH, H]. Qed.
Lemma prodl_firstn_divides n L : divides (prodl (firstn n L)) (prodl L).
Proof. exists (prodl (skipn n L)). apply eqp_ev. intros x. rewrite ev_pmulZ, <- ev_prodl_app, firstn_skipn. reflexivity. Qed.

(* non-zero constants are units *)
Lemma unit_scale c a : c mod p <> 0 -> eqp (pscaleZ (c * inv p c) a) a.
Proof. intros H. eapply eqp_trans; [apply (eqp_scale_c p Hp _ 1)|].
  { rewrite (inv_spec p Hp) by assumption. symmetry. apply Z.mod_small. lia. }
  apply eqp_ev. intros x. rewrite ev_pscaleZ. ring. Qed.
Lemma const_divides c g : c mod p <> 0 -> divides [c] g.
Proof. intros H. exists (pscaleZ (inv p c) g). eapply eqp_trans; [|apply (unit_scale c g H)].
  apply eqp_ev. intros x. rewrite ev_pmulZ, !ev_pscaleZ. cbn [ev]. ring. Qed.
Lemma pone_divides g : divides pone g.
Proof. apply const_divides. rewrite Z.mod_small; lia. Qed.
Lemma canon_len1 D : canon D -> length D = 1%nat -> exists c, D = [c] /\ 0 < c < p.
Proof. intros CD L. destruct D as [|c [|]]; try discriminate. exists c. split; [reflexivity|].
  pose proof (canon_lc p [c] CD ltac:(discriminate)) as H. unfold lc in H. cbn [last] in H. exact H. Qed.
Lemma canon_const c : 0 < c < p -> canon [c].
Proof. intros H. split; [constructor; [lia|constructor]|cbn [last]; lia]. Qed.
Lemma deg0_divides D g : canon D -> deg D = 0 -> divides D g.
Proof. intros CD H. destruct (canon_len1 D CD (deg0_len1 D H)) as [c [-> Hc]]. apply const_divides. rewrite Z.mod_small; lia. Qed.
(* a divisor of a non-zero constant is a non-zero constant *)
Lemma divides_const_is_const D c : canon D -> 0 < c < p -> divides D [c] -> length D = 1%nat.
Proof. intros CD Hc [q H]. pose proof (canon_const c Hc) as Cc.
  assert (H' : eqp (pmulZ D (red p q)) [c]) by (eapply eqp_trans; [apply eqp_mul; [apply eqp_refl|apply eqp_red; assumption]|exact H]).
  assert (Cq : canon (red p q)) by (apply canon_red; assumption).
  destruct D as [|d D']. { exfalso. pose proof (canon_mul_nil_l p Hp _ [c] Cc H'). discriminate. }
  destruct (red p q) as [|e q''].
  { exfalso. assert (E : eqp [c] []). { eapply eqp_trans; [apply eqp_sym; exact H'|]. apply eqp_ev. intros x. rewrite ev_pmulZ. cbn [ev]. ring. }
    apply (canon_eqp_nil p Hp) in E; [discriminate|assumption]. }
  pose proof (canon_mul_length p Hp _ _ _ CD Cq Cc ltac:(discriminate) ltac:(discriminate) H') as L. cbn [length] in *. lia. Qed.

(* making monic: C = (1/lc D) D is an associate of D *)
Lemma monic_assoc D : canon D -> D <> [] ->
  let C := pscale p (inv p (lc D)) D in canon C /\ C <> [] /\ divides C D /\ divides D C.
Proof. intros CD HD C. pose proof (canon_lc p D CD HD) as L.
  assert (Lm : lc D mod p <> 0) by (rewrite Z.mod_small; lia).
  assert (E : eqp C (pscaleZ (inv p (lc D)) D)) by (apply eqp_red; assumption).
  assert (CC : canon C) by (apply canon_red; assumption).
  assert (D1 : divides C D).
  { exists [lc D]. eapply eqp_trans; [apply eqp_mul; [exact E|apply eqp_refl]|]. eapply eqp_trans; [|apply (unit_scale (lc D) D Lm)].
    apply eqp_ev. intros x. rewrite ev_pmulZ, !ev_pscaleZ. cbn [ev]. ring. }
  split; [assumption|]. split; [|split; [assumption|]].
  - intros E0. rewrite E0 in D1. destruct D1 as [q H]. apply HD. apply (canon_mul_nil_l p Hp q); assumption.
  - exists [inv p (lc D)]. eapply eqp_trans; [|apply eqp_sym; exact E]. apply eqp_ev. intros x. rewrite ev_pmulZ, ev_pscaleZ. cbn [ev]. ring. Qed.

(* ================= S1: Euclid returns the GREATEST common divisor ================= *)
Lemma eqp_rem u g q r : eqp u (paddZ (pmulZ g q) r) -> eqp r (paddZ (pmulZ u [1]) (pmulZ g (pscaleZ (-1) q))).
Proof. intros [k H]. exists (pscaleZ (-1) k). intros x. specialize (H x). rewrite ev_paddZ, ev_pmulZ in H.
  rewrite ev_paddZ, !ev_pmulZ, !ev_pscaleZ. cbn [ev]. lia. Qed.

(* every common divisor of (u, g) divides what the remainder sequence ends with *)
Lemma gcd_loop_greatest D : forall fuel u g, canon u -> canon g -> g <> [] -> (length g <= fuel)%nat ->
  divides D u -> divides D g -> divides D (gcd_loop p fuel u g).
Proof. induction fuel as [|f IH]; intros u g Cu Cg Hg Hl Du Dg; cbn [gcd_loop]; [assumption|].
  destruct (pdivmod_spec p Hp u g Cu Cg Hg) as [E [CQ [CR L]]].
  destruct (pmod p u g) as [|r0 r'] eqn:ER; [assumption|].
  apply IH; auto; [congruence|lia|].
  eapply divides_eqp; [apply (divides_lin p D u g [1] (pscaleZ (-1) (pdiv p u g)) Du Dg)|]. apply eqp_sym, eqp_rem. exact E. Qed.

(* the common shape of the third branch of Poly1Dom::gcd *)
Lemma pgcd_branches P Q :
  (P = [] /\ pgcd p P Q = Q) \/ (deg Q = 0 /\ pgcd p P Q = Q) \/
  (P <> [] /\ Q = [] /\ pgcd p P Q = P) \/ (deg P = 0 /\ pgcd p P Q = P) \/
  (P <> [] /\ Q <> [] /\ exists G, (G = gcd_loop p (length Q) P Q \/ G = gcd_loop p (length P) Q P) /\
     pgcd p P Q = if deg G <=? 0 then pone else G).
Proof. unfold pgcd. cbv zeta.
  destruct ((deg P <? 0) || (deg Q =? 0)) eqn:E1.
  { apply orb_true_iff in E1. destruct E1 as [E1|E1]; [apply Z.ltb_lt in E1; left; split; [apply deg_neg_nil; assumption|reflexivity]|].
    apply Z.eqb_eq in E1. right; left. auto. }
  apply orb_false_iff in E1. destruct E1 as [E1 _]. apply Z.ltb_ge in E1.
  assert (HP : P <> []) by (intro; subst; cbn in E1; lia).
  destruct ((deg Q <? 0) || (deg P =? 0)) eqn:E2.
  { apply orb_true_iff in E2. destruct E2 as [E2|E2]; [apply Z.ltb_lt in E2; right; right; left; split; [assumption|split; [apply deg_neg_nil; assumption|reflexivity]]|].
    apply Z.eqb_eq in E2. right; right; right; left. auto. }
  apply orb_false_iff in E2. destruct E2 as [E2 _]. apply Z.ltb_ge in E2.
  assert (HQ : Q <> []) by (intro; subst; cbn in E2; lia).
  right; right; right; right. split; [assumption|]. split; [assumption|].
  destruct (deg P >=? deg Q); eexists; (split; [|reflexivity]); auto. Qed.

Theorem pgcd_nonnil P Q : P <> [] \/ Q <> [] -> pgcd p P Q <> [].
Proof. intros H. destruct (pgcd_branches P Q) as [[E ->]|[[E ->]|[[E [_ ->]]|[[E ->]|[_ [_ [G [_ ->]]]]]]]].
  - destruct H; congruence.
  - intro; subst; cbn in E; lia.
  - assumption.
  - intro; subst; cbn in E; lia.
  - destruct (Z.leb_spec (deg G) 0) as [L|L]; [discriminate|apply deg_pos_nonnil; assumption]. Qed.

(* gcd optimality: every common divisor divides the value of Poly1Dom::gcd (all branches, also P = [] = Q) *)
Theorem pgcd_greatest P Q D : canon P -> canon Q -> canon D -> divides D P -> divides D Q -> divides D (pgcd p P Q).
Proof. intros CP CQ CD DP DQ.
  destruct (pgcd_branches P Q) as [[E ->]|[[E ->]|[[E [_ ->]]|[[E ->]|[HP [HQ [G [HG ->]]]]]]]]; try assumption.
  assert (X : divides D G /\ canon G /\ G <> []).
  { destruct HG as [->| ->].
    - destruct (gcd_loop_spec p Hp (length Q) P Q) as [_ [_ [C N]]]; auto. split; [|auto]. apply gcd_loop_greatest; auto.
    - destruct (gcd_loop_spec p Hp (length P) Q P) as [_ [_ [C N]]]; auto. split; [|auto]. apply gcd_loop_greatest; auto. }
  destruct X as [DG [CG NG]].
  destruct (Z.leb_spec (deg G) 0) as [L|L]; [|assumption].
  (* the last non-zero remainder is a constant c: D | c, so D is a non-zero constant, which divides 1 *)
  assert (LG : length G = 1%nat) by (unfold deg in L; destruct G; [congruence|cbn [length] in *; lia]).
  destruct (canon_len1 G CG LG) as [c [-> Hc]].
  pose proof (divides_const_is_const D c CD Hc DG) as LD.
  apply deg0_divides; [assumption|]. unfold deg. rewrite LD. reflexivity. Qed.

(* the value of Poly1Dom::gcd always divides both arguments (no hypothesis on its degree) *)
Theorem pgcd_divides_always P Q : canon P -> canon Q -> divides (pgcd p P Q) P /\ divides (pgcd p P Q) Q.
Proof. intros CP CQ.
  destruct (pgcd_branches P Q) as [[E ->]|[[E ->]|[[E [E' ->]]|[[E ->]|[HP [HQ [G [HG ->]]]]]]]].
  - subst. split; [apply divides_nil|apply divides_refl].
  - split; [apply deg0_divides; assumption|apply divides_refl].
  - subst. split; [apply divides_refl|apply divides_nil].
  - split; [apply divides_refl|apply deg0_divides; assumption].
  - destruct (Z.leb_spec (deg G) 0) as [L|L]; [split; apply pone_divides|].
    destruct HG as [->| ->].
    + destruct (gcd_loop_spec p Hp (length Q) P Q) as [D1 [D2 _]]; auto.
    + destruct (gcd_loop_spec p Hp (length P) Q P) as [D1 [D2 _]]; auto. Qed.

(* ================= S3: the square-free decomposition loses nothing and invents nothing ================= *)
(* invariant of the Yun loop: (remaining cofactor W) * (parts appended) = W on entry, whichever way the loop ends;
   when it ends by the early exit `++count > Nfact` exactly max(rem,1) parts were appended *)
Lemma sqr_loop_prod : forall rem W Y Zp acc, canon W -> canon Zp ->
  exists N, snd (fst (sqr_loop p rem W Y Zp acc)) = acc ++ N /\
    eqp (pmulZ (snd (sqr_loop p rem W Y Zp acc)) (prodl N)) W /\
    (fst (fst (sqr_loop p rem W Y Zp acc)) = true -> length N = Nat.max rem 1).
Proof. induction rem as [|rem IH]; intros W Y Zp acc CW CZ.
  - destruct Zp as [|z Zp]; cbn [sqr_loop fst snd].
    + exists []. rewrite app_nil_r. split; [reflexivity|]. split; [|discriminate].
      apply eqp_ev. intros x. rewrite ev_pmulZ, ev_prodl_nil. ring.
    + set (F := pgcd p W (z :: Zp)).
      assert (CF : canon F) by (apply pgcd_canon; assumption).
      assert (NF : F <> []) by (apply pgcd_nonnil; right; discriminate).
      destruct (pgcd_divides_always W (z :: Zp) CW CZ) as [DF _]. fold F in DF.
      destruct (div_exact p Hp W F CW CF NF DF) as [Ex _].
      exists [F]. split; [reflexivity|]. split; [|reflexivity].
      eapply eqp_trans; [|exact Ex]. apply eqp_ev. intros x. rewrite !ev_pmulZ, ev_prodl1. ring.
  - destruct Zp as [|z Zp].
    + cbn [sqr_loop fst snd]. exists []. rewrite app_nil_r. split; [reflexivity|]. split; [|discriminate].
      apply eqp_ev. intros x. rewrite ev_pmulZ, ev_prodl_nil. ring.
    + cbn [sqr_loop]. cbv zeta. set (F := pgcd p W (z :: Zp)).
      assert (CF : canon F) by (apply pgcd_canon; assumption).
      assert (NF : F <> []) by (apply pgcd_nonnil; right; discriminate).
      destruct (pgcd_divides_always W (z :: Zp) CW CZ) as [DF _]. fold F in DF.
      destruct (div_exact p Hp W F CW CF NF DF) as [Ex CW'].
      destruct rem as [|rem'].
      * cbn [fst snd]. exists [F]. split; [reflexivity|]. split; [|reflexivity].
        eapply eqp_trans; [|exact Ex]. apply eqp_ev. intros x. rewrite !ev_pmulZ, ev_prodl1. ring.
      * match goal with |- context [sqr_loop p (S rem') ?W1 ?Y1 ?Z1 ?a1] =>
          destruct (IH W1 Y1 Z1 a1 CW' ltac:(apply canon_red; assumption)) as [N [E1 [E2 E3]]] end.
        exists (F :: N). split; [rewrite E1, <- app_assoc; reflexivity|]. split.
        -- eapply eqp_trans; [|exact Ex]. eapply eqp_trans; [|apply eqp_mul; [apply eqp_refl|exact E2]].
           apply eqp_ev. intros x. rewrite !ev_pmulZ, ev_prodl_cons. ring.
        -- intros Hb. specialize (E3 Hb). cbn [length]. lia. Qed.

(* facts about the normalisations in sqrfree *)
Lemma sq_A_facts P : canon P -> P <> [] ->
  canon (sq_A p P) /\ sq_A p P <> [] /\ divides (sq_A p P) P /\ divides P (sq_A p P).
Proof. intros CP HP. exact (monic_assoc P CP HP). Qed.
Lemma sq_C_facts P : canon P -> P <> [] ->
  canon (sq_C p P) /\ sq_C p P <> [] /\ divides (sq_C p P) (sq_A p P) /\
  divides (sq_C p P) (pdiff p (sq_A p P)) /\ divides (pgcd p (sq_A p P) (pdiff p (sq_A p P))) (sq_C p P).
Proof. intros CP HP. destruct (sq_A_facts P CP HP) as [CA [NA _]].
  unfold sq_C. cbv zeta. set (D := pgcd p (sq_A p P) (pdiff p (sq_A p P))).
  assert (CD : canon D) by (apply pgcd_canon; auto using pdiff_canon).
  assert (ND : D <> []) by (apply pgcd_nonnil; left; assumption).
  destruct (pgcd_divides_always (sq_A p P) (pdiff p (sq_A p P)) CA (pdiff_canon _)) as [D1 D2]. fold D in D1, D2.
  destruct (monic_assoc D CD ND) as [CC [NC [M1 M2]]].
  split; [assumption|]. split; [assumption|]. split; [|split]; try assumption; eapply divides_trans; eassumption. Qed.

(* the general form: what sqrfree returns in each of its two ways to end (Nfact <> 0) *)
Theorem sqrfree_parts_gen Nfact P : canon P -> P <> [] -> Nfact <> 0 ->
  (fst (sqrfree p Nfact P) = Z.of_nat (length (snd (sqrfree p Nfact P))) /\
   eqp (pmulZ (sq_C p P) (prodl (snd (sqrfree p Nfact P)))) (sq_A p P)) \/
  (fst (sqrfree p Nfact P) = Nfact /\ length (snd (sqrfree p Nfact P)) = S (Z.to_nat Nfact) /\
   exists Wf, eqp (pmulZ (sq_C p P) (pmulZ Wf (prodl (snd (sqrfree p Nfact P))))) (sq_A p P)).
Proof. intros CP HP HN. destruct (sq_A_facts P CP HP) as [CA [NA _]].
  destruct (sq_C_facts P CP HP) as [CC [NC [DC _]]].
  destruct (div_exact p Hp _ _ CA CC NC DC) as [Ex CW].
  unfold sqrfree. destruct (Z.eqb_spec Nfact 0) as [|_]; [contradiction|]. cbv zeta.
  change (pscale p (inv p (lc P)) P) with (sq_A p P).
  change (pscale p (inv p (lc (pgcd p (sq_A p P) (pdiff p (sq_A p P))))) (pgcd p (sq_A p P) (pdiff p (sq_A p P)))) with (sq_C p P).
  set (A := sq_A p P) in *. set (C := sq_C p P) in *.
  destruct (list_eq_dec Z.eq_dec C pone) as [EC|_].
  { left. cbn [fst snd length]. split; [reflexivity|]. rewrite EC. apply eqp_ev. intros x. rewrite ev_pmulZ, ev_prodl1. unfold pone. cbn [ev]. ring. }
  match goal with |- context [sqr_loop p ?r ?W ?Y ?Z0 ?a] =>
    destruct (sqr_loop_prod r W Y Z0 a CW ltac:(apply canon_red; assumption)) as [N [E1 [E2 E3]]];
    destruct (sqr_loop p r W Y Z0 a) as [[b acc] Wf] end.
  cbn [fst snd app] in E1, E2, E3. subst acc.
  assert (E4 : eqp (pmulZ C (pmulZ Wf (prodl N))) A).
  { eapply eqp_trans; [apply eqp_mul; [apply eqp_refl|exact E2]|exact Ex]. }
  destruct b; cbn [fst snd].
  - right. split; [reflexivity|]. split; [rewrite E3 by reflexivity; lia|]. exists Wf. exact E4.
  - left. split; [rewrite app_length; cbn [length]; lia|]. eapply eqp_trans; [|exact E4].
    apply eqp_ev. intros x. rewrite !ev_pmulZ, ev_prodl_app, ev_prodl1. ring. Qed.

(* S3 as asked: when the loop did not leave by the early exit -- observable as  n = number of parts returned --
   the parts multiply, WITHOUT multiplicities, to A / gcd(A, A') (made monic), in every characteristic *)
Theorem sqrfree_parts Nfact P n Fact : canon P -> P <> [] -> Nfact <> 0 -> sqrfree p Nfact P = (n, Fact) ->
  n = Z.of_nat (length Fact) -> eqp (pmulZ (sq_C p P) (prodl (firstn (Z.to_nat n) Fact))) (sq_A p P).
Proof. intros CP HP HN H Hn. destruct (sqrfree_parts_gen Nfact P CP HP HN) as [[_ E]|[E1 [E2 _]]]; rewrite H in *; cbn [fst snd] in *.
  - rewrite Hn, Nat2Z.id, firstn_all. exact E.
  - exfalso. lia. Qed.

(* ... and in every case (early exit included, Nfact = 0 included) the first n parts times C divide A: nothing is invented *)
Theorem sqrfree_sound Nfact P n Fact : canon P -> P <> [] -> sqrfree p Nfact P = (n, Fact) ->
  divides (pmulZ (sq_C p P) (prodl (firstn (Z.to_nat n) Fact))) (sq_A p P) /\
  divides (pmulZ (sq_C p P) (prodl Fact)) (sq_A p P).
Proof. intros CP HP H. destruct (sq_C_facts P CP HP) as [_ [_ [DC _]]].
  assert (X : divides (pmulZ (sq_C p P) (prodl Fact)) (sq_A p P)).
  { destruct (Z.eq_dec Nfact 0) as [->|HN].
    - unfold sqrfree in H. cbn [Z.eqb] in H. inversion H; subst.
      eapply divides_eqp_l; [|exact DC]. apply eqp_ev. intros x. rewrite ev_pmulZ, ev_prodl_nil. ring.
    - destruct (sqrfree_parts_gen Nfact P CP HP HN) as [[_ E]|[_ [_ [Wf E]]]]; rewrite H in *; cbn [fst snd] in *.
      + exists [1]. eapply eqp_trans; [|exact E]. apply eqp_ev. intros x. rewrite !ev_pmulZ. cbn [ev]. ring.
      + exists Wf. eapply eqp_trans; [|exact E]. apply eqp_ev. intros x. rewrite !ev_pmulZ. ring. }
  split; [|exact X]. eapply divides_trans; [|exact X].
  destruct (prodl_firstn_divides (Z.to_nat n) Fact) as [q Hq]. exists q.
  eapply eqp_trans; [|apply eqp_mul; [apply eqp_refl|exact Hq]]. apply eqp_ev. intros x. rewrite !ev_pmulZ. ring. Qed.

(* consequently every part returned divides P (for P = [] trivially) *)
Theorem sqrfree_part_divides Nfact P n Fact g : canon P -> sqrfree p Nfact P = (n, Fact) -> In g Fact -> divides g P.
Proof. intros CP H Hg. destruct P as [|c P']; [apply divides_nil|]. set (P := c :: P') in *.
  assert (HP : P <> []) by discriminate.
  destruct (sqrfree_sound Nfact P n Fact CP HP H) as [_ X]. destruct (sq_A_facts P CP HP) as [_ [_ [DA _]]].
  eapply divides_trans; [|exact DA]. eapply divides_trans; [|exact X].
  apply divides_mul_l. apply in_divides_prodl. exact Hg. Qed.

(* ================= S4: CZfactor returns only divisors of P, whatever the random stream ================= *)
(* the loop over the square-free parts, WITHOUT multiplicities: the appended factors multiply (up to a constant) to the
   product of the parts, and each appended factor divides one of the parts *)
Lemma cz_loop_prod : forall g i MOD Lf Le s Lf' Le' s', Forall canon g ->
  cz_loop p g i MOD Lf Le s = Some (Lf', Le', s') ->
  exists Nf U, Lf' = Lf ++ Nf /\ deg U <= 0 /\ eqp (pmulZ (prodl Nf) U) (prodl g) /\
    Forall (fun f => exists gi, In gi g /\ divides f gi) Nf.
Proof. induction g as [|gi g IH]; intros i MOD Lf Le s Lf' Le' s' Cg H; cbn [cz_loop] in H.
  - inversion H; subst. exists [], [1]. rewrite app_nil_r. split; [reflexivity|]. split; [cbn; lia|]. split; [|constructor].
    apply eqp_ev. intros x. rewrite ev_pmulZ, ev_prodl_nil. cbn [ev]. ring.
  - inversion Cg as [|? ? Cgi Cg']; subst.
    destruct (ddf p gi MOD Lf s) as [[Lf1 s1]|] eqn:ED; [|discriminate].
    destruct (ddf_spec p Hp gi MOD Lf s Lf1 s1 Cgi ED) as [N [u [E1 [P1 [Du F1]]]]].
    destruct (IH _ _ _ _ _ _ _ _ Cg' H) as [Nf2 [U2 [E2 [DU2 [P2 G2]]]]].
    exists (N ++ Nf2), (pmulZ u U2). split; [subst; rewrite app_assoc; reflexivity|].
    split. { unfold deg in *. pose proof (len1_mul u U2 ltac:(lia) ltac:(lia)). lia. }
    split.
    + eapply eqp_trans; [|apply eqp_mul; [exact P1|exact P2]].
      apply eqp_ev. intros x. rewrite !ev_pmulZ, ev_prodl_app. ring.
    + apply Forall_app. split.
      * apply Forall_forall. intros f Hf. exists gi. split; [left; reflexivity|].
        eapply divides_eqp; [|exact P1]. apply divides_mul_r. apply in_divides_prodl. exact Hf.
      * eapply Forall_impl; [|exact G2]. cbn beta. intros f [gj [Hj Dj]]. exists gj. split; [right; exact Hj|exact Dj]. Qed.

(* every factor CZfactor returns divides P: for every canonical input, every characteristic, every random stream *)
Theorem czfactor_factors_divide P MOD s Lf Le s' : canon P -> czfactor p P MOD s = Some (Lf, Le, s') ->
  forall f, In f Lf -> divides f P.
Proof. intros CP H f Hf. unfold czfactor in H. pose proof (sqrfree_canon p Hp (deg P + 1) P) as Cg.
  destruct (sqrfree p (deg P + 1) P) as [nb g] eqn:ES. cbn [snd] in Cg.
  destruct (cz_loop_prod _ 0 MOD [] [] s Lf Le s' (Forall_firstn' _ _ _ Cg) H) as [Nf [U [E1 [_ [_ G]]]]].
  cbn [app] in E1. subst Nf. rewrite Forall_forall in G. destruct (G f Hf) as [gi [Hi Di]].
  eapply divides_trans; [exact Di|]. eapply (sqrfree_part_divides _ P nb g gi CP ES). eapply in_firstn. exact Hi. Qed.

(* the strongest consequence: the product of ALL returned factors (each once) times a constant U times C = monic gcd(A,A')
   divides the monic A; and it IS A when sqrfree did not leave by its early exit *)
Theorem czfactor_radical P MOD s Lf Le s' : canon P -> P <> [] -> czfactor p P MOD s = Some (Lf, Le, s') ->
  exists U, deg U <= 0 /\
    eqp (pmulZ (prodl Lf) U) (prodl (firstn (Z.to_nat (fst (sqrfree p (deg P + 1) P))) (snd (sqrfree p (deg P + 1) P)))) /\
    divides (pmulZ (sq_C p P) (pmulZ (prodl Lf) U)) (sq_A p P) /\
    (fst (sqrfree p (deg P + 1) P) = Z.of_nat (length (snd (sqrfree p (deg P + 1) P))) ->
     eqp (pmulZ (sq_C p P) (pmulZ (prodl Lf) U)) (sq_A p P)).
Proof. intros CP HP H. unfold czfactor in H. pose proof (sqrfree_canon p Hp (deg P + 1) P) as Cg.
  destruct (sqrfree p (deg P + 1) P) as [nb g] eqn:ES. cbn [fst snd] in *.
  destruct (cz_loop_prod _ 0 MOD [] [] s Lf Le s' (Forall_firstn' _ _ _ Cg) H) as [Nf [U [E1 [DU [PU _]]]]].
  cbn [app] in E1. subst Nf. exists U. split; [assumption|]. split; [assumption|].
  assert (HN : deg P + 1 <> 0) by (unfold deg; destruct P; [congruence|cbn [length]; lia]).
  split.
  - destruct (sqrfree_sound _ P nb g CP HP ES) as [X _]. eapply divides_eqp_l; [|exact X].
    apply eqp_mul; [apply eqp_refl|apply eqp_sym; exact PU].
  - intros Hn. eapply eqp_trans; [apply eqp_mul; [apply eqp_refl|exact PU]|].
    exact (sqrfree_parts _ P nb g CP HP HN ES Hn). Qed.

(* ================= S5: Bezout and Gauss ================= *)
Lemma gcd_loop_bezout : forall fuel u g, canon u -> canon g -> g <> [] -> (length g <= fuel)%nat ->
  exists a b, eqp (paddZ (pmulZ u a) (pmulZ g b)) (gcd_loop p fuel u g).
Proof. induction fuel as [|f IH]; intros u g Cu Cg Hg Hl. { destruct g; [congruence|cbn [length] in Hl; lia]. }
  cbn [gcd_loop]. destruct (pdivmod_spec p Hp u g Cu Cg Hg) as [E [CQ [CR L]]].
  destruct (pmod p u g) as [|r0 r'] eqn:ER.
  - exists [], [1]. apply eqp_ev. intros x. rewrite ev_paddZ, !ev_pmulZ. cbn [ev]. ring.
  - destruct (IH g (r0 :: r') Cg CR ltac:(congruence) ltac:(lia)) as [a [b H]].
    exists b, (paddZ a (pscaleZ (-1) (pmulZ (pdiv p u g) b))). eapply eqp_trans; [|exact H].
    destruct E as [k Hk]. exists (pmulZ k b). intros x. specialize (Hk x). rewrite ev_paddZ, ev_pmulZ in Hk.
    rewrite !ev_paddZ, !ev_pmulZ, !ev_paddZ, !ev_pscaleZ, !ev_pmulZ, Hk. ring. Qed.

Theorem bezout P Q : canon P -> canon Q -> exists u v, eqp (paddZ (pmulZ P u) (pmulZ Q v)) (pgcd p P Q).
Proof. intros CP CQ.
  destruct (pgcd_branches P Q) as [[E ->]|[[E ->]|[[E [E' ->]]|[[E ->]|[HP [HQ [G [HG ->]]]]]]]].
  1,2: exists [], [1]; apply eqp_ev; intros x; rewrite ev_paddZ, !ev_pmulZ; cbn [ev]; ring.
  1,2: exists [1], []; apply eqp_ev; intros x; rewrite ev_paddZ, !ev_pmulZ; cbn [ev]; ring.
  assert (X : (exists a b, eqp (paddZ (pmulZ P a) (pmulZ Q b)) G) /\ canon G /\ G <> []).
  { destruct HG as [->| ->].
    - destruct (gcd_loop_spec p Hp (length Q) P Q) as [_ [_ [C N]]]; auto. split; [|auto]. apply gcd_loop_bezout; auto.
    - destruct (gcd_loop_spec p Hp (length P) Q P) as [_ [_ [C N]]]; auto. split; [|auto].
      destruct (gcd_loop_bezout (length P) Q P) as [a [b H]]; auto. exists b, a. eapply eqp_trans; [|exact H].
      apply eqp_ev. intros x. rewrite !ev_paddZ, !ev_pmulZ. ring. }
  destruct X as [[a [b H]] [CG NG]].
  destruct (Z.leb_spec (deg G) 0) as [L|L]; [|exists a, b; exact H].
  assert (LG : length G = 1%nat) by (unfold deg in L; destruct G; [congruence|cbn [length] in *; lia]).
  destruct (canon_len1 G CG LG) as [c [-> Hc]].
  exists (pscaleZ (inv p c) a), (pscaleZ (inv p c) b).
  apply eqp_trans with (pscaleZ (inv p c) [c]).
  - eapply eqp_trans; [|apply eqp_scale; exact H]. apply eqp_ev. intros x. rewrite !ev_pscaleZ, !ev_paddZ, !ev_pmulZ, !ev_pscaleZ. ring.
  - eapply eqp_trans; [|apply (unit_scale c pone); rewrite Z.mod_small; lia].
    apply eqp_ev. intros x. rewrite !ev_pscaleZ. unfold pone. cbn [ev]. ring. Qed.

(* Gauss' lemma: a coprime to b and a | b c  ==>  a | c *)
Theorem gauss a b c : canon a -> canon b -> a <> [] \/ b <> [] -> deg (pgcd p a b) <= 0 ->
  divides a (pmulZ b c) -> divides a c.
Proof. intros Ca Cb Hab Hd H. destruct (bezout a b Ca Cb) as [u [v B]].
  pose proof (pgcd_canon p Hp a b Ca Cb) as CG. pose proof (pgcd_nonnil a b Hab) as NG.
  assert (LG : length (pgcd p a b) = 1%nat) by (unfold deg in Hd; destruct (pgcd p a b); [congruence|cbn [length] in *; lia]).
  destruct (canon_len1 _ CG LG) as [k [Ek Hk]]. rewrite Ek in B.
  assert (D1 : divides a (pmulZ c [k])).
  { eapply divides_eqp; [apply (divides_lin p a a (pmulZ b c) (pmulZ u c) v (divides_refl p a) H)|].
    eapply eqp_trans; [|apply eqp_mul; [apply eqp_refl|exact B]].
    apply eqp_ev. intros x. rewrite !ev_pmulZ, !ev_paddZ, !ev_pmulZ. ring. }
  eapply divides_eqp; [apply (divides_mul_r a _ [inv p k] D1)|].
  eapply eqp_trans; [|apply (unit_scale k c); rewrite Z.mod_small; lia].
  apply eqp_ev. intros x. rewrite !ev_pmulZ, ev_pscaleZ. cbn [ev]. ring. Qed.

(* ================= S5 (stretch): Yun's recurrence is exact on  a_1^1 a_2^2 ... a_m^m,  m < p ================= *)
(* weighted Leibniz sums:  wsum c s [b_0; b_1; ...] = sum_j (c + s j) b_j' prod_{i<>j} b_i *)
Fixpoint wsum (c s : Z) (L : list poly) : poly :=
  match L with [] => [] | b :: L' => paddZ (pscaleZ c (pmulZ (dZ b) (prodl L'))) (pmulZ b (wsum (c + s) s L')) end.
(* gpow L k = prod_j b_j^(k+j) *)
Fixpoint gpow (L : list poly) (k : nat) : poly :=
  match L with [] => [1] | b :: L' => pmulZ (pwr b k) (gpow L' (S k)) end.

Lemma ev_wsum_lin L : forall c s x, ev (wsum c s L) x = c * ev (wsum 1 0 L) x + s * ev (wsum 0 1 L) x.
Proof. induction L as [|b L IH]; intros c s x; cbn [wsum]. { cbn [ev]. ring. }
  change (1 + 0) with 1. change (0 + 1) with 1.
  rewrite !ev_paddZ, !ev_pscaleZ, !ev_pmulZ, (IH (c + s) s), (IH 1 1). ring. Qed.
Lemma ev_wsum_0 b L x : ev (wsum 0 1 (b :: L)) x = ev b x * ev (wsum 1 1 L) x.
Proof. cbn [wsum]. change (0 + 1) with 1. rewrite ev_paddZ, ev_pscaleZ, !ev_pmulZ. ring. Qed.
Lemma ev_dZ_prodl L : forall x, ev (dZ (prodl L)) x = ev (wsum 1 0 L) x.
Proof. induction L as [|b L IH]; intros x. { reflexivity. }
  change (prodl (b :: L)) with (pmulZ b (prodl L)). cbn [wsum]. change (1 + 0) with 1.
  rewrite dZ_mul, IH, ev_paddZ, ev_pscaleZ, !ev_pmulZ. ring. Qed.
Lemma ev_dZ_pwr b n x : ev (dZ (pwr b (S n))) x = Z.of_nat (S n) * ev (pwr b n) x * ev (dZ b) x.
Proof. induction n as [|n IH].
  - cbn [pwr]. rewrite dZ_mul. cbn [dZ diff_aux ev]. change (Z.of_nat 1) with 1. ring.
  - change (pwr b (S (S n))) with (pmulZ b (pwr b (S n))). rewrite dZ_mul, IH.
    change (pwr b (S n)) with (pmulZ b (pwr b n)). rewrite !ev_pmulZ, !Nat2Z.inj_succ. unfold Z.succ. ring. Qed.
Lemma gprod_cons b L k : gprod (b :: L) (Z.of_nat k) = pmulZ (pwr b (S k)) (gprod L (Z.of_nat (S k))).
Proof. cbn [gprod]. replace (Z.of_nat k + 1) with (Z.of_nat (S k)) by lia. rewrite Nat2Z.id. reflexivity. Qed.
Lemma ev_gprod L : forall k x, ev (gprod L (Z.of_nat k)) x = ev (gpow L k) x * ev (prodl L) x.
Proof. induction L as [|b L IH]; intros k x. { unfold prodl. cbn [gprod gpow fold_right ev]. ring. }
  rewrite gprod_cons, ev_prodl_cons. cbn [gpow pwr]. rewrite !ev_pmulZ, IH. ring. Qed.
Lemma ev_dZ_gprod L : forall k x,
  ev (dZ (gprod L (Z.of_nat k))) x = ev (gpow L k) x * ev (wsum (Z.of_nat k + 1) 1 L) x.
Proof. induction L as [|b L IH]; intros k x. { cbn [gprod gpow wsum dZ diff_aux ev]. ring. }
  rewrite gprod_cons, dZ_mul, ev_dZ_pwr, IH, ev_gprod. cbn [gpow wsum pwr].
  rewrite !ev_paddZ, !ev_pscaleZ, !ev_pmulZ, !Nat2Z.inj_succ. unfold Z.succ. ring. Qed.

(* ---- units of Z/p *)
Lemma unit_mul a b : a mod p <> 0 -> b mod p <> 0 -> (a * b) mod p <> 0.
Proof. intros Ha Hb E. apply Z.mod_divide in E; [|lia]. apply prime_mult in E; [|assumption].
  destruct E as [E|E]; apply Z.mod_divide in E; lia. Qed.
Lemma unit_inv a : a mod p <> 0 -> inv p a mod p <> 0.
Proof. intros Ha E. pose proof (inv_spec p Hp a Ha) as I. rewrite <- Z.mul_mod_idemp_r, E, Z.mul_0_r, Z.mod_0_l in I by lia. lia. Qed.
Lemma unit_small c : 0 < c < p -> c mod p <> 0.
Proof. intros H. rewrite Z.mod_small; lia. Qed.

(* ---- GF(p)[X] is a domain: cancellation *)
Lemma eqp_cancel a x y : ~ eqp a [] -> eqp (pmulZ a x) (pmulZ a y) -> eqp x y.
Proof. intros Na H. set (d := paddZ x (pscaleZ (-1) y)).
  assert (Ca : canon (red p a)) by (apply canon_red; assumption).
  assert (Ce : canon (red p d)) by (apply canon_red; assumption).
  assert (Ha : red p a <> []) by (intros E; apply Na; rewrite <- E; apply eqp_sym, eqp_red; assumption).
  assert (E0 : eqp (pmulZ (red p a) (red p d)) []).
  { eapply eqp_trans; [apply eqp_mul; apply eqp_red; assumption|].
    apply eqp_trans with (paddZ (pmulZ a x) (pscaleZ (-1) (pmulZ a y))).
    { apply eqp_ev. intros z. unfold d. rewrite !ev_pmulZ, !ev_paddZ, !ev_pscaleZ, !ev_pmulZ. ring. }
    eapply eqp_trans; [apply eqp_add; [exact H|apply eqp_refl]|].
    apply eqp_ev. intros z. rewrite ev_paddZ, ev_pscaleZ. cbn [ev]. ring. }
  destruct (red p d) as [|e0 e'] eqn:Ed.
  - assert (D0 : eqp d []) by (rewrite <- Ed; apply eqp_sym, eqp_red; assumption).
    apply eqp_trans with (paddZ d y). { apply eqp_ev. intros z. unfold d. rewrite !ev_paddZ, ev_pscaleZ. ring. }
    eapply eqp_trans; [apply eqp_add; [exact D0|apply eqp_refl]|]. apply eqp_refl.
  - exfalso. pose proof (mul_not_short p Hp _ _ _ Ca Ce Ha ltac:(discriminate) E0) as M.
    destruct (red p a); [congruence|cbn [length] in M; lia]. Qed.

(* ---- coprimality through a Bezout identity *)
Definition coprime (a b : poly) : Prop := exists u v, eqp (paddZ (pmulZ a u) (pmulZ b v)) [1].

Lemma coprime_sym a b : coprime a b -> coprime b a.
Proof. intros [u [v H]]. exists v, u. eapply eqp_trans; [|exact H]. apply eqp_ev. intros x. rewrite !ev_paddZ. ring. Qed.
Lemma coprime_eqp_r a b b' : eqp b b' -> coprime a b -> coprime a b'.
Proof. intros E [u [v H]]. exists u, v. eapply eqp_trans; [|exact H].
  apply eqp_add; [apply eqp_refl|apply eqp_mul; [apply eqp_sym; exact E|apply eqp_refl]]. Qed.
Lemma coprime_eqp_l a a' b : eqp a a' -> coprime a b -> coprime a' b.
Proof. intros E H. apply coprime_sym. eapply coprime_eqp_r; [exact E|]. apply coprime_sym. exact H. Qed.
Lemma coprime_mul_r a b c : coprime a b -> coprime a c -> coprime a (pmulZ b c).
Proof. intros [u [v H]] [u' [v' H']].
  exists (paddZ (pmulZ u (paddZ (pmulZ a u') (pmulZ c v'))) (pmulZ (pmulZ b v) u')), (pmulZ v v').
  apply eqp_trans with (pmulZ (paddZ (pmulZ a u) (pmulZ b v)) (paddZ (pmulZ a u') (pmulZ c v'))).
  { apply eqp_ev. intros x. repeat (rewrite ?ev_paddZ, ?ev_pmulZ). ring. }
  eapply eqp_trans; [apply eqp_mul; [exact H|exact H']|]. apply eqp_ev. intros x. rewrite ev_pmulZ. cbn [ev]. ring. Qed.
Lemma coprime_mul_l a b c : coprime a c -> coprime b c -> coprime (pmulZ a b) c.
Proof. intros H1 H2. apply coprime_sym. apply coprime_mul_r; apply coprime_sym; assumption. Qed.
Lemma coprime_shift a b t : coprime a b -> coprime a (paddZ b (pmulZ a t)).
Proof. intros [u [v H]]. exists (paddZ u (pscaleZ (-1) (pmulZ t v))), v. eapply eqp_trans; [|exact H].
  apply eqp_ev. intros x. repeat (rewrite ?ev_paddZ, ?ev_pmulZ, ?ev_pscaleZ). ring. Qed.
Lemma coprime_const a c : c mod p <> 0 -> coprime a [c].
Proof. intros H. exists [], [inv p c]. eapply eqp_trans; [|apply (unit_scale c [1] H)].
  apply eqp_ev. intros x. rewrite ev_paddZ, !ev_pmulZ, ev_pscaleZ. cbn [ev]. ring. Qed.
Lemma coprime_scale_r a b c : c mod p <> 0 -> coprime a b -> coprime a (pscaleZ c b).
Proof. intros Hc H. apply coprime_eqp_r with (pmulZ [c] b).
  { apply eqp_ev. intros x. rewrite ev_pmulZ, ev_pscaleZ. cbn [ev]. ring. }
  apply coprime_mul_r; [apply coprime_const; assumption|assumption]. Qed.
Lemma coprime_scale_l a b c : c mod p <> 0 -> coprime a b -> coprime (pscaleZ c a) b.
Proof. intros Hc H. apply coprime_sym, coprime_scale_r; [assumption|apply coprime_sym; assumption]. Qed.
Lemma coprime_prodl a : forall L, (forall b, In b L -> coprime a b) -> coprime a (prodl L).
Proof. induction L as [|b L IH]; intros H. { apply (coprime_const a 1). apply unit_small. lia. }
  change (prodl (b :: L)) with (pmulZ b (prodl L)). apply coprime_mul_r; [apply H; left; reflexivity|].
  apply IH. intros c Hc. apply H. right. exact Hc. Qed.
(* common divisors of (g w, g z) with w, z coprime are the divisors of g *)
Lemma coprime_common_div d g w z : coprime w z -> divides d (pmulZ g w) -> divides d (pmulZ g z) -> divides d g.
Proof. intros [u [v H]] D1 D2. eapply divides_eqp; [apply (divides_lin p d _ _ u v D1 D2)|].
  apply eqp_trans with (pmulZ g (paddZ (pmulZ w u) (pmulZ z v))).
  { apply eqp_ev. intros x. repeat (rewrite ?ev_paddZ, ?ev_pmulZ). ring. }
  eapply eqp_trans; [apply eqp_mul; [apply eqp_refl|exact H]|]. apply eqp_ev. intros x. rewrite ev_pmulZ. cbn [ev]. ring. Qed.
Lemma coprime_gauss a b c : coprime a b -> divides a (pmulZ b c) -> divides a c.
Proof. intros H D. apply (coprime_common_div a c a b H).
  - apply divides_factor_r.
  - eapply divides_eqp; [exact D|]. apply eqp_ev. intros x. rewrite !ev_pmulZ. ring. Qed.
Lemma coprime_divides_unit a b : coprime a b -> divides a b -> divides a [1].
Proof. intros H D. apply (coprime_gauss a b [1] H). apply divides_mul_r. exact D. Qed.
(* the model's test "deg gcd <= 0" gives a Bezout identity *)
Lemma coprime_of_pgcd a b : canon a -> canon b -> a <> [] \/ b <> [] -> deg (pgcd p a b) <= 0 -> coprime a b.
Proof. intros Ca Cb Hab Hd. destruct (bezout a b Ca Cb) as [u [v B]].
  pose proof (pgcd_canon p Hp a b Ca Cb) as CG. pose proof (pgcd_nonnil a b Hab) as NG.
  assert (LG : length (pgcd p a b) = 1%nat) by (unfold deg in Hd; destruct (pgcd p a b); [congruence|cbn [length] in *; lia]).
  destruct (canon_len1 _ CG LG) as [k [Ek Hk]]. rewrite Ek in B.
  exists (pscaleZ (inv p k) u), (pscaleZ (inv p k) v).
  apply eqp_trans with (pscaleZ (inv p k) [k]).
  - eapply eqp_trans; [|apply eqp_scale; exact B]. apply eqp_ev. intros x. repeat (rewrite ?ev_pscaleZ, ?ev_paddZ, ?ev_pmulZ). ring.
  - eapply eqp_trans; [|apply (unit_scale k [1]); apply unit_small; assumption].
    apply eqp_ev. intros x. rewrite !ev_pscaleZ. cbn [ev]. ring. Qed.

(* ---- the gcd is determined up to associates; associates differ by a non-zero constant *)
Lemma gcd_char X Y g w z : canon X -> canon Y -> eqp X (pmulZ g w) -> eqp Y (pmulZ g z) -> coprime w z ->
  divides (pgcd p X Y) g /\ divides g (pgcd p X Y).
Proof. intros CX CY EX EY H. destruct (pgcd_divides_always X Y CX CY) as [D1 D2]. split.
  - apply (coprime_common_div _ g w z H); [exact (divides_eqp p _ _ _ D1 EX)|exact (divides_eqp p _ _ _ D2 EY)].
  - apply divides_eqp_l with (red p g); [apply eqp_red; assumption|].
    apply pgcd_greatest; auto using canon_red.
    + exists w. eapply eqp_trans; [apply eqp_mul; [apply eqp_red; assumption|apply eqp_refl]|apply eqp_sym; exact EX].
    + exists z. eapply eqp_trans; [apply eqp_mul; [apply eqp_red; assumption|apply eqp_refl]|apply eqp_sym; exact EY]. Qed.
Lemma assoc_const F a : ~ eqp a [] -> divides F a -> divides a F -> exists c, c mod p <> 0 /\ eqp F (pscaleZ c a).
Proof. intros Na [t Ht] [t' Ht'].
  assert (U : eqp (pmulZ t' t) [1]).
  { apply (eqp_cancel a); [assumption|]. apply eqp_trans with (pmulZ (pmulZ a t') t).
    { apply eqp_ev. intros x. rewrite !ev_pmulZ. ring. }
    eapply eqp_trans; [apply eqp_mul; [exact Ht'|apply eqp_refl]|]. eapply eqp_trans; [exact Ht|].
    apply eqp_ev. intros x. rewrite ev_pmulZ. cbn [ev]. ring. }
  assert (L : length (red p t') = 1%nat).
  { apply (divides_const_is_const _ 1); [apply canon_red; assumption|lia|]. exists t.
    eapply eqp_trans; [apply eqp_mul; [apply eqp_red; assumption|apply eqp_refl]|exact U]. }
  destruct (canon_len1 _ (canon_red p Hp t') L) as [c [Ec Hc]]. exists c. split; [apply unit_small; assumption|].
  eapply eqp_trans; [apply eqp_sym; exact Ht'|]. eapply eqp_trans; [apply eqp_mul; [apply eqp_refl|apply eqp_sym, eqp_red; assumption]|].
  rewrite Ec. apply eqp_ev. intros x. rewrite ev_pmulZ, ev_pscaleZ. cbn [ev]. ring. Qed.
Lemma canon_not_zero a : canon a -> a <> [] -> ~ eqp a [].
Proof. intros Ca Ha E. apply Ha. apply (canon_eqp_nil p Hp); assumption. Qed.
(* dividing  F X = c g t  by  F = mu g *)
Lemma cancel_scaled F g X t mu c : mu mod p <> 0 -> ~ eqp F [] -> eqp F (pscaleZ mu g) ->
  eqp (pmulZ F X) (pscaleZ c (pmulZ g t)) -> eqp X (pscaleZ (inv p mu * c) t).
Proof. intros Hm NF EF H. apply (eqp_cancel F); [assumption|]. eapply eqp_trans; [exact H|].
  apply eqp_trans with (pmulZ (pscaleZ mu g) (pscaleZ (inv p mu * c) t)); [|apply eqp_mul; [apply eqp_sym; exact EF|apply eqp_refl]].
  eapply eqp_trans; [apply eqp_sym; apply (unit_scale mu _ Hm)|].
  apply eqp_ev. intros x. repeat (rewrite ?ev_pmulZ, ?ev_pscaleZ). ring. Qed.

(* ---- the coprimality behind Yun: prod L and sum_j w_j b_j' prod_{i<>j} b_i are coprime when all weights are units *)
Fixpoint cop_list (L : list poly) : Prop :=
  match L with [] => True | b :: L' => coprime b (dZ b) /\ (forall a, In a L' -> coprime b a) /\ cop_list L' end.

Lemma coprime_wsum : forall L c s, cop_list L -> (forall j, (j < length L)%nat -> (c + s * Z.of_nat j) mod p <> 0) ->
  coprime (prodl L) (wsum c s L).
Proof. induction L as [|b L IH]; intros c s HL Hw.
  - exists [1], []. apply eqp_ev. intros x. unfold prodl. cbn [fold_right wsum]. rewrite ev_paddZ, !ev_pmulZ. cbn [ev]. ring.
  - destruct HL as [Hb [Hbl HL]]. change (prodl (b :: L)) with (pmulZ b (prodl L)). cbn [wsum].
    assert (Hc : c mod p <> 0).
    { specialize (Hw O ltac:(cbn [length]; lia)). change (Z.of_nat 0) with 0 in Hw. rewrite Z.mul_0_r, Z.add_0_r in Hw. exact Hw. }
    assert (HbL : coprime b (prodl L)) by (apply coprime_prodl; assumption).
    assert (IH' : coprime (prodl L) (wsum (c + s) s L)).
    { apply IH; [assumption|]. intros j Hj. specialize (Hw (S j) ltac:(cbn [length]; lia)). rewrite Nat2Z.inj_succ in Hw.
      replace (c + s + s * Z.of_nat j) with (c + s * Z.succ (Z.of_nat j)) by (unfold Z.succ; ring). exact Hw. }
    apply coprime_mul_l.
    + apply coprime_shift. apply coprime_scale_r; [assumption|]. apply coprime_mul_r; assumption.
    + apply coprime_eqp_r with (paddZ (pmulZ b (wsum (c + s) s L)) (pmulZ (prodl L) (pscaleZ c (dZ b)))).
      { apply eqp_ev. intros x. repeat (rewrite ?ev_paddZ, ?ev_pmulZ, ?ev_pscaleZ). ring. }
      apply coprime_shift. apply coprime_mul_r; [apply coprime_sym; assumption|assumption]. Qed.

(* Z = Y - W' keeps the shape, with the weights shifted down by one *)
Lemma yun_Z W Y L c : eqp W (pscaleZ c (prodl L)) -> eqp Y (pscaleZ c (wsum 1 1 L)) ->
  eqp (psub p Y (pdiff p W)) (pscaleZ c (wsum 0 1 L)).
Proof. intros EW EY. unfold psub. eapply eqp_trans; [apply eqp_red; assumption|].
  apply eqp_trans with (paddZ (pscaleZ c (wsum 1 1 L)) (pscaleZ (-1) (dZ (pscaleZ c (prodl L))))).
  - apply eqp_add; [exact EY|apply eqp_scale]. eapply eqp_trans; [apply pdiff_dZ|apply dZ_eqp; exact EW].
  - apply eqp_ev. intros x. rewrite ev_paddZ, !ev_pscaleZ, ev_dZ_scale, ev_dZ_prodl, (ev_wsum_lin L 1 1). ring. Qed.

(* equal up to a non-zero constant *)
Definition sim (f a : poly) : Prop := exists c, c mod p <> 0 /\ eqp f (pscaleZ c a).

Lemma sqr_loop_step r W Y z Zp acc : sqr_loop p (S (S r)) W Y (z :: Zp) acc =
  sqr_loop p (S r) (pdiv p W (pgcd p W (z :: Zp))) (pdiv p (z :: Zp) (pgcd p W (z :: Zp)))
    (psub p (pdiv p (z :: Zp) (pgcd p W (z :: Zp))) (pdiff p (pdiv p W (pgcd p W (z :: Zp)))))
    (acc ++ [pgcd p W (z :: Zp)]).
Proof. reflexivity. Qed.
Lemma last_in (l : list poly) d : l <> [] -> In (last l d) l.
Proof. induction l as [|a l IH]; intros H; [congruence|]. destruct l as [|b l]; [left; reflexivity|].
  right. change (last (a :: b :: l) d) with (last (b :: l) d). apply IH. discriminate. Qed.

(* the Yun loop on  W = c prod L,  Z = c sum_j j b_j' prod_{i<>j} b_i  peels off b_0, b_1, ... one per round *)
Lemma sqr_loop_yun : forall L' b rem W Y Zp acc c,
  Forall (fun a => canon a /\ a <> []) (b :: L') -> cop_list (b :: L') -> Z.of_nat (length (b :: L')) < p ->
  ~ divides (last (b :: L') [1]) [1] -> c mod p <> 0 -> canon W -> canon Zp ->
  eqp W (pscaleZ c (prodl (b :: L'))) -> eqp Zp (pscaleZ c (wsum 0 1 (b :: L'))) -> (length (b :: L') <= rem)%nat ->
  exists N Wf, sqr_loop p rem W Y Zp acc = (false, acc ++ N, Wf) /\ Forall2 sim (N ++ [Wf]) (b :: L').
Proof. induction L' as [|b2 L'' IH]; intros b rem W Y Zp acc c FL HL Hlen Hlast Hc CW CZ EW EZ Hrem.
  - assert (Zp = []).
    { apply (canon_eqp_nil p Hp); [assumption|]. eapply eqp_trans; [exact EZ|]. apply eqp_ev. intros x.
      rewrite ev_pscaleZ, ev_wsum_0. cbn [wsum ev]. ring. }
    subst Zp. exists [], W. split; [destruct rem; rewrite app_nil_r; reflexivity|].
    constructor; [|constructor]. exists c. split; [assumption|]. eapply eqp_trans; [exact EW|].
    apply eqp_ev. intros x. rewrite !ev_pscaleZ, ev_prodl1. ring.
  - set (L' := b2 :: L'') in *.
    inversion FL as [|? ? [Cb Nb] FL']; subst. destruct HL as [Hb [Hbl HL']].
    assert (Hcop : coprime (pscaleZ c (prodl L')) (pscaleZ c (wsum 1 1 L'))).
    { apply coprime_scale_l; [assumption|]. apply coprime_scale_r; [assumption|]. apply coprime_wsum; [assumption|].
      intros j Hj. apply unit_small. cbn [length] in Hlen. lia. }
    assert (EW' : eqp W (pmulZ b (pscaleZ c (prodl L')))).
    { eapply eqp_trans; [exact EW|]. apply eqp_ev. intros x. rewrite ev_pscaleZ, ev_prodl_cons, ev_pmulZ, ev_pscaleZ. ring. }
    assert (EZ' : eqp Zp (pmulZ b (pscaleZ c (wsum 1 1 L')))).
    { eapply eqp_trans; [exact EZ|]. apply eqp_ev. intros x. rewrite ev_pscaleZ, ev_wsum_0, ev_pmulZ, ev_pscaleZ. ring. }
    pose proof (canon_not_zero b Cb Nb) as Zb.
    destruct Zp as [|z0 Zp0].
    { exfalso. apply Hlast. change (last (b :: L') [1]) with (last L' [1]).
      assert (E0 : eqp (pscaleZ c (wsum 1 1 L')) []).
      { apply (eqp_cancel b); [assumption|]. eapply eqp_trans; [apply eqp_sym; exact EZ'|].
        apply eqp_ev. intros x. rewrite ev_pmulZ. cbn [ev]. ring. }
      destruct (coprime_eqp_r _ _ _ E0 Hcop) as [u [v H]].
      apply divides_trans with (prodl L'); [apply in_divides_prodl, last_in; discriminate|].
      exists (pscaleZ c u). eapply eqp_trans; [|exact H]. apply eqp_ev. intros x.
      repeat (rewrite ?ev_paddZ, ?ev_pmulZ, ?ev_pscaleZ). cbn [ev]. ring. }
    destruct rem as [|[|r]]; [unfold L' in Hrem; cbn [length] in Hrem; lia|unfold L' in Hrem; cbn [length] in Hrem; lia|].
    rewrite sqr_loop_step. set (Zp := z0 :: Zp0) in *. set (F := pgcd p W Zp) in *.
    destruct (gcd_char W Zp b _ _ CW CZ EW' EZ' Hcop) as [G1 G2]. fold F in G1, G2.
    destruct (assoc_const F b Zb G1 G2) as [mu [Hmu EF]].
    assert (CF : canon F) by (apply pgcd_canon; assumption).
    assert (NF : F <> []) by (apply pgcd_nonnil; right; discriminate).
    destruct (pgcd_divides_always W Zp CW CZ) as [DW DZ]. fold F in DW, DZ.
    destruct (div_exact p Hp W F CW CF NF DW) as [ExW CW1]. destruct (div_exact p Hp Zp F CZ CF NF DZ) as [ExY CY1].
    pose proof (canon_not_zero F CF NF) as ZF.
    assert (Hc' : (inv p mu * c) mod p <> 0) by (apply unit_mul; [apply unit_inv; assumption|assumption]).
    assert (EW1 : eqp (pdiv p W F) (pscaleZ (inv p mu * c) (prodl L'))).
    { apply (cancel_scaled F b _ _ mu c Hmu ZF EF). exact (eqp_trans p _ _ _ ExW EW). }
    assert (EY1 : eqp (pdiv p Zp F) (pscaleZ (inv p mu * c) (wsum 1 1 L'))).
    { apply (cancel_scaled F b _ _ mu c Hmu ZF EF). eapply eqp_trans; [exact ExY|]. eapply eqp_trans; [exact EZ|].
      apply eqp_ev. intros x. rewrite !ev_pscaleZ, ev_wsum_0, ev_pmulZ. ring. }
    pose proof (yun_Z _ _ L' _ EW1 EY1) as EZ1.
    destruct (IH b2 (S r) (pdiv p W F) (pdiv p Zp F) (psub p (pdiv p Zp F) (pdiff p (pdiv p W F))) (acc ++ [F]) (inv p mu * c))
      as [N [Wf [E F2]]]; auto.
    + unfold L' in *. cbn [length] in *. lia.
    + apply canon_red; assumption.
    + unfold L' in *. cbn [length] in *. lia.
    + exists (F :: N), Wf. split; [rewrite E, <- app_assoc; reflexivity|].
      constructor; [exists mu; auto|exact F2]. Qed.

(* hypotheses in the model's own terms: canonical, non-zero, square-free (gcd with the derivative constant),
   pairwise coprime (gcd constant) *)
Fixpoint yun_hyp (L : list poly) : Prop :=
  match L with [] => True | b :: L' => canon b /\ b <> [] /\ deg (pgcd p b (pdiff p b)) <= 0 /\
    (forall a, In a L' -> deg (pgcd p b a) <= 0) /\ yun_hyp L' end.
Lemma yun_hyp_forall : forall L, yun_hyp L -> Forall (fun a => canon a /\ a <> []) L.
Proof. induction L as [|b L IH]; intros H; [constructor|]. destruct H as [Cb [Nb [_ [_ HL]]]]. constructor; auto. Qed.
Lemma yun_hyp_cop : forall L, yun_hyp L -> cop_list L.
Proof. induction L as [|b L IH]; intros H; [exact I|]. destruct H as [Cb [Nb [Hs [Hc HL]]]].
  split; [|split; [|apply IH; assumption]].
  - apply coprime_eqp_r with (pdiff p b); [apply pdiff_dZ|]. apply coprime_of_pgcd; auto using pdiff_canon.
  - intros a Ha. pose proof (yun_hyp_forall L HL) as FL. rewrite Forall_forall in FL. destruct (FL a Ha) as [Ca _].
    apply coprime_of_pgcd; auto. Qed.
Lemma in_divides_gpow b : forall L k, In b L -> (1 <= k)%nat -> divides b (gpow L k).
Proof. induction L as [|a L IH]; intros k H Hk; [contradiction|]. cbn [gpow]. destruct H as [->|H].
  - destruct k as [|k]; [lia|]. cbn [pwr]. apply divides_mul_r, divides_factor_l.
  - apply divides_mul_l, IH; [assumption|lia]. Qed.
Lemma Forall2_len (A B : Type) (R : A -> B -> Prop) l l' : Forall2 R l l' -> length l = length l'.
Proof. induction 1; cbn [length]; congruence. Qed.
Lemma last_indep (l : list poly) d d' : l <> [] -> last l d = last l d'.
Proof. induction l as [|a l IH]; intros H; [congruence|]. destruct l; [reflexivity|]. apply IH. discriminate. Qed.

(* Yun's recurrence is exact: if the monic A = P / lc P is  a_1^1 a_2^2 ... a_m^m  with the a_i canonical, square-free,
   pairwise coprime, a_m not constant, m < p (so no exponent is a multiple of p) and m <= Nfact (no early exit), then
   sqrfree returns m and the parts a_1, ..., a_m, each up to a non-zero constant factor *)
Theorem sqrfree_yun Nfact P L : canon P -> P <> [] -> L <> [] -> yun_hyp L -> eqp (sq_A p P) (gprod L 0) ->
  Z.of_nat (length L) < p -> Z.of_nat (length L) <= Nfact -> 1 <= deg (last L []) ->
  fst (sqrfree p Nfact P) = Z.of_nat (length L) /\ Forall2 sim (snd (sqrfree p Nfact P)) L.
Proof. intros CP HP NL HY HA Hm HNf Hdeg.
  destruct (sq_A_facts P CP HP) as [CA [NA _]]. destruct (sq_C_facts P CP HP) as [CC [NC [DCA [DCB DDC]]]].
  pose proof (yun_hyp_forall L HY) as FL. pose proof (yun_hyp_cop L HY) as HL.
  set (G := gpow L 0).
  assert (EA : eqp (sq_A p P) (pmulZ G (prodl L))).
  { eapply eqp_trans; [exact HA|]. apply eqp_ev. intros x. rewrite ev_pmulZ. apply (ev_gprod L 0). }
  assert (EB : eqp (pdiff p (sq_A p P)) (pmulZ G (wsum 1 1 L))).
  { eapply eqp_trans; [apply pdiff_dZ|]. eapply eqp_trans; [apply dZ_eqp; exact HA|].
    apply eqp_ev. intros x. rewrite ev_pmulZ. apply (ev_dZ_gprod L 0). }
  assert (Hcop : coprime (prodl L) (wsum 1 1 L)).
  { apply coprime_wsum; [assumption|]. intros j Hj. apply unit_small. lia. }
  destruct (gcd_char _ _ G _ _ CA (pdiff_canon _) EA EB Hcop) as [_ GD].
  pose proof (divides_trans _ _ _ GD DDC) as GC.
  pose proof (coprime_common_div _ G _ _ Hcop (divides_eqp p _ _ _ DCA EA) (divides_eqp p _ _ _ DCB EB)) as CG.
  assert (ZG : ~ eqp G []).
  { intros E. apply NA. apply (canon_eqp_nil p Hp); [assumption|]. eapply eqp_trans; [exact EA|].
    eapply eqp_trans; [apply eqp_mul; [exact E|apply eqp_refl]|]. apply eqp_refl. }
  destruct (assoc_const _ G ZG CG GC) as [kap [Hkap EC]].
  assert (Hlast : ~ divides (last L [1]) [1]).
  { rewrite (last_indep L [1] [] NL). intros D1. rewrite Forall_forall in FL.
    destruct (FL _ (last_in L [] NL)) as [Cl _]. pose proof (divides_const_is_const _ 1 Cl ltac:(lia) D1) as L1.
    unfold deg in Hdeg. lia. }
  assert (HN0 : Nfact <> 0) by (destruct L; [congruence|cbn [length] in HNf; lia]).
  unfold sqrfree. destruct (Z.eqb_spec Nfact 0) as [|_]; [contradiction|]. cbv zeta.
  change (pscale p (inv p (lc P)) P) with (sq_A p P).
  change (pscale p (inv p (lc (pgcd p (sq_A p P) (pdiff p (sq_A p P))))) (pgcd p (sq_A p P) (pdiff p (sq_A p P)))) with (sq_C p P).
  set (A := sq_A p P) in *. set (C := sq_C p P) in *.
  destruct L as [|b L']; [congruence|].
  destruct (list_eq_dec Z.eq_dec C pone) as [EC1|_].
  - destruct L' as [|b2 L''].
    + cbn [fst snd length]. split; [reflexivity|]. constructor; [|constructor]. exists 1. split; [apply unit_small; lia|].
      eapply eqp_trans; [exact HA|]. apply eqp_ev. intros x. cbn [gprod]. change (Z.to_nat (0 + 1)) with 1%nat. cbn [pwr].
      rewrite !ev_pmulZ, ev_pscaleZ. cbn [ev]. ring.
    + exfalso. apply Hlast. change (last (b :: b2 :: L'') [1]) with (last (b2 :: L'') [1]).
      rewrite EC1 in GC. eapply divides_trans; [|exact GC]. unfold G. change (gpow (b :: b2 :: L'') 0) with (pmulZ (pwr b 0) (gpow (b2 :: L'') 1)). apply divides_mul_l.
      apply in_divides_gpow; [apply last_in; discriminate|lia].
  - destruct (div_exact p Hp A C CA CC NC DCA) as [ExW CW].
    destruct (div_exact p Hp (pdiff p A) C (pdiff_canon _) CC NC DCB) as [ExY CY].
    pose proof (canon_not_zero C CC NC) as ZC.
    assert (EW : eqp (pdiv p A C) (pscaleZ (inv p kap * 1) (prodl (b :: L')))).
    { apply (cancel_scaled C G _ _ kap 1 Hkap ZC EC). eapply eqp_trans; [exact ExW|]. eapply eqp_trans; [exact EA|].
      apply eqp_ev. intros x. rewrite ev_pscaleZ. ring. }
    assert (EY : eqp (pdiv p (pdiff p A) C) (pscaleZ (inv p kap * 1) (wsum 1 1 (b :: L')))).
    { apply (cancel_scaled C G _ _ kap 1 Hkap ZC EC). eapply eqp_trans; [exact ExY|]. eapply eqp_trans; [exact EB|].
      apply eqp_ev. intros x. rewrite ev_pscaleZ. ring. }
    pose proof (yun_Z _ _ _ _ EW EY) as EZ.
    destruct (sqr_loop_yun L' b (Z.to_nat Nfact + 1) (pdiv p A C) (pdiv p (pdiff p A) C)
                (psub p (pdiv p (pdiff p A) C) (pdiff p (pdiv p A C))) [] (inv p kap * 1)) as [N [Wf [E F2]]]; auto.
    + apply unit_mul; [apply unit_inv; assumption|apply unit_small; lia].
    + apply canon_red; assumption.
    + lia.
    + rewrite E. cbn [fst snd app]. split; [|exact F2].
      pose proof (Forall2_len _ _ _ _ _ F2) as LN. rewrite app_length in LN. cbn [length] in LN. cbn [length]. lia. Qed.

End P.

(* ================= closed statements ================= *)
(* S1a: Poly1Dom::gcd is the greatest common divisor (every branch; holds also for P = Q = []) *)
Definition Pgcd_greatest_stmt : Prop := forall p, prime p -> forall P Q D,
  canon p P -> canon p Q -> canon p D -> divides p D P -> divides p D Q -> divides p D (pgcd p P Q).
Lemma pgcd_greatest_thm : Pgcd_greatest_stmt.
Proof. exact pgcd_greatest. Qed.

(* S1b: its value divides both arguments, with no hypothesis on the degree of the result; and it is not zero
   unless both arguments are *)
Definition Pgcd_divides_stmt : Prop := forall p, prime p -> forall P Q, canon p P -> canon p Q ->
  divides p (pgcd p P Q) P /\ divides p (pgcd p P Q) Q /\ (P <> [] \/ Q <> [] -> pgcd p P Q <> []).
Lemma pgcd_divides_thm : Pgcd_divides_stmt.
Proof. intros p Hp P Q CP CQ. destruct (pgcd_divides_always p Hp P Q CP CQ). auto using pgcd_nonnil. Qed.

(* S2a: coefficients of Poly1Dom::diff, canonical result, congruent to the raw derivative dZ; any input list *)
Definition Pdiff_coeff_stmt : Prop := forall p, prime p -> forall A,
  (forall i, nth i (pdiff p A) 0 = ((Z.of_nat i + 1) * nth (S i) A 0) mod p) /\ canon p (pdiff p A) /\ eqp p (pdiff p A) (dZ A).
Lemma pdiff_coeff_thm : Pdiff_coeff_stmt.
Proof. intros p Hp A. split; [intros i; apply pdiff_coeff|]. split; [apply pdiff_canon|apply pdiff_dZ]; assumption. Qed.

(* S2b: Leibniz rule over Z[X] (as polynomial functions, hence coefficientwise by ev_inj) *)
Definition DZ_leibniz_stmt : Prop := forall a b x, ev (dZ (pmulZ a b)) x = ev (dZ a) x * ev b x + ev a x * ev (dZ b) x.
Lemma dZ_leibniz_thm : DZ_leibniz_stmt.
Proof. exact dZ_mul. Qed.

(* S2c: the derivative respects congruence modulo p, and Leibniz holds for diff in GF(p)[X] *)
Definition Pdiff_leibniz_stmt : Prop := forall p, prime p ->
  (forall a b, eqp p a b -> eqp p (dZ a) (dZ b)) /\
  (forall a b, eqp p (pdiff p (pmul p a b)) (paddZ (pmulZ (pdiff p a) b) (pmulZ a (pdiff p b)))).
Lemma pdiff_leibniz_thm : Pdiff_leibniz_stmt.
Proof. intros p Hp. split; [apply dZ_eqp|apply pdiff_mul]; assumption. Qed.

(* S3a: completeness of the square-free parts, every characteristic: with A = P/lc P and C = gcd(A,A')/lc, when sqrfree
   did not leave by `++count > Nfact` (observable: the count returned is the number of parts stored), the parts
   multiply -- without multiplicities -- to A / C *)
Definition Sqrfree_parts_stmt : Prop := forall p, prime p -> forall Nfact P n Fact,
  canon p P -> P <> [] -> Nfact <> 0 -> sqrfree p Nfact P = (n, Fact) -> n = Z.of_nat (length Fact) ->
  eqp p (pmulZ (sq_C p P) (prodl (firstn (Z.to_nat n) Fact))) (sq_A p P).
Lemma sqrfree_parts_thm : Sqrfree_parts_stmt.
Proof. exact sqrfree_parts. Qed.

(* S3b: the dichotomy: either the above, or the early exit: n = Nfact, Nfact+1 parts stored, and C * Wf * (all stored parts) = A *)
Definition Sqrfree_cases_stmt : Prop := forall p, prime p -> forall Nfact P, canon p P -> P <> [] -> Nfact <> 0 ->
  (fst (sqrfree p Nfact P) = Z.of_nat (length (snd (sqrfree p Nfact P))) /\
   eqp p (pmulZ (sq_C p P) (prodl (snd (sqrfree p Nfact P)))) (sq_A p P)) \/
  (fst (sqrfree p Nfact P) = Nfact /\ length (snd (sqrfree p Nfact P)) = S (Z.to_nat Nfact) /\
   exists Wf, eqp p (pmulZ (sq_C p P) (pmulZ Wf (prodl (snd (sqrfree p Nfact P))))) (sq_A p P)).
Lemma sqrfree_cases_thm : Sqrfree_cases_stmt.
Proof. exact sqrfree_parts_gen. Qed.

(* S3c: soundness in every case (every Nfact, early exit or not): C * (product of the first n parts) divides A, and
   every stored part divides P *)
Definition Sqrfree_sound_stmt : Prop := forall p, prime p -> forall Nfact P n Fact, canon p P -> sqrfree p Nfact P = (n, Fact) ->
  (P <> [] -> divides p (pmulZ (sq_C p P) (prodl (firstn (Z.to_nat n) Fact))) (sq_A p P)) /\
  (forall g, In g Fact -> divides p g P).
Lemma sqrfree_sound_thm : Sqrfree_sound_stmt.
Proof. intros p Hp Nfact P n Fact CP H. split.
  - intros HP. apply (sqrfree_sound p Hp Nfact P n Fact CP HP H).
  - intros g Hg. exact (sqrfree_part_divides p Hp Nfact P n Fact g CP H Hg). Qed.

(* S4a: CZfactor invents no factor: every input, every characteristic, every MOD, every random stream *)
Definition Czfactor_divides_stmt : Prop := forall p, prime p -> forall P MOD s Lf Le s', canon p P ->
  czfactor p P MOD s = Some (Lf, Le, s') -> forall f, In f Lf -> divides p f P.
Lemma czfactor_divides_thm : Czfactor_divides_stmt.
Proof. exact czfactor_factors_divide. Qed.

(* S4b: all returned factors together, each taken once, times a constant U, are the product of the square-free parts used;
   times C they divide A; and give exactly A when sqrfree did not leave by its early exit *)
Definition Czfactor_radical_stmt : Prop := forall p, prime p -> forall P MOD s Lf Le s', canon p P -> P <> [] ->
  czfactor p P MOD s = Some (Lf, Le, s') ->
  exists U, deg U <= 0 /\
    eqp p (pmulZ (prodl Lf) U) (prodl (firstn (Z.to_nat (fst (sqrfree p (deg P + 1) P))) (snd (sqrfree p (deg P + 1) P)))) /\
    divides p (pmulZ (sq_C p P) (pmulZ (prodl Lf) U)) (sq_A p P) /\
    (fst (sqrfree p (deg P + 1) P) = Z.of_nat (length (snd (sqrfree p (deg P + 1) P))) ->
     eqp p (pmulZ (sq_C p P) (pmulZ (prodl Lf) U)) (sq_A p P)).
Lemma czfactor_radical_thm : Czfactor_radical_stmt.
Proof. exact czfactor_radical. Qed.

(* S5a: Bezout *)
Definition Bezout_stmt : Prop := forall p, prime p -> forall P Q, canon p P -> canon p Q ->
  exists u v, eqp p (paddZ (pmulZ P u) (pmulZ Q v)) (pgcd p P Q).
Lemma bezout_thm : Bezout_stmt.
Proof. exact bezout. Qed.

(* S5b: Gauss *)
Definition Gauss_stmt : Prop := forall p, prime p -> forall a b c, canon p a -> canon p b -> a <> [] \/ b <> [] ->
  deg (pgcd p a b) <= 0 -> divides p a (pmulZ b c) -> divides p a c.
Lemma gauss_thm : Gauss_stmt.
Proof. exact gauss. Qed.

(* ================= the hypotheses are satisfiable ================= *)
Lemma prime_5_sqr : prime 5.
Proof. apply prime_intro; [lia|]. intros n Hn.
  assert (n = 1 \/ n = 2 \/ n = 3 \/ n = 4) as [|[|[|]]] by lia; subst; apply Zgcd_1_rel_prime; reflexivity. Qed.
Ltac canon_lit := split; [repeat constructor; lia|cbn; lia].

(* gcd(X^2 - 1, X^2 + 4X + 3) = X + 1 over GF(5); D = X + 1 is a common divisor *)
Example pgcd_greatest_example : prime 5 /\ canon 5 [4; 0; 1] /\ canon 5 [3; 4; 1] /\ canon 5 [1; 1] /\
  divides 5 [1; 1] [4; 0; 1] /\ divides 5 [1; 1] [3; 4; 1] /\ pgcd 5 [4; 0; 1] [3; 4; 1] = [1; 1].
Proof. split; [exact prime_5_sqr|]. split; [canon_lit|]. split; [canon_lit|]. split; [canon_lit|].
  split; [exists [4; 1]; exists [0; 1]; intros x; cbn [pmulZ pscaleZ paddZ map ev]; ring|].
  split; [exists [3; 1]; exists []; intros x; cbn [pmulZ pscaleZ paddZ map ev]; ring|]. vm_compute. reflexivity. Qed.
(* the branch where the model answers 1: coprime arguments *)
Example pgcd_divides_example : prime 5 /\ canon 5 [1; 1] /\ canon 5 [2; 1] /\ pgcd 5 [1; 1] [2; 1] = pone.
Proof. split; [exact prime_5_sqr|]. split; [canon_lit|]. split; [canon_lit|]. vm_compute. reflexivity. Qed.
Example pdiff_example : prime 5 /\ pdiff 5 [1; 2; 3; 4] = [2; 1; 2] /\ dZ [1; 2; 3; 4] = [2; 6; 12].
Proof. split; [exact prime_5_sqr|]. split; vm_compute; reflexivity. Qed.
(* characteristic 2, P = X^2 (multiplicity = characteristic, where the p-th-root defect bites): the statement holds *)
Example sqrfree_parts_example_char2 : prime 2 /\ canon 2 [0; 0; 1] /\ [0; 0; 1] <> [] /\ 3 <> 0 /\
  sqrfree 2 3 [0; 0; 1] = (1, [[1]]) /\ 1 = Z.of_nat (length [[1]]) /\ sq_C 2 [0; 0; 1] = [0; 0; 1].
Proof. split; [exact prime_2|]. split; [canon_lit|]. split; [discriminate|]. split; [lia|].
  split; [vm_compute; reflexivity|]. split; vm_compute; reflexivity. Qed.
(* P = 2 X^2 (X+1) over GF(3): parts [X+1; X], C = X *)
Example sqrfree_parts_example : prime 3 /\ canon 3 [0; 0; 2; 2] /\ [0; 0; 2; 2] <> [] /\ 5 <> 0 /\
  sqrfree 3 5 [0; 0; 2; 2] = (2, [[1; 1]; [0; 1]]) /\ 2 = Z.of_nat (length [[1; 1]; [0; 1]]) /\
  sq_A 3 [0; 0; 2; 2] = [0; 0; 1; 1] /\ sq_C 3 [0; 0; 2; 2] = [0; 1].
Proof. split; [exact prime_3|]. split; [canon_lit|]. split; [discriminate|]. split; [lia|].
  split; [vm_compute; reflexivity|]. split; [vm_compute; reflexivity|]. split; vm_compute; reflexivity. Qed.
(* the early exit is reachable: P = X (X+1)^2 (X+2)^3 over GF(5) with Nfact = 1 stores Nfact + 1 = 2 parts and returns n = 1 *)
Example sqrfree_early_exit_example : prime 5 /\ canon 5 [0; 3; 3; 3; 0; 3; 1] /\
  sqrfree 5 1 [0; 3; 3; 3; 0; 3; 1] = (1, [[0; 2]; [3; 3]]) /\ length [[0; 2]; [3; 3]] = S (Z.to_nat 1) /\
  sqrfree 5 7 [0; 3; 3; 3; 0; 3; 1] = (3, [[0; 2]; [3; 3]; [2; 1]]).
Proof. split; [exact prime_5_sqr|]. split; [canon_lit|]. split; [vm_compute; reflexivity|]. split; vm_compute; reflexivity. Qed.
Example czfactor_example : prime 3 /\ canon 3 [0; 0; 2; 2] /\
  czfactor 3 [0; 0; 2; 2] 3 [1; 2; 1; 1; 2; 0; 1] = Some ([[1; 1]; [0; 1]], [1; 2], [1; 2; 1; 1; 2; 0; 1]).
Proof. split; [exact prime_3|]. split; [canon_lit|]. vm_compute. reflexivity. Qed.
Example czfactor_example_split : prime 5 /\ canon 5 [4; 0; 1] /\
  czfactor 5 [4; 0; 1] 5 [1; 2; 3; 1; 4; 2; 0; 1; 1; 1; 1; 2; 3; 4] = Some ([[4; 4]; [1; 4]], [1; 1], [3; 1; 4; 2; 0; 1; 1; 1; 1; 2; 3; 4]).
Proof. split; [exact prime_5_sqr|]. split; [canon_lit|]. vm_compute. reflexivity. Qed.
(* Gauss: X+1 is coprime to X+2 and divides (X+2)(X+1) *)
Example gauss_example : prime 5 /\ canon 5 [1; 1] /\ canon 5 [2; 1] /\ deg (pgcd 5 [1; 1] [2; 1]) <= 0 /\
  divides 5 [1; 1] (pmulZ [2; 1] [1; 1]).
Proof. split; [exact prime_5_sqr|]. split; [canon_lit|]. split; [canon_lit|]. split; [vm_compute; discriminate|].
  exists [2; 1]. exists []. intros x. cbn [pmulZ pscaleZ paddZ map ev]. ring. Qed.

(* S5c: Yun's recurrence is exact when it should be.  yun_hyp p [a_1; ...; a_m]: every a_i canonical, non-zero,
   deg gcd(a_i, a_i') <= 0, deg gcd(a_i, a_j) <= 0 for i < j.  sim p f a: f = c a for a constant c <> 0 mod p. *)
Definition Sqrfree_yun_stmt : Prop := forall p, prime p -> forall Nfact P L,
  canon p P -> P <> [] -> L <> [] -> yun_hyp p L -> eqp p (sq_A p P) (gprod L 0) ->
  Z.of_nat (length L) < p -> Z.of_nat (length L) <= Nfact -> 1 <= deg (last L []) ->
  fst (sqrfree p Nfact P) = Z.of_nat (length L) /\ Forall2 (sim p) (snd (sqrfree p Nfact P)) L.
Lemma sqrfree_yun_thm : Sqrfree_yun_stmt.
Proof. exact sqrfree_yun. Qed.

(* P = X (X+1)^2 (X+2)^3 over GF(5), m = 3 < 5 *)
Example sqrfree_yun_example : prime 5 /\ canon 5 [0; 3; 3; 3; 0; 3; 1] /\ yun_hyp 5 [[0; 1]; [1; 1]; [2; 1]] /\
  eqp 5 (sq_A 5 [0; 3; 3; 3; 0; 3; 1]) (gprod [[0; 1]; [1; 1]; [2; 1]] 0) /\ Z.of_nat 3 < 5 /\ Z.of_nat 3 <= 7 /\
  1 <= deg (last [[0; 1]; [1; 1]; [2; 1]] []) /\ sqrfree 5 7 [0; 3; 3; 3; 0; 3; 1] = (3, [[0; 2]; [3; 3]; [2; 1]]).
Proof. split; [exact prime_5_sqr|]. split; [canon_lit|]. split.
  { cbn [yun_hyp]. split; [canon_lit|]. split; [discriminate|]. split; [vm_compute; discriminate|]. split.
    { intros a [<-|[<-|[]]]; vm_compute; discriminate. }
    split; [canon_lit|]. split; [discriminate|]. split; [vm_compute; discriminate|]. split.
    { intros a [<-|[]]; vm_compute; discriminate. }
    split; [canon_lit|]. split; [discriminate|]. split; [vm_compute; discriminate|]. split; [intros a []|exact I]. }
  split. { replace (sq_A 5 [0; 3; 3; 3; 0; 3; 1]) with (red 5 (gprod [[0; 1]; [1; 1]; [2; 1]] 0)) by (vm_compute; reflexivity).
           apply eqp_red. exact prime_5_sqr. }
  split; [cbn; lia|]. split; [cbn; lia|]. split; [vm_compute; discriminate|]. vm_compute. reflexivity. Qed.
