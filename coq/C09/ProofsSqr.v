(* C09 proofs, part 8: Euclid's gcd is the GREATEST common divisor and always divides; the derivative (coefficients,
   Leibniz rule); the square-free decomposition loses and invents nothing, in every characteristic; CZfactor returns only
   divisors of its input, for every random stream; Bezout and Gauss.
   Everything is proved for all inputs by induction / loop invariants / the evaluation homomorphism `ev`; nothing is computed
   (except in the `Example`s, which only show that hypotheses are satisfiable). *)
From Coq Require Import ZArith List Bool Lia Znumtheory.
From C09 Require Import Model ProofsAlg ProofsDiv ProofsSplit ProofsCZ ProofsIrr.
Import ListNotations.
Local Open Scope Z_scope.
Ltac Zify.zify_post_hook ::= Z.div_mod_to_equations.

(* ================= the derivative over Z[X] (no reduction) ================= *)
(* raw derivative: coefficient i of dZ a is (i+1) * a_{i+1} *)
Definition dZ (a : poly) : poly := match a with [] => [] | _ :: r => diff_aux 1 r end.

Lemma nth_diff_aux a : forall i k, nth k (diff_aux i a) 0 = (i + Z.of_nat k) * nth k a 0.
Proof. induction a as [|c a IH]; intros i k; cbn [diff_aux].
  - destruct k; cbn [nth]; lia.
  - destruct k as [|k]; cbn [nth]. { change (Z.of_nat 0) with 0. rewrite Z.add_0_r. reflexivity. }
    rewrite IH, Nat2Z.inj_succ. f_equal. lia. Qed.
Lemma nth_dZ a k : nth k (dZ a) 0 = (Z.of_nat k + 1) * nth (S k) a 0.
Proof. destruct a as [|c a]; cbn [dZ nth]. { destruct k; cbn [nth]; lia. } rewrite nth_diff_aux. f_equal. lia. Qed.

Lemma ev_diff_aux_succ a : forall i x, ev (diff_aux (i + 1) a) x = ev a x + ev (diff_aux i a) x.
Proof. induction a as [|c a IH]; intros i x; cbn [diff_aux ev]; [lia|]. rewrite (IH (i + 1)). ring. Qed.
Lemma ev_diff_aux_0 a x : ev (diff_aux 0 a) x = x * ev (dZ a) x.
Proof. destruct a as [|c a]; cbn [diff_aux dZ ev]; [lia|]. change (0 + 1) with 1. ring. Qed.
(* (c + X a)' = a + X a' *)
Lemma ev_dZ_cons c a x : ev (dZ (c :: a)) x = ev a x + x * ev (dZ a) x.
Proof. cbn [dZ]. replace (diff_aux 1 a) with (diff_aux (0 + 1) a) by reflexivity.
  rewrite ev_diff_aux_succ, ev_diff_aux_0. reflexivity. Qed.
Lemma ev_diff_aux_add a : forall b i x, ev (diff_aux i (paddZ a b)) x = ev (diff_aux i a) x + ev (diff_aux i b) x.
Proof. induction a as [|c a IH]; intros [|d b] i x; cbn [paddZ diff_aux ev]; rewrite ?IH; ring. Qed.
Lemma ev_diff_aux_scale c a : forall i x, ev (diff_aux i (pscaleZ c a)) x = c * ev (diff_aux i a) x.
Proof. unfold pscaleZ. induction a as [|d a IH]; intros i x; cbn [map diff_aux ev]; rewrite ?IH; ring. Qed.
Lemma ev_dZ_add a b x : ev (dZ (paddZ a b)) x = ev (dZ a) x + ev (dZ b) x.
Proof. destruct a as [|c a], b as [|d b]; cbn [paddZ dZ ev]; try ring. apply ev_diff_aux_add. Qed.
Lemma ev_dZ_scale c a x : ev (dZ (pscaleZ c a)) x = c * ev (dZ a) x.
Proof. destruct a as [|d a]; cbn [pscaleZ map dZ ev]; [ring|]. apply (ev_diff_aux_scale c a). Qed.

(* Leibniz rule over Z[X] *)
Theorem dZ_mul a : forall b x, ev (dZ (pmulZ a b)) x = ev (dZ a) x * ev b x + ev a x * ev (dZ b) x.
Proof. induction a as [|c a IH]; intros b x. { cbn [pmulZ dZ ev]. ring. }
  cbn [pmulZ]. rewrite ev_dZ_add, ev_dZ_scale, !ev_dZ_cons, IH, ev_pmulZ. cbn [ev]. ring. Qed.

Lemma ev_prodl1 f x : ev (prodl [f]) x = ev f x.
Proof. unfold prodl. cbn [fold_right]. rewrite ev_pmulZ. cbn [ev]. ring. Qed.
Lemma ev_prodl_cons f L x : ev (prodl (f :: L)) x = ev f x * ev (prodl L) x.
Proof. unfold prodl. cbn [fold_right]. apply ev_pmulZ. Qed.
Lemma ev_prodl_nil x : ev (prodl []) x = 1.
Proof. unfold prodl. cbn [fold_right ev]. ring. Qed.

Lemma deg_neg_nil (a : poly) : deg a < 0 -> a = [].
Proof. unfold deg. destruct a; cbn [length]; [reflexivity|lia]. Qed.
Lemma deg0_len1 (a : poly) : deg a = 0 -> length a = 1%nat.
Proof. unfold deg. lia. Qed.
Lemma in_firstn (A : Type) n : forall (l : list A) x, In x (firstn n l) -> In x l.
Proof. intros l x H. rewrite <- (firstn_skipn n l). apply in_or_app. left. exact H. Qed.

(* the two normalisations sqrfree performs: A = P made monic, C = gcd(A, A') made monic *)
Definition sq_A (p : Z) (P : poly) : poly := pscale p (inv p (lc P)) P.
Definition sq_C (p : Z) (P : poly) : poly :=
  let D := pgcd p (sq_A p P) (pdiff p (sq_A p P)) in pscale p (inv p (lc D)) D.

Section P.
Variable p : Z.
Hypothesis Hp : prime p.
Let p_gt_1 : 1 < p. Proof. destruct Hp; assumption. Qed.
Notation eqp := (eqp p).
Notation canon := (canon p).
Notation divides := (divides p).

(* ================= S2: Poly1Dom::diff ================= *)
Lemma nth_norm a : forall i, nth i (norm a) 0 = nth i a 0.
Proof. induction a as [|c a IH]; intros i; cbn [norm]; [reflexivity|].
  destruct (norm a) as [|d r] eqn:E; [destruct (Z.eqb_spec c 0) as [->|Hc]|];
    (destruct i as [|i]; cbn [nth]; [reflexivity|]; rewrite <- IH; destruct i; reflexivity). Qed.
Lemma nth_map_mod a : forall i, nth i (map (fun x => x mod p) a) 0 = (nth i a 0) mod p.
Proof. induction a as [|c a IH]; intros [|i]; cbn [map nth]; rewrite ?Zmod_0_l; auto. Qed.
Lemma nth_red a i : nth i (red p a) 0 = (nth i a 0) mod p.
Proof. unfold red. rewrite nth_norm. apply nth_map_mod. Qed.

Lemma pdiff_red a : pdiff p a = red p (dZ a).
Proof. destruct a; reflexivity. Qed.
Lemma pdiff_canon a : canon (pdiff p a).
Proof. rewrite pdiff_red. apply canon_red; assumption. Qed.
(* coefficient i of the derivative is (i+1) * a_{i+1} reduced; no hypothesis on a *)
Theorem pdiff_coeff a i : nth i (pdiff p a) 0 = ((Z.of_nat i + 1) * nth (S i) a 0) mod p.
Proof. rewrite pdiff_red, nth_red, nth_dZ. reflexivity. Qed.
Theorem pdiff_dZ a : eqp (pdiff p a) (dZ a).
Proof. rewrite pdiff_red. apply eqp_red; assumption. Qed.
(* the derivative is compatible with congruence modulo p *)
Theorem dZ_eqp a b : eqp a b -> eqp (dZ a) (dZ b).
Proof. intros H. apply (coeff_eqp p Hp). intros i. rewrite !nth_dZ.
  pose proof (eqp_coeff p Hp _ _ H (S i)) as E.
  rewrite <- (Z.mul_mod_idemp_r _ (nth (S i) a 0)), E, Z.mul_mod_idemp_r by lia. reflexivity. Qed.
Lemma pdiff_eqp a b : eqp a b -> eqp (pdiff p a) (pdiff p b).
Proof. intros H. eapply eqp_trans; [apply pdiff_dZ|]. eapply eqp_trans; [apply dZ_eqp; exact H|]. apply eqp_sym, pdiff_dZ. Qed.
(* Leibniz rule in GF(p)[X] *)
Theorem pdiff_mul_gen W a b : eqp W (pmulZ a b) ->
  eqp (pdiff p W) (paddZ (pmulZ (pdiff p a) b) (pmulZ a (pdiff p b))).
Proof. intros H. eapply eqp_trans; [apply pdiff_dZ|]. eapply eqp_trans; [apply dZ_eqp; exact H|].
  apply eqp_trans with (paddZ (pmulZ (dZ a) b) (pmulZ a (dZ b))).
  - apply eqp_ev. intros x. rewrite dZ_mul, ev_paddZ, !ev_pmulZ. reflexivity.
  - apply eqp_add; apply eqp_mul; first [apply eqp_refl|apply eqp_sym, pdiff_dZ]. Qed.
Corollary pdiff_mul a b : eqp (pdiff p (pmul p a b)) (paddZ (pmulZ (pdiff p a) b) (pmulZ a (pdiff p b))).
Proof. apply pdiff_mul_gen. apply eqp_red; assumption. Qed.

(* ================= divisibility: small facts ================= *)
Lemma divides_trans a b c : divides a b -> divides b c -> divides a c.
Proof. intros [q H] [r G]. exists (pmulZ q r). eapply eqp_trans; [|exact G].
  eapply eqp_trans; [|apply eqp_mul; [exact H|apply eqp_refl]]. apply eqp_ev. intros x. rewrite !ev_pmulZ. ring. Qed.
Lemma divides_factor_l a b : divides a (pmulZ a b).
Proof. exists b. apply eqp_refl. Qed.
Lemma divides_factor_r a b : divides b (pmulZ a b).
Proof. exists a. apply eqp_ev. intros x. rewrite !ev_pmulZ. ring. Qed.
Lemma divides_mul_r d a b : divides d a -> divides d (pmulZ a b).
Proof. intros H. eapply divides_trans; [exact H|apply divides_factor_l]. Qed.
Lemma divides_mul_l d a b : divides d b -> divides d (pmulZ a b).
Proof. intros H. eapply divides_trans; [exact H|apply divides_factor_r]. Qed.
Lemma divides_eqp_l d d' g : eqp d d' -> divides d g -> divides d' g.
Proof. intros E [q H]. exists q. eapply eqp_trans; [apply eqp_mul; [apply eqp_sym; exact E|apply eqp_refl]|exact H]. Qed.
Lemma in_divides_prodl g : forall L, In g L -> divides g (prodl L).
Proof. induction L as [|a L IH]; intros H; [contradiction|]. change (prodl (a :: L)) with (pmulZ a (prodl L)).
  destruct H as [->|H]; [apply divides_factor_l|apply divides_mul_l, IH, H]. Qed.
Lemma prodl_firstn_divides n L : divides (prodl (firstn n L)) (prodl L).
Proof. exists (prodl (skipn n L)). apply eqp_ev. intros x. rewrite ev_pmulZ, <- ev_prodl_app, firstn_skipn. reflexivity. Qed.

(* non-zero constants are units *)
Lemma unit_scale c a : c mod p <> 0 -> eqp (pscaleZ (c * inv p c) a) a.
Proof. intros H. eapply eqp_trans; [apply (eqp_scale_c p Hp _ 1)|].
  { rewrite (inv_spec p Hp) by assumption. symmetry. apply Z.mod_small. lia. }
  apply eqp_ev. intros x. rewrite ev_pscaleZ. ring. Qed.
Lemma const_divides c g : c mod p <> 0 -> divides [c] g.
Proof. intros H. exists (pscaleZ (inv p c) g). eapply eqp_trans; [|apply (unit_scale c g H)].
  apply eqp_ev. intros x. rewrite ev_pmulZ, !ev_pscaleZ. cbn [ev]. ring. Qed.
Lemma pone_divides g : divides pone g.
Proof. apply const_divides. rewrite Z.mod_small; lia. Qed.
Lemma canon_len1 D : canon D -> length D = 1%nat -> exists c, D = [c] /\ 0 < c < p.
Proof. intros CD L. destruct D as [|c [|]]; try discriminate. exists c. split; [reflexivity|].
  pose proof (canon_lc p [c] CD ltac:(discriminate)) as H. unfold lc in H. cbn [last] in H. exact H. Qed.
Lemma canon_const c : 0 < c < p -> canon [c].
Proof. intros H. split; [constructor; [lia|constructor]|cbn [last]; lia]. Qed.
Lemma deg0_divides D g : canon D -> deg D = 0 -> divides D g.
Proof. intros CD H. destruct (canon_len1 D CD (deg0_len1 D H)) as [c [-> Hc]]. apply const_divides. rewrite Z.mod_small; lia. Qed.
(* a divisor of a non-zero constant is a non-zero constant *)
Lemma divides_const_is_const D c : canon D -> 0 < c < p -> divides D [c] -> length D = 1%nat.
Proof. intros CD Hc [q H]. pose proof (canon_const c Hc) as Cc.
  assert (H' : eqp (pmulZ D (red p q)) [c]) by (eapply eqp_trans; [apply eqp_mul; [apply eqp_refl|apply eqp_red; assumption]|exact H]).
  assert (Cq : canon (red p q)) by (apply canon_red; assumption).
  destruct D as [|d D']. { exfalso. pose proof (canon_mul_nil_l p Hp _ [c] Cc H'). discriminate. }
  destruct (red p q) as [|e q''].
  { exfalso. assert (E : eqp [c] []). { eapply eqp_trans; [apply eqp_sym; exact H'|]. apply eqp_ev. intros x. rewrite ev_pmulZ. cbn [ev]. ring. }
    apply (canon_eqp_nil p Hp) in E; [discriminate|assumption]. }
  pose proof (canon_mul_length p Hp _ _ _ CD Cq Cc ltac:(discriminate) ltac:(discriminate) H') as L. cbn [length] in *. lia. Qed.

(* making monic: C = (1/lc D) D is an associate of D *)
Lemma monic_assoc D : canon D -> D <> [] ->
  let C := pscale p (inv p (lc D)) D in canon C /\ C <> [] /\ divides C D /\ divides D C.
Proof. intros CD HD C. pose proof (canon_lc p D CD HD) as L.
  assert (Lm : lc D mod p <> 0) by (rewrite Z.mod_small; lia).
  assert (E : eqp C (pscaleZ (inv p (lc D)) D)) by (apply eqp_red; assumption).
  assert (CC : canon C) by (apply canon_red; assumption).
  assert (D1 : divides C D).
  { exists [lc D]. eapply eqp_trans; [apply eqp_mul; [exact E|apply eqp_refl]|]. eapply eqp_trans; [|apply (unit_scale (lc D) D Lm)].
    apply eqp_ev. intros x. rewrite ev_pmulZ, !ev_pscaleZ. cbn [ev]. ring. }
  split; [assumption|]. split; [|split; [assumption|]].
  - intros E0. rewrite E0 in D1. destruct D1 as [q H]. apply HD. apply (canon_mul_nil_l p Hp q); assumption.
  - exists [inv p (lc D)]. eapply eqp_trans; [|apply eqp_sym; exact E]. apply eqp_ev. intros x. rewrite ev_pmulZ, ev_pscaleZ. cbn [ev]. ring. Qed.

(* ================= S1: Euclid returns the GREATEST common divisor ================= *)
Lemma eqp_rem u g q r : eqp u (paddZ (pmulZ g q) r) -> eqp r (paddZ (pmulZ u [1]) (pmulZ g (pscaleZ (-1) q))).
Proof. intros [k H]. exists (pscaleZ (-1) k). intros x. specialize (H x). rewrite ev_paddZ, ev_pmulZ in H.
  rewrite ev_paddZ, !ev_pmulZ, !ev_pscaleZ. cbn [ev]. lia. Qed.

(* every common divisor of (u, g) divides what the remainder sequence ends with *)
Lemma gcd_loop_greatest D : forall fuel u g, canon u -> canon g -> g <> [] -> (length g <= fuel)%nat ->
  divides D u -> divides D g -> divides D (gcd_loop p fuel u g).
Proof. induction fuel as [|f IH]; intros u g Cu Cg Hg Hl Du Dg; cbn [gcd_loop]; [assumption|].
  destruct (pdivmod_spec p Hp u g Cu Cg Hg) as [E [CQ [CR L]]].
  destruct (pmod p u g) as [|r0 r'] eqn:ER; [assumption|].
  apply IH; auto; [congruence|lia|].
  eapply divides_eqp; [apply (divides_lin p D u g [1] (pscaleZ (-1) (pdiv p u g)) Du Dg)|]. apply eqp_sym, eqp_rem. exact E. Qed.

(* the common shape of the third branch of Poly1Dom::gcd *)
Lemma pgcd_branches P Q :
  (P = [] /\ pgcd p P Q = Q) \/ (deg Q = 0 /\ pgcd p P Q = Q) \/
  (P <> [] /\ Q = [] /\ pgcd p P Q = P) \/ (deg P = 0 /\ pgcd p P Q = P) \/
  (P <> [] /\ Q <> [] /\ exists G, (G = gcd_loop p (length Q) P Q \/ G = gcd_loop p (length P) Q P) /\
     pgcd p P Q = if deg G <=? 0 then pone else G).
Proof. unfold pgcd. cbv zeta.
  destruct ((deg P <? 0) || (deg Q =? 0)) eqn:E1.
  { apply orb_true_iff in E1. destruct E1 as [E1|E1]; [apply Z.ltb_lt in E1; left; split; [apply deg_neg_nil; assumption|reflexivity]|].
    apply Z.eqb_eq in E1. right; left. auto. }
  apply orb_false_iff in E1. destruct E1 as [E1 _]. apply Z.ltb_ge in E1.
  assert (HP : P <> []) by (intro; subst; cbn in E1; lia).
  destruct ((deg Q <? 0) || (deg P =? 0)) eqn:E2.
  { apply orb_true_iff in E2. destruct E2 as [E2|E2]; [apply Z.ltb_lt in E2; right; right; left; split; [assumption|split; [apply deg_neg_nil; assumption|reflexivity]]|].
    apply Z.eqb_eq in E2. right; right; right; left. auto. }
  apply orb_false_iff in E2. destruct E2 as [E2 _]. apply Z.ltb_ge in E2.
  assert (HQ : Q <> []) by (intro; subst; cbn in E2; lia).
  right; right; right; right. split; [assumption|]. split; [assumption|].
  destruct (deg P >=? deg Q); eexists; (split; [|reflexivity]); auto. Qed.

Theorem pgcd_nonnil P Q : P <> [] \/ Q <> [] -> pgcd p P Q <> [].
Proof. intros H. destruct (pgcd_branches P Q) as [[E ->]|[[E ->]|[[E [_ ->]]|[[E ->]|[_ [_ [G [_ ->]]]]]]]].
  - destruct H; congruence.
  - intro; subst; cbn in E; lia.
  - assumption.
  - intro; subst; cbn in E; lia.
  - destruct (Z.leb_spec (deg G) 0) as [L|L]; [discriminate|apply deg_pos_nonnil; assumption]. Qed.

(* gcd optimality: every common divisor divides the value of Poly1Dom::gcd (all branches, also P = [] = Q) *)
Theorem pgcd_greatest P Q D : canon P -> canon Q -> canon D -> divides D P -> divides D Q -> divides D (pgcd p P Q).
Proof. intros CP CQ CD DP DQ.
  destruct (pgcd_branches P Q) as [[E ->]|[[E ->]|[[E [_ ->]]|[[E ->]|[HP [HQ [G [HG ->]]]]]]]]; try assumption.
  assert (X : divides D G /\ canon G /\ G <> []).
  { destruct HG as [->| ->].
    - destruct (gcd_loop_spec p Hp (length Q) P Q) as [_ [_ [C N]]]; auto. split; [|auto]. apply gcd_loop_greatest; auto.
    - destruct (gcd_loop_spec p Hp (length P) Q P) as [_ [_ [C N]]]; auto. split; [|auto]. apply gcd_loop_greatest; auto. }
  destruct X as [DG [CG NG]].
  destruct (Z.leb_spec (deg G) 0) as [L|L]; [|assumption].
  (* the last non-zero remainder is a constant c: D | c, so D is a non-zero constant, which divides 1 *)
  assert (LG : length G = 1%nat) by (unfold deg in L; destruct G; [congruence|cbn [length] in *; lia]).
  destruct (canon_len1 G CG LG) as [c [-> Hc]].
  pose proof (divides_const_is_const D c CD Hc DG) as LD.
  apply deg0_divides; [assumption|]. unfold deg. rewrite LD. reflexivity. Qed.

(* the value of Poly1Dom::gcd always divides both arguments (no hypothesis on its degree) *)
Theorem pgcd_divides_always P Q : canon P -> canon Q -> divides (pgcd p P Q) P /\ divides (pgcd p P Q) Q.
Proof. intros CP CQ.
  destruct (pgcd_branches P Q) as [[E ->]|[[E ->]|[[E [E' ->]]|[[E ->]|[HP [HQ [G [HG ->]]]]]]]].
  - subst. split; [apply divides_nil|apply divides_refl].
  - split; [apply deg0_divides; assumption|apply divides_refl].
  - subst. split; [apply divides_refl|apply divides_nil].
  - split; [apply divides_refl|apply deg0_divides; assumption].
  - destruct (Z.leb_spec (deg G) 0) as [L|L]; [split; apply pone_divides|].
    destruct HG as [->| ->].
    + destruct (gcd_loop_spec p Hp (length Q) P Q) as [D1 [D2 _]]; auto.
    + destruct (gcd_loop_spec p Hp (length P) Q P) as [D1 [D2 _]]; auto. Qed.

End P.
