(* C09 proofs, part 5: finite domains swept completely by kernel computation (bounds in the statements). *)
From Coq Require Import ZArith List Bool Lia Znumtheory.
From C09 Require Import Model ProofsAlg ProofsDiv ProofsIrr.
Import ListNotations.
Local Open Scope Z_scope.

(* every coefficient list of degree exactly n over [0,p) with a non-zero leading coefficient *)
Definition canons (p : Z) (n : nat) : list poly :=
  flat_map (fun l => map (fun c => l ++ [c]) (zrange 1 p)) (all_lists p n).

(* ---- 1. the X^(q^i)-X tests against the verified divisor-search checker *)
Definition irr_agree (p : Z) (P : poly) : bool :=
  Bool.eqb (is_irreducible p P p) (irreducible_b p P) && Bool.eqb (is_irreducible2 p P p) (irreducible_b p P).
Definition irr_sweep (p : Z) (d : nat) : bool :=
  forallb (fun n => forallb (irr_agree p) (canons p n)) (seq 0 (S d)).
Definition irr_bounds : list (Z * nat) := [(2, 9%nat); (3, 5%nat); (5, 3%nat); (7, 3%nat)].

Lemma irr_sweep_all : forallb (fun pd => irr_sweep (fst pd) (snd pd)) irr_bounds = true.
Proof. vm_compute. reflexivity. Qed.

Definition Irr_tests_bounded : Prop := forall p d n P, In (p, d) irr_bounds -> (n <= d)%nat -> In P (canons p n) ->
  is_irreducible p P p = irreducible_b p P /\ is_irreducible2 p P p = irreducible_b p P.
Lemma irr_tests_bounded : Irr_tests_bounded.
Proof. intros p d n P Hb Hn HP. pose proof irr_sweep_all as S. rewrite forallb_forall in S. specialize (S _ Hb). cbn [fst snd] in S.
  unfold irr_sweep in S. rewrite forallb_forall in S. specialize (S n ltac:(apply in_seq; lia)).
  rewrite forallb_forall in S. specialize (S P HP). unfold irr_agree in S. apply andb_true_iff in S. destruct S as [S1 S2].
  apply eqb_prop in S1, S2. auto. Qed.

Lemma prime_5 : prime 5.
Proof. apply prime_intro; [lia|]. intros n Hn. assert (n = 1 \/ n = 2 \/ n = 3 \/ n = 4) as [|[|[|]]] by lia; subst; apply Zgcd_1_rel_prime; reflexivity. Qed.
Lemma prime_7 : prime 7.
Proof. apply prime_intro; [lia|]. intros n Hn. assert (n = 1 \/ n = 2 \/ n = 3 \/ n = 4 \/ n = 5 \/ n = 6) as [|[|[|[|[|]]]]] by lia; subst; apply Zgcd_1_rel_prime; reflexivity. Qed.
Lemma irr_bounds_prime p d : In (p, d) irr_bounds -> prime p.
Proof. intros [H|[H|[H|[H|[]]]]]; inversion H; subst; auto using prime_2, prime_3, prime_5, prime_7. Qed.

Lemma canons_canon p n P : 1 < p -> In P (canons p n) -> canon p P.
Proof. intros Hp H. unfold canons in H. apply in_flat_map in H. destruct H as [l [Hl H]].
  apply in_map_iff in H. destruct H as [c [<- Hc]]. unfold zrange in Hc. apply in_map_iff in Hc. destruct Hc as [k [<- Hk]].
  apply in_seq in Hk. split.
  - apply Forall_app. split; [|constructor; [lia|constructor]].
    clear -Hl. revert l Hl. induction n as [|n IH]; intros l Hl; cbn [all_lists] in Hl.
    + destruct Hl as [<-|[]]. constructor.
    + apply in_flat_map in Hl. destruct Hl as [r [Hr Hl]]. apply in_map_iff in Hl. destruct Hl as [c [<- Hc]].
      unfold zrange in Hc. apply in_map_iff in Hc. destruct Hc as [k [<- Hk]]. apply in_seq in Hk. constructor; [lia|auto].
  - rewrite last_last. lia. Qed.

(* the implemented tests decide irreducibility (the definition) on the swept domain *)
Definition Irr_tests_decide_bounded : Prop := forall p d n P, In (p, d) irr_bounds -> (n <= d)%nat -> In P (canons p n) ->
  (is_irreducible p P p = true <-> irreducible_def p P) /\ (is_irreducible2 p P p = true <-> irreducible_def p P).
Lemma irr_tests_decide_bounded : Irr_tests_decide_bounded.
Proof. intros p d n P Hb Hn HP. destruct (irr_tests_bounded p d n P Hb Hn HP) as [E1 E2]. rewrite E1, E2.
  pose proof (irr_bounds_prime p d Hb) as Hp. assert (C : canon p P) by (apply (canons_canon p n); [destruct Hp; lia|assumption]).
  assert (irreducible_b p P = true <-> irreducible_def p P) by (split; [apply irreducible_b_sound|apply irreducible_b_complete]; assumption).
  tauto. Qed.

(* ---- 2. square-free decomposition: multiplies back, parts square-free and pairwise coprime (char > degree) *)
Fixpoint ppow_n (p : Z) (A : poly) (n : nat) : poly := match n with O => pone | S n' => pmul p A (ppow_n p A n') end.
Fixpoint sqr_prod (p : Z) (i : nat) (g : list poly) : poly :=
  match g with [] => pone | f :: r => pmul p (ppow_n p f i) (sqr_prod p (S i) r) end.
Fixpoint pairwise_coprime (p : Z) (g : list poly) : bool :=
  match g with [] => true | f :: r => forallb (fun h => deg (pgcd p f h) <=? 0) r && pairwise_coprime p r end.
Definition sqrfree_ok (p : Z) (P : poly) : bool :=
  let (nb, g) := sqrfree p (deg P + 1) P in
  (nb =? Z.of_nat (length g)) &&
  (let R := sqr_prod p 1 g in      (* equal up to a non-zero constant: both sides made monic *)
   if list_eq_dec Z.eq_dec (pscale p (inv p (lc R)) R) (pscale p (inv p (lc P)) P) then true else false) &&
  forallb (fun f => deg (pgcd p f (pdiff p f)) <=? 0) g && pairwise_coprime p g.
Definition sqrfree_sweep (p : Z) (d : nat) : bool := forallb (fun n => forallb (sqrfree_ok p) (canons p n)) (seq 0 (S d)).
Definition sqrfree_bounds : list (Z * nat) := [(3, 2%nat); (5, 4%nat); (7, 4%nat); (11, 3%nat)].   (* p > d *)
Lemma sqrfree_sweep_all : forallb (fun pd => sqrfree_sweep (fst pd) (snd pd)) sqrfree_bounds = true.
Proof. vm_compute. reflexivity. Qed.
Definition Sqrfree_bounded : Prop := forall p d n P, In (p, d) sqrfree_bounds -> (n <= d)%nat -> In P (canons p n) ->
  sqrfree_ok p P = true.
Lemma sqrfree_bounded : Sqrfree_bounded.
Proof. intros p d n P Hb Hn HP. pose proof sqrfree_sweep_all as S. rewrite forallb_forall in S. specialize (S _ Hb). cbn [fst snd] in S.
  unfold sqrfree_sweep in S. rewrite forallb_forall in S. specialize (S n ltac:(apply in_seq; lia)).
  rewrite forallb_forall in S. exact (S P HP). Qed.

(* the full statement (every characteristic) is false: no p-th-root branch.  X^2 over GF(2) decomposes into [1]. *)
Definition Sqrfree_all : Prop := forall p P, prime p -> canon p P -> P <> [] -> sqrfree_ok p P = true.
Lemma sqrfree_all_refuted : exists p P, prime p /\ canon p P /\ P <> [] /\ sqrfree_ok p P = false.
Proof. exists 2, [0; 0; 1]. split; [apply prime_2|]. split; [|split; [discriminate|vm_compute; reflexivity]].
  split; [repeat constructor; lia|cbn; lia]. Qed.

(* ---- 3. order / is_prim_root against the definition, every element of every field GF(p^n) in the bounds *)
Definition order_ok (p : Z) (n : nat) (F A : poly) : bool :=
  let q := p ^ Z.of_nat n in
  (order p A F p =? brute_order p A F q) && Bool.eqb (is_prim_root p A F p) (brute_order p A F q =? q - 1).
Definition order_sweep (p : Z) (n : nat) : bool :=
  forallb (fun F => negb (irreducible_b p F) || forallb (fun A => order_ok p n F (norm A)) (all_lists p n)) (canons p n).
Definition order_bounds : list (Z * nat) := [(2, 1%nat); (2, 2%nat); (2, 3%nat); (2, 4%nat); (2, 5%nat); (2, 6%nat);
  (3, 1%nat); (3, 2%nat); (3, 3%nat); (5, 1%nat); (5, 2%nat); (7, 1%nat); (7, 2%nat); (11, 1%nat); (13, 1%nat)].
Lemma order_sweep_all : forallb (fun pn => order_sweep (fst pn) (snd pn)) order_bounds = true.
Proof. vm_compute. reflexivity. Qed.
Definition Order_bounded : Prop := forall p n F A, In (p, n) order_bounds -> In F (canons p n) -> irreducible_b p F = true ->
  In A (all_lists p n) ->
  order p (norm A) F p = brute_order p (norm A) F (p ^ Z.of_nat n) /\
  (is_prim_root p (norm A) F p = true <-> brute_order p (norm A) F (p ^ Z.of_nat n) = p ^ Z.of_nat n - 1).
Lemma order_bounded : Order_bounded.
Proof. intros p n F A Hb HF HI HA. pose proof order_sweep_all as S. rewrite forallb_forall in S. specialize (S _ Hb). cbn [fst snd] in S.
  unfold order_sweep in S. rewrite forallb_forall in S. specialize (S F HF). rewrite HI in S. cbn [negb orb] in S.
  rewrite forallb_forall in S. specialize (S A HA). unfold order_ok in S. apply andb_true_iff in S. destruct S as [S1 S2].
  apply Z.eqb_eq in S1. apply eqb_prop in S2. split; [assumption|]. rewrite S2. apply Z.eqb_eq. Qed.
