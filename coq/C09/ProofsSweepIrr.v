(* C09 proofs, part 5a: irreducibility tests swept completely by kernel computation (bounds in the statements). *)
From Coq Require Import ZArith List Bool Lia Znumtheory.
From C09 Require Import Model ProofsAlg ProofsDiv ProofsIrr.
Import ListNotations.
Local Open Scope Z_scope.


(* ---- 1. the X^(q^i)-X tests against the verified divisor-search checker *)
Definition irr_agree (p : Z) (P : poly) : bool :=
  Bool.eqb (is_irreducible p P p) (irreducible_b p P) && Bool.eqb (is_irreducible2 p P p) (irreducible_b p P).
Definition irr_sweep (p : Z) (d : nat) : bool :=
  forallb (fun n => forallb (irr_agree p) (canons p n)) (seq 0 (S d)).
Definition irr_bounds : list (Z * nat) := [(2, 9%nat); (3, 5%nat); (5, 3%nat); (7, 3%nat)].

Lemma irr_sweep_all : forallb (fun pd => irr_sweep (fst pd) (snd pd)) irr_bounds = true.
Proof. vm_cast_no_check (eq_refl true). Qed.

Definition Irr_tests_bounded : Prop := forall p d n P, In (p, d) irr_bounds -> (n <= d)%nat -> In P (canons p n) ->
  is_irreducible p P p = irreducible_b p P /\ is_irreducible2 p P p = irreducible_b p P.
Lemma irr_tests_bounded : Irr_tests_bounded.
Proof. intros p d n P Hb Hn HP. pose proof irr_sweep_all as S. rewrite forallb_forall in S. specialize (S _ Hb). cbn [fst snd] in S.
  unfold irr_sweep in S. rewrite forallb_forall in S. specialize (S n ltac:(apply in_seq; lia)).
  rewrite forallb_forall in S. specialize (S P HP). unfold irr_agree in S. apply andb_true_iff in S. destruct S as [S1 S2].
  apply eqb_prop in S1, S2. auto. Qed.

Lemma prime_5 : prime 5.
Proof. apply prime_intro; [lia|]. intros n Hn. assert (n = 1 \/ n = 2 \/ n = 3 \/ n = 4) as [|[|[|]]] by lia; subst; apply Zgcd_1_rel_prime; reflexivity. Qed.
Lemma prime_7 : prime 7.
Proof. apply prime_intro; [lia|]. intros n Hn. assert (n = 1 \/ n = 2 \/ n = 3 \/ n = 4 \/ n = 5 \/ n = 6) as [|[|[|[|[|]]]]] by lia; subst; apply Zgcd_1_rel_prime; reflexivity. Qed.
Lemma irr_bounds_prime p d : In (p, d) irr_bounds -> prime p.
Proof. intros [H|[H|[H|[H|[]]]]]; inversion H; subst; auto using prime_2, prime_3, prime_5, prime_7. Qed.

Lemma canons_canon p n P : 1 < p -> In P (canons p n) -> canon p P.
Proof. intros Hp H. unfold canons in H. apply in_flat_map in H. destruct H as [l [Hl H]].
  apply in_map_iff in H. destruct H as [c [<- Hc]]. unfold zrange in Hc. apply in_map_iff in Hc. destruct Hc as [k [<- Hk]].
  apply in_seq in Hk. split.
  - apply Forall_app. split; [|constructor; [lia|constructor]].
    clear -Hl. revert l Hl. induction n as [|n IH]; intros l Hl; cbn [all_lists] in Hl.
    + destruct Hl as [<-|[]]. constructor.
    + apply in_flat_map in Hl. destruct Hl as [r [Hr Hl]]. apply in_map_iff in Hl. destruct Hl as [c [<- Hc]].
      unfold zrange in Hc. apply in_map_iff in Hc. destruct Hc as [k [<- Hk]]. apply in_seq in Hk. constructor; [lia|auto].
  - rewrite last_last. lia. Qed.

(* the implemented tests decide irreducibility (the definition) on the swept domain *)
Definition Irr_tests_decide_bounded : Prop := forall p d n P, In (p, d) irr_bounds -> (n <= d)%nat -> In P (canons p n) ->
  (is_irreducible p P p = true <-> irreducible_def p P) /\ (is_irreducible2 p P p = true <-> irreducible_def p P).
Lemma irr_tests_decide_bounded : Irr_tests_decide_bounded.
Proof. intros p d n P Hb Hn HP. destruct (irr_tests_bounded p d n P Hb Hn HP) as [E1 E2]. rewrite E1, E2.
  pose proof (irr_bounds_prime p d Hb) as Hp. assert (C : canon p P) by (apply (canons_canon p n); [destruct Hp; lia|assumption]).
  assert (irreducible_b p P = true <-> irreducible_def p P) by (split; [apply irreducible_b_sound|apply irreducible_b_complete]; assumption).
  tauto. Qed.

