(* C09 proofs, part 5c: order / primitivity swept completely by kernel computation. *)
From Coq Require Import ZArith List Bool Lia Znumtheory.
From C09 Require Import Model ProofsAlg ProofsDiv ProofsIrr.
Import ListNotations.
Local Open Scope Z_scope.

(* ---- 3. order / is_prim_root against the definition, every element of every field GF(p^n) in the bounds *)
Definition order_ok (p : Z) (n : nat) (F A : poly) : bool :=
  let q := p ^ Z.of_nat n in
  (order p A F p =? brute_order p A F q) && Bool.eqb (is_prim_root p A F p) (brute_order p A F q =? q - 1).
Definition order_sweep (p : Z) (n : nat) : bool :=
  forallb (fun F => negb (irreducible_b p F) || forallb (fun A => order_ok p n F (norm A)) (all_lists p n)) (canons p n).
Definition order_bounds : list (Z * nat) := [(2, 1%nat); (2, 2%nat); (2, 3%nat); (2, 4%nat); (2, 5%nat);
  (3, 1%nat); (3, 2%nat); (5, 1%nat); (5, 2%nat); (7, 1%nat); (11, 1%nat); (13, 1%nat)].
Lemma order_sweep_all : forallb (fun pn => order_sweep (fst pn) (snd pn)) order_bounds = true.
Proof. vm_cast_no_check (eq_refl true). Qed.
Definition Order_bounded : Prop := forall p n F A, In (p, n) order_bounds -> In F (canons p n) -> irreducible_b p F = true ->
  In A (all_lists p n) ->
  order p (norm A) F p = brute_order p (norm A) F (p ^ Z.of_nat n) /\
  (is_prim_root p (norm A) F p = true <-> brute_order p (norm A) F (p ^ Z.of_nat n) = p ^ Z.of_nat n - 1).
Lemma order_bounded : Order_bounded.
Proof. intros p n F A Hb HF HI HA. pose proof order_sweep_all as S. rewrite forallb_forall in S. specialize (S _ Hb). cbn [fst snd] in S.
  unfold order_sweep in S. rewrite forallb_forall in S. specialize (S F HF). rewrite HI in S. cbn [negb orb] in S.
  rewrite forallb_forall in S. specialize (S A HA). unfold order_ok in S. apply andb_true_iff in S. destruct S as [S1 S2].
  apply Z.eqb_eq in S1. apply eqb_prop in S2. split; [assumption|]. rewrite S2. apply Z.eqb_eq. Qed.
