(* C09 proofs, part 5b: square-free decomposition swept completely by kernel computation. *)
From Coq Require Import ZArith List Bool Lia Znumtheory.
From C09 Require Import Model ProofsAlg ProofsDiv ProofsIrr.
Import ListNotations.
Local Open Scope Z_scope.

(* ---- 2. square-free decomposition: multiplies back, parts square-free and pairwise coprime (char > degree) *)
Fixpoint ppow_n (p : Z) (A : poly) (n : nat) : poly := match n with O => pone | S n' => pmul p A (ppow_n p A n') end.
Fixpoint sqr_prod (p : Z) (i : nat) (g : list poly) : poly :=
  match g with [] => pone | f :: r => pmul p (ppow_n p f i) (sqr_prod p (S i) r) end.
Fixpoint pairwise_coprime (p : Z) (g : list poly) : bool :=
  match g with [] => true | f :: r => forallb (fun h => deg (pgcd p f h) <=? 0) r && pairwise_coprime p r end.
Definition sqrfree_ok (p : Z) (P : poly) : bool :=
  let (nb, g) := sqrfree p (deg P + 1) P in
  (nb =? Z.of_nat (length g)) &&
  (let R := sqr_prod p 1 g in      (* equal up to a non-zero constant: both sides made monic *)
   if list_eq_dec Z.eq_dec (pscale p (inv p (lc R)) R) (pscale p (inv p (lc P)) P) then true else false) &&
  forallb (fun f => deg (pgcd p f (pdiff p f)) <=? 0) g && pairwise_coprime p g.
Definition sqrfree_sweep (p : Z) (d : nat) : bool := forallb (fun n => forallb (sqrfree_ok p) (canons p n)) (seq 0 (S d)).
Definition sqrfree_bounds : list (Z * nat) := [(3, 2%nat); (5, 4%nat); (7, 3%nat); (11, 2%nat)].   (* p > d *)
Lemma sqrfree_sweep_all : forallb (fun pd => sqrfree_sweep (fst pd) (snd pd)) sqrfree_bounds = true.
Proof. vm_cast_no_check (eq_refl true). Qed.
Definition Sqrfree_bounded : Prop := forall p d n P, In (p, d) sqrfree_bounds -> (n <= d)%nat -> In P (canons p n) ->
  sqrfree_ok p P = true.
Lemma sqrfree_bounded : Sqrfree_bounded.
Proof. intros p d n P Hb Hn HP. pose proof sqrfree_sweep_all as S. rewrite forallb_forall in S. specialize (S _ Hb). cbn [fst snd] in S.
  unfold sqrfree_sweep in S. rewrite forallb_forall in S. specialize (S n ltac:(apply in_seq; lia)).
  rewrite forallb_forall in S. exact (S P HP). Qed.

(* the full statement (every characteristic) is false: no p-th-root branch.  X^2 over GF(2) decomposes into [1]. *)
Definition Sqrfree_all : Prop := forall p P, prime p -> canon p P -> P <> [] -> sqrfree_ok p P = true.
Lemma sqrfree_all_refuted : exists p P, prime p /\ canon p P /\ P <> [] /\ sqrfree_ok p P = false.
Proof. exists 2, [0; 0; 1]. split; [apply prime_2|]. split; [|split; [discriminate|vm_compute; reflexivity]].
  split; [repeat constructor; lia|cbn; lia]. Qed.

