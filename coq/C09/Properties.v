(* C09 property theorems.  Nothing but statements closed by `exact`, each followed by Print Assumptions.
   p is a prime; a polynomial is the list of its coefficients, low degree first; canon p P = every coefficient in [0,p)
   and no trailing zero; eqp p A B = congruent modulo p coefficient by coefficient (ProofsAlg.eqp_coeff / coeff_eqp);
   prodl = product of a list; `s` is the stream of generator outputs the code consumes (any stream). *)
From Coq Require Import ZArith List Znumtheory.
From C09 Require Import Model Model2 ProofsAlg ProofsDiv ProofsSplit ProofsIrr ProofsCZ ProofsReq ProofsSweepIrr ProofsSweepSqr ProofsSweepOrd
  ProofsPow ProofsOrd ProofsRep ProofsSqr ProofsRep2 Model3 ProofsM3 ProofsFactors ProofsLagrange ProofsIrrSound ProofsRoots ProofsParts.
Import ListNotations.
Local Open Scope Z_scope.

(* meaning of eqp *)
Theorem C09_congruence_is_coefficientwise : forall p, prime p -> forall A B,
  eqp p A B <-> (forall i, (nth i A 0) mod p = (nth i B 0) mod p).
Proof. intros p Hp A B. split; [exact (eqp_coeff p Hp A B)|exact (coeff_eqp p Hp A B)]. Qed.
Print Assumptions C09_congruence_is_coefficientwise.

(* division with remainder (Poly1Dom::divmod as modelled): A = B Q + R, deg R < deg B, results normalised *)
Theorem C09_divmod_exact : forall p, prime p -> forall A B, canon p A -> canon p B -> B <> [] ->
  eqp p A (paddZ (pmulZ B (pdiv p A B)) (pmod p A B)) /\ canon p (pdiv p A B) /\ canon p (pmod p A B) /\
  (length (pmod p A B) < length B)%nat.
Proof. exact pdivmod_spec. Qed.
Print Assumptions C09_divmod_exact.

Theorem C09_remainder_of_multiple_is_zero : forall p, prime p -> forall P D, canon p P -> canon p D -> D <> [] ->
  divides p D P -> pmod p P D = [].
Proof. exact mod_zero_of_divides. Qed.
Print Assumptions C09_remainder_of_multiple_is_zero.

(* Euclid's gcd (Poly1Dom::gcd as modelled), whenever it is not constant, divides both arguments *)
Theorem C09_gcd_divides : forall p, prime p -> forall P Q, canon p P -> canon p Q -> 0 < deg (pgcd p P Q) ->
  divides p (pgcd p P Q) P /\ divides p (pgcd p P Q) Q /\ canon p (pgcd p P Q).
Proof. exact pgcd_spec. Qed.
Print Assumptions C09_gcd_divides.

(* equal-degree splitting, container form: for every stream, the call only appends factors whose product is G *)
Theorem C09_split_preserves_product : forall p, prime p -> forall fuel G d MOD L s L' s', canon p G ->
  split p fuel G d MOD L s = Some (L', s') ->
  exists N, L' = L ++ N /\ eqp p (prodl N) G /\ Forall (canon p) N.
Proof. exact split_spec. Qed.
Print Assumptions C09_split_preserves_product.

(* equal-degree splitting, single-factor form: for every stream, the result divides G *)
Theorem C09_split1_returns_divisor : forall p, prime p -> forall fuel G d MOD s R s', canon p G ->
  split1 p fuel G d MOD s = Some (R, s') -> divides p R G /\ canon p R.
Proof. exact split1_spec. Qed.
Print Assumptions C09_split1_returns_divisor.

(* distinct-degree factorisation: for every stream, appended factors times a constant cofactor give back f *)
Theorem C09_ddf_preserves_product : forall p, prime p -> forall f MOD L s L' s', canon p f ->
  ddf p f MOD L s = Some (L', s') ->
  exists N u, L' = L ++ N /\ eqp p (pmulZ (prodl N) u) f /\ deg u <= 0 /\ Forall (canon p) N.
Proof. exact ddf_spec. Qed.
Print Assumptions C09_ddf_preserves_product.

(* HISTORY (Model.czfactor = CZfactor over the former Yun loop; the current body: C09_czfactor_multiplies_back_and_invents_no_factor below).
   CZfactor's multiplicity bookkeeping: for every stream, the returned factors Lf with the returned multiplicities Le multiply,
   up to a constant U, to prod_j g_j^j where (nb, g) is what sqrfree delivered; every multiplicity is >= 1, |Lf| = |Le|.
   wprod Lf Le = prod_i Lf_i^Le_i;  gprod g 0 = g_1^1 g_2^2 ...  *)
Theorem C09_czfactor_multiplicities_former_yun_loop_history : forall p, prime p -> forall P MOD s Lf Le s', czfactor p P MOD s = Some (Lf, Le, s') ->
  let nb := fst (sqrfree p (deg P + 1) P) in let g := snd (sqrfree p (deg P + 1) P) in
  exists U, length Lf = length Le /\ Forall (canon p) Lf /\ Forall (fun e => 1 <= e) Le /\ deg U <= 0 /\
    eqp p (pmulZ (wprod Lf Le) U) (gprod (firstn (Z.to_nat nb) g) 0).
Proof. exact czfactor_spec. Qed.
Print Assumptions C09_czfactor_multiplicities_former_yun_loop_history.

(* requests, for every stream: what is returned has exactly n+1 coefficients, leading coefficient 1, and passed the tests *)
Theorem C09_creux_random_irreducible_exit : forall p n MOD s R s', (1 <= n)%nat -> creux_random_irreducible p n MOD s = Some (R, s') ->
  is_irreducible p (norm R) MOD = true /\ length R = S n /\ nth n R 0 = 1.
Proof. exact creux_random_irreducible_spec. Qed.
Print Assumptions C09_creux_random_irreducible_exit.
Theorem C09_ixe_irreducible_exit : forall p n MOD s R s', (1 <= n)%nat -> ixe_irreducible p n MOD s = Some (R, s') ->
  is_irreducible p (norm R) MOD = true /\ is_prim_root p Xpoly (norm R) MOD = true /\ length R = S n /\ nth n R 0 = 1.
Proof. exact ixe_irreducible_spec. Qed.
Print Assumptions C09_ixe_irreducible_exit.
Theorem C09_ixe_irreducible2_exit : forall p n MOD s R s', (1 <= n)%nat -> ixe_irreducible2 p n MOD s = Some (R, s') ->
  is_irreducible2 p (norm R) MOD = true /\ is_prim_root p Xpoly (norm R) MOD = true /\ length R = S n /\ nth n R 0 = 1.
Proof. exact ixe_irreducible2_spec. Qed.
Print Assumptions C09_ixe_irreducible2_exit.
Theorem C09_give_prim_root_exit : forall p F MOD s R s', give_prim_root p F MOD s = Some (R, s') -> is_prim_root p (norm R) F MOD = true.
Proof. exact give_prim_root_spec. Qed.
Print Assumptions C09_give_prim_root_exit.
Theorem C09_give_random_prim_root_exit : forall p F MOD s R s', give_random_prim_root p F MOD s = Some (R, s') ->
  is_prim_root p (norm R) F MOD = true.
Proof. exact give_random_prim_root_spec. Qed.
Print Assumptions C09_give_random_prim_root_exit.
Theorem C09_random_prim_root_exit : forall p n MOD s P R s', (1 <= n)%nat -> random_prim_root p n MOD s = Some (P, R, s') ->
  is_irreducible p (norm P) MOD = true /\ length P = S n /\ nth n P 0 = 1 /\ is_prim_root p (norm R) (norm P) MOD = true.
Proof. exact random_prim_root_spec. Qed.
Print Assumptions C09_random_prim_root_exit.

(* the hypotheses of the exit theorems are satisfiable: concrete streams over GF(3) on which each request returns *)
Example C09_creux_exit_example : creux_random_irreducible 3 2 3 [1; 2; 0; 1] = Some ([1; 0; 1], [1; 2; 0; 1]).
Proof. vm_compute. reflexivity. Qed.
Example C09_ixe_exit_example : ixe_irreducible 3 2 3 [1; 2; 0; 1; 2; 2; 1; 0] = Some ([2; 2; 1], [2; 1; 0]).
Proof. vm_compute. reflexivity. Qed.
Example C09_ixe2_exit_example : ixe_irreducible2 3 2 3 [1; 2; 0; 1; 2; 2; 1; 0] = Some ([2; 2; 1], [2; 1; 0]).
Proof. vm_compute. reflexivity. Qed.
Example C09_give_prim_root_exit_example : give_prim_root 3 [1; 0; 1] 3 [1; 2] = Some ([1; 1], [1; 2]).
Proof. vm_compute. reflexivity. Qed.
Example C09_give_random_prim_root_exit_example : give_random_prim_root 3 [1; 0; 1] 3 [1; 2; 0; 1] = Some ([0; 2; 1], [1]).
Proof. vm_compute. reflexivity. Qed.
Example C09_random_prim_root_exit_example : random_prim_root 3 2 3 [1; 2; 0; 1; 2; 2] = Some ([2; 2; 1], [0; 1], [2]).
Proof. vm_compute. reflexivity. Qed.
Example C09_random_irreducible_exit_example : random_irreducible 3 2 3 [1; 2; 0; 1; 2; 2] = Some ([2; 2; 1], [2]).
Proof. vm_compute. reflexivity. Qed.
Example C09_split1_example : split1 3 20 [2; 0; 1] 1 3 [1; 2; 0; 1] = Some ([2; 1], [0; 1]).
Proof. vm_compute. reflexivity. Qed.
Example C09_split_example : split 3 20 [2; 0; 1] 1 3 [] [1; 2; 0; 1] = Some ([[2; 1]; [1; 1]], [0; 1]).
Proof. vm_compute. reflexivity. Qed.
Example C09_ddf_example : ddf 3 [2; 2; 1; 2; 1] 3 [] [1; 2] = Some ([[2; 2]; [1; 0; 2; 2]], [1; 2]).
Proof. vm_compute. reflexivity. Qed.

(* the verified irreducibility checker (divisor search) is sound and complete against the definition *)
Theorem C09_irreducible_b_sound : forall p, prime p -> forall P, canon p P -> irreducible_b p P = true -> irreducible_def p P.
Proof. exact irreducible_b_sound. Qed.
Print Assumptions C09_irreducible_b_sound.
Theorem C09_irreducible_b_complete : forall p, prime p -> forall P, canon p P -> irreducible_def p P -> irreducible_b p P = true.
Proof. exact irreducible_b_complete. Qed.
Print Assumptions C09_irreducible_b_complete.

(* the verified order checker returns the least exponent m >= 1 with A^m = 1 (mod F), or 0 if there is none <= bound *)
Theorem C09_brute_order_is_least_exponent : forall p A F bound,
  let A' := pmod p A F in
  let r := brute_order p A F bound in
  (r = 0 /\ forall i, (1 <= i <= Z.to_nat bound)%nat -> npow p A' F i <> pone) \/
  (exists m, r = Z.of_nat m /\ (1 <= m)%nat /\ npow p A' F m = pone /\ forall i, (1 <= i < m)%nat -> npow p A' F i <> pone).
Proof. exact brute_order_spec. Qed.
Print Assumptions C09_brute_order_is_least_exponent.

(* a request for a random irreducible polynomial of degree n, when it returns, returns n+1 coefficients that passed the test *)
Theorem C09_random_irreducible_exit : forall p n MOD s R s', random_irreducible p n MOD s = Some (R, s') ->
  is_irreducible p (norm R) MOD = true /\ length R = S n.
Proof. exact random_irreducible_spec. Qed.
Print Assumptions C09_random_irreducible_exit.

(* bounded, by complete kernel sweeps: both implemented tests decide irreducibility (the definition) for EVERY polynomial
   of degree <= d over GF(p), (p,d) in irr_bounds = [(2,9); (3,5); (5,3); (7,3)]  (partial: larger sizes are not proved) *)
Theorem C09_irreducibility_tests_decide_partial : Irr_tests_decide_bounded.
Proof. exact irr_tests_decide_bounded. Qed.
Print Assumptions C09_irreducibility_tests_decide_partial.

(* HISTORY (former Yun loop).  bounded: square-free decomposition multiplies back up to a constant, parts square-free and pairwise coprime, for EVERY
   polynomial of degree <= d over GF(p), (p,d) in sqrfree_bounds = [(3,2); (5,4); (7,3); (11,2)]  (characteristic > degree) *)
Theorem C09_sqrfree_multiplies_back_partial_former_yun_loop_history : Sqrfree_bounded.
Proof. exact sqrfree_bounded. Qed.
Print Assumptions C09_sqrfree_multiplies_back_partial_former_yun_loop_history.
(* HISTORY: for the former Yun loop (Model.sqrfree, removed from the tree by ffdc6c6) the unbounded statement Sqrfree_all was false in small
   characteristic (no p-th-root branch; finding fixed).  The body in the tree now is Model2.sqrfree_rep: C09_sqrfree_multiplies_back below. *)
Theorem C09_sqrfree_all_refuted_former_yun_loop_history : exists p P, prime p /\ canon p P /\ P <> [] /\ sqrfree_ok p P = false.
Proof. exact sqrfree_all_refuted. Qed.
Print Assumptions C09_sqrfree_all_refuted_former_yun_loop_history.

(* bounded: order and is_prim_root agree with the verified order checker for EVERY element of GF(p^n) = F_p[X]/(F),
   every irreducible F of degree n, (p,n) in order_bounds *)
Theorem C09_order_and_primitivity_partial : Order_bounded.
Proof. exact order_bounded. Qed.
Print Assumptions C09_order_and_primitivity_partial.

(* ---------------------------------------------------------------- phase 3 ---------------------------------------------------------------- *)
(* the remainder of Poly1Dom::divmod is THE remainder: unique among the canonical R of smaller degree with A = B Q + R *)
Theorem C09_remainder_unique : Pmod_unique_stmt.
Proof. exact pmod_unique_thm. Qed.
Print Assumptions C09_remainder_unique.

(* Poly1Dom::powmod (square-and-multiply over the bits of the exponent, any size): for EVERY exponent n >= 0, base P and modulus U
   of degree >= 1, P^n = U q + powmod(P,n,U) modulo p with powmod(P,n,U) canonical of degree < deg U ...  *)
Theorem C09_powmod_is_power : Ppowmod_stmt.
Proof. exact ppowmod_thm. Qed.
Print Assumptions C09_powmod_is_power.
(* ... i.e. it IS the remainder of the n-th power; exponents add and multiply as they must *)
Theorem C09_powmod_is_remainder_of_power : Ppowmod_remainder_stmt.
Proof. exact ppowmod_remainder_thm. Qed.
Print Assumptions C09_powmod_is_remainder_of_power.
Theorem C09_powmod_exponents_add : Ppowmod_add_stmt.
Proof. exact ppowmod_add_thm. Qed.
Print Assumptions C09_powmod_exponents_add.
Theorem C09_powmod_exponents_multiply : Ppowmod_mul_stmt.
Proof. exact ppowmod_mul_thm. Qed.
Print Assumptions C09_powmod_exponents_multiply.
Example C09_powmod_hypotheses_satisfiable : prime 5 /\ canon 5 [2; 1] /\ canon 5 [1; 0; 1] /\ (2 <= length [1; 0; 1])%nat /\ 0 <= 3 /\
  ppowmod 5 [2; 1] 3 [1; 0; 1] = [2; 1].
Proof. exact ppowmod_example. Qed.

(* the trial division the model uses for IntFactorDom::set returns exactly the prime divisors, for every n >= 1 *)
Theorem C09_prime_factors_exact : Prime_factors_stmt.
Proof. exact prime_factors_thm. Qed.
Print Assumptions C09_prime_factors_exact.

(* is_prim_root, every prime p, modulus and element: true <-> A' = A mod F is prime to F and A'^(qp/l) <> 1 for every prime l | qp,
   qp = MOD^deg F - 1 (no hypothesis) *)
Theorem C09_is_prim_root_tests : Is_prim_root_tests_stmt.
Proof. exact is_prim_root_tests_thm. Qed.
Print Assumptions C09_is_prim_root_tests.
(* with the one finite-field structure fact as hypothesis (A'^qp = 1: Lagrange in the group of units of F_p[X]/(F), F irreducible,
   MOD = p):  is_prim_root <-> no exponent 0 < m < qp has A'^m = 1, i.e. the multiplicative order of A' is exactly qp = q^n - 1.
   Replaces the sweep C09_order_and_primitivity_partial by an argument for every size; the sweep is kept for the structure fact. *)
Theorem C09_prim_root_iff_order_is_group_order : Prim_root_order_stmt.
Proof. exact prim_root_order_thm. Qed.
Print Assumptions C09_prim_root_iff_order_is_group_order.
(* same hypothesis: `order` returns the least positive exponent r with A'^r = 1, and r divides qp *)
Theorem C09_order_is_least_exponent : Order_stmt.
Proof. exact order_thm. Qed.
Print Assumptions C09_order_is_least_exponent.
Example C09_order_hypotheses_satisfiable : prime 2 /\ canon 2 [0; 1] /\ canon 2 [1; 1; 1] /\ (2 <= length [1; 1; 1])%nat /\
  deg (pgcd 2 (pmod 2 [0; 1] [1; 1; 1]) [1; 1; 1]) = 0 /\ 1 <= 2 ^ deg [1; 1; 1] - 1 /\
  ppowmod 2 (pmod 2 [0; 1] [1; 1; 1]) (2 ^ deg [1; 1; 1] - 1) [1; 1; 1] = pone /\
  order 2 [0; 1] [1; 1; 1] 2 = 3 /\ is_prim_root 2 [0; 1] [1; 1; 1] 2 = true.
Proof. exact order_example. Qed.

(* REPAIRED square-free decomposition (Model2.sqrfree_rep = frag/C09.fix-6.diff: gcd(W,C) recurrence + p-th root of the p-th power left
   over; tied to the code by the correspondence run whenever /repo's sqrfree has the p-th-root branch).  Bounded, complete kernel sweep
   INCLUDING characteristic <= degree: multiplies back with the multiplicities up to a constant, parts square-free and pairwise coprime,
   EVERY polynomial of degree <= d over GF(p), (p,d) in sqrfree_rep_bounds = [(2,8); (3,6); (5,5); (7,3); (11,2)] *)
Theorem C09_sqrfree_repaired_multiplies_back_partial : Sqrfree_rep_bounded.
Proof. exact sqrfree_rep_bounded. Qed.
Print Assumptions C09_sqrfree_repaired_multiplies_back_partial.
(* CZfactor over the repaired decomposition: multiplicity bookkeeping for every input and every stream *)
Theorem C09_czfactor_repaired_multiplicities : Czfactor_rep_stmt.
Proof. exact czfactor_rep_thm. Qed.
Print Assumptions C09_czfactor_repaired_multiplicities.
Example C09_sqrfree_repaired_X2_over_GF2 : sqrfree_rep 2 4 3 [0; 0; 1] = (2, [[1]; [0; 1]]).
Proof. exact sqrfree_rep_X2. Qed.

(* Poly1Dom::gcd (Euclid's remainder sequence as modelled, every branch) IS a greatest common divisor: it divides both arguments
   (no hypothesis on its degree, unlike C09_gcd_divides) and every common divisor divides it; Bezout; Gauss' lemma *)
Theorem C09_gcd_is_greatest : Pgcd_greatest_stmt.
Proof. exact pgcd_greatest_thm. Qed.
Print Assumptions C09_gcd_is_greatest.
Theorem C09_gcd_divides_always : Pgcd_divides_stmt.
Proof. exact pgcd_divides_thm. Qed.
Print Assumptions C09_gcd_divides_always.
Theorem C09_gcd_bezout : Bezout_stmt.
Proof. exact bezout_thm. Qed.
Print Assumptions C09_gcd_bezout.
Theorem C09_gauss_lemma : Gauss_stmt.
Proof. exact gauss_thm. Qed.
Print Assumptions C09_gauss_lemma.
Example C09_gcd_hypotheses_satisfiable : prime 5 /\ canon 5 [1; 1] /\ canon 5 [2; 1] /\ pgcd 5 [1; 1] [2; 1] = pone.
Proof. exact pgcd_divides_example. Qed.

(* Poly1Dom::diff is the formal derivative: coefficient i is (i+1) a_(i+1) mod p, for every input; Leibniz' rule *)
Theorem C09_diff_is_derivative : Pdiff_coeff_stmt.
Proof. exact pdiff_coeff_thm. Qed.
Print Assumptions C09_diff_is_derivative.
Theorem C09_diff_leibniz : Pdiff_leibniz_stmt.
Proof. exact pdiff_leibniz_thm. Qed.
Print Assumptions C09_diff_leibniz.
Example C09_diff_example : prime 5 /\ pdiff 5 [1; 2; 3; 4] = [2; 1; 2] /\ dZ [1; 2; 3; 4] = [2; 6; 12].
Proof. exact pdiff_example. Qed.

(* HISTORY (former Yun loop, Model.sqrfree).  square-free decomposition, EVERY canonical input, EVERY characteristic, by the loop invariant
   W_k * (parts so far) = W_0: with A = P / lc P and C = gcd(A, A') / lc, the parts delivered multiply -- without multiplicities -- to
   A / C whenever sqrfree did not leave through its `++count > Nfact` exit; in every case they divide A and every part divides P *)
Theorem C09_sqrfree_parts_multiply_to_radical_cofactor_former_yun_loop_history : Sqrfree_parts_stmt.
Proof. exact sqrfree_parts_thm. Qed.
Print Assumptions C09_sqrfree_parts_multiply_to_radical_cofactor_former_yun_loop_history.
Theorem C09_sqrfree_exit_dichotomy_former_yun_loop_history : Sqrfree_cases_stmt.
Proof. exact sqrfree_cases_thm. Qed.
Print Assumptions C09_sqrfree_exit_dichotomy_former_yun_loop_history.
Theorem C09_sqrfree_parts_divide_input_former_yun_loop_history : Sqrfree_sound_stmt.
Proof. exact sqrfree_sound_thm. Qed.
Print Assumptions C09_sqrfree_parts_divide_input_former_yun_loop_history.
Example C09_sqrfree_parts_hypotheses_satisfiable_char2 : prime 2 /\ canon 2 [0; 0; 1] /\ [0; 0; 1] <> [] /\ 3 <> 0 /\
  sqrfree 2 3 [0; 0; 1] = (1, [[1]]) /\ 1 = Z.of_nat (length [[1]]).
Proof. pose proof sqrfree_parts_example_char2 as H. tauto. Qed.

(* HISTORY (former Yun loop).  Yun's recurrence is EXACT whenever it should be -- every prime p, every size (replaces the sweep C09_sqrfree_multiplies_back_partial_former_yun_loop_history
   by a proof: Bezout, Gauss, Leibniz):  if A = P / lc P is a_1^1 a_2^2 ... a_m^m with the a_i canonical, square-free
   (deg gcd(a_i, a_i') <= 0), pairwise coprime, a_m not constant, and m < p (every multiplicity below the characteristic),
   then sqrfree returns exactly m parts and the i-th part is a_i up to a non-zero constant *)
Theorem C09_sqrfree_yun_exact_below_characteristic_former_yun_loop_history : Sqrfree_yun_stmt.
Proof. exact sqrfree_yun_thm. Qed.
Print Assumptions C09_sqrfree_yun_exact_below_characteristic_former_yun_loop_history.
Example C09_sqrfree_yun_hypotheses_satisfiable : prime 5 /\ canon 5 [0; 3; 3; 3; 0; 3; 1] /\ yun_hyp 5 [[0; 1]; [1; 1]; [2; 1]].
Proof. pose proof sqrfree_yun_example as H. tauto. Qed.

(* HISTORY (Model.czfactor over the former Yun loop).  CZfactor: "no factor is invented", every input, every characteristic, every MOD, every random stream: each returned factor divides
   the input; all returned factors, each taken once, times a constant are the product of the square-free parts; times C they divide A
   and give exactly A when sqrfree did not leave by its early exit ("no factor of the radical cofactor is lost") *)
Theorem C09_czfactor_invents_no_factor_former_yun_loop_history : Czfactor_divides_stmt.
Proof. exact czfactor_divides_thm. Qed.
Print Assumptions C09_czfactor_invents_no_factor_former_yun_loop_history.
Theorem C09_czfactor_factors_are_the_radical_cofactor_former_yun_loop_history : Czfactor_radical_stmt.
Proof. exact czfactor_radical_thm. Qed.
Print Assumptions C09_czfactor_factors_are_the_radical_cofactor_former_yun_loop_history.

(* ------------------------------------------------------------------------------------------------------------------------------------
   The square-free decomposition and CZfactor AS THEY ARE IN THE TREE NOW (repair ffdc6c6 = frag/C09.fix-6: Model2.sqrfree_rep, czfactor_rep;
   the theorems above about Model.sqrfree describe the former Yun loop).  Every prime p, every canonical non-zero input, every size. *)
(* the gcd(W,C) loop: when it is not left by `count >= Nfact` it ended because W became constant (the bound on the number of rounds is
   proved), and then  parts^multiplicities * leftover * non-zero constant = A = P / lc P; the leftover C' is canonical, non-zero, has
   derivative zero and is a polynomial in X^p (proved, not assumed) *)
Theorem C09_sqrfree_loop_invariant : Mus_loop_stmt.
Proof. exact mus_loop_thm. Qed.
Print Assumptions C09_sqrfree_loop_invariant.
(* whichever way the loop ends (also the early exit): parts^multiplicities * Wf^(count+1) * leftover = A *)
Theorem C09_sqrfree_loop_invariant_any_exit : Mus_loop_any_exit_stmt.
Proof. exact mus_loop_any_exit_thm. Qed.
Print Assumptions C09_sqrfree_loop_invariant_any_exit.
(* the p-th-root branch: (a+b)^p = a^p + b^p, c^p = c, g(X)^p = g(X^p) modulo p; `proot` (coefficients at the multiples of p) is a p-th
   root of every polynomial in X^p *)
Theorem C09_frobenius : Frobenius_stmt.
Proof. exact frobenius_thm. Qed.
Print Assumptions C09_frobenius.
Theorem C09_fermat : Fermat_stmt.
Proof. exact fermat_thm. Qed.
Print Assumptions C09_fermat.
Theorem C09_pth_root_is_a_root : Proot_pow_stmt.
Proof. exact proot_pow_thm. Qed.
Print Assumptions C09_pth_root_is_a_root.
(* UNCONDITIONAL: "square-free decomposition multiplies back to the input up to a constant", whatever the multiplicities and the
   characteristic, as soon as Nfact >= deg P (CZfactor passes deg P + 1): count = number of parts stored and
   prod_i Fact[i]^(i+1) * (non-zero constant) = P / lc P.  (Parts square-free and pairwise coprime: sweep theorem only.) *)
Theorem C09_sqrfree_multiplies_back : Sqrfree_rep_correct_stmt.
Proof. exact sqrfree_rep_correct_thm. Qed.
Print Assumptions C09_sqrfree_multiplies_back.
Example C09_sqrfree_multiplies_back_hypotheses_satisfiable : prime 2 /\ canon 2 [0; 0; 0; 0; 1; 0; 0; 0; 1] /\ 0 < 9 /\
  deg [0; 0; 0; 0; 1; 0; 0; 0; 1] <= 9 /\ (length [0; 0; 0; 0; 1; 0; 0; 0; 1] <= 10)%nat /\
  sqrfree_rep 2 10 9 [0; 0; 0; 0; 1; 0; 0; 0; 1] = (4, [[1]; [1]; [1]; [0; 1; 1]]).
Proof. exact sqrfree_rep_correct_example. Qed.
(* UNCONDITIONAL, every MOD and every stream of random choices: "factors whose product with the returned multiplicities equals the input up
   to a non-zero constant, so no factor is lost or invented, whatever the multiplicities": every returned factor divides P, |Lf| = |Le|,
   multiplicities >= 1, prod_i Lf_i^Le_i * (non-zero constant) = P.  (Irreducibility of the factors: not proved beyond the sweeps; decided per
   run by the verified checker irreducible_b / the python oracle.) *)
Theorem C09_czfactor_multiplies_back_and_invents_no_factor : Czfactor_rep_correct_stmt.
Proof. exact czfactor_rep_correct_thm. Qed.
Print Assumptions C09_czfactor_multiplies_back_and_invents_no_factor.
Example C09_czfactor_hypotheses_satisfiable : prime 3 /\ canon 3 [0; 0; 0; 2; 2] /\
  czfactor_rep 3 [0; 0; 0; 2; 2] 3 [1; 2; 1; 1; 2; 0; 1] = Some ([[1; 1]; [0; 1]], [1; 3], [1; 2; 1; 1; 2; 0; 1]).
Proof. exact czfactor_rep_correct_example_char3. Qed.

(* ---------------------------------------------------------------- phase 4 ---------------------------------------------------------------- *)
(* is_prim_root / order are the same functions with the list of prime divisors of q^n-1 as an input, at the model's own list: the
   correspondence run on the boundary fields supplies the list (computed by python), every theorem about is_prim_root / order transfers *)
Theorem C09_prim_root_and_order_with_supplied_factor_list : Prim_root_L_stmt.
Proof. exact prim_root_L_thm. Qed.
Print Assumptions C09_prim_root_and_order_with_supplied_factor_list.
(* Rep& factor(Rep& W, const Rep& P, MOD) as repaired by frag/C09.fix-7 (Model3.factor1): every input, every MOD, every stream:
   what it returns divides P and is canonical *)
Theorem C09_factor_single_returns_divisor : Factor1_stmt.
Proof. exact factor1_thm. Qed.
Print Assumptions C09_factor_single_returns_divisor.
Example C09_factor_single_example : factor1 2 [1; 0; 1] 2 [] = Some ([1; 1], []).
Proof. exact factor1_example. Qed.

(* "factorisation returns IRREDUCIBLE, PAIRWISE NON-ASSOCIATE factors": every prime, every size, every stream, GIVEN the finite-field facts that
   are not proved here, as explicit hypotheses:  ddf_fact p G d = "G is, up to a constant, a product of irreducibles of degree d";
   ddf_hyp p g MOD = ddf_fact for every gcd(X^(q^dp) - X, P) the distinct-degree loop computes on g (a stream-free trace) and irreducibility of
   the cofactor it leaves;  sqfree_h / pairwise_cop = the parts of the square-free decomposition are square-free / pairwise coprime (swept only). *)
(* Euclid's lemma for irreducibles; every non-constant polynomial has an irreducible divisor; a degree-d divisor of a product of
   irreducibles of degree d is irreducible *)
Theorem C09_euclid_lemma_for_irreducibles : Euclid_irr_stmt.
Proof. exact euclid_irr_thm. Qed.
Print Assumptions C09_euclid_lemma_for_irreducibles.
Theorem C09_irreducible_divisor_exists : Exists_irr_divisor_stmt.
Proof. exact exists_irr_divisor_thm. Qed.
Print Assumptions C09_irreducible_divisor_exists.
Theorem C09_degree_d_divisor_of_degree_d_irreducibles_is_irreducible : Deg_d_divisor_irreducible_stmt.
Proof. exact deg_d_divisor_irreducible_thm. Qed.
Print Assumptions C09_degree_d_divisor_of_degree_d_irreducibles_is_irreducible.
(* SplitFactor only appends divisors of G of degree exactly d (no hypothesis); given the distinct-degree fact they are irreducible *)
Theorem C09_split_appends_degree_d_divisors : Split_degs_stmt.
Proof. exact split_degs_thm. Qed.
Print Assumptions C09_split_appends_degree_d_divisors.
Theorem C09_split_factors_irreducible_given_ddf_fact : Split_irreducible_stmt.
Proof. exact split_irreducible_thm. Qed.
Print Assumptions C09_split_factors_irreducible_given_ddf_fact.
Theorem C09_split1_factor_irreducible_given_ddf_fact : Split1_irreducible_stmt.
Proof. exact split1_irreducible_thm. Qed.
Print Assumptions C09_split1_factor_irreducible_given_ddf_fact.
(* DistinctDegreeFactor / CZfactor (current body): every returned factor is irreducible, given ddf_hyp for the polynomial / for each part *)
Theorem C09_ddf_factors_irreducible_given_ddf_facts : Ddf_irreducible_stmt.
Proof. exact ddf_irreducible_thm. Qed.
Print Assumptions C09_ddf_factors_irreducible_given_ddf_facts.
Theorem C09_czfactor_factors_irreducible_given_ddf_facts : Czfactor_rep_irreducible_stmt.
Proof. exact czfactor_rep_irreducible_thm. Qed.
Print Assumptions C09_czfactor_factors_irreducible_given_ddf_facts.
(* pairwise non-associate: the factors DDF returns for a square-free input (no other hypothesis), and the factors CZfactor returns given that
   the parts of the square-free decomposition are square-free and pairwise coprime *)
Theorem C09_ddf_factors_pairwise_non_associate : Ddf_nonassoc_stmt.
Proof. exact ddf_nonassoc_thm. Qed.
Print Assumptions C09_ddf_factors_pairwise_non_associate.
Theorem C09_czfactor_factors_pairwise_non_associate_given_coprime_squarefree_parts : Czfactor_rep_nonassoc_stmt.
Proof. exact czfactor_rep_nonassoc_thm. Qed.
Print Assumptions C09_czfactor_factors_pairwise_non_associate_given_coprime_squarefree_parts.

(* LAGRANGE in the unit group of F_p[X]/(F), F irreducible of ANY degree n over ANY prime field: every non-zero residue A satisfies
   A^(p^n - 1) = 1 (multiplication by A permutes the p^n - 1 non-zero residues; the product of all of them cancels); hence B^(p^n) = B for
   every B.  This was the hypothesis of C09_prim_root_iff_order_is_group_order / C09_order_is_least_exponent and was swept up to GF(32). *)
Theorem C09_lagrange_units_of_quotient_field : Lagrange_stmt.
Proof. exact lagrange_thm. Qed.
Print Assumptions C09_lagrange_units_of_quotient_field.
Theorem C09_nonzero_residues_modulo_irreducible_are_units : Irreducible_unit_stmt.
Proof. exact irreducible_unit_thm. Qed.
Print Assumptions C09_nonzero_residues_modulo_irreducible_are_units.
Theorem C09_frobenius_power_fixes_quotient_field : X_pow_stmt.
Proof. exact X_pow_thm. Qed.
Print Assumptions C09_frobenius_power_fixes_quotient_field.
(* "order and primitivity tests agree with the definition", UNCONDITIONAL: every prime p, every irreducible F of every degree, every A not
   divisible by F: is_prim_root <-> the multiplicative order of A is exactly p^n - 1; `order` returns the least positive exponent, and it
   divides p^n - 1 *)
Theorem C09_is_prim_root_iff_order_is_group_order_unconditional : Prim_root_order_uncond_stmt.
Proof. exact prim_root_order_uncond_thm. Qed.
Print Assumptions C09_is_prim_root_iff_order_is_group_order_unconditional.
Theorem C09_order_is_least_exponent_unconditional : Order_uncond_stmt.
Proof. exact order_uncond_thm. Qed.
Print Assumptions C09_order_is_least_exponent_unconditional.
Example C09_order_unconditional_hypotheses_satisfiable : prime 3 /\ canon 3 [0; 1] /\ canon 3 [1; 0; 1] /\ irreducible_def 3 [1; 0; 1].
Proof. pose proof order_uncond_example as H. tauto. Qed.

(* SOUNDNESS of the implemented irreducibility test, every prime, every degree: is_irreducible P = true -> P is irreducible (definition:
   P = A B -> A or B constant).  (An irreducible divisor g of degree i <= deg P / 2 divides X^(p^i) - X by Lagrange, hence the gcd of round i.) *)
Theorem C09_is_irreducible_sound : Is_irreducible_sound_stmt.
Proof. exact is_irreducible_sound_thm. Qed.
Print Assumptions C09_is_irreducible_sound.
(* hence the requests return what the property says, for every stream on which they return, every prime, every requested degree:
   a monic polynomial of exactly degree n that IS irreducible; for ixe_irreducible moreover X has multiplicative order exactly p^n - 1;
   give_prim_root / give_random_prim_root / random_prim_root return an element of multiplicative order exactly p^n - 1 *)
Theorem C09_random_irreducible_returns_irreducible_of_degree_n : Random_irreducible_correct_stmt.
Proof. exact random_irreducible_correct_thm. Qed.
Print Assumptions C09_random_irreducible_returns_irreducible_of_degree_n.
Theorem C09_creux_random_irreducible_returns_irreducible_of_degree_n : Creux_random_irreducible_correct_stmt.
Proof. exact creux_random_irreducible_correct_thm. Qed.
Print Assumptions C09_creux_random_irreducible_returns_irreducible_of_degree_n.
Theorem C09_ixe_irreducible_returns_irreducible_with_X_primitive : Ixe_irreducible_correct_stmt.
Proof. exact ixe_irreducible_correct_thm. Qed.
Print Assumptions C09_ixe_irreducible_returns_irreducible_with_X_primitive.
Theorem C09_prim_root_test_true_means_generator : Prim_root_generates_stmt.
Proof. exact prim_root_generates_thm. Qed.
Print Assumptions C09_prim_root_test_true_means_generator.
Theorem C09_give_prim_root_returns_generator : Give_prim_root_correct_stmt.
Proof. exact give_prim_root_correct_thm. Qed.
Print Assumptions C09_give_prim_root_returns_generator.
Theorem C09_give_random_prim_root_returns_generator : Give_random_prim_root_correct_stmt.
Proof. exact give_random_prim_root_correct_thm. Qed.
Print Assumptions C09_give_random_prim_root_returns_generator.
Theorem C09_random_prim_root_returns_irreducible_and_generator : Random_prim_root_correct_stmt.
Proof. exact random_prim_root_correct_thm. Qed.
Print Assumptions C09_random_prim_root_returns_irreducible_and_generator.
Example C09_random_irreducible_correct_example : prime 2 /\ random_irreducible 2 3 2 [1; 0; 1; 1; 0; 1; 1; 1] = Some ([1; 1; 0; 1], [1; 1]).
Proof. pose proof random_irreducible_example as H. tauto. Qed.

(* ROOT COUNTING in the quotient field F_p[X]/(F), F irreducible: a polynomial of degree m over it has at most m roots; at most p^i residues
   satisfy a^(p^i) = a (i >= 1); hence an irreducible g dividing X^(p^d) - X (d >= 1) has degree <= d *)
Theorem C09_roots_bound_in_quotient_field : Roots_bound_stmt.
Proof. exact roots_bound_thm. Qed.
Print Assumptions C09_roots_bound_in_quotient_field.
Theorem C09_frobenius_fixed_points_bound : Fixed_points_bound_stmt.
Proof. exact fixed_points_bound_thm. Qed.
Print Assumptions C09_frobenius_fixed_points_bound.
Theorem C09_irreducible_divisor_of_Xq_minus_X_has_small_degree : Irr_divides_Xq_degree_stmt.
Proof. exact irr_divides_Xq_degree_thm. Qed.
Print Assumptions C09_irreducible_divisor_of_Xq_minus_X_has_small_degree.
(* "the irreducibility test answers true EXACTLY for irreducible polynomials": is_irreducible (givpoly1factor.inl), EVERY prime p, EVERY degree,
   every canonical P:  is_irreducible P = true <-> P is irreducible (definition).  Supersedes the sweep C09_irreducibility_tests_decide_partial
   for is_irreducible (the sweep remains the only statement about is_irreducible2). *)
Theorem C09_is_irreducible_complete : Is_irreducible_complete_stmt.
Proof. exact is_irreducible_complete_thm. Qed.
Print Assumptions C09_is_irreducible_complete.
Theorem C09_is_irreducible_decides_irreducibility : Is_irreducible_decides_stmt.
Proof. exact is_irreducible_decides_thm. Qed.
Print Assumptions C09_is_irreducible_decides_irreducibility.
(* the distinct-degree fact, proved: one round of the DDF loop on P (no irreducible divisor of degree < d left) yields a G1 that is, up to a
   constant, a product of irreducibles of degree d, and it contains every irreducible divisor of degree d of P; hence ddf_hyp holds for every
   square-free f, and DistinctDegreeFactor of a square-free polynomial returns irreducible, pairwise non-associate factors: every stream *)
Theorem C09_ddf_round_isolates_degree_d : Ddf_round_stmt.
Proof. exact ddf_round_thm. Qed.
Print Assumptions C09_ddf_round_isolates_degree_d.
Theorem C09_ddf_facts_hold_for_squarefree_input : Ddf_hyp_squarefree_stmt.
Proof. exact ddf_hyp_squarefree_thm. Qed.
Print Assumptions C09_ddf_facts_hold_for_squarefree_input.
Theorem C09_ddf_of_squarefree_returns_irreducible_non_associate_factors : Ddf_irreducible_squarefree_stmt.
Proof. exact ddf_irreducible_squarefree_thm. Qed.
Print Assumptions C09_ddf_of_squarefree_returns_irreducible_non_associate_factors.
(* CZfactor (MOD = p): every returned factor is irreducible, given only that the parts of the square-free decomposition are square-free *)
Theorem C09_czfactor_factors_irreducible_given_squarefree_parts : Czfactor_rep_irreducible_squarefree_stmt.
Proof. exact czfactor_rep_irreducible_squarefree_thm. Qed.
Print Assumptions C09_czfactor_factors_irreducible_given_squarefree_parts.

(* "square-free decomposition multiplies back to the input up to a constant WITH PAIRWISE COPRIME SQUARE-FREE PARTS": the second half, every prime,
   every canonical non-zero P, Nfact >= deg P (with C09_sqrfree_multiplies_back the whole sentence is a theorem; the sweep
   C09_sqrfree_repaired_multiplies_back_partial is superseded).  W0 = A / gcd(A,A') is square-free; the parts of the loop multiply to it;
   they share no irreducible with the p-th power left over; induction over the recursion on p-th roots. *)
Theorem C09_sqrfree_parts_squarefree_and_pairwise_coprime : Sqrfree_rep_parts_stmt.
Proof. exact sqrfree_rep_parts_thm. Qed.
Print Assumptions C09_sqrfree_parts_squarefree_and_pairwise_coprime.
Theorem C09_radical_cofactor_is_squarefree : W0_squarefree_stmt.
Proof. exact W0_squarefree_thm. Qed.
Print Assumptions C09_radical_cofactor_is_squarefree.
(* THE FACTORISATION SENTENCE OF THE PROPERTY, UNCONDITIONAL (prime fields GF(p), MOD = p as every public call form passes, every canonical
   non-zero P, every stream of random choices on which CZfactor returns): the returned factors are canonical and IRREDUCIBLE (definition),
   PAIRWISE NON-ASSOCIATE, as many multiplicities as factors, all >= 1, and prod_i Lf_i^Le_i = P up to a non-zero constant -
   "no factor is lost or invented, whatever the multiplicities". *)
Theorem C09_czfactor_returns_the_factorisation : Czfactor_rep_total_stmt.
Proof. exact czfactor_rep_total_thm. Qed.
Print Assumptions C09_czfactor_returns_the_factorisation.
Example C09_czfactor_total_example : czfactor_rep 3 [0; 0; 0; 2; 2] 3 [1; 2; 1; 1; 2; 0; 1] = Some ([[1; 1]; [0; 1]], [1; 3], [1; 2; 1; 1; 2; 0; 1]).
Proof. vm_compute. reflexivity. Qed.
