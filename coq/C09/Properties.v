(* C09 property theorems (stub, replaced below). *)
From Coq Require Import ZArith List.
From C09 Require Import Model.
Theorem C09_stub : norm nil = nil. Proof. reflexivity. Qed.
Print Assumptions C09_stub.
