(* C09 driver: one case per line  "<op> <p> <stream> <args...>"  (same syntax as harness/c09_factor.C) *)
let zs = z_of_string
let poly_of s = if s = "-" then [] else Model.norm (List.map zs (String.split_on_char ',' s))
let stream_of s = if s = "-" then [] else List.map zs (String.split_on_char ',' s)
let str_poly a = if a = [] then "-" else String.concat "," (List.map string_of_z a)
let str_list l = "[" ^ String.concat " " (List.map str_poly l) ^ "]"
let str_exps l = "{" ^ String.concat " " (List.map string_of_z l) ^ "}"
let b2s b = if b then "1" else "0"
let rec firstn n l = if n <= 0 then [] else match l with [] -> [] | x :: r -> x :: firstn (n - 1) r
let () = run_lines (fun toks ->
  match toks with
  | op :: ps :: st :: args ->
    let p = zs ps in
    let s = stream_of st in
    let a = Array.of_list args in
    let used s' = " #" ^ string_of_int (List.length s - List.length s') in
    let none = "EXHAUSTED" in
    let fuel g = nat_of_int (List.length s + 2 * List.length g + 4) in
    (match op with
     | "irr" -> b2s (Model.is_irreducible p (poly_of a.(0)) p) ^ " #0"
     | "irr2" -> b2s (Model.is_irreducible2 p (poly_of a.(0)) p) ^ " #0"
     | "irrb" -> b2s (Model.irreducible_b p (poly_of a.(0))) ^ " #0"
     | "border" -> let f = poly_of a.(1) in
       let n = List.length f - 1 in
       let rec pw b e = if e = 0 then ZA.one else ZA.mul b (pw b (e - 1)) in
       string_of_z (Model.brute_order p (poly_of a.(0)) f (z_of_za (pw (za_of_z p) n))) ^ " #0"
     | "ixe2" -> (match Model.ixe_irreducible2 p (nat_of_int (int_of_string a.(0))) p s with
         | None -> none | Some (r, s') -> str_poly r ^ used s')
     | "sqrfree" ->
       let pp = poly_of a.(0) in
       let nb = if Array.length a > 1 then zs a.(1) else z_of_string (string_of_int (List.length pp)) in
       let (n, g) = Model.sqrfree p nb pp in
       string_of_z n ^ " " ^ str_list (firstn (int_of_string (string_of_z n)) g) ^ " #0"
     | "sqrfree2" ->      (* Poly1Dom::sqrfree as repaired by frag/C09.fix-6 (used when /repo has the p-th-root branch) *)
       let pp = poly_of a.(0) in
       let nb = if Array.length a > 1 then zs a.(1) else z_of_string (string_of_int (List.length pp)) in
       let (n, g) = Model.sqrfree_rep p (nat_of_int (List.length pp + 1)) nb pp in
       string_of_z n ^ " " ^ str_list (firstn (int_of_string (string_of_z n)) g) ^ " #0"
     | "cz2" -> (match Model.czfactor_rep p (poly_of a.(0)) p s with
         | None -> none | Some ((lf, le), s') -> str_list lf ^ " " ^ str_exps le ^ used s')
     | "ddf" -> (match Model.ddf p (poly_of a.(0)) p [] s with
         | None -> none | Some (l, s') -> str_list l ^ used s')
     | "split" -> let g = poly_of a.(0) in
       (match Model.split p (fuel g) g (zs a.(1)) p [] s with
        | None -> none | Some (l, s') -> str_list l ^ used s')
     | "split1" -> let g = poly_of a.(0) in
       (match Model.split1 p (fuel g) g (zs a.(1)) p s with
        | None -> none | Some (r, s') -> str_poly r ^ used s')
     | "cz" -> (match Model.czfactor p (poly_of a.(0)) p s with
         | None -> none | Some ((lf, le), s') -> str_list lf ^ " " ^ str_exps le ^ used s')
     | "isproot" -> b2s (Model.is_prim_root p (poly_of a.(0)) (poly_of a.(1)) p) ^ " #0"
     | "order" -> string_of_z (Model.order p (poly_of a.(0)) (poly_of a.(1)) p) ^ " #0"
     | "randirr" -> (match Model.random_irreducible p (nat_of_int (int_of_string a.(0))) p s with
         | None -> none | Some (r, s') -> str_poly r ^ used s')
     | "creux" -> (match Model.creux_random_irreducible p (nat_of_int (int_of_string a.(0))) p s with
         | None -> none | Some (r, s') -> str_poly r ^ used s')
     | "ixe" -> (match Model.ixe_irreducible p (nat_of_int (int_of_string a.(0))) p s with
         | None -> none | Some (r, s') -> str_poly r ^ used s')
     | "giveproot" -> (match Model.give_prim_root p (poly_of a.(0)) p s with
         | None -> none | Some (r, s') -> str_poly r ^ used s')
     | "giverandproot" -> (match Model.give_random_prim_root p (poly_of a.(0)) p s with
         | None -> none | Some (r, s') -> str_poly r ^ used s')
     | "randproot" -> (match Model.random_prim_root p (nat_of_int (int_of_string a.(0))) p s with
         | None -> none | Some ((pp, r), s') -> str_poly pp ^ " " ^ str_poly r ^ used s')
     | "isprootL" -> b2s (Model.is_prim_root_L p (poly_of a.(0)) (poly_of a.(1)) p (stream_of a.(2))) ^ " #0"   (* factor list of q^n-1 supplied *)
     | "orderL" -> string_of_z (Model.order_L p (poly_of a.(0)) (poly_of a.(1)) p (stream_of a.(2))) ^ " #0"
     | "factor1" -> (match Model.factor1 p (poly_of a.(0)) p s with
         | None -> none | Some (r, s') -> str_poly r ^ used s')
     | "diff" -> str_poly (Model.pdiff p (poly_of a.(0))) ^ " #0"
     | "powmod" -> str_poly (Model.ppowmod p (poly_of a.(0)) (zs a.(1)) (poly_of a.(2))) ^ " #0"
     | "gcd" -> str_poly (Model.pgcd p (poly_of a.(0)) (poly_of a.(1))) ^ " #0"
     | _ -> "UNKNOWN-OP")
  | _ -> "BAD-LINE")
