(* Extraction of the executable model for the correspondence run (ExtrOcamlBasic only). *)
From Coq Require Import ZArith.
From Coq Require Extraction.
From Coq Require Import ExtrOcamlBasic.
From C10 Require Import Model.
Extraction Language OCaml.
Cd "ocaml".
Extraction "model.ml" mk_neutral mk_int mk_word mk_nd mk_u64 mk_i64 of_double of_text reduce
  radd rsub rmul rdiv rneg rpos rabs addin subin mulin divin trunc floor ceil round pow_i64 pow_u
  rcompare absCompare op_eq op_ne op_lt op_gt op_le op_ge isZero isOne isMOne isInteger sign
  q_init_nd q_axpy q_axpyin q_maxpy q_axmy q_axmyin q_maxpyin q_neg q_negin q_inv q_invin
  q_isOne q_isMOne q_isZero q_areEqual optpair conv_int print_den rmod to_double to_float
  conv_int_T pow_i64_g q_inv_g q_invin_g exec_negin exec_invin
  upd exec_add exec_sub exec_mul exec_div exec_axpy exec_maxpy exec_axmy exec_axpyin exec_maxpyin exec_axmyin
  exec_addin exec_subin exec_mulin exec_divin exec_neg exec_inv exec_assign.
Cd "..".
