(* C10 — executable model of Givaro::Rational (src/kernel/rational/*.C, givrational.{h,inl}) and of
   QField<Rational> (src/kernel/field/qfield.h).  Written after the code, branch by branch; no proofs here.

   A Rational is the pair (num, den) of its two Integer members.  Integer operations are the exact Z
   operations (that is property C01); the few places where the *returned int* of a GMP comparison matters
   (mpz_cmpabs / mpz_cmp return a limb-count difference when the sizes differ) are modelled on limb counts.
   `red` is the static Rational::flags (true = Reduce, the default).
   In-place operators take `alias` = "the argument is *this": reads of the argument's members then see the
   members of *this as they are at that point of the body. *)
From Coq Require Import ZArith Bool.
Local Open Scope Z_scope.
Arguments Z.mul : simpl never.
Arguments Z.add : simpl never.
Arguments Z.pow : simpl never.
Arguments Z.quot : simpl never.
Arguments Z.gcd : simpl never.

Definition rat := (Z * Z)%type.
Definition num (r : rat) : Z := fst r.
Definition den (r : rat) : Z := snd r.

(* ------------------------------------------------------------------ Integer primitives used by the code *)
Definition limbs (x : Z) : Z := if x =? 0 then 0 else Z.log2 (Z.abs x) / 64 + 1.   (* ABSIZ of the mpz *)
Definition cmp3 (a b : Z) : Z := match a ?= b with Lt => -1 | Eq => 0 | Gt => 1 end. (* mpn_cmp *)
(* mpz_cmpabs: size difference if the limb counts differ, else mpn_cmp *)
Definition cmpabsI (a b : Z) : Z :=
  let d := limbs a - limbs b in if d =? 0 then cmp3 (Z.abs a) (Z.abs b) else d.
(* mpz_cmp: difference of the signed sizes if they differ, else +-mpn_cmp *)
Definition cmpI (a b : Z) : Z :=
  let d := Z.sgn a * limbs a - Z.sgn b * limbs b in if d =? 0 then cmp3 a b else d.
Definition isZeroI (a : Z) : bool := a =? 0.
Definition isOneI (a : Z) : bool := a =? 1.
Definition isMOneI (a : Z) : bool := a =? -1.
Definition signI (a : Z) : Z := Z.sgn a.
Definition gcdI (a b : Z) : Z := Z.gcd a b.            (* mpz_gcd: non-negative *)
Definition divI (a b : Z) : Z := Z.quot a b.           (* Integer::operator/ , /= : mpz_tdiv_q *)
Definition absI (a : Z) : Z := if signI a >=? 0 then a else - a.
Definition powI (a p : Z) : Z := a ^ p.                (* mpz_pow_ui, p >= 0 *)
(* Integer::divmod(q,r,a,b) (gmp++_int_div.C, after 4a612f5): one mpz_fdiv_qr for b > 0, one mpz_cdiv_qr for b < 0, so that
   0 <= r < |b| in both cases *)
Definition divmodI (a b : Z) : Z * Z :=
  if b >? 0 then (a / b, a mod b)                            (* mpz_fdiv_qr *)
  else (- ((- a) / b), a + ((- a) / b) * b).                  (* mpz_cdiv_qr: q = ceil(a/b), r = a - q*b *)
Definition floorI (n d : Z) : Z := n / d.               (* mpz_fdiv_q *)
Definition ceilI (n d : Z) : Z := - ((- n) / d).        (* mpz_cdiv_q *)

(* ------------------------------------------------------------------ givrational.inl: predicates *)
Definition isZero (a : rat) : bool := isZeroI (num a).
Definition isOne (a : rat) : bool := isOneI (num a) && isOneI (den a).
Definition isMOne (a : rat) : bool := isMOneI (num a) && isOneI (den a).
Definition isInteger (a : rat) : bool := isOneI (den a).
Definition sign (a : rat) : Z := signI (num a).

(* ------------------------------------------------------------------ givratmisc.C: reduce() *)
Definition reduce (s : rat) : rat :=
  let t := gcdI (num s) (den s) in
  if negb (isOneI t) then
    let s := (divI (num s) t, den s) in
    (num s, divI (den s) t)
  else s.

(* ------------------------------------------------------------------ givratcstor.C: constructors *)
Definition mk_neutral (one : bool) : rat := if one then (1, 1) else (0, 1).
Definition mk_int (n : Z) : rat := if isZeroI n then (0, 1) else (n, 1).   (* Rational(const Integer&) *)
Definition mk_word (n : Z) : rat := (n, 1).                                 (* Rational(int32_t) ... (uint64_t) *)

(* Rational(const Integer& n, const Integer& d, int red); None = GivMathDivZero thrown *)
Definition mk_nd (n d : Z) (redarg : Z) : option rat :=
  if isZeroI d then None else
  let s := if isZeroI n then (0, 1)
           else if signI d >? 0 then (n, d) else (- n, - d) in
  Some (if redarg =? 1 then reduce s else s).

(* Rational(uint64_t n, uint64_t d) (and the uint32_t pair, which forwards) *)
Definition mk_u64 (n d : Z) : option rat :=
  if d =? 0 then None else
  let s := if n =? 0 then (0, 1) else (n, d) in
  Some (reduce s).

(* Rational(int64_t n, int64_t d) (and the int32_t pair, which forwards).  After 170b59e the negations for
   d < 0 are done on Integer (-Integer(n), -Integer(d)), so there is no int64_t overflow to model. *)
Definition mk_i64 (n d : Z) : option rat :=
  if d =? 0 then None else
  let s := if n =? 0 then (0, 1) else (0, 0) in          (* no else: falls through, overwritten below *)
  let s := if d >? 0 then (n, d) else (- n, - d) in
  Some (reduce s).

(* ------------------------------------------------------------------ givratcompare.C *)
Definition absCompare (a b : rat) : Z :=
  let cnum := cmpabsI (num a) (num b) in
  let cden := cmpabsI (den a) (den b) in
  if (cnum =? -1) && (cden =? 1) then -1 else
  if (cnum =? 1) && (cden =? -1) then 1 else
  if cnum =? 0 then - cden else
  if cden =? 0 then cnum else
  let p1 := num a * den b in
  let p2 := den a * num b in
  cmpabsI p1 p2.

Definition rcompare (a b : rat) : Z :=
  if isZeroI (num a) && isZeroI (num b) then 0 else
  if isZeroI (num a) then - signI (num b) else
  if isZeroI (num b) then signI (num a) else
  if negb (signI (num a) =? signI (num b)) then (if signI (num a) =? -1 then -1 else 1) else
  if signI (num a) >? 0 then absCompare a b else - absCompare a b.

(* givrational.inl: the six operators, as written *)
Definition op_ne (a b : rat) : bool := negb (rcompare a b =? 0).
Definition op_eq (a b : rat) : bool := rcompare a b =? 0.
Definition op_lt (a b : rat) : bool := rcompare a b <? 0.
Definition op_gt (a b : rat) : bool := rcompare a b >? 0.
Definition op_le (a b : rat) : bool := rcompare a b <=? 0.
Definition op_ge (a b : rat) : bool := rcompare a b >=? 0.

(* ------------------------------------------------------------------ givrataddsub.C *)
Definition get_nd (o : option rat) : rat := match o with Some r => r | None => (0, 0) end.
(* Rational(n, d, 0) where the code guarantees d <> 0 is written nd0 n d *)
Definition nd0 (n d : Z) : rat := get_nd (mk_nd n d 0).

Definition radd (red : bool) (t r : rat) : rat :=
  if isZero r then t else
  if isZero t then r else
  if isInteger t && isInteger r then mk_int (num t + num r) else
  if negb red then nd0 (num t * den r + num r * den t) (den t * den r) else
  let d1 := gcdI (den t) (den r) in
  if d1 =? 1 then nd0 (num t * den r + num r * den t) (den t * den r) else
  let tt := num t * (divI (den r) d1) + num r * (divI (den t) d1) in
  let d2 := gcdI tt d1 in
  nd0 (divI tt d2) (divI (den t) d1 * divI (den r) d2).

Definition rsub (red : bool) (t r : rat) : rat :=
  if isZero r then t else
  if isZero t then nd0 (- num r) (den r) else
  if isInteger t && isInteger r then mk_int (num t - num r) else
  if negb red then nd0 (num t * den r - num r * den t) (den t * den r) else
  let d1 := gcdI (den t) (den r) in
  if d1 =? 1 then nd0 (num t * den r - num r * den t) (den t * den r) else
  let tt := num t * (divI (den r) d1) - num r * (divI (den t) d1) in
  let d2 := gcdI tt d1 in
  nd0 (divI tt d2) (divI (den t) d1 * divI (den r) d2).

Definition rneg (t : rat) : rat := nd0 (- num t) (den t).
Definition rpos (t : rat) : rat := t.

(* in-place forms.  s is the current state of *this, r the argument.
   operator+= / -= (after 36986de): `if (&r == this) return *this += Rational(r);` - an aliased argument is
   copied first, so the body always reads an object distinct from *this. *)
Definition set_num (s : rat) (v : Z) : rat := (v, den s).
Definition set_den (s : rat) (v : Z) : rat := (num s, v).

Definition addin_body (red : bool) (r s : rat) : rat :=
  if isZero r then s else
  if isZero s then (let s := set_num s (num r) in set_den s (den r)) else
  if isInteger s && isInteger r then set_num s (num s + num r) else
  if negb red then
    let s := set_num s (num s * den r) in
    let s := set_num s (num s + num r * den s) in
    set_den s (den s * den r)
  else
  let d1 := gcdI (den s) (den r) in
  if d1 =? 1 then
    let s := set_num s (num s * den r) in
    let s := set_num s (num s + num r * den s) in
    set_den s (den s * den r)
  else
  let s := set_num s (num s * divI (den r) d1) in
  let s := set_num s (num s + num r * divI (den s) d1) in
  let d2 := gcdI (num s) d1 in
  let s := set_num s (divI (num s) d2) in
  let s := set_den s (divI (den s) d1) in
  let s := set_den s (den s * den r) in
  set_den s (divI (den s) d2).

Definition subin_body (red : bool) (r s : rat) : rat :=
  if isZero r then s else
  if isZero s then (let s := set_num s (- num r) in set_den s (den r)) else
  if isInteger s && isInteger r then set_num s (num s - num r) else
  if negb red then
    let s := set_num s (num s * den r) in
    let s := set_num s (num s - num r * den s) in
    set_den s (den s * den r)
  else
  let d1 := gcdI (den s) (den r) in
  if d1 =? 1 then
    let s := set_num s (num s * den r) in
    let s := set_num s (num s - num r * den s) in
    set_den s (den s * den r)
  else
  let s := set_num s (num s * divI (den r) d1) in
  let s := set_num s (num s - num r * divI (den s) d1) in
  let d2 := gcdI (num s) d1 in
  let s := set_num s (divI (num s) d2) in
  let s := set_den s (divI (den s) d1) in
  let s := set_den s (den s * den r) in
  set_den s (divI (den s) d2).

(* alias = (&r == this) *)
Definition addin (alias : bool) (r : rat) (red : bool) (s : rat) : rat :=
  if alias then addin_body red s s (* Rational(r) is a copy of *this *) else addin_body red r s.
Definition subin (alias : bool) (r : rat) (red : bool) (s : rat) : rat :=
  if alias then subin_body red s s else subin_body red r s.

(* operator*= / operator/= have no aliasing guard: with alias = true the reads of r.num / r.den see the
   members of *this as they are at that point of the body. *)
Section InPlace.
  Variable alias : bool.
  Variable r : rat.
  Definition rn (s : rat) : Z := if alias then num s else num r.
  Definition rd (s : rat) : Z := if alias then den s else den r.
  Definition rarg (s : rat) : rat := (rn s, rd s).

  Definition mulin (red : bool) (s : rat) : rat :=
    if isZero (rarg s) then mk_word 0 else
    if isZero s then s else
    if isOne (rarg s) then s else
    if isOne s then rarg s else
    if isInteger s && isInteger (rarg s) then set_num s (num s * rn s) else
    if (cmpabsI (den s) (rd s) =? 0) || negb red then
      let s := set_num s (num s * rn s) in
      set_den s (den s * rd s)
    else
    let d1 := gcdI (num s) (rd s) in
    let d2 := gcdI (den s) (rn s) in
    let s := set_num s (divI (num s) d1) in
    let s := set_num s (num s * divI (rn s) d2) in
    let s := set_den s (divI (den s) d2) in
    set_den s (den s * divI (rd s) d1).

  Definition divin (red : bool) (s : rat) : option rat :=
    if isZero (rarg s) then None else
    if isZero s then Some s else
    if isOne (rarg s) then Some s else
    if isOne s then
      (if signI (rn s) <? 0 then
         let s := set_num s (- rd s) in Some (set_den s (- rn s))
       else
         let s := set_num s (rd s) in Some (set_den s (rn s)))
    else
    if cmpI (den s) (rd s) =? 0 then
      (if signI (rn s) <? 0 then
         let s := set_den s (- rn s) in
         let s := set_num s (- num s) in
         Some (reduce s)
       else
         let s := set_den s (rn s) in Some (reduce s))
    else
    if negb red then
      (if signI (rn s) <? 0 then
         let s := set_num s (num s * rd s) in
         let s := set_den s (den s * rn s) in
         let s := set_num s (- num s) in
         Some (set_den s (- den s))
       else
         let s := set_num s (num s * rd s) in
         Some (set_den s (den s * rn s)))
    else
    let d1 := gcdI (num s) (rn s) in
    let d2 := gcdI (den s) (rd s) in
    let s := set_num s (divI (num s) d1) in
    let s := set_num s (num s * divI (rd s) d2) in
    let s := set_den s (divI (den s) d2) in
    let s := set_den s (den s * divI (rn s) d1) in
    if signI (den s) <? 0 then
      let s := set_num s (- num s) in Some (set_den s (- den s))
    else Some s.
End InPlace.

(* ------------------------------------------------------------------ givratmuldiv.C *)
Definition rmul (red : bool) (t r : rat) : rat :=
  if isZero r then mk_word 0 else
  if isZero t then mk_word 0 else
  if isOne r then t else
  if isOne t then r else
  if isInteger t && isInteger r then mk_int (num t * num r) else
  if cmpabsI (den t) (den r) =? 0 then nd0 (num t * num r) (den t * den r) else
  if negb red then nd0 (num t * num r) (den t * den r) else
  let d1 := gcdI (num t) (den r) in
  let d2 := gcdI (den t) (num r) in
  nd0 (divI (num t) d1 * divI (num r) d2) (divI (den t) d2 * divI (den r) d1).

Definition rdiv (red : bool) (t r : rat) : option rat :=
  if isZero r then None else
  if isZero t then Some (mk_word 0) else
  if isOne r then Some t else
  if isOne t then
    (if sign r <? 0 then mk_nd (den r) (num r) 0 else mk_nd (- den r) (- num r) 0)
  else
  if cmpabsI (den t) (den r) =? 0 then mk_nd (num t) (num r) 1 else
  if negb red then mk_nd (num t * den r) (den t * num r) 0 else
  let d1 := gcdI (num t) (num r) in
  let d2 := gcdI (den t) (den r) in
  let resnum := divI (num t) d1 * divI (den r) d2 in
  let resnum := if signI (num r) <? 0 then - resnum else resnum in
  let resden := divI (den t) d2 * divI (num r) d1 in
  let resden := if signI resden <? 0 then absI resden else resden in
  mk_nd resnum resden 0.

(* ------------------------------------------------------------------ givratmisc.C, givrational.{h,inl} *)
Definition trunc (r : rat) : Z := divI (num r) (den r).
Definition floor (r : rat) : Z := floorI (num r) (den r).
Definition ceil (r : rat) : Z := ceilI (num r) (den r).
Definition round (x : rat) : Z :=
  let '(q, r) := divmodI (absI (num x)) (den x) in
  let q := if negb (r =? 0) && (cmpabsI (Z.shiftl r 1) (den x) >=? 0) then q + 1 else q in
  if num x <? 0 then - q else q.
Definition rabs (r : rat) : rat := nd0 (absI (num r)) (den r).

(* pow(const Rational&, int64_t); y in the int64_t range (|y| taken by std::abs inside Integer pow) *)
Definition pow_i64 (x : rat) (y : Z) : rat :=
  if y >=? 0 then (powI (num x) (Z.abs y), powI (den x) (Z.abs y))
  else
    let rden := powI (num x) (Z.abs (- y)) in
    let rnum := powI (den x) (Z.abs (- y)) in
    if signI rden <? 0 then (- rnum, - rden) else (rnum, rden).
(* friend pow(const Rational&, uint32_t / uint64_t) *)
Definition pow_u (x : rat) (l : Z) : rat := (powI (num x) l, powI (den x) l).

(* ------------------------------------------------------------------ Rational(double), on the IEEE fields *)
(* sgnbit, e (11 bits), m (52 bits) of the argument; x < 0. is false for -0.0 *)
Definition of_double (red : bool) (sgnbit : bool) (e m : Z) : option rat :=
  let xlt0 := sgnbit && negb ((e =? 0) && (m =? 0)) in
  let s :=
    if e =? 0 then
      (* Integer tt(mantissa); num = (x<0. ? -tt : tt)   (after fb374ec: negation on Integer) *)
      let s := ((if xlt0 then - m else m), 1) in
      divin false (mk_int (Z.shiftl 1 1074)) red s
    else
      let shift := 1075 - e in
      if shift >? 0 then
        let tt := m + 4503599627370496 in
        Some ((if xlt0 then - tt else tt), Z.shiftl 1 shift)
      else
        let tt := m + 4503599627370496 in
        let tt := Z.shiftl tt (- shift) in
        Some ((if xlt0 then - tt else tt), 1) in
  match s with
  | Some s => Some (if red then reduce s else s)
  | None => None
  end.

(* Rational(const char *s) / operator>> after the two integers have been read (integer text I/O is C19) *)
Definition of_text (n : Z) (hasden : bool) (d : Z) : option rat :=
  if hasden then mk_nd n d 1 else mk_nd n 1 1.

(* ------------------------------------------------------------------ qfield.h *)
Definition q_init_nd (n d : Z) : option rat := mk_nd n d 1.
Definition q_axpy (red : bool) (a b c : rat) : rat := radd red (rmul red a b) c.
Definition q_axpyin (red : bool) (r a b : rat) : rat := addin false (rmul red a b) red r.
Definition q_maxpy (red : bool) (a b c : rat) : rat := rsub red c (rmul red a b).
Definition q_axmy (red : bool) (a b c : rat) : rat := rsub red (rmul red a b) c.
Definition q_axmyin (red : bool) (r a b : rat) : rat := rsub red (rmul red a b) r.
Definition q_maxpyin (red : bool) (r a b : rat) : rat := subin false (rmul red a b) red r.
Definition q_neg (a : rat) : rat := (- num a, den a).
Definition q_negin (r : rat) : rat := (- num r, den r).
Definition q_invin (r : rat) : rat :=
  let snum := signI (num r) in
  let s := (den r, num r) in
  if snum <? 0 then (- num s, - den s) else s.
(* inv(r, a); alias = (&r == &a): forwards to invin (after 4bcc635) *)
Definition q_inv (alias : bool) (a : rat) : rat :=
  if alias then q_invin a else
  let snum := signI (num a) in
  let s := (den a, num a) in
  if snum <? 0 then (- num s, - den s) else s.
Definition q_isOne (a : rat) : bool := rcompare a (1, 1) =? 0.
Definition q_isMOne (a : rat) : bool := rcompare a (-1, 1) =? 0.
Definition q_isZero (a : rat) : bool := rcompare a (0, 1) =? 0.
Definition q_areEqual (a b : rat) : bool := rcompare a b =? 0.

(* ------------------------------------------------------------------ conversions, printing, residue *)
(* operator int / int64_t / uint64_t / uint32_t (and the narrower ones through them): (T)(num / den), i.e. trunc,
   for values in the range of T (the Integer -> T conversion itself is C01) *)
Definition conv_int (r : rat) : Z := divI (num r) (den r).
(* the cast to the machine type T = [lo, hi] that follows: the identity inside the range; outside the range the
   Integer -> T conversion is property C01's subject (None here) *)
Definition cast_T (lo hi v : Z) : option Z := if (lo <=? v) && (v <=? hi) then Some v else None.
Definition conv_int_T (lo hi : Z) (r : rat) : option Z := cast_T lo hi (divI (num r) (den r)).
(* Rational::print (operator<<, QField::write): `if (den > 1) s << num << "/" << den; else s << num;` *)
Definition print_den (r : rat) : option Z := if den r >? 1 then Some (den r) else None.

(* Integer::invin(res, r) = mpz_invert: the inverse in [0, |m|) when it exists.  Extended Euclid on
   (r0, s0), (r1, s1) with s_i * a = r_i (mod m); the fuel 2*log2|m|+4 exceeds the number of division steps. *)
Fixpoint inv_loop (n : nat) (r0 r1 s0 s1 : Z) : Z * Z :=
  match n with
  | O => (r0, s0)
  | S n' => if r1 =? 0 then (r0, s0) else
            let q := r0 / r1 in inv_loop n' r1 (r0 - q * r1) s1 (s0 - q * s1)
  end.
Definition invmodI (a m : Z) : option Z :=
  let m' := Z.abs m in
  let gs := inv_loop (Z.to_nat (2 * Z.log2 m' + 4)) m' (a mod m') 0 1 in
  if fst gs =? 1 then Some (snd gs mod m') else None.
(* Integer Rational::operator% (const Integer& r): outer None = GivMathDivZero; inner None = den has no inverse
   modulo r (mpz_invert leaves its result unspecified: outside the domain) *)
Definition rmod (x : rat) (r : Z) : option (option Z) :=
  if isZeroI r then None else
  if isZeroI (num x) then Some (Some (num x)) else
  match invmodI (den x) r with
  | Some i => Some (Some (i * num x))
  | None => Some None
  end.

(* ------------------------------------------------------------------ operator double / operator float (givrational.h) *)
(* `operator double() const { return ((double)this->num)/((double)this->den); }`  and the float analogue.
   (double)Integer is mpz_get_d: the value truncated toward zero to its 53 most significant bits (p = 53). *)
Definition trunc_bits (p a : Z) : Z :=
  let s := Z.log2 a + 1 - p in if s <=? 0 then a else (a / 2 ^ s) * 2 ^ s.

(* IEEE-754 round-to-nearest-even of the positive quotient N/D into a binary format with precision p whose smallest
   subnormal is 2^emin (emin <= 0; no upper exponent limit here: see `encode`).  Result (m, e) stands for m * 2^e.
   Everything is scaled by 2^-emin so that only non-negative powers occur: N0/D is the quotient in units of 2^emin. *)
Definition rne_quot (p emin N D : Z) : Z * Z :=
  let N0 := N * 2 ^ (- emin) in
  let k0 := Z.log2 N0 - Z.log2 D in
  let k := if k0 <=? 0 then 0 else if N0 <? D * 2 ^ k0 then k0 - 1 else k0 in
  let e' := Z.max (k - (p - 1)) 0 in
  let D' := D * 2 ^ e' in
  let q := N0 / D' in
  let r := N0 mod D' in
  let m := if 2 * r <? D' then q else if D' <? 2 * r then q + 1 else if Z.even q then q else q + 1 in
  (m, e' + emin).

(* packing into the bit fields: w exponent bits, p-1 fraction bits; exponent field 2^w-1 = infinity (overflow) *)
Definition encode (p emin w : Z) (neg : bool) (me : Z * Z) : Z :=
  let '(m, e) := me in
  let '(m, e) := if m =? 2 ^ p then (2 ^ (p - 1), e + 1) else (m, e) in
  let sub := m <? 2 ^ (p - 1) in
  let E := if sub then 0 else e - emin + 1 in
  let frac := if sub then m else m - 2 ^ (p - 1) in
  let '(E, frac) := if E >=? 2 ^ w - 1 then (2 ^ w - 1, 0) else (E, frac) in
  (if neg then 2 ^ (w + p - 1) else 0) + E * 2 ^ (p - 1) + frac.

(* the 64 bits of (double)r; None: one of the two Integer -> double conversions is out of range (|.| >= 2^1024) *)
Definition to_double (r : rat) : option Z :=
  let n := Z.abs (num r) in let d := Z.abs (den r) in
  if (2 ^ 1024 <=? n) || (2 ^ 1024 <=? d) then None else
  if n =? 0 then Some 0 else
  Some (encode 53 (-1074) 11 (num r <? 0) (rne_quot 53 (-1074) (trunc_bits 53 n) (trunc_bits 53 d))).

(* (float)Integer = (float)mpz_get_d(.): truncation to 53 bits, then round-to-nearest-even to 24 bits *)
Definition int_of_me (me : Z * Z) : Z := let '(m, e) := me in if e >=? 0 then m * 2 ^ e else m / 2 ^ (- e).
Definition get_f (a : Z) : Z := int_of_me (rne_quot 24 (-149) (trunc_bits 53 a) 1).
(* the 32 bits of (float)r; None: a conversion Integer -> float overflows (>= 2^128 after rounding) *)
Definition to_float (r : rat) : option Z :=
  let n := Z.abs (num r) in let d := Z.abs (den r) in
  if (2 ^ 1024 <=? n) || (2 ^ 1024 <=? d) then None else
  if n =? 0 then Some 0 else
  let fn := get_f n in let fd := get_f d in
  if (2 ^ 128 <=? fn) || (2 ^ 128 <=? fd) then None else
  Some (encode 24 (-149) 8 (num r <? 0) (rne_quot 24 (-149) fn fd)).

(* ------------------------------------------------------------------ zero-denominator guards (frag/C10.fix-9) *)
(* pow(x, y) with y < 0 and QField::inv / invin exchange numerator and denominator.  For a zero operand the bodies above
   (pow_i64, q_inv, q_invin: the code up to fix-9, kept as the arithmetic part) store x/0; operator/ throws GivMathDivZero
   in the same situation, and so do the guarded functions (None = GivMathDivZero). *)
Definition pow_i64_g (x : rat) (y : Z) : option rat :=
  if (y <? 0) && isZeroI (num x) then None else Some (pow_i64 x y).
Definition q_invin_g (r : rat) : option rat := if signI (num r) =? 0 then None else Some (q_invin r).
Definition q_inv_g (alias : bool) (a : rat) : option rat :=
  if alias then q_invin_g a else if signI (num a) =? 0 then None else Some (q_inv false a).

(* ------------------------------------------------------------------ in-place operators with the argument read through accessors *)
(* The bodies of += -= *= /= once more, with every read of r.num / r.den going through rn / rd applied to the CURRENT state
   of *this.  rn = fun _ => n is an argument that is a distinct object or a temporary; rn = num is `x op= x`.
   (addin_body / subin_body / mulin / divin above are the instances the phase 1-3 proofs are about.) *)
Section InPlaceG.
  Variable rn rd : rat -> Z.
  Definition addin_body_g (red : bool) (s : rat) : rat :=
    if isZeroI (rn s) then s else
    if isZero s then (let s := set_num s (rn s) in set_den s (rd s)) else
    if isInteger s && isOneI (rd s) then set_num s (num s + rn s) else
    if negb red then
      let s := set_num s (num s * rd s) in
      let s := set_num s (num s + rn s * den s) in
      set_den s (den s * rd s)
    else
    let d1 := gcdI (den s) (rd s) in
    if d1 =? 1 then
      let s := set_num s (num s * rd s) in
      let s := set_num s (num s + rn s * den s) in
      set_den s (den s * rd s)
    else
    let s := set_num s (num s * divI (rd s) d1) in
    let s := set_num s (num s + rn s * divI (den s) d1) in
    let d2 := gcdI (num s) d1 in
    let s := set_num s (divI (num s) d2) in
    let s := set_den s (divI (den s) d1) in
    let s := set_den s (den s * rd s) in
    set_den s (divI (den s) d2).
  Definition subin_body_g (red : bool) (s : rat) : rat :=
    if isZeroI (rn s) then s else
    if isZero s then (let s := set_num s (- rn s) in set_den s (rd s)) else
    if isInteger s && isOneI (rd s) then set_num s (num s - rn s) else
    if negb red then
      let s := set_num s (num s * rd s) in
      let s := set_num s (num s - rn s * den s) in
      set_den s (den s * rd s)
    else
    let d1 := gcdI (den s) (rd s) in
    if d1 =? 1 then
      let s := set_num s (num s * rd s) in
      let s := set_num s (num s - rn s * den s) in
      set_den s (den s * rd s)
    else
    let s := set_num s (num s * divI (rd s) d1) in
    let s := set_num s (num s - rn s * divI (den s) d1) in
    let d2 := gcdI (num s) d1 in
    let s := set_num s (divI (num s) d2) in
    let s := set_den s (divI (den s) d1) in
    let s := set_den s (den s * rd s) in
    set_den s (divI (den s) d2).
  Definition rarg_g (s : rat) : rat := (rn s, rd s).
  Definition mulin_g (red : bool) (s : rat) : rat :=
    if isZero (rarg_g s) then mk_word 0 else
    if isZero s then s else
    if isOne (rarg_g s) then s else
    if isOne s then rarg_g s else
    if isInteger s && isInteger (rarg_g s) then set_num s (num s * rn s) else
    if (cmpabsI (den s) (rd s) =? 0) || negb red then
      let s := set_num s (num s * rn s) in
      set_den s (den s * rd s)
    else
    let d1 := gcdI (num s) (rd s) in
    let d2 := gcdI (den s) (rn s) in
    let s := set_num s (divI (num s) d1) in
    let s := set_num s (num s * divI (rn s) d2) in
    let s := set_den s (divI (den s) d2) in
    set_den s (den s * divI (rd s) d1).
  Definition divin_g (red : bool) (s : rat) : option rat :=
    if isZero (rarg_g s) then None else
    if isZero s then Some s else
    if isOne (rarg_g s) then Some s else
    if isOne s then
      (if signI (rn s) <? 0 then
         let s := set_num s (- rd s) in Some (set_den s (- rn s))
       else
         let s := set_num s (rd s) in Some (set_den s (rn s)))
    else
    if cmpI (den s) (rd s) =? 0 then
      (if signI (rn s) <? 0 then
         let s := set_den s (- rn s) in
         let s := set_num s (- num s) in
         Some (reduce s)
       else
         let s := set_den s (rn s) in Some (reduce s))
    else
    if negb red then
      (if signI (rn s) <? 0 then
         let s := set_num s (num s * rd s) in
         let s := set_den s (den s * rn s) in
         let s := set_num s (- num s) in
         Some (set_den s (- den s))
       else
         let s := set_num s (num s * rd s) in
         Some (set_den s (den s * rn s)))
    else
    let d1 := gcdI (num s) (rn s) in
    let d2 := gcdI (den s) (rd s) in
    let s := set_num s (divI (num s) d1) in
    let s := set_num s (num s * divI (rd s) d2) in
    let s := set_den s (divI (den s) d2) in
    let s := set_den s (den s * divI (rn s) d1) in
    if signI (den s) <? 0 then
      let s := set_num s (- num s) in Some (set_den s (- den s))
    else Some s.
End InPlaceG.

(* ------------------------------------------------------------------ qfield.h wrappers, statement by statement on a store of objects *)
(* Objects live in a store (index -> the two Integer members); a call names the objects passed for r, a, b, c (any of them
   may coincide).  Every read and write of a member goes to the store as it is AT THAT POINT of the body.  Temporaries
   (the results of the const operators + - * /, and `Rational(r)` in += / -=) are values: they are not objects of the store. *)
Definition store := Z -> rat.
Definition upd (s : store) (i : Z) (v : rat) : store := fun j => if j =? i then v else s j.
Definition getn (s : store) (i : Z) : Z := num (s i).
Definition getd (s : store) (i : Z) : Z := den (s i).
Definition setn (s : store) (i v : Z) : store := upd s i (v, getd s i).
Definition setd (s : store) (i v : Z) : store := upd s i (getn s i, v).
(* Rational::operator=(const Rational& t) on object r, t a temporary: num.logcpy(t.num); den.logcpy(t.den) *)
Definition assign_tmp (s : store) (r : Z) (t : rat) : store := setd (setn s r (num t)) r (den t).
(* the same with an object of the store on the right: `if (this == &t) return *this;`, then the two members in turn *)
Definition assign_obj (s : store) (r a : Z) : store :=
  if r =? a then s else let s1 := setn s r (getn s a) in setd s1 r (getd s1 a).
(* an in-place operator running on object r: every statement of the body updates the store; the argument's members are
   read through rn / rd from the CURRENT store *)
Definition inplace (body : (rat -> Z) -> (rat -> Z) -> bool -> rat -> rat) (red : bool) (s : store) (r : Z)
                   (rn rd : store -> Z) : store :=
  upd s r (body (fun cur => rn (upd s r cur)) (fun cur => rd (upd s r cur)) red (s r)).
Definition inplace_opt (body : (rat -> Z) -> (rat -> Z) -> bool -> rat -> option rat) (red : bool) (s : store) (r : Z)
                       (rn rd : store -> Z) : option store :=
  match body (fun cur => rn (upd s r cur)) (fun cur => rd (upd s r cur)) red (s r) with
  | Some v => Some (upd s r v) | None => None end.

(* { return r = a + b; } etc.: the const operator builds a temporary from a and b, then operator= writes r *)
Definition exec_add (red : bool) (s : store) (r a b : Z) : store := assign_tmp s r (radd red (s a) (s b)).
Definition exec_sub (red : bool) (s : store) (r a b : Z) : store := assign_tmp s r (rsub red (s a) (s b)).
Definition exec_mul (red : bool) (s : store) (r a b : Z) : store := assign_tmp s r (rmul red (s a) (s b)).
Definition exec_div (red : bool) (s : store) (r a b : Z) : option store :=
  match rdiv red (s a) (s b) with Some t => Some (assign_tmp s r t) | None => None end.
(* { return r = a * b + c; }  { return r = c - a * b; }  { return r = a * b - c; }  { return r = a * b - r; } *)
Definition exec_axpy (red : bool) (s : store) (r a b c : Z) : store :=
  let t := rmul red (s a) (s b) in assign_tmp s r (radd red t (s c)).
Definition exec_maxpy (red : bool) (s : store) (r a b c : Z) : store :=
  let t := rmul red (s a) (s b) in assign_tmp s r (rsub red (s c) t).
Definition exec_axmy (red : bool) (s : store) (r a b c : Z) : store :=
  let t := rmul red (s a) (s b) in assign_tmp s r (rsub red t (s c)).
Definition exec_axmyin (red : bool) (s : store) (r a b : Z) : store :=
  let t := rmul red (s a) (s b) in assign_tmp s r (rsub red t (s r)).
(* { return r += a * b; }  { return r -= a * b; }: the argument of the in-place operator is the temporary a * b *)
Definition exec_axpyin (red : bool) (s : store) (r a b : Z) : store :=
  let t := rmul red (s a) (s b) in inplace addin_body_g red s r (fun _ => num t) (fun _ => den t).
Definition exec_maxpyin (red : bool) (s : store) (r a b : Z) : store :=
  let t := rmul red (s a) (s b) in inplace subin_body_g red s r (fun _ => num t) (fun _ => den t).
(* { return r += a; }: operator+= starts with `if (&a == this) return *this += Rational(a);` (a temporary copy) *)
Definition exec_addin (red : bool) (s : store) (r a : Z) : store :=
  if a =? r then (let t := s a in inplace addin_body_g red s r (fun _ => num t) (fun _ => den t))
  else inplace addin_body_g red s r (fun st => getn st a) (fun st => getd st a).
Definition exec_subin (red : bool) (s : store) (r a : Z) : store :=
  if a =? r then (let t := s a in inplace subin_body_g red s r (fun _ => num t) (fun _ => den t))
  else inplace subin_body_g red s r (fun st => getn st a) (fun st => getd st a).
(* { return r *= a; }  { return r /= a; }: no guard, the members of a are read from the store while r is being written *)
Definition exec_mulin (red : bool) (s : store) (r a : Z) : store :=
  inplace mulin_g red s r (fun st => getn st a) (fun st => getd st a).
Definition exec_divin (red : bool) (s : store) (r a : Z) : option store :=
  inplace_opt divin_g red s r (fun st => getn st a) (fun st => getd st a).
(* neg: Integer::neg(r.num, a.num); r.den = a.den; *)
Definition exec_neg (s : store) (r a : Z) : store :=
  let s1 := setn s r (- getn s a) in setd s1 r (getd s1 a).
Definition exec_negin (s : store) (r : Z) : store := setn s r (- getn s r).
(* invin: snum = sign(r.num); [throw]; std::swap(r.num, r.den); if (snum < 0) { negin(r.num); negin(r.den); } *)
Definition exec_invin (s : store) (r : Z) : option store :=
  let snum := signI (getn s r) in
  if snum =? 0 then None else
  let n := getn s r in let d := getd s r in
  let s1 := setd (setn s r d) r n in
  Some (if snum <? 0 then (let s2 := setn s1 r (- getn s1 r) in setd s2 r (- getd s2 r)) else s1).
(* inv: if (&r == &a) return invin(r); snum = sign(a.num); [throw]; r.num = a.den; r.den = a.num; if (snum < 0) ... *)
Definition exec_inv (s : store) (r a : Z) : option store :=
  if r =? a then exec_invin s r else
  let snum := signI (getn s a) in
  if snum =? 0 then None else
  let s1 := setn s r (getd s a) in
  let s2 := setd s1 r (getn s1 a) in
  Some (if snum <? 0 then (let s3 := setn s2 r (- getn s2 r) in setd s3 r (- getd s3 r)) else s2).
(* inv as it was before 4bcc635 (no alias guard), kept as the counter-example *)
Definition exec_inv_unguarded (s : store) (r a : Z) : store :=
  let snum := signI (getn s a) in
  let s1 := setn s r (getd s a) in
  let s2 := setd s1 r (getn s1 a) in
  if snum <? 0 then (let s3 := setn s2 r (- getn s2 r) in setd s3 r (- getd s3 r)) else s2.
Definition exec_assign (s : store) (r a : Z) : store := assign_obj s r a.
(* `r = a * b; return r += c;` (the seeded change C10-m6, kept as the counter-example) *)
Definition exec_axpy_two_step (red : bool) (s : store) (r a b c : Z) : store :=
  let s1 := assign_tmp s r (rmul red (s a) (s b)) in exec_addin red s1 r c.

(* ------------------------------------------------------------------ wrappers for extraction *)
Definition optpair (o : option rat) : bool * rat := match o with Some r => (true, r) | None => (false, (0, 0)) end.
