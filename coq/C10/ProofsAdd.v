(* C10 — operator+ / operator- / += / -= / unary minus / abs  (givrataddsub.C), every branch. *)
From Coq Require Import ZArith Znumtheory QArith Lia Bool.
From C10 Require Import Model ProofsBase.
Local Open Scope Z_scope.

(* The arithmetic heart of the general (gcd-based) branch of operator+ :
   d1 = gcd(dt,dr); t = nt*(dr/d1) + nr*(dt/d1); d2 = gcd(t,d1); result t/d2 over (dt/d1)*(dr/d2). *)
Lemma add_core : forall nt dt nr dr, 0 < dt -> 0 < dr -> Z.gcd nt dt = 1 -> Z.gcd nr dr = 1 ->
  let d1 := Z.gcd dt dr in
  let tt := nt * (Z.quot dr d1) + nr * (Z.quot dt d1) in
  let d2 := Z.gcd tt d1 in
  let N := Z.quot tt d2 in
  let D := Z.quot dt d1 * Z.quot dr d2 in
  0 < D /\ Z.gcd N D = 1 /\ N * (dt * dr) = (nt * dr + nr * dt) * D /\
  Z.quot (Z.quot dt d1 * dr) d2 = D.
Proof.
  intros nt dt nr dr Hdt Hdr Gt Gr d1.
  destruct (gcd_decomp dt dr (gcd_pos_r _ _ Hdr)) as (Ea & Eb & Gab & Hd1). fold d1 in Ea, Eb, Gab, Hd1.
  set (a := Z.quot dt d1) in *. set (b := Z.quot dr d1) in *.
  intros tt d2.
  destruct (gcd_decomp tt d1) as (EN & Ec & GNc & Hd2). { apply gcd_pos_r; exact Hd1. }
  fold d2 in EN, Ec, GNc, Hd2.
  set (N := Z.quot tt d2) in *. set (c := Z.quot d1 d2) in *.
  assert (Ett : tt = nt * b + nr * a) by reflexivity.
  assert (Ha : 0 < a) by nia. assert (Hb : 0 < b) by nia. assert (Hc : 0 < c) by nia.
  assert (Edr : dr = (b * c) * d2). { rewrite Eb. rewrite Ec at 1. ring. }
  assert (Hq : Z.quot dr d2 = b * c). { rewrite Edr at 1. apply quot_exact. lia. }
  assert (Hq2 : Z.quot (a * dr) d2 = a * (b * c)).
  { replace (a * dr) with ((a * (b * c)) * d2) by (rewrite Edr; ring). apply quot_exact. lia. }
  cbv zeta. rewrite Hq, Hq2.
  (* coprimality of N with a, b, c *)
  assert (GNa : Z.gcd N a = 1).
  { apply cop_div_l with tt; [| exists d2; lia].
    rewrite Ett. apply cop_add_mul. apply cop_mul_l; [| apply cop_sym; exact Gab].
    apply cop_div_r with dt; [exact Gt | exists d1; lia]. }
  assert (GNb : Z.gcd N b = 1).
  { apply cop_div_l with tt; [| exists d2; lia].
    rewrite Ett. rewrite Z.add_comm. apply cop_add_mul. apply cop_mul_l; [| exact Gab].
    apply cop_div_r with dr; [exact Gr | exists d1; lia]. }
  split; [nia|]. split; [apply cop_mul_r; [exact GNa | apply cop_mul_r; assumption]|]. split; [| reflexivity].
  clearbody N c a b tt d2. clearbody d1. subst dt dr. subst d1.
  assert (H : N * d2 = nt * b + nr * a) by lia.
  replace ((nt * (b * (c * d2)) + nr * (a * (c * d2))) * (a * (b * c)))
    with ((c * d2) * (nt * b + nr * a) * (a * (b * c))) by ring.
  rewrite <- H. ring.
Qed.

(* the branch gcd(dt,dr) = 1 (and, for the value, the NoReduce branch) *)
Lemma add_core1 : forall nt dt nr dr, 0 < dt -> 0 < dr -> Z.gcd nt dt = 1 -> Z.gcd nr dr = 1 ->
  Z.gcd dt dr = 1 -> Z.gcd (nt * dr + nr * dt) (dt * dr) = 1.
Proof.
  intros nt dt nr dr Hdt Hdr Gt Gr G. apply cop_mul_r.
  - apply cop_add_mul. apply cop_mul_l; [exact Gt | apply cop_sym; exact G].
  - rewrite Z.add_comm. apply cop_add_mul. apply cop_mul_l; [exact Gr | exact G].
Qed.

(* integer-level specification of operator+ in both modes *)
Definition add_post (red : bool) (t r x : rat) : Prop :=
  0 < den x /\ (red = true -> canon x) /\
  num x * (den t * den r) = (num t * den r + num r * den t) * den x.

Lemma radd_post : forall red t r, 0 < den t -> 0 < den r -> (red = true -> canon t /\ canon r) ->
  add_post red t r (radd red t r).
Proof.
  intros red [nt dt] [nr dr] Ht Hr Hc. unfold radd, add_post, isZero, isInteger, isZeroI, isOneI, gcdI, divI.
  cbn [num den fst snd] in *.
  destruct (Z.eqb_spec nr 0) as [-> | Hnr].
  { cbn [num den fst snd]. split; [lia|]. split; [intros E; apply Hc; exact E | nia]. }
  destruct (Z.eqb_spec nt 0) as [-> | Hnt].
  { cbn [num den fst snd]. split; [lia|]. split; [intros E; apply Hc; exact E | nia]. }
  destruct (Z.eqb_spec dt 1) as [-> | Hdt1]; cbn [andb].
  - destruct (Z.eqb_spec dr 1) as [-> | Hdr1].
    + destruct (mk_int_canon (nt + nr)) as (C & En & Ed). rewrite En, Ed. split; [lia|]. split; [intros _; exact C | ring].
    + (* t integer, r not *)
      destruct red; cbn [negb].
      * destruct (Hc eq_refl) as [[_ Gt] [_ Gr]]. cbn [num den fst snd] in *.
        rewrite Z.gcd_1_l. change (1 =? 1) with true. cbv iota.
        assert (C : canon (nt * dr + nr * 1, 1 * dr)).
        { split; cbn [num den fst snd]; [lia|]. apply add_core1; try lia; try assumption. apply Z.gcd_1_l. }
        rewrite (nd0_canon _ _ C). cbn [num den fst snd]. split; [lia|]. split; [intros _; exact C | ring].
      * destruct (nd0_spec (nt * dr + nr * 1) (1 * dr)) as (P & S & _); [lia|].
        split; [exact P|]. split; [discriminate|]. unfold same in S; cbn [num den fst snd] in S. nia.
  - destruct red; cbn [negb].
    + destruct (Hc eq_refl) as [[_ Gt] [_ Gr]]. cbn [num den fst snd] in *.
      destruct (Z.eqb_spec (Z.gcd dt dr) 1) as [G1 | G1].
      * assert (C : canon (nt * dr + nr * dt, dt * dr)).
        { split; cbn [num den fst snd]; [nia|]. apply add_core1; assumption. }
        rewrite (nd0_canon _ _ C). cbn [num den fst snd]. split; [nia|]. split; [intros _; exact C | ring].
      * destruct (add_core nt dt nr dr Ht Hr Gt Gr) as (PD & GD & V & _).
        cbv zeta in PD, GD, V.
        match goal with |- context [nd0 ?n ?d] => assert (C : canon (n, d)) by (split; cbn [num den fst snd]; assumption) end.
        rewrite (nd0_canon _ _ C). cbn [num den fst snd]. split; [exact PD|]. split; [intros _; exact C | exact V].
    + destruct (nd0_spec (nt * dr + nr * dt) (dt * dr)) as (P & S & _); [nia|].
      split; [exact P|]. split; [discriminate|]. unfold same in S; cbn [num den fst snd] in S. nia.
Qed.

(* operator- is operator+ on the argument with the numerator negated, branch by branch *)
Lemma rsub_radd : forall red t r, 0 < den r -> rsub red t r = radd red t (- num r, den r).
Proof.
  intros red [nt dt] [nr dr] Hr. unfold rsub, radd, isZero, isInteger, isZeroI, isOneI, gcdI, divI.
  cbn [num den fst snd] in *.
  replace (- nr =? 0) with (nr =? 0) by (destruct (Z.eqb_spec nr 0), (Z.eqb_spec (- nr) 0); lia).
  destruct (Z.eqb_spec nr 0) as [-> | Hnr]; [reflexivity|].
  destruct (Z.eqb_spec nt 0) as [-> | Hnt].
  { unfold nd0, mk_nd, isZeroI, signI. destruct (Z.eqb_spec dr 0); [lia|].
    destruct (Z.eqb_spec (- nr) 0); [lia|]. destruct (Z.gtb_spec (Z.sgn dr) 0); [reflexivity | lia]. }
  replace (nt - nr) with (nt + - nr) by ring.
  replace (nt * dr - nr * dt) with (nt * dr + - nr * dt) by ring.
  replace (nt * Z.quot dr (Z.gcd dt dr) - nr * Z.quot dt (Z.gcd dt dr))
    with (nt * Z.quot dr (Z.gcd dt dr) + - nr * Z.quot dt (Z.gcd dt dr)) by ring.
  reflexivity.
Qed.

Definition sub_post (red : bool) (t r x : rat) : Prop :=
  0 < den x /\ (red = true -> canon x) /\
  num x * (den t * den r) = (num t * den r - num r * den t) * den x.

Lemma canon_neg : forall r, canon r -> canon (- num r, den r).
Proof. intros [n d] [H G]; split; cbn [num den fst snd] in *; [assumption | apply cop_opp_l; assumption]. Qed.

Lemma rsub_post : forall red t r, 0 < den t -> 0 < den r -> (red = true -> canon t /\ canon r) ->
  sub_post red t r (rsub red t r).
Proof.
  intros red t r Ht Hr Hc. rewrite rsub_radd by assumption.
  destruct (radd_post red t (- num r, den r)) as (P & C & V); cbn [num den fst snd]; try assumption.
  { intros E. destruct (Hc E). split; [assumption | apply canon_neg; assumption]. }
  split; [exact P|]. split; [exact C|]. cbn [num den fst snd] in V. lia.
Qed.

(* ------------------------------------------------------------------ in-place forms *)
(* Reduce mode: operator+= computes, statement by statement, the same pair as operator+ *)
Lemma addin_body_radd : forall r s, canon s -> canon r -> addin_body true r s = radd true s r.
Proof.
  intros [nr dr] [ns ds] [Hs Gs] [Hr Gr]. unfold addin_body, radd, set_num, set_den, isZero, isInteger, isZeroI, isOneI, gcdI, divI.
  cbn [num den fst snd negb] in *.
  destruct (Z.eqb_spec nr 0) as [-> | Hnr]; [reflexivity|].
  destruct (Z.eqb_spec ns 0) as [-> | Hns]; [reflexivity|].
  destruct (Z.eqb_spec ds 1) as [-> | Hds1]; cbn [andb].
  - destruct (Z.eqb_spec dr 1) as [-> | Hdr1].
    + destruct (mk_int_canon (ns + nr)) as (_ & En & Ed).
      destruct (mk_int (ns + nr)) as [a b]; cbn [num den fst snd] in *. congruence.
    + rewrite Z.gcd_1_l. change (1 =? 1) with true. cbv iota.
      assert (C : canon (ns * dr + nr * 1, 1 * dr)).
      { split; cbn [num den fst snd]; [lia|]. apply add_core1; try lia; try assumption. apply Z.gcd_1_l. }
      rewrite (nd0_canon _ _ C). reflexivity.
  - destruct (Z.eqb_spec (Z.gcd ds dr) 1) as [G1 | G1].
    + assert (C : canon (ns * dr + nr * ds, ds * dr)).
      { split; cbn [num den fst snd]; [nia|]. apply add_core1; assumption. }
      rewrite (nd0_canon _ _ C). reflexivity.
    + destruct (add_core ns ds nr dr Hs Hr Gs Gr) as (PD & GD & V & Q2).
      cbv zeta in PD, GD, V, Q2.
      match goal with |- _ = nd0 ?n ?d => assert (C : canon (n, d)) by (split; cbn [num den fst snd]; assumption) end.
      rewrite (nd0_canon _ _ C). rewrite Q2. reflexivity.
Qed.

(* NoReduce mode: operator+= is exact and keeps the denominator positive (a zero sum stays 0/(ds*dr)) *)
Lemma addin_body_nored : forall r s, 0 < den s -> 0 < den r -> add_post false s r (addin_body false r s).
Proof.
  intros [nr dr] [ns ds] Hs Hr. unfold addin_body, add_post, set_num, set_den, isZero, isInteger, isZeroI, isOneI.
  cbn [num den fst snd negb] in *.
  destruct (Z.eqb_spec nr 0) as [-> | Hnr]. { cbn [num den fst snd]. split; [lia|]. split; [discriminate | nia]. }
  destruct (Z.eqb_spec ns 0) as [-> | Hns]. { cbn [num den fst snd]. split; [lia|]. split; [discriminate | nia]. }
  destruct (Z.eqb_spec ds 1) as [-> | Hds1]; cbn [andb]; [destruct (Z.eqb_spec dr 1) as [-> | Hdr1]|];
    cbn [num den fst snd]; (split; [nia|]; split; [discriminate | ring]).
Qed.

Lemma addin_post : forall alias red r s, 0 < den s -> 0 < den r -> (red = true -> canon s /\ canon r) ->
  (alias = true -> r = s) -> add_post red s r (addin alias r red s).
Proof.
  intros alias red r s Hs Hr Hc Ha.
  assert (E : addin alias r red s = addin_body red r s).
  { unfold addin. destruct alias; [rewrite (Ha eq_refl)|]; reflexivity. }
  rewrite E. destruct red.
  - destruct (Hc eq_refl) as [Cs Cr]. rewrite addin_body_radd by assumption. apply radd_post; assumption.
  - apply addin_body_nored; assumption.
Qed.

Lemma subin_body_addin : forall red r s, 0 < den r -> subin_body red r s = addin_body red (- num r, den r) s.
Proof.
  intros red [nr dr] [ns ds] Hr. unfold subin_body, addin_body, set_num, set_den, isZero, isInteger, isZeroI, isOneI, gcdI, divI.
  cbn [num den fst snd] in *.
  replace (- nr =? 0) with (nr =? 0) by (destruct (Z.eqb_spec nr 0), (Z.eqb_spec (- nr) 0); lia).
  replace (ns - nr) with (ns + - nr) by ring.
  replace (ns * dr - nr * ds) with (ns * dr + - nr * ds) by ring.
  replace (ns * Z.quot dr (Z.gcd ds dr) - nr * Z.quot ds (Z.gcd ds dr))
    with (ns * Z.quot dr (Z.gcd ds dr) + - nr * Z.quot ds (Z.gcd ds dr)) by ring.
  reflexivity.
Qed.

Lemma subin_post : forall alias red r s, 0 < den s -> 0 < den r -> (red = true -> canon s /\ canon r) ->
  (alias = true -> r = s) -> sub_post red s r (subin alias r red s).
Proof.
  intros alias red r s Hs Hr Hc Ha.
  assert (E : subin alias r red s = addin false (- num r, den r) red s).
  { unfold subin, addin. destruct alias; [rewrite <- (Ha eq_refl)|]; apply subin_body_addin; assumption. }
  rewrite E.
  destruct (addin_post false red (- num r, den r) s) as (P & C & V); cbn [num den fst snd]; try assumption; try discriminate.
  { intros E1. destruct (Hc E1). split; [assumption | apply canon_neg; assumption]. }
  split; [exact P|]. split; [exact C|]. cbn [num den fst snd] in V. lia.
Qed.

(* ------------------------------------------------------------------ unary minus, abs *)
Lemma rneg_spec : forall t, canon t -> canon (rneg t) /\ num (rneg t) = - num t /\ den (rneg t) = den t.
Proof.
  intros t C. unfold rneg. rewrite nd0_canon by (apply canon_neg; exact C). cbn [num den fst snd]. 
  split; [apply canon_neg; exact C | split; reflexivity].
Qed.

Lemma canon_abs : forall r, canon r -> canon (absI (num r), den r).
Proof.
  intros [n d] [H G]; unfold absI, signI; cbn [num den fst snd] in *.
  destruct (Z.geb_spec (Z.sgn n) 0); split; cbn [num den fst snd]; try assumption. apply cop_opp_l; assumption.
Qed.


Lemma rabs_spec : forall t, canon t -> canon (rabs t) /\ num (rabs t) = Z.abs (num t) /\ den (rabs t) = den t.
Proof.
  intros t C. unfold rabs. rewrite nd0_canon by (apply canon_abs; exact C). cbn [num den fst snd].
  split; [apply canon_abs; exact C | split; [apply absI_abs | reflexivity]].
Qed.
