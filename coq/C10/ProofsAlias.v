(* C10 — the QField<Rational> wrappers under EVERY aliasing pattern of their arguments, statement by statement.
   Model.exec_* run the bodies of qfield.h (and of the in-place operators they call) as sequences of member reads and
   writes on a store of objects; every read goes to the store as it is at that point.  Proved here: for ALL indices
   r, a, b, c (equal or not) the final store is the initial one with object r replaced by the value-level function of the
   values held AT THE CALL - for all 17 wrappers (+ negin, invin).  This is a theorem about the statement sequences: it
   fails for inv without its alias guard
   (exec_inv_unguarded, the body before 4bcc635) and for the two-step axpy (seeded change C10-m6), both refuted below. *)
From Coq Require Import ZArith QArith Lia Bool.
From C10 Require Import Model ProofsBase ProofsProps.
Local Open Scope Z_scope.

Definition steq (s1 s2 : store) : Prop := forall j, s1 j = s2 j.
Definition osteq (o1 o2 : option store) : Prop :=
  match o1, o2 with Some x, Some y => steq x y | None, None => True | _, _ => False end.
Definition omap (s : store) (r : Z) (o : option rat) : option store :=
  match o with Some v => Some (upd s r v) | None => None end.

Lemma upd_same : forall s i v, upd s i v i = v.
Proof. intros. unfold upd. rewrite Z.eqb_refl. reflexivity. Qed.
Lemma upd_other : forall s i v j, j <> i -> upd s i v j = s j.
Proof. intros s i v j H. unfold upd. destruct (Z.eqb_spec j i); [contradiction | reflexivity]. Qed.
Lemma upd_upd : forall s i v w, steq (upd (upd s i v) i w) (upd s i w).
Proof. intros s i v w j. unfold upd. destruct (j =? i); reflexivity. Qed.

Lemma setd_setn : forall s r n d, steq (setd (setn s r n) r d) (upd s r (n, d)).
Proof.
  intros s r n d j. unfold setd, setn, getn, getd, upd. rewrite Z.eqb_refl. cbn [num den fst snd].
  destruct (j =? r); reflexivity.
Qed.
Lemma assign_tmp_eq : forall s r t, steq (assign_tmp s r t) (upd s r t).
Proof. intros s r [n d]. unfold assign_tmp. cbn [num den fst snd]. apply setd_setn. Qed.

Lemma negboth_eq : forall s1 x n d, s1 x = (n, d) ->
  steq (setd (setn s1 x (- getn s1 x)) x (- getd (setn s1 x (- getn s1 x)) x)) (upd s1 x (- n, - d)).
Proof.
  intros s1 x n d E j. rewrite (setd_setn s1 x _ _ j). unfold getd at 1, setn. rewrite upd_same. cbn [den snd].
  unfold getn, getd. rewrite E. reflexivity.
Qed.
Lemma upd_steq : forall s1 s2 x v, (forall j, j <> x -> s1 j = s2 j) -> steq (upd s1 x v) (upd s2 x v).
Proof. intros s1 s2 x v H j. unfold upd. destruct (Z.eqb_spec j x); [reflexivity | apply H; assumption]. Qed.
(* the two writes r.num := n; r.den := d followed by the optional negation of both members *)
Lemma write_then_neg : forall s x n d (neg : bool),
  steq (let s1 := setd (setn s x n) x d in
        if neg then (let s2 := setn s1 x (- getn s1 x) in setd s2 x (- getd s2 x)) else s1)
       (upd s x (if neg then (- n, - d) else (n, d))).
Proof.
  intros s x n d neg. cbv zeta. assert (S1 := setd_setn s x n d). destruct neg; [|exact S1].
  intros j. rewrite (negboth_eq _ x n d); [|rewrite (S1 x); apply upd_same].
  apply upd_steq. intros k Hk. rewrite (S1 k). apply upd_other; exact Hk.
Qed.

(* ------------------------------------------------------------------ the in-place bodies only look at rn / rd pointwise *)
Ltac ext_tac Hn Hd := cbv zeta; repeat rewrite Hn; repeat rewrite Hd; reflexivity.
Lemma addin_body_g_ext : forall rn rd rn' rd', (forall x, rn x = rn' x) -> (forall x, rd x = rd' x) ->
  forall red x, addin_body_g rn rd red x = addin_body_g rn' rd' red x.
Proof. intros rn rd rn' rd' Hn Hd red x. unfold addin_body_g. ext_tac Hn Hd. Qed.
Lemma subin_body_g_ext : forall rn rd rn' rd', (forall x, rn x = rn' x) -> (forall x, rd x = rd' x) ->
  forall red x, subin_body_g rn rd red x = subin_body_g rn' rd' red x.
Proof. intros rn rd rn' rd' Hn Hd red x. unfold subin_body_g. ext_tac Hn Hd. Qed.
Lemma mulin_g_ext : forall rn rd rn' rd', (forall x, rn x = rn' x) -> (forall x, rd x = rd' x) ->
  forall red x, mulin_g rn rd red x = mulin_g rn' rd' red x.
Proof. intros rn rd rn' rd' Hn Hd red x. unfold mulin_g, rarg_g. ext_tac Hn Hd. Qed.
Lemma divin_g_ext : forall rn rd rn' rd', (forall x, rn x = rn' x) -> (forall x, rd x = rd' x) ->
  forall red x, divin_g rn rd red x = divin_g rn' rd' red x.
Proof. intros rn rd rn' rd' Hn Hd red x. unfold divin_g, rarg_g. ext_tac Hn Hd. Qed.

(* the bodies the phase 1-3 theorems are about are instances *)
Lemma addin_body_is_g : forall red t x, addin_body red t x = addin_body_g (fun _ => num t) (fun _ => den t) red x.
Proof. reflexivity. Qed.
Lemma subin_body_is_g : forall red t x, subin_body red t x = subin_body_g (fun _ => num t) (fun _ => den t) red x.
Proof. reflexivity. Qed.
Lemma mulin_is_g : forall alias t red x, mulin alias t red x = mulin_g (rn alias t) (rd alias t) red x.
Proof. reflexivity. Qed.
Lemma divin_is_g : forall alias t red x, divin alias t red x = divin_g (rn alias t) (rd alias t) red x.
Proof. reflexivity. Qed.

(* reading member of object a from the store in which r currently holds `cur` *)
Lemma live_num : forall s r a cur, getn (upd s r cur) a = rn (a =? r) (s a) cur.
Proof. intros. unfold getn, upd, rn. destruct (a =? r); reflexivity. Qed.
Lemma live_den : forall s r a cur, getd (upd s r cur) a = rd (a =? r) (s a) cur.
Proof. intros. unfold getd, upd, rd. destruct (a =? r); reflexivity. Qed.

(* ------------------------------------------------------------------ statement level = call-time values, all patterns *)
Definition Wrappers_statement_level_stmt := forall (red : bool) (s : store) (r a b c : Z),
  steq (exec_add red s r a b) (upd s r (radd red (s a) (s b))) /\
  steq (exec_sub red s r a b) (upd s r (rsub red (s a) (s b))) /\
  steq (exec_mul red s r a b) (upd s r (rmul red (s a) (s b))) /\
  osteq (exec_div red s r a b) (omap s r (rdiv red (s a) (s b))) /\
  steq (exec_axpy red s r a b c) (upd s r (q_axpy red (s a) (s b) (s c))) /\
  steq (exec_maxpy red s r a b c) (upd s r (q_maxpy red (s a) (s b) (s c))) /\
  steq (exec_axmy red s r a b c) (upd s r (q_axmy red (s a) (s b) (s c))) /\
  steq (exec_axpyin red s r a b) (upd s r (q_axpyin red (s r) (s a) (s b))) /\
  steq (exec_maxpyin red s r a b) (upd s r (q_maxpyin red (s r) (s a) (s b))) /\
  steq (exec_axmyin red s r a b) (upd s r (q_axmyin red (s r) (s a) (s b))) /\
  (* r op= a: the value-level in-place model with "the argument is *this" exactly when the two indices coincide *)
  steq (exec_addin red s r a) (upd s r (addin (a =? r) (s a) red (s r))) /\
  steq (exec_subin red s r a) (upd s r (subin (a =? r) (s a) red (s r))) /\
  steq (exec_mulin red s r a) (upd s r (mulin (a =? r) (s a) red (s r))) /\
  osteq (exec_divin red s r a) (omap s r (divin (a =? r) (s a) red (s r))) /\
  steq (exec_neg s r a) (upd s r (q_neg (s a))) /\
  steq (exec_negin s r) (upd s r (q_negin (s r))) /\
  osteq (exec_inv s r a) (omap s r (q_inv_g (r =? a) (s a))) /\
  osteq (exec_invin s r) (omap s r (q_invin_g (s r))) /\
  steq (exec_assign s r a) (upd s r (s a)).
Lemma wrappers_statement_level_thm : Wrappers_statement_level_stmt.
Proof.
  intros red s r a b c.
  split; [apply assign_tmp_eq|]. split; [apply assign_tmp_eq|]. split; [apply assign_tmp_eq|].
  split. { unfold exec_div, omap, osteq. destruct (rdiv red (s a) (s b)); [apply assign_tmp_eq | exact I]. }
  split; [apply assign_tmp_eq|]. split; [apply assign_tmp_eq|]. split; [apply assign_tmp_eq|].
  split. { intros j. unfold exec_axpyin, inplace, q_axpyin, addin. cbv zeta. rewrite addin_body_is_g. reflexivity. }
  split. { intros j. unfold exec_maxpyin, inplace, q_maxpyin, subin. cbv zeta. rewrite subin_body_is_g. reflexivity. }
  split; [apply assign_tmp_eq|].
  split.
  { intros j. unfold exec_addin, addin. destruct (Z.eqb_spec a r) as [-> | N].
    - unfold inplace. cbv zeta. rewrite addin_body_is_g. reflexivity.
    - unfold inplace. rewrite addin_body_is_g. f_equal.
      apply addin_body_g_ext; intros x; [rewrite live_num | rewrite live_den]; unfold rn, rd;
        destruct (Z.eqb_spec a r); try contradiction; reflexivity. }
  split.
  { intros j. unfold exec_subin, subin. destruct (Z.eqb_spec a r) as [-> | N].
    - unfold inplace. cbv zeta. rewrite subin_body_is_g. reflexivity.
    - unfold inplace. rewrite subin_body_is_g. f_equal.
      apply subin_body_g_ext; intros x; [rewrite live_num | rewrite live_den]; unfold rn, rd;
        destruct (Z.eqb_spec a r); try contradiction; reflexivity. }
  split.
  { intros j. unfold exec_mulin, inplace. rewrite mulin_is_g. f_equal.
    apply mulin_g_ext; intros x; [apply live_num | apply live_den]. }
  split.
  { unfold exec_divin, inplace_opt, omap, osteq. rewrite divin_is_g.
    rewrite (divin_g_ext _ _ (rn (a =? r) (s a)) (rd (a =? r) (s a)) (fun x => live_num s r a x) (fun x => live_den s r a x)).
    destruct (divin_g (rn (a =? r) (s a)) (rd (a =? r) (s a)) red (s r)); [intros j; reflexivity | exact I]. }
  split.
  { (* neg: r.den = a.den is read after r.num has been written; harmless because only num has changed *)
    intros j. unfold exec_neg. cbv zeta.
    assert (E : getd (setn s r (- getn s a)) a = getd s a).
    { unfold getd, setn, upd, getn, getd. destruct (Z.eqb_spec a r) as [-> | N]; reflexivity. }
    rewrite E. rewrite (setd_setn s r (- getn s a) (getd s a) j). reflexivity. }
  split.
  { intros j. unfold exec_negin, setn, q_negin, getn, getd. reflexivity. }
  assert (INVIN : forall x, osteq (exec_invin s x) (omap s x (q_invin_g (s x)))).
  { intros x. unfold exec_invin, q_invin_g, omap, osteq. cbv zeta.
    change (getn s x) with (num (s x)). change (getd s x) with (den (s x)).
    destruct (signI (num (s x)) =? 0); [exact I|].
    intros j. assert (W := write_then_neg s x (den (s x)) (num (s x)) (signI (num (s x)) <? 0)). cbv zeta in W. rewrite (W j).
    unfold q_invin. cbv zeta. cbn [num den fst snd]. destruct (signI (num (s x)) <? 0); reflexivity. }
  split.
  { unfold exec_inv, q_inv_g. destruct (Z.eqb_spec r a) as [<- | N]; [apply INVIN|].
    cbv zeta. unfold omap, osteq.
    (* r.den = a.num is read after r.num has been written: a is another object here (the guard) *)
    assert (E : getn (setn s r (getd s a)) a = getn s a).
    { unfold getn, setn, upd. destruct (Z.eqb_spec a r) as [-> | _]; [contradiction N; reflexivity | reflexivity]. }
    rewrite E. change (getn s a) with (num (s a)). change (getd s a) with (den (s a)).
    destruct (signI (num (s a)) =? 0); [exact I|].
    intros j. assert (W := write_then_neg s r (den (s a)) (num (s a)) (signI (num (s a)) <? 0)). cbv zeta in W. rewrite (W j).
    unfold q_inv. cbv zeta. cbn [num den fst snd]. destruct (signI (num (s a)) <? 0); reflexivity. }
  split; [apply INVIN|].
  intros j. unfold exec_assign, assign_obj. destruct (Z.eqb_spec r a) as [-> | N].
  - unfold upd. destruct (Z.eqb_spec j a) as [-> | _]; reflexivity.
  - cbv zeta.
    assert (E : getd (setn s r (getn s a)) a = getd s a).
    { unfold getd, setn, upd, getn. destruct (Z.eqb_spec a r) as [-> | _]; [contradiction N; reflexivity | reflexivity]. }
    rewrite E. rewrite (setd_setn s r (getn s a) (getd s a) j). unfold getn, getd. destruct (s a); reflexivity.
Qed.

(* ------------------------------------------------------------------ corollary: canonical and exact, every pattern, every wrapper *)
Definition good (s s' : store) (r : Z) (v : Q) : Prop :=
  canon (s' r) /\ (toQ (s' r) == v)%Q /\ (forall j, j <> r -> s' j = s j).
Definition ogood (s : store) (o : option store) (r : Z) (v : Q) : Prop :=
  exists s', o = Some s' /\ good s s' r v.

Lemma good_of_steq : forall s s' r x v, steq s' (upd s r x) -> canon x -> (toQ x == v)%Q -> good s s' r v.
Proof.
  intros s s' r x v E C V. unfold good. rewrite (E r), upd_same. split; [exact C|]. split; [exact V|].
  intros j Hj. rewrite (E j). apply upd_other; exact Hj.
Qed.
Lemma ogood_of_osteq : forall s o r x v, osteq o (omap s r (Some x)) -> canon x -> (toQ x == v)%Q -> ogood s o r v.
Proof.
  intros s o r x v E C V. unfold osteq, omap in E. destruct o as [s'|]; [|contradiction]. exists s'. split; [reflexivity|].
  eapply good_of_steq; eassumption.
Qed.

Definition Wrappers_any_alias_stmt := forall (s : store) (r a b c : Z), (forall i, canon (s i)) ->
  let va := toQ (s a) in let vb := toQ (s b) in let vc := toQ (s c) in let vr := toQ (s r) in
  good s (exec_add true s r a b) r (va + vb)%Q /\ good s (exec_sub true s r a b) r (va - vb)%Q /\
  good s (exec_mul true s r a b) r (va * vb)%Q /\
  (num (s b) = 0 -> exec_div true s r a b = None) /\ (num (s b) <> 0 -> ogood s (exec_div true s r a b) r (va / vb)%Q) /\
  good s (exec_axpy true s r a b c) r (va * vb + vc)%Q /\ good s (exec_maxpy true s r a b c) r (vc - va * vb)%Q /\
  good s (exec_axmy true s r a b c) r (va * vb - vc)%Q /\
  good s (exec_axpyin true s r a b) r (vr + va * vb)%Q /\ good s (exec_maxpyin true s r a b) r (vr - va * vb)%Q /\
  good s (exec_axmyin true s r a b) r (va * vb - vr)%Q /\
  good s (exec_addin true s r a) r (vr + va)%Q /\ good s (exec_subin true s r a) r (vr - va)%Q /\
  good s (exec_mulin true s r a) r (vr * va)%Q /\
  (num (s a) = 0 -> exec_divin true s r a = None) /\ (num (s a) <> 0 -> ogood s (exec_divin true s r a) r (vr / va)%Q) /\
  good s (exec_neg s r a) r (- va)%Q /\ good s (exec_negin s r) r (- vr)%Q /\
  (num (s a) = 0 -> exec_inv s r a = None) /\ (num (s a) <> 0 -> ogood s (exec_inv s r a) r (/ va)%Q) /\
  (num (s r) = 0 -> exec_invin s r = None) /\ (num (s r) <> 0 -> ogood s (exec_invin s r) r (/ vr)%Q) /\
  good s (exec_assign s r a) r va.
Lemma sgn_eqb0 : forall n, (signI n =? 0) = (n =? 0).
Proof. intros n. unfold signI. destruct n; reflexivity. Qed.
Lemma wrappers_any_alias_thm : Wrappers_any_alias_stmt.
Proof.
  intros s r a b c Cs. cbv zeta.
  destruct (wrappers_statement_level_thm true s r a b c)
    as (E1 & E2 & E3 & E4 & E5 & E6 & E7 & E8 & E9 & E10 & E11 & E12 & E13 & E14 & E15 & E16 & E17 & E18 & E19).
  destruct (qfield_axpy_thm (s a) (s b) (s c) (Cs a) (Cs b) (Cs c)) as ((C1 & V1) & _ & (C3 & V3) & (C4 & V4) & _).
  destruct (qfield_axpy_thm (s a) (s b) (s r) (Cs a) (Cs b) (Cs r)) as (_ & (C2 & V2) & _ & _ & (C5 & V5) & (C6 & V6)).
  destruct (add_thm (s a) (s b) (Cs a) (Cs b)) as [C7 V7]. destruct (sub_thm (s a) (s b) (Cs a) (Cs b)) as [C8 V8].
  destruct (mul_thm (s a) (s b) (Cs a) (Cs b)) as [C9 V9].
  destruct (div_thm (s a) (s b) (Cs a) (Cs b)) as [DZ DN].
  assert (AL : (a =? r) = true -> s a = s r) by (intros H; apply Z.eqb_eq in H; subst; reflexivity).
  destruct (addin_subin_thm (a =? r) (s a) (s r) (Cs r) (Cs a) AL) as (CA & VA & CS & VS).
  destruct (mulin_thm (a =? r) (s a) (s r) (Cs r) (Cs a) AL) as (CM & VM).
  destruct (divin_thm (a =? r) (s a) (s r) (Cs r) (Cs a) AL) as [IZ IN].
  destruct (neg_abs_thm (s a) (Cs a)) as (CN & VN & _). destruct (neg_abs_thm (s r) (Cs r)) as (CNr & VNr & _).
  split; [eapply good_of_steq; eassumption|]. split; [eapply good_of_steq; eassumption|].
  split; [eapply good_of_steq; eassumption|].
  split. { intros Z. unfold exec_div. rewrite (DZ Z). reflexivity. }
  split. { intros NZ. destruct (DN NZ) as (x & Ex & Cx & Vx). rewrite Ex in E4. eapply ogood_of_osteq; eassumption. }
  split; [eapply good_of_steq; eassumption|]. split; [eapply good_of_steq; eassumption|].
  split; [eapply good_of_steq; eassumption|]. split; [eapply good_of_steq; eassumption|].
  split; [eapply good_of_steq; eassumption|]. split; [eapply good_of_steq; eassumption|].
  split; [eapply good_of_steq; eassumption|]. split; [eapply good_of_steq; eassumption|].
  split; [eapply good_of_steq; eassumption|].
  split. { intros Z. rewrite (IZ Z) in E14. unfold omap, osteq in E14. destruct (exec_divin true s r a); [contradiction | reflexivity]. }
  split. { intros NZ. destruct (IN NZ) as (x & Ex & Cx & Vx). rewrite Ex in E14. eapply ogood_of_osteq; eassumption. }
  assert (QN : q_neg (s a) = rneg (s a) \/ True) by (right; exact I). clear QN.
  assert (NEG : forall x, canon x -> canon (q_neg x) /\ (toQ (q_neg x) == - toQ x)%Q).
  { intros [n d] [H G]. cbn [num den fst snd] in *. unfold q_neg. cbn [num den fst snd]. split.
    - split; cbn [num den fst snd]; [exact H | rewrite Z.gcd_opp_l; exact G].
    - unfold toQ, Qeq, Qopp. cbn [num den fst snd Qnum Qden]. reflexivity. }
  split. { destruct (NEG (s a) (Cs a)). eapply good_of_steq; eassumption. }
  split. { destruct (NEG (s r) (Cs r)). eapply good_of_steq; [exact E16 | assumption | assumption]. }
  assert (INV : forall al x, canon x ->
            (num x = 0 -> q_inv_g al x = None) /\
            (num x <> 0 -> exists y, q_inv_g al x = Some y /\ canon y /\ (toQ y == / toQ x)%Q)).
  { intros al x Cx. split.
    - intros Z. unfold q_inv_g, q_invin_g. rewrite !sgn_eqb0, Z. destruct al; reflexivity.
    - intros NZ. destruct (qfield_unary_thm al x Cx) as (_ & _ & _ & U). destruct (U NZ) as (Ci & Vi & Ei).
      exists (q_inv al x). split; [|split; assumption].
      unfold q_inv_g, q_invin_g. rewrite !sgn_eqb0. destruct (Z.eqb_spec (num x) 0); [contradiction|].
      destruct al; [rewrite Ei|]; reflexivity. }
  split. { intros Z. rewrite (proj1 (INV (r =? a) (s a) (Cs a)) Z) in E17. unfold omap, osteq in E17. destruct (exec_inv s r a); [contradiction | reflexivity]. }
  split. { intros NZ. destruct (proj2 (INV (r =? a) (s a) (Cs a)) NZ) as (y & Ey & Cy & Vy). rewrite Ey in E17. eapply ogood_of_osteq; eassumption. }
  assert (INVIN : q_invin_g (s r) = q_inv_g true (s r)) by reflexivity.
  split. { intros Z. rewrite INVIN, (proj1 (INV true (s r) (Cs r)) Z) in E18. unfold omap, osteq in E18. destruct (exec_invin s r); [contradiction | reflexivity]. }
  split. { intros NZ. destruct (proj2 (INV true (s r) (Cs r)) NZ) as (y & Ey & Cy & Vy). rewrite INVIN, Ey in E18. eapply ogood_of_osteq; eassumption. }
  eapply good_of_steq; [exact E19 | apply Cs | reflexivity].
Qed.

(* ------------------------------------------------------------------ statement sequences for which it FAILS *)
(* the two-step rewriting of axpy (seeded change C10-m6) is wrong exactly in the accumulation pattern r = c *)
Definition Two_step_axpy_refuted_stmt :=
  exists (s : store) (r a b c : Z), (forall i, canon (s i)) /\ r = c /\
    ~ (toQ (exec_axpy_two_step true s r a b c r) == toQ (s a) * toQ (s b) + toQ (s c))%Q /\
    (toQ (exec_axpy true s r a b c r) == toQ (s a) * toQ (s b) + toQ (s c))%Q.
Lemma two_step_axpy_refuted_thm : Two_step_axpy_refuted_stmt.
Proof.
  exists (fun i => if i =? 0 then (1, 5) else if i =? 1 then (2, 3) else (3, 4)), 0, 1, 2, 0.
  split.
  { intros i. destruct (i =? 0); [split; [cbn; lia | reflexivity]|]. destruct (i =? 1); split; cbn; try lia; reflexivity. }
  split; [reflexivity|]. split; [vm_compute; discriminate | vm_compute; reflexivity].
Qed.
(* history: inv without `if (&r == &a) return invin(r)` (the body before 4bcc635) reads a.num after r.num was written *)
Definition Inv_unguarded_refuted_stmt :=
  exists (s : store) (r : Z), (forall i, canon (s i)) /\ num (s r) <> 0 /\
    ~ (toQ (exec_inv_unguarded s r r r) == / toQ (s r))%Q /\
    (exists s', exec_inv s r r = Some s' /\ (toQ (s' r) == / toQ (s r))%Q).
Lemma inv_unguarded_refuted_thm : Inv_unguarded_refuted_stmt.
Proof.
  exists (fun _ => (2, 3)), 0. split; [intros; split; [cbn; lia | reflexivity]|]. split; [cbn; lia|].
  split; [vm_compute; discriminate|]. eexists. split; [reflexivity | vm_compute; reflexivity].
Qed.
