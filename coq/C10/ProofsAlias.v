(* C10 — the QField<Rational> wrappers under EVERY aliasing pattern of their arguments.
   Objects live in a store (index -> pair); a call names the objects passed for r, a, b, c (any of them may coincide).
   The wrappers of qfield.h evaluate `a * b + c` etc. into temporaries and only then assign / accumulate into r, so
   the result depends on the VALUES the arguments had at the call, whatever the pattern; the in-place operators are
   handed a temporary, which is never *this.  The two-step rewriting `r = a*b; r += c` (seeded change C10-m6) is the
   counter-example: it reads c after r has been written. *)
From Coq Require Import ZArith QArith Lia Bool.
From C10 Require Import Model ProofsBase ProofsProps.
Local Open Scope Z_scope.

Lemma upd_same : forall s i v, upd s i v i = v.
Proof. intros. unfold upd. rewrite Z.eqb_refl. reflexivity. Qed.
Lemma upd_other : forall s i v j, j <> i -> upd s i v j = s j.
Proof. intros s i v j H. unfold upd. destruct (Z.eqb_spec j i); [contradiction | reflexivity]. Qed.

Definition Wrappers_any_alias_stmt := forall (s : store) (r a b c : Z), (forall i, canon (s i)) ->
  let va := toQ (s a) in let vb := toQ (s b) in let vc := toQ (s c) in let vr := toQ (s r) in
  (* the object passed as r: canonical, exact in the values held at the call; every other object untouched *)
  let good (s' : store) (v : Q) := canon (s' r) /\ (toQ (s' r) == v)%Q /\ (forall j, j <> r -> s' j = s j) in
  good (exec_add true s r a b) (va + vb)%Q /\ good (exec_sub true s r a b) (va - vb)%Q /\
  good (exec_mul true s r a b) (va * vb)%Q /\
  good (exec_axpy true s r a b c) (va * vb + vc)%Q /\ good (exec_maxpy true s r a b c) (vc - va * vb)%Q /\
  good (exec_axmy true s r a b c) (va * vb - vc)%Q /\
  good (exec_axpyin true s r a b) (vr + va * vb)%Q /\ good (exec_maxpyin true s r a b) (vr - va * vb)%Q /\
  good (exec_axmyin true s r a b) (va * vb - vr)%Q.
Lemma wrappers_any_alias_thm : Wrappers_any_alias_stmt.
Proof.
  intros s r a b c Cs. cbv zeta.
  destruct (qfield_axpy_thm (s a) (s b) (s c) (Cs a) (Cs b) (Cs c)) as ((C1 & V1) & _ & (C3 & V3) & (C4 & V4) & _).
  destruct (qfield_axpy_thm (s a) (s b) (s r) (Cs a) (Cs b) (Cs r)) as (_ & (C2 & V2) & _ & _ & (C5 & V5) & (C6 & V6)).
  destruct (add_thm (s a) (s b) (Cs a) (Cs b)) as [C7 V7]. destruct (sub_thm (s a) (s b) (Cs a) (Cs b)) as [C8 V8].
  destruct (mul_thm (s a) (s b) (Cs a) (Cs b)) as [C9 V9].
  unfold exec_add, exec_sub, exec_mul, exec_axpy, exec_maxpy, exec_axmy, exec_axpyin, exec_maxpyin, exec_axmyin.
  rewrite !upd_same.
  repeat match goal with |- _ /\ _ => split end; try assumption; intros j Hj; apply upd_other; exact Hj.
Qed.

(* the two-step rewriting is wrong exactly in the accumulation pattern r = c: it yields 2*a*b *)
Definition Two_step_axpy_refuted_stmt :=
  exists (s : store) (r a b c : Z), (forall i, canon (s i)) /\ r = c /\
    ~ (toQ (exec_axpy_two_step true s r a b c r) == toQ (s a) * toQ (s b) + toQ (s c))%Q /\
    (toQ (exec_axpy true s r a b c r) == toQ (s a) * toQ (s b) + toQ (s c))%Q.
Lemma two_step_axpy_refuted_thm : Two_step_axpy_refuted_stmt.
Proof.
  exists (fun i => if i =? 0 then (1, 5) else if i =? 1 then (2, 3) else (3, 4)), 0, 1, 2, 0.
  split.
  { intros i. destruct (i =? 0); [split; [cbn; lia | reflexivity]|]. destruct (i =? 1); split; cbn; try lia; reflexivity. }
  split; [reflexivity|]. split; [vm_compute; discriminate | vm_compute; reflexivity].
Qed.
