(* C10 — phase 4 (audit response): zero divisors, honest names for the sign-test facts, the cast of the integer
   conversions, the IEEE field packing `encode`, operator float beyond 24-bit members. *)
From Coq Require Import ZArith QArith Lia Bool.
From C10 Require Import Model ProofsBase ProofsCmp ProofsProps ProofsMisc ProofsOrder ProofsDouble.
Local Open Scope Z_scope.

(* ------------------------------------------------------------------ zero divisors *)
(* pow with a negative exponent is total once guarded (frag/C10.fix-9): GivMathDivZero exactly for a zero base *)
Definition Pow_total_stmt := forall x y, canon x ->
  (y < 0 -> num x = 0 -> pow_i64_g x y = None) /\
  ((y < 0 -> num x <> 0) -> exists v, pow_i64_g x y = Some v /\ canon v /\ (toQ v == Qpower (toQ x) y)%Q).
Lemma pow_total_thm : Pow_total_stmt.
Proof.
  intros x y C. unfold pow_i64_g, isZeroI. split.
  - intros Hy Z. destruct (Z.ltb_spec y 0); [|lia]. rewrite Z. reflexivity.
  - intros H. destruct (proj2 (pow_thm x y C) H) as [Cv Vv]. exists (pow_i64 x y). split; [|split; assumption].
    destruct (Z.ltb_spec y 0) as [L | L]; [|reflexivity]. destruct (Z.eqb_spec (num x) 0) as [E | E]; [|reflexivity].
    exfalso. exact (H L E).
Qed.
(* history (the bodies up to fix-9, = pow_i64 / q_inv / q_invin without the guard): a zero operand gives the pair 1/0,
   which has no positive denominator, while operator/ refuses the same division *)
Definition Zero_divisor_history_stmt :=
  pow_i64 (0, 1) (-1) = (1, 0) /\ q_inv false (0, 1) = (1, 0) /\ q_invin (0, 1) = (1, 0) /\ ~ 0 < den (1, 0) /\
  rdiv true (1, 1) (0, 1) = None /\ pow_i64_g (0, 1) (-1) = None /\ q_inv_g false (0, 1) = None /\ q_invin_g (0, 1) = None.
Lemma zero_divisor_history_thm : Zero_divisor_history_stmt.
Proof. repeat split; try (vm_compute; reflexivity). cbn. lia. Qed.

(* ------------------------------------------------------------------ the sign tests, named for what they are *)
(* For ANY integer c in place of compare(a,b): exactly one of c<0, c==0, c>0 holds and != <= >= are the complements.
   These are facts about the six inline operators' tests, not about compare; the content about compare is
   Operators_any_form_stmt.  (Formerly C10_trichotomy / C10_operator_complements.) *)
Definition Sign_tests_any_compare_stmt := forall c : Z,
  ((c <? 0) = true /\ (c =? 0) = false /\ (c >? 0) = false \/
   (c <? 0) = false /\ (c =? 0) = true /\ (c >? 0) = false \/
   (c <? 0) = false /\ (c =? 0) = false /\ (c >? 0) = true) /\
  negb (c =? 0) = negb (c =? 0) /\ (c <=? 0) = negb (c >? 0) /\ (c >=? 0) = negb (c <? 0).
Lemma sign_tests_any_compare_thm : Sign_tests_any_compare_stmt.
Proof.
  intros c. destruct (Z.ltb_spec c 0), (Z.gtb_spec c 0), (Z.eqb_spec c 0), (Z.leb_spec c 0), (Z.geb_spec c 0);
    repeat split; try reflexivity; try lia; tauto.
Qed.
(* the trichotomy of the property sentence: exactly one operator answers, and it is the one Q dictates *)
Definition Trichotomy_Q_stmt := forall a b, 0 < den a -> 0 < den b ->
  (op_lt a b = true /\ op_eq a b = false /\ op_gt a b = false /\ (toQ a < toQ b)%Q) \/
  (op_lt a b = false /\ op_eq a b = true /\ op_gt a b = false /\ (toQ a == toQ b)%Q) \/
  (op_lt a b = false /\ op_eq a b = false /\ op_gt a b = true /\ (toQ b < toQ a)%Q).
Lemma trichotomy_Q_thm : Trichotomy_Q_stmt.
Proof.
  intros a b Ha Hb. destruct (operators_any_form_thm a b Ha Hb) as (_ & L & G & E & _).
  assert (Wa : wf a \/ True) by (right; exact I). clear Wa.
  unfold op_lt, op_eq, op_gt in *. set (c := rcompare a b) in *. clearbody c.
  destruct (Z.ltb_spec c 0) as [C1 | C1].
  - left. destruct (Z.eqb_spec c 0); [lia|]. destruct (Z.gtb_spec c 0); [lia|]. repeat split; try reflexivity. apply L. reflexivity.
  - destruct (Z.eqb_spec c 0) as [C2 | C2].
    + right; left. destruct (Z.gtb_spec c 0); [lia|]. repeat split; try reflexivity. apply E. reflexivity.
    + right; right. destruct (Z.gtb_spec c 0); [|lia]. repeat split; try reflexivity. apply G. reflexivity.
Qed.

(* ------------------------------------------------------------------ operator int / int64_t / uint64_t / ... with the cast *)
(* (T)(num/den): Integer quotient toward zero, then the cast to T = [lo, hi].  Inside the range the result v is the
   truncation of the value: |v| <= |x| < |v| + 1 with the sign of x; outside the range the cast is C01's subject (None). *)
Definition Conv_int_T_stmt := forall lo hi x, 0 < den x ->
  (forall v, conv_int_T lo hi x = Some v ->
     lo <= v <= hi /\ Z.abs v * den x <= Z.abs (num x) < (Z.abs v + 1) * den x /\ 0 <= v * num x /\ v = trunc x) /\
  (lo <= trunc x <= hi -> conv_int_T lo hi x = Some (trunc x)) /\
  (~ lo <= trunc x <= hi -> conv_int_T lo hi x = None).
Lemma conv_int_T_thm : Conv_int_T_stmt.
Proof.
  intros lo hi [n d] H. cbn [num den fst snd] in *. unfold conv_int_T, cast_T, trunc, divI. cbn [num den fst snd].
  assert (QR := Z.quot_rem' n d). assert (RB := Z.rem_bound_abs n d ltac:(lia)). assert (RS := Z.rem_sign_mul n d ltac:(lia)).
  set (q := Z.quot n d) in *. set (r := Z.rem n d) in *. clearbody q r.
  split; [|split].
  - intros v E. destruct (Z.leb_spec lo q), (Z.leb_spec q hi); cbn [andb] in E; try discriminate. inversion E; subst v.
    split; [lia|].
    assert (RB' : - d < r < d) by lia.
    assert (SG : (0 <= n /\ 0 <= r /\ 0 <= q) \/ (n <= 0 /\ r <= 0 /\ q <= 0)).
    { destruct (Z.lt_trichotomy n 0) as [N | [N | N]].
      - right. assert (R0 : r <= 0).
        { destruct (Z.lt_ge_cases 0 r) as [C | C]; [|lia]. assert (r * n < 0) by (apply Z.mul_pos_neg; lia). lia. }
        split; [lia|]. split; [assumption|]. destruct (Z.lt_ge_cases 0 q) as [C | C]; [|lia]. exfalso. assert (d <= d * q) by nia. lia.
      - left. subst n. split; [lia|].
        destruct (Z.lt_trichotomy q 0) as [C | [C | C]].
        + exfalso. assert (d * q <= - d) by nia. lia.
        + subst q. lia.
        + exfalso. assert (d <= d * q) by nia. lia.
      - left. assert (R0 : 0 <= r).
        { destruct (Z.lt_ge_cases r 0) as [C | C]; [|lia]. assert (r * n < 0) by (apply Z.mul_neg_pos; lia). lia. }
        split; [lia|]. split; [assumption|]. destruct (Z.lt_ge_cases q 0) as [C | C]; [|lia]. exfalso. assert (d * q <= - d) by nia. lia. }
    destruct SG as [(S1 & S2 & S3) | (S1 & S2 & S3)].
    + rewrite (Z.abs_eq q), (Z.abs_eq n) by lia. rewrite (Z.abs_eq r) in RB by lia. rewrite (Z.abs_eq d) in RB by lia.
      split; [|split; [|reflexivity]]; nia.
    + rewrite (Z.abs_neq q), (Z.abs_neq n) by lia. rewrite (Z.abs_neq r) in RB by lia. rewrite (Z.abs_eq d) in RB by lia.
      split; [|split; [|reflexivity]]; nia.
  - intros [A B]. destruct (Z.leb_spec lo q), (Z.leb_spec q hi); cbn [andb]; try lia. reflexivity.
  - intros N. destruct (Z.leb_spec lo q), (Z.leb_spec q hi); cbn [andb]; try reflexivity. exfalso. apply N. lia.
Qed.
Example conv_int_T_example :
  conv_int_T (-2 ^ 31) (2 ^ 31 - 1) (-7, 2) = Some (-3) /\ conv_int_T (-2 ^ 31) (2 ^ 31 - 1) (2 ^ 40, 1) = None /\
  conv_int_T 0 (2 ^ 64 - 1) (2 ^ 64 - 1, 1) = Some (2 ^ 64 - 1).
Proof. repeat split; vm_compute; reflexivity. Qed.

(* ------------------------------------------------------------------ encode: the IEEE field packing *)
(* For a rounded significand/exponent pair in the shape rne_quot delivers (e >= emin, 0 <= m <= 2^p, m >= 2^(p-1) unless
   e = emin) the word is sign | E | f with the fraction below 2^(p-1) (no carry into the exponent field), and the fields
   MEAN m * 2^e under IEEE-754:  E = 0: f * 2^emin;  E > 0: (2^(p-1) + f) * 2^(E - 1 + emin);  all-ones E: infinity. *)
Definition Encode_stmt := forall p emin w neg m e, 1 <= p -> 1 <= w -> emin <= e -> 0 <= m <= 2 ^ p ->
  (emin < e -> 2 ^ (p - 1) <= m) ->
  exists E f, encode p emin w neg (m, e) = (if neg then 2 ^ (w + p - 1) else 0) + E * 2 ^ (p - 1) + f /\
    0 <= f < 2 ^ (p - 1) /\ 0 <= E <= 2 ^ w - 1 /\
    ((E = 0 /\ f = m /\ e = emin) \/                                           (* subnormal or zero *)
     (0 < E < 2 ^ w - 1 /\ m < 2 ^ p /\ 2 ^ (p - 1) + f = m /\ E - 1 + emin = e) \/      (* normal *)
     (0 < E < 2 ^ w - 1 /\ m = 2 ^ p /\ f = 0 /\ E - 1 + emin = e + 1) \/               (* carry into the next binade *)
     (E = 2 ^ w - 1 /\ f = 0 /\ 2 ^ w - 2 + emin <= e + (if m =? 2 ^ p then 1 else 0))).  (* overflow: infinity *)
Lemma encode_thm : Encode_stmt.
Proof.
  intros p emin w neg m e Hp Hw He Hm Hn. unfold encode.
  assert (P1 := p2pos (p - 1) ltac:(lia)).
  assert (P2 : 2 ^ p = 2 * 2 ^ (p - 1)) by (rewrite <- p2succ by lia; f_equal; lia).
  assert (PW : 2 <= 2 ^ w). { replace w with ((w - 1) + 1) by lia. rewrite p2succ by lia. assert (Q := p2pos (w - 1) ltac:(lia)). lia. }
  destruct (Z.eqb_spec m (2 ^ p)) as [C | C].
  - (* carry *)
    destruct (Z.ltb_spec (2 ^ (p - 1)) (2 ^ (p - 1))); [lia|].
    destruct (Z.geb_spec (e + 1 - emin + 1) (2 ^ w - 1)) as [O | O].
    + exists (2 ^ w - 1), 0. split; [reflexivity|]. split; [lia|]. split; [lia|]. right; right; right. lia.
    + exists (e + 1 - emin + 1), (2 ^ (p - 1) - 2 ^ (p - 1)). split; [reflexivity|]. split; [lia|]. split; [lia|].
      right; right; left. lia.
  - destruct (Z.ltb_spec m (2 ^ (p - 1))) as [S | S].
    + assert (e = emin) by (destruct (Z.eq_dec e emin); [assumption | exfalso; assert (emin < e) by lia; specialize (Hn H); lia]).
      destruct (Z.geb_spec 0 (2 ^ w - 1)); [lia|].
      exists 0, m. split; [reflexivity|]. split; [lia|]. split; [lia|]. left. lia.
    + destruct (Z.geb_spec (e - emin + 1) (2 ^ w - 1)) as [O | O].
      * exists (2 ^ w - 1), 0. split; [reflexivity|]. split; [lia|]. split; [lia|]. right; right; right. lia.
      * exists (e - emin + 1), (m - 2 ^ (p - 1)). split; [reflexivity|]. split; [lia|]. split; [lia|]. right; left. lia.
Qed.
(* what rne_quot delivers has that shape *)
Definition Rne_shape_stmt := forall p emin N D, 1 <= p -> emin <= 0 -> 0 < N -> 0 < D ->
  let m := fst (rne_quot p emin N D) in let e := snd (rne_quot p emin N D) in
  emin <= e /\ 0 <= m <= 2 ^ p /\ (emin < e -> 2 ^ (p - 1) <= m).
Lemma rne_shape_thm : Rne_shape_stmt.
Proof.
  intros p emin N D Hp He HN HD. cbv zeta.
  destruct (rne_thm p emin N D Hp He HN HD) as (A & PD & U & L & Mb & Near & _). cbv zeta in *.
  split; [exact A|]. split; [exact Mb|]. intros Hlt. specialize (L Hlt).
  assert (P1 := p2pos (p - 1) ltac:(lia)).
  set (m := fst (rne_quot p emin N D)) in *. set (D' := D * 2 ^ (snd (rne_quot p emin N D) - emin)) in *.
  set (N0 := N * 2 ^ (- emin)) in *. clearbody m D' N0.
  assert (2 * m * D' >= 2 * N0 - D') by lia.
  assert (X : (2 * m + 1) * D' >= 2 * 2 ^ (p - 1) * D') by nia.
  assert (2 * m + 1 >= 2 * 2 ^ (p - 1)) by nia. lia.
Qed.
(* end to end: the word operator double returns, field by field *)
Definition To_double_fields_stmt := forall r, 0 < den r -> num r <> 0 -> Z.abs (num r) < 2 ^ 1024 -> den r < 2 ^ 1024 ->
  let me := rne_quot 53 (-1074) (trunc_bits 53 (Z.abs (num r))) (trunc_bits 53 (den r)) in
  exists E f, to_double r = Some ((if num r <? 0 then 2 ^ 63 else 0) + E * 2 ^ 52 + f) /\ 0 <= f < 2 ^ 52 /\ 0 <= E <= 2047 /\
    ((E = 0 /\ f = fst me /\ snd me = -1074) \/
     (0 < E <= 2046 /\ fst me < 2 ^ 53 /\ 2 ^ 52 + f = fst me /\ E - 1075 = snd me) \/
     (0 < E <= 2046 /\ fst me = 2 ^ 53 /\ f = 0 /\ E - 1075 = snd me + 1) \/
     (* infinity: only through a carry out of the top binade; not excluded here (it cannot happen for a 53-bit numerator
        below 2^1024 and a denominator >= 1, but that needs the bit shape of trunc_bits, not proved) *)
     (E = 2047 /\ f = 0 /\ fst me = 2 ^ 53 /\ snd me = 971)).
Lemma to_double_fields_thm : To_double_fields_stmt.
Proof.
  intros r Hd Hn B1 B2. cbv zeta.
  destruct (to_double_thm r Hd B1 B2) as (_ & T & _). rewrite (T Hn). unfold dbl_of.
  assert (Tn := trunc_bits_thm 53 (Z.abs (num r)) ltac:(lia) ltac:(lia)). cbv zeta in Tn.
  assert (Td := trunc_bits_thm 53 (den r) ltac:(lia) Hd). cbv zeta in Td.
  set (N := trunc_bits 53 (Z.abs (num r))) in *. set (D := trunc_bits 53 (den r)) in *.
  assert (HN : 0 < N). { destruct Tn as (_ & _ & _ & L & _). assert (Q := p2pos (Z.log2 (Z.abs (num r))) (Z.log2_nonneg _)). lia. }
  assert (HD : 0 < D). { destruct Td as (_ & _ & _ & L & _). assert (Q := p2pos (Z.log2 (den r)) (Z.log2_nonneg _)). lia. }
  assert (Sh := rne_shape_thm 53 (-1074) N D ltac:(lia) ltac:(lia) HN HD). cbv zeta in Sh.
  assert (R := rne_thm 53 (-1074) N D ltac:(lia) ltac:(lia) HN HD). cbv zeta in R.
  destruct (rne_quot 53 (-1074) N D) as [m e] eqn:Q. cbn [fst snd] in *.
  destruct Sh as (S1 & S2 & S3). destruct R as (_ & PD & U & _).
  destruct (encode_thm 53 (-1074) 11 (num r <? 0) m e ltac:(lia) ltac:(lia) S1 S2 S3) as (E & f & EQ & Bf & BE & Cs).
  (* no overflow: N < 2^1024 and D >= 1 keep the quotient below 2^1024 *)
  assert (NB : N < 2 ^ 1024) by (destruct Tn as ((L & _) & _); lia).
  assert (EB : e <= 971).
  { destruct (Z.le_gt_cases e 971) as [C | C]; [exact C | exfalso].
    assert (L := proj1 (proj2 (proj2 (proj2 (rne_thm 53 (-1074) N D ltac:(lia) ltac:(lia) HN HD))))). cbv zeta in L. rewrite Q in L. cbn [fst snd] in L.
    specialize (L ltac:(lia)).
    assert (X : 2 ^ (e - -1074) = 2 ^ 1074 * 2 ^ e) by (rewrite <- p2add by lia; f_equal; lia). rewrite X in L.
    assert (Y : 2 ^ e >= 2 ^ 972) by (apply Z.le_ge, p2le; lia).
    assert (W : (2 ^ 1024 : Z) = 2 ^ 52 * 2 ^ 972) by (rewrite <- p2add by lia; reflexivity).
    assert (P1074 := p2pos 1074 ltac:(lia)). change (- -1074) with 1074 in L. change (2 ^ (53 - 1)) with (2 ^ 52) in L.
    assert (P52 := p2pos 52 ltac:(lia)). assert (P972 := p2pos 972 ltac:(lia)).
    rewrite W in NB. clear W X Q Tn Td PD U EQ Cs.
    set (A := 2 ^ 1074) in *. set (B := 2 ^ e) in *. set (C0 := 2 ^ 972) in *. set (K := 2 ^ 52) in *. clearbody A B C0 K.
    assert (S1' : C0 <= D * B) by nia.
    assert (S2' : K * C0 * A <= K * (D * B) * A) by (apply Z.mul_le_mono_nonneg_r; [lia|]; apply Z.mul_le_mono_nonneg_l; lia).
    assert (S3' : N * A < K * C0 * A) by (apply Z.mul_lt_mono_pos_r; lia).
    replace (K * (D * (A * B))) with (K * (D * B) * A) in L by ring. lia. }
  change (2 ^ (11 + 53 - 1)) with (2 ^ 63) in EQ. change (2 ^ (53 - 1)) with (2 ^ 52) in *. change (2 ^ 11 - 1) with 2047 in *.
  exists E, f. split; [rewrite EQ; reflexivity|]. split; [exact Bf|].
  destruct Cs as [C | [C | [C | C]]].
  - split; [lia|]. left. exact C.
  - split; [lia|]. right; left. lia.
  - split; [lia|]. right; right; left. lia.
  - destruct C as (C1 & C2 & C3). change (2 ^ 11 - 2) with 2046 in C3. split; [lia|]. right; right; right.
    destruct (Z.eqb_spec m (2 ^ 53)); [lia | exfalso; lia].
Qed.

(* ------------------------------------------------------------------ operator float with members of any size *)
(* (float)Integer: truncation to 53 bits, then round-to-nearest-even to 24 bits; for a >= 2^24 the result is m * 2^e, e > 0 *)
Definition Get_f_stmt := forall a, 0 < a ->
  (a < 2 ^ 24 -> get_f a = a) /\
  (2 ^ 24 <= a -> let me := rne_quot 24 (-149) (trunc_bits 53 a) 1 in 0 < snd me /\ get_f a = fst me * 2 ^ snd me).
Lemma get_f_thm : Get_f_stmt.
Proof.
  intros a Ha. split; [intros; apply rne_exact_int; lia|].
  intros B. cbv zeta. unfold get_f, int_of_me.
  assert (T := trunc_bits_thm 53 a ltac:(lia) Ha). cbv zeta in T. destruct T as (_ & _ & _ & L & LG).
  set (t := trunc_bits 53 a) in *.
  assert (TB : 2 ^ 24 <= t).
  { assert (M : 2 ^ 24 <= 2 ^ Z.log2 a). { apply p2le. split; [lia|]. apply Z.log2_le_pow2; lia. } lia. }
  assert (R := rne_thm 24 (-149) t 1 ltac:(lia) ltac:(lia) ltac:(lia) ltac:(lia)). cbv zeta in R.
  destruct (rne_quot 24 (-149) t 1) as [m e] eqn:Q. cbn [fst snd] in *.
  destruct R as (Ee & PD & U & _). change (- -149) with 149 in U. rewrite Z.mul_1_l in U.
  assert (E0 : 0 < e).
  { destruct (Z.lt_ge_cases 0 e) as [C | C]; [exact C | exfalso].
    assert (X : 2 ^ (e - -149) <= 2 ^ 149) by (apply p2le; lia). assert (P := p2pos 149 ltac:(lia)). nia. }
  split; [exact E0|]. destruct (Z.geb_spec e 0); [reflexivity | lia].
Qed.
Definition To_float_general_stmt := forall r, 0 < den r -> num r <> 0 -> Z.abs (num r) < 2 ^ 1024 -> den r < 2 ^ 1024 ->
  get_f (Z.abs (num r)) < 2 ^ 128 -> get_f (den r) < 2 ^ 128 ->
  to_float r = Some (flt_of (num r <? 0) (get_f (Z.abs (num r))) (get_f (den r))).
Lemma to_float_general_thm : To_float_general_stmt.
Proof.
  intros [n d] Hd Hn B1 B2 F1 F2. cbn [num den fst snd] in *. unfold to_float. cbn [num den fst snd]. cbv zeta.
  rewrite (Z.abs_eq d) by lia.
  destruct (Z.leb_spec (2 ^ 1024) (Z.abs n)); [lia|]. destruct (Z.leb_spec (2 ^ 1024) d); [lia|]. cbn [orb].
  destruct (Z.eqb_spec (Z.abs n) 0); [lia|].
  destruct (Z.leb_spec (2 ^ 128) (get_f (Z.abs n))); [lia|]. destruct (Z.leb_spec (2 ^ 128) (get_f d)); [lia|].
  unfold flt_of. cbn [num fst]. reflexivity.
Qed.
Example to_float_general_example :
  get_f (2 ^ 25 + 1) = 2 ^ 25 /\ get_f (2 ^ 25 + 3) = 2 ^ 25 + 4 /\ to_float (2 ^ 25 + 1, 3) = Some 0x4b2aaaab.
Proof. repeat split; vm_compute; reflexivity. Qed.
