(* C10 — basic definitions and arithmetic lemmas.  canon = canonical form; toQ = the rational denoted. *)
From Coq Require Import ZArith Znumtheory QArith Qreduction Lia Bool.
From C10 Require Import Model.
Local Open Scope Z_scope.
Ltac Zify.zify_post_hook ::= Z.div_mod_to_equations.

Definition canon (r : rat) : Prop := 0 < den r /\ Z.gcd (num r) (den r) = 1.
Definition toQ (r : rat) : Q := Qmake (num r) (Z.to_pos (den r)).
(* value equality on the integer level: n1/d1 = n2/d2 *)
Definition same (r1 r2 : rat) : Prop := num r1 * den r2 = num r2 * den r1.

Lemma toQ_eq : forall r1 r2, 0 < den r1 -> 0 < den r2 -> (toQ r1 == toQ r2)%Q <-> same r1 r2.
Proof.
  intros [n1 d1] [n2 d2]; unfold toQ, same, Qeq, num, den; cbn [fst snd Qnum Qden]; intros H1 H2.
  rewrite !Z2Pos.id by assumption. lia.
Qed.

(* exact truncating division *)
Lemma quot_exact : forall k b, b <> 0 -> Z.quot (k * b) b = k.
Proof. intros; apply Z.quot_mul; assumption. Qed.

Lemma quot_divide : forall a b, b <> 0 -> (b | a) -> a = Z.quot a b * b.
Proof. intros a b Hb [k ->]. rewrite quot_exact by assumption. reflexivity. Qed.

Lemma gcd_quot_gcd : forall a b g, g = Z.gcd a b -> g <> 0 -> Z.gcd (Z.quot a g) (Z.quot b g) = 1.
Proof.
  intros a b g -> Hg.
  destruct (Z.gcd_divide_l a b) as [ka Ha]. destruct (Z.gcd_divide_r a b) as [kb Hb].
  set (g := Z.gcd a b) in *.
  assert (Hq1 : Z.quot a g = a / g).
  { rewrite Ha at 1. rewrite quot_exact by assumption. rewrite Ha at 1. rewrite Z.div_mul by assumption. reflexivity. }
  assert (Hq2 : Z.quot b g = b / g).
  { rewrite Hb at 1. rewrite quot_exact by assumption. rewrite Hb at 1. rewrite Z.div_mul by assumption. reflexivity. }
  rewrite Hq1, Hq2. apply Z.gcd_div_gcd; [assumption | reflexivity].
Qed.

Lemma reduce_spec : forall s, 0 < den s -> canon (reduce s) /\ same (reduce s) s.
Proof.
  intros [n d]; unfold reduce, canon, same, gcdI, divI, isOneI, num, den; cbn [fst snd]; intros Hd.
  destruct (Z.eqb_spec (Z.gcd n d) 1) as [E | E]; cbn [negb fst snd].
  - split; [split; [assumption | exact E] | reflexivity].
  - set (g := Z.gcd n d) in *.
    assert (Hg0 : 0 <= g) by apply Z.gcd_nonneg.
    assert (Hg : g <> 0). { intro H0. apply Z.gcd_eq_0_r in H0. lia. }
    destruct (Z.gcd_divide_l n d) as [kn Hn]. destruct (Z.gcd_divide_r n d) as [kd Hk]. fold g in Hn, Hk.
    assert (Qn : Z.quot n g = kn) by (rewrite Hn at 1; apply quot_exact; assumption).
    assert (Qd : Z.quot d g = kd) by (rewrite Hk at 1; apply quot_exact; assumption).
    split; [split|].
    + rewrite Qd. nia.
    + apply gcd_quot_gcd; [reflexivity | assumption].
    + rewrite Qn, Qd. clear Qn Qd. nia.
Qed.
