(* C10 — basic definitions and arithmetic lemmas.
   canon = canonical form (den > 0, gcd = 1; hence zero = 0/1); toQ = the rational number denoted;
   same  = equality of values stated on integers (n1/d1 = n2/d2  <->  n1*d2 = n2*d1). *)
From Coq Require Import ZArith Znumtheory QArith Qreduction Lia Bool.
From C10 Require Import Model.
Local Open Scope Z_scope.

Definition posden (r : rat) : Prop := 0 < den r.
Definition canon (r : rat) : Prop := 0 < den r /\ Z.gcd (num r) (den r) = 1.
Definition toQ (r : rat) : Q := Qmake (num r) (Z.to_pos (den r)).
Definition same (r1 r2 : rat) : Prop := num r1 * den r2 = num r2 * den r1.

Lemma canon_posden : forall r, canon r -> posden r.
Proof. intros r [H _]; exact H. Qed.

Lemma canon_zero : forall r, canon r -> num r = 0 -> den r = 1.
Proof. intros [n d] [Hd Hg] Hn; cbn [num den fst snd] in *. subst n. rewrite Z.gcd_0_l in Hg. lia. Qed.

Lemma toQ_eq : forall r1 r2, 0 < den r1 -> 0 < den r2 -> (toQ r1 == toQ r2)%Q <-> same r1 r2.
Proof.
  intros [n1 d1] [n2 d2]; unfold toQ, same, Qeq, num, den; cbn [fst snd Qnum Qden]; intros H1 H2.
  rewrite !Z2Pos.id by assumption. lia.
Qed.

(* ------------------------------------------------------------------ coprimality toolkit (on Z.gcd _ _ = 1) *)
Lemma cop_sym : forall a b, Z.gcd a b = 1 -> Z.gcd b a = 1.
Proof. intros; rewrite Z.gcd_comm; assumption. Qed.

Lemma cop_mul_r : forall a b c, Z.gcd a b = 1 -> Z.gcd a c = 1 -> Z.gcd a (b * c) = 1.
Proof. intros a b c H1 H2. apply Zgcd_1_rel_prime. apply rel_prime_mult; apply Zgcd_1_rel_prime; assumption. Qed.

Lemma cop_mul_l : forall a b c, Z.gcd a c = 1 -> Z.gcd b c = 1 -> Z.gcd (a * b) c = 1.
Proof. intros. apply cop_sym. apply cop_mul_r; apply cop_sym; assumption. Qed.

Lemma cop_div_l : forall a a' b, Z.gcd a b = 1 -> (a' | a) -> Z.gcd a' b = 1.
Proof. intros a a' b H D. apply Zgcd_1_rel_prime. apply rel_prime_div with a; [apply Zgcd_1_rel_prime; assumption | assumption]. Qed.

Lemma cop_div_r : forall a b b', Z.gcd a b = 1 -> (b' | b) -> Z.gcd a b' = 1.
Proof. intros. apply cop_sym. apply cop_div_l with b; [apply cop_sym; assumption | assumption]. Qed.

Lemma cop_div : forall a a' b b', Z.gcd a b = 1 -> (a' | a) -> (b' | b) -> Z.gcd a' b' = 1.
Proof. intros. apply cop_div_l with a; [apply cop_div_r with b|]; assumption. Qed.

Lemma cop4 : forall A B C E, Z.gcd A B = 1 -> Z.gcd A C = 1 -> Z.gcd E B = 1 -> Z.gcd E C = 1 ->
  Z.gcd (A * E) (C * B) = 1.
Proof. intros. apply cop_mul_l; apply cop_mul_r; assumption. Qed.

Lemma cop_opp_l : forall a b, Z.gcd a b = 1 -> Z.gcd (- a) b = 1.
Proof. intros; rewrite Z.gcd_opp_l; assumption. Qed.

Lemma cop_opp_r : forall a b, Z.gcd a b = 1 -> Z.gcd a (- b) = 1.
Proof. intros; rewrite Z.gcd_opp_r; assumption. Qed.

Lemma cop_add_mul : forall a k b, Z.gcd a b = 1 -> Z.gcd (a + k * b) b = 1.
Proof. intros a k b H. rewrite Z.gcd_comm, Z.gcd_add_mult_diag_r, Z.gcd_comm. exact H. Qed.

Lemma divide_mul_l' : forall a b, (a | a * b).
Proof. intros; exists b; ring. Qed.
Lemma divide_mul_r' : forall a b, (b | a * b).
Proof. intros; exists a; ring. Qed.

(* exact truncating division *)
Lemma quot_exact : forall k b, b <> 0 -> Z.quot (k * b) b = k.
Proof. intros; apply Z.quot_mul; assumption. Qed.

Lemma quot_divide : forall a b, b <> 0 -> (b | a) -> a = Z.quot a b * b.
Proof. intros a b Hb [k ->]. rewrite quot_exact by assumption. reflexivity. Qed.

(* the decomposition every gcd-based branch starts from *)
Lemma gcd_decomp : forall a b, Z.gcd a b <> 0 ->
  let g := Z.gcd a b in
  a = Z.quot a g * g /\ b = Z.quot b g * g /\ Z.gcd (Z.quot a g) (Z.quot b g) = 1 /\ 0 < g.
Proof.
  intros a b Hg g. fold g in Hg.
  assert (Ha := quot_divide a g Hg (Z.gcd_divide_l a b)).
  assert (Hb := quot_divide b g Hg (Z.gcd_divide_r a b)).
  assert (H0 : 0 <= g) by apply Z.gcd_nonneg.
  repeat split; try assumption; try lia.
  rewrite (Z.quot_div_exact a g Hg (Z.gcd_divide_l a b)), (Z.quot_div_exact b g Hg (Z.gcd_divide_r a b)).
  apply Z.gcd_div_gcd; [assumption | reflexivity].
Qed.

Lemma gcd_pos_r : forall a b, 0 < b -> Z.gcd a b <> 0.
Proof. intros a b Hb H. apply Z.gcd_eq_0_r in H. lia. Qed.
Lemma gcd_pos_l : forall a b, a <> 0 -> Z.gcd a b <> 0.
Proof. intros a b Hb H. apply Z.gcd_eq_0_l in H. lia. Qed.

Lemma quot_pos_of_mul : forall a g, 0 < g -> 0 < a -> a = Z.quot a g * g -> 0 < Z.quot a g.
Proof. intros; nia. Qed.

(* ------------------------------------------------------------------ canonical pairs are unique *)
Lemma canon_unique : forall a b, canon a -> canon b -> same a b -> a = b.
Proof.
  intros [n1 d1] [n2 d2] [H1 G1] [H2 G2]; unfold same; cbn [num den fst snd] in *; intros E.
  assert (D12 : (d1 | d2)).
  { apply Z.gauss with n1; [exists n2; lia | apply cop_sym; exact G1]. }
  assert (D21 : (d2 | d1)).
  { apply Z.gauss with n2; [exists n1; lia | apply cop_sym; exact G2]. }
  assert (Ed : d1 = d2) by (apply Z.divide_antisym_nonneg; lia || assumption).
  subst d2. f_equal. nia.
Qed.

(* ------------------------------------------------------------------ reduce() *)
Lemma reduce_spec : forall s, 0 < den s -> canon (reduce s) /\ same (reduce s) s.
Proof.
  intros [n d]; unfold reduce, canon, same, gcdI, divI, isOneI, num, den; cbn [fst snd]; intros Hd.
  destruct (Z.eqb_spec (Z.gcd n d) 1) as [E | E]; cbn [negb fst snd].
  - split; [split; [assumption | exact E] | reflexivity].
  - destruct (gcd_decomp n d (gcd_pos_r n d Hd)) as (Hn & Hk & Hc & Hg).
    set (g := Z.gcd n d) in *. set (kn := Z.quot n g) in *. set (kd := Z.quot d g) in *.
    split; [split|]; [nia | exact Hc | nia].
Qed.

Lemma reduce_canon_id : forall s, canon s -> reduce s = s.
Proof.
  intros [n d] [Hd Hg]; unfold reduce, gcdI, isOneI, num, den in *; cbn [fst snd] in *.
  rewrite Hg. reflexivity.
Qed.

(* ------------------------------------------------------------------ Rational(n, d, red) *)
Lemma mk_nd_none : forall n r, mk_nd n 0 r = None.
Proof. reflexivity. Qed.

Lemma nd0_canon : forall n d, canon (n, d) -> nd0 n d = (n, d).
Proof.
  intros n d [Hd Hg]; cbn [num den fst snd] in *. unfold nd0, mk_nd, isZeroI, signI.
  destruct (Z.eqb_spec d 0); [lia|].
  destruct (Z.eqb_spec n 0) as [-> | Hn]; cbn [get_nd Z.eqb].
  - rewrite Z.gcd_0_l in Hg. f_equal. lia.
  - destruct (Z.gtb_spec (Z.sgn d) 0); [reflexivity | lia].
Qed.

(* without reduction: positive denominator, same value, zero stored as 0/1 *)
Lemma nd0_spec : forall n d, d <> 0 ->
  0 < den (nd0 n d) /\ same (nd0 n d) (n, d) /\ (n = 0 -> nd0 n d = (0, 1)).
Proof.
  intros n d Hd. unfold nd0, mk_nd, isZeroI, signI, same.
  destruct (Z.eqb_spec d 0); [lia|].
  destruct (Z.eqb_spec n 0) as [-> | Hn]; cbn [get_nd Z.eqb num den fst snd].
  - repeat split; lia.
  - destruct (Z.gtb_spec (Z.sgn d) 0); cbn [num den fst snd]; repeat split; lia.
Qed.

Lemma mk_nd_red_spec : forall n d, d <> 0 ->
  exists r, mk_nd n d 1 = Some r /\ canon r /\ same r (n, d).
Proof.
  intros n d Hd. unfold mk_nd, isZeroI, signI.
  destruct (Z.eqb_spec d 0); [lia|]. change (1 =? 1) with true. cbv iota.
  eexists; split; [reflexivity|].
  destruct (Z.eqb_spec n 0) as [-> | Hn].
  - destruct (reduce_spec (0, 1)) as [Hc Hs]; [cbn; lia|]. split; [exact Hc|].
    unfold same in *; cbn [num den fst snd] in *. lia.
  - destruct (Z.gtb_spec (Z.sgn d) 0).
    + apply reduce_spec; cbn; lia.
    + destruct (reduce_spec (- n, - d)) as [Hc Hs]; [cbn; lia|]. split; [exact Hc|].
      unfold same in *; cbn [num den fst snd] in *. lia.
Qed.

(* ------------------------------------------------------------------ toQ bridges: integer identities -> Q *)
Lemma toQ_plus : forall r t u, 0 < den r -> 0 < den t -> 0 < den u ->
  num r * (den t * den u) = (num t * den u + num u * den t) * den r -> (toQ r == toQ t + toQ u)%Q.
Proof.
  intros [n d] [n1 d1] [n2 d2]; unfold toQ, Qeq, Qplus; cbn [num den fst snd Qnum Qden]; intros.
  rewrite Pos2Z.inj_mul, !Z2Pos.id by assumption. lia.
Qed.

Lemma toQ_minus : forall r t u, 0 < den r -> 0 < den t -> 0 < den u ->
  num r * (den t * den u) = (num t * den u - num u * den t) * den r -> (toQ r == toQ t - toQ u)%Q.
Proof.
  intros [n d] [n1 d1] [n2 d2]; unfold toQ, Qeq, Qminus, Qplus, Qopp; cbn [num den fst snd Qnum Qden]; intros.
  rewrite Pos2Z.inj_mul, !Z2Pos.id by assumption. lia.
Qed.

Lemma toQ_mult : forall r t u, 0 < den r -> 0 < den t -> 0 < den u ->
  num r * (den t * den u) = (num t * num u) * den r -> (toQ r == toQ t * toQ u)%Q.
Proof.
  intros [n d] [n1 d1] [n2 d2]; unfold toQ, Qeq, Qmult; cbn [num den fst snd Qnum Qden]; intros.
  rewrite Pos2Z.inj_mul, !Z2Pos.id by assumption. lia.
Qed.

Lemma toQ_opp : forall r t, 0 < den r -> 0 < den t ->
  num r * den t = - num t * den r -> (toQ r == - toQ t)%Q.
Proof.
  intros [n d] [n1 d1]; unfold toQ, Qeq, Qopp; cbn [num den fst snd Qnum Qden]; intros.
  rewrite !Z2Pos.id by assumption. lia.
Qed.

Lemma toQ_inv : forall r t, 0 < den r -> 0 < den t -> num t <> 0 ->
  num r * num t = den t * den r -> (toQ r == / toQ t)%Q.
Proof.
  intros [n d] [n1 d1]; unfold toQ, Qeq, Qinv; cbn [num den fst snd Qnum Qden]; intros Hd Hd1 Hn E.
  destruct n1 as [|p|p]; [lia| |]; cbn [Qnum Qden]; rewrite ?Z2Pos.id by assumption.
  - lia.
  - change (Z.neg (Z.to_pos d1)) with (- Z.pos (Z.to_pos d1)).
    rewrite Z2Pos.id by assumption. change (Z.neg p) with (- Z.pos p) in *. lia.
Qed.

Lemma toQ_div : forall r t u, 0 < den r -> 0 < den t -> 0 < den u -> num u <> 0 ->
  num r * (den t * num u) = (num t * den u) * den r -> (toQ r == toQ t / toQ u)%Q.
Proof.
  intros r t u Hr Ht Hu Hn E. unfold Qdiv.
  set (iu := (if 0 <? num u then (den u, num u) else (- den u, - num u)) : rat).
  assert (Hi : 0 < den iu) by (unfold iu; destruct (Z.ltb_spec 0 (num u)); cbn [den snd]; lia).
  assert (Ei : (toQ iu == / toQ u)%Q).
  { apply toQ_inv; try assumption. unfold iu; destruct (Z.ltb_spec 0 (num u)); cbn [num den fst snd]; lia. }
  rewrite <- Ei. apply toQ_mult; try assumption.
  unfold iu; destruct (Z.ltb_spec 0 (num u)); cbn [num den fst snd]; nia.
Qed.

Lemma toQ_same : forall r t, 0 < den r -> 0 < den t -> same r t -> (toQ r == toQ t)%Q.
Proof. intros r t H1 H2 H. apply toQ_eq; assumption. Qed.

(* ------------------------------------------------------------------ the GMP comparison primitives *)
Lemma cmp3_spec : forall a b, (cmp3 a b < 0 <-> a < b) /\ (cmp3 a b = 0 <-> a = b) /\ (0 < cmp3 a b <-> b < a).
Proof. intros a b. unfold cmp3. destruct (Z.compare_spec a b); lia. Qed.

Lemma limbs_nonneg : forall x, 0 <= limbs x.
Proof.
  intros x. unfold limbs. destruct (Z.eqb_spec x 0); [lia|].
  assert (0 <= Z.log2 (Z.abs x)) by apply Z.log2_nonneg.
  assert (0 <= Z.log2 (Z.abs x) / 64) by (apply Z.div_pos; lia). lia.
Qed.

Lemma limbs_abs_eq : forall a b, Z.abs a = Z.abs b -> limbs a = limbs b.
Proof.
  intros a b E. unfold limbs. rewrite E.
  destruct (Z.eqb_spec a 0), (Z.eqb_spec b 0); try reflexivity; lia.
Qed.

Lemma limbs_mono : forall a b, Z.abs a <= Z.abs b -> limbs a <= limbs b.
Proof.
  intros a b H. unfold limbs. destruct (Z.eqb_spec a 0) as [-> | Ha].
  - fold (limbs b). apply limbs_nonneg.
  - destruct (Z.eqb_spec b 0) as [-> | Hb]; [lia|].
    assert (L := Z.log2_le_mono _ _ H).
    assert (D := Z.div_le_mono _ _ 64 ltac:(lia) L). lia.
Qed.

(* mpz_cmpabs returns a limb-count difference when the sizes differ: only its sign is meaningful *)
Lemma cmpabsI_spec : forall a b,
  (cmpabsI a b < 0 <-> Z.abs a < Z.abs b) /\ (cmpabsI a b = 0 <-> Z.abs a = Z.abs b) /\
  (0 < cmpabsI a b <-> Z.abs b < Z.abs a).
Proof.
  intros a b. unfold cmpabsI. cbv zeta.
  destruct (Z.eqb_spec (limbs a - limbs b) 0) as [E | E].
  - apply cmp3_spec.
  - assert (Hab := limbs_mono a b). assert (Hba := limbs_mono b a).
    assert (Heq := limbs_abs_eq a b). lia.
Qed.

Lemma cmpabsI_eqb : forall a b, 0 < a -> 0 < b -> (cmpabsI a b =? 0) = (a =? b).
Proof.
  intros a b Ha Hb. destruct (cmpabsI_spec a b) as (_ & H & _).
  destruct (Z.eqb_spec (cmpabsI a b) 0), (Z.eqb_spec a b); try reflexivity; lia.
Qed.

Lemma cmpabsI_refl : forall a, cmpabsI a a = 0.
Proof. intros a. apply (cmpabsI_spec a a). reflexivity. Qed.

Lemma cmpI_eqb : forall a b, (cmpI a b =? 0) = (a =? b).
Proof.
  intros a b. unfold cmpI. cbv zeta.
  destruct (Z.eqb_spec (Z.sgn a * limbs a - Z.sgn b * limbs b) 0) as [E | E].
  - destruct (cmp3_spec a b) as (_ & H & _).
    destruct (Z.eqb_spec (cmp3 a b) 0), (Z.eqb_spec a b); try reflexivity; lia.
  - destruct (Z.eqb_spec a b) as [-> | N]; [lia|].
    destruct (Z.eqb_spec (Z.sgn a * limbs a - Z.sgn b * limbs b) 0); [lia | reflexivity].
Qed.

Lemma mk_nd0 : forall n d, d <> 0 -> mk_nd n d 0 = Some (nd0 n d).
Proof.
  intros n d Hd. unfold nd0, mk_nd, isZeroI. destruct (Z.eqb_spec d 0); [lia | reflexivity].
Qed.

Lemma canon_01 : canon (0, 1).
Proof. split; cbn; [lia | reflexivity]. Qed.

Lemma mk_int_canon : forall n, canon (mk_int n) /\ num (mk_int n) = n /\ den (mk_int n) = 1.
Proof.
  intros n. unfold mk_int, isZeroI, canon. destruct (Z.eqb_spec n 0) as [-> | H]; cbn [num den fst snd].
  - repeat split; try lia.
  - repeat split; try lia. apply Z.gcd_1_r.
Qed.


Lemma absI_abs' : forall n, n < 0 -> absI n = - n.
Proof. intros n H. unfold absI, signI. destruct (Z.geb_spec (Z.sgn n) 0); lia. Qed.

Lemma absI_abs : forall n, absI n = Z.abs n.
Proof. intros n. unfold absI, signI. destruct (Z.geb_spec (Z.sgn n) 0); lia. Qed.
