(* C10 — compare / absCompare (givratcompare.C) and the six operators (givrational.inl).
   mpz_cmpabs returns limb-count differences, so compare() is only sign-correct; the operators test its sign. *)
From Coq Require Import ZArith QArith Qabs Lia Bool.
From C10 Require Import Model ProofsBase.
Local Open Scope Z_scope.

(* what the comparison needs of its operands: positive denominator, zero stored as 0/1 *)
Definition wf (r : rat) : Prop := 0 < den r /\ (num r = 0 -> den r = 1).

Lemma canon_wf : forall r, canon r -> wf r.
Proof. intros r C. split; [apply C | apply canon_zero; exact C]. Qed.

Lemma mul_lt_mono_both : forall x y p q, 0 <= x -> x < y -> 0 < p -> p <= q -> x * p < y * q.
Proof. intros. nia. Qed.
Lemma mul_lt_l : forall x p q, 0 < x -> p < q -> x * p < x * q.
Proof. intros. nia. Qed.
Lemma mul_lt_r : forall x y p, 0 < p -> x < y -> x * p < y * p.
Proof. intros. nia. Qed.

Lemma cmpabsI_cases : forall a b,
  (cmpabsI a b < 0 /\ Z.abs a < Z.abs b) \/ (cmpabsI a b = 0 /\ Z.abs a = Z.abs b) \/ (0 < cmpabsI a b /\ Z.abs b < Z.abs a).
Proof. intros a b. destruct (cmpabsI_spec a b) as (A & B & C). lia. Qed.

Lemma absCompare_spec : forall a b, wf a -> wf b ->
  (absCompare a b < 0 <-> Z.abs (num a) * den b < Z.abs (num b) * den a) /\
  (absCompare a b = 0 <-> Z.abs (num a) * den b = Z.abs (num b) * den a) /\
  (0 < absCompare a b <-> Z.abs (num b) * den a < Z.abs (num a) * den b).
Proof.
  intros [na da] [nb db] [Ha Za] [Hb Zb]. unfold absCompare. cbn [num den fst snd] in *. cbv zeta.
  assert (Za' : Z.abs na = 0 -> da = 1) by (intros H0; apply Za; lia).
  assert (Zb' : Z.abs nb = 0 -> db = 1) by (intros H0; apply Zb; lia).
  clear Za Zb.
  assert (N := cmpabsI_cases na nb). assert (D := cmpabsI_cases da db).
  assert (P := cmpabsI_cases (na * db) (da * nb)).
  rewrite !Z.abs_mul in P. rewrite (Z.abs_eq da), (Z.abs_eq db) in * by lia.
  assert (Xa := Z.abs_nonneg na). assert (Xb := Z.abs_nonneg nb).
  set (x := Z.abs na) in *. set (y := Z.abs nb) in *. clearbody x y.
  set (cn := cmpabsI na nb) in *. set (cd := cmpabsI da db) in *. set (cp := cmpabsI (na * db) (da * nb)) in *.
  clearbody cn cd cp. replace (da * y) with (y * da) in * by ring.
  destruct (Z.eqb_spec cn (-1)); cbn [andb].
  { assert (Lxy : x < y) by lia. clear N.
    destruct (Z.eqb_spec cd 1); cbn [andb].
    { assert (L := mul_lt_mono_both x y db da Xa Lxy Hb ltac:(lia)). clear D P. lia. }
    destruct (Z.eqb_spec cn 1); [lia|]. cbn [andb].
    destruct (Z.eqb_spec cn 0); [lia|].
    destruct (Z.eqb_spec cd 0); [|clear D; lia].
    assert (da = db) by lia. subst db. assert (L := mul_lt_r x y da Ha Lxy). clear D P. lia. }
  destruct (Z.eqb_spec cn 1); cbn [andb].
  { assert (Lyx : y < x) by lia. clear N.
    destruct (Z.eqb_spec cd (-1)).
    { assert (L := mul_lt_mono_both y x da db Xb Lyx Ha ltac:(lia)). clear D P. lia. }
    destruct (Z.eqb_spec cn 0); [lia|].
    destruct (Z.eqb_spec cd 0); [|clear D; lia].
    assert (da = db) by lia. subst db. assert (L := mul_lt_r y x da Ha Lyx). clear D P. lia. }
  destruct (Z.eqb_spec cn 0).
  { assert (E : x = y) by lia. subst y. clear N P.
    assert (C : x = 0 \/ 0 < x) by lia. destruct C as [C | C].
    - assert (da = 1) by lia. assert (db = 1) by lia. subst. lia.
    - destruct D as [[D1 D2] | [[D1 D2] | [D1 D2]]].
      + assert (L := mul_lt_l x da db C D2). lia.
      + subst db. lia.
      + assert (L := mul_lt_l x db da C D2). lia. }
  destruct (Z.eqb_spec cd 0); [|clear N D; lia].
  assert (da = db) by lia. subst db. clear D P.
  destruct N as [[N1 N2] | [[N1 N2] | [N1 N2]]].
  - assert (L := mul_lt_r x y da Ha N2). lia.
  - subst y. lia.
  - assert (L := mul_lt_r y x da Ha N2). lia.
Qed.

Lemma rcompare_spec : forall a b, wf a -> wf b ->
  (rcompare a b < 0 <-> num a * den b < num b * den a) /\
  (rcompare a b = 0 <-> num a * den b = num b * den a) /\
  (0 < rcompare a b <-> num b * den a < num a * den b).
Proof.
  intros a b Wa Wb. destruct (absCompare_spec a b Wa Wb) as (A1 & A2 & A3).
  unfold rcompare, isZeroI, signI. set (ac := absCompare a b) in *. clearbody ac.
  destruct a as [na da], b as [nb db]. destruct Wa as [Ha _], Wb as [Hb _]. cbn [num den fst snd] in *.
  destruct (Z.eqb_spec na 0) as [-> | Na]; cbn [andb].
  { destruct (Z.eqb_spec nb 0) as [-> | Nb]; [lia|]. assert (S := Z.sgn_spec nb). nia. }
  destruct (Z.eqb_spec nb 0) as [-> | Nb]. { assert (S := Z.sgn_spec na). nia. }
  assert (Sa := Z.sgn_spec na). assert (Sb := Z.sgn_spec nb).
  destruct (Z.eqb_spec (Z.sgn na) (Z.sgn nb)) as [E | E]; cbn [negb].
  - destruct (Z.gtb_spec (Z.sgn na) 0).
    + assert (0 < na) by lia. assert (0 < nb) by lia. rewrite (Z.abs_eq na), (Z.abs_eq nb) in * by lia. lia.
    + assert (na < 0) by lia. assert (nb < 0) by lia. rewrite (Z.abs_neq na), (Z.abs_neq nb) in * by lia. lia.
  - destruct (Z.eqb_spec (Z.sgn na) (-1)).
    + assert (na < 0) by lia. assert (0 < nb) by lia. nia.
    + assert (0 < na) by lia. assert (nb < 0) by lia. nia.
Qed.

(* ------------------------------------------------------------------ the order of Q *)
Lemma Qlt_toQ : forall a b, 0 < den a -> 0 < den b -> (toQ a < toQ b)%Q <-> num a * den b < num b * den a.
Proof. intros [na da] [nb db] Ha Hb. unfold toQ, Qlt. cbn [num den fst snd Qnum Qden] in *. rewrite !Z2Pos.id by assumption. reflexivity. Qed.
Lemma Qle_toQ : forall a b, 0 < den a -> 0 < den b -> (toQ a <= toQ b)%Q <-> num a * den b <= num b * den a.
Proof. intros [na da] [nb db] Ha Hb. unfold toQ, Qle. cbn [num den fst snd Qnum Qden] in *. rewrite !Z2Pos.id by assumption. reflexivity. Qed.
Lemma Qeq_toQ : forall a b, 0 < den a -> 0 < den b -> (toQ a == toQ b)%Q <-> num a * den b = num b * den a.
Proof. intros [na da] [nb db] Ha Hb. unfold toQ, Qeq. cbn [num den fst snd Qnum Qden] in *. rewrite !Z2Pos.id by assumption. reflexivity. Qed.

Definition sgn3 (c : comparison) : Z := match c with Lt => -1 | Eq => 0 | Gt => 1 end.

Definition Compare_stmt := forall a b, wf a -> wf b ->
  Z.sgn (rcompare a b) = sgn3 (Qcompare (toQ a) (toQ b)).
Lemma compare_thm : Compare_stmt.
Proof.
  intros a b Wa Wb. destruct (rcompare_spec a b Wa Wb) as (R1 & R2 & R3).
  destruct Wa as [Ha _], Wb as [Hb _].
  destruct (Qcompare_spec (toQ a) (toQ b)) as [E | E | E]; cbn [sgn3].
  - apply Qeq_toQ in E; try assumption. lia.
  - apply Qlt_toQ in E; try assumption. lia.
  - apply Qlt_toQ in E; try assumption. lia.
Qed.

Definition AbsCompare_stmt := forall a b, wf a -> wf b ->
  Z.sgn (absCompare a b) = sgn3 (Qcompare (Qabs (toQ a)) (Qabs (toQ b))).
Lemma Qabs_toQ : forall a, Qabs (toQ a) = toQ (Z.abs (num a), den a).
Proof. intros [n d]. reflexivity. Qed.
Lemma abscompare_thm : AbsCompare_stmt.
Proof.
  intros a b Wa Wb. destruct (absCompare_spec a b Wa Wb) as (R1 & R2 & R3).
  destruct Wa as [Ha _], Wb as [Hb _]. rewrite !Qabs_toQ.
  destruct (Qcompare_spec (toQ (Z.abs (num a), den a)) (toQ (Z.abs (num b), den b))) as [E | E | E]; cbn [sgn3].
  - apply Qeq_toQ in E; try assumption. cbn [num den fst snd] in E. lia.
  - apply Qlt_toQ in E; try assumption. cbn [num den fst snd] in E. lia.
  - apply Qlt_toQ in E; try assumption. cbn [num den fst snd] in E. lia.
Qed.

Definition Operators_stmt := forall a b, wf a -> wf b ->
  (op_lt a b = true <-> (toQ a < toQ b)%Q) /\
  (op_gt a b = true <-> (toQ b < toQ a)%Q) /\
  (op_eq a b = true <-> (toQ a == toQ b)%Q) /\
  (op_ne a b = true <-> ~ (toQ a == toQ b)%Q) /\
  (op_le a b = true <-> (toQ a <= toQ b)%Q) /\
  (op_ge a b = true <-> (toQ b <= toQ a)%Q).
Lemma operators_thm : Operators_stmt.
Proof.
  intros a b Wa Wb. destruct (rcompare_spec a b Wa Wb) as (R1 & R2 & R3).
  destruct Wa as [Ha _], Wb as [Hb _].
  rewrite !Qlt_toQ, !Qle_toQ, !Qeq_toQ by assumption.
  unfold op_lt, op_gt, op_eq, op_ne, op_le, op_ge. set (c := rcompare a b) in *. clearbody c.
  rewrite negb_true_iff.
  destruct (Z.ltb_spec c 0), (Z.gtb_spec c 0), (Z.eqb_spec c 0), (Z.leb_spec c 0), (Z.geb_spec c 0);
    repeat split; intros; try discriminate; try reflexivity; try lia.
Qed.

(* exactly one of a < b, a == b, a > b *)
Definition Trichotomy_stmt := forall a b, wf a -> wf b ->
  (op_lt a b = true /\ op_eq a b = false /\ op_gt a b = false) \/
  (op_lt a b = false /\ op_eq a b = true /\ op_gt a b = false) \/
  (op_lt a b = false /\ op_eq a b = false /\ op_gt a b = true).
Lemma trichotomy_thm : Trichotomy_stmt.
Proof.
  intros a b _ _. unfold op_lt, op_eq, op_gt. set (c := rcompare a b). clearbody c.
  destruct (Z.ltb_spec c 0), (Z.gtb_spec c 0), (Z.eqb_spec c 0); try lia; tauto.
Qed.

(* the derived operators are the complements *)
Definition Complement_stmt := forall a b,
  op_ne a b = negb (op_eq a b) /\ op_le a b = negb (op_gt a b) /\ op_ge a b = negb (op_lt a b).
Lemma complement_thm : Complement_stmt.
Proof.
  intros a b. unfold op_lt, op_eq, op_gt, op_ne, op_le, op_ge. set (c := rcompare a b). clearbody c.
  destruct (Z.ltb_spec c 0), (Z.gtb_spec c 0), (Z.eqb_spec c 0), (Z.leb_spec c 0), (Z.geb_spec c 0);
    repeat split; try reflexivity; lia.
Qed.

(* QField predicates *)
Lemma q_areEqual_spec : forall a b, wf a -> wf b -> (q_areEqual a b = true <-> (toQ a == toQ b)%Q).
Proof. intros a b Wa Wb. exact (proj1 (proj2 (proj2 (operators_thm a b Wa Wb)))). Qed.

Definition QField_predicates_stmt := forall a b, wf a -> wf b ->
  (q_isZero a = true <-> (toQ a == 0)%Q) /\ (q_isOne a = true <-> (toQ a == 1)%Q) /\
  (q_isMOne a = true <-> (toQ a == - (1))%Q) /\ (q_areEqual a b = true <-> (toQ a == toQ b)%Q).
Lemma qfield_predicates_thm : QField_predicates_stmt.
Proof.
  intros a b Wa Wb.
  assert (W0 : wf (0, 1)) by (split; cbn; lia). assert (W1 : wf (1, 1)) by (split; cbn; lia).
  assert (Wm : wf (-1, 1)) by (split; cbn; lia).
  split; [exact (q_areEqual_spec a (0, 1) Wa W0)|]. split; [exact (q_areEqual_spec a (1, 1) Wa W1)|].
  split; [exact (q_areEqual_spec a (-1, 1) Wa Wm) | exact (q_areEqual_spec a b Wa Wb)].
Qed.
