(* C10 — constructors (givratcstor.C), Rational(double), floor/ceil/trunc/round, pow (givratmisc.C). *)
From Coq Require Import ZArith Znumtheory Zpow_facts QArith Qpower Lia Bool.
From C10 Require Import Model ProofsBase ProofsMul.
Local Open Scope Z_scope.

(* ------------------------------------------------------------------ integer constructors *)
Lemma mk_neutral_spec : forall b, canon (mk_neutral b) /\ mk_neutral b = ((if b then 1 else 0), 1).
Proof. intros [|]; split; try reflexivity; split; cbn; try lia; reflexivity. Qed.

Lemma mk_word_spec : forall n, canon (mk_word n) /\ num (mk_word n) = n /\ den (mk_word n) = 1.
Proof. intros n. unfold mk_word, canon; cbn [num den fst snd]. repeat split; try lia. apply Z.gcd_1_r. Qed.

Definition ctor_post (n d : Z) (x : rat) : Prop := canon x /\ num x * d = n * den x.

Lemma mk_nd_spec : forall n d redarg,
  (d = 0 -> mk_nd n d redarg = None) /\
  (d <> 0 -> exists x, mk_nd n d redarg = Some x /\ 0 < den x /\ num x * d = n * den x /\
                       (n = 0 -> x = (0, 1)) /\ (redarg = 1 -> canon x) /\
                       (redarg <> 1 -> x = if n =? 0 then (0, 1) else if 0 <? d then (n, d) else (- n, - d))).
Proof.
  intros n d redarg. split; [intros ->; reflexivity|]. intros Hd.
  destruct (Z.eq_dec redarg 1) as [-> | Hr].
  - destruct (mk_nd_red_spec n d Hd) as (x & E & C & S). exists x. split; [exact E|].
    unfold same in S; cbn [num den fst snd] in S. split; [apply C|]. split; [exact S|]. split; [|split; [intros _; exact C | lia]].
    intros ->. apply canon_pair_zero; [exact C|]. destruct C as [P _]. nia.
  - unfold mk_nd, isZeroI, signI. destruct (Z.eqb_spec d 0); [lia|]. destruct (Z.eqb_spec redarg 1); [lia|].
    eexists; split; [reflexivity|].
    destruct (Z.eqb_spec n 0) as [-> | Hn]; cbn [num den fst snd].
    + repeat split; try lia; try reflexivity.
    + destruct (Z.gtb_spec (Z.sgn d) 0), (Z.ltb_spec 0 d); try lia; cbn [num den fst snd];
        (split; [lia|]; split; [ring|]; split; [lia|]; split; [lia | reflexivity]).
Qed.

Lemma mk_u64_spec : forall n d, 0 <= n -> 0 <= d ->
  (d = 0 -> mk_u64 n d = None) /\ (d <> 0 -> exists x, mk_u64 n d = Some x /\ ctor_post n d x).
Proof.
  intros n d Hn Hd. unfold mk_u64. split; [intros ->; reflexivity|]. intros Hd0.
  destruct (Z.eqb_spec d 0); [lia|]. eexists; split; [reflexivity|]. unfold ctor_post.
  destruct (Z.eqb_spec n 0) as [-> | Hn0].
  - destruct (reduce_spec (0, 1)) as [C S]; [cbn; lia|]. split; [exact C|]. unfold same in S; cbn [num den fst snd] in S. lia.
  - destruct (reduce_spec (n, d)) as [C S]; [cbn; lia|]. split; [exact C|]. unfold same in S; cbn [num den fst snd] in S. lia.
Qed.

Lemma mk_i64_spec : forall n d,
  (d = 0 -> mk_i64 n d = None) /\ (d <> 0 -> exists x, mk_i64 n d = Some x /\ ctor_post n d x).
Proof.
  intros n d. unfold mk_i64. split; [intros ->; reflexivity|]. intros Hd0.
  destruct (Z.eqb_spec d 0); [lia|]. eexists; split; [reflexivity|]. unfold ctor_post. cbv zeta.
  destruct (Z.gtb_spec d 0).
  - destruct (reduce_spec (n, d)) as [C S]; [cbn; lia|]. split; [exact C|]. unfold same in S; cbn [num den fst snd] in S. lia.
  - destruct (reduce_spec (- n, - d)) as [C S]; [cbn; lia|]. split; [exact C|]. unfold same in S; cbn [num den fst snd] in S. lia.
Qed.

Lemma of_text_spec : forall n hasden d, (hasden = true -> d <> 0) ->
  exists x, of_text n hasden d = Some x /\ ctor_post n (if hasden then d else 1) x.
Proof.
  intros n [|] d H; unfold of_text.
  - destruct (mk_nd_red_spec n d (H eq_refl)) as (x & E & C & S). exists x. split; [exact E|]. split; [exact C|].
    unfold same in S; cbn [num den fst snd] in S. exact S.
  - destruct (mk_nd_red_spec n 1 ltac:(lia)) as (x & E & C & S). exists x. split; [exact E|]. split; [exact C|].
    unfold same in S; cbn [num den fst snd] in S. exact S.
Qed.

(* ------------------------------------------------------------------ operator/= without aliasing, both modes *)
Lemma divin_noalias_spec : forall red r s, 0 < den s -> 0 < den r -> (red = true -> canon s /\ canon r) ->
  num r <> 0 -> exists x, divin false r red s = Some x /\ div_post red s r x.
Proof.
  intros [|] r s Hs Hr Hc Hn.
  - destruct (Hc eq_refl) as [Cs Cr]. rewrite divin_noalias_red by assumption.
    apply (proj2 (rdiv_spec true s r Hs Hr Hc)). exact Hn.
  - apply divin_noalias_nored; assumption.
Qed.

(* ------------------------------------------------------------------ Rational(double) *)
(* the value of the IEEE-754 binary64 number with sign bit sgn, biased exponent e, mantissa field m:
   (-1)^sgn * M * 2^(E-1075),  M = m (e = 0: subnormal) or 2^52 + m,  E = max(e, 1);  as the pair (+-M*2^E, 2^1075) *)
Definition dbl_M (e m : Z) : Z := if e =? 0 then m else 2 ^ 52 + m.
Definition dbl_E (e : Z) : Z := if e =? 0 then 1 else e.
Definition dbl_rat (sgn : bool) (e m : Z) : rat := ((if sgn then -1 else 1) * dbl_M e m * 2 ^ dbl_E e, 2 ^ 1075).

Lemma pow2_pos : forall k, 0 <= k -> 0 < 2 ^ k.
Proof. intros; apply Z.pow_pos_nonneg; lia. Qed.

Lemma of_double_spec : forall red sgn e m, 0 <= e <= 2046 -> 0 <= m < 2 ^ 52 ->
  exists x, of_double red sgn e m = Some x /\ 0 < den x /\ (red = true -> canon x) /\ same x (dbl_rat sgn e m).
Proof.
  intros red sgn e m He Hm. unfold of_double, dbl_rat, dbl_M, dbl_E, same. cbv zeta. cbn [num den fst snd].
  assert (E52 : 4503599627370496 = 2 ^ 52) by reflexivity. rewrite E52.
  assert (P52 : 0 < 2 ^ 52) by (apply pow2_pos; lia).
  destruct (Z.eqb_spec e 0) as [-> | He0].
  - (* subnormal (or zero): m / 2^1074 through operator/= *)
    cbn [andb]. rewrite Z.shiftl_mul_pow2 by lia. rewrite Z.mul_1_l.
    assert (P : 0 < 2 ^ 1074) by (apply pow2_pos; lia).
    assert (P2 : 2 ^ 1075 = 2 * 2 ^ 1074). { change 1075 with (1 + 1074). rewrite Z.pow_add_r by lia. reflexivity. }
    set (p := 2 ^ 1074) in *. clearbody p.
    assert (Ei : mk_int p = (p, 1)). { unfold mk_int, isZeroI. destruct (Z.eqb_spec p 0); [lia | reflexivity]. }
    rewrite Ei.
    set (n0 := if sgn && negb (m =? 0) then - m else m).
    assert (Cs : canon (n0, 1)) by (split; cbn [num den fst snd]; [lia | apply Z.gcd_1_r]).
    assert (Cr : canon (p, 1)) by (split; cbn [num den fst snd]; [lia | apply Z.gcd_1_r]).
    destruct (divin_noalias_spec red (p, 1) (n0, 1)) as (x & E & PD & C & V); cbn [num den fst snd]; try lia.
    { intros _. split; assumption. }
    rewrite E. cbn [num den fst snd] in V.
    assert (Vn : n0 = (if sgn then -1 else 1) * m).
    { unfold n0. destruct sgn; cbn [andb]; [|lia]. destruct (Z.eqb_spec m 0); cbn [negb]; lia. }
    destruct red.
    + rewrite (reduce_canon_id x (C eq_refl)). exists x. split; [reflexivity|]. split; [exact PD|]. split; [exact C|].
      rewrite P2. change (2 ^ 1) with 2. rewrite <- Vn. nia.
    + exists x. split; [reflexivity|]. split; [exact PD|]. split; [discriminate|].
      rewrite P2. change (2 ^ 1) with 2. rewrite <- Vn. nia.
  - cbn [andb negb].
    set (n1 := if sgn && true then - (m + 2 ^ 52) else m + 2 ^ 52).
    assert (Vn : n1 = (if sgn then -1 else 1) * (2 ^ 52 + m)) by (unfold n1; destruct sgn; cbn [andb]; lia).
    destruct (Z.gtb_spec (1075 - e) 0) as [Hs | Hs].
    + rewrite Z.shiftl_mul_pow2 by lia. rewrite Z.mul_1_l.
      assert (P : 0 < 2 ^ (1075 - e)) by (apply pow2_pos; lia).
      assert (P2 : 2 ^ 1075 = 2 ^ e * 2 ^ (1075 - e)). { rewrite <- Z.pow_add_r by lia. f_equal. lia. }
      fold n1. set (p := 2 ^ (1075 - e)) in *. set (q := 2 ^ e) in *. clearbody p q.
      destruct red.
      * destruct (reduce_spec (n1, p)) as [C S]; [cbn; lia|]. eexists; split; [reflexivity|].
        split; [apply C|]. split; [intros _; exact C|]. unfold same in S; cbn [num den fst snd] in S.
        rewrite P2, <- Vn. nia.
      * eexists; split; [reflexivity|]. cbn [num den fst snd]. split; [lia|]. split; [discriminate|].
        rewrite P2, <- Vn. ring.
    + rewrite Z.shiftl_mul_pow2 by lia.
      assert (P : 0 < 2 ^ (- (1075 - e))) by (apply pow2_pos; lia).
      assert (P2 : 2 ^ e = 2 ^ (- (1075 - e)) * 2 ^ 1075). { rewrite <- Z.pow_add_r by lia. f_equal. lia. }
      set (p := 2 ^ (- (1075 - e))) in *. set (q := 2 ^ 1075) in *. clearbody p q.
      set (n2 := if sgn && true then - ((m + 2 ^ 52) * p) else (m + 2 ^ 52) * p).
      assert (Vn2 : n2 = n1 * p) by (unfold n2, n1; destruct sgn; cbn [andb]; ring).
      destruct red.
      * destruct (reduce_spec (n2, 1)) as [C S]; [cbn; lia|]. eexists; split; [reflexivity|].
        split; [apply C|]. split; [intros _; exact C|]. unfold same in S; cbn [num den fst snd] in S.
        rewrite P2, <- Vn. nia.
      * eexists; split; [reflexivity|]. cbn [num den fst snd]. split; [lia|]. split; [discriminate|].
        rewrite P2, <- Vn. rewrite Vn2. ring.
Qed.

(* ------------------------------------------------------------------ floor / ceil / trunc / round *)
Lemma floor_spec : forall r, 0 < den r -> floor r * den r <= num r < (floor r + 1) * den r.
Proof.
  intros [n d] H. unfold floor, floorI. cbn [num den fst snd] in *.
  assert (A := Z.div_mod n d ltac:(lia)). assert (B := Z.mod_pos_bound n d H). nia.
Qed.

Lemma ceil_spec : forall r, 0 < den r -> (ceil r - 1) * den r < num r <= ceil r * den r.
Proof.
  intros [n d] H. unfold ceil, ceilI. cbn [num den fst snd] in *.
  assert (A := Z.div_mod (- n) d ltac:(lia)). assert (B := Z.mod_pos_bound (- n) d H). nia.
Qed.

Lemma trunc_spec : forall r, 0 < den r -> trunc r = if 0 <=? num r then floor r else ceil r.
Proof.
  intros [n d] H. unfold trunc, floor, ceil, divI, floorI, ceilI. cbn [num den fst snd] in *.
  destruct (Z.leb_spec 0 n).
  - apply Z.quot_div_nonneg; lia.
  - replace n with (- - n) at 1 by lia. rewrite Z.quot_opp_l by lia. f_equal. apply Z.quot_div_nonneg; lia.
Qed.

(* round: to nearest, ties away from zero *)
Lemma round_spec : forall x, 0 < den x ->
  round x = Z.sgn (num x) * ((2 * Z.abs (num x) + den x) / (2 * den x)).
Proof.
  intros [n d] H. unfold round, divmodI. cbn [num den fst snd] in *. rewrite absI_abs.
  set (a := Z.abs n). assert (Ha : 0 <= a) by apply Z.abs_nonneg.
  destruct (Z.gtb_spec d 0); [|lia].
  assert (A := Z.div_mod a d ltac:(lia)). assert (B := Z.mod_pos_bound a d H).
  set (q := a / d) in *. set (r := a mod d) in *.
  rewrite Z.shiftl_mul_pow2 by lia. change (2 ^ 1) with 2.
  destruct (cmpabsI_spec (r * 2) d) as (C1 & C2 & C3).
  rewrite (Z.abs_eq (r * 2)), (Z.abs_eq d) in * by lia.
  set (Q := (2 * a + d) / (2 * d)).
  assert (QA := Z.div_mod (2 * a + d) (2 * d) ltac:(lia)). assert (QB := Z.mod_pos_bound (2 * a + d) (2 * d) ltac:(lia)).
  fold Q in QA. set (R := (2 * a + d) mod (2 * d)) in *. clearbody Q R q r.
  assert (EQ : (if negb (r =? 0) && (cmpabsI (r * 2) d >=? 0) then q + 1 else q) = Q).
  { destruct (Z.eqb_spec r 0); cbn [negb andb].
    - subst r. nia.
    - destruct (Z.geb_spec (cmpabsI (r * 2) d) 0).
      + assert (d <= r * 2) by lia. nia.
      + assert (r * 2 < d) by lia. nia. }
  rewrite EQ. unfold a in *.
  destruct (Z.ltb_spec n 0).
  - rewrite Z.sgn_neg by lia. lia.
  - destruct (Z.eq_dec n 0) as [-> | Hn0].
    + cbn [Z.sgn Z.abs] in *. assert (Q = 0) by nia. lia.
    + rewrite Z.sgn_pos by lia. lia.
Qed.

(* ------------------------------------------------------------------ powers *)
Lemma canon_pow : forall x l, canon x -> 0 <= l -> canon (num x ^ l, den x ^ l).
Proof.
  intros [n d] l [H G] Hl. cbn [num den fst snd] in *. split; cbn [num den fst snd].
  - apply Z.pow_pos_nonneg; lia.
  - apply Zgcd_1_rel_prime. apply rel_prime_Zpower; try lia. apply Zgcd_1_rel_prime. exact G.
Qed.

Lemma toQ_pow_pos : forall x p, 0 < den x -> (toQ ((num x ^ Z.pos p)%Z, (den x ^ Z.pos p)%Z) == Qpower_positive (toQ x) p)%Q.
Proof.
  intros [n d] p H. cbn [num den fst snd] in *. unfold toQ at 2. cbn [num den fst snd].
  rewrite Qpower_decomp_positive. unfold toQ, Qeq. cbn [num den fst snd Qnum Qden].
  rewrite Pos2Z.inj_pow. rewrite !Z2Pos.id; try assumption; try reflexivity. apply Z.pow_pos_nonneg; lia.
Qed.

Lemma pow_u_spec : forall x l, canon x -> 0 <= l ->
  canon (pow_u x l) /\ (toQ (pow_u x l) == Qpower (toQ x) l)%Q.
Proof.
  intros x l C Hl. unfold pow_u, powI. split; [apply canon_pow; assumption|].
  destruct l as [|p|p]; [| |lia].
  - reflexivity.
  - apply toQ_pow_pos. apply C.
Qed.

Lemma pow_i64_spec : forall x y, canon x -> (y < 0 -> num x <> 0) ->
  canon (pow_i64 x y) /\ (toQ (pow_i64 x y) == Qpower (toQ x) y)%Q.
Proof.
  intros x y C Hn. unfold pow_i64, powI, signI.
  destruct (Z.geb_spec y 0) as [Hy | Hy].
  - rewrite Z.abs_eq by lia. apply (pow_u_spec x y C). lia.
  - specialize (Hn Hy). rewrite Z.abs_eq by lia.
    destruct y as [|p|p]; try lia. change (- Z.neg p) with (Z.pos p).
    destruct (canon_pow x (Z.pos p) C ltac:(lia)) as [PD G]. cbn [num den fst snd] in PD, G.
    assert (NZ : num x ^ Z.pos p <> 0) by (apply Z.pow_nonzero; lia).
    set (A := num x ^ Z.pos p) in *. set (B := den x ^ Z.pos p) in *.
    assert (EQ : (toQ (A, B) == Qpower_positive (toQ x) p)%Q) by (apply toQ_pow_pos; apply C).
    cbn [Qpower]. rewrite <- EQ. rewrite sgn_ltb.
    destruct (Z.ltb_spec A 0).
    + split.
      * split; cbn [num den fst snd]; [lia|]. apply cop_opp_l, cop_opp_r, cop_sym, G.
      * apply toQ_inv; cbn [num den fst snd]; try lia.
    + split.
      * split; cbn [num den fst snd]; [lia|]. apply cop_sym, G.
      * apply toQ_inv; cbn [num den fst snd]; try lia.
Qed.
