(* C10 — operator double / operator float (givrational.h): what exactly is computed.
   `((double)num)/((double)den)`: both members are first truncated to 53 significant bits by mpz_get_d, then ONE
   IEEE division rounds the quotient of the truncated values to nearest-even.  `rne_quot` is proved to be the unique
   round-to-nearest-even of the exact quotient; hence operator double is the correctly rounded value of num/den exactly
   when both members fit 53 bits, and is refuted to be so in general (the truncations are not undone). *)
From Coq Require Import ZArith Lia Bool.
From C10 Require Import Model ProofsBase.
Local Open Scope Z_scope.

Lemma p2pos : forall k, 0 <= k -> 0 < 2 ^ k.
Proof. intros. apply Z.pow_pos_nonneg; lia. Qed.

Lemma p2add : forall a b, 0 <= a -> 0 <= b -> 2 ^ (a + b) = 2 ^ a * 2 ^ b.
Proof. intros. apply Z.pow_add_r; assumption. Qed.

Lemma p2succ : forall a, 0 <= a -> 2 ^ (a + 1) = 2 * 2 ^ a.
Proof. intros. rewrite p2add by lia. change (2 ^ 1) with 2. ring. Qed.

Lemma p2le : forall a b, 0 <= a <= b -> 2 ^ a <= 2 ^ b.
Proof. intros. apply Z.pow_le_mono_r; lia. Qed.

Lemma log2_bounds : forall x, 0 < x -> 2 ^ Z.log2 x <= x < 2 * 2 ^ Z.log2 x.
Proof.
  intros x H. destruct (Z.log2_spec x H) as [L U]. rewrite <- Z.add_1_r in U. rewrite p2succ in U by apply Z.log2_nonneg. lia.
Qed.

(* ------------------------------------------------------------------ the binade and the scaled quotient *)
(* N0 = N * 2^-emin.  With e' = e - emin >= 0 and D' = D * 2^e', N0/D' = (N/D) / 2^e is the quotient in units of the
   last place; it lies in [2^(p-1), 2^p) for a normal result and below 2^p for e = emin (subnormal range). *)
Definition rne_e' (p N0 D : Z) : Z :=
  let k0 := Z.log2 N0 - Z.log2 D in
  let k := if k0 <=? 0 then 0 else if N0 <? D * 2 ^ k0 then k0 - 1 else k0 in
  Z.max (k - (p - 1)) 0.

Lemma rne_e'_spec : forall p N0 D, 1 <= p -> 0 < N0 -> 0 < D ->
  let e' := rne_e' p N0 D in
  0 <= e' /\ N0 < 2 ^ p * (D * 2 ^ e') /\ (0 < e' -> 2 ^ (p - 1) * (D * 2 ^ e') <= N0).
Proof.
  intros p N0 D Hp HN HD. unfold rne_e'. cbv zeta.
  assert (LN := log2_bounds N0 HN). assert (LD := log2_bounds D HD).
  assert (An := Z.log2_nonneg N0). assert (Ad := Z.log2_nonneg D).
  set (a := Z.log2 N0) in *. set (b := Z.log2 D) in *. clearbody a b.
  assert (Pa := p2pos a An). assert (Pb := p2pos b Ad).
  assert (Pp : 2 <= 2 ^ p). { replace p with ((p - 1) + 1) by lia. rewrite p2succ by lia. assert (Q := p2pos (p - 1) ltac:(lia)). lia. }
  destruct (Z.leb_spec (a - b) 0) as [K0 | K0].
  - (* N0/D < 2 *)
    rewrite Z.max_r by lia. change (2 ^ 0) with 1. split; [lia|]. split; [|lia].
    assert (M : 2 ^ a <= 2 ^ b) by (apply p2le; lia). nia.
  - assert (E : 2 ^ a = 2 ^ (a - b) * 2 ^ b) by (rewrite <- p2add by lia; f_equal; lia).
    set (k0 := a - b) in *. assert (Pk0 := p2pos k0 ltac:(lia)).
    assert (Ek0 : 2 ^ k0 = 2 * 2 ^ (k0 - 1)) by (rewrite <- p2succ by lia; f_equal; lia).
    assert (Pk1 := p2pos (k0 - 1) ltac:(lia)).
    (* 2^(k0-1) * D < N0 < 2^(k0+1) * D *)
    assert (Lo : 2 ^ (k0 - 1) * D < N0) by nia.
    assert (Hi : N0 < 2 * 2 ^ k0 * D) by nia.
    assert (G : forall k, 0 <= k -> 2 ^ k * D <= N0 -> N0 < 2 * 2 ^ k * D ->
                let e' := Z.max (k - (p - 1)) 0 in
                0 <= e' /\ N0 < 2 ^ p * (D * 2 ^ e') /\ (0 < e' -> 2 ^ (p - 1) * (D * 2 ^ e') <= N0)).
    { intros k Hk L U. cbv zeta. destruct (Z.max_spec (k - (p - 1)) 0) as [[C ->] | [C ->]].
      - change (2 ^ 0) with 1. split; [lia|]. split; [|lia].
        assert (M : 2 * 2 ^ k <= 2 ^ p). { rewrite <- p2succ by lia. apply p2le; lia. }
        nia.
      - split; [lia|].
        assert (E1 : 2 ^ p * 2 ^ (k - (p - 1)) = 2 * 2 ^ k). { rewrite <- p2add by lia. rewrite <- p2succ by lia. f_equal; lia. }
        assert (E2 : 2 ^ (p - 1) * 2 ^ (k - (p - 1)) = 2 ^ k). { rewrite <- p2add by lia. f_equal; lia. }
        split; [|intros _]; nia. }
    destruct (Z.ltb_spec N0 (D * 2 ^ k0)) as [C | C].
    + apply G; [lia | lia | nia].
    + apply G; [lia | lia | lia].
Qed.

Lemma rne_quot_unfold : forall p emin N D,
  rne_quot p emin N D =
  (let N0 := N * 2 ^ (- emin) in let e' := rne_e' p N0 D in let D' := D * 2 ^ e' in
   let q := N0 / D' in let r := N0 mod D' in
   ((if 2 * r <? D' then q else if D' <? 2 * r then q + 1 else if Z.even q then q else q + 1), e' + emin)).
Proof. reflexivity. Qed.

(* ------------------------------------------------------------------ rne_quot is round-to-nearest-even *)
(* m * 2^e with e = e' + emin; the error |N/D - m 2^e| <= 2^e / 2 reads |2 N0 - 2 m D'| <= D' after scaling by 2^-emin / D' *)
Definition Rne_stmt := forall p emin N D, 1 <= p -> emin <= 0 -> 0 < N -> 0 < D ->
  let m := fst (rne_quot p emin N D) in let e := snd (rne_quot p emin N D) in
  let N0 := N * 2 ^ (- emin) in let D' := D * 2 ^ (e - emin) in
  emin <= e /\ 0 < D' /\
  (* the exponent is the one of the format: quotient below 2^p ulps, and at least 2^(p-1) ulps unless e = emin *)
  N0 < 2 ^ p * D' /\ (emin < e -> 2 ^ (p - 1) * D' <= N0) /\
  (* the significand fits (2^p = carry into the next binade) *)
  0 <= m <= 2 ^ p /\
  (* nearest, ties to even *)
  Z.abs (2 * N0 - 2 * m * D') <= D' /\ (Z.abs (2 * N0 - 2 * m * D') = D' -> Z.even m = true) /\
  (* ... and it is the only integer with these two properties *)
  (forall m', Z.abs (2 * N0 - 2 * m' * D') <= D' -> (Z.abs (2 * N0 - 2 * m' * D') = D' -> Z.even m' = true) -> m' = m).
Lemma rne_thm : Rne_stmt.
Proof.
  intros p emin N D Hp He HN HD. rewrite rne_quot_unfold. cbv zeta. cbn [fst snd].
  assert (P0 := p2pos (- emin) ltac:(lia)).
  set (N0 := N * 2 ^ (- emin)). assert (HN0 : 0 < N0) by (unfold N0; nia).
  destruct (rne_e'_spec p N0 D Hp HN0 HD) as (E0 & U & L). set (e' := rne_e' p N0 D) in *. clearbody e'.
  replace (e' + emin - emin) with e' by lia.
  assert (Pe := p2pos e' E0). set (D' := D * 2 ^ e') in *. assert (HD' : 0 < D') by (unfold D'; nia).
  clearbody D' N0.
  assert (DM := Z.div_mod N0 D' ltac:(lia)). assert (MB := Z.mod_pos_bound N0 D' HD').
  set (q := N0 / D') in *. set (r := N0 mod D') in *. clearbody q r.
  assert (Q0 : 0 <= q) by nia.
  assert (QP : q < 2 ^ p) by nia.
  split; [lia|]. split; [exact HD'|]. split; [exact U|]. split; [intros; apply L; lia|].
  assert (EV : forall z, Z.even z = true -> Z.even (z + 1) = true -> False).
  { intros z A B. rewrite Z.even_add in B. rewrite A in B. discriminate. }
  assert (UNI : forall m, Z.abs (2 * N0 - 2 * m * D') <= D' -> m = q \/ m = q + 1).
  { intros m A. assert (m < q + 2) by nia. assert (q - 1 < m) by nia. lia. }
  destruct (Z.ltb_spec (2 * r) D') as [C1 | C1].
  { split; [lia|]. split; [nia|]. split; [intros A; exfalso; nia|].
    intros m' A B. destruct (UNI m' A) as [-> | ->]; [reflexivity | exfalso; nia]. }
  destruct (Z.ltb_spec D' (2 * r)) as [C2 | C2].
  { split; [lia|]. split; [nia|]. split; [intros A; exfalso; nia|].
    intros m' A B. destruct (UNI m' A) as [-> | ->]; [exfalso; nia | reflexivity]. }
  assert (T : 2 * r = D') by lia.
  destruct (Z.even q) eqn:Eq.
  { split; [lia|]. split; [nia|]. split; [intros _; exact Eq|].
    intros m' A B. destruct (UNI m' A) as [-> | ->]; [reflexivity|]. exfalso. apply (EV q Eq). apply B. nia. }
  split; [lia|]. split; [nia|].
  assert (Eq1 : Z.even (q + 1) = true). { rewrite Z.even_add, Eq. reflexivity. }
  split; [intros _; exact Eq1|].
  intros m' A B. destruct (UNI m' A) as [-> | ->]; [|reflexivity]. exfalso. rewrite B in Eq; [discriminate | nia].
Qed.

(* ------------------------------------------------------------------ mpz_get_d: truncation to p bits *)
Definition Trunc_bits_stmt := forall p a, 1 <= p -> 0 < a ->
  let t := trunc_bits p a in let s := Z.max (Z.log2 a + 1 - p) 0 in
  (* toward zero, by less than one unit of the p-th bit; nothing happens below 2^p; the result has p significant bits *)
  t <= a < t + 2 ^ s /\ (a < 2 ^ p -> t = a) /\ (2 ^ s | t) /\ 2 ^ Z.log2 a <= t /\ Z.log2 t = Z.log2 a.
Lemma trunc_bits_thm : Trunc_bits_stmt.
Proof.
  intros p a Hp Ha. unfold trunc_bits. cbv zeta.
  assert (LB := log2_bounds a Ha). assert (Ln := Z.log2_nonneg a). set (l := Z.log2 a) in *.
  assert (LT : forall t, 2 ^ l <= t <= a -> Z.log2 t = l).
  { intros t Ht. apply Z.log2_unique; [exact Ln|]. rewrite <- Z.add_1_r, p2succ by lia. lia. }
  destruct (Z.leb_spec (l + 1 - p) 0) as [C | C].
  - rewrite Z.max_r by lia. change (2 ^ 0) with 1. split; [lia|]. split; [reflexivity|]. split; [apply Z.divide_1_l|].
    split; [lia | reflexivity].
  - rewrite Z.max_l by lia. set (s := l + 1 - p) in *.
    assert (Ps := p2pos s ltac:(lia)).
    assert (DM := Z.div_mod a (2 ^ s) ltac:(lia)). assert (MB := Z.mod_pos_bound a (2 ^ s) Ps).
    assert (E : 2 ^ l = 2 ^ (p - 1) * 2 ^ s) by (rewrite <- p2add by lia; f_equal; lia).
    assert (Pp := p2pos (p - 1) ltac:(lia)).
    set (q := a / 2 ^ s) in *. set (r := a mod 2 ^ s) in *. clearbody q r.
    assert (Q : 2 ^ (p - 1) <= q) by nia.
    split; [lia|]. split.
    { intros Hlt. exfalso. assert (M : 2 ^ p <= 2 ^ l) by (apply p2le; lia). lia. }
    split; [exists q; ring|]. assert (B : 2 ^ l <= q * 2 ^ s) by nia. split; [exact B|]. apply LT. lia.
Qed.

(* ------------------------------------------------------------------ operator double / float *)
Definition dbl_of (neg : bool) (N D : Z) : Z := encode 53 (-1074) 11 neg (rne_quot 53 (-1074) N D).
Definition flt_of (neg : bool) (N D : Z) : Z := encode 24 (-149) 8 neg (rne_quot 24 (-149) N D).

Definition To_double_stmt := forall r, 0 < den r -> Z.abs (num r) < 2 ^ 1024 -> den r < 2 ^ 1024 ->
  (num r = 0 -> to_double r = Some 0) /\
  (* what the code computes: the correctly rounded quotient of the two TRUNCATED members *)
  (num r <> 0 -> to_double r = Some (dbl_of (num r <? 0) (trunc_bits 53 (Z.abs (num r))) (trunc_bits 53 (den r)))) /\
  (* hence the correctly rounded value of num/den itself whenever both members fit the 53-bit significand *)
  (num r <> 0 -> Z.abs (num r) < 2 ^ 53 -> den r < 2 ^ 53 -> to_double r = Some (dbl_of (num r <? 0) (Z.abs (num r)) (den r))).
Lemma to_double_thm : To_double_stmt.
Proof.
  intros [n d] Hd Hn Hd2. cbn [num den fst snd] in *. unfold to_double. cbn [num den fst snd]. cbv zeta.
  rewrite (Z.abs_eq d) by lia.
  destruct (Z.leb_spec (2 ^ 1024) (Z.abs n)); [lia|]. destruct (Z.leb_spec (2 ^ 1024) d); [lia|]. cbn [orb].
  split. { intros ->. reflexivity. }
  split.
  { intros Nz. destruct (Z.eqb_spec (Z.abs n) 0); [lia|]. reflexivity. }
  intros Nz Bn Bd. destruct (Z.eqb_spec (Z.abs n) 0); [lia|].
  rewrite (proj1 (proj2 (trunc_bits_thm 53 (Z.abs n) ltac:(lia) ltac:(lia))) Bn).
  rewrite (proj1 (proj2 (trunc_bits_thm 53 d ltac:(lia) ltac:(lia))) Bd). reflexivity.
Qed.

Definition To_float_stmt := forall r, 0 < den r -> Z.abs (num r) < 2 ^ 24 -> den r < 2 ^ 24 ->
  (num r = 0 -> to_float r = Some 0) /\
  (num r <> 0 -> to_float r = Some (flt_of (num r <? 0) (Z.abs (num r)) (den r))).
(* get_f is the identity below 2^24 *)
Lemma rne_exact_int : forall a, 0 < a < 2 ^ 24 -> get_f a = a.
Proof.
  intros a Ha. unfold get_f.
  assert (B24 : (2 ^ 24 : Z) <= 2 ^ 53) by (apply p2le; lia).
  rewrite (proj1 (proj2 (trunc_bits_thm 53 a ltac:(lia) ltac:(lia)))) by lia.
  assert (R := rne_thm 24 (-149) a 1 ltac:(lia) ltac:(lia) ltac:(lia) ltac:(lia)). cbv zeta in R.
  destruct (rne_quot 24 (-149) a 1) as [m e] eqn:E. cbn [fst snd] in R.
  destruct R as (Ee & PD & U & L & Mb & Near & Tie & Uni).
  change (- -149) with 149 in *. rewrite Z.mul_1_l in *.
  unfold int_of_me.
  (* a * 2^149 is an exact multiple of D' = 2^(e+149) because e + 149 <= 149 *)
  assert (Ele : e <= 0).
  { destruct (Z.le_gt_cases e 0) as [C | C]; [exact C | exfalso].
    assert (L' := L ltac:(lia)). assert (X : 2 ^ (e - -149) = 2 ^ 149 * 2 ^ e) by (rewrite <- p2add by lia; f_equal; lia).
    rewrite X in L'. assert (P149 := p2pos 149 ltac:(lia)). assert (Pe : 2 <= 2 ^ e).
    { replace e with ((e - 1) + 1) by lia. rewrite p2succ by lia. assert (Q := p2pos (e - 1) ltac:(lia)). lia. }
    change (2 ^ (24 - 1)) with 8388608 in L'. change (2 ^ 24) with 16777216 in Ha. nia. }
  assert (X : 2 ^ 149 = 2 ^ (e - -149) * 2 ^ (- e)) by (rewrite <- p2add by lia; f_equal; lia).
  assert (Pne := p2pos (- e) ltac:(lia)).
  assert (M : m = a * 2 ^ (- e)).
  { symmetry. apply Uni.
    - rewrite X. replace (2 * (a * (2 ^ (e - -149) * 2 ^ (- e))) - 2 * (a * 2 ^ (- e)) * 2 ^ (e - -149)) with 0 by ring. cbn. lia.
    - rewrite X. replace (2 * (a * (2 ^ (e - -149) * 2 ^ (- e))) - 2 * (a * 2 ^ (- e)) * 2 ^ (e - -149)) with 0 by ring. cbn. lia. }
  destruct (Z.geb_spec e 0) as [C | C].
  - assert (e = 0) by lia. subst e. change (2 ^ (- 0)) with 1 in M. change (2 ^ 0) with 1. lia.
  - rewrite M. apply Z.div_mul. lia.
Qed.
Lemma to_float_thm : To_float_stmt.
Proof.
  intros [n d] Hd Hn Hd2. cbn [num den fst snd] in *. unfold to_float. cbn [num den fst snd]. cbv zeta.
  rewrite (Z.abs_eq d) by lia.
  assert (B1 : (2 ^ 24 : Z) < 2 ^ 1024) by (apply Z.pow_lt_mono_r; lia).
  assert (B2 : (2 ^ 24 : Z) < 2 ^ 128) by (apply Z.pow_lt_mono_r; lia).
  destruct (Z.leb_spec (2 ^ 1024) (Z.abs n)); [lia|]. destruct (Z.leb_spec (2 ^ 1024) d); [lia|]. cbn [orb].
  split. { intros ->. reflexivity. }
  intros Nz. destruct (Z.eqb_spec (Z.abs n) 0); [lia|].
  rewrite !rne_exact_int by lia.
  destruct (Z.leb_spec (2 ^ 128) (Z.abs n)); [lia|]. destruct (Z.leb_spec (2 ^ 128) d); [lia|]. reflexivity.
Qed.

(* operator double is NOT the correctly rounded value of num/den in general: (2^54+3)/1 is converted to 2^54,
   the nearest double is 2^54+4 *)
Definition To_double_not_correctly_rounded_stmt :=
  exists r, canon r /\ num r <> 0 /\ to_double r <> Some (dbl_of (num r <? 0) (Z.abs (num r)) (den r)).
Lemma to_double_not_correctly_rounded_thm : To_double_not_correctly_rounded_stmt.
Proof.
  exists (2 ^ 54 + 3, 1). split; [split; [cbn; lia | reflexivity]|]. split; [cbn; discriminate|].
  vm_compute. intros H. discriminate H.
Qed.

(* examples: 1/3, -1/3 as double; 1/3 as float; the smallest positive value reachable 1/(2^1024-1) is subnormal *)
Example to_double_examples :
  to_double (1, 3) = Some 0x3fd5555555555555 /\ to_double (-1, 3) = Some 0xbfd5555555555555 /\
  to_float (1, 3) = Some 0x3eaaaaab /\ to_double (1, 2 ^ 1023) = Some 0x0008000000000000 /\ to_double (0, 1) = Some 0 /\
  to_double (2 ^ 54 + 3, 1) = Some 0x4350000000000000.
Proof. repeat split; vm_compute; reflexivity. Qed.

(* Rational(x) followed by operator double does NOT give x back for every finite double: below about 2^-972 the stored
   denominator 2^(1075-e) exceeds the range of mpz_get_d (documented as system dependent there: None in the model;
   the compiled code yields infinity, hence the quotient 0).  Example: exponent field 41, mantissa field 1. *)
Definition Double_roundtrip_limit_stmt :=
  exists sgn e m x, 0 <= e <= 2046 /\ 0 <= m < 2 ^ 52 /\ of_double true sgn e m = Some x /\ canon x /\ to_double x = None.
Lemma double_roundtrip_limit_thm : Double_roundtrip_limit_stmt.
Proof.
  exists false, 41, 1, (2 ^ 52 + 1, 2 ^ 1034). split; [lia|]. split; [split; [lia | reflexivity]|].
  split; [vm_compute; reflexivity|]. split; [split; [cbn; apply p2pos; lia | vm_compute; reflexivity]|].
  vm_compute. reflexivity.
Qed.
