(* C10 — conversion operators to integer types, print, operator% (givrational.h, givratio.C, givratmuldiv.C). *)
From Coq Require Import ZArith Znumtheory QArith Lia Bool.
From C10 Require Import Model ProofsBase ProofsCtor.
Local Open Scope Z_scope.

(* (T)(num/den) is trunc: toward zero *)
Definition Conv_int_stmt := forall x, 0 < den x ->
  conv_int x = trunc x /\ conv_int x = (if 0 <=? num x then floor x else ceil x) /\
  (canon x -> den x = 1 -> conv_int x = num x).
Lemma conv_int_thm : Conv_int_stmt.
Proof.
  intros x H. split; [reflexivity|]. split; [apply (trunc_spec x H)|].
  intros _ E. unfold conv_int, divI. rewrite E. apply Z.quot_1_r.
Qed.

(* print shows a denominator exactly when the (canonical) value is not an integer *)
Definition Print_stmt := forall x, canon x ->
  (print_den x = None <-> den x = 1) /\ (forall d, print_den x = Some d -> d = den x /\ 1 < d).
Lemma print_thm : Print_stmt.
Proof.
  intros [n d] [H G]. unfold print_den. cbn [num den fst snd] in *.
  destruct (Z.gtb_spec d 1) as [L | L].
  - split.
    + split; intros E; [discriminate | lia].
    + intros d' E. inversion E. subst. lia.
  - split.
    + split; intros E; [lia | reflexivity].
    + intros d' E. discriminate.
Qed.

(* the invariant of the extended Euclid loop: s * a = r (mod m) for both rows *)
Lemma inv_loop_inv : forall a m n r0 r1 s0 s1,
  (m | s0 * a - r0) -> (m | s1 * a - r1) ->
  (m | snd (inv_loop n r0 r1 s0 s1) * a - fst (inv_loop n r0 r1 s0 s1)).
Proof.
  intros a m n. induction n as [|n IH]; intros r0 r1 s0 s1 H0 H1; cbn [inv_loop fst snd].
  - exact H0.
  - destruct (r1 =? 0); cbn [fst snd]; [exact H0|].
    apply IH; [exact H1|].
    replace ((s0 - r0 / r1 * s1) * a - (r0 - r0 / r1 * r1)) with ((s0 * a - r0) - (r0 / r1) * (s1 * a - r1)) by ring.
    apply Z.divide_sub_r; [exact H0 | apply Z.divide_mul_r; exact H1].
Qed.

Lemma invmodI_sound : forall a m i, m <> 0 -> invmodI a m = Some i ->
  0 <= i < Z.abs m /\ (m | i * a - 1).
Proof.
  intros a m i Hm. unfold invmodI. cbv zeta.
  set (m' := Z.abs m). assert (Hm' : 0 < m') by (unfold m'; lia).
  set (gs := inv_loop (Z.to_nat (2 * Z.log2 m' + 4)) m' (a mod m') 0 1).
  assert (Inv : (m' | snd gs * a - fst gs)).
  { apply inv_loop_inv.
    - exists (-1). ring.
    - exists (a / m'). assert (E := Z.div_mod a m' ltac:(lia)). lia. }
  destruct (Z.eqb_spec (fst gs) 1) as [E1 | E1]; [|discriminate].
  intros E. inversion E as [Ei]. clear E. rewrite E1 in Inv.
  split; [apply Z.mod_pos_bound; exact Hm'|].
  assert (D : (m' | snd gs mod m' * a - 1)).
  { destruct Inv as [k Hk]. exists (k - (snd gs / m') * a).
    assert (E := Z.div_mod (snd gs) m' ltac:(lia)). nia. }
  apply Z.divide_abs_l. exact D.
Qed.

(* x % r: None = exception for r = 0; a value v is congruent to num/den modulo r: v * den = num (mod r).
   _partial: that a value IS returned whenever gcd(den, r) = 1 (the loop's fuel suffices) is correspondence-tested,
   full statement:  forall x r, r <> 0 -> Z.gcd (den x) r = 1 -> exists v, rmod x r = Some (Some v) /\ (r | v * den x - num x). *)
Definition Mod_partial_stmt := forall x r,
  (r = 0 -> rmod x r = None) /\
  (forall v, rmod x r = Some (Some v) -> r <> 0 /\ (r | v * den x - num x)).
Lemma mod_partial_thm : Mod_partial_stmt.
Proof.
  intros [n d] r. unfold rmod, isZeroI. cbn [num den fst snd]. split.
  - intros ->. reflexivity.
  - intros v. destruct (Z.eqb_spec r 0) as [-> | Hr]; [discriminate|].
    destruct (Z.eqb_spec n 0) as [-> | Hn].
    + intros E. inversion E. split; [exact Hr|]. exists 0. ring.
    + destruct (invmodI d r) as [i|] eqn:Ei; [|discriminate].
      intros E. inversion E. split; [exact Hr|].
      destruct (invmodI_sound d r i Hr Ei) as [_ [k Hk]]. exists (k * n). nia.
Qed.

Example mod_example : rmod (3, 7) 10 = Some (Some 9) /\ rmod (3, 7) 0 = None /\ rmod (1, 2) 4 = Some None /\ rmod (-5, 3) (-7) = Some (Some (-25)).
Proof. vm_compute. repeat split. Qed.
