(* C10 — conversion operators to integer types, print, operator% (givrational.h, givratio.C, givratmuldiv.C). *)
From Coq Require Import ZArith Znumtheory QArith Lia Bool.
From C10 Require Import Model ProofsBase ProofsCtor.
Local Open Scope Z_scope.

(* (T)(num/den) is trunc: toward zero.  The first conjunct is definitional (conv_int and trunc have the same body); the statement
   with the range of T and the cast, and with trunc characterised by |v| <= |x| < |v|+1, is Conv_int_T_stmt (ProofsAudit.v) *)
Definition Conv_int_stmt := forall x, 0 < den x ->
  conv_int x = trunc x /\ conv_int x = (if 0 <=? num x then floor x else ceil x) /\
  (canon x -> den x = 1 -> conv_int x = num x).
Lemma conv_int_thm : Conv_int_stmt.
Proof.
  intros x H. split; [reflexivity|]. split; [apply (trunc_spec x H)|].
  intros _ E. unfold conv_int, divI. rewrite E. apply Z.quot_1_r.
Qed.

(* print shows a denominator exactly when the (canonical) value is not an integer *)
Definition Print_stmt := forall x, canon x ->
  (print_den x = None <-> den x = 1) /\ (forall d, print_den x = Some d -> d = den x /\ 1 < d).
Lemma print_thm : Print_stmt.
Proof.
  intros [n d] [H G]. unfold print_den. cbn [num den fst snd] in *.
  destruct (Z.gtb_spec d 1) as [L | L].
  - split.
    + split; intros E; [discriminate | lia].
    + intros d' E. inversion E. subst. lia.
  - split.
    + split; intros E; [lia | reflexivity].
    + intros d' E. discriminate.
Qed.

(* the invariant of the extended Euclid loop: s * a = r (mod m) for both rows *)
Lemma inv_loop_inv : forall a m n r0 r1 s0 s1,
  (m | s0 * a - r0) -> (m | s1 * a - r1) ->
  (m | snd (inv_loop n r0 r1 s0 s1) * a - fst (inv_loop n r0 r1 s0 s1)).
Proof.
  intros a m n. induction n as [|n IH]; intros r0 r1 s0 s1 H0 H1; cbn [inv_loop fst snd].
  - exact H0.
  - destruct (r1 =? 0); cbn [fst snd]; [exact H0|].
    apply IH; [exact H1|].
    replace ((s0 - r0 / r1 * s1) * a - (r0 - r0 / r1 * r1)) with ((s0 * a - r0) - (r0 / r1) * (s1 * a - r1)) by ring.
    apply Z.divide_sub_r; [exact H0 | apply Z.divide_mul_r; exact H1].
Qed.

Lemma invmodI_sound : forall a m i, m <> 0 -> invmodI a m = Some i ->
  0 <= i < Z.abs m /\ (m | i * a - 1).
Proof.
  intros a m i Hm. unfold invmodI. cbv zeta.
  set (m' := Z.abs m). assert (Hm' : 0 < m') by (unfold m'; lia).
  set (gs := inv_loop (Z.to_nat (2 * Z.log2 m' + 4)) m' (a mod m') 0 1).
  assert (Inv : (m' | snd gs * a - fst gs)).
  { apply inv_loop_inv.
    - exists (-1). ring.
    - exists (a / m'). assert (E := Z.div_mod a m' ltac:(lia)). lia. }
  destruct (Z.eqb_spec (fst gs) 1) as [E1 | E1]; [|discriminate].
  intros E. inversion E as [Ei]. clear E. rewrite E1 in Inv.
  split; [apply Z.mod_pos_bound; exact Hm'|].
  assert (D : (m' | snd gs mod m' * a - 1)).
  { destruct Inv as [k Hk]. exists (k - (snd gs / m') * a).
    assert (E := Z.div_mod (snd gs) m' ltac:(lia)). nia. }
  apply Z.divide_abs_l. exact D.
Qed.

(* the loop terminates within the fuel: the product r0*r1 at least halves at every step; it then returns the gcd *)
Lemma inv_loop_gcd : forall n r0 r1 s0 s1, 0 <= r1 < r0 -> r0 * r1 < 2 ^ Z.of_nat n ->
  fst (inv_loop n r0 r1 s0 s1) = Z.gcd r0 r1.
Proof.
  induction n as [|n IH]; intros r0 r1 s0 s1 H P.
  - cbn [inv_loop fst]. change (2 ^ Z.of_nat 0) with 1 in P. assert (r1 = 0) by nia. subst r1.
    rewrite Z.gcd_0_r. lia.
  - cbn [inv_loop]. destruct (Z.eqb_spec r1 0) as [-> | N]; cbn [fst].
    + rewrite Z.gcd_0_r. lia.
    + assert (E := Z.div_mod r0 r1 N). assert (B := Z.mod_pos_bound r0 r1 ltac:(lia)).
      assert (Q : 1 <= r0 / r1) by (apply Z.div_le_lower_bound; lia).
      replace (r0 - r0 / r1 * r1) with (r0 mod r1) by lia.
      rewrite IH.
      * rewrite Z.gcd_comm. rewrite Z.gcd_mod by exact N. apply Z.gcd_comm.
      * lia.
      * rewrite Nat2Z.inj_succ, Z.pow_succ_r in P by lia.
        assert (2 * (r0 mod r1) <= r0) by nia. nia.
Qed.

Lemma invmodI_complete : forall a m, m <> 0 -> Z.gcd a m = 1 -> exists i, invmodI a m = Some i.
Proof.
  intros a m Hm G. unfold invmodI. cbv zeta.
  set (m' := Z.abs m). assert (Hm' : 0 < m') by (unfold m'; lia).
  assert (B := Z.mod_pos_bound a m' Hm').
  rewrite inv_loop_gcd.
  - rewrite Z.gcd_comm, Z.gcd_mod by lia. unfold m'. rewrite Z.gcd_abs_l, Z.gcd_comm, G. cbn. eexists; reflexivity.
  - lia.
  - rewrite Z2Nat.id by (assert (0 <= Z.log2 m') by apply Z.log2_nonneg; lia).
    assert (L : m' < 2 ^ (Z.log2 m' + 1)) by (rewrite Z.add_1_r; apply (Z.log2_spec m' Hm')).
    assert (0 <= Z.log2 m') by apply Z.log2_nonneg.
    replace (2 * Z.log2 m' + 4) with ((Z.log2 m' + 1) + (Z.log2 m' + 1) + 2) by ring.
    set (e := Z.log2 m' + 1) in *. assert (0 <= e) by (unfold e; lia).
    rewrite !Z.pow_add_r by lia. change (2 ^ 2) with 4.
    set (p := 2 ^ e) in *. clearbody p. nia.
Qed.

(* x % r: None = exception for r = 0; for r <> 0 coprime to the denominator a value v is returned with
   v * den = num (mod r), i.e. v is congruent to num/den modulo r (v is num * (den^-1 mod |r|), not reduced) *)
Definition Mod_stmt := forall x r,
  (r = 0 -> rmod x r = None) /\
  (forall v, rmod x r = Some (Some v) -> r <> 0 /\ (r | v * den x - num x)) /\
  (r <> 0 -> Z.gcd (den x) r = 1 -> exists v, rmod x r = Some (Some v)).
Lemma mod_thm : Mod_stmt.
Proof.
  intros [n d] r. unfold rmod, isZeroI. cbn [num den fst snd]. split; [|split].
  - intros ->. reflexivity.
  - intros v. destruct (Z.eqb_spec r 0) as [-> | Hr]; [discriminate|].
    destruct (Z.eqb_spec n 0) as [-> | Hn].
    + intros E. inversion E. split; [exact Hr|]. exists 0. ring.
    + destruct (invmodI d r) as [i|] eqn:Ei; [|discriminate].
      intros E. inversion E. split; [exact Hr|].
      destruct (invmodI_sound d r i Hr Ei) as [_ [k Hk]]. exists (k * n). nia.
  - intros Hr G. destruct (Z.eqb_spec r 0); [contradiction|].
    destruct (Z.eqb_spec n 0); [eexists; reflexivity|].
    destruct (invmodI_complete d r Hr G) as [i Ei]. rewrite Ei. eexists; reflexivity.
Qed.

Example mod_example : rmod (3, 7) 10 = Some (Some 9) /\ rmod (3, 7) 0 = None /\ rmod (1, 2) 4 = Some None /\ rmod (-5, 3) (-7) = Some (Some (-25)).
Proof. vm_compute. repeat split. Qed.
