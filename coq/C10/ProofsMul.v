(* C10 — operator* / operator/ / *= / /=  (givratmuldiv.C), every branch, including x *= x and x /= x. *)
From Coq Require Import ZArith Znumtheory QArith Lia Bool.
From C10 Require Import Model ProofsBase.
Local Open Scope Z_scope.

(* cross cancellation: (n1/g1)*(n2/g2) over (d1/g2)*(d2/g1) with g1 = gcd(n1,d2), g2 = gcd(d1,n2) *)
Lemma mul_core : forall nt dt nr dr, 0 < dt -> 0 < dr -> Z.gcd nt dt = 1 -> Z.gcd nr dr = 1 ->
  let d1 := Z.gcd nt dr in let d2 := Z.gcd dt nr in
  let N := Z.quot nt d1 * Z.quot nr d2 in
  let D := Z.quot dt d2 * Z.quot dr d1 in
  0 < D /\ Z.gcd N D = 1 /\ N * (dt * dr) = nt * nr * D.
Proof.
  intros nt dt nr dr Hdt Hdr Gt Gr d1 d2.
  destruct (gcd_decomp nt dr (gcd_pos_r _ _ Hdr)) as (EA & EB & GAB & Hd1). fold d1 in EA, EB, GAB, Hd1.
  destruct (gcd_decomp dt nr) as (EC & EE & GCE & Hd2). { apply gcd_pos_l; lia. } fold d2 in EC, EE, GCE, Hd2.
  set (A := Z.quot nt d1) in *. set (B := Z.quot dr d1) in *.
  set (C := Z.quot dt d2) in *. set (E := Z.quot nr d2) in *.
  cbv zeta.
  assert (HB : 0 < B) by nia. assert (HC : 0 < C) by nia.
  split; [nia|]. split.
  - apply cop4; [exact GAB | | | apply cop_sym; exact GCE].
    + apply cop_div with nt dt; [exact Gt | exists d1; lia | exists d2; lia].
    + apply cop_div with nr dr; [exact Gr | exists d2; lia | exists d1; lia].
  - clearbody A B C E. clearbody d1 d2. subst nt dr dt nr. ring.
Qed.

(* the same cancellation for a quotient: g1 = gcd(n1,n2), g2 = gcd(d1,d2) *)
Lemma div_core : forall nt dt nr dr, 0 < dt -> 0 < dr -> nr <> 0 -> Z.gcd nt dt = 1 -> Z.gcd nr dr = 1 ->
  let d1 := Z.gcd nt nr in let d2 := Z.gcd dt dr in
  let N0 := Z.quot nt d1 * Z.quot dr d2 in
  let D0 := Z.quot dt d2 * Z.quot nr d1 in
  Z.gcd N0 D0 = 1 /\ N0 * (dt * nr) = nt * dr * D0 /\ (0 < nr -> 0 < D0) /\ (nr < 0 -> D0 < 0).
Proof.
  intros nt dt nr dr Hdt Hdr Hnr Gt Gr d1 d2.
  destruct (gcd_decomp nt nr) as (EA & EE & GAE & Hd1). { rewrite Z.gcd_comm. apply gcd_pos_l; exact Hnr. }
  fold d1 in EA, EE, GAE, Hd1.
  destruct (gcd_decomp dt dr (gcd_pos_r _ _ Hdr)) as (EC & EB & GCB & Hd2). fold d2 in EC, EB, GCB, Hd2.
  set (A := Z.quot nt d1) in *. set (E := Z.quot nr d1) in *.
  set (C := Z.quot dt d2) in *. set (B := Z.quot dr d2) in *.
  cbv zeta.
  assert (HB : 0 < B) by nia. assert (HC : 0 < C) by nia.
  split; [| split; [| split; nia]].
  - (* gcd (A*B) (C*E) *)
    apply cop4; [exact GAE | | | apply cop_sym; exact GCB].
    + apply cop_div with nt dt; [exact Gt | exists d1; lia | exists d2; lia].
    + apply cop_sym. apply cop_div with nr dr; [exact Gr | exists d1; lia | exists d2; lia].
  - clearbody A B C E. clearbody d1 d2. subst nt dr dt nr. ring.
Qed.

Definition mul_post (red : bool) (t r x : rat) : Prop :=
  0 < den x /\ (red = true -> canon x) /\ num x * (den t * den r) = num t * num r * den x.

Definition div_post (red : bool) (t r x : rat) : Prop :=
  0 < den x /\ (red = true -> canon x) /\ num x * (den t * num r) = num t * den r * den x.

Lemma canon_mul_samesq : forall nt nr d, 0 < d -> Z.gcd nt d = 1 -> Z.gcd nr d = 1 -> canon (nt * nr, d * d).
Proof.
  intros nt nr d Hd G1 G2. split; cbn [num den fst snd]; [nia|].
  apply cop_mul_l; apply cop_mul_r; assumption.
Qed.

Lemma isZero_true : forall r, isZero r = true -> num r = 0.
Proof. intros [n d]; unfold isZero, isZeroI; cbn [num fst]. apply Z.eqb_eq. Qed.
Lemma isZero_false : forall r, isZero r = false -> num r <> 0.
Proof. intros [n d]; unfold isZero, isZeroI; cbn [num fst]. apply Z.eqb_neq. Qed.
Lemma isOne_true : forall r, isOne r = true -> r = (1, 1).
Proof.
  intros [n d]; unfold isOne, isOneI; cbn [num den fst snd]. intros H. apply andb_prop in H. destruct H as [H1 H2].
  apply Z.eqb_eq in H1, H2. congruence.
Qed.
Lemma isInteger_true : forall r, isInteger r = true -> den r = 1.
Proof. intros [n d]; unfold isInteger, isOneI; cbn [den snd]. apply Z.eqb_eq. Qed.

(* the three last branches of operator* (equal denominators / NoReduce / cross cancellation) *)
Definition rmul_tail (red : bool) (t r : rat) : rat :=
  if cmpabsI (den t) (den r) =? 0 then nd0 (num t * num r) (den t * den r) else
  if negb red then nd0 (num t * num r) (den t * den r) else
  let d1 := gcdI (num t) (den r) in
  let d2 := gcdI (den t) (num r) in
  nd0 (divI (num t) d1 * divI (num r) d2) (divI (den t) d2 * divI (den r) d1).

Lemma rmul_tail_post : forall red t r, 0 < den t -> 0 < den r -> (red = true -> canon t /\ canon r) ->
  mul_post red t r (rmul_tail red t r) /\
  (red = true -> rmul_tail red t r =
     if den t =? den r then (num t * num r, den t * den r)
     else (Z.quot (num t) (Z.gcd (num t) (den r)) * Z.quot (num r) (Z.gcd (den t) (num r)),
           Z.quot (den t) (Z.gcd (den t) (num r)) * Z.quot (den r) (Z.gcd (num t) (den r)))).
Proof.
  intros red [nt dt] [nr dr] Ht Hr Hc. unfold rmul_tail, mul_post, gcdI, divI. cbn [num den fst snd] in *.
  rewrite cmpabsI_eqb by assumption.
  destruct (Z.eqb_spec dt dr) as [-> | Hne].
  { assert (Cq : red = true -> canon (nt * nr, dr * dr)).
    { intros E. destruct (Hc E) as [[_ G1] [_ G2]]. apply canon_mul_samesq; assumption. }
    destruct red.
    - rewrite (nd0_canon _ _ (Cq eq_refl)). cbn [num den fst snd]. split; [|reflexivity]. split; [nia|]. split; [exact Cq | ring].
    - split; [|discriminate]. destruct (nd0_spec (nt * nr) (dr * dr)) as (P & S & _); [nia|]. split; [exact P|]. split; [discriminate|].
      unfold same in S; cbn [num den fst snd] in S. nia. }
  destruct red; cbn [negb].
  - destruct (Hc eq_refl) as [[_ Gt] [_ Gr]]. cbn [num den fst snd] in *.
    destruct (mul_core nt dt nr dr Ht Hr Gt Gr) as (PD & GD & V). cbv zeta in PD, GD, V.
    match goal with |- context [nd0 ?n ?d] => assert (C : canon (n, d)) by (split; cbn [num den fst snd]; assumption) end.
    rewrite (nd0_canon _ _ C). cbn [num den fst snd]. split; [|reflexivity]. split; [exact PD|]. split; [intros _; exact C | exact V].
  - split; [|discriminate]. destruct (nd0_spec (nt * nr) (dt * dr)) as (P & S & _); [nia|]. split; [exact P|]. split; [discriminate|].
    unfold same in S; cbn [num den fst snd] in S. nia.
Qed.

Lemma rmul_unfold : forall red t r, rmul red t r =
  if isZero r then mk_word 0 else if isZero t then mk_word 0 else if isOne r then t else if isOne t then r else
  if isInteger t && isInteger r then mk_int (num t * num r) else rmul_tail red t r.
Proof. reflexivity. Qed.

Lemma rmul_post : forall red t r, 0 < den t -> 0 < den r -> (red = true -> canon t /\ canon r) ->
  mul_post red t r (rmul red t r).
Proof.
  intros red t r Ht Hr Hc. rewrite rmul_unfold. unfold mk_word.
  destruct (isZero r) eqn:Zr.
  { apply isZero_true in Zr. unfold mul_post; cbn [num den fst snd]. rewrite Zr. split; [lia|]. split; [intros _; apply canon_01 | ring]. }
  destruct (isZero t) eqn:Zt.
  { apply isZero_true in Zt. unfold mul_post; cbn [num den fst snd]. rewrite Zt. split; [lia|]. split; [intros _; apply canon_01 | ring]. }
  destruct (isOne r) eqn:Or.
  { apply isOne_true in Or. subst r. unfold mul_post; cbn [num den fst snd]. split; [exact Ht|]. split; [intros E; apply Hc; exact E | ring]. }
  destruct (isOne t) eqn:Ot.
  { apply isOne_true in Ot. subst t. unfold mul_post; cbn [num den fst snd]. split; [exact Hr|]. split; [intros E; apply Hc; exact E | ring]. }
  destruct (isInteger t && isInteger r) eqn:I.
  { apply andb_prop in I. destruct I as [I1 I2]. apply isInteger_true in I1, I2.
    destruct (mk_int_canon (num t * num r)) as (C & En & Ed). unfold mul_post. rewrite En, Ed, I1, I2.
    split; [lia|]. split; [intros _; exact C | ring]. }
  apply rmul_tail_post; assumption.
Qed.

(* ------------------------------------------------------------------ operator/ *)
Definition rdiv_tail (red : bool) (t r : rat) : option rat :=
  if cmpabsI (den t) (den r) =? 0 then mk_nd (num t) (num r) 1 else
  if negb red then mk_nd (num t * den r) (den t * num r) 0 else
  let d1 := gcdI (num t) (num r) in
  let d2 := gcdI (den t) (den r) in
  let resnum := divI (num t) d1 * divI (den r) d2 in
  let resnum := if signI (num r) <? 0 then - resnum else resnum in
  let resden := divI (den t) d2 * divI (num r) d1 in
  let resden := if signI resden <? 0 then absI resden else resden in
  mk_nd resnum resden 0.

(* closed form of the Reduce-mode result, shared with operator/= *)
Definition div_closed (t r : rat) : rat :=
  if den t =? den r then reduce (if num r <? 0 then (- num t, - num r) else (num t, num r))
  else
    let d1 := Z.gcd (num t) (num r) in let d2 := Z.gcd (den t) (den r) in
    let N0 := Z.quot (num t) d1 * Z.quot (den r) d2 in
    let D0 := Z.quot (den t) d2 * Z.quot (num r) d1 in
    if num r <? 0 then (- N0, - D0) else (N0, D0).

Lemma div_closed_post : forall t r, canon t -> canon r -> num r <> 0 -> div_post true t r (div_closed t r).
Proof.
  intros [nt dt] [nr dr] [Ht Gt] [Hr Gr] Hnr. unfold div_closed, div_post. cbn [num den fst snd] in *.
  destruct (Z.eqb_spec dt dr) as [-> | Hne].
  - destruct (Z.ltb_spec nr 0).
    + destruct (reduce_spec (- nt, - nr)) as [C S]; [cbn; lia|]. split; [apply C|]. split; [intros _; exact C|].
      unfold same in S; cbn [num den fst snd] in S. nia.
    + destruct (reduce_spec (nt, nr)) as [C S]; [cbn; lia|]. split; [apply C|]. split; [intros _; exact C|].
      unfold same in S; cbn [num den fst snd] in S. nia.
  - destruct (div_core nt dt nr dr Ht Hr Hnr Gt Gr) as (G & V & P1 & P2). cbv zeta in *.
    destruct (Z.ltb_spec nr 0); cbn [num den fst snd].
    + split; [lia|]. split; [| lia]. intros _. split; cbn [num den fst snd]; [lia|]. apply cop_opp_l, cop_opp_r, G.
    + split; [lia|]. split; [| lia]. intros _. split; cbn [num den fst snd]; [lia | exact G].
Qed.

Lemma rdiv_tail_spec : forall red t r, 0 < den t -> 0 < den r -> (red = true -> canon t /\ canon r) ->
  num r <> 0 -> num t <> 0 ->
  exists x, rdiv_tail red t r = Some x /\ div_post red t r x /\ (red = true -> x = div_closed t r).
Proof.
  intros red [nt dt] [nr dr] Ht Hr Hc Hnr Hnt. unfold rdiv_tail, gcdI, divI, signI. cbn [num den fst snd] in *.
  rewrite cmpabsI_eqb by assumption.
  destruct (Z.eqb_spec dt dr) as [-> | Hne].
  { (* Rational(num, r.num): reduced by the constructor whatever the mode *)
    assert (E : mk_nd nt nr 1 = Some (reduce (if nr <? 0 then (- nt, - nr) else (nt, nr)))).
    { unfold mk_nd, isZeroI, signI. destruct (Z.eqb_spec nr 0); [lia|]. destruct (Z.eqb_spec nt 0); [lia|].
      change (1 =? 1) with true. cbv iota. destruct (Z.gtb_spec (Z.sgn nr) 0), (Z.ltb_spec nr 0); try lia; reflexivity. }
    rewrite E. eexists; split; [reflexivity|]. split.
    - unfold div_post. cbn [num den fst snd].
      destruct (Z.ltb_spec nr 0).
      + destruct (reduce_spec (- nt, - nr)) as [C S]; [cbn; lia|]. split; [apply C|]. split; [intros _; exact C|].
        unfold same in S; cbn [num den fst snd] in S. nia.
      + destruct (reduce_spec (nt, nr)) as [C S]; [cbn; lia|]. split; [apply C|]. split; [intros _; exact C|].
        unfold same in S; cbn [num den fst snd] in S. nia.
    - intros _. unfold div_closed. cbn [num den fst snd]. rewrite Z.eqb_refl. reflexivity. }
  destruct red; cbn [negb].
  - destruct (Hc eq_refl) as [Ct Cr]. destruct Ct as [_ Gt]. destruct Cr as [_ Gr]. cbn [num den fst snd] in *.
    assert (Post := div_closed_post (nt, dt) (nr, dr) (conj Ht Gt) (conj Hr Gr) Hnr).
    unfold div_closed in *. cbn [num den fst snd] in *. destruct (Z.eqb_spec dt dr); [lia|].
    destruct (div_core nt dt nr dr Ht Hr Hnr Gt Gr) as (G & V & P1 & P2). cbv zeta in *.
    set (N0 := Z.quot nt (Z.gcd nt nr) * Z.quot dr (Z.gcd dt dr)) in *.
    set (D0 := Z.quot dt (Z.gcd dt dr) * Z.quot nr (Z.gcd nt nr)) in *.
    destruct (Z.ltb_spec (Z.sgn nr) 0) as [Sn | Sn].
    + assert (Hlt : nr < 0) by lia. specialize (P2 Hlt).
      destruct (Z.ltb_spec (Z.sgn D0) 0); [|lia]. rewrite absI_abs' by lia.
      destruct (Z.ltb_spec nr 0); [|lia].
      rewrite mk_nd0 by lia. rewrite nd0_canon by (apply Post; reflexivity).
      eexists; split; [reflexivity|]. split; [exact Post | reflexivity].
    + assert (Hgt : 0 < nr) by lia. specialize (P1 Hgt).
      destruct (Z.ltb_spec (Z.sgn D0) 0); [lia|].
      destruct (Z.ltb_spec nr 0); [lia|].
      rewrite mk_nd0 by lia. rewrite nd0_canon by (apply Post; reflexivity).
      eexists; split; [reflexivity|]. split; [exact Post | reflexivity].
  - rewrite mk_nd0 by nia. eexists; split; [reflexivity|]. split; [|discriminate].
    destruct (nd0_spec (nt * dr) (dt * nr)) as (P & S & _); [nia|]. unfold div_post. cbn [num den fst snd]. split; [exact P|]. split; [discriminate|].
    unfold same in S; cbn [num den fst snd] in S. unfold div_post in *. cbn [num den fst snd]. nia.
Qed.

Lemma rdiv_unfold : forall red t r, rdiv red t r =
  if isZero r then None else if isZero t then Some (mk_word 0) else if isOne r then Some t else
  if isOne t then (if sign r <? 0 then mk_nd (den r) (num r) 0 else mk_nd (- den r) (- num r) 0)
  else rdiv_tail red t r.
Proof. reflexivity. Qed.

(* 1 / r : both constructor calls normalise the sign, so the result is +-(dr, nr) with a positive denominator *)
Definition inv_closed (r : rat) : rat := if num r <? 0 then (- den r, - num r) else (den r, num r).

Lemma rdiv_one_closed : forall r, 0 < den r -> num r <> 0 ->
  (if sign r <? 0 then mk_nd (den r) (num r) 0 else mk_nd (- den r) (- num r) 0) = Some (inv_closed r).
Proof.
  intros [nr dr] Hr Hnr. unfold sign, inv_closed, mk_nd, isZeroI, signI. cbn [num den fst snd] in *.
  destruct (Z.ltb_spec (Z.sgn nr) 0), (Z.ltb_spec nr 0); try lia.
  - destruct (Z.eqb_spec nr 0); [lia|]. destruct (Z.eqb_spec dr 0); [lia|]. change (0 =? 1) with false. cbv iota.
    destruct (Z.gtb_spec (Z.sgn nr) 0); [lia | reflexivity].
  - destruct (Z.eqb_spec (- nr) 0); [lia|]. destruct (Z.eqb_spec (- dr) 0); [lia|]. change (0 =? 1) with false. cbv iota.
    destruct (Z.gtb_spec (Z.sgn (- nr)) 0); [lia|]. rewrite !Z.opp_involutive. reflexivity.
Qed.

Lemma inv_closed_post : forall red r, 0 < den r -> num r <> 0 -> (red = true -> canon r) ->
  div_post red (1, 1) r (inv_closed r).
Proof.
  intros red [nr dr] Hr Hnr Hc. unfold inv_closed, div_post. cbn [num den fst snd] in *.
  destruct (Z.ltb_spec nr 0); cbn [num den fst snd].
  - split; [lia|]. split; [|ring]. intros E. destruct (Hc E) as [_ G]. cbn [num den fst snd] in G.
    split; cbn [num den fst snd]; [lia|]. apply cop_opp_l, cop_opp_r, cop_sym, G.
  - split; [lia|]. split; [|ring]. intros E. destruct (Hc E) as [_ G]. cbn [num den fst snd] in G.
    split; cbn [num den fst snd]; [lia|]. apply cop_sym, G.
Qed.

Lemma rdiv_spec : forall red t r, 0 < den t -> 0 < den r -> (red = true -> canon t /\ canon r) ->
  (num r = 0 -> rdiv red t r = None) /\
  (num r <> 0 -> exists x, rdiv red t r = Some x /\ div_post red t r x).
Proof.
  intros red t r Ht Hr Hc. rewrite rdiv_unfold. unfold mk_word.
  destruct (isZero r) eqn:Zr.
  { apply isZero_true in Zr. split; [reflexivity | intros; contradiction]. }
  apply isZero_false in Zr. split; [intros; contradiction | intros _].
  destruct (isZero t) eqn:Zt.
  { apply isZero_true in Zt. eexists; split; [reflexivity|]. unfold div_post; cbn [num den fst snd]. rewrite Zt.
    split; [lia|]. split; [intros _; apply canon_01 | ring]. }
  apply isZero_false in Zt.
  destruct (isOne r) eqn:Or.
  { apply isOne_true in Or. subst r. eexists; split; [reflexivity|]. unfold div_post; cbn [num den fst snd].
    split; [exact Ht|]. split; [intros E; apply Hc; exact E | ring]. }
  destruct (isOne t) eqn:Ot.
  { apply isOne_true in Ot. subst t. rewrite rdiv_one_closed by assumption. eexists; split; [reflexivity|].
    apply inv_closed_post; try assumption. intros E; apply Hc; exact E. }
  destruct (rdiv_tail_spec red t r Ht Hr Hc Zr Zt) as (x & E & P & _). exists x. split; assumption.
Qed.

(* ------------------------------------------------------------------ operator*= *)
Lemma canon_pair_zero : forall r, canon r -> num r = 0 -> r = (0, 1).
Proof. intros [n d] C H. assert (D := canon_zero _ C H). cbn [num den fst snd] in *. congruence. Qed.

Lemma mulin_noalias_red : forall r s, canon s -> canon r -> mulin false r true s = rmul true s r.
Proof.
  intros r s Cs Cr. rewrite rmul_unfold.
  assert (Hs := canon_posden _ Cs). assert (Hr := canon_posden _ Cr). unfold posden in *.
  unfold mulin, rarg, rn, rd, mk_word.
  replace (num r, den r) with r by (destruct r; reflexivity).
  destruct (isZero r) eqn:Zr; [reflexivity|].
  destruct (isZero s) eqn:Zs. { apply isZero_true in Zs. apply canon_pair_zero; assumption. }
  destruct (isOne r) eqn:Or; [reflexivity|].
  destruct (isOne s) eqn:Os; [reflexivity|].
  destruct (isInteger s && isInteger r) eqn:I.
  { apply andb_prop in I. destruct I as [I1 I2]. apply isInteger_true in I1.
    destruct (mk_int_canon (num s * num r)) as (_ & En & Ed). unfold set_num. rewrite I1.
    destruct (mk_int (num s * num r)) as [a b]. cbn [num den fst snd] in *. congruence. }
  destruct (rmul_tail_post true s r Hs Hr (fun _ => conj Cs Cr)) as [_ Cl]. rewrite (Cl eq_refl).
  rewrite cmpabsI_eqb by assumption. cbn [negb]. rewrite orb_false_r.
  destruct s as [ns ds], r as [nr dr]. unfold set_num, set_den, gcdI, divI. cbn [num den fst snd].
  destruct (Z.eqb_spec ds dr); reflexivity.
Qed.

Lemma mulin_noalias_nored : forall r s, 0 < den s -> 0 < den r -> mul_post false s r (mulin false r false s).
Proof.
  intros r s Hs Hr. unfold mulin, rarg, rn, rd, mk_word.
  replace (num r, den r) with r by (destruct r; reflexivity).
  destruct (isZero r) eqn:Zr.
  { apply isZero_true in Zr. unfold mul_post; cbn [num den fst snd]. rewrite Zr. split; [lia|]. split; [discriminate | ring]. }
  destruct (isZero s) eqn:Zs.
  { apply isZero_true in Zs. unfold mul_post. rewrite Zs. split; [exact Hs|]. split; [discriminate | ring]. }
  destruct (isOne r) eqn:Or.
  { apply isOne_true in Or. subst r. unfold mul_post; cbn [num den fst snd]. split; [exact Hs|]. split; [discriminate | ring]. }
  destruct (isOne s) eqn:Os.
  { apply isOne_true in Os. subst s. unfold mul_post; cbn [num den fst snd]. split; [exact Hr|]. split; [discriminate | ring]. }
  destruct (isInteger s && isInteger r) eqn:I.
  { apply andb_prop in I. destruct I as [I1 I2]. apply isInteger_true in I1, I2.
    unfold mul_post, set_num. cbn [num den fst snd]. rewrite I1, I2. split; [lia|]. split; [discriminate | ring]. }
  cbn [negb]. rewrite orb_true_r. unfold mul_post, set_num, set_den. cbn [num den fst snd].
  split; [nia|]. split; [discriminate | ring].
Qed.

(* x *= x *)
Lemma mulin_alias : forall red r s, 0 < den s -> (red = true -> canon s) -> mul_post red s s (mulin true r red s).
Proof.
  intros red r s Hs Hc. unfold mulin, rarg, rn, rd, mk_word.
  replace (num s, den s) with s by (destruct s; reflexivity).
  destruct (isZero s) eqn:Zs.
  { apply isZero_true in Zs. unfold mul_post; cbn [num den fst snd]. rewrite Zs. split; [lia|]. split; [intros _; apply canon_01 | ring]. }
  destruct (isOne s) eqn:Os.
  { apply isOne_true in Os. subst s. unfold mul_post; cbn [num den fst snd]. split; [lia|]. split; [exact Hc | ring]. }
  destruct (isInteger s && isInteger s) eqn:I.
  { apply andb_prop in I. destruct I as [I1 _]. apply isInteger_true in I1.
    unfold mul_post, set_num. cbn [num den fst snd]. rewrite I1. split; [lia|]. split; [|ring].
    intros _. split; cbn [num den fst snd]; [lia | apply Z.gcd_1_r]. }
  rewrite cmpabsI_refl. change (0 =? 0) with true. cbn [orb].
  unfold mul_post, set_num, set_den. cbn [num den fst snd]. split; [nia|]. split; [|ring].
  intros E. destruct (Hc E) as [_ G]. apply canon_mul_samesq; assumption.
Qed.

(* ------------------------------------------------------------------ operator/= *)
Lemma sgn_ltb : forall n, (Z.sgn n <? 0) = (n <? 0).
Proof. intros n. destruct (Z.ltb_spec (Z.sgn n) 0), (Z.ltb_spec n 0); try reflexivity; lia. Qed.

Lemma divin_noalias_red : forall r s, canon s -> canon r -> num r <> 0 -> divin false r true s = rdiv true s r.
Proof.
  intros r s Cs Cr Hnr. rewrite rdiv_unfold.
  assert (Hs := canon_posden _ Cs). assert (Hr := canon_posden _ Cr). unfold posden in *.
  unfold divin, rarg, rn, rd, mk_word.
  replace (num r, den r) with r by (destruct r; reflexivity).
  destruct (isZero r) eqn:Zr; [reflexivity|].
  destruct (isZero s) eqn:Zs. { apply isZero_true in Zs. f_equal. apply canon_pair_zero; assumption. }
  apply isZero_false in Zs.
  destruct (isOne r) eqn:Or; [reflexivity|].
  destruct (isOne s) eqn:Os.
  { rewrite rdiv_one_closed by assumption. unfold inv_closed, signI, set_num, set_den. rewrite sgn_ltb.
    destruct (num r <? 0); reflexivity. }
  destruct (rdiv_tail_spec true s r Hs Hr (fun _ => conj Cs Cr) Hnr Zs) as (x & E & _ & Cl).
  rewrite E, (Cl eq_refl). clear E Cl x.
  rewrite cmpI_eqb. unfold div_closed, signI. rewrite !sgn_ltb. cbn [negb].
  destruct s as [ns ds], r as [nr dr]. unfold set_num, set_den, gcdI, divI. cbn [num den fst snd] in *.
  destruct (Z.eqb_spec ds dr) as [-> | Hne].
  - destruct (nr <? 0); reflexivity.
  - destruct Cs as [_ Gs], Cr as [_ Gr]. cbn [num den fst snd] in *.
    destruct (div_core ns ds nr dr Hs Hr Hnr Gs Gr) as (_ & _ & P1 & P2). cbv zeta in P1, P2.
    destruct (Z.ltb_spec nr 0) as [L | L].
    + specialize (P2 L). match goal with |- context [?a <? 0] => destruct (Z.ltb_spec a 0); [reflexivity | lia] end.
    + assert (L' : 0 < nr) by lia. specialize (P1 L').
      match goal with |- context [?a <? 0] => destruct (Z.ltb_spec a 0); [lia | reflexivity] end.
Qed.

Lemma divin_noalias_nored : forall r s, 0 < den s -> 0 < den r -> num r <> 0 ->
  exists x, divin false r false s = Some x /\ div_post false s r x.
Proof.
  intros r s Hs Hr Hnr. unfold divin, rarg, rn, rd.
  replace (num r, den r) with r by (destruct r; reflexivity).
  destruct (isZero r) eqn:Zr. { apply isZero_true in Zr. contradiction. }
  destruct (isZero s) eqn:Zs.
  { apply isZero_true in Zs. eexists; split; [reflexivity|]. unfold div_post. rewrite Zs. split; [exact Hs|]. split; [discriminate | ring]. }
  destruct (isOne r) eqn:Or.
  { apply isOne_true in Or. subst r. eexists; split; [reflexivity|]. unfold div_post; cbn [num den fst snd].
    split; [exact Hs|]. split; [discriminate | ring]. }
  destruct (isOne s) eqn:Os.
  { apply isOne_true in Os. subst s. unfold signI, set_num, set_den. rewrite sgn_ltb.
    destruct (Z.ltb_spec (num r) 0); eexists; (split; [reflexivity|]); unfold div_post; cbn [num den fst snd];
      (split; [lia|]; split; [discriminate | ring]). }
  rewrite cmpI_eqb. unfold signI. rewrite !sgn_ltb. cbn [negb].
  destruct s as [ns ds], r as [nr dr]. unfold set_num, set_den. cbn [num den fst snd] in *.
  destruct (Z.eqb_spec ds dr) as [-> | Hne].
  - destruct (Z.ltb_spec nr 0); cbn [num den fst snd].
    + destruct (reduce_spec (- ns, - nr)) as [C S]; [cbn; lia|]. eexists; split; [reflexivity|].
      unfold div_post. cbn [num den fst snd]. split; [apply C|]. split; [discriminate|].
      unfold same in S; cbn [num den fst snd] in S. nia.
    + destruct (reduce_spec (ns, nr)) as [C S]; [cbn; lia|]. eexists; split; [reflexivity|].
      unfold div_post. cbn [num den fst snd]. split; [apply C|]. split; [discriminate|].
      unfold same in S; cbn [num den fst snd] in S. nia.
  - destruct (Z.ltb_spec nr 0); cbn [num den fst snd]; eexists; (split; [reflexivity|]); unfold div_post; cbn [num den fst snd];
      (split; [nia|]; split; [discriminate | ring]).
Qed.

(* x /= x *)
Lemma divin_alias : forall red r s, 0 < den s -> num s <> 0 ->
  exists x, divin true r red s = Some x /\ div_post red s s x /\ canon x.
Proof.
  intros red r s Hs Hn. unfold divin, rarg, rn, rd.
  replace (num s, den s) with s by (destruct s; reflexivity).
  destruct (isZero s) eqn:Zs. { apply isZero_true in Zs. contradiction. }
  destruct (isOne s) eqn:Os.
  { apply isOne_true in Os. subst s. eexists; split; [reflexivity|]. unfold div_post; cbn [num den fst snd].
    split; [split; [lia|]; split; [|ring]|]; intros; split; cbn; try lia; reflexivity. }
  rewrite cmpI_eqb, Z.eqb_refl. unfold signI. rewrite sgn_ltb.
  destruct s as [ns ds]. unfold set_num, set_den. cbn [num den fst snd] in *.
  destruct (Z.ltb_spec ns 0); cbn [num den fst snd].
  - destruct (reduce_spec (- ns, - ns)) as [C S]; [cbn; lia|]. eexists; split; [reflexivity|]. split; [|exact C].
    unfold div_post. cbn [num den fst snd]. split; [apply C|]. split; [intros _; exact C|].
    unfold same in S; cbn [num den fst snd] in S. nia.
  - destruct (reduce_spec (ns, ns)) as [C S]; [cbn; lia|]. eexists; split; [reflexivity|]. split; [|exact C].
    unfold div_post. cbn [num den fst snd]. split; [apply C|]. split; [intros _; exact C|].
    unfold same in S; cbn [num den fst snd] in S. nia.
Qed.
