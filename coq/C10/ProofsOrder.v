(* C10 — the comparison operators as a total order compatible with the arithmetic, on EVERY stored form with a
   positive denominator: canonical pairs, and the non-canonical pairs that NoReduce mode leaves behind
   (k*n / k*d, and zero stored as 0/d by the in-place subtraction).
   compare() tests the numerators for zero before it calls absCompare, so - unlike absCompare itself - it does not
   need zero to be stored as 0/1. *)
From Coq Require Import ZArith QArith Qabs Lia Bool.
From C10 Require Import Model ProofsBase ProofsCmp ProofsProps.
Local Open Scope Z_scope.

Lemma rcompare_spec_posden : forall a b, 0 < den a -> 0 < den b ->
  (rcompare a b < 0 <-> num a * den b < num b * den a) /\
  (rcompare a b = 0 <-> num a * den b = num b * den a) /\
  (0 < rcompare a b <-> num b * den a < num a * den b).
Proof.
  intros a b Ha Hb.
  destruct (Z.eq_dec (num a) 0) as [Za | Na].
  { destruct a as [na da], b as [nb db]. cbn [num den fst snd] in *. subst na.
    unfold rcompare, isZeroI, signI. cbn [num den fst snd]. cbn [Z.eqb andb].
    assert (S := Z.sgn_spec nb).
    destruct (Z.eqb_spec nb 0) as [-> | Nb]; [cbn; lia|]. nia. }
  destruct (Z.eq_dec (num b) 0) as [Zb | Nb].
  { destruct a as [na da], b as [nb db]. cbn [num den fst snd] in *. subst nb.
    unfold rcompare, isZeroI, signI. cbn [num den fst snd].
    assert (S := Z.sgn_spec na).
    destruct (Z.eqb_spec na 0) as [E | _]; [contradiction|]. cbn [Z.eqb andb]. nia. }
  apply rcompare_spec; split; try assumption; intros; contradiction.
Qed.

(* the six operators are the order of Q on every pair of stored forms with positive denominators *)
Definition Operators_any_form_stmt := forall a b, 0 < den a -> 0 < den b ->
  Z.sgn (rcompare a b) = sgn3 (Qcompare (toQ a) (toQ b)) /\
  (op_lt a b = true <-> (toQ a < toQ b)%Q) /\
  (op_gt a b = true <-> (toQ b < toQ a)%Q) /\
  (op_eq a b = true <-> (toQ a == toQ b)%Q) /\
  (op_ne a b = true <-> ~ (toQ a == toQ b)%Q) /\
  (op_le a b = true <-> (toQ a <= toQ b)%Q) /\
  (op_ge a b = true <-> (toQ b <= toQ a)%Q).
Lemma operators_any_form_thm : Operators_any_form_stmt.
Proof.
  intros a b Ha Hb. destruct (rcompare_spec_posden a b Ha Hb) as (R1 & R2 & R3).
  split.
  { destruct (Qcompare_spec (toQ a) (toQ b)) as [E | E | E]; cbn [sgn3].
    - apply Qeq_toQ in E; try assumption. lia.
    - apply Qlt_toQ in E; try assumption. lia.
    - apply Qlt_toQ in E; try assumption. lia. }
  rewrite !Qlt_toQ, !Qle_toQ, !Qeq_toQ by assumption.
  unfold op_lt, op_gt, op_eq, op_ne, op_le, op_ge. set (c := rcompare a b) in *. clearbody c.
  rewrite negb_true_iff.
  destruct (Z.ltb_spec c 0), (Z.gtb_spec c 0), (Z.eqb_spec c 0), (Z.leb_spec c 0), (Z.geb_spec c 0);
    repeat split; intros; try discriminate; try reflexivity; try lia.
Qed.

Lemma lt_iff : forall a b, 0 < den a -> 0 < den b -> (op_lt a b = true <-> (toQ a < toQ b)%Q).
Proof. intros a b Ha Hb. exact (proj1 (proj2 (operators_any_form_thm a b Ha Hb))). Qed.
Lemma le_iff : forall a b, 0 < den a -> 0 < den b -> (op_le a b = true <-> (toQ a <= toQ b)%Q).
Proof. intros a b Ha Hb. exact (proj1 (proj2 (proj2 (proj2 (proj2 (proj2 (operators_any_form_thm a b Ha Hb))))))). Qed.
Lemma eq_iff : forall a b, 0 < den a -> 0 < den b -> (op_eq a b = true <-> (toQ a == toQ b)%Q).
Proof. intros a b Ha Hb. exact (proj1 (proj2 (proj2 (proj2 (operators_any_form_thm a b Ha Hb))))). Qed.

(* absCompare, called directly, is NOT the order of |.| on a zero stored as 0/d: it compares the denominators *)
Definition AbsCompare_needs_normalised_zero_stmt :=
  exists a b, 0 < den a /\ 0 < den b /\ (Qabs (toQ a) == Qabs (toQ b))%Q /\ absCompare a b <> 0 /\ rcompare a b = 0.
Lemma abscompare_needs_normalised_zero_thm : AbsCompare_needs_normalised_zero_stmt.
Proof.
  exists (0, 4), (0, 1). split; [cbn; lia|]. split; [cbn; lia|]. split; [reflexivity|].
  split; [vm_compute; discriminate | reflexivity].
Qed.

(* ------------------------------------------------------------------ a total order *)
Definition Total_order_stmt := forall a b c, 0 < den a -> 0 < den b -> 0 < den c ->
  (* reflexive, antisymmetric (as values), transitive, total *)
  op_le a a = true /\ op_eq a a = true /\ op_lt a a = false /\
  (op_le a b = true -> op_le b a = true -> op_eq a b = true /\ (toQ a == toQ b)%Q) /\
  (op_le a b = true -> op_le b c = true -> op_le a c = true) /\
  (op_lt a b = true -> op_lt b c = true -> op_lt a c = true) /\
  (op_lt a b = true -> op_le b c = true -> op_lt a c = true) /\
  (op_le a b = true -> op_lt b c = true -> op_lt a c = true) /\
  (op_eq a b = true -> op_eq b c = true -> op_eq a c = true) /\
  (op_le a b = true \/ op_le b a = true) /\
  (* the mirrored operators *)
  op_gt a b = op_lt b a /\ op_ge a b = op_le b a /\ op_eq a b = op_eq b a /\ op_ne a b = op_ne b a /\
  (* <= is < or == *)
  op_le a b = op_lt a b || op_eq a b.
Lemma bool_iff_eq : forall x y : bool, (x = true <-> y = true) -> x = y.
Proof. intros [|] [|] [H1 H2]; try reflexivity; [symmetry; apply H1; reflexivity | apply H2; reflexivity]. Qed.
Lemma total_order_thm : Total_order_stmt.
Proof.
  intros a b c Ha Hb Hc.
  assert (Oab := operators_any_form_thm a b Ha Hb). assert (Oba := operators_any_form_thm b a Hb Ha).
  destruct Oab as (_ & Lab & Gab & Eab & Nab & LEab & GEab). destruct Oba as (_ & Lba & Gba & Eba & Nba & LEba & GEba).
  split; [apply le_iff; try assumption; apply Qle_refl|].
  split; [apply eq_iff; try assumption; reflexivity|].
  split. { destruct (op_lt a a) eqn:E; [|reflexivity]. apply lt_iff in E; try assumption. exfalso. exact (Qlt_irrefl _ E). }
  split. { intros H1 H2. apply LEab in H1. apply LEba in H2. assert (E := Qle_antisym _ _ H1 H2). split; [apply Eab; exact E | exact E]. }
  split. { intros H1 H2. apply le_iff in H1; try assumption. apply le_iff in H2; try assumption. apply le_iff; try assumption. eapply Qle_trans; eassumption. }
  split. { intros H1 H2. apply lt_iff in H1; try assumption. apply lt_iff in H2; try assumption. apply lt_iff; try assumption. eapply Qlt_trans; eassumption. }
  split. { intros H1 H2. apply lt_iff in H1; try assumption. apply le_iff in H2; try assumption. apply lt_iff; try assumption. eapply Qlt_le_trans; eassumption. }
  split. { intros H1 H2. apply le_iff in H1; try assumption. apply lt_iff in H2; try assumption. apply lt_iff; try assumption. eapply Qle_lt_trans; eassumption. }
  split. { intros H1 H2. apply eq_iff in H1; try assumption. apply eq_iff in H2; try assumption. apply eq_iff; try assumption. rewrite H1. exact H2. }
  split. { destruct (Qlt_le_dec (toQ b) (toQ a)) as [L | L]; [right; apply LEba; apply Qlt_le_weak; exact L | left; apply LEab; exact L]. }
  split; [apply bool_iff_eq; rewrite Gab, Lba; reflexivity|].
  split; [apply bool_iff_eq; rewrite GEab, LEba; reflexivity|].
  split; [apply bool_iff_eq; rewrite Eab, Eba; split; intros E; symmetry; exact E|].
  split; [apply bool_iff_eq; rewrite Nab, Nba; split; intros E F; apply E; symmetry; exact F|].
  apply bool_iff_eq. rewrite orb_true_iff, LEab, Lab, Eab. rewrite Qle_lteq. reflexivity.
Qed.

(* on canonical forms the order is antisymmetric as an order on the stored pairs *)
Definition Antisymmetric_canonical_stmt := forall a b, canon a -> canon b ->
  op_le a b = true -> op_le b a = true -> a = b.
Lemma antisymmetric_canonical_thm : Antisymmetric_canonical_stmt.
Proof.
  intros a b Ca Cb H1 H2. apply canonical_unique_thm; try assumption.
  exact (proj2 (proj1 (proj2 (proj2 (proj2 (total_order_thm a b a (proj1 Ca) (proj1 Cb) (proj1 Ca))))) H1 H2)).
Qed.

(* ------------------------------------------------------------------ compatibility with the arithmetic, both modes *)
(* operands that the mode admits: canonical in Reduce mode, any positive denominator in NoReduce mode *)
Definition ok (red : bool) (r : rat) : Prop := if red then canon r else 0 < den r.
Lemma ok_posden : forall red r, ok red r -> 0 < den r.
Proof. intros [|] r H; [apply H | exact H]. Qed.

Lemma radd_ok : forall red t r, ok red t -> ok red r -> 0 < den (radd red t r) /\ (toQ (radd red t r) == toQ t + toQ r)%Q.
Proof.
  intros [|] t r Ht Hr; cbn [ok] in *.
  - destruct (add_thm t r Ht Hr) as [C E]. split; [apply C | exact E].
  - exact (proj1 (noreduce_thm t r Ht Hr)).
Qed.
Lemma rsub_ok : forall red t r, ok red t -> ok red r -> 0 < den (rsub red t r) /\ (toQ (rsub red t r) == toQ t - toQ r)%Q.
Proof.
  intros [|] t r Ht Hr; cbn [ok] in *.
  - destruct (sub_thm t r Ht Hr) as [C E]. split; [apply C | exact E].
  - exact (proj1 (proj2 (noreduce_thm t r Ht Hr))).
Qed.
Lemma rmul_ok : forall red t r, ok red t -> ok red r -> 0 < den (rmul red t r) /\ (toQ (rmul red t r) == toQ t * toQ r)%Q.
Proof.
  intros [|] t r Ht Hr; cbn [ok] in *.
  - destruct (mul_thm t r Ht Hr) as [C E]. split; [apply C | exact E].
  - exact (proj1 (proj2 (proj2 (noreduce_thm t r Ht Hr)))).
Qed.
Lemma addin_ok : forall red r s, ok red s -> ok red r -> 0 < den (addin false r red s) /\ (toQ (addin false r red s) == toQ s + toQ r)%Q.
Proof.
  intros [|] r s Hs Hr; cbn [ok] in *.
  - destruct (addin_subin_thm false r s Hs Hr ltac:(discriminate)) as (C & E & _). split; [apply C | exact E].
  - exact (proj1 (noreduce_inplace_thm false r s Hs Hr ltac:(discriminate))).
Qed.
Lemma rneg_posden : forall t, 0 < den t -> 0 < den (rneg t) /\ (toQ (rneg t) == - toQ t)%Q.
Proof.
  intros [n d] H. cbn [den snd] in H. unfold rneg, nd0, mk_nd, isZeroI, signI, get_nd. cbn [num den fst snd].
  destruct (Z.eqb_spec d 0) as [-> | _]; [lia|].
  destruct (Z.eqb_spec (- n) 0) as [E | E]; cbn [Z.eqb].
  - assert (n = 0) by lia. subst n. split; [cbn; lia|]. unfold toQ, Qeq. cbn. reflexivity.
  - assert (S := Z.sgn_spec d). destruct (Z.gtb_spec (Z.sgn d) 0); [|lia].
    cbn [Z.eqb]. split; [cbn; lia|]. unfold toQ, Qeq, Qopp. cbn [num den fst snd Qnum Qden]. reflexivity.
Qed.

Lemma toQ_sign : forall c, 0 < den c -> ((0 < toQ c)%Q <-> 0 < num c) /\ ((toQ c < 0)%Q <-> num c < 0).
Proof.
  intros [n d] H. cbn [num den fst snd] in *. unfold toQ, Qlt. cbn [num den fst snd Qnum Qden]. split; split; intros; lia.
Qed.

Definition Order_compatible_stmt := forall red a b c, ok red a -> ok red b -> ok red c ->
  (op_lt a b = true <-> op_lt (radd red a c) (radd red b c) = true) /\
  (op_le a b = true <-> op_le (radd red a c) (radd red b c) = true) /\
  (op_lt a b = true <-> op_lt (radd red c a) (radd red c b) = true) /\
  (op_lt a b = true <-> op_lt (rsub red a c) (rsub red b c) = true) /\
  (op_lt a b = true <-> op_lt (rsub red c b) (rsub red c a) = true) /\
  (op_lt a b = true <-> op_lt (addin false c red a) (addin false c red b) = true) /\
  (op_lt a b = true <-> op_lt (rneg b) (rneg a) = true) /\
  (0 < num c -> (op_lt a b = true <-> op_lt (rmul red a c) (rmul red b c) = true)) /\
  (num c < 0 -> (op_lt a b = true <-> op_lt (rmul red b c) (rmul red a c) = true)) /\
  (* the sign of the difference decides, as the property sentence says *)
  (op_lt a b = true <-> num (rsub red a b) < 0) /\ (op_eq a b = true <-> num (rsub red a b) = 0) /\
  (op_gt a b = true <-> 0 < num (rsub red a b)).
Lemma order_compatible_thm : Order_compatible_stmt.
Proof.
  intros red a b c Oa Ob Oc.
  assert (Ha := ok_posden _ _ Oa). assert (Hb := ok_posden _ _ Ob). assert (Hc := ok_posden _ _ Oc).
  destruct (radd_ok red a c Oa Oc) as [P1 E1]. destruct (radd_ok red b c Ob Oc) as [P2 E2].
  destruct (radd_ok red c a Oc Oa) as [P3 E3]. destruct (radd_ok red c b Oc Ob) as [P4 E4].
  destruct (rsub_ok red a c Oa Oc) as [P5 E5]. destruct (rsub_ok red b c Ob Oc) as [P6 E6].
  destruct (rsub_ok red c b Oc Ob) as [P7 E7]. destruct (rsub_ok red c a Oc Oa) as [P8 E8].
  destruct (addin_ok red c a Oa Oc) as [P9 E9]. destruct (addin_ok red c b Ob Oc) as [P10 E10].
  destruct (rneg_posden a Ha) as [P11 E11]. destruct (rneg_posden b Hb) as [P12 E12].
  destruct (rmul_ok red a c Oa Oc) as [P13 E13]. destruct (rmul_ok red b c Ob Oc) as [P14 E14].
  destruct (rsub_ok red a b Oa Ob) as [P15 E15].
  split. { rewrite !lt_iff by assumption. rewrite E1, E2. symmetry. apply Qplus_lt_l. }
  split. { rewrite !le_iff by assumption. rewrite E1, E2. symmetry. apply Qplus_le_l. }
  split. { rewrite !lt_iff by assumption. rewrite E3, E4. symmetry. apply Qplus_lt_r. }
  split. { rewrite !lt_iff by assumption. rewrite E5, E6. unfold Qminus. symmetry. apply Qplus_lt_l. }
  split. { rewrite !lt_iff by assumption. rewrite E7, E8. unfold Qminus. rewrite Qplus_lt_r. split; intros H.
           - apply Qopp_lt_compat. exact H.
           - apply Qopp_lt_compat in H. rewrite !Qopp_involutive in H. exact H. }
  split. { rewrite !lt_iff by assumption. rewrite E9, E10. symmetry. apply Qplus_lt_l. }
  split. { rewrite !lt_iff by assumption. rewrite E11, E12. split; intros H.
           - apply Qopp_lt_compat. exact H.
           - apply Qopp_lt_compat in H. rewrite !Qopp_involutive in H. exact H. }
  split. { intros Pc. rewrite !lt_iff by assumption. rewrite E13, E14. symmetry. apply Qmult_lt_r. apply (toQ_sign c Hc). exact Pc. }
  split. { intros Nc. rewrite !lt_iff by assumption. rewrite E13, E14.
           assert (Pn : (0 < - toQ c)%Q). { apply (toQ_sign c Hc) in Nc. apply Qopp_lt_compat in Nc. exact Nc. }
           rewrite <- (Qmult_lt_r _ _ (- toQ c) Pn). split; intros H.
           - apply Qopp_lt_compat in H. setoid_replace (- (toQ a * - toQ c))%Q with (toQ a * toQ c)%Q in H by ring.
             setoid_replace (- (toQ b * - toQ c))%Q with (toQ b * toQ c)%Q in H by ring. exact H.
           - apply Qopp_lt_compat in H. setoid_replace (- (toQ a * toQ c))%Q with (toQ a * - toQ c)%Q in H by ring.
             setoid_replace (- (toQ b * toQ c))%Q with (toQ b * - toQ c)%Q in H by ring. exact H. }
  assert (Sd := toQ_sign (rsub red a b) P15).
  destruct (operators_any_form_thm a b Ha Hb) as (_ & Lab & Gab & Eab & _).
  split. { rewrite Lab. rewrite <- (proj2 Sd). rewrite E15. rewrite <- (Qplus_lt_l _ _ (- toQ b)).
           setoid_replace (toQ b + - toQ b)%Q with 0%Q by ring. reflexivity. }
  split. { rewrite Eab. split; intros H.
           - assert (Z : (toQ (rsub red a b) == 0)%Q) by (rewrite E15, H; ring).
             unfold toQ, Qeq in Z. cbn [Qnum Qden] in Z. lia.
           - assert (Z : (toQ (rsub red a b) == 0)%Q) by (unfold toQ, Qeq; cbn [Qnum Qden]; lia).
             rewrite E15 in Z. setoid_replace (toQ a) with (toQ a - toQ b + toQ b)%Q by ring. rewrite Z. ring. }
  rewrite Gab. rewrite <- (proj1 Sd). rewrite E15. rewrite <- (Qplus_lt_l _ _ (- toQ b)).
  setoid_replace (toQ b + - toQ b)%Q with 0%Q by ring. reflexivity.
Qed.

(* hypotheses satisfiable; the stored forms NoReduce leaves behind are ordered correctly *)
Example order_any_form_example :
  let a := (0, 4) in let b := (2, 4) in let c := (1, 2) in
  (0 < den a /\ 0 < den b /\ 0 < den c) /\ op_lt a b = true /\ op_eq b c = true /\ op_le b c = true /\ op_gt a c = false /\
  op_eq a (0, 1) = true /\ subin false (1, 2) false (1, 2) = (0, 4).
Proof. cbn [den snd]. repeat split; try lia; vm_compute; reflexivity. Qed.
