(* C10 — the statements used by Properties.v, on Coq's Q.
   canon r : den r > 0 /\ gcd (num r) (den r) = 1 (so zero is 0/1);  toQ r : the rational number num r / den r.
   Reduce mode is `red = true` (Rational::flags == Reduce, the default); NoReduce is `red = false`. *)
From Coq Require Import ZArith QArith Qabs Qpower Lia Bool.
From C10 Require Import Model ProofsBase ProofsAdd ProofsMul ProofsCmp ProofsCtor.
Local Open Scope Z_scope.

Lemma add_post_Q : forall red t r x, 0 < den t -> 0 < den r -> add_post red t r x -> (toQ x == toQ t + toQ r)%Q.
Proof. intros red t r x Ht Hr (P & _ & V). apply toQ_plus; assumption. Qed.
Lemma sub_post_Q : forall red t r x, 0 < den t -> 0 < den r -> sub_post red t r x -> (toQ x == toQ t - toQ r)%Q.
Proof. intros red t r x Ht Hr (P & _ & V). apply toQ_minus; assumption. Qed.
Lemma mul_post_Q : forall red t r x, 0 < den t -> 0 < den r -> mul_post red t r x -> (toQ x == toQ t * toQ r)%Q.
Proof. intros red t r x Ht Hr (P & _ & V). apply toQ_mult; assumption. Qed.
Lemma div_post_Q : forall red t r x, 0 < den t -> 0 < den r -> num r <> 0 -> div_post red t r x -> (toQ x == toQ t / toQ r)%Q.
Proof. intros red t r x Ht Hr Hn (P & _ & V). apply toQ_div; assumption. Qed.

(* ------------------------------------------------------------------ canonical form *)
Definition Canonical_zero_stmt := forall r, canon r -> (toQ r == 0)%Q -> r = (0, 1).
Lemma canonical_zero_thm : Canonical_zero_stmt.
Proof.
  intros r C E. apply canon_pair_zero; [exact C|]. destruct r as [n d]. unfold toQ, Qeq in E. cbn [num den fst snd Qnum Qden] in *. lia.
Qed.

Definition Canonical_unique_stmt := forall a b, canon a -> canon b -> (toQ a == toQ b)%Q -> a = b.
Lemma canonical_unique_thm : Canonical_unique_stmt.
Proof. intros a b Ca Cb E. apply canon_unique; try assumption. apply toQ_eq; [apply Ca | apply Cb | exact E]. Qed.

Definition Reduce_stmt := forall s, 0 < den s -> canon (reduce s) /\ (toQ (reduce s) == toQ s)%Q.
Lemma reduce_thm : Reduce_stmt.
Proof. intros s H. destruct (reduce_spec s H) as [C S]. split; [exact C|]. apply toQ_same; [apply C | exact H | exact S]. Qed.

(* ------------------------------------------------------------------ + - * / and unary operators, Reduce mode *)
Definition Add_stmt := forall t r, canon t -> canon r ->
  canon (radd true t r) /\ (toQ (radd true t r) == toQ t + toQ r)%Q.
Lemma add_thm : Add_stmt.
Proof.
  intros t r Ct Cr. assert (P := radd_post true t r (proj1 Ct) (proj1 Cr) (fun _ => conj Ct Cr)).
  split; [apply P; reflexivity | eapply add_post_Q; [apply Ct | apply Cr | exact P]].
Qed.

Definition Sub_stmt := forall t r, canon t -> canon r ->
  canon (rsub true t r) /\ (toQ (rsub true t r) == toQ t - toQ r)%Q.
Lemma sub_thm : Sub_stmt.
Proof.
  intros t r Ct Cr. assert (P := rsub_post true t r (proj1 Ct) (proj1 Cr) (fun _ => conj Ct Cr)).
  split; [apply P; reflexivity | eapply sub_post_Q; [apply Ct | apply Cr | exact P]].
Qed.

Definition Mul_stmt := forall t r, canon t -> canon r ->
  canon (rmul true t r) /\ (toQ (rmul true t r) == toQ t * toQ r)%Q.
Lemma mul_thm : Mul_stmt.
Proof.
  intros t r Ct Cr. assert (P := rmul_post true t r (proj1 Ct) (proj1 Cr) (fun _ => conj Ct Cr)).
  split; [apply P; reflexivity | eapply mul_post_Q; [apply Ct | apply Cr | exact P]].
Qed.

(* None = GivMathDivZero thrown *)
Definition Div_stmt := forall t r, canon t -> canon r ->
  (num r = 0 -> rdiv true t r = None) /\
  (num r <> 0 -> exists x, rdiv true t r = Some x /\ canon x /\ (toQ x == toQ t / toQ r)%Q).
Lemma div_thm : Div_stmt.
Proof.
  intros t r Ct Cr. destruct (rdiv_spec true t r (proj1 Ct) (proj1 Cr) (fun _ => conj Ct Cr)) as [Z NZ].
  split; [exact Z|]. intros Hn. destruct (NZ Hn) as (x & E & P). exists x. split; [exact E|].
  split; [apply P; reflexivity | eapply div_post_Q; [apply Ct | apply Cr | exact Hn | exact P]].
Qed.

Definition Neg_abs_stmt := forall t, canon t ->
  canon (rneg t) /\ (toQ (rneg t) == - toQ t)%Q /\ canon (rabs t) /\ (toQ (rabs t) == Qabs (toQ t))%Q /\ rpos t = t.
Lemma neg_abs_thm : Neg_abs_stmt.
Proof.
  intros t C. destruct (rneg_spec t C) as (C1 & N1 & D1). destruct (rabs_spec t C) as (C2 & N2 & D2).
  split; [exact C1|]. split.
  { apply toQ_opp; [apply C1 | apply C|]. rewrite N1, D1. ring. }
  split; [exact C2|]. split; [|reflexivity].
  rewrite Qabs_toQ. apply toQ_same; [apply C2 | cbn; apply C|]. unfold same. cbn [num den fst snd]. rewrite N2, D2. ring.
Qed.

(* ------------------------------------------------------------------ in-place forms (alias: the argument is *this) *)
Definition Addin_subin_stmt := forall alias r s, canon s -> canon r -> (alias = true -> r = s) ->
  canon (addin alias r true s) /\ (toQ (addin alias r true s) == toQ s + toQ r)%Q /\
  canon (subin alias r true s) /\ (toQ (subin alias r true s) == toQ s - toQ r)%Q.
Lemma addin_subin_thm : Addin_subin_stmt.
Proof.
  intros alias r s Cs Cr Ha.
  assert (P := addin_post alias true r s (proj1 Cs) (proj1 Cr) (fun _ => conj Cs Cr) Ha).
  assert (Q := subin_post alias true r s (proj1 Cs) (proj1 Cr) (fun _ => conj Cs Cr) Ha).
  split; [apply P; reflexivity|]. split; [eapply add_post_Q; [apply Cs | apply Cr | exact P]|].
  split; [apply Q; reflexivity | eapply sub_post_Q; [apply Cs | apply Cr | exact Q]].
Qed.

Definition Mulin_stmt := forall alias r s, canon s -> canon r -> (alias = true -> r = s) ->
  canon (mulin alias r true s) /\ (toQ (mulin alias r true s) == toQ s * toQ r)%Q.
Lemma mulin_thm : Mulin_stmt.
Proof.
  intros [|] r s Cs Cr Ha.
  - assert (E := Ha eq_refl). subst r. assert (P := mulin_alias true s s (proj1 Cs) (fun _ => Cs)).
    split; [apply P; reflexivity | eapply mul_post_Q; [apply Cs | apply Cs | exact P]].
  - rewrite mulin_noalias_red by assumption. apply mul_thm; assumption.
Qed.

Definition Divin_stmt := forall alias r s, canon s -> canon r -> (alias = true -> r = s) ->
  (num r = 0 -> divin alias r true s = None) /\
  (num r <> 0 -> exists x, divin alias r true s = Some x /\ canon x /\ (toQ x == toQ s / toQ r)%Q).
Lemma divin_thm : Divin_stmt.
Proof.
  intros [|] r s Cs Cr Ha.
  - assert (E := Ha eq_refl). subst r. split.
    + intros Z. unfold divin, rarg, rn, rd. replace (num s, den s) with s by (destruct s; reflexivity).
      unfold isZero, isZeroI. rewrite Z. reflexivity.
    + intros Hn. destruct (divin_alias true s s (proj1 Cs) Hn) as (x & E & P & C). exists x. split; [exact E|].
      split; [exact C | eapply div_post_Q; [apply Cs | apply Cs | exact Hn | exact P]].
  - split.
    + intros Z. unfold divin, rarg, rn, rd. replace (num r, den r) with r by (destruct r; reflexivity).
      unfold isZero, isZeroI. rewrite Z. reflexivity.
    + intros Hn. rewrite divin_noalias_red by assumption. apply (proj2 (div_thm s r Cs Cr) Hn).
Qed.

(* ------------------------------------------------------------------ NoReduce mode: exact value, positive denominator *)
Definition NoReduce_stmt := forall t r, 0 < den t -> 0 < den r ->
  (0 < den (radd false t r) /\ (toQ (radd false t r) == toQ t + toQ r)%Q) /\
  (0 < den (rsub false t r) /\ (toQ (rsub false t r) == toQ t - toQ r)%Q) /\
  (0 < den (rmul false t r) /\ (toQ (rmul false t r) == toQ t * toQ r)%Q) /\
  (num r <> 0 -> exists x, rdiv false t r = Some x /\ 0 < den x /\ (toQ x == toQ t / toQ r)%Q).
Lemma noreduce_thm : NoReduce_stmt.
Proof.
  intros t r Ht Hr.
  assert (NC : false = true -> canon t /\ canon r) by discriminate.
  assert (A := radd_post false t r Ht Hr NC). assert (S := rsub_post false t r Ht Hr NC).
  assert (M := rmul_post false t r Ht Hr NC). destruct (rdiv_spec false t r Ht Hr NC) as [_ D].
  split; [split; [exact (proj1 A) | exact (add_post_Q _ _ _ _ Ht Hr A)]|].
  split; [split; [exact (proj1 S) | exact (sub_post_Q _ _ _ _ Ht Hr S)]|].
  split; [split; [exact (proj1 M) | exact (mul_post_Q _ _ _ _ Ht Hr M)]|].
  intros Hn. destruct (D Hn) as (x & E & P). exists x. split; [exact E|]. split; [exact (proj1 P) | exact (div_post_Q _ _ _ _ Ht Hr Hn P)].
Qed.

Definition NoReduce_inplace_stmt := forall alias r s, 0 < den s -> 0 < den r -> (alias = true -> r = s) ->
  (0 < den (addin alias r false s) /\ (toQ (addin alias r false s) == toQ s + toQ r)%Q) /\
  (0 < den (subin alias r false s) /\ (toQ (subin alias r false s) == toQ s - toQ r)%Q) /\
  (0 < den (mulin alias r false s) /\ (toQ (mulin alias r false s) == toQ s * toQ r)%Q) /\
  (num r <> 0 -> exists x, divin alias r false s = Some x /\ 0 < den x /\ (toQ x == toQ s / toQ r)%Q).
Lemma noreduce_inplace_thm : NoReduce_inplace_stmt.
Proof.
  intros alias r s Hs Hr Ha.
  assert (NC : false = true -> canon s /\ canon r) by discriminate.
  assert (A := addin_post alias false r s Hs Hr NC Ha). assert (S := subin_post alias false r s Hs Hr NC Ha).
  split; [split; [exact (proj1 A) | exact (add_post_Q _ _ _ _ Hs Hr A)]|].
  split; [split; [exact (proj1 S) | exact (sub_post_Q _ _ _ _ Hs Hr S)]|].
  clear A S. destruct alias.
  - assert (E := Ha eq_refl). subst r.
    assert (M := mulin_alias false s s Hs ltac:(discriminate)).
    split; [split; [exact (proj1 M) | exact (mul_post_Q _ _ _ _ Hs Hs M)]|].
    intros Hn. destruct (divin_alias false s s Hs Hn) as (x & E & P & C). exists x. split; [exact E|].
    split; [exact (proj1 P) | exact (div_post_Q _ _ _ _ Hs Hs Hn P)].
  - assert (M := mulin_noalias_nored r s Hs Hr).
    split; [split; [exact (proj1 M) | exact (mul_post_Q _ _ _ _ Hs Hr M)]|].
    intros Hn. destruct (divin_noalias_nored r s Hs Hr Hn) as (x & E & P). exists x. split; [exact E|].
    split; [exact (proj1 P) | exact (div_post_Q _ _ _ _ Hs Hr Hn P)].
Qed.

(* ------------------------------------------------------------------ constructors *)
Definition Ctor_integer_stmt := forall n b,
  canon (mk_int n) /\ (toQ (mk_int n) == inject_Z n)%Q /\
  canon (mk_word n) /\ (toQ (mk_word n) == inject_Z n)%Q /\
  canon (mk_neutral b) /\ (toQ (mk_neutral b) == if b then 1 else 0)%Q.
Lemma ctor_integer_thm : Ctor_integer_stmt.
Proof.
  intros n b. destruct (mk_int_canon n) as (C1 & N1 & D1). destruct (mk_word_spec n) as (C2 & N2 & D2).
  destruct (mk_neutral_spec b) as (C3 & E3).
  split; [exact C1|]. split; [unfold toQ, inject_Z; rewrite N1, D1; reflexivity|].
  split; [exact C2|]. split; [unfold toQ, inject_Z; rewrite N2, D2; reflexivity|].
  split; [exact C3|]. rewrite E3. destruct b; reflexivity.
Qed.

Lemma ctor_post_Q : forall n d x, d <> 0 -> ctor_post n d x -> canon x /\ (toQ x == inject_Z n / inject_Z d)%Q.
Proof.
  intros n d x Hd [C V]. split; [exact C|].
  assert (E : (toQ x == toQ (n, 1%Z) / toQ (d, 1%Z))%Q).
  { apply toQ_div; cbn [num den fst snd]; try lia; apply C. }
  exact E.
Qed.

(* Rational(n, d [, red]), Rational(uint64_t, uint64_t), Rational(int64_t, int64_t), text "n/d"; None = exception *)
Definition Ctor_pair_stmt := forall n d,
  (d = 0 -> mk_nd n d 1 = None /\ mk_i64 n d = None /\ (0 <= n -> mk_u64 n d = None)) /\
  (d <> 0 ->
     (exists x, mk_nd n d 1 = Some x /\ canon x /\ (toQ x == inject_Z n / inject_Z d)%Q) /\
     (exists x, mk_i64 n d = Some x /\ canon x /\ (toQ x == inject_Z n / inject_Z d)%Q) /\
     (0 <= n -> 0 < d -> exists x, mk_u64 n d = Some x /\ canon x /\ (toQ x == inject_Z n / inject_Z d)%Q) /\
     (exists x, of_text n true d = Some x /\ canon x /\ (toQ x == inject_Z n / inject_Z d)%Q) /\
     (forall redarg, redarg <> 1 -> exists x, mk_nd n d redarg = Some x /\ 0 < den x /\
         (toQ x == inject_Z n / inject_Z d)%Q /\ (n = 0 -> x = (0, 1)))).
Lemma ctor_pair_thm : Ctor_pair_stmt.
Proof.
  intros n d. split.
  - intros ->. split; [reflexivity|]. split; [reflexivity|]. intros Hn. apply (proj1 (mk_u64_spec n 0 Hn ltac:(lia))). reflexivity.
  - intros Hd. split; [|split; [|split; [|split]]].
    + destruct (proj2 (mk_nd_spec n d 1) Hd) as (x & E & P & V & _ & C & _). exists x. split; [exact E|].
      apply ctor_post_Q; [exact Hd|]. split; [apply C; reflexivity | exact V].
    + destruct (proj2 (mk_i64_spec n d) Hd) as (x & E & P). exists x. split; [exact E|]. apply ctor_post_Q; assumption.
    + intros Hn Hp. destruct (proj2 (mk_u64_spec n d Hn ltac:(lia)) Hd) as (x & E & P). exists x. split; [exact E|].
      apply ctor_post_Q; assumption.
    + destruct (of_text_spec n true d (fun _ => Hd)) as (x & E & P). exists x. split; [exact E|]. apply ctor_post_Q; assumption.
    + intros redarg Hr. destruct (proj2 (mk_nd_spec n d redarg) Hd) as (x & E & P & V & Z & _ & _). exists x.
      split; [exact E|]. split; [exact P|]. split; [|exact Z].
      assert (E2 : (toQ x == toQ (n, 1%Z) / toQ (d, 1%Z))%Q) by (apply toQ_div; cbn [num den fst snd]; lia).
      exact E2.
Qed.

(* every finite double: sign bit, biased exponent 0..2046, 52-bit mantissa field *)
Definition Ctor_double_stmt := forall red sgn e m, 0 <= e <= 2046 -> 0 <= m < 2 ^ 52 ->
  exists x, of_double red sgn e m = Some x /\ 0 < den x /\ (red = true -> canon x) /\
            (toQ x == toQ (dbl_rat sgn e m))%Q.
Lemma ctor_double_thm : Ctor_double_stmt.
Proof.
  intros red sgn e m He Hm. destruct (of_double_spec red sgn e m He Hm) as (x & E & P & C & S).
  exists x. split; [exact E|]. split; [exact P|]. split; [exact C|].
  apply toQ_same; [exact P | unfold dbl_rat; cbn [den snd]; apply pow2_pos; lia | exact S].
Qed.

(* ------------------------------------------------------------------ floor, ceil, trunc, round *)
Definition Rounding_stmt := forall x, 0 < den x ->
  (inject_Z (floor x) <= toQ x /\ toQ x < inject_Z (floor x + 1))%Q /\
  (inject_Z (ceil x - 1) < toQ x /\ toQ x <= inject_Z (ceil x))%Q /\
  trunc x = (if 0 <=? num x then floor x else ceil x) /\
  round x = Z.sgn (num x) * ((2 * Z.abs (num x) + den x) / (2 * den x)).
Lemma rounding_thm : Rounding_stmt.
Proof.
  intros x H. assert (F := floor_spec x H). assert (C := ceil_spec x H).
  split; [|split; [|split; [apply trunc_spec; exact H | apply round_spec; exact H]]].
  - destruct x as [n d]. unfold toQ, inject_Z, Qle, Qlt. cbn [num den fst snd Qnum Qden] in *.
    rewrite !Z2Pos.id by assumption. lia.
  - destruct x as [n d]. unfold toQ, inject_Z, Qle, Qlt. cbn [num den fst snd Qnum Qden] in *.
    rewrite !Z2Pos.id by assumption. lia.
Qed.

(* ------------------------------------------------------------------ powers *)
Definition Pow_stmt := forall x y, canon x ->
  (0 <= y -> canon (pow_u x y) /\ (toQ (pow_u x y) == Qpower (toQ x) y)%Q) /\
  ((y < 0 -> num x <> 0) -> canon (pow_i64 x y) /\ (toQ (pow_i64 x y) == Qpower (toQ x) y)%Q).
Lemma pow_thm : Pow_stmt.
Proof. intros x y C. split; [apply pow_u_spec; exact C | apply pow_i64_spec; exact C]. Qed.

(* ------------------------------------------------------------------ QField<Rational> wrappers *)
Lemma q_invin_closed : forall r, q_invin r = inv_closed r.
Proof. intros r. unfold q_invin, inv_closed, signI. cbv zeta. rewrite sgn_ltb. reflexivity. Qed.
Lemma q_inv_closed : forall alias r, q_inv alias r = inv_closed r.
Proof. intros [|] r; unfold q_inv; [apply q_invin_closed|]. unfold inv_closed, signI. cbv zeta. rewrite sgn_ltb. reflexivity. Qed.

Definition QField_unary_stmt := forall alias a, canon a ->
  canon (q_neg a) /\ (toQ (q_neg a) == - toQ a)%Q /\ q_negin a = q_neg a /\
  (num a <> 0 -> canon (q_inv alias a) /\ (toQ (q_inv alias a) == / toQ a)%Q /\ q_invin a = q_inv alias a).
Lemma qfield_unary_thm : QField_unary_stmt.
Proof.
  intros alias a C. split; [apply canon_neg; exact C|]. split.
  { apply toQ_opp; [apply C | apply C | reflexivity]. }
  split; [reflexivity|]. intros Hn. rewrite q_inv_closed, q_invin_closed.
  assert (P := inv_closed_post true a (proj1 C) Hn (fun _ => C)).
  split; [apply P; reflexivity|]. split; [|reflexivity].
  destruct P as (PD & _ & V). cbn [num den fst snd] in V. apply toQ_inv; [exact PD | apply C | exact Hn | lia].
Qed.

(* axpy family: r = a*b + c, r += a*b, r = c - a*b, r = a*b - c, r = a*b - r, r -= a*b *)
Definition QField_axpy_stmt := forall a b c, canon a -> canon b -> canon c ->
  (canon (q_axpy true a b c) /\ (toQ (q_axpy true a b c) == toQ a * toQ b + toQ c)%Q) /\
  (canon (q_axpyin true c a b) /\ (toQ (q_axpyin true c a b) == toQ c + toQ a * toQ b)%Q) /\
  (canon (q_maxpy true a b c) /\ (toQ (q_maxpy true a b c) == toQ c - toQ a * toQ b)%Q) /\
  (canon (q_axmy true a b c) /\ (toQ (q_axmy true a b c) == toQ a * toQ b - toQ c)%Q) /\
  (canon (q_axmyin true c a b) /\ (toQ (q_axmyin true c a b) == toQ a * toQ b - toQ c)%Q) /\
  (canon (q_maxpyin true c a b) /\ (toQ (q_maxpyin true c a b) == toQ c - toQ a * toQ b)%Q).
Lemma qfield_axpy_thm : QField_axpy_stmt.
Proof.
  intros a b c Ca Cb Cc. destruct (mul_thm a b Ca Cb) as [Cm Vm].
  unfold q_axpy, q_axpyin, q_maxpy, q_axmy, q_axmyin, q_maxpyin.
  set (p := rmul true a b) in *. clearbody p.
  destruct (add_thm p c Cm Cc) as [C1 V1].
  destruct (addin_subin_thm false p c Cc Cm ltac:(discriminate)) as (C2 & V2 & C6 & V6).
  destruct (sub_thm c p Cc Cm) as [C3 V3]. destruct (sub_thm p c Cm Cc) as [C4 V4].
  rewrite Vm in *.
  split; [split; assumption|]. split; [split; assumption|]. split; [split; assumption|].
  split; [split; assumption|]. split; [split; assumption|]. split; assumption.
Qed.

(* ------------------------------------------------------------------ the hypotheses are satisfiable; spot evaluations *)
Example canon_example : canon (-3, 4) /\ canon (0, 1) /\ canon (100000000000000000000000000000000000000000001, 3).
Proof. repeat split; cbn; try lia; reflexivity. Qed.
Example not_canon_example : ~ canon (2, 4) /\ ~ canon (0, 5) /\ ~ canon (1, -2).
Proof. repeat split; intros [H G]; cbn in *; try lia; discriminate. Qed.
(* different limb counts: compare() returns 2, the operators still answer by its sign (63a4489) *)
Example limb_difference_example :
  let a := (100000000000000000000000000000000000000000001, 3) in let b := (1, 3) in
  rcompare a b = 2 /\ op_gt a b = true /\ op_lt a b = false /\ op_eq a b = false /\ op_lt b a = true.
Proof. vm_compute. repeat split. Qed.
Example add_example : radd true (1, 6) (1, 10) = (4, 15) /\ addin true (1, 2) true (1, 2) = (1, 1) /\ subin true (1, 2) true (1, 2) = (0, 1).
Proof. vm_compute. repeat split. Qed.
Example double_example : of_double true true 0 1 = Some (-1, 2 ^ 1074) /\ of_double true false 1023 0 = Some (1, 1).
Proof. vm_compute. repeat split. Qed.
