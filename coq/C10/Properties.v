(* C10 property theorems.  Nothing but statements closed by `exact`, each followed by Print Assumptions.
   The statements (…_stmt) are spelled out in ProofsProps.v / ProofsCmp.v:
     canon r = den r > 0 /\ gcd (num r) (den r) = 1;  toQ r = num r / den r in Coq's Q;  red = true is Reduce mode. *)
From Coq Require Import ZArith QArith.
From C10 Require Import Model ProofsBase ProofsCmp ProofsProps ProofsMisc ProofsOrder ProofsDouble ProofsAlias ProofsAudit.
Local Open Scope Z_scope.

Theorem C10_canonical_zero_is_0_over_1 : Canonical_zero_stmt.        Proof. exact canonical_zero_thm. Qed.
Print Assumptions C10_canonical_zero_is_0_over_1.
Theorem C10_canonical_form_unique : Canonical_unique_stmt.           Proof. exact canonical_unique_thm. Qed.
Print Assumptions C10_canonical_form_unique.
Theorem C10_reduce_canonical_exact : Reduce_stmt.                     Proof. exact reduce_thm. Qed.
Print Assumptions C10_reduce_canonical_exact.
Theorem C10_add_canonical_exact : Add_stmt.                           Proof. exact add_thm. Qed.
Print Assumptions C10_add_canonical_exact.
Theorem C10_sub_canonical_exact : Sub_stmt.                           Proof. exact sub_thm. Qed.
Print Assumptions C10_sub_canonical_exact.
Theorem C10_mul_canonical_exact : Mul_stmt.                           Proof. exact mul_thm. Qed.
Print Assumptions C10_mul_canonical_exact.
Theorem C10_div_canonical_exact : Div_stmt.                           Proof. exact div_thm. Qed.
Print Assumptions C10_div_canonical_exact.
Theorem C10_neg_abs_canonical_exact : Neg_abs_stmt.                   Proof. exact neg_abs_thm. Qed.
Print Assumptions C10_neg_abs_canonical_exact.
Theorem C10_addin_subin_canonical_exact_any_alias : Addin_subin_stmt. Proof. exact addin_subin_thm. Qed.
Print Assumptions C10_addin_subin_canonical_exact_any_alias.
Theorem C10_mulin_canonical_exact_any_alias : Mulin_stmt.             Proof. exact mulin_thm. Qed.
Print Assumptions C10_mulin_canonical_exact_any_alias.
Theorem C10_divin_canonical_exact_any_alias : Divin_stmt.             Proof. exact divin_thm. Qed.
Print Assumptions C10_divin_canonical_exact_any_alias.
Theorem C10_noreduce_mode_exact : NoReduce_stmt.                      Proof. exact noreduce_thm. Qed.
Print Assumptions C10_noreduce_mode_exact.
Theorem C10_noreduce_mode_inplace_exact : NoReduce_inplace_stmt.      Proof. exact noreduce_inplace_thm. Qed.
Print Assumptions C10_noreduce_mode_inplace_exact.
Theorem C10_compare_is_sign_of_difference : Compare_stmt.             Proof. exact compare_thm. Qed.
Print Assumptions C10_compare_is_sign_of_difference.
Theorem C10_absCompare_is_sign_of_abs_difference : AbsCompare_stmt.   Proof. exact abscompare_thm. Qed.
Print Assumptions C10_absCompare_is_sign_of_abs_difference.
Theorem C10_six_operators_are_the_order_of_Q : Operators_stmt.        Proof. exact operators_thm. Qed.
Print Assumptions C10_six_operators_are_the_order_of_Q.
(* the two statements formerly named C10_trichotomy / C10_operator_complements hold for ANY value in place of compare():
   they are facts about the tests `< 0`, `== 0`, `> 0` of the inline operators and are named accordingly; the trichotomy of
   the property sentence (exactly one operator answers, and it is the one Q dictates) is C10_trichotomy_matches_Q below *)
Theorem C10_sign_tests_exclusive_and_complementary_for_any_compare_value : Sign_tests_any_compare_stmt. Proof. exact sign_tests_any_compare_thm. Qed.
Print Assumptions C10_sign_tests_exclusive_and_complementary_for_any_compare_value.
Theorem C10_trichotomy_matches_Q : Trichotomy_Q_stmt.                 Proof. exact trichotomy_Q_thm. Qed.
Print Assumptions C10_trichotomy_matches_Q.
Theorem C10_qfield_predicates : QField_predicates_stmt.              Proof. exact qfield_predicates_thm. Qed.
Print Assumptions C10_qfield_predicates.
Theorem C10_ctor_integer_canonical_exact : Ctor_integer_stmt.         Proof. exact ctor_integer_thm. Qed.
Print Assumptions C10_ctor_integer_canonical_exact.
Theorem C10_ctor_pair_text_canonical_exact : Ctor_pair_stmt.          Proof. exact ctor_pair_thm. Qed.
Print Assumptions C10_ctor_pair_text_canonical_exact.
Theorem C10_ctor_double_every_finite_double_exact : Ctor_double_stmt. Proof. exact ctor_double_thm. Qed.
Print Assumptions C10_ctor_double_every_finite_double_exact.
Theorem C10_floor_ceil_trunc_round : Rounding_stmt.                   Proof. exact rounding_thm. Qed.
Print Assumptions C10_floor_ceil_trunc_round.
Theorem C10_pow_canonical_exact : Pow_stmt.                           Proof. exact pow_thm. Qed.
Print Assumptions C10_pow_canonical_exact.
Theorem C10_qfield_neg_inv_canonical_exact : QField_unary_stmt.       Proof. exact qfield_unary_thm. Qed.
Print Assumptions C10_qfield_neg_inv_canonical_exact.
Theorem C10_qfield_axpy_family_canonical_exact : QField_axpy_stmt.    Proof. exact qfield_axpy_thm. Qed.
Print Assumptions C10_qfield_axpy_family_canonical_exact.
Theorem C10_conversion_to_integer_types_truncates : Conv_int_stmt.    Proof. exact conv_int_thm. Qed.
Print Assumptions C10_conversion_to_integer_types_truncates.
Theorem C10_print_shows_denominator_iff_not_integer : Print_stmt.     Proof. exact print_thm. Qed.
Print Assumptions C10_print_shows_denominator_iff_not_integer.
Theorem C10_operator_mod_is_the_residue : Mod_stmt.                    Proof. exact mod_thm. Qed.
Print Assumptions C10_operator_mod_is_the_residue.
(* phase 3: the order on every stored form (canonical or left behind by NoReduce mode), total order, compatibility *)
Theorem C10_six_operators_are_the_order_of_Q_on_any_stored_form : Operators_any_form_stmt. Proof. exact operators_any_form_thm. Qed.
Print Assumptions C10_six_operators_are_the_order_of_Q_on_any_stored_form.
Theorem C10_absCompare_needs_normalised_zero : AbsCompare_needs_normalised_zero_stmt. Proof. exact abscompare_needs_normalised_zero_thm. Qed.
Print Assumptions C10_absCompare_needs_normalised_zero.
Theorem C10_total_order : Total_order_stmt.                            Proof. exact total_order_thm. Qed.
Print Assumptions C10_total_order.
Theorem C10_order_antisymmetric_on_canonical_forms : Antisymmetric_canonical_stmt. Proof. exact antisymmetric_canonical_thm. Qed.
Print Assumptions C10_order_antisymmetric_on_canonical_forms.
Theorem C10_order_compatible_with_arithmetic_both_modes : Order_compatible_stmt. Proof. exact order_compatible_thm. Qed.
Print Assumptions C10_order_compatible_with_arithmetic_both_modes.
(* phase 3: operator double / operator float *)
Theorem C10_ieee_division_model_is_round_to_nearest_even : Rne_stmt.  Proof. exact rne_thm. Qed.
Print Assumptions C10_ieee_division_model_is_round_to_nearest_even.
Theorem C10_mpz_get_d_model_truncates_to_53_bits : Trunc_bits_stmt.   Proof. exact trunc_bits_thm. Qed.
Print Assumptions C10_mpz_get_d_model_truncates_to_53_bits.
Theorem C10_operator_double_is_rounded_quotient_of_truncated_members : To_double_stmt. Proof. exact to_double_thm. Qed.
Print Assumptions C10_operator_double_is_rounded_quotient_of_truncated_members.
Theorem C10_operator_float_correctly_rounded_below_2p24 : To_float_stmt. Proof. exact to_float_thm. Qed.
Print Assumptions C10_operator_float_correctly_rounded_below_2p24.
Theorem C10_operator_double_not_correctly_rounded_in_general : To_double_not_correctly_rounded_stmt. Proof. exact to_double_not_correctly_rounded_thm. Qed.
Print Assumptions C10_operator_double_not_correctly_rounded_in_general.
Theorem C10_double_roundtrip_limited_by_mpz_get_d_range : Double_roundtrip_limit_stmt. Proof. exact double_roundtrip_limit_thm. Qed.
Print Assumptions C10_double_roundtrip_limited_by_mpz_get_d_range.
(* phase 3: the field-interface wrappers under every aliasing pattern of r, a, b, c *)
Theorem C10_qfield_wrappers_statement_level_equal_call_time_values : Wrappers_statement_level_stmt. Proof. exact wrappers_statement_level_thm. Qed.
Print Assumptions C10_qfield_wrappers_statement_level_equal_call_time_values.
Theorem C10_qfield_wrappers_exact_under_every_aliasing_pattern : Wrappers_any_alias_stmt. Proof. exact wrappers_any_alias_thm. Qed.
Print Assumptions C10_qfield_wrappers_exact_under_every_aliasing_pattern.
Theorem C10_two_step_axpy_wrong_when_r_is_c : Two_step_axpy_refuted_stmt. Proof. exact two_step_axpy_refuted_thm. Qed.
Print Assumptions C10_two_step_axpy_wrong_when_r_is_c.
Theorem C10_inv_without_alias_guard_wrong_history : Inv_unguarded_refuted_stmt. Proof. exact inv_unguarded_refuted_thm. Qed.
Print Assumptions C10_inv_without_alias_guard_wrong_history.
(* phase 4 *)
Theorem C10_pow_negative_exponent_total_with_exception : Pow_total_stmt. Proof. exact pow_total_thm. Qed.
Print Assumptions C10_pow_negative_exponent_total_with_exception.
Theorem C10_zero_divisor_history_unguarded_bodies_store_null_denominator : Zero_divisor_history_stmt. Proof. exact zero_divisor_history_thm. Qed.
Print Assumptions C10_zero_divisor_history_unguarded_bodies_store_null_denominator.
Theorem C10_conversion_to_integer_type_with_cast : Conv_int_T_stmt.     Proof. exact conv_int_T_thm. Qed.
Print Assumptions C10_conversion_to_integer_type_with_cast.
Theorem C10_ieee_field_packing_means_m_times_2_pow_e : Encode_stmt.    Proof. exact encode_thm. Qed.
Print Assumptions C10_ieee_field_packing_means_m_times_2_pow_e.
Theorem C10_rounded_quotient_has_the_shape_encode_needs : Rne_shape_stmt. Proof. exact rne_shape_thm. Qed.
Print Assumptions C10_rounded_quotient_has_the_shape_encode_needs.
Theorem C10_operator_double_field_by_field : To_double_fields_stmt.    Proof. exact to_double_fields_thm. Qed.
Print Assumptions C10_operator_double_field_by_field.
Theorem C10_integer_to_float_is_truncate_then_round : Get_f_stmt.      Proof. exact get_f_thm. Qed.
Print Assumptions C10_integer_to_float_is_truncate_then_round.
Theorem C10_operator_float_any_member_size : To_float_general_stmt.    Proof. exact to_float_general_thm. Qed.
Print Assumptions C10_operator_float_any_member_size.
