(* C10 property theorems.  Nothing but statements closed by `exact`, each followed by Print Assumptions. *)
From Coq Require Import ZArith QArith.
From C10 Require Import Model ProofsBase.
Local Open Scope Z_scope.

Theorem C10_reduce_canonical_exact : forall s, 0 < den s -> canon (reduce s) /\ same (reduce s) s.
Proof. exact reduce_spec. Qed.
Print Assumptions C10_reduce_canonical_exact.
