(* C10 driver: one case per line  "<op> <red> <decimal args...>"  ->  result line
   rationals are printed "num den", thrown GivMathDivZero as "THROW", ints/bools as decimal *)
let zs = z_of_string
let pz = string_of_z
let pr (r : Model.rat) = pz (fst r) ^ " " ^ pz (snd r)
let po (o : Model.rat option) = match o with Some r -> pr r | None -> "THROW"
let pb b = if b then "1" else "0"
exception Throw
(* a sequence of in-place operations on one object: x.n x.d (op y.n y.d)* *)
let run_seq red (toks : string list) : string =
  let get = function Some r -> r | None -> raise Throw in
  let rec go (x : Model.rat) = function
    | op :: yn :: yd :: rest ->
      let y = (zs yn, zs yd) in
      let x' = (match op with
        | "a" | "qa" -> Model.addin false y red x
        | "s" | "qs" -> Model.subin false y red x
        | "m" | "qm" -> Model.mulin false y red x
        | "d" | "qd" -> get (Model.divin false y red x)
        | "A" -> Model.addin true x red x
        | "S" -> Model.subin true x red x
        | "M" -> Model.mulin true x red x
        | "D" -> get (Model.divin true x red x)
        | "n" -> Model.q_negin x
        | "i" -> get (Model.q_invin_g x)
        | "N" -> Model.rneg x
        | "t" -> Model.radd red x y
        | "u" -> Model.rsub red x y
        | "p" -> Model.rmul red x y
        | "q" -> get (Model.rdiv red x y)
        | "xa" -> Model.q_axpyin red x y y
        | "xm" -> Model.q_maxpyin red x y y
        | _ -> failwith "seq op") in
      go x' rest
    | _ -> x in
  match toks with
  | xn :: xd :: rest -> (try pr (go (zs xn, zs xd) rest) with Throw -> "THROW")
  | _ -> "BAD-SEQ"
(* wrapper call on a store: op "qw:<name>:<pattern>", args = values of the input parameters in declaration order *)
let run_qw red (name : string) (pat : string) (args : string list) : string =
  let np = String.length pat in
  let idx i = z_of_za (ZA.of_int (Char.code pat.[i] - Char.code '0')) in
  let inpl = List.mem name ["axpyin"; "maxpyin"; "axmyin"; "addin"; "subin"; "mulin"; "divin"; "negin"; "invin"] in
  let st = ref (fun (_ : Model.z) -> ((zs "7", zs "5") : Model.rat)) in
  let rec fill i = function
    | n :: d :: rest when i < np -> st := Model.upd !st (idx i) (zs n, zs d); fill (i + 1) rest
    | _ -> () in
  fill (if inpl then 0 else 1) args;
  let s = !st in
  let p i = idx i in
  let out (s' : Model.store) = pr (s' (p 0)) in
  (match name, np with
   | "add", 3 -> out (Model.exec_add red s (p 0) (p 1) (p 2))
   | "sub", 3 -> out (Model.exec_sub red s (p 0) (p 1) (p 2))
   | "mul", 3 -> out (Model.exec_mul red s (p 0) (p 1) (p 2))
   | "div", 3 -> (match Model.exec_div red s (p 0) (p 1) (p 2) with Some s' -> out s' | None -> "THROW")
   | "axpy", 4 -> out (Model.exec_axpy red s (p 0) (p 1) (p 2) (p 3))
   | "maxpy", 4 -> out (Model.exec_maxpy red s (p 0) (p 1) (p 2) (p 3))
   | "axmy", 4 -> out (Model.exec_axmy red s (p 0) (p 1) (p 2) (p 3))
   | "axpyin", 3 -> out (Model.exec_axpyin red s (p 0) (p 1) (p 2))
   | "maxpyin", 3 -> out (Model.exec_maxpyin red s (p 0) (p 1) (p 2))
   | "axmyin", 3 -> out (Model.exec_axmyin red s (p 0) (p 1) (p 2))
   | "addin", 2 -> out (Model.exec_addin red s (p 0) (p 1))
   | "subin", 2 -> out (Model.exec_subin red s (p 0) (p 1))
   | "mulin", 2 -> out (Model.exec_mulin red s (p 0) (p 1))
   | "divin", 2 -> (match Model.exec_divin red s (p 0) (p 1) with Some s' -> out s' | None -> "THROW")
   | "neg", 2 -> out (Model.exec_neg s (p 0) (p 1))
   | "inv", 2 -> (match Model.exec_inv s (p 0) (p 1) with Some s' -> out s' | None -> "THROW")
   | "negin", 1 -> out (Model.exec_negin s (p 0))
   | "invin", 1 -> (match Model.exec_invin s (p 0) with Some s' -> out s' | None -> "THROW")
   | "assign", 2 -> out (Model.exec_assign s (p 0) (p 1))
   | _ -> "UNKNOWN-QW-OP")
let () = run_lines (fun toks ->
  match toks with
  | "skip" :: _ -> "SKIP"
  | "seq" :: reds :: args -> run_seq (reds = "1") args
  | op :: reds :: args when String.length op > 3 && String.sub op 0 3 = "qw:" ->
    (match String.split_on_char ':' op with
     | [_; name; pat] -> run_qw (reds = "1") name pat args
     | _ -> "BAD-QW")
  | op :: reds :: args ->
    let red = (reds = "1") in
    let a = Array.of_list (List.map zs args) in
    let n = Array.length a in
    let r i = (a.(i), a.(i + 1)) in
    let b i = (za_of_z a.(i) <> ZA.zero) in
    ignore n;
    (match op with
     | "consts" ->
       (* Rational::zero(0), one(1), mOne(-1); QField: one(1), mOne(-one), zero(0) *)
       let w k = Model.mk_word (zs k) in
       String.concat " " [pr (w "0"); pr (w "1"); pr (w "-1"); pr (w "0"); pr (w "1"); pr (Model.rneg (w "1"))]
     | "mk_neutral" -> pr (Model.mk_neutral (b 0))
     | "mk_int" -> pr (Model.mk_int a.(0))
     | "mk_word" -> pr (Model.mk_word a.(0))
     | "mk_nd" -> po (Model.mk_nd a.(0) a.(1) a.(2))
     | "mk_u64" -> po (Model.mk_u64 a.(0) a.(1))
     | "mk_i64" -> po (Model.mk_i64 a.(0) a.(1))
     | "of_double" -> po (Model.of_double red (b 0) a.(1) a.(2))
     | "of_text" -> po (Model.of_text a.(0) (b 1) a.(2))
     | "reduce" -> pr (Model.reduce (r 0))
     | "add" -> pr (Model.radd red (r 0) (r 2))
     | "sub" -> pr (Model.rsub red (r 0) (r 2))
     | "mul" -> pr (Model.rmul red (r 0) (r 2))
     | "div" -> po (Model.rdiv red (r 0) (r 2))
     | "neg" -> pr (Model.rneg (r 0))
     | "pos" -> pr (Model.rpos (r 0))
     | "abs" -> pr (Model.rabs (r 0))
     (* in-place: <alias> this.num this.den [arg.num arg.den] *)
     | "addin" -> pr (Model.addin (b 0) (if b 0 then r 1 else r 3) red (r 1))
     | "subin" -> pr (Model.subin (b 0) (if b 0 then r 1 else r 3) red (r 1))
     | "mulin" -> pr (Model.mulin (b 0) (if b 0 then r 1 else r 3) red (r 1))
     | "divin" -> po (Model.divin (b 0) (if b 0 then r 1 else r 3) red (r 1))
     | "conv_int" -> (match Model.conv_int_T a.(0) a.(1) (r 2) with Some v -> pz v | None -> "OUT-OF-RANGE")
     | "print" -> (match Model.print_den (r 0) with Some d -> pz (fst (r 0)) ^ "/" ^ pz d | None -> pz (fst (r 0)))
     | "string" -> pz (fst (r 0)) ^ "/" ^ pz (snd (r 0))
     | "mod" -> (match Model.rmod (r 0) a.(2) with None -> "THROW" | Some None -> "NOINV" | Some (Some v) -> pz v)
     | "rt_double" -> (match Model.of_double red (b 0) a.(1) a.(2) with
                       | Some x -> (match Model.to_double x with Some v -> ZA.format "%016x" (za_of_z v) | None -> "OUT-OF-RANGE")
                       | None -> "THROW")
     | "rt_float" -> (match Model.of_double red (b 0) a.(1) a.(2) with
                       | Some x -> (match Model.to_float x with Some v -> ZA.format "%08x" (za_of_z v) | None -> "OUT-OF-RANGE")
                       | None -> "THROW")
     | "to_double" -> (match Model.to_double (r 0) with Some b -> ZA.format "%016x" (za_of_z b) | None -> "OUT-OF-RANGE")
     | "to_float" -> (match Model.to_float (r 0) with Some b -> ZA.format "%08x" (za_of_z b) | None -> "OUT-OF-RANGE")
     | "trunc" -> pz (Model.trunc (r 0))
     | "floor" -> pz (Model.floor (r 0))
     | "ceil" -> pz (Model.ceil (r 0))
     | "round" -> pz (Model.round (r 0))
     | "pow_i64" -> po (Model.pow_i64_g (r 0) a.(2))
     | "pow_u" -> pr (Model.pow_u (r 0) a.(2))
     | "cmpall" ->
       let x = r 0 and y = r 2 in
       String.concat " " [pz (Model.rcompare x y); pz (Model.absCompare x y);
                          pb (Model.op_eq x y); pb (Model.op_ne x y); pb (Model.op_lt x y);
                          pb (Model.op_gt x y); pb (Model.op_le x y); pb (Model.op_ge x y)]
     | "preds" ->
       let x = r 0 in
       String.concat " " [pb (Model.isZero x); pb (Model.isOne x); pb (Model.isMOne x);
                          pb (Model.isInteger x); pz (Model.sign x)]
     | "q_init_nd" -> po (Model.q_init_nd a.(0) a.(1))
     | "q_axpy" -> pr (Model.q_axpy red (r 0) (r 2) (r 4))
     | "q_axpyin" -> pr (Model.q_axpyin red (r 0) (r 2) (r 4))
     | "q_maxpy" -> pr (Model.q_maxpy red (r 0) (r 2) (r 4))
     | "q_axmy" -> pr (Model.q_axmy red (r 0) (r 2) (r 4))
     | "q_axmyin" -> pr (Model.q_axmyin red (r 0) (r 2) (r 4))
     | "q_maxpyin" -> pr (Model.q_maxpyin red (r 0) (r 2) (r 4))
     | "q_neg" -> pr (Model.q_neg (r 0))
     | "q_negin" -> pr (Model.q_negin (r 0))
     | "q_inv" -> po (Model.q_inv_g (b 0) (r 1))
     | "q_invin" -> po (Model.q_invin_g (r 0))
     | "q_preds" ->
       let x = r 0 and y = r 2 in
       String.concat " " [pb (Model.q_isZero x); pb (Model.q_isOne x); pb (Model.q_isMOne x);
                          pb (Model.q_areEqual x y)]
     | _ -> "UNKNOWN-OP")
  | _ -> "BAD-LINE")
