(* Extraction of the executable models for the correspondence run (ExtrOcamlBasic only). *)
From Coq Require Import ZArith.
From Coq Require Extraction.
From Coq Require Import ExtrOcamlBasic.
From C11 Require Import Model PolyModel.
Extraction Language OCaml.
Cd "ocaml".
Extraction "model.ml" ratrecon RR7 RR4 RR6f RatCtor QF_ratrecon_k QF_ratrecon zp_ratrecon5 zp_ratreconcheck zp_ratrecon6.
Cd "..".
