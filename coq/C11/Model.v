(* C11 — executable model of givaro's integer rational reconstruction, written after the code of
   src/kernel/rational/givratreconstruct.C (branch by branch).  No proofs here.

   Integer operations used by the code and their meaning on Z:
     q /= r1, x / y        mpz_tdiv_q      Z.quot
     x %= m, f % m         mpz_tdiv_r      Z.rem
     maxpyin(r,u,q)        r -= u*q
     gcd(num,den)          mpz_gcd (>= 0)  Z.gcd
     Givaro::sqrt(m)       mpz_sqrt        Z.sqrt
     newk <<= 1            newk * 2
   The `recurs` argument of ratrecon only switches the std::cerr diagnostics off; it has no
   influence on the results and does not appear in the model of ratrecon itself. *)
From Coq Require Import ZArith Bool.
Local Open Scope Z_scope.

(* state of the loop: (r0, t0, r1, t1) *)
Definition st := (Z * Z * Z * Z)%type.

(* while (r1 >= k) { q = r0/r1; (r0,r1) <- (r1, r0 - r1*q); (t0,t1) <- (t1, t0 - t1*q); }
   lines 58-79; None = fuel exhausted.  For k <= 0 the C++ reaches r1 = 0 >= k and divides by zero (GMP aborts); the model
   then cycles (Z.quot r0 0 = 0) until the fuel is gone and answers None as well: every theorem assumes 1 <= k. *)
Fixpoint loop (fuel : nat) (k r0 t0 r1 t1 : Z) : option st :=
  if r1 >=? k then
    match fuel with
    | O => None
    | S n => let q := Z.quot r0 r1 in
             loop n k r1 t1 (r0 - r1 * q) (t0 - t1 * q)
    end
  else Some (r0, t0, r1, t1).

(* lines 78-84 and 139-145: sign normalisation of the pair *)
Definition norm_num (r t : Z) : Z := if t <? 0 then - r else r.
Definition norm_den (t : Z) : Z := if t <? 0 then - t else t.

(* result: (returned bool, num, den) *)
Definition res := (bool * Z * Z)%type.

(* lines 86-184, entered with the state left by the loop *)
Definition finish (f m k : Z) (forcereduce : bool) (s : st) : res :=
  let '(r0, t0, r1, t1) := s in
  let num := norm_num r1 t1 in
  let den := norm_den t1 in
  if forcereduce then
    if negb (Z.gcd num den =? 1) then
      if num =? 0 then
        if Z.rem f m =? 0 then (true, num, den) else (false, num, den)
      else
        let q := Z.quot (r0 + r1 - k) r1 in
        let r0' := r0 - q * r1 in
        let t0' := t0 - q * t1 in
        let num' := norm_num r0' t0' in
        let den' := norm_den t0' in
        if negb (Z.gcd num' den' =? 1) then (false, num', den') else (true, num', den')
    else (true, num, den)
  else (true, num, den).

(* lines 47-52:  r1 = f; if (f<0) Integer::modin(r1,m);   (commit 5d1bca8)
   Integer::modin(res,n) is mpz_mod for res != 0: the non-negative remainder modulo |n| *)
Definition init_r1 (f m : Z) : Z := if f <? 0 then f mod (Z.abs m) else f.

Definition ratrecon_fuel (fuel : nat) (f m k : Z) (forcereduce : bool) : option res :=
  match loop fuel k m 0 (init_r1 f m) 1 with
  | None => None
  | Some s => Some (finish f m k forcereduce s)
  end.

(* fuel: the product r0*r1 at least halves per iteration once r1 <= r0 (ProofsLoop.v, fuel_enough) *)
Definition fuel_of (m : Z) : nat := Z.to_nat (2 * Z.log2 m + 4).

Definition ratrecon (f m k : Z) (forcereduce : bool) : option res :=
  ratrecon_fuel (fuel_of m) f m k forcereduce.

(* the widening loop  for (newk = k+1; !res && newk < f; newk <<= 1) res = ratrecon(a,b,x,m,newk,fr,true);
   `cur` is the result of the previous call (a, b keep the values of the last call made) *)
Fixpoint widen (fuel : nat) (x m f newk : Z) (forcereduce : bool) (cur : res) : option res :=
  let '(ok, _, _) := cur in
  if negb ok && (newk <? f) then
    match fuel with
    | O => None
    | S n => match ratrecon x m newk forcereduce with
             | None => None
             | Some r => widen n x m f (newk * 2) forcereduce r
             end
    end
  else Some cur.

Definition widen_fuel (f : Z) : nat := Z.to_nat (Z.log2 f + 2).

(* lines 203-231: RationalReconstruction(a,b,f,m,k,forcereduce,recursive) *)
Definition normalise (f m : Z) : Z :=
  if f <? 0 then
    let x1 := if (- f) >? m then Z.rem f m else f in
    if x1 <? 0 then x1 + m else x1
  else
    if f >? m then Z.rem f m else f.

Definition RR7 (f m k : Z) (forcereduce recursive : bool) : option res :=
  let x := normalise f m in
  if x =? 0 then Some (true, 0, 1)
  else
    match ratrecon x m k forcereduce with
    | None => None
    | Some r => if recursive then widen (widen_fuel f) x m f (k + 1) forcereduce r else Some r
    end.

(* lines 233-236: RationalReconstruction(a,b,x,m) *)
Definition RR4 (x m : Z) : option res := ratrecon x m (Z.sqrt m) true.

(* HISTORY (not extracted, not compared any more): RationalReconstruction(a,b,x,m,a_bound,b_bound) as it was in /repo from
   68125ac until 224c4ab; kept for C11_rr6_numbound_refuted
     Integer bound = x/bb;
     bool res = ratrecon(a,b,x,m,(bound>a_bound?bound:a_bound),true,false);  return res && (b <= bb);
   `x/bb` is mpz_tdiv_q: for b_bound = 0 GMP raises a division by zero (the process aborts), so the model is PARTIAL there:
   None.  (None is also "fuel exhausted"; C11_rr6_total shows that for m >= 2, the bound in use >= 1 and b_bound <> 0 the
   result is Some.)  This body does NOT honour the numerator bound of the header (`numbound`): see RR6_numbound_refuted. *)
Definition RR6 (x m a_bound b_bound : Z) : option res :=
  if b_bound =? 0 then None else
  let bound := Z.quot x b_bound in
  let k := if bound >? a_bound then bound else a_bound in
  match ratrecon x m k true with
  | None => None
  | Some (ok, a, b) => Some (ok && (b <=? b_bound), a, b)
  end.

(* lines 243-249, the body in /repo NOW (224c4ab = frag/C11.fix-2.diff): the numerator bound handed to ratrecon is the caller's numbound
     bool res = ratrecon(a,b,x,m,a_bound,true,false);  return res && (b <= bb);
   This is the function the 6-argument call forms are compared with. *)
Definition RR6f (x m a_bound b_bound : Z) : option res :=
  match ratrecon x m a_bound true with
  | None => None
  | Some (ok, a, b) => Some (ok && (b <=? b_bound), a, b)
  end.

(* lines 194-201: Rational::Rational(f,m,k,recurs); flags = Rational::flags (Reduce/NoReduce).
   The constructor has no success report: the result is the (num, den) of the last call. *)
Definition RatCtor (f m k : Z) (flags recurs : bool) : option res :=
  match ratrecon f m k flags with
  | None => None
  | Some r => if recurs then widen (widen_fuel f) f m f (k + 1) flags r else Some r
  end.

(* qfield.h 135-140 *)
Definition QF_ratrecon_k (f m k : Z) (flags recurs : bool) : option res := RatCtor f m k flags recurs.
Definition QF_ratrecon (f m : Z) (flags recurs : bool) : option res := RatCtor f m (Z.sqrt m) flags recurs.
