(* C11 — the polynomial theorem over the concrete coefficient-vector polynomials.
   The hypotheses of PolyProofs.SoundS (ring laws, degree laws, specifications of assign / divmodin / maxpyin / divin) are
   PROVED here for the instance PolyModel.LOps, whose operations are the models of Poly1Dom in coq/C08 (Newton-inverse
   division, Karatsuba product with any threshold >= 1, in-place normalisation), over EVERY coefficient domain satisfying the
   field laws C08.Spec.FieldOK.  Ring laws and the specifications of the operations come from C08's theorems
   (ProofsDiv: eqv_ring, divmodin_identity, mul_eqv, subin_eqv, div_s_eqv, setdegree_eqv); the degree laws
   (deg respects equality, deg (c*x) = deg c + deg x via the leading coefficient of the schoolbook product) are proved below. *)
From Coq Require Import ZArith Lia Bool List Ring Setoid Morphisms Arith.
From C08 Require Import Model Spec ProofsBasic ProofsDiv ProofsDivDeg Fp ProofsFp.
From Coq Require Import Znumtheory.
From C08 Require ProofsProps.
From C11 Require Import PolyModel PolyProofs.
Import ListNotations.

Section ListInst.
  Context {T : Type} (D : Dom T) (OK : FieldOK D).
  Local Notation O_ := (d0 D).
  Local Notation I_ := (d1 D).
  Local Notation coef := (Model.coef D).
  Local Notation deg := (Model.degree D).
  Local Notation eqv := (ProofsDiv.eqv D).
  Local Notation pmul := (Spec.pmul D).
  Local Notation padd := (Model.add D).
  Local Notation psub := (Model.sub D).
  Add Ring TringL : (Trt D OK).
  Local Instance eqvE : Equivalence eqv := eqv_equiv D.
  Local Instance eqvA : Proper (eqv ==> eqv ==> eqv) padd := Radd_ext (eqv_ext D OK).
  Local Instance eqvM : Proper (eqv ==> eqv ==> eqv) pmul := Rmul_ext (eqv_ext D OK).
  Local Instance eqvN : Proper (eqv ==> eqv) (Model.neg D) := Ropp_ext (eqv_ext D OK).
  Local Instance eqvS : Proper (eqv ==> eqv ==> eqv) psub.
  Proof.
    intros a a' Ha b b' Hb. rewrite (Rsub_def (eqv_ring D OK) a b), (Rsub_def (eqv_ring D OK) a' b'), Ha, Hb. reflexivity.
  Qed.
  Add Ring EringL : (eqv_ring D OK) (setoid eqvE (eqv_ext D OK)).
  Add Ring EringLP : (eqv_ring_poly D OK) (setoid eqvE (eqv_ext D OK)).

  Lemma eqv_coef P Q : eqv P Q -> forall i, coef P i = coef Q i.
  Proof. intros [H]. exact H. Qed.
  Lemma coef_eqv P Q : (forall i, coef P i = coef Q i) -> eqv P Q.
  Proof. intros H. constructor. exact H. Qed.

  (* ---------------------------------------------------------------- degree = index of the last non-zero coefficient *)
  Lemma last_coef (L : list T) : L <> [] -> last L O_ = coef L (length L - 1).
  Proof.
    induction L as [|a L IH]; [congruence|]. intros _.
    destruct L as [|b L]; [reflexivity|].
    change (last (a :: b :: L) O_) with (last (b :: L) O_). rewrite IH by congruence.
    cbn [length]. replace (S (S (length L)) - 1)%nat with (S (S (length L) - 1)) by lia. reflexivity.
  Qed.

  Lemma deg_ge_m1 P : (-1 <= deg P)%Z.
  Proof. unfold Model.degree. lia. Qed.

  Lemma deg_le_iff P (d : Z) : (-1 <= d)%Z ->
    ((deg P <= d)%Z <-> forall i : nat, (d < Z.of_nat i)%Z -> coef P i = O_).
  Proof.
    intros Hd. unfold Model.degree. set (L := setdegree D P).
    assert (HC : forall i, coef L i = coef P i) by (intros; apply (coef_setdegree D OK)).
    split.
    - intros H i Hi. rewrite <- HC. apply coef_ge. lia.
    - intros H. destruct (Z_le_gt_dec (Z.of_nat (length L) - 1) d) as [Le|Gt]; [exact Le|exfalso].
      pose proof (setdegree_normal D OK P) as HN; fold L in HN; destruct HN as [E|NZ].
      + rewrite E in Gt. cbn in Gt. lia.
      + assert (HL : L <> []) by (intros E; rewrite E in Gt; cbn in Gt; lia).
        apply NZ. rewrite (last_coef L HL), HC. apply H. lia.
  Qed.

  Lemma deg_eq_of_zero_iff A B : (forall i, coef A i = O_ <-> coef B i = O_) -> deg A = deg B.
  Proof.
    intros H.
    assert (forall X Y, (forall i, coef X i = O_ <-> coef Y i = O_) -> (deg X <= deg Y)%Z).
    { intros X Y HXY. apply (deg_le_iff X (deg Y) (deg_ge_m1 Y)). intros i Hi. apply HXY.
      apply (proj1 (deg_le_iff Y (deg Y) (deg_ge_m1 Y))); [lia|exact Hi]. }
    apply Z.le_antisymm; apply H0; [exact H|intros i; symmetry; apply H].
  Qed.

  Lemma deg_proper P Q : eqv P Q -> deg P = deg Q.
  Proof. intros H. apply deg_eq_of_zero_iff. intros i. rewrite (eqv_coef P Q H i). reflexivity. Qed.

  Lemma nz_lead P : ~ eqv P [] -> exists d : nat, deg P = Z.of_nat d /\ coef P d <> O_.
  Proof.
    intros NE. unfold Model.degree. set (L := setdegree D P).
    assert (HC : forall i, coef L i = coef P i) by (intros; apply (coef_setdegree D OK)).
    pose proof (setdegree_normal D OK P) as HN; fold L in HN; destruct HN as [E|NZ].
    - exfalso. apply NE. apply coef_eqv. intros i. rewrite <- HC, E. reflexivity.
    - assert (HL : L <> []).
      { intros E. apply NE. apply coef_eqv. intros i. rewrite <- HC, E. reflexivity. }
      exists (length L - 1)%nat. split.
      + destruct L; [congruence|]. cbn [length]. lia.
      + rewrite <- HC, <- (last_coef L HL). exact NZ.
  Qed.

  Lemma leadcoef_nz P : ~ eqv P [] -> leadcoef D P <> O_.
  Proof.
    intros NE. unfold leadcoef.
    destruct (setdegree_normal D OK P) as [E|NZ]; [|exact NZ].
    exfalso. apply NE. apply coef_eqv. intros i. rewrite <- (coef_setdegree D OK), E. reflexivity.
  Qed.

  (* ---------------------------------------------------------------- a field has no zero divisors *)
  Lemma no_zero_div a b : dmul D a b = O_ -> a = O_ \/ b = O_.
  Proof.
    intros H. destruct (dis0 D a) eqn:E.
    - left. apply (is0_true D OK). exact E.
    - right. apply (is0_false D OK) in E.
      pose proof (f_inv D OK a E) as Hi.
      transitivity (dmul D (dmul D a (dinv D a)) b); [rewrite Hi; ring|].
      transitivity (dmul D (dinv D a) (dmul D a b)); [ring|]. rewrite H. ring.
  Qed.

  (* ---------------------------------------------------------------- leading coefficient of the schoolbook product *)
  Lemma pmul_zero_l c x : (forall i, coef c i = O_) -> forall j, coef (pmul c x) j = O_.
  Proof.
    intros H j.
    assert (E : eqv c []) by (apply coef_eqv; intros i; rewrite H; destruct i; reflexivity).
    assert (E' : eqv (pmul c x) []) by (rewrite E; ring).
    rewrite (eqv_coef _ _ E' j). destruct j; reflexivity.
  Qed.

  Lemma pmul_top : forall (dc : nat) (c x : list T) (dx : nat),
    (forall i, (dc < i)%nat -> coef c i = O_) -> (forall j, (dx < j)%nat -> coef x j = O_) ->
    coef (pmul c x) (dc + dx) = dmul D (coef c dc) (coef x dx).
  Proof.
    induction dc as [|n IH]; intros c x dx Hc Hx.
    - destruct c as [|a c'].
      + cbn [Spec.pmul plus]. rewrite !coef_nil. ring.
      + rewrite (coef_pmul_cons D OK). cbn [plus]. rewrite coef_cons_0.
        destruct dx as [|j]; [ring|].
        rewrite (pmul_zero_l c' x); [ring|].
        intros i. rewrite <- (coef_cons_S D a c' i). apply Hc. lia.
    - destruct c as [|a c'].
      + cbn [Spec.pmul]. rewrite !coef_nil. ring.
      + rewrite (coef_pmul_cons D OK). cbn [plus].
        rewrite (Hx (S (n + dx))) by lia.
        rewrite (IH c' x dx); [rewrite coef_cons_S; ring| |exact Hx].
        intros i Hi. rewrite <- (coef_cons_S D a c' i). apply Hc. lia.
  Qed.

  Lemma deg_mul_small c x : (deg (pmul c x) < deg x)%Z -> eqv (pmul c x) [].
  Proof.
    intros Hlt.
    destruct (isZero D c) eqn:Zc.
    { apply (isZero_spec D OK) in Zc. assert (E : eqv c []) by (constructor; exact Zc). rewrite E. ring. }
    destruct (isZero D x) eqn:Zx.
    { apply (isZero_spec D OK) in Zx. assert (E : eqv x []) by (constructor; exact Zx). rewrite E. ring. }
    exfalso.
    assert (Nc : ~ eqv c []).
    { intros [E]. apply (isZero_spec D OK) in E. congruence. }
    assert (Nx : ~ eqv x []).
    { intros [E]. apply (isZero_spec D OK) in E. congruence. }
    destruct (nz_lead c Nc) as (dc & Hdc & Lc). destruct (nz_lead x Nx) as (dx & Hdx & Lx).
    assert (Bc : forall i, (dc < i)%nat -> coef c i = O_).
    { intros i Hi. apply (proj1 (deg_le_iff c (deg c) (deg_ge_m1 c))); lia. }
    assert (Bx : forall i, (dx < i)%nat -> coef x i = O_).
    { intros i Hi. apply (proj1 (deg_le_iff x (deg x) (deg_ge_m1 x))); lia. }
    pose proof (pmul_top dc c x dx Bc Bx) as Top.
    assert (Z0 : coef (pmul c x) (dc + dx) = O_).
    { apply (proj1 (deg_le_iff (pmul c x) (deg (pmul c x)) (deg_ge_m1 _))); lia. }
    rewrite Z0 in Top. symmetry in Top. destruct (no_zero_div _ _ Top); contradiction.
  Qed.

  (* ---------------------------------------------------------------- the operations of LOps meet their specifications *)
  Variables (kthr sthr : nat).
  Hypothesis Hk : (1 <= kthr)%nat.
  Local Notation Ops := (LOps D kthr sthr).

  Lemma l_one_ok : eqv (pone Ops) [I_].
  Proof. apply (const_eqv D OK). Qed.
  Lemma l_assign_ok x : eqv (passign Ops x) x.
  Proof. apply (setdegree_eqv D OK). Qed.
  Lemma l_divmod_ok a b : eqv (snd (pdivmod Ops a b)) (psub a (pmul (fst (pdivmod Ops a b)) b)).
  Proof.
    cbn [pdivmod LOps].
    pose proof (eqv_intro D _ _ (divmodin_identity D OK kthr sthr a b Hk)) as H.
    destruct (divmodin D kthr sthr a b) as [Q R]. cbn [fst snd] in *.
    rewrite H at 1. ring.
  Qed.
  Lemma l_maxpy_ok r a b : eqv (pmaxpy Ops r a b) (psub r (pmul a b)).
  Proof.
    cbn [pmaxpy LOps]. unfold maxpyin, pmulK.
    rewrite (subin_eqv D OK), (mul_eqv D OK kthr a b Hk). reflexivity.
  Qed.

  Definition unit_of (Dn : list T) : list T := [dinv D (leadcoef D Dn)].
  Lemma l_divlead_ok Dn X : eqv (pdivlead Ops Dn X) (pmul (unit_of Dn) X).
  Proof. apply (div_s_eqv D OK). Qed.

  Lemma coef_scale u X i : coef (pmul [u] X) i = dmul D u (coef X i).
  Proof. rewrite (coef_pmul_cons D OK). cbn [Spec.pmul]. destruct i; rewrite ?coef_nil; ring. Qed.

  Lemma l_unit_inv Dn : ~ eqv Dn [] -> exists v, eqv (pmul v (unit_of Dn)) [I_].
  Proof.
    intros NE. exists [leadcoef D Dn]. apply coef_eqv. intros i. unfold unit_of.
    rewrite coef_scale. destruct i as [|i].
    - rewrite coef_cons_0. apply (f_inv D OK). apply leadcoef_nz. exact NE.
    - rewrite !coef_cons_S, !coef_nil. ring.
  Qed.

  Lemma l_unit_deg Dn X : ~ eqv Dn [] -> deg (pmul (unit_of Dn) X) = deg X.
  Proof.
    intros NE. apply deg_eq_of_zero_iff. intros i. unfold unit_of. rewrite coef_scale.
    pose proof (f_inv D OK _ (leadcoef_nz Dn NE)) as Hi. set (l := leadcoef D Dn) in *. set (u := dinv D l) in *.
    split.
    - intros H. destruct (no_zero_div _ _ H) as [U0|]; [|assumption].
      (* u = 0 would give 1 = 0, hence Dn = 0 *)
      exfalso. apply NE. apply coef_eqv. intros j. rewrite coef_nil.
      transitivity (dmul D I_ (coef Dn j)); [ring|]. rewrite <- Hi, U0. ring.
    - intros ->. ring.
  Qed.

  (* ---------------------------------------------------------------- the theorems *)
  Definition lcong (M a b : list T) : Prop := exists C, peq D (psub a (pmul b [I_])) (pmul C M).

  Lemma l_ratrecon_sound P M dk N Dn : (0 <= dk < deg M)%Z ->
    pratrecon Ops P M dk = Some (true, N, Dn) ->
    (exists C, eqv (psub N (pmul Dn P)) (pmul C M)) /\ (deg N <= dk)%Z /\ ~ eqv Dn [].
  Proof.
    apply (poly_ratrecon_sound (list T) eqv eqvE [] [I_] padd pmul psub (Model.neg D) (eqv_ring D OK) (eqv_ext D OK) Ops).
    - exact deg_proper.
    - reflexivity.
    - exact deg_mul_small.
    - reflexivity.
    - exact l_one_ok.
    - exact l_assign_ok.
    - exact l_divmod_ok.
    - exact l_maxpy_ok.
  Qed.

  Lemma l_ratreconcheck_sound P M dk N Dn : (0 <= dk < deg M)%Z ->
    pratreconcheck_g Ops P M dk = Some (true, N, Dn) ->
    (exists C, eqv (psub N (pmul Dn P)) (pmul C M)) /\ (deg N <= dk)%Z /\ ~ eqv Dn [] /\
    exists N0 D0, pratrecon Ops P M dk = Some (true, N0, D0) /\ (pgcddeg Ops N0 D0 <= 0)%Z /\
                  ((N = N0 /\ Dn = D0) \/ (N = pdivlead Ops D0 N0 /\ Dn = pdivlead Ops D0 D0)).
  Proof.
    apply (poly_ratreconcheck_sound (list T) eqv eqvE [] [I_] padd pmul psub (Model.neg D) (eqv_ring D OK) (eqv_ext D OK) Ops
             deg_proper eq_refl deg_mul_small (reflexivity _) l_one_ok l_assign_ok l_divmod_ok l_maxpy_ok
             unit_of l_divlead_ok l_unit_inv l_unit_deg).
  Qed.

  Lemma l_ratrecon6_sound P M dk fr N Dn : (0 <= dk < deg M)%Z ->
    pratrecon6_g Ops P M dk fr = Some (true, N, Dn) ->
    (exists C, eqv (psub N (pmul Dn P)) (pmul C M)) /\ (deg N <= dk)%Z /\ ~ eqv Dn [].
  Proof.
    apply (poly_ratrecon6_sound (list T) eqv eqvE [] [I_] padd pmul psub (Model.neg D) (eqv_ring D OK) (eqv_ext D OK) Ops
             deg_proper eq_refl deg_mul_small (reflexivity _) l_one_ok l_assign_ok l_divmod_ok l_maxpy_ok
             unit_of l_divlead_ok l_unit_inv l_unit_deg).
  Qed.

  (* termination within the fuel deg P + deg M + 4: C08's degree bound of the Newton-inverse division (ProofsDivDeg) *)
  Hypothesis Hs : (1 <= sthr)%nat.
  Lemma nz_isZero b : ~ eqv b [] -> isZero D b = false.
  Proof.
    intros NE. destruct (isZero D b) eqn:E; [|reflexivity]. exfalso. apply NE. constructor. apply (isZero_spec D OK). exact E.
  Qed.
  Lemma l_ratrecon_total P M dk : (0 <= dk)%Z -> pratrecon Ops P M dk <> None.
  Proof.
    intros Hdk.
    refine (poly_ratrecon_total (list T) eqv [] Ops deg_proper eq_refl l_assign_ok _ _ P M dk Hdk (deg_ge_m1 M)).
    - intros a b NE. cbn [pdivmod pdeg LOps]. apply (divmodin_degree D OK kthr sthr Hk Hs). apply nz_isZero. exact NE.
    - intros x NE. destruct (nz_lead x NE) as (d & Hd & _). cbn [pdeg LOps]. lia.
  Qed.

  (* what the harness prints: the pair after setdegree *)
  Lemma lout_sound (r : option (bool * list T * list T)) P M dk N Dn :
    (forall N0 D0, r = Some (true, N0, D0) ->
       (exists C, eqv (psub N0 (pmul D0 P)) (pmul C M)) /\ (deg N0 <= dk)%Z /\ ~ eqv D0 []) ->
    lout D r = Some (true, N, Dn) ->
    (exists C, peq D (psub N (pmul Dn P)) (pmul C M)) /\ (deg N <= dk)%Z /\ ~ peq D Dn [].
  Proof.
    intros H. destruct r as [[[ok N0] D0]|]; [|discriminate]. cbn [lout].
    intros R; inversion R; subst ok N Dn. destruct (H N0 D0 eq_refl) as ([C HC] & L & NZ).
    pose proof (setdegree_eqv D OK N0) as EN. pose proof (setdegree_eqv D OK D0) as ED.
    split; [|split].
    - exists C. apply eqv_peq. rewrite EN, ED. exact HC.
    - rewrite (deg_proper _ _ EN). exact L.
    - intros E. apply NZ. rewrite <- ED. constructor. exact E.
  Qed.
End ListInst.

(* ------------------------------------------------------------------ statements quoted by Properties.v *)
Local Open Scope Z_scope.

(* Poly1Dom::ratrecon(N,D,P,M,dk) on coefficient vectors over any field, any Karatsuba threshold >= 1 *)
Definition List_ratrecon_sound : Prop :=
  forall (T : Type) (D : Dom T), FieldOK D -> forall kthr sthr : nat, (1 <= kthr)%nat ->
  forall (P M : list T) (dk : Z) (N Dn : list T), 0 <= dk < degree D M ->
    lratrecon5 D kthr sthr P M dk = Some (true, N, Dn) ->
    (exists C, peq D (sub D N (pmul D Dn P)) (pmul D C M)) /\ degree D N <= dk /\ ~ peq D Dn [].
Lemma list_ratrecon_sound : List_ratrecon_sound.
Proof.
  intros T D OK kthr sthr Hk P M dk N Dn Hdk. unfold lratrecon5.
  apply (lout_sound D OK). intros N0 D0 E. exact (l_ratrecon_sound D OK kthr sthr Hk P M dk N0 D0 Hdk E).
Qed.

(* ratreconcheck and the dispatcher ratrecon(N,D,P,M,dk,forcereduce) *)
Definition List_ratrecon6_sound : Prop :=
  forall (T : Type) (D : Dom T), FieldOK D -> forall kthr sthr : nat, (1 <= kthr)%nat ->
  forall (P M : list T) (dk : Z) (N Dn : list T), 0 <= dk < degree D M ->
    (lratreconcheck D kthr sthr P M dk = Some (true, N, Dn) \/
     exists fr, lratrecon6 D kthr sthr P M dk fr = Some (true, N, Dn)) ->
    (exists C, peq D (sub D N (pmul D Dn P)) (pmul D C M)) /\ degree D N <= dk /\ ~ peq D Dn [].
Lemma list_ratrecon6_sound : List_ratrecon6_sound.
Proof.
  intros T D OK kthr sthr Hk P M dk N Dn Hdk [H|[fr H]]; revert H.
  - unfold lratreconcheck. apply (lout_sound D OK). intros N0 D0 E.
    destruct (l_ratreconcheck_sound D OK kthr sthr Hk P M dk N0 D0 Hdk E) as (C & L & NZ & _). auto.
  - unfold lratrecon6. apply (lout_sound D OK). intros N0 D0 E.
    exact (l_ratrecon6_sound D OK kthr sthr Hk P M dk fr N0 D0 Hdk E).
Qed.

(* a success of ratreconcheck passed the gcd-degree test on the pair of the 5-argument ratrecon, and is that pair or
   that pair divided by leadcoef D *)
Definition List_ratreconcheck_reduced : Prop :=
  forall (T : Type) (D : Dom T), FieldOK D -> forall kthr sthr : nat, (1 <= kthr)%nat ->
  forall (P M : list T) (dk : Z) (N Dn : list T), 0 <= dk < degree D M ->
    pratreconcheck_g (LOps D kthr sthr) P M dk = Some (true, N, Dn) ->
    exists N0 D0, pratrecon (LOps D kthr sthr) P M dk = Some (true, N0, D0) /\
                  degree D (gcd D kthr sthr N0 D0) <= 0 /\
                  ((N = N0 /\ Dn = D0) \/
                   (N = div_s D N0 (leadcoef D D0) /\ Dn = div_s D D0 (leadcoef D D0))).
Lemma list_ratreconcheck_reduced : List_ratreconcheck_reduced.
Proof.
  intros T D OK kthr sthr Hk P M dk N Dn Hdk E.
  destruct (l_ratreconcheck_sound D OK kthr sthr Hk P M dk N Dn Hdk E) as (_ & _ & _ & H). exact H.
Qed.

(* the hypotheses are satisfiable and the model computes: F_2 (C08.ProofsProps.GF2Dom satisfies FieldOK), M = X^2, P = 1 + X,
   dk = 0: 1/(1+X) is the reconstruction ((1+X)^2 = 1 mod X^2) *)
Example list_hyps_example :
  FieldOK ProofsProps.GF2Dom /\
  lratrecon5 ProofsProps.GF2Dom 50 50 [true; true] [false; false; true] 0 = Some (true, [true], [true; true]).
Proof. split; [exact ProofsProps.GF2_ok|vm_compute; reflexivity]. Qed.

(* the list instance never runs out of fuel (both thresholds >= 1): the soundness theorems above are not vacuous for lack of fuel *)
Definition List_ratrecon_total : Prop :=
  forall (T : Type) (D : Dom T), FieldOK D -> forall kthr sthr : nat, (1 <= kthr)%nat -> (1 <= sthr)%nat ->
  forall (P M : list T) (dk : Z) (fr : bool), 0 <= dk ->
    lratrecon5 D kthr sthr P M dk <> None /\ lratreconcheck D kthr sthr P M dk <> None /\ lratrecon6 D kthr sthr P M dk fr <> None.
Lemma list_ratrecon_total : List_ratrecon_total.
Proof.
  intros T D OK kthr sthr Hk Hs P M dk fr Hdk.
  pose proof (l_ratrecon_total D OK kthr sthr Hk Hs P M dk Hdk) as H.
  assert (H5 : lratrecon5 D kthr sthr P M dk <> None).
  { unfold lratrecon5. destruct (pratrecon (LOps D kthr sthr) P M dk) as [[[ok N] Dn]|]; [discriminate|congruence]. }
  assert (HC : lratreconcheck D kthr sthr P M dk <> None).
  { unfold lratreconcheck, pratreconcheck_g. destruct (pratrecon (LOps D kthr sthr) P M dk) as [[[ok N] Dn]|]; [|congruence].
    destruct (_ >? 0); [discriminate|]. destruct (pleadone _ _); discriminate. }
  split; [exact H5|]. split; [exact HC|].
  unfold lratrecon6, pratrecon6_g. destruct fr; [exact HC|exact H5].
Qed.

(* ------------------------------------------------------------------ END TO END: the functions that are extracted and run.
   zp_ratrecon5 / zp_ratreconcheck / zp_ratrecon6 (PolyModel.v) compute over C08.Fp.FpDom q, the subset type of canonical residues,
   for which FieldOK is proved when q is prime (C08.ProofsFp.FpDom_ok): the list theorems apply verbatim.  For every prime q,
   every threshold >= 1, all integer coefficient lists P, M (injected by z -> z mod q), every 0 <= dk < deg M: a success of the
   executed function returns lists of canonical residues N, D that are the images of polynomials N', D' over F_q with
   N' - D' P = C M coefficientwise, deg N' <= dk, D' <> 0. *)
Definition canonical (q : positive) (L : list Z) : Prop := Forall (fun z => 0 <= z < Zpos q) L.
Lemma outl_canonical q (L : list (Fp q)) : canonical q (outl L).
Proof. unfold canonical, outl. apply Forall_forall. intros z Hz. apply in_map_iff in Hz. destruct Hz as (a & <- & _). apply fv_range. Qed.

Definition fp_post (q : positive) (P M : list Z) (dk : Z) (N Dn : list Z) : Prop :=
  canonical q N /\ canonical q Dn /\
  exists N' D' : list (Fp q), N = outl N' /\ Dn = outl D' /\
    (exists C, peq (FpDom q) (sub (FpDom q) N' (pmul (FpDom q) D' (map (mk q) P))) (pmul (FpDom q) C (map (mk q) M))) /\
    degree (FpDom q) N' <= dk /\ ~ peq (FpDom q) D' [].

Lemma fout_post q (r : option (bool * list (Fp q) * list (Fp q))) (Post : list (Fp q) -> list (Fp q) -> Prop) N Dn :
  (forall N' D', r = Some (true, N', D') -> Post N' D') ->
  fout r = Some (true, N, Dn) ->
  canonical q N /\ canonical q Dn /\ exists N' D', N = outl N' /\ Dn = outl D' /\ Post N' D'.
Proof.
  intros H. destruct r as [[[ok N'] D']|]; [|discriminate]. cbn [fout].
  intros R; inversion R; subst ok N Dn.
  split; [apply outl_canonical|]. split; [apply outl_canonical|]. exists N', D'. repeat split. apply H. reflexivity.
Qed.

Definition Fp_ratrecon_sound : Prop :=
  forall q : positive, prime (Zpos q) -> forall kthr sthr : nat, (1 <= kthr)%nat ->
  forall (P M : list Z) (dk : Z) (N Dn : list Z), 0 <= dk < degree (FpDom q) (map (mk q) M) ->
    (zp_ratrecon5 (Zpos q) kthr sthr P M dk = Some (true, N, Dn) \/
     zp_ratreconcheck (Zpos q) kthr sthr P M dk = Some (true, N, Dn) \/
     exists fr, zp_ratrecon6 (Zpos q) kthr sthr P M dk fr = Some (true, N, Dn)) ->
    fp_post q P M dk N Dn.
Lemma fp_ratrecon_sound : Fp_ratrecon_sound.
Proof.
  intros q PR kthr sthr Hk P M dk N Dn Hdk H.
  pose proof (FpDom_ok q PR) as OK.
  unfold fp_post.
  assert (G : forall r, (forall N' D', r = Some (true, N', D') ->
                (exists C, peq (FpDom q) (sub (FpDom q) N' (pmul (FpDom q) D' (map (mk q) P))) (pmul (FpDom q) C (map (mk q) M))) /\
                degree (FpDom q) N' <= dk /\ ~ peq (FpDom q) D' []) ->
              fout r = Some (true, N, Dn) ->
              canonical q N /\ canonical q Dn /\ exists N' D', N = outl N' /\ Dn = outl D' /\
                (exists C, peq (FpDom q) (sub (FpDom q) N' (pmul (FpDom q) D' (map (mk q) P))) (pmul (FpDom q) C (map (mk q) M))) /\
                degree (FpDom q) N' <= dk /\ ~ peq (FpDom q) D' []).
  { intros r Hr E. exact (fout_post q r _ N Dn Hr E). }
  destruct H as [H|[H|[fr H]]]; revert H; unfold zp_ratrecon5, zp_ratreconcheck, zp_ratrecon6, FD, inl; cbn [qof]; apply G; intros N' D' E.
  - exact (list_ratrecon_sound _ (FpDom q) OK kthr sthr Hk _ _ dk N' D' Hdk E).
  - exact (list_ratrecon6_sound _ (FpDom q) OK kthr sthr Hk _ _ dk N' D' Hdk (or_introl E)).
  - exact (list_ratrecon6_sound _ (FpDom q) OK kthr sthr Hk _ _ dk N' D' Hdk (or_intror (ex_intro _ fr E))).
Qed.

(* ... and they never run out of fuel *)
Definition Fp_ratrecon_total : Prop :=
  forall q : positive, prime (Zpos q) -> forall kthr sthr : nat, (1 <= kthr)%nat -> (1 <= sthr)%nat ->
  forall (P M : list Z) (dk : Z) (fr : bool), 0 <= dk ->
    zp_ratrecon5 (Zpos q) kthr sthr P M dk <> None /\ zp_ratreconcheck (Zpos q) kthr sthr P M dk <> None /\
    zp_ratrecon6 (Zpos q) kthr sthr P M dk fr <> None.
Lemma fp_ratrecon_total : Fp_ratrecon_total.
Proof.
  intros q PR kthr sthr Hk Hs P M dk fr Hdk.
  destruct (list_ratrecon_total _ (FpDom q) (FpDom_ok q PR) kthr sthr Hk Hs (map (mk q) P) (map (mk q) M) dk fr Hdk) as (A & B & C).
  unfold zp_ratrecon5, zp_ratreconcheck, zp_ratrecon6, FD, inl; cbn [qof].
  repeat split.
  - destruct (lratrecon5 _ _ _ _ _ _) as [[[? ?] ?]|]; [discriminate|congruence].
  - destruct (lratreconcheck _ _ _ _ _ _) as [[[? ?] ?]|]; [discriminate|congruence].
  - destruct (lratrecon6 _ _ _ _ _ _ _) as [[[? ?] ?]|]; [discriminate|congruence].
Qed.

(* the executed instance computes, and its hypotheses are satisfiable: q = 7 (C08.ProofsFp.prime_7), M = X^2 + 1, P = 3 + 2X, dk = 0 *)
Example fp_example :
  prime 7 /\ (0 <= 0 < degree (FpDom 7) (map (mk 7) [1; 0; 1])) /\
  exists N Dn, zp_ratrecon5 7 50 50 [3; 2] [1; 0; 1] 0 = Some (true, N, Dn).
Proof. split; [exact prime_7|]. split; [vm_compute; split; [discriminate|reflexivity]|]. eexists; eexists. vm_compute. reflexivity. Qed.
