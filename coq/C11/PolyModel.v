(* C11 — executable model of the polynomial rational reconstruction of
   src/library/poly1/givpoly1ratrecon.inl (Poly1Dom<Domain,Dense>::ratrecon / ratreconcheck / the dispatcher),
   written after the code.  No proofs here.

   The control structure (early exits, the two-step do-while loop, the returned flag) is written once,
   generically over the Poly1Dom operations it calls:
        degree(d,P)           pdeg      (Degree: -1 for the zero polynomial)
        assign(R,P)           passign
        divmodin(Q,R,B)       pdivmod   (quotient, new R)
        maxpyin(R,Q,B)        pmaxpy    R - Q*B
        degree(gcd(G,N,D))    pgcddeg
        isOne(leadcoef(D))    pleadone
        divin(X, leadcoef D)  pdivlead
   PolyProofs.v proves soundness for EVERY choice of these operations satisfying the ring / degree laws up to an
   equivalence.  The concrete instance `LOps` below takes each operation from the model of Poly1Dom in coq/C08
   (C08.Model: degree, assign, divmodin = Newton-inverse division + Karatsuba product, maxpyin, gcd, leadcoef,
   div_s, over a coefficient domain `Dom T`): polynomials are the coefficient vectors (lists, index = degree).
   PolyLists.v proves the laws for that instance from C08's theorems, for every field; the instance over
   C08.Model.ZpDom p is what is extracted and run against the C++ code. *)
From Coq Require Import ZArith Bool List.
From C08 Require Model Fp.
Import ListNotations.
Local Open Scope Z_scope.

Record pops (T : Type) : Type := mk_pops {
  pzero : T; pone : T;
  passign : T -> T;
  pdeg : T -> Z;
  pdivmod : T -> T -> T * T;
  pmaxpy : T -> T -> T -> T;
  pgcddeg : T -> T -> Z;          (* degree(degG, gcd(G,N,D)) *)
  pleadone : T -> bool;           (* _domain.isOne(leadcoef(D)) *)
  pdivlead : T -> T -> T          (* pdivlead D X = X divided by leadcoef(D)   (divin(X, r)) *)
}.
Arguments pzero {T}. Arguments pone {T}. Arguments passign {T}. Arguments pdeg {T}. Arguments pdivmod {T}.
Arguments pmaxpy {T}. Arguments pgcddeg {T}. Arguments pleadone {T}. Arguments pdivlead {T}.

Section Generic.
  Context {T : Type} (Ops : pops T).

  (* Degree(a) clamps negative values to DEGPOLYZERO = -1 *)
  Definition clampdeg (d : Z) : Z := if d <? 0 then -1 else d.

  (* lines 49-67; state N, U, D0, D.  Result: (degN <= dk, N, D) as left by the code; None = fuel exhausted *)
  Fixpoint ploop (fuel : nat) (N U D0 D : T) (dk : Z) : option (bool * T * T) :=
    match fuel with
    | O => None
    | S n =>
      let '(Q, N1) := pdivmod Ops N U in      (* divmodin(Q,N,U) *)
      let D01 := pmaxpy Ops D0 Q D in         (* maxpyin(D0,Q,D) *)
      let degN := pdeg Ops N1 in
      if (degN <=? dk) || (degN <? 0) then Some (degN <=? dk, N1, passign Ops D01)   (* assign(D,D0); break *)
      else
        let '(Q2, U1) := pdivmod Ops U N1 in  (* divmodin(Q,U,N) *)
        let D1 := pmaxpy Ops D Q2 D01 in      (* maxpyin(D,Q,D0) *)
        let degU := pdeg Ops U1 in
        if degU <=? dk then Some (true, passign Ops U1, D1)                          (* assign(N,U); break *)
        else if degU >=? 0 then ploop n N1 U1 D01 D1 dk
        else Some (false, N1, D1)
    end.

  (* lines 24-89 (the alias guard of lines 20-23 copies P and M: same values) *)
  Definition pratrecon_fuel (fuel : nat) (P M : T) (dk0 : Z) : option (bool * T * T) :=
    let dk := clampdeg dk0 in
    let degU := pdeg Ops P in
    let degV := pdeg Ops M in
    if (degU <? dk) || (degV =? 0) then Some (true, passign Ops P, passign Ops (pone Ops))
    else if (degV <? 0) || (degU =? 0) then Some (false, passign Ops (pone Ops), passign Ops (pone Ops))
    else ploop fuel (passign Ops M) (passign Ops P) (passign Ops (pzero Ops)) (passign Ops (pone Ops)) dk.

  Definition pfuel (P M : T) : nat := Z.to_nat (pdeg Ops P + pdeg Ops M + 4).
  Definition pratrecon (P M : T) (dk : Z) : option (bool * T * T) := pratrecon_fuel (pfuel P M) P M dk.

  (* lines 94-111: ratreconcheck *)
  Definition pratreconcheck_g (P M : T) (dk : Z) : option (bool * T * T) :=
    match pratrecon P M dk with
    | None => None
    | Some (pass, N, D) =>
      if pgcddeg Ops N D >? 0 then Some (false, N, D)
      else if pleadone Ops D then Some (pass, N, D)
      else Some (pass, pdivlead Ops D N, pdivlead Ops D D)      (* divin(D,r); divin(N,r) with r = leadcoef(D) *)
    end.

  (* lines 113-119 *)
  Definition pratrecon6_g (P M : T) (dk : Z) (forcereduce : bool) : option (bool * T * T) :=
    if forcereduce then pratreconcheck_g P M dk else pratrecon P M dk.
End Generic.

(* ------------------------------------------------------------------ the Poly1Dom operations as modelled in coq/C08 *)
Section Lists.
  Context {T : Type} (D : Model.Dom T).
  Variables (kthr sthr : nat).      (* KARA_THRESHOLD, SQR_THRESHOLD of givpoly1kara.inl (read from the source by the check) *)

  Definition LOps : pops (list T) :=
    mk_pops (list T)
      []                                              (* Poly1Dom::zero *)
      (Model.const D (Model.d1 D))                    (* Poly1Dom::one = (Degree 0, _domain.one) *)
      (Model.assign D)
      (Model.degree D)
      (Model.divmodin D kthr sthr)
      (Model.maxpyin D kthr)
      (fun N Dn => Model.degree D (Model.gcd D kthr sthr N Dn))
      (fun Dn => Model.dis0 D (Model.dsub D (Model.leadcoef D Dn) (Model.d1 D)))
      (fun Dn X => Model.div_s D X (Model.leadcoef D Dn)).

  (* the harness prints N and D after setdegree *)
  Definition lout (r : option (bool * list T * list T)) : option (bool * list T * list T) :=
    match r with
    | None => None
    | Some (ok, N, Dn) => Some (ok, Model.setdegree D N, Model.setdegree D Dn)
    end.
  Definition lratrecon5 (P M : list T) (dk : Z) := lout (pratrecon LOps P M dk).
  Definition lratreconcheck (P M : list T) (dk : Z) := lout (pratreconcheck_g LOps P M dk).
  Definition lratrecon6 (P M : list T) (dk : Z) (forcereduce : bool) := lout (pratrecon6_g LOps P M dk forcereduce).
End Lists.

(* Z-level wrappers extracted for the correspondence run.  The coefficient domain is C08.Fp.FpDom q: the carrier is the subset type
   of canonical residues { z | 0 <= z < q } (extraction erases the proof component: the extracted code computes on plain
   integers), so that C08's field laws FieldOK HOLD for the executed instance when q is prime (C08.ProofsFp.FpDom_ok) and the list
   theorems of PolyLists.v apply to exactly these functions (PolyLists.v: Fp_ratrecon_sound ...).  `inl` injects the integers
   of the input line (z mod q), `outl` projects the results; the modulus of the line is a positive (qof p). *)
Definition fout {q : positive} (r : option (bool * list (Fp.Fp q) * list (Fp.Fp q))) : option (bool * list Z * list Z) :=
  match r with
  | None => None
  | Some (ok, N, Dn) => Some (ok, Fp.outl N, Fp.outl Dn)
  end.
Definition zp_ratrecon5 (p : Z) (kthr sthr : nat) (P M : list Z) (dk : Z) :=
  fout (lratrecon5 (Fp.FD p) kthr sthr (Fp.inl p P) (Fp.inl p M) dk).
Definition zp_ratreconcheck (p : Z) (kthr sthr : nat) (P M : list Z) (dk : Z) :=
  fout (lratreconcheck (Fp.FD p) kthr sthr (Fp.inl p P) (Fp.inl p M) dk).
Definition zp_ratrecon6 (p : Z) (kthr sthr : nat) (P M : list Z) (dk : Z) (forcereduce : bool) :=
  fout (lratrecon6 (Fp.FD p) kthr sthr (Fp.inl p P) (Fp.inl p M) dk forcereduce).
