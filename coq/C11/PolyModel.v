(* C11 — executable model of the polynomial rational reconstruction of
   src/library/poly1/givpoly1ratrecon.inl (Poly1Dom<Domain,Dense>::ratrecon / ratreconcheck), written after
   the code.  No proofs here.

   The control structure (early exits, the two-step do-while loop, the returned flag) is written once,
   generically over the operations it calls:
        degree(d,P)           pdeg      (Degree: -1 for the zero polynomial)
        div(Q,A,B)            pdiv      the quotient
        maxpyin(R,Q,B)        pmaxpy    R - Q*B          (divmodin(Q,R,B) = div(Q,R,B); maxpyin(R,Q,B))
   so that PolyProofs.v can prove soundness for EVERY choice of these operations satisfying the ring laws, and
   the concrete instance below (dense polynomials over Z/p as coefficient lists, low degree first) is what is
   extracted and run against the C++ code. *)
From Coq Require Import ZArith Bool List.
Import ListNotations.
Local Open Scope Z_scope.

Record pops (T : Type) : Type := mk_pops {
  pzero : T; pone : T;
  pdeg : T -> Z;
  pdiv : T -> T -> T;
  pmaxpy : T -> T -> T -> T;
  pgcddeg : T -> T -> Z;          (* degree(degG, gcd(G,N,D)) *)
  pleadone : T -> bool;           (* _domain.isOne(leadcoef(D)) *)
  pdivlead : T -> T -> T          (* pdivlead D X = X divided by leadcoef(D)   (divin(X, r)) *)
}.
Arguments pzero {T}. Arguments pone {T}. Arguments pdeg {T}. Arguments pdiv {T}. Arguments pmaxpy {T}.
Arguments pgcddeg {T}. Arguments pleadone {T}. Arguments pdivlead {T}.

Section Generic.
  Context {T : Type} (Ops : pops T).

  (* Degree(a) clamps negative values to DEGPOLYZERO = -1 *)
  Definition clampdeg (d : Z) : Z := if d <? 0 then -1 else d.

  (* lines 45-63; state N, U, D0, D.  Result: (degN <= dk, N, D) as left by the code; None = fuel exhausted *)
  Fixpoint ploop (fuel : nat) (N U D0 D : T) (dk : Z) : option (bool * T * T) :=
    match fuel with
    | O => None
    | S n =>
      let Q := pdiv Ops N U in
      let N1 := pmaxpy Ops N Q U in           (* divmodin(Q,N,U) *)
      let D01 := pmaxpy Ops D0 Q D in         (* maxpyin(D0,Q,D) *)
      let degN := pdeg Ops N1 in
      if (degN <=? dk) || (degN <? 0) then Some (degN <=? dk, N1, D01)   (* assign(D,D0); break *)
      else
        let Q2 := pdiv Ops U N1 in
        let U1 := pmaxpy Ops U Q2 N1 in       (* divmodin(Q,U,N) *)
        let D1 := pmaxpy Ops D Q2 D01 in      (* maxpyin(D,Q,D0) *)
        let degU := pdeg Ops U1 in
        if degU <=? dk then Some (true, U1, D1)                           (* assign(N,U); break *)
        else if degU >=? 0 then ploop n N1 U1 D01 D1 dk
        else Some (false, N1, D1)
    end.

  (* lines 18-87 *)
  Definition pratrecon_fuel (fuel : nat) (P M : T) (dk0 : Z) : option (bool * T * T) :=
    let dk := clampdeg dk0 in
    let degU := pdeg Ops P in
    let degV := pdeg Ops M in
    if (degU <? dk) || (degV =? 0) then Some (true, P, pone Ops)
    else if (degV <? 0) || (degU =? 0) then Some (false, pone Ops, pone Ops)
    else ploop fuel M P (pzero Ops) (pone Ops) dk.

  Definition pfuel (P M : T) : nat := Z.to_nat (pdeg Ops P + pdeg Ops M + 4).
  Definition pratrecon (P M : T) (dk : Z) : option (bool * T * T) := pratrecon_fuel (pfuel P M) P M dk.

  (* lines 90-107: ratreconcheck *)
  Definition pratreconcheck_g (P M : T) (dk : Z) : option (bool * T * T) :=
    match pratrecon P M dk with
    | None => None
    | Some (pass, N, D) =>
      if pgcddeg Ops N D >? 0 then Some (false, N, D)
      else if pleadone Ops D then Some (pass, N, D)
      else Some (pass, pdivlead Ops D N, pdivlead Ops D D)      (* divin(D,r); divin(N,r) with r = leadcoef(D) *)
    end.

  (* lines 109-115 *)
  Definition pratrecon6_g (P M : T) (dk : Z) (forcereduce : bool) : option (bool * T * T) :=
    if forcereduce then pratreconcheck_g P M dk else pratrecon P M dk.
End Generic.

(* ------------------------------------------------------------------ dense polynomials over Z/p *)
Section Zp.
  Variable p : Z.

  Definition cadd (a b : Z) := (a + b) mod p.
  Definition csub (a b : Z) := (a - b) mod p.
  Definition cmul (a b : Z) := (a * b) mod p.
  (* inverse by the extended Euclidean algorithm: invariant r0 == t0 a, r1 == t1 a (mod p) *)
  Fixpoint cinv_loop (fuel : nat) (r0 t0 r1 t1 : Z) : Z :=
    match fuel with
    | O => t0 mod p
    | S n => if r1 =? 0 then t0 mod p else let q := r0 / r1 in cinv_loop n r1 t1 (r0 - q * r1) (t0 - q * t1)
    end.
  Definition cinv (a : Z) : Z := cinv_loop (Z.to_nat (2 * Z.log2 p + 4)) p 0 (a mod p) 1.

  Definition poly := list Z.

  (* setdegree: strip leading (high-degree) zeros; lists are low degree first *)
  Fixpoint norm (l : poly) : poly :=
    match l with
    | [] => []
    | a :: t => match norm t with
                | [] => if a =? 0 then [] else [a]
                | t' => a :: t'
                end
    end.
  Definition deg (l : poly) : Z := Z.of_nat (length (norm l)) - 1.
  Definition lead (l : poly) : Z := last (norm l) 0.

  Fixpoint zipw (f : Z -> Z -> Z) (a b : poly) : poly :=
    match a, b with
    | [], _ => map (f 0) b
    | _, [] => map (fun x => f x 0) a
    | x :: a', y :: b' => f x y :: zipw f a' b'
    end.
  Definition padd (a b : poly) : poly := norm (zipw cadd a b).
  Definition psub (a b : poly) : poly := norm (zipw csub a b).
  Definition pscale (c : Z) (a : poly) : poly := norm (map (cmul c) a).
  Definition pshift (n : nat) (a : poly) : poly := match a with [] => [] | _ => repeat 0 n ++ a end.
  Fixpoint pmul (a b : poly) : poly :=
    match a with
    | [] => []
    | x :: a' => padd (pscale x b) (pshift 1 (pmul a' b))
    end.

  (* quotient of the Euclidean division by long division (B <> 0) *)
  Fixpoint pdiv_loop (fuel : nat) (A B Q : poly) : poly :=
    match fuel with
    | O => Q
    | S n =>
      if deg A <? deg B then Q
      else
        let d := Z.to_nat (deg A - deg B) in
        let c := cmul (lead A) (cinv (lead B)) in
        pdiv_loop n (psub A (pshift d (pscale c B))) B (padd Q (pshift d [c]))
    end.
  Definition pquo (A B : poly) : poly :=
    let A := norm A in let B := norm B in
    if deg B <? 0 then [] else pdiv_loop (length A + 1) A B [].
  Definition pmxpy (R Q B : poly) : poly := psub R (pmul Q B).
  Definition prem (A B : poly) : poly := pmxpy (norm A) (pquo A B) (norm B).

  (* degree of gcd(A,B) as Poly1Dom::gcd followed by degree() gives it (Euclid; gcd(0,B) = B) *)
  Fixpoint gcd_loop (fuel : nat) (A B : poly) : poly :=
    match fuel with
    | O => A
    | S n => if deg B <? 0 then A else gcd_loop n B (prem A B)
    end.
  Definition pgcd_deg (A B : poly) : Z :=
    let A := norm A in let B := norm B in
    deg (gcd_loop (length A + length B + 2) A B).

  Definition ZpOps : pops poly :=
    mk_pops poly [] [1 mod p] deg pquo pmxpy pgcd_deg (fun D => lead D =? 1) (fun D X => pscale (cinv (lead D)) X).

  Definition pratreconcheck (P M : poly) (dk : Z) : option (bool * poly * poly) :=
    pratreconcheck_g ZpOps (norm P) (norm M) dk.
  Definition pratrecon6 (P M : poly) (dk : Z) (forcereduce : bool) : option (bool * poly * poly) :=
    pratrecon6_g ZpOps (norm P) (norm M) dk forcereduce.
End Zp.
