(* C11 — soundness of the polynomial rational reconstruction (control structure of givpoly1ratrecon.inl).

   Section SoundS: for EVERY carrier T with an equivalence `req`, commutative-ring operations up to req, and EVERY
   record `Ops` of Poly1Dom operations (PolyModel.pops) such that
        deg respects req,  deg 0 = -1,  deg (c*x) < deg x -> c*x == 0     (true in K[X])
        assign x == x,  divmodin returns (Q, R) with R == A - Q*B (whatever Q is),  maxpyin r a b == r - a*b.
   PolyLists.v discharges all of these for the coefficient-vector polynomials of coq/C08 over any field.
   Below the section the same statements are given for Leibniz equality over an abstract ring (the instance
   `GOps`), which is how they are quoted in Properties.v. *)
From Coq Require Import ZArith Lia Bool Ring Setoid Morphisms.
From C11 Require Import PolyModel.
Local Open Scope Z_scope.

Section SoundS.
  Variable T : Type.
  Variable req : T -> T -> Prop.
  Hypothesis req_equiv : Equivalence req.
  Variables (zero one : T) (add mul sub : T -> T -> T) (opp : T -> T).
  Hypothesis Rth : ring_theory zero one add mul sub opp req.
  Hypothesis Rext : ring_eq_ext add mul opp req.
  Add Ring TringS : Rth (setoid req_equiv Rext).
  Local Existing Instance req_equiv.
  Local Instance add_P : Proper (req ==> req ==> req) add := Radd_ext Rext.
  Local Instance mul_P : Proper (req ==> req ==> req) mul := Rmul_ext Rext.
  Local Instance opp_P : Proper (req ==> req) opp := Ropp_ext Rext.
  Local Instance sub_P : Proper (req ==> req ==> req) sub.
  Proof.
    intros a a' Ha b b' Hb. rewrite (Rsub_def Rth a b), (Rsub_def Rth a' b'), Ha, Hb. reflexivity.
  Qed.
  Local Infix "==" := req (at level 70, no associativity).

  Variable Ops : pops T.
  Local Notation deg := (pdeg Ops).
  Hypothesis deg_proper : forall x y, x == y -> deg x = deg y.
  Hypothesis deg_zero : deg zero = -1.
  Hypothesis deg_mul_small : forall c x, deg (mul c x) < deg x -> mul c x == zero.
  Hypothesis zero_ok : pzero Ops == zero.
  Hypothesis one_ok : pone Ops == one.
  Hypothesis assign_ok : forall x, passign Ops x == x.
  Hypothesis divmod_ok : forall a b, snd (pdivmod Ops a b) == sub a (mul (fst (pdivmod Ops a b)) b).
  Hypothesis maxpy_ok : forall r a b, pmaxpy Ops r a b == sub r (mul a b).

  (* a == b (mod M) *)
  Definition pcong (M a b : T) : Prop := exists c, sub a b == mul c M.

  (* invariant of the loop: both pairs are congruent, and their determinant is M *)
  Definition PInv (P M N U D0 D : T) : Prop :=
    pcong M N (mul D0 P) /\ pcong M U (mul D P) /\ sub (mul N D) (mul U D0) == M.

  Lemma pcong_proper M a a' b b' : a == a' -> b == b' -> pcong M a b -> pcong M a' b'.
  Proof. intros Ha Hb [c H]. exists c. rewrite <- Ha, <- Hb. exact H. Qed.

  Lemma pcong_step P M N U D0 D Q :
    pcong M N (mul D0 P) -> pcong M U (mul D P) ->
    pcong M (sub N (mul Q U)) (mul (sub D0 (mul Q D)) P).
  Proof.
    intros [c0 H0] [c1 H1]. exists (sub c0 (mul Q c1)).
    transitivity (sub (sub N (mul D0 P)) (mul Q (sub U (mul D P)))); [ring|].
    rewrite H0, H1. ring.
  Qed.

  Lemma M_nonzero M dk : -1 <= dk < deg M -> ~ M == zero.
  Proof. intros H E. rewrite (deg_proper _ _ E), deg_zero in H. lia. Qed.

  (* a congruent candidate (X, Y) of small degree that cannot vanish entirely (its determinant with the
     other pair is M) has Y <> 0 *)
  Lemma den_nonzero P M dk X Y :
    -1 <= dk < deg M -> pcong M X (mul Y P) -> deg X <= dk ->
    (X == zero -> Y == zero -> M == zero) -> ~ Y == zero.
  Proof.
    intros Hdk [c Hc] Hd Hdet E.
    assert (HX : X == mul c M).
    { rewrite <- Hc, E. ring. }
    assert (Hz : mul c M == zero).
    { apply deg_mul_small. rewrite <- (deg_proper _ _ HX). lia. }
    apply (M_nonzero M dk Hdk). apply Hdet; [rewrite HX; exact Hz|exact E].
  Qed.

  Lemma ploop_sound P M dk : -1 <= dk < deg M -> forall fuel N U D0 D Nr Dr,
    PInv P M N U D0 D -> ploop Ops fuel N U D0 D dk = Some (true, Nr, Dr) ->
    pcong M Nr (mul Dr P) /\ deg Nr <= dk /\ ~ Dr == zero.
  Proof.
    intros Hdk fuel; induction fuel as [|n IH]; intros N U D0 D Nr Dr (C0 & C1 & Det); cbn [ploop]; [discriminate|].
    pose proof (divmod_ok N U) as HN1.
    destruct (pdivmod Ops N U) as [Q N1]. cbn [fst snd] in HN1.
    pose proof (maxpy_ok D0 Q D) as HD01. set (D01 := pmaxpy Ops D0 Q D) in *.
    assert (C0' : pcong M N1 (mul D01 P)).
    { eapply pcong_proper; [symmetry; exact HN1| |apply (pcong_step P M N U D0 D Q); assumption].
      rewrite HD01. reflexivity. }
    assert (Det1 : sub (mul N1 D) (mul U D01) == M).
    { rewrite <- Det, HN1, HD01. ring. }
    destruct ((deg N1 <=? dk) || (deg N1 <? 0)) eqn:E1.
    - intros R; inversion R as [[Hf HN HD]]; subst Nr Dr. apply Z.leb_le in Hf.
      assert (C0'' : pcong M N1 (mul (passign Ops D01) P)).
      { eapply pcong_proper; [reflexivity| |exact C0']. rewrite (assign_ok D01). reflexivity. }
      split; [exact C0''|]. split; [exact Hf|].
      apply (den_nonzero P M dk N1 (passign Ops D01) Hdk C0'' Hf).
      intros EX EY. rewrite (assign_ok D01) in EY. rewrite <- Det1, EX, EY. ring.
    - pose proof (divmod_ok U N1) as HU1.
      destruct (pdivmod Ops U N1) as [Q2 U1]. cbn [fst snd] in HU1.
      pose proof (maxpy_ok D Q2 D01) as HD1. set (D1 := pmaxpy Ops D Q2 D01) in *.
      assert (C1' : pcong M U1 (mul D1 P)).
      { eapply pcong_proper; [symmetry; exact HU1| |apply (pcong_step P M U N1 D D01 Q2); assumption].
        rewrite HD1. reflexivity. }
      assert (Det2 : sub (mul N1 D1) (mul U1 D01) == M).
      { rewrite <- Det1, HU1, HD1. ring. }
      destruct (Z.leb_spec (deg U1) dk) as [L|L].
      + intros R; inversion R; subst Nr Dr.
        assert (C1'' : pcong M (passign Ops U1) (mul D1 P)).
        { eapply pcong_proper; [symmetry; apply assign_ok|reflexivity|exact C1']. }
        assert (L' : deg (passign Ops U1) <= dk) by (rewrite (deg_proper _ _ (assign_ok U1)); exact L).
        split; [exact C1''|]. split; [exact L'|].
        apply (den_nonzero P M dk (passign Ops U1) D1 Hdk C1'' L').
        intros EX EY. rewrite (assign_ok U1) in EX. rewrite <- Det2, EX, EY. ring.
      + destruct (deg U1 >=? 0); [|discriminate].
        apply IH. repeat split; assumption.
  Qed.

  Definition Poly_ratrecon_sound_stmt : Prop := forall P M dk N D, 0 <= dk < deg M ->
    pratrecon Ops P M dk = Some (true, N, D) ->
    pcong M N (mul D P) /\ deg N <= dk /\ ~ D == zero.

  Lemma poly_ratrecon_sound : Poly_ratrecon_sound_stmt.
  Proof.
    intros P M dk N D Hdk. unfold pratrecon, pratrecon_fuel.
    assert (Hc : clampdeg dk = dk) by (unfold clampdeg; destruct (Z.ltb_spec dk 0); lia).
    rewrite Hc.
    assert (HM : ~ M == zero) by (apply (M_nonzero M dk); lia).
    assert (A1 : passign Ops (pone Ops) == one) by (rewrite assign_ok; exact one_ok).
    assert (A0 : passign Ops (pzero Ops) == zero) by (rewrite assign_ok; exact zero_ok).
    destruct ((deg P <? dk) || (deg M =? 0)) eqn:E1.
    - intros R; inversion R; subst N D.
      apply orb_true_iff in E1. destruct E1 as [E1|E1]; [apply Z.ltb_lt in E1|apply Z.eqb_eq in E1; lia].
      split; [exists zero; rewrite A1, (assign_ok P); ring|]. split; [rewrite (deg_proper _ _ (assign_ok P)); lia|].
      intros E. apply HM. rewrite A1 in E. transitivity (mul one M); [ring|]. rewrite E. ring.
    - destruct ((deg M <? 0) || (deg P =? 0)); [discriminate|].
      assert (HdM : deg (passign Ops M) = deg M) by (apply deg_proper, assign_ok).
      intros HL.
      assert (Hdk' : -1 <= dk < deg (passign Ops M)) by lia.
      assert (HI : PInv (passign Ops P) (passign Ops M) (passign Ops M) (passign Ops P)
                        (passign Ops (pzero Ops)) (passign Ops (pone Ops))).
      { repeat split.
        * exists one. rewrite A0. ring.
        * exists zero. rewrite A1. ring.
        * rewrite A0, A1. ring. }
      destruct (ploop_sound (passign Ops P) (passign Ops M) dk Hdk' _ _ _ _ _ N D HI HL) as (C & L & NZ).
      + split; [|split; assumption].
        destruct C as [c C]. exists c. rewrite <- (assign_ok M) at 1. rewrite <- C, (assign_ok P). reflexivity.
  Qed.

  (* ------------------------------------------------------------ ratreconcheck and the 6-argument form:
     dividing by the leading coefficient of D is multiplication by some element unit_of D, invertible when
     D <> 0, that keeps degrees *)
  Variable unit_of : T -> T.
  Hypothesis divlead_ok : forall D X, pdivlead Ops D X == mul (unit_of D) X.
  Hypothesis unit_inv : forall D, ~ D == zero -> exists v, mul v (unit_of D) == one.
  Hypothesis unit_deg : forall D X, ~ D == zero -> deg (mul (unit_of D) X) = deg X.

  Definition Poly_ratreconcheck_sound_stmt : Prop := forall P M dk N D, 0 <= dk < deg M ->
    pratreconcheck_g Ops P M dk = Some (true, N, D) ->
    pcong M N (mul D P) /\ deg N <= dk /\ ~ D == zero /\
    exists N0 D0, pratrecon Ops P M dk = Some (true, N0, D0) /\ pgcddeg Ops N0 D0 <= 0 /\
                  ((N = N0 /\ D = D0) \/ (N = pdivlead Ops D0 N0 /\ D = pdivlead Ops D0 D0)).
  Lemma poly_ratreconcheck_sound : Poly_ratreconcheck_sound_stmt.
  Proof.
    intros P M dk N D Hdk. unfold pratreconcheck_g.
    destruct (pratrecon Ops P M dk) as [[[pass N0] D0]|] eqn:E; [|discriminate].
    destruct (Z.gtb_spec (pgcddeg Ops N0 D0) 0) as [G|G]; [discriminate|].
    assert (S0 : pass = true -> pcong M N0 (mul D0 P) /\ deg N0 <= dk /\ ~ D0 == zero).
    { intros ->. exact (poly_ratrecon_sound P M dk N0 D0 Hdk E). }
    destruct (pleadone Ops D0).
    - intros R; inversion R; subst. destruct (S0 eq_refl) as (C & L & NZ).
      repeat split; auto. exists N, D. repeat split; auto.
    - intros R; inversion R; subst. destruct (S0 eq_refl) as ([c C] & L & NZ).
      split; [|split; [|split]].
      + exists (mul (unit_of D0) c). rewrite !divlead_ok.
        transitivity (mul (unit_of D0) (sub N0 (mul D0 P))); [ring|].
        rewrite C. ring.
      + rewrite (deg_proper _ _ (divlead_ok D0 N0)), unit_deg by exact NZ. exact L.
      + intros Z0. rewrite divlead_ok in Z0. destruct (unit_inv D0 NZ) as [v Hv]. apply NZ.
        transitivity (mul (mul v (unit_of D0)) D0); [rewrite Hv; ring|].
        transitivity (mul v (mul (unit_of D0) D0)); [ring|]. rewrite Z0. ring.
      + exists N0, D0. repeat split; auto.
  Qed.

  Definition Poly_ratrecon6_sound_stmt : Prop := forall P M dk fr N D, 0 <= dk < deg M ->
    pratrecon6_g Ops P M dk fr = Some (true, N, D) ->
    pcong M N (mul D P) /\ deg N <= dk /\ ~ D == zero.
  Lemma poly_ratrecon6_sound : Poly_ratrecon6_sound_stmt.
  Proof.
    intros P M dk fr N D Hdk. unfold pratrecon6_g. destruct fr.
    - intros H. destruct (poly_ratreconcheck_sound P M dk N D Hdk H) as (C & L & NZ & _). auto.
    - apply poly_ratrecon_sound; assumption.
  Qed.

  (* ------------------------------------------------------------ termination (needs the division to be Euclidean) *)
  Hypothesis deg_rem : forall a b, ~ b == zero -> deg (snd (pdivmod Ops a b)) < deg b.
  Hypothesis deg_nonneg : forall x, ~ x == zero -> 0 <= deg x.

  Lemma deg_pos_nonzero x : 0 <= deg x -> ~ x == zero.
  Proof. intros H E. rewrite (deg_proper _ _ E), deg_zero in H. lia. Qed.

  Lemma ploop_total dk : -1 <= dk -> forall fuel N U D0 D,
    ~ U == zero -> deg U < Z.of_nat fuel -> ploop Ops fuel N U D0 D dk <> None.
  Proof.
    intros Hdk fuel; induction fuel as [|n IH]; intros N U D0 D HU Hf; cbn [ploop].
    - exfalso. pose proof (deg_nonneg U HU). cbn in Hf. lia.
    - pose proof (deg_rem N U HU) as R1.
      destruct (pdivmod Ops N U) as [Q N1]. cbn [snd] in R1.
      destruct ((deg N1 <=? dk) || (deg N1 <? 0)) eqn:E1; [discriminate|].
      apply orb_false_iff in E1. destruct E1 as [E1 E1']. apply Z.leb_gt in E1. apply Z.ltb_ge in E1'.
      assert (HN1 : ~ N1 == zero) by (apply deg_pos_nonzero; lia).
      pose proof (deg_rem U N1 HN1) as R2.
      destruct (pdivmod Ops U N1) as [Q2 U1]. cbn [snd] in R2.
      destruct (Z.leb_spec (deg U1) dk) as [L|L]; [discriminate|].
      destruct (Z.geb_spec (deg U1) 0) as [G|G]; [|discriminate].
      apply IH; [apply deg_pos_nonzero; lia|]. lia.
  Qed.

  Definition Poly_ratrecon_total_stmt : Prop := forall P M dk, 0 <= dk -> -1 <= deg M ->
    pratrecon Ops P M dk <> None.
  Lemma poly_ratrecon_total : Poly_ratrecon_total_stmt.
  Proof.
    intros P M dk Hdk HM. unfold pratrecon, pratrecon_fuel, pfuel.
    assert (Hc : clampdeg dk = dk) by (unfold clampdeg; destruct (Z.ltb_spec dk 0); lia).
    rewrite Hc.
    destruct ((deg P <? dk) || (deg M =? 0)) eqn:E1; [discriminate|].
    destruct ((deg M <? 0) || (deg P =? 0)); [discriminate|].
    apply orb_false_iff in E1. destruct E1 as [E1 _]. apply Z.ltb_ge in E1.
    pose proof (deg_proper _ _ (assign_ok P)) as HP.
    apply ploop_total; [lia|apply deg_pos_nonzero; lia|]. lia.
  Qed.
End SoundS.

(* ------------------------------------------------------------------ Leibniz equality over an abstract ring *)
Section Leibniz.
  Variable T : Type.
  Variables (zero one : T) (add mul sub : T -> T -> T) (opp : T -> T).
  Variable deg : T -> Z.
  Variable div : T -> T -> T.
  Variable gcddeg : T -> T -> Z.
  Variable leadone : T -> bool.
  Variable unit_of : T -> T.
  Definition GOps : pops T :=
    mk_pops T zero one (fun x => x) deg (fun a b => (div a b, sub a (mul (div a b) b)))
            (fun r a b => sub r (mul a b)) gcddeg leadone (fun D X => mul (unit_of D) X).
End Leibniz.

Lemma eq_ext_of {T} (add mul : T -> T -> T) (opp : T -> T) : ring_eq_ext add mul opp (@eq T).
Proof. constructor; intros ? ? -> ; try intros ? ? ->; reflexivity. Qed.

(* the statements with their hypotheses spelled out *)
Definition Poly_ratrecon_sound : Prop :=
  forall (T : Type) (zero one : T) (add mul sub : T -> T -> T) (opp : T -> T),
    ring_theory zero one add mul sub opp (@eq T) ->
    forall (deg : T -> Z) (div : T -> T -> T) (gcddeg : T -> T -> Z) (leadone : T -> bool) (unit_of : T -> T),
      deg zero = -1 ->
      (forall c x : T, deg (mul c x) < deg x -> mul c x = zero) ->
      forall (P M : T) (dk : Z) (N D : T), 0 <= dk < deg M ->
        pratrecon (GOps T zero one mul sub deg div gcddeg leadone unit_of) P M dk = Some (true, N, D) ->
        (exists c, sub N (mul D P) = mul c M) /\ deg N <= dk /\ D <> zero.
Lemma poly_ratrecon_sound_full : Poly_ratrecon_sound.
Proof.
  intros T zero one add mul sub opp Rth deg div g l u Hz Hs.
  apply (poly_ratrecon_sound T eq _ zero one add mul sub opp Rth (eq_ext_of add mul opp)
           (GOps T zero one mul sub deg div g l u)); cbn [GOps pdeg pzero pone passign pdivmod pmaxpy fst snd];
    try reflexivity; try assumption.
  intros x y ->; reflexivity.
Qed.

(* ratreconcheck and ratrecon(N,D,P,M,dk,forcereduce): dividing by leadcoef(D) is multiplication by unit_of D *)
Definition Poly_ratreconcheck_sound : Prop :=
  forall (T : Type) (zero one : T) (add mul sub : T -> T -> T) (opp : T -> T),
    ring_theory zero one add mul sub opp (@eq T) ->
    forall (deg : T -> Z) (div : T -> T -> T) (gcddeg : T -> T -> Z) (leadone : T -> bool) (unit_of : T -> T),
      deg zero = -1 ->
      (forall c x : T, deg (mul c x) < deg x -> mul c x = zero) ->
      (forall D : T, D <> zero -> exists v, mul v (unit_of D) = one) ->
      (forall D X : T, D <> zero -> deg (mul (unit_of D) X) = deg X) ->
      let Ops := GOps T zero one mul sub deg div gcddeg leadone unit_of in
      forall (P M : T) (dk : Z) (N D : T), 0 <= dk < deg M ->
        (pratreconcheck_g Ops P M dk = Some (true, N, D) ->
           (exists c, sub N (mul D P) = mul c M) /\ deg N <= dk /\ D <> zero /\
           exists N0 D0, pratrecon Ops P M dk = Some (true, N0, D0) /\ gcddeg N0 D0 <= 0 /\
             ((N = N0 /\ D = D0) \/ (N = mul (unit_of D0) N0 /\ D = mul (unit_of D0) D0))) /\
        (forall fr, pratrecon6_g Ops P M dk fr = Some (true, N, D) ->
           (exists c, sub N (mul D P) = mul c M) /\ deg N <= dk /\ D <> zero).
Lemma poly_ratreconcheck_sound_full : Poly_ratreconcheck_sound.
Proof.
  intros T zero one add mul sub opp Rth deg div g l u Hz Hs Hu Hd Ops P M dk N D Hdk. split.
  - apply (poly_ratreconcheck_sound T eq _ zero one add mul sub opp Rth (eq_ext_of add mul opp) Ops) with (unit_of := u);
      cbn [Ops GOps pdeg pzero pone passign pdivmod pmaxpy pdivlead fst snd]; try reflexivity; try assumption.
    intros x y ->; reflexivity.
  - intros fr.
    apply (poly_ratrecon6_sound T eq _ zero one add mul sub opp Rth (eq_ext_of add mul opp) Ops) with (unit_of := u);
      cbn [Ops GOps pdeg pzero pone passign pdivmod pmaxpy pdivlead fst snd]; try reflexivity; try assumption.
    intros x y ->; reflexivity.
Qed.

(* termination within the fuel deg P + deg M + 4 when `div` is a Euclidean quotient *)
Definition Poly_ratrecon_total : Prop :=
  forall (T : Type) (zero one : T) (add mul sub : T -> T -> T) (opp : T -> T),
    ring_theory zero one add mul sub opp (@eq T) ->
    forall (deg : T -> Z) (div : T -> T -> T) (gcddeg : T -> T -> Z) (leadone : T -> bool) (unit_of : T -> T),
      deg zero = -1 ->
      (forall a b : T, b <> zero -> deg (sub a (mul (div a b) b)) < deg b) ->
      (forall x : T, x <> zero -> 0 <= deg x) ->
      forall (P M : T) (dk : Z), 0 <= dk -> -1 <= deg M ->
        pratrecon (GOps T zero one mul sub deg div gcddeg leadone unit_of) P M dk <> None.
Lemma poly_ratrecon_total_full : Poly_ratrecon_total.
Proof.
  intros T zero one add mul sub opp Rth deg div g l u Hz Hr Hn.
  refine (poly_ratrecon_total T eq zero (GOps T zero one mul sub deg div g l u) _ Hz _ _ _);
    cbn [GOps pdeg pzero pone passign pdivmod pmaxpy fst snd]; try reflexivity; try assumption.
  intros x y ->; reflexivity.
Qed.

(* the hypotheses are satisfiable TOGETHER with 0 <= dk < deg M: the ring Z with deg x = floor(log2 |x|) (deg 0 = -1) and the
   truncated quotient; deg 1009 = 9, and ratrecon with dk = 4 reconstructs 289 = 5/7 mod 1009 (7 * 289 = 2 * 1009 + 5, deg 5 = 2).
   (The former example, deg x in {-1, 0}, could not satisfy 0 <= dk < deg M.) *)
Definition zdeg (x : Z) : Z := if x =? 0 then -1 else Z.log2 (Z.abs x).
Example poly_hyps_example :
  ring_theory 0 1 Z.add Z.mul Z.sub Z.opp (@eq Z) /\ (zdeg 0 = -1) /\
  (forall c x : Z, zdeg (c * x) < zdeg x -> c * x = 0) /\
  (0 <= 4 < zdeg 1009) /\
  pratrecon (GOps Z 0 1 Z.mul Z.sub zdeg Z.quot (fun _ _ => 0) (fun _ => true) (fun _ => 1)) 289 1009 4 = Some (true, 5, 7).
Proof.
  split; [exact InitialRing.Zth|]. split; [reflexivity|]. split; [|split; [vm_compute; split; [discriminate|reflexivity]|vm_compute; reflexivity]].
  intros c x. unfold zdeg.
  destruct (Z.eqb_spec (c * x) 0) as [E|E]; [auto|]. destruct (Z.eqb_spec x 0) as [X|X]; [subst; rewrite Z.mul_0_r in E; congruence|].
  intros H. exfalso.
  assert (Hc : c <> 0) by (intros ->; apply E; reflexivity).
  assert (Z.abs x <= Z.abs (c * x)).
  { rewrite Z.abs_mul. assert (1 <= Z.abs c) by lia. assert (0 <= Z.abs x) by lia. nia. }
  pose proof (Z.log2_le_mono _ _ H0). lia.
Qed.
