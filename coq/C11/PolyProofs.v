(* C11 — soundness of the polynomial rational reconstruction (control structure of givpoly1ratrecon.inl),
   for EVERY commutative ring T with a degree function such that  deg 0 = -1  and
   deg (c*x) < deg x -> c*x = 0  (true in K[X]: deg (c x) = deg c + deg x for c, x <> 0), and for EVERY
   quotient function `div` (soundness does not depend on what divmodin computes as quotient, only on
   R = A - Q*B).  The polynomials over Z/p of PolyModel.v are one such instance; that their list operations
   satisfy the ring laws is not proved here (correspondence-tested, property C08's subject). *)
From Coq Require Import ZArith Lia Bool Ring.
From C11 Require Import PolyModel.
Local Open Scope Z_scope.

Section Sound.
  Variable T : Type.
  Variables (zero one : T) (add mul sub : T -> T -> T) (opp : T -> T).
  Hypothesis Rth : ring_theory zero one add mul sub opp (@eq T).
  Add Ring Tring : Rth.
  Variable deg : T -> Z.
  Variable div : T -> T -> T.
  Hypothesis deg_zero : deg zero = -1.
  Hypothesis deg_mul_small : forall c x, deg (mul c x) < deg x -> mul c x = zero.

  (* ratreconcheck: an arbitrary gcd-degree function and test "leadcoef is one"; dividing by the leading
     coefficient of D is multiplication by some element unit_of D, invertible when D <> 0, that keeps degrees *)
  Variable gcddeg : T -> T -> Z.
  Variable leadone : T -> bool.
  Variable unit_of : T -> T.
  Definition GOps : pops T :=
    mk_pops T zero one deg div (fun r a b => sub r (mul a b)) gcddeg leadone (fun D X => mul (unit_of D) X).

  (* a == b (mod M) *)
  Definition pcong (M a b : T) : Prop := exists c, sub a b = mul c M.

  (* invariant of the loop: both pairs are congruent, and their determinant is M *)
  Definition PInv (P M N U D0 D : T) : Prop :=
    pcong M N (mul D0 P) /\ pcong M U (mul D P) /\ sub (mul N D) (mul U D0) = M.

  Lemma pcong_step P M N U D0 D Q :
    pcong M N (mul D0 P) -> pcong M U (mul D P) ->
    pcong M (sub N (mul Q U)) (mul (sub D0 (mul Q D)) P).
  Proof.
    intros [c0 H0] [c1 H1]. exists (sub c0 (mul Q c1)).
    replace (sub (sub N (mul Q U)) (mul (sub D0 (mul Q D)) P))
      with (sub (sub N (mul D0 P)) (mul Q (sub U (mul D P)))) by ring.
    rewrite H0, H1. ring.
  Qed.

  Lemma M_nonzero M dk : -1 <= dk < deg M -> M <> zero.
  Proof. intros H E. rewrite E, deg_zero in H. lia. Qed.

  (* a congruent candidate (X, Y) of small degree that cannot vanish entirely (its determinant with the
     other pair is M) has Y <> 0 *)
  Lemma den_nonzero P M dk X Y :
    -1 <= dk < deg M -> pcong M X (mul Y P) -> deg X <= dk ->
    (X = zero -> Y = zero -> M = zero) -> Y <> zero.
  Proof.
    intros Hdk [c Hc] Hd Hdet E. subst Y.
    assert (HX : X = mul c M) by (rewrite <- Hc; ring).
    assert (Hz : mul c M = zero) by (apply deg_mul_small; rewrite <- HX; lia).
    rewrite Hz in HX.
    apply (M_nonzero M dk Hdk). apply Hdet; [exact HX|reflexivity].
  Qed.

  Lemma ploop_sound P M dk : -1 <= dk < deg M -> forall fuel N U D0 D Nr Dr,
    PInv P M N U D0 D -> ploop GOps fuel N U D0 D dk = Some (true, Nr, Dr) ->
    pcong M Nr (mul Dr P) /\ deg Nr <= dk /\ Dr <> zero.
  Proof.
    intros Hdk fuel; induction fuel as [|n IH]; intros N U D0 D Nr Dr (C0 & C1 & Det); cbn [ploop]; [discriminate|].
    cbn [pdiv pmaxpy pdeg GOps].
    set (Q := div N U). set (N1 := sub N (mul Q U)). set (D01 := sub D0 (mul Q D)).
    assert (C0' : pcong M N1 (mul D01 P)) by (apply pcong_step; assumption).
    assert (Det1 : sub (mul N1 D) (mul U D01) = M) by (rewrite <- Det; unfold N1, D01; ring).
    destruct ((deg N1 <=? dk) || (deg N1 <? 0)) eqn:E1.
    - intros R; inversion R as [[Hf HN HD]]; subst Nr Dr. apply Z.leb_le in Hf.
      split; [exact C0'|]. split; [exact Hf|].
      apply (den_nonzero P M dk N1 D01 Hdk C0' Hf).
      intros EX EY. rewrite <- Det1, EX, EY. ring.
    - set (Q2 := div U N1). set (U1 := sub U (mul Q2 N1)). set (D1 := sub D (mul Q2 D01)).
      assert (C1' : pcong M U1 (mul D1 P)) by (apply pcong_step; assumption).
      assert (Det2 : sub (mul N1 D1) (mul U1 D01) = M) by (rewrite <- Det1; unfold U1, D1; ring).
      destruct (Z.leb_spec (deg U1) dk) as [L|L].
      + intros R; inversion R; subst Nr Dr.
        split; [exact C1'|]. split; [exact L|].
        apply (den_nonzero P M dk U1 D1 Hdk C1' L).
        intros EX EY. rewrite <- Det2, EX, EY. ring.
      + destruct (deg U1 >=? 0); [|discriminate].
        apply IH. repeat split; assumption.
  Qed.

  Definition Poly_ratrecon_sound_stmt : Prop := forall P M dk N D, 0 <= dk < deg M ->
    pratrecon GOps P M dk = Some (true, N, D) ->
    pcong M N (mul D P) /\ deg N <= dk /\ D <> zero.

  Lemma poly_ratrecon_sound : Poly_ratrecon_sound_stmt.
  Proof.
    intros P M dk N D Hdk. unfold pratrecon, pratrecon_fuel. cbn [pdeg pone pzero GOps].
    assert (Hc : clampdeg dk = dk) by (unfold clampdeg; destruct (Z.ltb_spec dk 0); lia).
    rewrite Hc.
    assert (HM : M <> zero) by (apply (M_nonzero M dk); lia).
    destruct ((deg P <? dk) || (deg M =? 0)) eqn:E1.
    - intros R; inversion R; subst N D.
      apply orb_true_iff in E1. destruct E1 as [E1|E1]; [apply Z.ltb_lt in E1|apply Z.eqb_eq in E1; lia].
      split; [exists zero; ring|]. split; [lia|].
      intros E. apply HM. replace M with (mul one M) by ring. rewrite E. ring.
    - destruct ((deg M <? 0) || (deg P =? 0)); [discriminate|].
      apply ploop_sound; [lia|].
      repeat split.
      + exists one; ring.
      + exists zero; ring.
      + ring.
  Qed.

  (* ------------------------------------------------------------ ratreconcheck and the 6-argument form *)
  Hypothesis unit_inv : forall D, D <> zero -> exists v, mul v (unit_of D) = one.
  Hypothesis unit_deg : forall D X, D <> zero -> deg (mul (unit_of D) X) = deg X.

  Definition Poly_ratreconcheck_sound_stmt : Prop := forall P M dk N D, 0 <= dk < deg M ->
    pratreconcheck_g GOps P M dk = Some (true, N, D) ->
    pcong M N (mul D P) /\ deg N <= dk /\ D <> zero /\
    exists N0 D0, pratrecon GOps P M dk = Some (true, N0, D0) /\ gcddeg N0 D0 <= 0 /\
                  ((N = N0 /\ D = D0) \/ (N = mul (unit_of D0) N0 /\ D = mul (unit_of D0) D0)).
  Lemma poly_ratreconcheck_sound : Poly_ratreconcheck_sound_stmt.
  Proof.
    intros P M dk N D Hdk. unfold pratreconcheck_g.
    destruct (pratrecon GOps P M dk) as [[[pass N0] D0]|] eqn:E; [|discriminate].
    cbn [pgcddeg pleadone pdivlead GOps].
    destruct (Z.gtb_spec (gcddeg N0 D0) 0) as [G|G]; [discriminate|].
    assert (S0 : pass = true -> pcong M N0 (mul D0 P) /\ deg N0 <= dk /\ D0 <> zero).
    { intros ->. exact (poly_ratrecon_sound P M dk N0 D0 Hdk E). }
    destruct (leadone D0).
    - intros R; inversion R; subst. destruct (S0 eq_refl) as (C & L & NZ).
      repeat split; auto. exists N, D. repeat split; auto.
    - intros R; inversion R; subst. destruct (S0 eq_refl) as ([c C] & L & NZ).
      split; [|split; [|split]].
      + exists (mul (unit_of D0) c).
        replace (sub (mul (unit_of D0) N0) (mul (mul (unit_of D0) D0) P))
          with (mul (unit_of D0) (sub N0 (mul D0 P))) by ring.
        rewrite C. ring.
      + rewrite unit_deg by exact NZ. exact L.
      + intros Z0. destruct (unit_inv D0 NZ) as [v Hv]. apply NZ.
        assert (HD : D0 = mul v (mul (unit_of D0) D0)).
        { transitivity (mul (mul v (unit_of D0)) D0); [rewrite Hv; ring|ring]. }
        etransitivity; [exact HD|]. rewrite Z0. ring.
      + exists N0, D0. repeat split; auto.
  Qed.

  Definition Poly_ratrecon6_sound_stmt : Prop := forall P M dk fr N D, 0 <= dk < deg M ->
    pratrecon6_g GOps P M dk fr = Some (true, N, D) ->
    pcong M N (mul D P) /\ deg N <= dk /\ D <> zero.
  Lemma poly_ratrecon6_sound : Poly_ratrecon6_sound_stmt.
  Proof.
    intros P M dk fr N D Hdk. unfold pratrecon6_g. destruct fr.
    - intros H. destruct (poly_ratreconcheck_sound P M dk N D Hdk H) as (C & L & NZ & _). auto.
    - apply poly_ratrecon_sound; assumption.
  Qed.

  (* ------------------------------------------------------------ termination (needs the division to be Euclidean) *)
  Hypothesis deg_rem : forall a b, b <> zero -> deg (sub a (mul (div a b) b)) < deg b.
  Hypothesis deg_nonneg : forall x, x <> zero -> 0 <= deg x.

  Lemma deg_pos_nonzero x : 0 <= deg x -> x <> zero.
  Proof. intros H E. rewrite E, deg_zero in H. lia. Qed.

  Lemma ploop_total dk : -1 <= dk -> forall fuel N U D0 D,
    U <> zero -> deg U < Z.of_nat fuel -> ploop GOps fuel N U D0 D dk <> None.
  Proof.
    intros Hdk fuel; induction fuel as [|n IH]; intros N U D0 D HU Hf; cbn [ploop].
    - exfalso. pose proof (deg_nonneg U HU). cbn in Hf. lia.
    - cbn [pdiv pmaxpy pdeg GOps].
      set (N1 := sub N (mul (div N U) U)).
      pose proof (deg_rem N U HU) as R1. fold N1 in R1.
      destruct ((deg N1 <=? dk) || (deg N1 <? 0)) eqn:E1; [discriminate|].
      apply orb_false_iff in E1. destruct E1 as [E1 E1']. apply Z.leb_gt in E1. apply Z.ltb_ge in E1'.
      assert (HN1 : N1 <> zero) by (apply deg_pos_nonzero; lia).
      set (U1 := sub U (mul (div U N1) N1)).
      pose proof (deg_rem U N1 HN1) as R2. fold U1 in R2.
      destruct (Z.leb_spec (deg U1) dk) as [L|L]; [discriminate|].
      destruct (Z.geb_spec (deg U1) 0) as [G|G]; [|discriminate].
      apply IH; [apply deg_pos_nonzero; lia|]. lia.
  Qed.

  Definition Poly_ratrecon_total_stmt : Prop := forall P M dk, 0 <= dk -> -1 <= deg M ->
    pratrecon GOps P M dk <> None.
  Lemma poly_ratrecon_total : Poly_ratrecon_total_stmt.
  Proof.
    intros P M dk Hdk HM. unfold pratrecon, pratrecon_fuel, pfuel. cbn [pdeg pone pzero GOps].
    assert (Hc : clampdeg dk = dk) by (unfold clampdeg; destruct (Z.ltb_spec dk 0); lia).
    rewrite Hc.
    destruct ((deg P <? dk) || (deg M =? 0)) eqn:E1; [discriminate|].
    destruct ((deg M <? 0) || (deg P =? 0)); [discriminate|].
    apply orb_false_iff in E1. destruct E1 as [E1 _]. apply Z.ltb_ge in E1.
    apply ploop_total; [lia|apply deg_pos_nonzero; lia|]. lia.
  Qed.
End Sound.

(* the statements with their hypotheses spelled out *)
Definition Poly_ratrecon_sound : Prop :=
  forall (T : Type) (zero one : T) (add mul sub : T -> T -> T) (opp : T -> T),
    ring_theory zero one add mul sub opp (@eq T) ->
    forall (deg : T -> Z) (div : T -> T -> T) (gcddeg : T -> T -> Z) (leadone : T -> bool) (unit_of : T -> T),
      deg zero = -1 ->
      (forall c x : T, deg (mul c x) < deg x -> mul c x = zero) ->
      forall (P M : T) (dk : Z) (N D : T), 0 <= dk < deg M ->
        pratrecon (GOps T zero one mul sub deg div gcddeg leadone unit_of) P M dk = Some (true, N, D) ->
        (exists c, sub N (mul D P) = mul c M) /\ deg N <= dk /\ D <> zero.
Lemma poly_ratrecon_sound_full : Poly_ratrecon_sound.
Proof. intros T zero one add mul sub opp Rth deg div g l u Hz Hs. exact (poly_ratrecon_sound T zero one add mul sub opp Rth deg div Hz Hs g l u). Qed.

(* ratreconcheck and ratrecon(N,D,P,M,dk,forcereduce): dividing by leadcoef(D) is multiplication by unit_of D *)
Definition Poly_ratreconcheck_sound : Prop :=
  forall (T : Type) (zero one : T) (add mul sub : T -> T -> T) (opp : T -> T),
    ring_theory zero one add mul sub opp (@eq T) ->
    forall (deg : T -> Z) (div : T -> T -> T) (gcddeg : T -> T -> Z) (leadone : T -> bool) (unit_of : T -> T),
      deg zero = -1 ->
      (forall c x : T, deg (mul c x) < deg x -> mul c x = zero) ->
      (forall D : T, D <> zero -> exists v, mul v (unit_of D) = one) ->
      (forall D X : T, D <> zero -> deg (mul (unit_of D) X) = deg X) ->
      let Ops := GOps T zero one mul sub deg div gcddeg leadone unit_of in
      forall (P M : T) (dk : Z) (N D : T), 0 <= dk < deg M ->
        (pratreconcheck_g Ops P M dk = Some (true, N, D) ->
           (exists c, sub N (mul D P) = mul c M) /\ deg N <= dk /\ D <> zero /\
           exists N0 D0, pratrecon Ops P M dk = Some (true, N0, D0) /\ gcddeg N0 D0 <= 0 /\
             ((N = N0 /\ D = D0) \/ (N = mul (unit_of D0) N0 /\ D = mul (unit_of D0) D0))) /\
        (forall fr, pratrecon6_g Ops P M dk fr = Some (true, N, D) ->
           (exists c, sub N (mul D P) = mul c M) /\ deg N <= dk /\ D <> zero).
Lemma poly_ratreconcheck_sound_full : Poly_ratreconcheck_sound.
Proof.
  intros T zero one add mul sub opp Rth deg div g l u Hz Hs Hu Hd Ops P M dk N D Hdk. split.
  - exact (poly_ratreconcheck_sound T zero one add mul sub opp Rth deg div Hz Hs g l u Hu Hd P M dk N D Hdk).
  - intros fr. exact (poly_ratrecon6_sound T zero one add mul sub opp Rth deg div Hz Hs g l u Hu Hd P M dk fr N D Hdk).
Qed.

(* termination within the fuel deg P + deg M + 4 when `div` is a Euclidean quotient *)
Definition Poly_ratrecon_total : Prop :=
  forall (T : Type) (zero one : T) (add mul sub : T -> T -> T) (opp : T -> T),
    ring_theory zero one add mul sub opp (@eq T) ->
    forall (deg : T -> Z) (div : T -> T -> T) (gcddeg : T -> T -> Z) (leadone : T -> bool) (unit_of : T -> T),
      deg zero = -1 ->
      (forall a b : T, b <> zero -> deg (sub a (mul (div a b) b)) < deg b) ->
      (forall x : T, x <> zero -> 0 <= deg x) ->
      forall (P M : T) (dk : Z), 0 <= dk -> -1 <= deg M ->
        pratrecon (GOps T zero one mul sub deg div gcddeg leadone unit_of) P M dk <> None.
Lemma poly_ratrecon_total_full : Poly_ratrecon_total.
Proof. intros T zero one add mul sub opp Rth deg div g l u Hz Hr Hn. eapply poly_ratrecon_total; eauto. Qed.

(* the hypotheses are satisfiable: Z with deg x = (if x = 0 then -1 else 0) *)
Example poly_hyps_example :
  let deg := fun x : Z => if x =? 0 then -1 else 0 in
  ring_theory 0 1 Z.add Z.mul Z.sub Z.opp (@eq Z) /\ deg 0 = -1 /\
  (forall c x : Z, deg (c * x) < deg x -> c * x = 0).
Proof.
  cbn. split; [exact InitialRing.Zth|]. split; [reflexivity|].
  intros c x. destruct (Z.eqb_spec (c * x) 0); [auto|]. destruct (Z.eqb_spec x 0); lia.
Qed.
