(* C11 — completeness of ratrecon inside the uniqueness envelope.
   The consecutive pairs (r0,t0), (r1,t1) of the remainder sequence form a basis of the lattice
   { (r,t) : r == t F (mod m) } of determinant +-m; a lattice vector (a,b) with |a| m + b k^2 <= k m
   has determinant of absolute value < m with (r1,t1), hence is a multiple of it; gcd(a,b) = 1 and b > 0
   make it the normalised first candidate. *)
From Coq Require Import ZArith Lia Bool Znumtheory.
From C11 Require Import Model ProofsLoop ProofsSound.
Local Open Scope Z_scope.
Ltac Zify.zify_post_hook ::= Z.div_mod_to_equations.

Definition Basis (F m r0 t0 r1 t1 : Z) : Prop :=
  forall r t, cong m r (t * F) -> exists x y, r = x * r0 + y * r1 /\ t = x * t0 + y * t1.

Lemma Basis_init F m : Basis F m m 0 F 1.
Proof. intros r t [c H]. exists c, t. split; lia. Qed.

Lemma Basis_step F m r0 t0 r1 t1 q : Basis F m r0 t0 r1 t1 -> Basis F m r1 t1 (r0 - r1 * q) (t0 - t1 * q).
Proof.
  intros B r t H. destruct (B r t H) as (x & y & Hr & Ht).
  exists (y + x * q), x. split; lia.
Qed.

Lemma loop_basis F m k : forall fuel r0 t0 r1 t1 s,
  Basis F m r0 t0 r1 t1 -> loop fuel k r0 t0 r1 t1 = Some s ->
  let '(r0', t0', r1', t1') := s in Basis F m r0' t0' r1' t1'.
Proof.
  intros fuel; induction fuel as [|n IH]; intros r0 t0 r1 t1 s HB; cbn [loop];
    destruct (r1 >=? k); intros E; try discriminate.
  - inversion E; subst; assumption.
  - eapply IH; [|exact E]. apply Basis_step; assumption.
  - inversion E; subst; assumption.
Qed.

(* signed form of the determinant invariant *)
Lemma Inv_det_signed F m k r0 t0 r1 t1 : Inv F m k r0 t0 r1 t1 ->
  r0 * t1 - r1 * t0 = m \/ r0 * t1 - r1 * t0 = - m.
Proof.
  intros [c0 c1 det sgn hr1 hr0 ht0 ht1].
  destruct (Z.lt_trichotomy t1 0) as [N|[N|N]]; destruct (Z.lt_trichotomy t0 0) as [N0|[N0|N0]]; subst; try nia.
Qed.

Lemma abs_mul_lt_zero x m : 0 < m -> Z.abs (x * m) < m -> x = 0.
Proof. intros Hm H. destruct (Z.eq_dec x 0); [assumption|]. exfalso. nia. Qed.

Lemma mul_eq_1_abs y g : 0 <= g -> Z.abs y * g = 1 -> y = 1 \/ y = -1.
Proof. intros Hg H. destruct (Z.eq_mul_1_nonneg (Z.abs y) g ltac:(lia) H). lia. Qed.

Lemma size_bound A b k m r1 T : 0 < m -> 1 <= k -> 0 < b -> 0 <= r1 < k -> 0 <= T -> 0 <= A ->
  k * T <= m -> A * m + b * k * k <= k * m -> A * T + b * r1 < m.
Proof.
  intros Hm Hk Hb Hr HT HA HkT Hsz.
  assert (H1 : A * (k * T) <= A * m) by (apply Z.mul_le_mono_nonneg_l; lia).
  assert (H2 : (b * k) * r1 <= (b * k) * (k - 1)) by (apply Z.mul_le_mono_nonneg_l; [apply Z.mul_nonneg_nonneg; lia|lia]).
  assert (H0 : 0 < b * k) by (apply Z.mul_pos_pos; lia).
  assert (H3 : k * (A * T + b * r1) < k * m).
  { replace (k * (A * T + b * r1)) with (A * (k * T) + (b * k) * r1) by ring.
    replace ((b * k) * (k - 1)) with (b * k * k - b * k) in H2 by ring. lia. }
  apply Z.mul_lt_mono_pos_l in H3; lia.
Qed.

(* the candidate left by the loop is +-(a,b) *)
Lemma envelope_candidate F m k r0 t0 r1 t1 a b :
  0 < m -> 1 <= k -> Inv F m k r0 t0 r1 t1 -> Basis F m r0 t0 r1 t1 -> r1 < k ->
  0 < b -> Z.gcd a b = 1 -> cong m a (b * F) ->
  Z.abs a * m + b * k * k <= k * m ->
  (r1 = a /\ t1 = b) \/ (r1 = - a /\ t1 = - b).
Proof.
  intros Hm Hk HI HB Hlt Hb Hg Hc Hsz.
  destruct (Inv_det_signed _ _ _ _ _ _ _ HI) as [HD|HD];
  destruct HI as [c0 c1 det sgn hr1 hr0 ht0 ht1];
  destruct (HB a b Hc) as (x & y & Ha & Hb').
  all: assert (Hkt : k * Z.abs t1 <= m) by
         (assert (0 <= r1 * Z.abs t0) by (apply Z.mul_nonneg_nonneg; lia);
          assert (k * Z.abs t1 <= r0 * Z.abs t1) by (apply Z.mul_le_mono_nonneg_r; lia); lia).
  all: assert (Hsize : Z.abs (a * t1 - b * r1) < m) by
         (pose proof (size_bound (Z.abs a) b k m r1 (Z.abs t1) Hm Hk Hb ltac:(lia) ltac:(lia) ltac:(lia) Hkt Hsz) as H4;
          assert (H5 : Z.abs (a * t1) = Z.abs a * Z.abs t1) by apply Z.abs_mul;
          assert (H6 : 0 <= b * r1) by (apply Z.mul_nonneg_nonneg; lia);
          lia).
  - assert (Hx : a * t1 - b * r1 = x * m) by (rewrite <- HD, Ha, Hb'; ring).
    rewrite Hx in Hsize. apply abs_mul_lt_zero in Hsize; [|lia]. subst x.
    assert (Ha' : a = y * r1) by lia. assert (Hb'' : b = y * t1) by lia.
    rewrite Ha', Hb'' in Hg. rewrite Z.gcd_mul_mono_l in Hg.
    pose proof (Z.gcd_nonneg r1 t1) as H.
    destruct (mul_eq_1_abs y _ H Hg) as [Y|Y].
    + left; split; lia.
    + right; split; lia.
  - assert (Hx : a * t1 - b * r1 = (- x) * m) by (replace (- x * m) with (x * - m) by lia; rewrite <- HD, Ha, Hb'; ring).
    rewrite Hx in Hsize. apply abs_mul_lt_zero in Hsize; [|lia]. assert (x = 0) by lia. subst x.
    assert (Ha' : a = y * r1) by lia. assert (Hb'' : b = y * t1) by lia.
    rewrite Ha', Hb'' in Hg. rewrite Z.gcd_mul_mono_l in Hg.
    pose proof (Z.gcd_nonneg r1 t1) as H.
    destruct (mul_eq_1_abs y _ H Hg) as [Y|Y].
    + left; split; lia.
    + right; split; lia.
Qed.

Lemma finish_first f m k fr r0 t0 r1 t1 a b :
  0 < b -> Z.gcd a b = 1 -> (r1 = a /\ t1 = b) \/ (r1 = - a /\ t1 = - b) ->
  finish f m k fr (r0, t0, r1, t1) = (true, a, b).
Proof.
  intros Hb Hg H. unfold finish.
  assert (Hn : norm_num r1 t1 = a) by (unfold norm_num; destruct H as [[-> ->]|[-> ->]]; destruct (Z.ltb_spec b 0), (Z.ltb_spec (- b) 0); lia).
  assert (Hd : norm_den t1 = b) by (unfold norm_den; destruct H as [[-> ->]|[-> ->]]; destruct (Z.ltb_spec b 0), (Z.ltb_spec (- b) 0); lia).
  rewrite Hn, Hd, Hg. cbn. destruct fr; reflexivity.
Qed.

(* completeness for an arbitrary bound k: any coprime pair (a, b), b > 0, a == b f (mod m), with
   |a| m + b k^2 <= k m  is what ratrecon returns (with or without the request for a reduced fraction) *)
Definition Ratrecon_complete := forall f m k fr a b, 2 <= m -> 1 <= k <= m ->
  0 < b -> Z.gcd a b = 1 -> cong m a (b * f) ->
  Z.abs a * m + b * k * k <= k * m ->
  ratrecon f m k fr = Some (true, a, b).
Lemma ratrecon_complete : Ratrecon_complete.
Proof.
  intros f m k fr a b Hm Hk Hb Hg Hc Hsz.
  pose proof (ratrecon_total f m k fr Hm (proj1 Hk)) as T.
  unfold ratrecon, ratrecon_fuel in *.
  destruct (init_r1_spec f m ltac:(lia)) as [H0 HF].
  destruct (loop (fuel_of m) k m 0 (init_r1 f m) 1) as [s|] eqn:E; [|congruence].
  pose proof (loop_inv (init_r1 f m) m k (proj1 Hk) _ _ _ _ _ _ (Inv_init _ m k H0 Hk) E) as HI.
  pose proof (loop_basis (init_r1 f m) m k _ _ _ _ _ _ (Basis_init _ m) E) as HB.
  destruct s as [[[r0 t0] r1] t1]. destruct HI as [HI Hlt].
  f_equal. apply finish_first; try assumption.
  apply (envelope_candidate (init_r1 f m) m k r0 t0 r1 t1 a b); try assumption; try lia.
  (* a == b f  and  F == f  give  a == b F *)
  eapply cong_trans; [exact Hc|]. apply cong_mul_l.
  destruct HF as [c H]. exists (- c). lia.
Qed.

(* the property's envelope: |a|, b <= sqrt(m)/4 and the default bound k = sqrt m *)
Lemma envelope_size m a b : 1 <= m -> 0 < b -> 4 * Z.abs a <= Z.sqrt m -> 4 * b <= Z.sqrt m ->
  Z.abs a * m + b * Z.sqrt m * Z.sqrt m <= Z.sqrt m * m.
Proof.
  intros Hm Hb Ha Hb'. pose proof (Z.sqrt_spec m ltac:(lia)) as S. unfold Z.succ in S.
  set (s := Z.sqrt m) in *.
  assert (4 * (Z.abs a * m) <= s * m) by (replace (4 * (Z.abs a * m)) with (4 * Z.abs a * m) by lia; apply Z.mul_le_mono_nonneg_r; lia).
  assert (4 * (b * s * s) <= s * (s * s)) by (replace (4 * (b * s * s)) with (4 * b * (s * s)) by lia; apply Z.mul_le_mono_nonneg_r; nia).
  assert (s * (s * s) <= s * m) by (apply Z.mul_le_mono_nonneg_l; lia).
  assert (0 <= s * m) by nia.
  lia.
Qed.

Definition RR4_complete := forall f m a b, 2 <= m ->
  0 < b -> Z.gcd a b = 1 -> cong m a (b * f) ->
  4 * Z.abs a <= Z.sqrt m -> 4 * b <= Z.sqrt m ->
  RR4 f m = Some (true, a, b).
Lemma rr4_complete : RR4_complete.
Proof.
  intros f m a b Hm Hb Hg Hc Ha Hb'. unfold RR4.
  apply ratrecon_complete; try assumption.
  - apply sqrt_range; lia.
  - apply envelope_size; (assumption || lia).
Qed.

(* in the form of the property text: f = a * b^-1 mod m, where binv is any inverse of b modulo m *)
Definition RR4_complete_inverse := forall m a b binv, 2 <= m ->
  0 < b -> Z.gcd a b = 1 -> cong m (b * binv) 1 ->
  4 * Z.abs a <= Z.sqrt m -> 4 * b <= Z.sqrt m ->
  RR4 ((a * binv) mod m) m = Some (true, a, b).
Lemma rr4_complete_inverse : RR4_complete_inverse.
Proof.
  intros m a b binv Hm Hb Hg [c Hi] Ha Hb'.
  apply rr4_complete; try assumption.
  exists (- (a * c) + b * ((a * binv) / m)).
  rewrite Z.mod_eq by lia. nia.
Qed.

(* the hypotheses are satisfiable: 3/7 modulo 1009 (sqrt = 31, 4*7 <= 31), 7 * 865 = 6 * 1009 + 1 *)
Example envelope_example : RR4 ((3 * 865) mod 1009) 1009 = Some (true, 3, 7).
Proof. vm_compute. reflexivity. Qed.
