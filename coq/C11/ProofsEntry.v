(* C11 — the entry points built on ratrecon: Rational(f,m,k,recurs), QField<Rational>::ratrecon and
   RationalReconstruction(a,b,f,m,k,forcereduce,recursive): the Reduce guarantee of a reported success and
   completeness inside the uniqueness envelope, with the widening loop taken into account. *)
From Coq Require Import ZArith Lia Bool Znumtheory.
From C11 Require Import Model ProofsLoop ProofsSound ProofsComplete.
Local Open Scope Z_scope.
Ltac Zify.zify_post_hook ::= Z.div_mod_to_equations.

(* ---------------------------------------------------------------- the widening loop after a success *)
Lemma widen_done fuel x m f newk fr n d : widen fuel x m f newk fr (true, n, d) = Some (true, n, d).
Proof. destruct fuel; reflexivity. Qed.

Definition RatCtor_first := forall f m k fl rc n d,
  ratrecon f m k fl = Some (true, n, d) -> RatCtor f m k fl rc = Some (true, n, d).
Lemma ratctor_first : RatCtor_first.
Proof.
  intros f m k fl rc n d E. unfold RatCtor. rewrite E.
  destruct rc; [apply widen_done|reflexivity].
Qed.

(* ---------------------------------------------------------------- the widening loop on the unnormalised f *)
Lemma bigk_value f m newk : 2 <= m -> m < newk -> newk <= f ->
  0 < f - Z.quot (f + m - newk) m * m < newk.
Proof.
  intros Hm Hk Hf. rewrite Z.quot_div_nonneg by lia.
  pose proof (Z.div_mod (f + m - newk) m ltac:(lia)) as DM.
  pose proof (Z.mod_pos_bound (f + m - newk) m ltac:(lia)) as MB.
  lia.
Qed.

Lemma widen_good_f f m lo fr : 2 <= m -> 1 <= lo ->
  forall fuel newk cur r, lo < newk -> good f f m lo fr cur -> (fr = false -> fst (fst cur) = true) ->
  widen fuel f m f newk fr cur = Some r -> good f f m lo fr r.
Proof.
  intros Hm Hlo fuel; induction fuel as [|n IH]; intros newk cur r Hn Hc Hfr; cbn [widen];
    destruct cur as [[ok a] b].
  - destruct (negb ok && (newk <? f)); [discriminate|]. intros R; inversion R; subst; exact Hc.
  - destruct (negb ok && (newk <? f)) eqn:Cnd; [|intros R; inversion R; subst; exact Hc].
    apply andb_true_iff in Cnd. destruct Cnd as [Hok Hlt]. apply Z.ltb_lt in Hlt.
    assert (fr = true) by (destruct fr; [reflexivity|]; cbn in Hfr; rewrite (Hfr eq_refl) in Hok; discriminate).
    subst fr.
    destruct (ratrecon f m newk true) as [r'|] eqn:E; [|discriminate].
    apply IH; [lia| |discriminate].
    destruct (Z.le_gt_cases newk m) as [Le|Gt].
    + pose proof (ratrecon_sound f m newk true r' ltac:(lia) ltac:(lia) (or_introl Le) E) as S.
      destruct r' as [[ok' a'] b']. cbn in S |- *. intros Hok'. destruct (S Hok') as (C & A & D & G).
      repeat split; auto. exists newk; split; [right; lia|exact A].
    + rewrite (ratrecon_bigk f m newk Hm Gt ltac:(lia)) in E. inversion E; subst r'; clear E.
      pose proof (bigk_value f m newk Hm Gt ltac:(lia)) as V.
      unfold good. intros _. split; [|split; [lia|split]].
      * rewrite Z.mul_1_l. exists (- Z.quot (f + m - newk) m). lia.
      * intros _. apply Z.gcd_1_r.
      * exists newk; split; [right; lia|lia].
Qed.

(* ---------------------------------------------------------------- Rational(f,m,k,recurs): the Reduce guarantee *)
Definition RatCtor_sound := forall f m k fl rc ok n d, 2 <= m -> 1 <= k <= m ->
  RatCtor f m k fl rc = Some (ok, n, d) -> ok = true ->
  cong m n (d * f) /\ 0 < d /\ (fl = true -> Z.gcd n d = 1) /\
  exists k', (k' = k \/ (rc = true /\ k < k' < f)) /\ Z.abs n < k'.
Lemma ratctor_sound : RatCtor_sound.
Proof.
  intros f m k fl rc ok n d Hm Hk. unfold RatCtor.
  destruct (ratrecon f m k fl) as [r0|] eqn:E; [|discriminate].
  pose proof (ratrecon_sound f m k fl r0 ltac:(lia) (proj1 Hk) (or_introl (proj2 Hk)) E) as S.
  destruct rc.
  - intros W Hok.
    assert (G0 : good f f m k fl r0).
    { destruct r0 as [[ok0 a0] b0]. cbn in S |- *. intros Hok0. destruct (S Hok0) as (C & A & D & G).
      repeat split; auto. exists k; split; [left; reflexivity|exact A]. }
    assert (N0 : fl = false -> fst (fst r0) = true).
    { intros F; subst fl. exact (ratrecon_noreduce f m k r0 E). }
    pose proof (widen_good_f f m k fl Hm (proj1 Hk) (widen_fuel f) (k + 1) r0 (ok, n, d) ltac:(lia) G0 N0 W) as Gr.
    cbn in Gr. destruct (Gr Hok) as (C & D & G & k' & Hk' & A).
    repeat split; auto.
    exists k'; split; [|exact A]. destruct Hk' as [->|Hk']; [left; reflexivity|right; split; [reflexivity|lia]].
  - intros R; inversion R; subst r0; clear R. intros Hok. cbn in S.
    destruct (S Hok) as (C & A & D & G). repeat split; auto.
    exists k; split; [left; reflexivity|exact A].
Qed.

(* ---------------------------------------------------------------- QField<Rational>::ratrecon *)
Definition QField_sound := forall f m k fl rc ok n d, 2 <= m ->
  (1 <= k <= m -> QF_ratrecon_k f m k fl rc = Some (ok, n, d) -> ok = true ->
     cong m n (d * f) /\ 0 < d /\ (fl = true -> Z.gcd n d = 1) /\
     exists k', (k' = k \/ (rc = true /\ k < k' < f)) /\ Z.abs n < k') /\
  (QF_ratrecon f m fl rc = Some (ok, n, d) -> ok = true ->
     cong m n (d * f) /\ 0 < d /\ (fl = true -> Z.gcd n d = 1) /\
     exists k', (k' = Z.sqrt m \/ (rc = true /\ Z.sqrt m < k' < f)) /\ Z.abs n < k').
Lemma qfield_sound : QField_sound.
Proof.
  intros f m k fl rc ok n d Hm. split.
  - intros Hk. apply ratctor_sound; assumption.
  - apply ratctor_sound; [assumption|apply sqrt_range; lia].
Qed.

(* ---------------------------------------------------------------- completeness, caller-chosen bound *)
Lemma size_abs_lt a b k m : 0 < m -> 1 <= k -> 0 < b ->
  Z.abs a * m + b * k * k <= k * m -> Z.abs a < k.
Proof.
  intros Hm Hk Hb Hsz.
  assert (0 < b * k * k) by (apply Z.mul_pos_pos; [apply Z.mul_pos_pos|]; lia).
  assert (H1 : Z.abs a * m < k * m) by lia.
  apply Z.mul_lt_mono_pos_r in H1; lia.
Qed.

Definition RR7_complete := forall f m k fr rc a b, 2 <= m -> 1 <= k <= m ->
  0 < b -> Z.gcd a b = 1 -> cong m a (b * f) ->
  Z.abs a * m + b * k * k <= k * m ->
  RR7 f m k fr rc = Some (true, a, b).
Lemma rr7_complete : RR7_complete.
Proof.
  intros f m k fr rc a b Hm Hk Hb Hg Hc Hsz. unfold RR7.
  destruct (normalise_spec f m ltac:(lia)) as [Hx HC].
  assert (HC' : cong m f (normalise f m)) by (destruct HC as [c H]; exists (- c); lia).
  assert (Hcx : cong m a (b * normalise f m)).
  { eapply cong_trans; [exact Hc|]. apply cong_mul_l. exact HC'. }
  destruct (Z.eqb_spec (normalise f m) 0) as [Z0|Z0].
  - rewrite Z0, Z.mul_0_r in Hcx. destruct Hcx as [c Ha]. rewrite Z.sub_0_r in Ha.
    pose proof (size_abs_lt a b k m ltac:(lia) (proj1 Hk) Hb Hsz) as Hlt.
    assert (Hc0 : c = 0) by (apply (abs_mul_lt_zero c m); [lia|rewrite <- Ha; lia]).
    assert (Ha0 : a = 0) by (rewrite Ha, Hc0; reflexivity).
    rewrite Ha0 in Hg |- *. rewrite Z.gcd_0_l in Hg.
    assert (Hb1 : b = 1) by lia. rewrite Hb1. reflexivity.
  - rewrite (ratrecon_complete (normalise f m) m k fr a b Hm Hk Hb Hg Hcx Hsz).
    destruct rc; [apply widen_done|reflexivity].
Qed.

Definition RatCtor_complete := forall f m k fl rc a b, 2 <= m -> 1 <= k <= m ->
  0 < b -> Z.gcd a b = 1 -> cong m a (b * f) ->
  Z.abs a * m + b * k * k <= k * m ->
  RatCtor f m k fl rc = Some (true, a, b).
Lemma ratctor_complete : RatCtor_complete.
Proof.
  intros f m k fl rc a b Hm Hk Hb Hg Hc Hsz.
  apply ratctor_first. apply ratrecon_complete; assumption.
Qed.

Definition QField_complete_k := forall f m k fl rc a b, 2 <= m -> 1 <= k <= m ->
  0 < b -> Z.gcd a b = 1 -> cong m a (b * f) ->
  Z.abs a * m + b * k * k <= k * m ->
  QF_ratrecon_k f m k fl rc = Some (true, a, b).
Lemma qfield_complete_k : QField_complete_k.
Proof. exact ratctor_complete. Qed.

(* the default bound sqrt m and the property's envelope |a|, b <= sqrt(m)/4 *)
Definition QField_complete := forall f m fl rc a b, 2 <= m ->
  0 < b -> Z.gcd a b = 1 -> cong m a (b * f) ->
  4 * Z.abs a <= Z.sqrt m -> 4 * b <= Z.sqrt m ->
  QF_ratrecon f m fl rc = Some (true, a, b).
Lemma qfield_complete : QField_complete.
Proof.
  intros f m fl rc a b Hm Hb Hg Hc Ha Hb'. unfold QF_ratrecon.
  apply ratctor_complete; try assumption.
  - apply sqrt_range; lia.
  - apply envelope_size; (assumption || lia).
Qed.

Definition RR7_complete_envelope := forall f m fr rc a b, 2 <= m ->
  0 < b -> Z.gcd a b = 1 -> cong m a (b * f) ->
  4 * Z.abs a <= Z.sqrt m -> 4 * b <= Z.sqrt m ->
  RR7 f m (Z.sqrt m) fr rc = Some (true, a, b).
Lemma rr7_complete_envelope : RR7_complete_envelope.
Proof.
  intros f m fr rc a b Hm Hb Hg Hc Ha Hb'.
  apply rr7_complete; try assumption.
  - apply sqrt_range; lia.
  - apply envelope_size; (assumption || lia).
Qed.

(* ---------------------------------------------------------------- the hypotheses are satisfiable
   Rational(75, 250, 17, true) with Reduce: the bound is widened 17 -> 18 -> 36 and the answer is -25/3
   (3 * 75 = 225 = -25 + 250);  with NoReduce the first call answers 0/10 (10 * 75 = 3 * 250). *)
Example ctor_widen_example : RatCtor 75 250 17 true true = Some (true, -25, 3).
Proof. vm_compute. reflexivity. Qed.

Example ctor_noreduce_example : RatCtor 75 250 17 false true = Some (true, 0, 10).
Proof. vm_compute. reflexivity. Qed.

(* the first call alone fails: the success above comes from the widening loop *)
Example ctor_widen_example_first : exists n d, ratrecon 75 250 17 true = Some (false, n, d).
Proof. vm_compute. eexists; eexists; reflexivity. Qed.

(* a pair inside the envelope through the constructor and the seven-argument wrapper: 3/7 modulo 1009 *)
Example ctor_complete_example : RatCtor ((3 * 865) mod 1009) 1009 31 true true = Some (true, 3, 7).
Proof. vm_compute. reflexivity. Qed.
