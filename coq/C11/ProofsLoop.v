(* C11 — the remainder sequence of ratrecon: invariants and fuel. *)
From Coq Require Import ZArith Lia Bool Znumtheory.
From C11 Require Import Model.
Local Open Scope Z_scope.
Ltac Zify.zify_post_hook ::= Z.div_mod_to_equations.

(* congruence modulo m, as divisibility *)
Definition cong (m a b : Z) : Prop := exists c, a - b = c * m.

Lemma cong_refl m a : cong m a a.
Proof. exists 0; lia. Qed.
Lemma cong_sub_mul m a b a' b' q : cong m a b -> cong m a' b' -> cong m (a - a' * q) (b - b' * q).
Proof. intros [c H] [c' H']; exists (c - c' * q); nia. Qed.
Lemma cong_neg m a b : cong m a b -> cong m (- a) (- b).
Proof. intros [c H]; exists (- c); lia. Qed.
Lemma cong_trans m a b c : cong m a b -> cong m b c -> cong m a c.
Proof. intros [x H] [y H']; exists (x + y); lia. Qed.
Lemma cong_mul_l m a b t : cong m a b -> cong m (t * a) (t * b).
Proof. intros [c H]; exists (t * c); nia. Qed.
Lemma cong_mod m a b : 0 < m -> cong m a b <-> (a - b) mod m = 0.
Proof.
  intros Hm; split.
  - intros [c H]. rewrite H. apply Z.mod_mul; lia.
  - intros H. exists ((a - b) / m). rewrite (Z.div_mod (a - b) m) at 1 by lia. rewrite H; lia.
Qed.

(* The invariant of the loop at lines 53-74 for residue F, modulus m, bound k:
     r0 == t0 F, r1 == t1 F (mod m)                     the congruences
     r0 |t1| + r1 |t0| = m                              (hence |t1| r0 <= m: the size invariant)
     t0, t1 of opposite sign; 0 <= r1; k <= r0
     t0 = 0 only in the initial state (t1 = 1); t1 = 0 only in the state (F, 1, m, 0) reached when F > m *)
Record Inv (F m k r0 t0 r1 t1 : Z) : Prop := {
  I_c0 : cong m r0 (t0 * F);
  I_c1 : cong m r1 (t1 * F);
  I_det : r0 * Z.abs t1 + r1 * Z.abs t0 = m;
  I_sgn : t0 * t1 <= 0;
  I_r1 : 0 <= r1;
  I_r0 : k <= r0;
  I_t0 : t0 = 0 -> t1 = 1;
  I_t1 : t1 = 0 -> t0 = 1 /\ r1 = m
}.

Lemma Inv_init F m k : 0 <= F -> 1 <= k <= m -> Inv F m k m 0 F 1.
Proof.
  intros HF Hk; constructor; try lia.
  - exists 1; lia.
  - exists 0; lia.
Qed.

Lemma abs_sub_opp t0 t1 q : t0 * t1 <= 0 -> 0 <= q -> Z.abs (t0 - t1 * q) = Z.abs t0 + q * Z.abs t1.
Proof.
  intros H Hq.
  assert (Hq1 : 0 <= q * Z.abs t1) by (apply Z.mul_nonneg_nonneg; lia).
  destruct (Z.lt_trichotomy t1 0) as [N|[N|N]]; destruct (Z.lt_trichotomy t0 0) as [N0|[N0|N0]]; subst; try nia.
Qed.

Lemma Inv_step F m k r0 t0 r1 t1 :
  1 <= k -> Inv F m k r0 t0 r1 t1 -> k <= r1 ->
  Inv F m k r1 t1 (r0 - r1 * Z.quot r0 r1) (t0 - t1 * Z.quot r0 r1).
Proof.
  intros Hk [c0 c1 det sgn hr1 hr0 ht0 ht1] Hge.
  assert (Hq : Z.quot r0 r1 = r0 / r1) by (apply Z.quot_div_nonneg; lia).
  rewrite Hq. set (q := r0 / r1).
  assert (Hq0 : 0 <= q) by (apply Z.div_pos; lia).
  assert (Hr : 0 <= r0 - r1 * q < r1) by (unfold q; pose proof (Z.mod_pos_bound r0 r1); rewrite Z.mod_eq in *; lia).
  constructor; try lia.
  - exact c1.
  - apply cong_trans with (t0 * F - t1 * F * q).
    + apply cong_sub_mul; assumption.
    + exists 0; lia.
  - rewrite abs_sub_opp by assumption. nia.
Qed.

(* the loop preserves the invariant and stops with r1 < k *)
Lemma loop_inv F m k : 1 <= k -> forall fuel r0 t0 r1 t1 s,
  Inv F m k r0 t0 r1 t1 -> loop fuel k r0 t0 r1 t1 = Some s ->
  let '(r0', t0', r1', t1') := s in Inv F m k r0' t0' r1' t1' /\ r1' < k.
Proof.
  intros Hk fuel; induction fuel as [|n IH]; intros r0 t0 r1 t1 s HI; cbn [loop];
    destruct (Z.geb_spec r1 k) as [G|G]; intros E; try discriminate.
  - inversion E; subst; split; [assumption|lia].
  - eapply IH; [|exact E]. apply Inv_step; assumption.
  - inversion E; subst; split; [assumption|lia].
Qed.

(* ---------------------------------------------------------------- fuel *)
(* once 0 <= r1 <= r0 the product r0*r1 at least halves per iteration *)
Lemma loop_fuel_prod k : 1 <= k -> forall n r0 t0 r1 t1,
  0 <= r1 <= r0 -> r0 * r1 < 2 ^ Z.of_nat n -> loop n k r0 t0 r1 t1 <> None.
Proof.
  intros Hk n; induction n as [|n IH]; intros r0 t0 r1 t1 Hr Hp; cbn [loop];
    destruct (Z.geb_spec r1 k) as [G|G]; try discriminate.
  - exfalso. change (2 ^ Z.of_nat 0) with 1 in Hp. nia.
  - assert (Hq : Z.quot r0 r1 = r0 / r1) by (apply Z.quot_div_nonneg; lia).
    rewrite Hq.
    assert (Hd : r0 = r1 * (r0 / r1) + r0 mod r1) by (apply Z.div_mod; lia).
    assert (Hm : 0 <= r0 mod r1 < r1) by (apply Z.mod_pos_bound; lia).
    assert (Hq1 : 1 <= r0 / r1) by (apply Z.div_le_lower_bound; lia).
    apply IH.
    + lia.
    + rewrite Nat2Z.inj_succ, Z.pow_succ_r in Hp by lia.
      set (q := r0 / r1) in *. set (r' := r0 mod r1) in *.
      assert (r0 - r1 * q = r') by lia. rewrite H.
      assert (2 * r' <= r0) by nia. nia.
Qed.

Lemma pow2_log2_bound m : 0 < m -> m < 2 ^ (Z.log2 m + 1).
Proof. intros H. pose proof (Z.log2_spec m H). rewrite <- Z.add_1_r in *. lia. Qed.

Lemma loop_mono k : forall n r0 t0 r1 t1, loop n k r0 t0 r1 t1 <> None -> loop (S n) k r0 t0 r1 t1 <> None.
Proof.
  intros n; induction n as [|n IH]; intros r0 t0 r1 t1; cbn [loop];
    destruct (r1 >=? k); try congruence. intros H; apply IH; exact H.
Qed.

Lemma fuel_enough m k F : 2 <= m -> 1 <= k -> 0 <= F ->
  loop (fuel_of m) k m 0 F 1 <> None.
Proof.
  intros Hm Hk HF. unfold fuel_of.
  pose proof (Z.log2_nonneg m) as Hl.
  pose proof (pow2_log2_bound m ltac:(lia)) as Hb.
  set (L := Z.log2 m) in *.
  assert (Hsq : m * m < 2 ^ (2 * L + 2)).
  { replace (2 * L + 2) with ((L + 1) + (L + 1)) by lia. rewrite Z.pow_add_r by lia. nia. }
  assert (Hn : Z.to_nat (2 * L + 4) = S (S (Z.to_nat (2 * L + 2)))) by lia.
  rewrite Hn.
  assert (Hbase : forall r1 t0 t1, 0 <= r1 <= m -> loop (Z.to_nat (2 * L + 2)) k m t0 r1 t1 <> None).
  { intros r1 t0 t1 Hr. apply loop_fuel_prod; [lia|lia|]. rewrite Z2Nat.id by lia. nia. }
  destruct (Z.le_gt_cases F m) as [Le|Gt].
  - apply loop_mono, loop_mono, Hbase; lia.
  - (* F > m: the first iteration swaps (q = 0), the second one reduces F modulo m *)
    cbn [loop]. destruct (Z.geb_spec F k) as [G|G]; [|discriminate].
    assert (Hq : Z.quot m F = 0) by (apply Z.quot_small; lia).
    rewrite Hq, !Z.mul_0_r, !Z.sub_0_r.
    destruct (Z.geb_spec m k) as [G'|G']; [|discriminate].
    assert (Hq' : Z.quot F m = F / m) by (apply Z.quot_div_nonneg; lia).
    rewrite Hq'. apply Hbase.
    pose proof (Z.mod_pos_bound F m ltac:(lia)) as Hmod. rewrite Z.mod_eq in Hmod by lia. lia.
Qed.
