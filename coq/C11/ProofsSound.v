(* C11 — soundness of Rational::ratrecon and of the RationalReconstruction wrappers, for every (f, m, k). *)
From Coq Require Import ZArith Lia Bool Znumtheory.
From C11 Require Import Model ProofsLoop.
Local Open Scope Z_scope.
Ltac Zify.zify_post_hook ::= Z.div_mod_to_equations.

(* what a reported success must satisfy (the property text) *)
Definition sound (f m k : Z) (fr : bool) (r : res) : Prop :=
  let '(ok, n, d) := r in
  ok = true -> cong m n (d * f) /\ Z.abs n < k /\ 0 < d /\ (fr = true -> Z.gcd n d = 1).

(* ---------------------------------------------------------------- the initial residue *)
Lemma init_r1_spec f m : 0 < m -> 0 <= init_r1 f m /\ cong m (init_r1 f m) f.
Proof.
  intros Hm. unfold init_r1. destruct (Z.ltb_spec f 0) as [N|N].
  - rewrite Z.abs_eq by lia. split.
    + apply Z.mod_pos_bound; lia.
    + exists (- (f / m)). rewrite Z.mod_eq by lia. lia.
  - split; [lia|apply cong_refl].
Qed.

Lemma init_r1_lt f m : 0 < m -> f < 0 -> init_r1 f m < m.
Proof.
  intros Hm N. unfold init_r1. destruct (Z.ltb_spec f 0); [|lia].
  rewrite Z.abs_eq by lia. apply Z.mod_pos_bound; lia.
Qed.

Lemma cong_chg m a t F f : cong m a (t * F) -> cong m F f -> cong m a (t * f).
Proof. intros H1 H2. eapply cong_trans; [exact H1|]. apply cong_mul_l; exact H2. Qed.

(* ---------------------------------------------------------------- the sign normalisation *)
Lemma norm_cong m r t f : cong m r (t * f) -> cong m (norm_num r t) (norm_den t * f).
Proof.
  intros H. unfold norm_num, norm_den. destruct (Z.ltb_spec t 0); [|exact H].
  replace (- t * f) with (- (t * f)) by lia. apply cong_neg; exact H.
Qed.
Lemma norm_num_abs r t : 0 <= r -> Z.abs (norm_num r t) = r.
Proof. intros H. unfold norm_num. destruct (t <? 0); lia. Qed.
Lemma norm_den_abs t : norm_den t = Z.abs t.
Proof. unfold norm_den. destruct (Z.ltb_spec t 0); lia. Qed.
Lemma norm_num_zero r t : norm_num r t = 0 -> r = 0.
Proof. unfold norm_num. destruct (t <? 0); lia. Qed.

(* the branch  `num == 0 && f % m == 0`  with gcd(num,den) != 1 is dead: if m | F the loop ends in (m, _, 0, +-1) *)
Lemma zero_residue_den F m k r0 t0 t1 :
  0 < m -> 1 <= k -> Inv F m k r0 t0 0 t1 -> cong m F 0 -> Z.abs t1 = 1.
Proof.
  intros Hm Hk [c0 c1 det sgn hr1 hr0 ht0 ht1] [c HF].
  destruct c0 as [c' H0].
  assert (Hr0 : r0 = (c' + t0 * c) * m) by nia.
  set (e := c' + t0 * c) in *.
  assert (Hd : e * m * Z.abs t1 = m) by (rewrite <- Hr0; lia).
  assert (He : e * Z.abs t1 = 1) by nia.
  assert (0 < e) by nia.
  nia.
Qed.

(* ---------------------------------------------------------------- lines 78-184 *)
Lemma finish_sound F f m k fr r0 t0 r1 t1 :
  0 < m -> 1 <= k <= m -> cong m F f ->
  Inv F m k r0 t0 r1 t1 -> r1 < k ->
  sound f m k fr (finish f m k fr (r0, t0, r1, t1)).
Proof.
  intros Hm Hk HF HI Hlt.
  pose proof HI as [c0 c1 det sgn hr1 hr0 ht0 ht1].
  assert (Ht1 : t1 <> 0) by (intros E; destruct (ht1 E); lia).
  assert (C1 : cong m (norm_num r1 t1) (norm_den t1 * f)) by (apply norm_cong; eapply cong_chg; eassumption).
  assert (A1 : Z.abs (norm_num r1 t1) < k) by (rewrite norm_num_abs; lia).
  assert (D1 : 0 < norm_den t1) by (rewrite norm_den_abs; lia).
  unfold finish.
  destruct fr; [|cbn; intros _; repeat split; (assumption || discriminate)].
  destruct (Z.eqb_spec (Z.gcd (norm_num r1 t1) (norm_den t1)) 1) as [G|G]; cbn [negb].
  { cbn. intros _. repeat split; try assumption. intros _; exact G. }
  destruct (Z.eqb_spec (norm_num r1 t1) 0) as [Z0|Z0].
  { (* num = 0 *)
    destruct (Z.eqb_spec (Z.rem f m) 0) as [R|R]; [|cbn; discriminate].
    exfalso. apply G.
    apply norm_num_zero in Z0. subst r1.
    assert (HF0 : cong m F 0).
    { eapply cong_trans; [exact HF|]. exists (Z.quot f m). pose proof (Z.quot_rem' f m). lia. }
    pose proof (zero_residue_den F m k r0 t0 t1 Hm ltac:(lia) HI HF0) as E.
    rewrite norm_den_abs, E. unfold norm_num. destruct (t1 <? 0); reflexivity. }
  (* second candidate *)
  assert (Hr1 : 0 < r1) by (unfold norm_num in Z0; destruct (t1 <? 0); lia).
  assert (Hq : Z.quot (r0 + r1 - k) r1 = (r0 + r1 - k) / r1) by (apply Z.quot_div_nonneg; lia).
  rewrite Hq. set (q := (r0 + r1 - k) / r1).
  assert (Hq1 : 1 <= q) by (apply Z.div_le_lower_bound; lia).
  assert (Hdm : r0 + r1 - k = r1 * q + (r0 + r1 - k) mod r1) by (apply Z.div_mod; lia).
  assert (Hmb : 0 <= (r0 + r1 - k) mod r1 < r1) by (apply Z.mod_pos_bound; lia).
  assert (Hr0' : 0 < r0 - q * r1 < k) by lia.
  assert (Ht0' : Z.abs (t0 - q * t1) = Z.abs t0 + q * Z.abs t1).
  { replace (q * t1) with (t1 * q) by lia. apply abs_sub_opp; lia. }
  destruct (Z.eqb_spec (Z.gcd (norm_num (r0 - q * r1) (t0 - q * t1)) (norm_den (t0 - q * t1))) 1) as [G'|G'];
    cbn [negb]; [|cbn; discriminate].
  cbn. intros _. repeat split.
  - apply norm_cong. eapply cong_chg; [|exact HF].
    replace (q * r1) with (r1 * q) by lia. replace (q * t1) with (t1 * q) by lia.
    eapply cong_trans; [apply cong_sub_mul; [exact c0|exact c1]|]. exists 0; lia.
  - rewrite norm_num_abs; lia.
  - rewrite norm_den_abs, Ht0'. nia.
  - intros _; exact G'.
Qed.

(* ---------------------------------------------------------------- ratrecon *)
Lemma loop_stop fuel k r0 t0 r1 t1 : r1 < k -> loop fuel k r0 t0 r1 t1 = Some (r0, t0, r1, t1).
Proof. intros H. destruct fuel; cbn [loop]; destruct (Z.geb_spec r1 k); (lia || reflexivity). Qed.

Lemma finish_trivial f m k fr r : finish f m k fr (m, 0, r, 1) = (true, r, 1).
Proof.
  unfold finish, norm_num, norm_den. cbn [Z.ltb Z.compare].
  rewrite Z.gcd_1_r. cbn. destruct fr; reflexivity.
Qed.

Definition Ratrecon_total := forall f m k fr, 2 <= m -> 1 <= k -> ratrecon f m k fr <> None.
Lemma ratrecon_total : Ratrecon_total.
Proof.
  intros f m k fr Hm Hk. unfold ratrecon, ratrecon_fuel.
  destruct (init_r1_spec f m ltac:(lia)) as [H0 _].
  pose proof (fuel_enough m k (init_r1 f m) Hm Hk H0) as E.
  destruct (loop (fuel_of m) k m 0 (init_r1 f m) 1); congruence.
Qed.

(* soundness for every residue f (negative, >= m), every modulus m >= 1 and every bound 1 <= k <= m;
   and also for bounds k > m as long as the (reduced) residue is below k: the widening loops produce those *)
Definition Ratrecon_sound := forall f m k fr r, 1 <= m -> 1 <= k -> (k <= m \/ 0 <= f < k \/ f < 0) ->
  ratrecon f m k fr = Some r -> sound f m k fr r.
Lemma ratrecon_sound : Ratrecon_sound.
Proof.
  intros f m k fr r Hm Hk Hdom. unfold ratrecon, ratrecon_fuel.
  destruct (init_r1_spec f m ltac:(lia)) as [H0 HF].
  destruct (Z.le_gt_cases k m) as [Le|Gt].
  - destruct (loop (fuel_of m) k m 0 (init_r1 f m) 1) as [s|] eqn:E; [|discriminate].
    intros R; inversion R; subst r; clear R.
    pose proof (loop_inv (init_r1 f m) m k Hk _ _ _ _ _ _ (Inv_init _ m k H0 ltac:(lia)) E) as HI.
    destruct s as [[[r0 t0] r1] t1]. destruct HI as [HI Hlt].
    eapply finish_sound; eauto; lia.
  - assert (Hs : init_r1 f m < k).
    { destruct Hdom as [?|[?|N]]; [lia| |pose proof (init_r1_lt f m ltac:(lia) N); lia].
      unfold init_r1. destruct (Z.ltb_spec f 0); lia. }
    rewrite loop_stop by exact Hs. rewrite finish_trivial.
    intros R; inversion R; subst r; clear R. unfold sound. intros _.
    split; [rewrite Z.mul_1_l; exact HF|]. split; [lia|]. split; [lia|]. intros _; apply Z.gcd_1_r.
Qed.

(* ---------------------------------------------------------------- RationalReconstruction(a,b,x,m): k = sqrt m *)
Lemma sqrt_range m : 1 <= m -> 1 <= Z.sqrt m <= m.
Proof.
  intros H. pose proof (Z.sqrt_spec m ltac:(lia)) as S. pose proof (Z.sqrt_nonneg m) as N.
  unfold Z.succ in S. set (s := Z.sqrt m) in *.
  assert (1 <= s) by (destruct (Z.eq_dec s 0) as [E|E]; [rewrite E in S; lia|lia]).
  split; [lia|nia].
Qed.

Definition RR4_sound := forall f m r, 1 <= m -> RR4 f m = Some r -> sound f m (Z.sqrt m) true r.
Lemma rr4_sound : RR4_sound.
Proof.
  intros f m r Hm. unfold RR4. pose proof (sqrt_range m Hm).
  apply ratrecon_sound; lia.
Qed.

(* ---------------------------------------------------------------- RationalReconstruction(a,b,x,m,a_bound,b_bound)
   the body with `bound = x/bb` (HISTORY once frag/C11.fix-2.diff is in /repo): the bound it guarantees is its own
   max(x/b_bound, a_bound), NOT the caller's a_bound - see ProofsTotal.RR6_numbound_refuted / RR6f_sound *)
Definition rr6_k (x a_bound b_bound : Z) : Z :=
  let bound := Z.quot x b_bound in if bound >? a_bound then bound else a_bound.

Definition RR6_sound := forall x m ab bb ok n d, 1 <= m -> 1 <= rr6_k x ab bb <= m ->
  RR6 x m ab bb = Some (ok, n, d) -> ok = true ->
  cong m n (d * x) /\ Z.abs n < rr6_k x ab bb /\ 0 < d <= bb /\ Z.gcd n d = 1.
Lemma rr6_sound : RR6_sound.
Proof.
  intros x m ab bb ok n d Hm Hk. unfold RR6. destruct (bb =? 0); [discriminate|]. fold (rr6_k x ab bb).
  destruct (ratrecon x m (rr6_k x ab bb) true) as [[[ok' a] b]|] eqn:E; [|discriminate].
  intros R; inversion R; subst; clear R. intros Hok.
  apply andb_true_iff in Hok. destruct Hok as [Hok Hb]. apply Z.leb_le in Hb.
  pose proof (ratrecon_sound x m (rr6_k x ab bb) true _ Hm (proj1 Hk) (or_introl (proj2 Hk)) E) as S. cbn in S.
  destruct (S Hok) as (C & A & D & G). repeat split; auto; lia.
Qed.

(* ---------------------------------------------------------------- RationalReconstruction(a,b,f,m,k,forcereduce,recursive) *)
Lemma normalise_spec f m : 1 <= m -> 0 <= normalise f m <= m /\ cong m (normalise f m) f.
Proof.
  intros Hm. unfold normalise.
  destruct (Z.ltb_spec f 0) as [N|N].
  - destruct (Z.gtb_spec (- f) m) as [G|G].
    + assert (B : - m < Z.rem f m <= 0).
      { replace f with (- - f) by lia. rewrite Z.rem_opp_l by lia.
        pose proof (Z.rem_bound_pos (- f) m ltac:(lia) ltac:(lia)). lia. }
      pose proof (Z.quot_rem' f m) as QR.
      destruct (Z.ltb_spec (Z.rem f m) 0).
      * split; [lia|]. exists (1 - Z.quot f m). lia.
      * split; [lia|]. exists (- Z.quot f m). lia.
    + destruct (Z.ltb_spec f 0); [|lia]. split; [lia|]. exists 1; lia.
  - destruct (Z.gtb_spec f m) as [G|G].
    + pose proof (Z.rem_bound_pos f m ltac:(lia) ltac:(lia)) as B.
      pose proof (Z.quot_rem' f m) as QR.
      split; [lia|]. exists (- Z.quot f m). lia.
    + split; [lia|apply cong_refl].
Qed.

(* a success obtained with some bound k' between lo and the residue *)
Definition good (f x m lo : Z) (fr : bool) (r : res) : Prop :=
  let '(ok, n, d) := r in
  ok = true -> cong m n (d * x) /\ 0 < d /\ (fr = true -> Z.gcd n d = 1) /\
               exists k', (k' = lo \/ lo < k' < f) /\ Z.abs n < k'.

Lemma widen_good f x m lo fr : 1 <= m -> 1 <= lo -> 0 <= x <= m ->
  forall fuel newk cur r, lo < newk -> good f x m lo fr cur ->
  widen fuel x m f newk fr cur = Some r -> good f x m lo fr r.
Proof.
  intros Hm Hlo Hx fuel; induction fuel as [|n IH]; intros newk cur r Hn Hc; cbn [widen];
    destruct cur as [[ok a] b].
  - destruct (negb ok && (newk <? f)); [discriminate|]. intros R; inversion R; subst; exact Hc.
  - destruct (negb ok && (newk <? f)) eqn:Cnd; [|intros R; inversion R; subst; exact Hc].
    apply andb_true_iff in Cnd. destruct Cnd as [_ Hlt]. apply Z.ltb_lt in Hlt.
    destruct (ratrecon x m newk fr) as [r'|] eqn:E; [|discriminate].
    apply IH; [lia|].
    assert (Hd : newk <= m \/ 0 <= x < newk \/ x < 0) by lia.
    pose proof (ratrecon_sound x m newk fr r' Hm ltac:(lia) Hd E) as S.
    destruct r' as [[ok' a'] b']. cbn in S |- *. intros Hok. destruct (S Hok) as (C & A & D & G).
    repeat split; auto. exists newk; split; [right; lia|exact A].
Qed.

Definition RR7_sound := forall f m k fr rc ok n d, 1 <= m -> 1 <= k <= m ->
  RR7 f m k fr rc = Some (ok, n, d) -> ok = true ->
  cong m n (d * f) /\ 0 < d /\ (fr = true -> Z.gcd n d = 1) /\
  exists k', (k' = k \/ (rc = true /\ k < k' < f)) /\ Z.abs n < k'.
Lemma rr7_sound : RR7_sound.
Proof.
  intros f m k fr rc ok n d Hm Hk. unfold RR7.
  destruct (normalise_spec f m Hm) as [Hx HC]. set (x := normalise f m) in *.
  destruct (Z.eqb_spec x 0) as [Z0|Z0].
  - intros R; inversion R; subst ok n d; clear R. intros _.
    split; [rewrite Z0 in HC; rewrite Z.mul_1_l; exact HC|]. split; [lia|].
    split; [intros _; reflexivity|]. exists k; split; [left; reflexivity|cbn; lia].
  - destruct (ratrecon x m k fr) as [r0|] eqn:E; [|discriminate].
    pose proof (ratrecon_sound x m k fr r0 Hm (proj1 Hk) (or_introl (proj2 Hk)) E) as S.
    destruct rc.
    + intros W Hok.
      assert (G0 : good f x m k fr r0).
      { destruct r0 as [[ok0 a0] b0]. cbn in S |- *. intros Hok0. destruct (S Hok0) as (C & A & D & G).
        repeat split; auto. exists k; split; [left; reflexivity|exact A]. }
      pose proof (widen_good f x m k fr Hm (proj1 Hk) Hx (widen_fuel f) (k + 1) r0 (ok, n, d) ltac:(lia) G0 W) as Gr.
      cbn in Gr. destruct (Gr Hok) as (C & D & G & k' & Hk' & A).
      repeat split; auto.
      * eapply cong_chg; eassumption.
      * exists k'; split; [|exact A]. destruct Hk' as [->|Hk']; [left; reflexivity|right; split; [reflexivity|lia]].
    + intros R; inversion R; subst r0; clear R. intros Hok. cbn in S.
      destruct (S Hok) as (C & A & D & G). repeat split; auto.
      * eapply cong_chg; eassumption.
      * exists k; split; [left; reflexivity|exact A].
Qed.

(* ---------------------------------------------------------------- callers without a success report
   Rational(f,m,k,recurs) and QField<Rational>::ratrecon keep whatever pair the last call of ratrecon left:
   whether or not ratrecon succeeded, that pair satisfies the congruence and has a positive denominator. *)
Definition always (f m : Z) (r : res) : Prop :=
  let '(_, n, d) := r in cong m n (d * f) /\ 0 < d.

Lemma finish_always F f m k fr r0 t0 r1 t1 :
  0 < m -> 1 <= k <= m -> cong m F f ->
  Inv F m k r0 t0 r1 t1 -> r1 < k ->
  always f m (finish f m k fr (r0, t0, r1, t1)).
Proof.
  intros Hm Hk HF HI Hlt.
  pose proof HI as [c0 c1 det sgn hr1 hr0 ht0 ht1].
  assert (Ht1 : t1 <> 0) by (intros E; destruct (ht1 E); lia).
  assert (C1 : cong m (norm_num r1 t1) (norm_den t1 * f)) by (apply norm_cong; eapply cong_chg; eassumption).
  assert (D1 : 0 < norm_den t1) by (rewrite norm_den_abs; lia).
  unfold finish.
  destruct fr; [|cbn; split; assumption].
  destruct (negb (Z.gcd (norm_num r1 t1) (norm_den t1) =? 1)); [|cbn; split; assumption].
  destruct (Z.eqb_spec (norm_num r1 t1) 0) as [Z0|Z0].
  { destruct (Z.rem f m =? 0); cbn; split; assumption. }
  assert (Hr1 : 0 < r1) by (unfold norm_num in Z0; destruct (t1 <? 0); lia).
  assert (Hq : Z.quot (r0 + r1 - k) r1 = (r0 + r1 - k) / r1) by (apply Z.quot_div_nonneg; lia).
  rewrite Hq. set (q := (r0 + r1 - k) / r1).
  assert (Hq1 : 1 <= q) by (apply Z.div_le_lower_bound; lia).
  assert (Ht0' : Z.abs (t0 - q * t1) = Z.abs t0 + q * Z.abs t1).
  { replace (q * t1) with (t1 * q) by lia. apply abs_sub_opp; lia. }
  assert (CC : cong m (norm_num (r0 - q * r1) (t0 - q * t1)) (norm_den (t0 - q * t1) * f)).
  { apply norm_cong. eapply cong_chg; [|exact HF].
    replace (q * r1) with (r1 * q) by lia. replace (q * t1) with (t1 * q) by lia.
    eapply cong_trans; [apply cong_sub_mul; [exact c0|exact c1]|]. exists 0; lia. }
  assert (DD : 0 < norm_den (t0 - q * t1)) by (rewrite norm_den_abs, Ht0'; nia).
  destruct (negb (Z.gcd (norm_num (r0 - q * r1) (t0 - q * t1)) (norm_den (t0 - q * t1)) =? 1)); cbn; split; assumption.
Qed.

Definition Ratrecon_always := forall f m k fr r, 1 <= m -> 1 <= k -> (k <= m \/ 0 <= f < k \/ f < 0) ->
  ratrecon f m k fr = Some r -> always f m r.
Lemma ratrecon_always : Ratrecon_always.
Proof.
  intros f m k fr r Hm Hk Hdom. unfold ratrecon, ratrecon_fuel.
  destruct (init_r1_spec f m ltac:(lia)) as [H0 HF].
  destruct (Z.le_gt_cases k m) as [Le|Gt].
  - destruct (loop (fuel_of m) k m 0 (init_r1 f m) 1) as [s|] eqn:E; [|discriminate].
    intros R; inversion R; subst r; clear R.
    pose proof (loop_inv (init_r1 f m) m k Hk _ _ _ _ _ _ (Inv_init _ m k H0 ltac:(lia)) E) as HI.
    destruct s as [[[r0 t0] r1] t1]. destruct HI as [HI Hlt].
    eapply finish_always; eauto; lia.
  - assert (Hs : init_r1 f m < k).
    { destruct Hdom as [?|[?|N]]; [lia| |pose proof (init_r1_lt f m ltac:(lia) N); lia].
      unfold init_r1. destruct (Z.ltb_spec f 0); lia. }
    rewrite loop_stop by exact Hs. rewrite finish_trivial.
    intros R; inversion R; subst r; clear R. unfold always.
    split; [rewrite Z.mul_1_l; exact HF|lia].
Qed.

(* without forcereduce ratrecon always answers true: the widening loops then never iterate *)
Lemma finish_noreduce f m k s : fst (fst (finish f m k false s)) = true.
Proof. destruct s as [[[r0 t0] r1] t1]. reflexivity. Qed.
Lemma ratrecon_noreduce f m k r : ratrecon f m k false = Some r -> fst (fst r) = true.
Proof.
  unfold ratrecon, ratrecon_fuel. destruct (loop (fuel_of m) k m 0 (init_r1 f m) 1) as [s|]; [|discriminate].
  intros R; inversion R. apply finish_noreduce.
Qed.

(* a bound above the modulus with an unreduced residue f >= k (what the widening loop of Rational(f,m,k,true)
   reaches for f > m): one swap, the loop stops at (f,1,m,0), and the second candidate is (f - q m) / 1 *)
Lemma ratrecon_bigk f m k : 2 <= m -> m < k -> k <= f ->
  ratrecon f m k true = Some (true, f - Z.quot (f + m - k) m * m, 1).
Proof.
  intros Hm Hk Hf. unfold ratrecon, ratrecon_fuel.
  assert (Hi : init_r1 f m = f) by (unfold init_r1; destruct (Z.ltb_spec f 0); lia). rewrite Hi.
  assert (Hfu : exists n, fuel_of m = S n).
  { unfold fuel_of. pose proof (Z.log2_nonneg m). exists (Z.to_nat (2 * Z.log2 m + 3)). lia. }
  destruct Hfu as [n ->]. cbn [loop].
  destruct (Z.geb_spec f k) as [_|]; [|lia].
  rewrite (Z.quot_small m f) by lia. rewrite !Z.mul_0_r, !Z.sub_0_r.
  rewrite loop_stop by lia.
  unfold finish, norm_num, norm_den. cbn [Z.ltb Z.compare].
  rewrite Z.gcd_0_r, (Z.abs_eq m) by lia.
  destruct (Z.eqb_spec m 1); [lia|]. cbn [negb].
  destruct (Z.eqb_spec m 0); [lia|].
  rewrite !Z.mul_0_r, Z.sub_0_r. cbn [Z.ltb Z.compare]. rewrite Z.gcd_1_r. reflexivity.
Qed.

(* the Rational constructor / QField::ratrecon for EVERY residue f, any flags / recurs *)
Lemma widen_always f m fr : 2 <= m ->
  forall fuel newk cur r, 1 <= newk -> always f m cur -> (fr = false -> fst (fst cur) = true) ->
  widen fuel f m f newk fr cur = Some r -> always f m r.
Proof.
  intros Hm fuel; induction fuel as [|n IH]; intros newk cur r Hn Hc Hfr; cbn [widen];
    destruct cur as [[ok a] b].
  - destruct (negb ok && (newk <? f)); [discriminate|]. intros R; inversion R; subst; exact Hc.
  - destruct (negb ok && (newk <? f)) eqn:Cnd; [|intros R; inversion R; subst; exact Hc].
    apply andb_true_iff in Cnd. destruct Cnd as [Hok Hlt]. apply Z.ltb_lt in Hlt.
    assert (fr = true) by (destruct fr; [reflexivity|]; cbn in Hfr; rewrite (Hfr eq_refl) in Hok; discriminate).
    subst fr.
    destruct (ratrecon f m newk true) as [r'|] eqn:E; [|discriminate].
    apply IH; [lia| |discriminate].
    destruct (Z.le_gt_cases newk m) as [Le|Gt].
    + exact (ratrecon_always f m newk true r' ltac:(lia) ltac:(lia) (or_introl Le) E).
    + rewrite (ratrecon_bigk f m newk Hm Gt ltac:(lia)) in E. inversion E; subst r'. unfold always.
      split; [|lia]. rewrite Z.mul_1_l. exists (- Z.quot (f + m - newk) m). lia.
Qed.

Definition RatCtor_always := forall f m k flags recurs r, 2 <= m -> 1 <= k <= m ->
  RatCtor f m k flags recurs = Some r -> always f m r.
Lemma ratctor_always : RatCtor_always.
Proof.
  intros f m k flags recurs r Hm Hk. unfold RatCtor.
  destruct (ratrecon f m k flags) as [r0|] eqn:E; [|discriminate].
  pose proof (ratrecon_always f m k flags r0 ltac:(lia) (proj1 Hk) (or_introl (proj2 Hk)) E) as A0.
  destruct recurs.
  - intros W. apply (widen_always f m flags Hm (widen_fuel f) (k + 1) r0 r ltac:(lia) A0); [|exact W].
    intros ->. exact (ratrecon_noreduce f m k r0 E).
  - intros R; inversion R; subst; exact A0.
Qed.

(* QField<Rational>::ratrecon(r,f,m,k,recurs) and (r,f,m,recurs) are the constructor with k resp. sqrt m *)
Definition QField_always := forall f m k flags recurs r, 2 <= m ->
  (1 <= k <= m -> QF_ratrecon_k f m k flags recurs = Some r -> always f m r) /\
  (QF_ratrecon f m flags recurs = Some r -> always f m r).
Lemma qfield_always : QField_always.
Proof.
  intros f m k flags recurs r Hm. split.
  - intros Hk. apply ratctor_always; assumption.
  - apply ratctor_always; [assumption|apply sqrt_range; lia].
Qed.
