(* C11 — totality of every wrapper ("the model never answers None inside the domain": the conditional soundness theorems are
   not vacuous for lack of fuel), the repaired 6-argument RationalReconstruction (RR6f), and the refutation of the numerator-bound
   clause for the body with `bound = x/bb` (RR6). *)
From Coq Require Import ZArith Lia Bool Znumtheory.
From C11 Require Import Model ProofsLoop ProofsSound ProofsComplete ProofsEntry.
Local Open Scope Z_scope.

(* ---------------------------------------------------------------- the widening loop *)
Lemma widen_total x m f fr : 2 <= m -> forall fuel newk cur, 1 <= newk -> f < newk * 2 ^ (Z.of_nat fuel) ->
  widen fuel x m f newk fr cur <> None.
Proof.
  intros Hm fuel; induction fuel as [|n IH]; intros newk cur Hn Hf; cbn [widen]; destruct cur as [[ok a] b].
  - change (2 ^ Z.of_nat 0) with 1 in Hf.
    destruct (Z.ltb_spec newk f); [lia|]. rewrite andb_false_r. discriminate.
  - destruct (negb ok && (newk <? f)); [|discriminate].
    pose proof (ratrecon_total x m newk fr Hm Hn) as T.
    destruct (ratrecon x m newk fr) as [r|]; [|congruence].
    apply IH; [lia|].
    rewrite Nat2Z.inj_succ, Z.pow_succ_r in Hf by lia. lia.
Qed.

Lemma widen_fuel_enough f k : 1 <= k -> f < (k + 1) * 2 ^ (Z.of_nat (widen_fuel f)).
Proof.
  intros Hk. unfold widen_fuel.
  pose proof (Z.log2_nonneg f) as L.
  rewrite Z2Nat.id by lia.
  assert (P : 0 < 2 ^ (Z.log2 f + 2)) by (apply Z.pow_pos_nonneg; lia).
  destruct (Z_le_gt_dec f 0) as [N|Pf]; [nia|].
  pose proof (Z.log2_spec f ltac:(lia)) as [_ S]. unfold Z.succ in S.
  replace (Z.log2 f + 2) with (Z.succ (Z.log2 f + 1)) in * by lia.
  rewrite (Z.pow_succ_r 2 (Z.log2 f + 1)) in * by lia. nia.
Qed.

Definition RR7_total := forall f m k fr rc, 2 <= m -> 1 <= k -> RR7 f m k fr rc <> None.
Lemma rr7_total : RR7_total.
Proof.
  intros f m k fr rc Hm Hk. unfold RR7.
  destruct (normalise f m =? 0); [discriminate|].
  pose proof (ratrecon_total (normalise f m) m k fr Hm Hk) as T.
  destruct (ratrecon (normalise f m) m k fr) as [r|]; [|congruence].
  destruct rc; [|discriminate].
  apply widen_total; [exact Hm|lia|apply widen_fuel_enough; exact Hk].
Qed.

Definition RatCtor_total := forall f m k fl rc, 2 <= m -> 1 <= k -> RatCtor f m k fl rc <> None.
Lemma ratctor_total : RatCtor_total.
Proof.
  intros f m k fl rc Hm Hk. unfold RatCtor.
  pose proof (ratrecon_total f m k fl Hm Hk) as T.
  destruct (ratrecon f m k fl) as [r|]; [|congruence].
  destruct rc; [|discriminate].
  apply widen_total; [exact Hm|lia|apply widen_fuel_enough; exact Hk].
Qed.

Definition QField_total := forall f m k fl rc, 2 <= m ->
  (1 <= k -> QF_ratrecon_k f m k fl rc <> None) /\ QF_ratrecon f m fl rc <> None.
Lemma qfield_total : QField_total.
Proof.
  intros f m k fl rc Hm. split.
  - intros Hk. apply ratctor_total; assumption.
  - apply ratctor_total; [assumption|]. pose proof (sqrt_range m ltac:(lia)). lia.
Qed.

Definition RR4_total := forall f m, 2 <= m -> RR4 f m <> None.
Lemma rr4_total : RR4_total.
Proof.
  intros f m Hm. unfold RR4. apply ratrecon_total; [exact Hm|]. pose proof (sqrt_range m ltac:(lia)). lia.
Qed.

(* the 6-argument form: None exactly stands for the division by zero of `x/bb` outside the hypotheses below *)
Definition RR6_total := forall x m ab bb, 2 <= m -> 1 <= rr6_k x ab bb -> bb <> 0 -> RR6 x m ab bb <> None.
Lemma rr6_total : RR6_total.
Proof.
  intros x m ab bb Hm Hk Hb. unfold RR6.
  destruct (Z.eqb_spec bb 0); [contradiction|]. fold (rr6_k x ab bb).
  pose proof (ratrecon_total x m (rr6_k x ab bb) true Hm Hk) as T.
  destruct (ratrecon x m (rr6_k x ab bb) true) as [[[ok a] b]|]; [discriminate|congruence].
Qed.

Definition RR6f_total := forall x m ab bb, 2 <= m -> 1 <= ab -> RR6f x m ab bb <> None.
Lemma rr6f_total : RR6f_total.
Proof.
  intros x m ab bb Hm Hk. unfold RR6f.
  pose proof (ratrecon_total x m ab true Hm Hk) as T.
  destruct (ratrecon x m ab true) as [[[ok a] b]|]; [discriminate|congruence].
Qed.

(* ---------------------------------------------------------------- the repaired 6-argument form: the caller's bounds *)
Definition RR6f_sound := forall x m ab bb ok n d, 1 <= m -> 1 <= ab <= m ->
  RR6f x m ab bb = Some (ok, n, d) -> ok = true ->
  cong m n (d * x) /\ Z.abs n < ab /\ 0 < d <= bb /\ Z.gcd n d = 1.
Lemma rr6f_sound : RR6f_sound.
Proof.
  intros x m ab bb ok n d Hm Hk. unfold RR6f.
  destruct (ratrecon x m ab true) as [[[ok' a] b]|] eqn:E; [|discriminate].
  intros R; inversion R; subst; clear R. intros Hok.
  apply andb_true_iff in Hok. destruct Hok as [Hok Hb]. apply Z.leb_le in Hb.
  pose proof (ratrecon_sound x m ab true _ Hm (proj1 Hk) (or_introl (proj2 Hk)) E) as S. cbn in S.
  destruct (S Hok) as (C & A & D & G). repeat split; auto; lia.
Qed.

Definition RR6f_complete := forall x m ab bb a b, 2 <= m -> 1 <= ab <= m ->
  0 < b -> b <= bb -> Z.gcd a b = 1 -> cong m a (b * x) ->
  Z.abs a * m + b * ab * ab <= ab * m ->
  RR6f x m ab bb = Some (true, a, b).
Lemma rr6f_complete : RR6f_complete.
Proof.
  intros x m ab bb a b Hm Hk Hb Hbb Hg Hc Hsz. unfold RR6f.
  rewrite (ratrecon_complete x m ab true a b Hm Hk Hb Hg Hc Hsz).
  destruct (Z.leb_spec b bb); [reflexivity|lia].
Qed.

(* the body with bound = x/bb does not honour the caller's numerator bound: 31 mod 101, numbound 2, denbound 3 -> -8/3 *)
Definition RR6_numbound_refuted := exists x m ab bb n d,
  2 <= m /\ 1 <= ab <= m /\ 1 <= bb /\ RR6 x m ab bb = Some (true, n, d) /\ ab <= Z.abs n.
Lemma rr6_numbound_refuted : RR6_numbound_refuted.
Proof.
  exists 31, 101, 2, 3, (-8), 3. repeat split; try lia; try (vm_compute; reflexivity).
Qed.

(* ---------------------------------------------------------------- successes exist (the conditional theorems are not vacuous) *)
Example rr6_success_example : RR6 3 7 2 4 = Some (true, -1, 2).
Proof. vm_compute. reflexivity. Qed.
Example rr6f_success_example : RR6f 3 7 2 4 = Some (true, -1, 2).
Proof. vm_compute. reflexivity. Qed.
Example rr6f_fixed_example : RR6f 31 101 2 3 = Some (false, -1, 13).
Proof. vm_compute. reflexivity. Qed.
Example rr7_success_example : RR7 (-485) 250 14 true true = Some (true, 5, 17).
Proof. vm_compute. reflexivity. Qed.
Example rr7_widen_example : exists n d, RR7 75 250 17 true false = Some (false, n, d) /\ RR7 75 250 17 true true = Some (true, -25, 3).
Proof. eexists; eexists. split; vm_compute; reflexivity. Qed.
