(* C11 property theorems.  Nothing but statements closed by `exact`, each followed by Print Assumptions.
   Model.v follows src/kernel/rational/givratreconstruct.C; PolyModel.v follows src/library/poly1/givpoly1ratrecon.inl.
   cong m a b := exists c, a - b = c * m.
   sound f m k fr (ok,n,d) := ok = true -> cong m n (d*f) /\ |n| < k /\ 0 < d /\ (fr = true -> Z.gcd n d = 1). *)
From Coq Require Import ZArith.
From C11 Require Import Model ProofsLoop ProofsSound ProofsComplete PolyModel PolyProofs.
Local Open Scope Z_scope.

(* the loop of ratrecon terminates within the fuel 2*log2 m + 4 for every f, m >= 2, k >= 1 *)
Theorem C11_ratrecon_terminates : Ratrecon_total.              Proof. exact ratrecon_total. Qed.
Print Assumptions C11_ratrecon_terminates.
(* soundness of Rational::ratrecon for all f (negative, >= m), m >= 1, 1 <= k <= m, with and without forcereduce *)
Theorem C11_ratrecon_sound : Ratrecon_sound.                   Proof. exact ratrecon_sound. Qed.
Print Assumptions C11_ratrecon_sound.
(* RationalReconstruction(a,b,x,m): bound sqrt m, reduced *)
Theorem C11_rr4_sound : RR4_sound.                             Proof. exact rr4_sound. Qed.
Print Assumptions C11_rr4_sound.
(* RationalReconstruction(a,b,f,m,k,forcereduce,recursive) including the widening loop *)
Theorem C11_rr7_sound : RR7_sound.                             Proof. exact rr7_sound. Qed.
Print Assumptions C11_rr7_sound.
(* RationalReconstruction(a,b,x,m,a_bound,b_bound)  (as repaired by /repo commit 68125ac) *)
Theorem C11_rr6_sound : RR6_sound.                             Proof. exact rr6_sound. Qed.
Print Assumptions C11_rr6_sound.
(* Rational(f,m,k,recurs) / QField<Rational>::ratrecon (no success report): for EVERY f, m >= 2, 1 <= k <= m, any flags / recurs
   (widening loop beyond m included) the stored pair has num == den*f (mod m) and den > 0 *)
Theorem C11_ratrecon_pair_always_congruent : Ratrecon_always.  Proof. exact ratrecon_always. Qed.
Print Assumptions C11_ratrecon_pair_always_congruent.
Theorem C11_rational_ctor_congruent : RatCtor_always.         Proof. exact ratctor_always. Qed.
Print Assumptions C11_rational_ctor_congruent.
Theorem C11_qfield_ratrecon_congruent : QField_always.        Proof. exact qfield_always. Qed.
Print Assumptions C11_qfield_ratrecon_congruent.
(* completeness: any coprime a/b, b > 0, a == b f (mod m), |a| m + b k^2 <= k m, is returned exactly *)
Theorem C11_ratrecon_complete : Ratrecon_complete.             Proof. exact ratrecon_complete. Qed.
Print Assumptions C11_ratrecon_complete.
(* the property's envelope: 4|a| <= sqrt m, 4 b <= sqrt m, default bound *)
Theorem C11_rr4_complete : RR4_complete.                       Proof. exact rr4_complete. Qed.
Print Assumptions C11_rr4_complete.
Theorem C11_rr4_complete_inverse : RR4_complete_inverse.       Proof. exact rr4_complete_inverse. Qed.
Print Assumptions C11_rr4_complete_inverse.
(* polynomial ratrecon: N == D*P (mod M), deg N <= dk, D <> 0, over every ring with a degree function *)
Theorem C11_poly_ratrecon_sound : Poly_ratrecon_sound.         Proof. exact poly_ratrecon_sound_full. Qed.
Print Assumptions C11_poly_ratrecon_sound.
(* ratreconcheck and the 6-argument ratrecon: a success passed the gcd-degree test, is the pair of ratrecon (possibly times the
   unit 1/leadcoef D) and still satisfies congruence, degree bound and D <> 0 *)
Theorem C11_poly_ratreconcheck_sound : Poly_ratreconcheck_sound. Proof. exact poly_ratreconcheck_sound_full. Qed.
Print Assumptions C11_poly_ratreconcheck_sound.
(* ... and it terminates within the fuel deg P + deg M + 4 whenever div is a Euclidean quotient (deg (a - (a div b) b) < deg b) *)
Theorem C11_poly_ratrecon_terminates : Poly_ratrecon_total.   Proof. exact poly_ratrecon_total_full. Qed.
Print Assumptions C11_poly_ratrecon_terminates.
