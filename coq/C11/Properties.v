(* C11 property theorems.  Nothing but statements closed by `exact`, each followed by Print Assumptions.
   Model.v follows src/kernel/rational/givratreconstruct.C; PolyModel.v follows src/library/poly1/givpoly1ratrecon.inl.
   cong m a b := exists c, a - b = c * m.
   sound f m k fr (ok,n,d) := ok = true -> cong m n (d*f) /\ |n| < k /\ 0 < d /\ (fr = true -> Z.gcd n d = 1). *)
From Coq Require Import ZArith.
From C11 Require Import Model ProofsLoop ProofsSound ProofsComplete ProofsEntry PolyModel PolyProofs PolyLists.
Local Open Scope Z_scope.

(* the loop of ratrecon terminates within the fuel 2*log2 m + 4 for every f, m >= 2, k >= 1 *)
Theorem C11_ratrecon_terminates : Ratrecon_total.              Proof. exact ratrecon_total. Qed.
Print Assumptions C11_ratrecon_terminates.
(* soundness of Rational::ratrecon for all f (negative, >= m), m >= 1, 1 <= k <= m, with and without forcereduce *)
Theorem C11_ratrecon_sound : Ratrecon_sound.                   Proof. exact ratrecon_sound. Qed.
Print Assumptions C11_ratrecon_sound.
(* RationalReconstruction(a,b,x,m): bound sqrt m, reduced *)
Theorem C11_rr4_sound : RR4_sound.                             Proof. exact rr4_sound. Qed.
Print Assumptions C11_rr4_sound.
(* RationalReconstruction(a,b,f,m,k,forcereduce,recursive) including the widening loop *)
Theorem C11_rr7_sound : RR7_sound.                             Proof. exact rr7_sound. Qed.
Print Assumptions C11_rr7_sound.
(* RationalReconstruction(a,b,x,m,a_bound,b_bound)  (as repaired by /repo commit 68125ac) *)
Theorem C11_rr6_sound : RR6_sound.                             Proof. exact rr6_sound. Qed.
Print Assumptions C11_rr6_sound.
(* Rational(f,m,k,recurs) / QField<Rational>::ratrecon (no success report): for EVERY f, m >= 2, 1 <= k <= m, any flags / recurs
   (widening loop beyond m included) the stored pair has num == den*f (mod m) and den > 0 *)
Theorem C11_ratrecon_pair_always_congruent : Ratrecon_always.  Proof. exact ratrecon_always. Qed.
Print Assumptions C11_ratrecon_pair_always_congruent.
Theorem C11_rational_ctor_congruent : RatCtor_always.         Proof. exact ratctor_always. Qed.
Print Assumptions C11_rational_ctor_congruent.
Theorem C11_qfield_ratrecon_congruent : QField_always.        Proof. exact qfield_always. Qed.
Print Assumptions C11_qfield_ratrecon_congruent.
(* completeness: any coprime a/b, b > 0, a == b f (mod m), |a| m + b k^2 <= k m, is returned exactly *)
Theorem C11_ratrecon_complete : Ratrecon_complete.             Proof. exact ratrecon_complete. Qed.
Print Assumptions C11_ratrecon_complete.
(* the property's envelope: 4|a| <= sqrt m, 4 b <= sqrt m, default bound *)
Theorem C11_rr4_complete : RR4_complete.                       Proof. exact rr4_complete. Qed.
Print Assumptions C11_rr4_complete.
Theorem C11_rr4_complete_inverse : RR4_complete_inverse.       Proof. exact rr4_complete_inverse. Qed.
Print Assumptions C11_rr4_complete_inverse.
(* the Reduce guarantee of the callers without a success report: when the last call of ratrecon made by Rational(f,m,k,recurs)
   (resp. by both QField<Rational>::ratrecon forms) succeeded, the stored pair has num == den*f (mod m), den > 0, gcd = 1 under
   Rational::flags = Reduce, and |num| < k' for the bound k' in use (k, or k < k' < f inside the widening loop, also past m) *)
Theorem C11_rational_ctor_sound : RatCtor_sound.               Proof. exact ratctor_sound. Qed.
Print Assumptions C11_rational_ctor_sound.
Theorem C11_qfield_ratrecon_sound : QField_sound.              Proof. exact qfield_sound. Qed.
Print Assumptions C11_qfield_ratrecon_sound.
(* ... and when the first call succeeds the constructor stores exactly that reconstruction (the widening loop does not run) *)
Theorem C11_rational_ctor_first : RatCtor_first.               Proof. exact ratctor_first. Qed.
Print Assumptions C11_rational_ctor_first.
(* completeness through every other entry point: RationalReconstruction(a,b,f,m,k,fr,rc) (any representative f, also the x == 0
   shortcut), Rational(f,m,k,recurs), QField<Rational>::ratrecon with a bound and with the default bound sqrt m *)
Theorem C11_rr7_complete : RR7_complete.                       Proof. exact rr7_complete. Qed.
Print Assumptions C11_rr7_complete.
Theorem C11_rr7_complete_envelope : RR7_complete_envelope.     Proof. exact rr7_complete_envelope. Qed.
Print Assumptions C11_rr7_complete_envelope.
Theorem C11_rational_ctor_complete : RatCtor_complete.         Proof. exact ratctor_complete. Qed.
Print Assumptions C11_rational_ctor_complete.
Theorem C11_qfield_complete_k : QField_complete_k.             Proof. exact qfield_complete_k. Qed.
Print Assumptions C11_qfield_complete_k.
Theorem C11_qfield_complete : QField_complete.                 Proof. exact qfield_complete. Qed.
Print Assumptions C11_qfield_complete.
(* polynomial ratrecon: N == D*P (mod M), deg N <= dk, D <> 0, over every ring with a degree function *)
Theorem C11_poly_ratrecon_sound : Poly_ratrecon_sound.         Proof. exact poly_ratrecon_sound_full. Qed.
Print Assumptions C11_poly_ratrecon_sound.
(* ratreconcheck and the 6-argument ratrecon: a success passed the gcd-degree test, is the pair of ratrecon (possibly times the
   unit 1/leadcoef D) and still satisfies congruence, degree bound and D <> 0 *)
Theorem C11_poly_ratreconcheck_sound : Poly_ratreconcheck_sound. Proof. exact poly_ratreconcheck_sound_full. Qed.
Print Assumptions C11_poly_ratreconcheck_sound.
(* ... and it terminates within the fuel deg P + deg M + 4 whenever div is a Euclidean quotient (deg (a - (a div b) b) < deg b) *)
Theorem C11_poly_ratrecon_terminates : Poly_ratrecon_total.   Proof. exact poly_ratrecon_total_full. Qed.
Print Assumptions C11_poly_ratrecon_terminates.
(* the same three clauses for the CONCRETE coefficient-vector polynomials: every operation ratrecon calls (degree, assign,
   divmodin = Newton-inverse division + Karatsuba product, maxpyin, gcd, leadcoef, divin) is the model of Poly1Dom of coq/C08,
   over every coefficient domain satisfying the field laws, for every Karatsuba threshold >= 1; the ring and degree laws are
   proved (C08's theorems + PolyLists.v), not assumed.  Equality of polynomials is coefficientwise (C08.Spec.peq). *)
Theorem C11_list_ratrecon_sound : List_ratrecon_sound.         Proof. exact list_ratrecon_sound. Qed.
Print Assumptions C11_list_ratrecon_sound.
Theorem C11_list_ratrecon6_sound : List_ratrecon6_sound.       Proof. exact list_ratrecon6_sound. Qed.
Print Assumptions C11_list_ratrecon6_sound.
(* a success of ratreconcheck passed the gcd-degree test and is ratrecon's pair, possibly divided by leadcoef D *)
Theorem C11_list_ratreconcheck_reduced : List_ratreconcheck_reduced. Proof. exact list_ratreconcheck_reduced. Qed.
Print Assumptions C11_list_ratreconcheck_reduced.
